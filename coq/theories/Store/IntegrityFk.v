(* C09 proofs, part 4: fkIndex.CheckIntegrity and fkConstraint.CheckIntegrity (check_fkindex, check_fkcons). *)
From Coq Require Import List NArith Bool Lia.
From Storage Require Import Base.Bytes Base.BytesFacts Store.Model Store.AListFacts Store.FrameProofs
  Store.Integrity Store.IntegrityLoops.
Import ListNotations.

Section FkIndex.
  Variable sch : schema.
  Variables s f t b : name.
  Variable nullable : bool.

  Definition fkey (st : state) (i : id) : str := fv_bytes (get_field sch st s i f).
  Definition brefs (st : state) (ti : id) : list id := get_set sch st t ti b.

  (* a back-reference x held by target ti is right *)
  Definition bgood (st : state) (ti x : id) : Prop :=
    present sch st s x = true /\ nonempty (fkey st x) = true /\ fkey st x = ti.
  Definition bgoodb (st : state) (ti x : id) : bool :=
    present sch st s x && nonempty (fkey st x) && str_eqb (fkey st x) ti.
  Lemma bgoodb_spec st ti x : bgoodb st ti x = true <-> bgood st ti x.
  Proof. unfold bgoodb, bgood. rewrite !andb_true_iff, str_eqb_eq. tauto. Qed.

  (* back-references are exact (one direction each), targets exist, non-nullable fields are set *)
  Definition FA (st : state) : Prop :=
    forall ti, present sch st t ti = true -> forall x, In x (brefs st ti) -> bgood st ti x.
  Definition FB (st : state) : Prop :=
    forall i, present sch st s i = true -> nonempty (fkey st i) = true -> present sch st t (fkey st i) = true ->
              In i (brefs st (fkey st i)).
  Definition FT (st : state) : Prop :=
    forall i, present sch st s i = true -> nonempty (fkey st i) = true -> present sch st t (fkey st i) = true.
  Definition FNN (st : state) : Prop :=
    nullable = false -> forall i, present sch st s i = true -> nonempty (fkey st i) = true.
  Definition FICons (st : state) : Prop := FA st /\ FB st /\ FT st /\ FNN st.
  (* after a fix run: exact back-references; dangling references survive only in a non-nullable field *)
  Definition FIGood (st : state) : Prop := FA st /\ FB st /\ (nullable = true -> FT st).

  Lemma FICons_FIGood st : FICons st -> FIGood st.
  Proof. intros [A [B [T _]]]. split; [exact A|]. split; [exact B | intros _; exact T]. Qed.

  (* ---- loop bodies ---- *)
  Lemma scan1_ref_fst fx ti x st :
    fst (fki_scan1_ref sch fx s f t b ti x st) =
    if negb (present sch st s x) then [mkReport KBDangling fx]
    else if negb (nonempty (fkey st x)) || negb (str_eqb (fkey st x) ti) then [mkReport KBWrong fx] else [].
  Proof. unfold fki_scan1_ref, fkey. destruct (present sch st s x); cbn; [|reflexivity]. destruct (_ || _); reflexivity. Qed.

  Lemma scan1_ref_snd fx ti x st :
    snd (fki_scan1_ref sch fx s f t b ti x st) = if fx && negb (bgoodb st ti x) then backref_del sch st t ti b x else st.
  Proof.
    unfold fki_scan1_ref, bgoodb, fkey. destruct (present sch st s x); cbn.
    - destruct (nonempty _); cbn; [destruct (str_eqb _ ti); cbn|]; destruct fx; reflexivity.
    - destruct fx; reflexivity.
  Qed.

  Lemma scan1_ref_nil_iff fx ti x st : fst (fki_scan1_ref sch fx s f t b ti x st) = [] <-> bgood st ti x.
  Proof.
    rewrite scan1_ref_fst. unfold bgood. destruct (present sch st s x); cbn; [|split; [discriminate | intros [H _]; discriminate]].
    destruct (nonempty (fkey st x)); cbn; [|split; [discriminate | intros [_ [H _]]; discriminate]].
    destruct (str_eqb (fkey st x) ti) eqn:E; cbn.
    - apply str_eqb_eq in E. tauto.
    - apply str_eqb_neq in E. split; [discriminate | tauto].
  Qed.

  Lemma scan1_ref_ro ti : ro_body (fki_scan1_ref sch false s f t b ti).
  Proof. intros x st. rewrite scan1_ref_snd. reflexivity. Qed.
  Lemma scan1_id_ro : ro_body (fki_scan1_id sch false s f t b).
  Proof. intros ti st. unfold fki_scan1_id. apply run_list_ro, scan1_ref_ro. Qed.

  Lemma scan2_fst fx i st :
    fst (fki_scan2_id sch fx s f t b nullable i st) =
    if negb (nonempty (fkey st i)) then (if nullable then [] else [mkReport KNil false])
    else if negb (present sch st t (fkey st i)) then [mkReport KFkDangling (nullable && fx)]
    else if ss_mem i (brefs st (fkey st i)) then [] else [mkReport KBMissing fx].
  Proof.
    unfold fki_scan2_id, fkey, brefs. destruct (nonempty _); cbn; [|reflexivity].
    destruct (present sch st t _); cbn; [|reflexivity]. destruct (ss_mem i _); reflexivity.
  Qed.

  Lemma scan2_snd fx i st :
    snd (fki_scan2_id sch fx s f t b nullable i st) =
    if negb (nonempty (fkey st i)) then st
    else if negb (present sch st t (fkey st i)) then (if nullable && fx then clear_field sch st s i f else st)
    else if ss_mem i (brefs st (fkey st i)) then st
    else if fx then backref_add sch st t (fkey st i) b i else st.
  Proof.
    unfold fki_scan2_id, fkey, brefs. destruct (nonempty _); cbn; [|reflexivity].
    destruct (present sch st t _); cbn; [|reflexivity]. destruct (ss_mem i _); reflexivity.
  Qed.

  Lemma scan2_ro : ro_body (fki_scan2_id sch false s f t b nullable).
  Proof.
    intros i st. rewrite scan2_snd. rewrite andb_false_r.
    destruct (negb _); [reflexivity|]. destruct (negb _); [reflexivity|]. destruct (ss_mem _ _); reflexivity.
  Qed.

  (* ---- check-only ---- *)
  Theorem check_fkindex_readonly st : snd (check_fkindex sch false s f t b nullable st) = st.
  Proof. unfold check_fkindex. rewrite seq2_snd, !run_list_ro; auto using scan1_id_ro, scan2_ro. Qed.

  Lemma check_fkindex_false_fst st :
    fst (check_fkindex sch false s f t b nullable st) =
    fst (run_list (fki_scan1_id sch false s f t b) (valid_ids sch st t) st) ++
    fst (run_list (fki_scan2_id sch false s f t b nullable) (valid_ids sch st s) st).
  Proof. unfold check_fkindex. rewrite seq2_fst. rewrite (run_list_ro _ scan1_id_ro). reflexivity. Qed.

  Lemma scan1_nil_iff st :
    fst (run_list (fki_scan1_id sch false s f t b) (valid_ids sch st t) st) = [] <-> FA st.
  Proof.
    rewrite (run_list_ro_nil _ scan1_id_ro). unfold FA. split.
    - intros H ti Hp x Hx. specialize (H ti (proj2 (valid_ids_present sch st t ti) Hp)). unfold fki_scan1_id in H.
      rewrite (run_list_ro_nil _ (scan1_ref_ro ti)) in H. apply (scan1_ref_nil_iff false). apply H, Hx.
    - intros H ti Hin. apply valid_ids_present in Hin. unfold fki_scan1_id. apply (run_list_ro_nil _ (scan1_ref_ro ti)).
      intros x Hx. apply scan1_ref_nil_iff. apply (H ti Hin x Hx).
  Qed.

  Theorem check_fkindex_nil_iff st : fst (check_fkindex sch false s f t b nullable st) = [] <-> FICons st.
  Proof.
    rewrite check_fkindex_false_fst, app_nil_iff, scan1_nil_iff, (run_list_ro_nil _ scan2_ro). unfold FICons. split.
    - intros [HA H2]. split; [exact HA|].
      assert (H : forall i, present sch st s i = true ->
                   (nonempty (fkey st i) = true -> present sch st t (fkey st i) = true /\ In i (brefs st (fkey st i))) /\
                   (nonempty (fkey st i) = false -> nullable = true)).
      { intros i Hp. specialize (H2 i (proj2 (valid_ids_present sch st s i) Hp)). rewrite scan2_fst in H2.
        destruct (nonempty (fkey st i)); cbn in H2.
        - split; [intros _ | discriminate]. destruct (present sch st t (fkey st i)); cbn in H2; [|discriminate].
          destruct (ss_mem i (brefs st (fkey st i))) eqn:E; [|discriminate]. apply ss_mem_in in E. auto.
        - split; [discriminate | intros _]. destruct nullable; [reflexivity | discriminate]. }
      split; [|split].
      + intros i Hp Hn _. apply (proj1 (H i Hp)), Hn.
      + intros i Hp Hn. apply (proj1 (H i Hp)), Hn.
      + intros Hnl i Hp. destruct (nonempty (fkey st i)) eqn:E; [reflexivity|]. rewrite (proj2 (H i Hp) E) in Hnl. discriminate.
    - intros [HA [HB [HT HN]]]. split; [exact HA|]. intros i Hin. apply valid_ids_present in Hin. rewrite scan2_fst.
      destruct (nonempty (fkey st i)) eqn:En; cbn.
      + rewrite (HT i Hin En). cbn. pose proof (HB i Hin En (HT i Hin En)) as Hm. apply ss_mem_in in Hm. rewrite Hm. reflexivity.
      + destruct nullable eqn:Enl; [reflexivity|]. rewrite (HN Enl i Hin) in En. discriminate.
  Qed.

  Theorem check_fkindex_good_reports st : FIGood st ->
    forall x, In x (fst (check_fkindex sch false s f t b nullable st)) ->
      (r_kind x = KNil \/ (r_kind x = KFkDangling /\ nullable = false)) /\ r_fixed x = false.
  Proof.
    intros [HA [HB HT]] x Hx. rewrite check_fkindex_false_fst in Hx. apply in_app_or in Hx as [Hx|Hx].
    - rewrite (proj2 (scan1_nil_iff st) HA) in Hx. destruct Hx.
    - revert x Hx. apply (run_list_ro_forall _ _ scan2_ro). intros i Hin x Hx. apply valid_ids_present in Hin.
      rewrite scan2_fst in Hx. destruct (nonempty (fkey st i)) eqn:En; cbn in Hx.
      + destruct (present sch st t (fkey st i)) eqn:Ep; cbn in Hx.
        * pose proof (HB i Hin En Ep) as Hm. apply ss_mem_in in Hm. rewrite Hm in Hx. destruct Hx.
        * destruct Hx as [<-|[]]. cbn. rewrite andb_false_r. split; [|reflexivity]. right. split; [reflexivity|].
          destruct nullable; [|reflexivity]. rewrite (HT eq_refl i Hin En) in Ep. discriminate.
      + destruct nullable; [destruct Hx|]. destruct Hx as [<-|[]]. cbn. auto.
  Qed.

  (* ---- fix ---- *)
  Hypothesis Hroot : is_child sch s = false.

  (* presence, fk fields kept; back-reference sets of t only lose members *)
  Definition bshrinks (st st' : state) : Prop :=
    (forall s' i', present sch st' s' i' = present sch st s' i') /\
    (forall i', fkey st' i' = fkey st i') /\
    (forall ti x, In x (brefs st' ti) -> In x (brefs st ti)).

  Lemma bshrinks_refl st : bshrinks st st.
  Proof. split; [|split]; auto. Qed.
  Lemma bshrinks_trans a b0 c : bshrinks a b0 -> bshrinks b0 c -> bshrinks a c.
  Proof.
    intros [P1 [K1 S1]] [P2 [K2 S2]]. split; [|split].
    - intros. rewrite P2, P1. reflexivity.
    - intros. rewrite K2, K1. reflexivity.
    - intros ti x H. apply S1, S2, H.
  Qed.

  Lemma bgood_bshrinks st st' ti x : bshrinks st st' -> bgood st' ti x <-> bgood st ti x.
  Proof. intros [P [K _]]. unfold bgood. rewrite P, K. tauto. Qed.
  Lemma bgoodb_bshrinks st st' ti x : bshrinks st st' -> bgoodb st' ti x = bgoodb st ti x.
  Proof. intros [P [K _]]. unfold bgoodb. rewrite P, K. reflexivity. Qed.

  Lemma backref_del_bshrinks st ti x : bshrinks st (backref_del sch st t ti b x).
  Proof.
    split; [|split].
    - intros. apply backref_del_present.
    - intros. unfold fkey. rewrite backref_del_get_field. reflexivity.
    - intros ti' y H. unfold brefs in *. apply get_set_backref_del in H. tauto.
  Qed.

  Lemma scan1_ref_bshrinks fx ti x st : bshrinks st (snd (fki_scan1_ref sch fx s f t b ti x st)).
  Proof. rewrite scan1_ref_snd. destruct (fx && _); [apply backref_del_bshrinks | apply bshrinks_refl]. Qed.

  Lemma scan1_id_bshrinks fx ti st : bshrinks st (snd (fki_scan1_id sch fx s f t b ti st)).
  Proof.
    unfold fki_scan1_id. apply (run_list_inv (fki_scan1_ref sch fx s f t b ti) (fun st' => bshrinks st st')); [|apply bshrinks_refl].
    intros x st' H. eapply bshrinks_trans; [exact H | apply scan1_ref_bshrinks].
  Qed.

  Definition refs_ok (ti : id) (st : state) : Prop := forall x, In x (brefs st ti) -> bgood st ti x.

  Lemma refs_ok_bshrinks ti st st' : bshrinks st st' -> refs_ok ti st -> refs_ok ti st'.
  Proof. intros H Hok x Hx. apply (bgood_bshrinks st st' ti x H). apply Hok. apply (proj2 (proj2 H)), Hx. Qed.

  Lemma scan1_id_fix_ok ti st : refs_ok ti (snd (fki_scan1_id sch true s f t b ti st)).
  Proof.
    unfold fki_scan1_id.
    set (I := fun st' => bshrinks st st').
    set (Q := fun (x : id) st' => bgoodb st ti x = false -> ~ In x (brefs st' ti)).
    destruct (run_list_post (fki_scan1_ref sch true s f t b ti) I Q (get_set sch st t ti b)) with (st := st) as [Hsh HQ].
    - intros x st' _ H. eapply bshrinks_trans; [exact H | apply scan1_ref_bshrinks].
    - intros x st' _ Hs Hbad. rewrite scan1_ref_snd, (bgoodb_bshrinks st st' ti x Hs), Hbad. cbn.
      unfold brefs. intros Hin. apply get_set_backref_del in Hin. destruct Hin as [_ Hn]. apply Hn. auto.
    - intros x y st' _ _ _ Hq Hbad Hin. apply (Hq Hbad). apply (proj2 (proj2 (scan1_ref_bshrinks true ti y st'))), Hin.
    - apply bshrinks_refl.
    - intros x Hx. apply (bgood_bshrinks st _ ti x Hsh). apply bgoodb_spec.
      destruct (bgoodb st ti x) eqn:E; [reflexivity|]. exfalso.
      apply (HQ x (proj2 (proj2 Hsh) ti x Hx) E). exact Hx.
  Qed.

  Lemma scan1_fix_spec st0 :
    let st1 := snd (run_list (fki_scan1_id sch true s f t b) (valid_ids sch st0 t) st0) in
    bshrinks st0 st1 /\ FA st1.
  Proof.
    set (I := fun st' => bshrinks st0 st').
    destruct (run_list_post (fki_scan1_id sch true s f t b) I refs_ok (valid_ids sch st0 t)) with (st := st0) as [Hsh HQ].
    - intros ti st' _ H. eapply bshrinks_trans; [exact H | apply scan1_id_bshrinks].
    - intros ti st' _ _. apply scan1_id_fix_ok.
    - intros ti y st' _ _ _ Hq. eapply refs_ok_bshrinks; [apply scan1_id_bshrinks | exact Hq].
    - apply bshrinks_refl.
    - cbn zeta. split; [exact Hsh|]. intros ti Hp x Hx. rewrite (proj1 Hsh) in Hp.
      apply (HQ ti (proj2 (valid_ids_present sch st0 t ti) Hp) x Hx).
  Qed.

  (* scan 2: what one step does *)
  Definition step2_rel (st st' : state) : Prop :=
    (forall s' i', present sch st' s' i' = present sch st s' i') /\
    (forall i', fkey st' i' = fkey st i' \/ (fkey st' i' = [] /\ nonempty (fkey st i') = true /\ present sch st t (fkey st i') = false)) /\
    (forall ti x, In x (brefs st ti) -> In x (brefs st' ti)) /\
    (forall ti x, In x (brefs st' ti) -> In x (brefs st ti) \/ (present sch st s x = true /\ nonempty (fkey st x) = true /\ fkey st x = ti /\ fkey st' x = ti)).

  Lemma scan2_step_rel i st : present sch st s i = true -> step2_rel st (snd (fki_scan2_id sch true s f t b nullable i st)).
  Proof.
    intros Hp. rewrite scan2_snd. destruct (nonempty (fkey st i)) eqn:En; cbn [negb].
    2:{ split; [|split; [|split]]; auto. }
    destruct (present sch st t (fkey st i)) eqn:Ept; cbn [negb].
    - destruct (ss_mem i (brefs st (fkey st i))) eqn:Em.
      + split; [|split; [|split]]; auto.
      + split; [|split; [|split]].
        * intros. apply backref_add_present.
        * intros i'. left. unfold fkey. rewrite backref_add_get_field. reflexivity.
        * intros ti x H. unfold brefs in *. apply get_set_backref_add. left. exact H.
        * intros ti x H. unfold brefs in H. apply get_set_backref_add in H as [H|[_ [<- [_ [-> _]]]]]; [left; exact H|].
          right. split; [exact Hp|]. split; [exact En|]. split; [reflexivity|]. unfold fkey. rewrite backref_add_get_field. reflexivity.
    - rewrite andb_true_r. destruct nullable.
      + split; [|split; [|split]].
        * intros. apply clear_field_present, Hroot.
        * intros i'. unfold fkey at 1 3. rewrite (clear_field_get_field sch st s i f i' Hroot). destruct (str_eqb i i') eqn:E.
          -- apply str_eqb_eq in E. subst i'. right. auto.
          -- left. reflexivity.
        * intros ti x H. unfold brefs. rewrite (clear_field_get_set sch st s i f t ti b Hroot). exact H.
        * intros ti x H. unfold brefs in H. rewrite (clear_field_get_set sch st s i f t ti b Hroot) in H. left. exact H.
      + split; [|split; [|split]]; auto.
  Qed.

  Lemma FA_step2 st st' : step2_rel st st' -> FA st -> FA st'.
  Proof.
    intros [P [K [G N]]] HA ti Hp x Hx. rewrite P in Hp. unfold bgood. rewrite P.
    destruct (N ti x Hx) as [Hold|[H1 [H2 [H3 H4]]]].
    - destruct (HA ti Hp x Hold) as [B1 [B2 B3]]. destruct (K x) as [Hk|[_ [_ Hk]]].
      + rewrite Hk. auto.
      + rewrite B3, Hp in Hk. discriminate.
    - rewrite H4. split; [exact H1|]. split; [rewrite <- H3; exact H2 | reflexivity].
  Qed.

  (* the verdict on entity i after it was visited *)
  Definition ref_done (i : id) (st : state) : Prop :=
    (nonempty (fkey st i) = true -> present sch st t (fkey st i) = true -> In i (brefs st (fkey st i))) /\
    (nullable = true -> nonempty (fkey st i) = true -> present sch st t (fkey st i) = true).

  Lemma ref_done_step2 i st st' : step2_rel st st' -> ref_done i st -> ref_done i st'.
  Proof.
    intros [P [K [G _]]] [D1 D2]. destruct (K i) as [Hk|[Hk _]].
    - unfold ref_done. rewrite Hk, P. split; [|exact D2]. intros Hn Hpt. apply G, D1; assumption.
    - unfold ref_done. rewrite Hk. cbn. split; [discriminate | intros _; discriminate].
  Qed.

  Lemma scan2_step_done i st : ref_done i (snd (fki_scan2_id sch true s f t b nullable i st)).
  Proof.
    rewrite scan2_snd. destruct (nonempty (fkey st i)) eqn:En; cbn [negb].
    2:{ unfold ref_done. rewrite En. split; [discriminate | intros _; discriminate]. }
    destruct (present sch st t (fkey st i)) eqn:Ept; cbn [negb].
    - destruct (ss_mem i (brefs st (fkey st i))) eqn:Em.
      + apply ss_mem_in in Em. unfold ref_done. rewrite Ept. auto.
      + set (st' := backref_add sch st t (fkey st i) b i).
        assert (Hk : fkey st' i = fkey st i) by (unfold fkey, st'; rewrite backref_add_get_field; reflexivity).
        assert (Hp' : present sch st' t (fkey st i) = true) by (unfold st'; rewrite backref_add_present; exact Ept).
        unfold ref_done. rewrite Hk, Hp'. split; [|auto]. intros _ _. unfold brefs, st'. apply get_set_backref_add. right.
        split; [reflexivity|]. split; [reflexivity|]. split; [reflexivity|]. split; [reflexivity|].
        apply present_get_ent in Ept. exact Ept.
    - rewrite andb_true_r. destruct nullable eqn:Enl.
      + unfold ref_done, fkey. rewrite (clear_field_get_field sch st s i f i Hroot), str_eqb_refl. cbn.
        split; [discriminate | intros _; discriminate].
      + unfold ref_done. rewrite Ept, Enl. split; [intros _ H; discriminate H | discriminate].
  Qed.

  Lemma scan2_fix_spec st1 : FA st1 ->
    let st2 := snd (run_list (fki_scan2_id sch true s f t b nullable) (valid_ids sch st1 s) st1) in
    (forall s' i', present sch st2 s' i' = present sch st1 s' i') /\ FA st2 /\ FB st2 /\ (nullable = true -> FT st2).
  Proof.
    intros HA.
    set (I := fun st' => (forall s' i', present sch st' s' i' = present sch st1 s' i') /\ FA st').
    destruct (run_list_post (fki_scan2_id sch true s f t b nullable) I ref_done (valid_ids sch st1 s)) with (st := st1) as [[HP HA2] HQ].
    - intros i st' Hi [Hp Ha]. apply valid_ids_present in Hi. rewrite <- Hp in Hi.
      pose proof (scan2_step_rel i st' Hi) as Hr. split; [|apply (FA_step2 _ _ Hr Ha)].
      intros. rewrite (proj1 Hr), Hp. reflexivity.
    - intros i st' _ _. apply scan2_step_done.
    - intros i y st' _ Hy [Hp _] Hq. apply valid_ids_present in Hy. rewrite <- Hp in Hy.
      apply (ref_done_step2 i _ _ (scan2_step_rel y st' Hy) Hq).
    - split; [reflexivity | exact HA].
    - cbn zeta. split; [exact HP|]. split; [exact HA2|]. split.
      + intros i Hp Hn Hpt. rewrite HP in Hp. apply (proj1 (HQ i (proj2 (valid_ids_present sch st1 s i) Hp))); assumption.
      + intros Hnl i Hp Hn. rewrite HP in Hp. apply (proj2 (HQ i (proj2 (valid_ids_present sch st1 s i) Hp))); assumption.
  Qed.

  Theorem check_fkindex_fix_good st : FIGood (snd (check_fkindex sch true s f t b nullable st)).
  Proof.
    unfold check_fkindex. rewrite seq2_snd. destruct (scan1_fix_spec st) as [_ HA1].
    destruct (scan2_fix_spec _ HA1) as [_ [HA2 [HB2 HT2]]]. split; [exact HA2|]. split; assumption.
  Qed.

  (* ---- frame ---- *)
  Definition fkindex_writes : list cell := [CSet (root_of sch t) b; CFld (root_of sch s) f].

  Lemma check_fkindex_writes fx st : same_except fkindex_writes st (snd (check_fkindex sch fx s f t b nullable st)).
  Proof.
    unfold check_fkindex. apply seq2_same_except; intros st'; apply run_list_same_except.
    - intros ti st2 _. unfold fki_scan1_id. apply run_list_same_except. intros x st3 _. rewrite scan1_ref_snd.
      destruct (fx && _); [|apply same_except_refl].
      eapply same_except_mono; [|apply backref_del_same_except]. intros c [<-|[]]. left. reflexivity.
    - intros i st2 _. rewrite scan2_snd. destruct (negb _); [apply same_except_refl|]. destruct (negb _).
      + destruct (nullable && fx); [|apply same_except_refl].
        eapply same_except_mono; [|apply clear_field_same_except, Hroot]. intros c [<-|[]]. right. left. reflexivity.
      + destruct (ss_mem _ _); [apply same_except_refl|]. destruct fx; [|apply same_except_refl].
        eapply same_except_mono; [|apply backref_add_same_except]. intros c [<-|[]]. left. reflexivity.
  Qed.

  Definition fkindex_reads : list cell := CSet (root_of sch t) b :: fld_cells sch s f.

  Lemma FIGood_frame W st st' : same_except W st st' -> (forall c, In c fkindex_reads -> cmem c W = false) ->
    FIGood st -> FIGood st'.
  Proof.
    intros Hs Hr [A [B T]].
    assert (Hk : forall i, fkey st' i = fkey st i).
    { intros i. unfold fkey. rewrite (same_except_get_field sch W st st' s i f Hs); [reflexivity|].
      intros c Hc. apply Hr. right. exact Hc. }
    assert (Hb : forall ti, brefs st' ti = brefs st ti).
    { intros ti. apply (same_except_get_set sch W st st' t ti b Hs). apply Hr. left. reflexivity. }
    assert (Hp : forall s' i', present sch st' s' i' = present sch st s' i') by (intros; apply (same_except_present sch W _ _ _ _ Hs)).
    split; [|split].
    - intros ti Hpt x Hx. rewrite Hp in Hpt. rewrite Hb in Hx. unfold bgood. rewrite Hp, Hk. apply (A ti Hpt x Hx).
    - intros i H1 H2 H3. rewrite Hp in H1. rewrite Hk in *. rewrite Hp in H3. rewrite Hb. apply B; assumption.
    - intros Hnl i H1 H2. rewrite Hp in H1. rewrite Hk in *. rewrite Hp. apply (T Hnl); assumption.
  Qed.
End FkIndex.

(* ---------------------------------------------------------------- fkConstraint *)
Section FkCons.
  Variable sch : schema.
  Variables s f t : name.
  Variable nullable : bool.

  Local Notation ckey := (fkey sch s f).

  Definition CT (st : state) : Prop :=
    forall i, present sch st s i = true -> nonempty (ckey st i) = true -> present sch st t (ckey st i) = true.
  Definition CNN (st : state) : Prop :=
    nullable = false -> forall i, present sch st s i = true -> nonempty (ckey st i) = true.
  Definition FCCons (st : state) : Prop := CT st /\ CNN st.
  Definition FCGood (st : state) : Prop := nullable = true -> CT st.

  Lemma FCCons_FCGood st : FCCons st -> FCGood st.
  Proof. intros [T _] _. exact T. Qed.

  Lemma fkc_fst fx i st :
    fst (fkc_id sch fx s f t nullable i st) =
    if negb (nonempty (ckey st i)) then (if nullable then [] else [mkReport KNil false])
    else if negb (present sch st t (ckey st i)) then [mkReport KFkDangling (nullable && fx)] else [].
  Proof. unfold fkc_id, fkey. destruct (nonempty _); cbn; [|reflexivity]. destruct (present sch st t _); reflexivity. Qed.

  Lemma fkc_snd fx i st :
    snd (fkc_id sch fx s f t nullable i st) =
    if nonempty (ckey st i) && negb (present sch st t (ckey st i)) && nullable && fx then clear_field sch st s i f else st.
  Proof.
    unfold fkc_id, fkey. destruct (nonempty _); cbn; [|reflexivity]. destruct (present sch st t _); cbn; [reflexivity|].
    destruct nullable, fx; reflexivity.
  Qed.

  Lemma fkc_ro : ro_body (fkc_id sch false s f t nullable).
  Proof. intros i st. rewrite fkc_snd, andb_false_r. reflexivity. Qed.

  Theorem check_fkcons_readonly st : snd (check_fkcons sch false s f t nullable st) = st.
  Proof. unfold check_fkcons. apply run_list_ro, fkc_ro. Qed.

  Theorem check_fkcons_nil_iff st : fst (check_fkcons sch false s f t nullable st) = [] <-> FCCons st.
  Proof.
    unfold check_fkcons. rewrite (run_list_ro_nil _ fkc_ro). unfold FCCons, CT, CNN. split.
    - intros H. split.
      + intros i Hp Hn. specialize (H i (proj2 (valid_ids_present sch st s i) Hp)). rewrite fkc_fst, Hn in H. cbn in H.
        destruct (present sch st t (ckey st i)); [reflexivity | discriminate].
      + intros Hnl i Hp. specialize (H i (proj2 (valid_ids_present sch st s i) Hp)). rewrite fkc_fst in H.
        destruct (nonempty (ckey st i)); [reflexivity|]. cbn in H. rewrite Hnl in H. discriminate.
    - intros [T N] i Hin. apply valid_ids_present in Hin. rewrite fkc_fst. destruct (nonempty (ckey st i)) eqn:En; cbn.
      + rewrite (T i Hin En). reflexivity.
      + destruct nullable eqn:Enl; [reflexivity|]. rewrite (N eq_refl i Hin) in En. discriminate.
  Qed.

  Theorem check_fkcons_good_reports st : FCGood st ->
    forall x, In x (fst (check_fkcons sch false s f t nullable st)) ->
      (r_kind x = KNil \/ (r_kind x = KFkDangling /\ nullable = false)) /\ r_fixed x = false.
  Proof.
    intros HT. unfold check_fkcons. apply (run_list_ro_forall _ _ fkc_ro). intros i Hin x Hx. apply valid_ids_present in Hin.
    rewrite fkc_fst in Hx. destruct (nonempty (ckey st i)) eqn:En; cbn in Hx.
    - destruct (present sch st t (ckey st i)) eqn:Ep; cbn in Hx; [destruct Hx|].
      destruct Hx as [<-|[]]. cbn. rewrite andb_false_r. split; [|reflexivity]. right. split; [reflexivity|].
      destruct nullable eqn:Enl; [|reflexivity]. rewrite (HT Enl i Hin En) in Ep. discriminate.
    - destruct nullable; [destruct Hx|]. destruct Hx as [<-|[]]. cbn. auto.
  Qed.

  Hypothesis Hroot : is_child sch s = false.

  Definition cdone (i : id) (st : state) : Prop :=
    nullable = true -> nonempty (ckey st i) = true -> present sch st t (ckey st i) = true.

  Lemma fkc_step_rel fx i st :
    let st' := snd (fkc_id sch fx s f t nullable i st) in
    (forall s' i', present sch st' s' i' = present sch st s' i') /\
    (forall i', ckey st' i' = ckey st i' \/ ckey st' i' = []).
  Proof.
    cbn zeta. rewrite fkc_snd. destruct (_ && _ && _ && _); [|auto]. split.
    - intros. apply clear_field_present, Hroot.
    - intros i'. unfold fkey. rewrite (clear_field_get_field sch st s i f i' Hroot). destruct (str_eqb i i'); auto.
  Qed.

  Theorem check_fkcons_fix_good st : FCGood (snd (check_fkcons sch true s f t nullable st)).
  Proof.
    unfold check_fkcons.
    set (I := fun st' => forall s' i', present sch st' s' i' = present sch st s' i').
    destruct (run_list_post (fkc_id sch true s f t nullable) I cdone (valid_ids sch st s)) with (st := st) as [HP HQ].
    - intros i st' _ Hp s' i'. rewrite (proj1 (fkc_step_rel true i st')). apply Hp.
    - intros i st' _ _. unfold cdone. intros Hnl. rewrite fkc_snd, Hnl. cbn [andb]. rewrite andb_true_r.
      destruct (nonempty (ckey st' i)) eqn:En; cbn [andb].
      + destruct (present sch st' t (ckey st' i)) eqn:Ep; cbn [negb andb]; [intros _; exact Ep|].
        unfold fkey. rewrite (clear_field_get_field sch st' s i f i Hroot), str_eqb_refl. discriminate.
      + rewrite En. discriminate.
    - intros i y st' _ _ _ Hq. unfold cdone in *. intros Hnl. destruct (fkc_step_rel true y st') as [P K]. cbn zeta in *.
      destruct (K i) as [Hk|Hk]; rewrite Hk; [rewrite P; apply Hq, Hnl | discriminate].
    - intros s' i'. reflexivity.
    - intros Hnl i Hp Hn. rewrite HP in Hp. apply (HQ i (proj2 (valid_ids_present sch st s i) Hp) Hnl Hn).
  Qed.

  Definition fkcons_cells : list cell := [CFld (root_of sch s) f].

  Lemma check_fkcons_writes fx st : same_except fkcons_cells st (snd (check_fkcons sch fx s f t nullable st)).
  Proof.
    unfold check_fkcons. apply run_list_same_except. intros i st2 _. rewrite fkc_snd.
    destruct (_ && _ && _ && _); [apply clear_field_same_except, Hroot | apply same_except_refl].
  Qed.

  Lemma FCGood_frame W st st' : same_except W st st' -> (forall c, In c (fld_cells sch s f) -> cmem c W = false) ->
    FCGood st -> FCGood st'.
  Proof.
    intros Hs Hr G Hnl i H1 H2.
    assert (Hk : forall i, ckey st' i = ckey st i).
    { intros i0. unfold fkey. rewrite (same_except_get_field sch W st st' s i0 f Hs Hr). reflexivity. }
    rewrite (same_except_present sch W _ _ _ _ Hs) in H1. rewrite Hk in *. rewrite (same_except_present sch W _ _ _ _ Hs).
    apply (G Hnl); assumption.
  Qed.
End FkCons.
