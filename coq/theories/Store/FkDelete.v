(* C04, deletes of referenced entities.
   Part 1 (restrict): deleting an entity whose back-reference set lists another entity returns an
   error - ReferenceExists unless an earlier constraint of the store fails first - in ANY state.
   Part 2 (cascade): a successful delete removes exactly the transitive cascade referrers of the
   entity (in ANY state, for every fuel), and keeps every other entity with its fields. *)
From Coq Require Import List NArith Bool Lia Arith.
From Storage Require Import Base.Bytes Base.BytesFacts Store.Model Store.AListFacts Store.FrameProofs Store.UniqueProofs Store.FkProofs.
Import ListNotations.

Definition is_cascdel (k : cons) : bool := match k with CFkCascade _ _ CascDelete => true | _ => false end.

(* ================================================================ restrict *)
Section Restrict.
  Variable sch : schema.
  Variable oc : octx.

  Lemma before_delete_all_app del c : forall pre rest stev,
    before_delete_all sch oc del stev c (pre ++ rest) =
    match before_delete_all sch oc del stev c pre with
    | Ok stev1 => before_delete_all sch oc del stev1 c rest
    | Err e => Err e
    end.
  Proof.
    induction pre as [|k pre IH]; intros rest stev; cbn [app before_delete_all]; [reflexivity|].
    destruct (before_delete_one sch oc del stev c k) as [stev1|e]; cbn [bind]; [apply IH | reflexivity].
  Qed.

  (* a hook that is not a cascading delete keeps every set member other than the deleted entity itself *)
  Lemma bd_one_keeps del st evs c k st' evs' :
    is_cascdel k = false -> before_delete_one sch oc del (st, evs) c k = Ok (st', evs') ->
    forall s' ti b j, j <> ic_id c -> In j (get_set sch st s' ti b) -> In j (get_set sch st' s' ti b).
  Proof.
    intros Hk H s' ti b j Hj Hin.
    assert (Hents : ents st' = ents st -> In j (get_set sch st' s' ti b)) by (intros E; unfold get_set, get_ent in *; rewrite E; exact Hin).
    destruct k as [f0 nl|f0|f0 t0 b0 nl|b0|f0 t0 nl|rs f0 cs|]; cbn [before_delete_one] in H.
    - destruct (nonempty _); inversion H; subst; [apply Hents; reflexivity | exact Hin].
    - destruct (negb _); [discriminate|]. inversion H; subst. apply Hents. apply fold_sidx_remove_ents.
    - destruct (nonempty _); [|inversion H; subst; exact Hin].
      destruct (present sch st t0 _); [|discriminate]. inversion H; subst. apply In_backref_del. split; [exact Hin|].
      intros [_ [_ [_ E]]]. contradiction.
    - destruct (get_set sch st _ _ b0); [|discriminate]. inversion H; subst. exact Hin.
    - inversion H; subst. exact Hin.
    - destruct cs; [|discriminate]. destruct (existsb _ _); [discriminate|]. inversion H; subst. exact Hin.
    - destruct (get_field sch st (ic_store c) (ic_id c) isSystemF) as [| |y|[|]]; try (inversion H; subst; exact Hin).
      destruct (oc_sys oc); [|discriminate]. inversion H; subst; exact Hin.
  Qed.

  Lemma bd_all_keeps del c : forall ks st evs st' evs',
    forallb (fun k => negb (is_cascdel k)) ks = true ->
    before_delete_all sch oc del (st, evs) c ks = Ok (st', evs') ->
    forall s' ti b j, j <> ic_id c -> In j (get_set sch st s' ti b) -> In j (get_set sch st' s' ti b).
  Proof.
    induction ks as [|k ks IH]; intros st evs st' evs' Hall H s' ti b j Hj Hin; cbn [before_delete_all] in H.
    - inversion H; subst. exact Hin.
    - cbn [forallb] in Hall. apply andb_prop in Hall as [Hk Hks]. apply negb_true_iff in Hk.
      destruct (before_delete_one sch oc del (st, evs) c k) as [[st1 evs1]|e] eqn:E1; cbn [bind] in H; [|discriminate].
      eapply IH; [exact Hks | exact H | exact Hj|]. eapply bd_one_keeps; eauto.
  Qed.

  Variable r0 : name.                (* the root store of the deleted entity *)
  Variable b : name.                 (* its back-reference set, guarded by CFkRestrict b *)
  Variables pre post : list cons.
  Hypothesis Hrr : root_of sch r0 = r0.
  Hypothesis Hrc : is_child sch r0 = false.
  Hypothesis Hchildren : forall d, In d (children_of sch r0) -> root_of sch (sd_name d) = r0.
  Hypothesis Hcons : cons_of sch r0 = pre ++ CFkRestrict b :: post.
  Hypothesis Hpre : forallb (fun k => negb (is_cascdel k)) pre = true.

  Variable del : st_ev -> name -> id -> res st_ev.
  Variable st : state.
  Variable evs : list event.
  Variable x : id.
  Hypothesis Hreferenced : exists j, j <> x /\ In j (get_set sch st r0 x b).

  (* what every path of the delete runs into *)
  Definition refusal_kind : ekind :=
    match before_delete_all sch oc del (st, evs) (mkIctx false (oc_sys oc) r0 x) pre with
    | Err k => k
    | Ok _ => ERefExists
    end.

  Lemma root_list_refuses :
    before_delete_all sch oc del (st, evs) (mkIctx false (oc_sys oc) r0 x) (cons_of sch r0) = Err refusal_kind.
  Proof.
    unfold refusal_kind. rewrite Hcons, before_delete_all_app.
    destruct (before_delete_all sch oc del (st, evs) _ pre) as [[st1 evs1]|e] eqn:E1; [|reflexivity].
    cbn [before_delete_all before_delete_one ic_store ic_id].
    destruct Hreferenced as [j [Hj Hin]].
    pose proof (bd_all_keeps del _ pre st evs st1 evs1 Hpre E1 r0 x b j Hj Hin) as Hin1.
    destruct (get_set sch st1 r0 x b); [contradiction | reflexivity].
  Qed.

  Lemma process_delete_refuses s1 : root_of sch s1 = r0 -> process_delete sch oc del (st, evs) s1 x = Err refusal_kind.
  Proof.
    intros Hr. unfold process_delete.
    assert (exists rest, chain sch s1 = (r0, cons_of sch r0) :: rest) as [rest Hch].
    { unfold chain. destruct (is_child sch s1) eqn:Ec; rewrite ?Hr; [eexists; reflexivity|].
      rewrite (root_of_root _ _ Ec) in Hr. subst s1. eexists; reflexivity. }
    rewrite Hch. cbn [before_delete_chain]. rewrite root_list_refuses. reflexivity.
  Qed.

  Lemma children_delete_refuses : forall cs flows,
    (forall d, In d cs -> root_of sch (sd_name d) = r0) ->
    children_delete sch oc del x cs (st, evs) flows = Err refusal_kind \/
    children_delete sch oc del x cs (st, evs) flows = Ok ((st, evs), flows).
  Proof.
    induction cs as [|d cs IH]; intros flows Hcs; cbn [children_delete]; [right; reflexivity|].
    cbn [fst]. destruct (loadable sch st (sd_name d) x).
    - left. rewrite (process_delete_refuses (sd_name d)) by (apply Hcs; left; reflexivity). reflexivity.
    - apply IH. intros d0 Hd0. apply Hcs. right. exact Hd0.
  Qed.

  Lemma referenced_present : present sch st r0 x = true.
  Proof.
    destruct Hreferenced as [j [_ Hin]]. rewrite (present_root _ _ _ _ Hrc).
    unfold get_set in Hin. rewrite Hrr in Hin. destruct (get_ent st r0 x); [reflexivity | contradiction].
  Qed.
End Restrict.

(* deleting (through any store s0 of the family) an entity whose back-reference set lists another
   entity fails: with the error of an earlier constraint of the root store, else with ReferenceExists *)
Lemma delete_restrict_lemma sch oc n st evs s0 x b pre post :
  let r0 := root_of sch s0 in
  root_of sch r0 = r0 -> is_child sch r0 = false ->
  (forall d, In d (children_of sch r0) -> root_of sch (sd_name d) = r0) ->
  cons_of sch r0 = pre ++ CFkRestrict b :: post ->
  forallb (fun k => negb (is_cascdel k)) pre = true ->
  (exists j, j <> x /\ In j (get_set sch st r0 x b)) ->
  delete_by_id sch oc (S n) (st, evs) s0 x =
    Err (refusal_kind sch oc r0 pre (delete_by_id sch oc n) st evs x).
Proof.
  intros r0 Hrr Hrc Hch Hcons Hpre Href. cbn [delete_by_id]. fold r0. cbn [fst].
  set (del := delete_by_id sch oc n).
  assert (Hp : present sch st r0 x = true) by (eapply referenced_present; eauto).
  assert (Hc : children_delete sch oc del x (children_of sch r0) (st, evs) [] = Err (refusal_kind sch oc r0 pre del st evs x) \/
               children_delete sch oc del x (children_of sch r0) (st, evs) [] = Ok ((st, evs), []))
    by (eapply children_delete_refuses; eauto).
  assert (Hpd : process_delete sch oc del (st, evs) r0 x = Err (refusal_kind sch oc r0 pre del st evs x))
    by (eapply process_delete_refuses; eauto).
  rewrite Hp. cbn [negb]. destruct Hc as [E|E]; rewrite E; [reflexivity|].
  cbn [bind fst]. rewrite Hp. cbn [negb]. rewrite Hpd. reflexivity.
Qed.

(* ================================================================ cascade *)
(* delete hooks other than a cascading delete keep all entities with their fields and child data *)
Lemma bd_one_fc sch oc del st evs c k st' evs' :
  is_cascdel k = false -> before_delete_one sch oc del (st, evs) c k = Ok (st', evs') -> ents_fc_eq st st'.
Proof.
  intros Hk H. destruct k as [f0 nl|f0|f0 t0 b0 nl|b0|f0 t0 nl|rs f0 cs|]; cbn [before_delete_one] in H.
  - destruct (nonempty _); inversion H; subst; [apply ents_eq_fc; reflexivity | apply ents_fc_eq_refl].
  - destruct (negb _); [discriminate|]. inversion H; subst. apply ents_eq_fc. apply fold_sidx_remove_ents.
  - destruct (nonempty _); [|inversion H; subst; apply ents_fc_eq_refl].
    destruct (present sch st t0 _); [|discriminate]. inversion H; subst. apply backref_del_fc.
  - destruct (get_set sch st _ _ b0); [|discriminate]. inversion H; subst. apply ents_fc_eq_refl.
  - inversion H; subst. apply ents_fc_eq_refl.
  - destruct cs; [|discriminate]. destruct (existsb _ _); [discriminate|]. inversion H; subst. apply ents_fc_eq_refl.
  - destruct (get_field sch st (ic_store c) (ic_id c) isSystemF) as [| |y|[|]]; try (inversion H; subst; apply ents_fc_eq_refl).
    destruct (oc_sys oc); [|discriminate]. inversion H; subst; apply ents_fc_eq_refl.
Qed.

Lemma cleanup_links_fc sch st s0 x : ents_fc_eq st (cleanup_links sch st s0 x).
Proof.
  unfold cleanup_links. destruct (find_store sch s0) as [d|]; [|apply ents_fc_eq_refl].
  generalize (sd_links d). intros ls. revert st. induction ls as [|[[lf os] of_] ls IH]; intros st; cbn [fold_left].
  - apply ents_fc_eq_refl.
  - eapply ents_fc_eq_trans; [|apply IH].
    generalize (get_set sch st s0 x lf). intros ms. revert st. induction ms as [|m ms IHm]; intros st; cbn [fold_left].
    + apply ents_fc_eq_refl.
    + eapply ents_fc_eq_trans; [apply backref_del_fc | apply IHm].
Qed.

Section Cascade.
  Variable sch : schema.
  Variable oc : octx.
  Hypothesis Hroots : forall x, root_of sch (root_of sch x) = root_of sch x.
  Hypothesis Hrc : forall x, is_child sch (root_of sch x) = false.
  Hypothesis Hchildren : forall r0 d, In d (children_of sch r0) -> root_of sch (sd_name d) = r0.
  (* cascading deletes are wired on root stores only *)
  Hypothesis Hcascroot : forall s' k, is_child sch s' = true -> In k (cons_of sch s') -> is_cascdel k = false.

  Definition node := (name * id)%type.

  (* the transitive cascade referrers of a node, in state st *)
  Inductive reach (st : state) (a : node) : node -> Prop :=
  | reach_refl : reach st a a
  | reach_step r y rs f z : reach st a (r, y) -> In (CFkCascade rs f CascDelete) (cons_of sch r) ->
      casc_matches sch rs f y st z = true -> reach st a (root_of sch rs, z).

  Definition removed (st st' : state) (r : name) (y : id) : Prop := get_ent st r y <> None /\ get_ent st' r y = None.

  Definition Closed (st st' : state) : Prop :=
    forall r y, removed st st' r y -> forall rs f z, In (CFkCascade rs f CascDelete) (cons_of sch r) ->
      casc_matches sch rs f y st z = true -> get_ent st' (root_of sch rs) z = None.

  Definition XStep (R : node -> Prop) (st st' : state) : Prop :=
    ents_shrink st st' /\ (forall r y, removed st st' r y -> R (r, y)) /\ Closed st st'.

  Lemma shrink_none st st' r y : ents_shrink st st' -> get_ent st r y = None -> get_ent st' r y = None.
  Proof.
    intros H Hn. specialize (H r y). destruct (get_ent st' r y) as [e'|]; [|reflexivity].
    destruct H as [e [He _]]. congruence.
  Qed.

  Lemma casc_matches_shrink st st' rs f y z : ents_shrink st st' ->
    casc_matches sch rs f y st' z = true -> casc_matches sch rs f y st z = true.
  Proof.
    intros H Hm. unfold casc_matches in *. apply andb_prop in Hm as [Hp Hf].
    rewrite (present_shrink _ _ _ _ _ H Hp). cbn [andb].
    rewrite <- (get_field_shrink sch st st' rs z f H (present_get_ent _ _ _ _ Hp)). exact Hf.
  Qed.

  Lemma casc_matches_keep st st' rs f y z : ents_shrink st st' -> get_ent st' (root_of sch rs) z <> None ->
    casc_matches sch rs f y st z = true -> casc_matches sch rs f y st' z = true.
  Proof.
    intros H Hs Hm. unfold casc_matches in *. apply andb_prop in Hm as [Hp Hf].
    rewrite (get_field_shrink sch st st' rs z f H Hs). rewrite Hf, andb_true_r.
    unfold present in *. specialize (H (root_of sch rs) z).
    destruct (get_ent st' (root_of sch rs) z) as [e'|]; [|congruence].
    destruct H as [e [He [_ Hc]]]. rewrite He in Hp. rewrite Hc. exact Hp.
  Qed.

  Lemma casc_matches_absent st rs f y z : get_ent st (root_of sch rs) z = None -> casc_matches sch rs f y st z = false.
  Proof. intros H. unfold casc_matches, present. rewrite H. reflexivity. Qed.

  Lemma casc_matches_present st rs f y z : casc_matches sch rs f y st z = true -> get_ent st (root_of sch rs) z <> None.
  Proof. intros H. unfold casc_matches in H. apply andb_prop in H as [Hp _]. apply present_get_ent in Hp. exact Hp. Qed.

  Lemma reach_mono st st' a n : ents_shrink st st' -> reach st' a n -> reach st a n.
  Proof.
    intros H Hr. induction Hr as [|r y rs f z Hr IH Hin Hm]; [apply reach_refl|].
    eapply reach_step; [exact IH | exact Hin | eapply casc_matches_shrink; eauto].
  Qed.

  Lemma reach_trans st a b c : reach st a b -> reach st b c -> reach st a c.
  Proof.
    intros Hab Hbc. induction Hbc as [|r y rs f z Hr IH Hin Hm]; [exact Hab|].
    eapply reach_step; [exact IH | exact Hin | exact Hm].
  Qed.

  Lemma xstep_refl R st : XStep R st st.
  Proof.
    split; [apply ents_shrink_refl|]. split; intros r y [H1 H2]; congruence.
  Qed.

  Lemma xstep_fc R st st' : ents_fc_eq st st' -> XStep R st st'.
  Proof.
    intros H. assert (forall r y, removed st st' r y -> False) as Hno.
    { intros r y [H1 H2]. specialize (H r y). rewrite H2 in H. unfold ent_fc_eq in H.
      destruct (get_ent st r y); [contradiction | congruence]. }
    split; [apply ents_fc_eq_shrink; exact H|]. split; intros r y Hr; exfalso; eapply Hno; eauto.
  Qed.

  Lemma xstep_weaken (R R' : node -> Prop) st st' : (forall n, R' n -> R n) -> XStep R' st st' -> XStep R st st'.
  Proof. intros Hsub [H1 [H2 H3]]. split; [exact H1|]. split; [intros r y Hr; apply Hsub, H2, Hr | exact H3]. Qed.

  Lemma xstep_trans R a b c : XStep R a b -> XStep R b c -> XStep R a c.
  Proof.
    intros [A1 [A2 A3]] [B1 [B2 B3]]. split; [eapply ents_shrink_trans; eauto|]. split.
    - intros r y [H1 H2]. destruct (get_ent b r y) eqn:Eb.
      + apply B2. split; [congruence | exact H2].
      + apply A2. split; assumption.
    - intros r y [H1 H2] rs f z Hin Hm. destruct (get_ent b r y) eqn:Eb.
      + destruct (get_ent b (root_of sch rs) z) eqn:Ez.
        * eapply (B3 r y); [split; [congruence | exact H2] | exact Hin|].
          eapply casc_matches_keep; [exact A1 | congruence | exact Hm].
        * eapply shrink_none; eauto.
      + eapply shrink_none; [exact B1|]. eapply (A3 r y); [split; assumption | exact Hin | exact Hm].
  Qed.

  (* specification of the recursive DeleteById *)
  Definition XDelSpec (del : st_ev -> name -> id -> res st_ev) : Prop :=
    forall stev s0 x stev', del stev s0 x = Ok stev' ->
      XStep (reach (fst stev) (root_of sch s0, x)) (fst stev) (fst stev') /\
      get_ent (fst stev') (root_of sch s0) x = None.

  Lemma xloop st0 a r y rs f del : XDelSpec del -> reach st0 a (r, y) -> In (CFkCascade rs f CascDelete) (cons_of sch r) ->
    forall cands cur cur', ents_shrink st0 (fst cur) -> cascade_loop sch del rs f y cands cur = Ok cur' ->
    XStep (reach st0 a) (fst cur) (fst cur') /\ (forall z, In z cands -> casc_matches sch rs f y (fst cur') z = false).
  Proof.
    intros Hdel Hreach Hin. induction cands as [|c0 cands IH]; intros cur cur' Hs H; cbn [cascade_loop] in H.
    - inversion H; subst. split; [apply xstep_refl | intros z []].
    - destruct (casc_matches sch rs f y (fst cur) c0) eqn:Em.
      + destruct (del cur rs c0) as [cur1|e] eqn:Ed; cbn [bind] in H; [|discriminate].
        destruct (Hdel cur rs c0 cur1 Ed) as [Hx Hgone].
        assert (XStep (reach st0 a) (fst cur) (fst cur1)) as Hx1.
        { eapply xstep_weaken; [|exact Hx]. intros n Hn. eapply reach_trans; [|eapply reach_mono; [exact Hs | exact Hn]].
          eapply reach_step; [exact Hreach | exact Hin | eapply casc_matches_shrink; eauto]. }
        assert (ents_shrink st0 (fst cur1)) as Hs1 by (eapply ents_shrink_trans; [exact Hs | apply Hx1]).
        destruct (IH cur1 cur' Hs1 H) as [Hx2 Hpost]. split; [eapply xstep_trans; eauto|].
        intros z [<-|Hz]; [|apply Hpost; exact Hz]. apply casc_matches_absent. eapply shrink_none; [apply Hx2 | exact Hgone].
      + destruct (IH cur cur' Hs H) as [Hx2 Hpost]. split; [exact Hx2|].
        intros z [<-|Hz]; [|apply Hpost; exact Hz].
        destruct (casc_matches sch rs f y (fst cur') c0) eqn:Em'; [|reflexivity].
        rewrite (casc_matches_shrink _ _ _ _ _ _ (proj1 Hx2) Em') in Em. discriminate.
  Qed.

  (* every cascading-delete constraint of the list has no match left for x *)
  Definition Done (ks : list cons) (x : id) (st : state) : Prop :=
    forall rs f, In (CFkCascade rs f CascDelete) ks -> forall z, casc_matches sch rs f x st z = false.

  Lemma Done_shrink ks x st st' : ents_shrink st st' -> Done ks x st -> Done ks x st'.
  Proof.
    intros H Hd rs f Hin z. destruct (casc_matches sch rs f x st' z) eqn:E; [|reflexivity].
    pose proof (Hd rs f Hin z) as Hd'. rewrite (casc_matches_shrink _ _ _ _ _ _ H E) in Hd'. discriminate.
  Qed.

  Lemma in_ids st r z : get_ent st r z <> None -> In z (ids_of st r).
  Proof. unfold ids_of, get_ent. apply al_get_keys. Qed.

  Lemma xbd_one st0 a r0 x del st evs c k st' evs' :
    XDelSpec del -> reach st0 a (r0, x) -> ents_shrink st0 st -> ic_id c = x ->
    (is_cascdel k = true -> In k (cons_of sch r0)) ->
    before_delete_one sch oc del (st, evs) c k = Ok (st', evs') ->
    XStep (reach st0 a) st st' /\ Done [k] x st'.
  Proof.
    intros Hdel Hreach Hs Hx Hk H. destruct (is_cascdel k) eqn:Ek.
    - destruct k as [| | | | |rs f cs|]; try discriminate. destruct cs; [discriminate|]. cbn [before_delete_one] in H.
      rewrite Hx in H.
      destruct (xloop st0 a r0 x rs f del Hdel Hreach (Hk eq_refl) _ (st, evs) (st', evs') Hs H) as [A B]. cbn [fst] in *.
      split; [exact A|]. intros rs' f' [E|[]] z. inversion E; subst rs' f'.
      destruct (get_ent st (root_of sch rs) z) eqn:Ez.
      + apply B. apply in_ids. congruence.
      + apply casc_matches_absent. eapply shrink_none; [apply A | exact Ez].
    - split; [apply xstep_fc; eapply bd_one_fc; eauto|]. intros rs f [E|[]]. subst k. discriminate.
  Qed.

  Lemma xbd_all st0 a r0 x del c : XDelSpec del -> reach st0 a (r0, x) -> ic_id c = x ->
    forall ks st evs st' evs',
    (forall k, In k ks -> is_cascdel k = true -> In k (cons_of sch r0)) -> ents_shrink st0 st ->
    before_delete_all sch oc del (st, evs) c ks = Ok (st', evs') ->
    XStep (reach st0 a) st st' /\ Done ks x st'.
  Proof.
    intros Hdel Hreach Hx. induction ks as [|k ks IH]; intros st evs st' evs' Hks Hs H; cbn [before_delete_all] in H.
    - inversion H; subst. split; [apply xstep_refl | intros rs f []].
    - destruct (before_delete_one sch oc del (st, evs) c k) as [[st1 evs1]|e] eqn:E1; cbn [bind] in H; [|discriminate].
      destruct (xbd_one st0 a r0 x del st evs c k st1 evs1 Hdel Hreach Hs Hx (Hks k (or_introl eq_refl)) E1) as [A1 D1].
      assert (ents_shrink st0 st1) as Hs1 by (eapply ents_shrink_trans; [exact Hs | apply A1]).
      destruct (IH st1 evs1 st' evs' (fun k0 Hk0 => Hks k0 (or_intror Hk0)) Hs1 H) as [A2 D2].
      split; [eapply xstep_trans; eauto|]. intros rs f [E|Hin] z.
      + eapply Done_shrink; [apply A2 | exact D1 | left; exact E].
      + apply (D2 rs f Hin z).
  Qed.

  Lemma xbd_chain st0 a r0 x del : XDelSpec del -> reach st0 a (r0, x) -> forall ch st evs st' evs',
    (forall s' ks, In (s', ks) ch -> ks = cons_of sch s' /\ (s' = r0 \/ is_child sch s' = true)) -> ents_shrink st0 st ->
    before_delete_chain sch oc del x ch (st, evs) = Ok (st', evs') ->
    XStep (reach st0 a) st st' /\ (forall s' ks, In (s', ks) ch -> Done ks x st').
  Proof.
    intros Hdel Hreach. induction ch as [|[s' ks] ch IH]; intros st evs st' evs' Hch Hs H; cbn [before_delete_chain] in H.
    - inversion H; subst. split; [apply xstep_refl | intros s' ks []].
    - destruct (before_delete_all sch oc del (st, evs) _ ks) as [[st1 evs1]|e] eqn:E1; cbn [bind] in H; [|discriminate].
      destruct (Hch s' ks (or_introl eq_refl)) as [-> Hs'].
      assert (forall k, In k (cons_of sch s') -> is_cascdel k = true -> In k (cons_of sch r0)) as Hks.
      { intros k Hin Hc. destruct Hs' as [->|Hc']; [exact Hin|]. rewrite (Hcascroot s' k Hc' Hin) in Hc. discriminate. }
      destruct (xbd_all st0 a r0 x del (mkIctx false (oc_sys oc) s' x) Hdel Hreach eq_refl _ st evs st1 evs1 Hks Hs E1) as [A1 D1].
      assert (ents_shrink st0 st1) as Hs1 by (eapply ents_shrink_trans; [exact Hs | apply A1]).
      destruct (IH st1 evs1 st' evs' (fun s2 ks2 Hin => Hch s2 ks2 (or_intror Hin)) Hs1 H) as [A2 D2].
      split; [eapply xstep_trans; eauto|]. intros s2 ks2 [E|Hin].
      + inversion E; subst. eapply Done_shrink; [apply A2 | exact D1].
      + apply (D2 s2 ks2 Hin).
  Qed.

  Lemma chain_shape s1 s' ks : In (s', ks) (chain sch s1) ->
    ks = cons_of sch s' /\ (s' = root_of sch s1 \/ is_child sch s' = true).
  Proof.
    unfold chain. destruct (is_child sch s1) eqn:Ec; cbn; intros H.
    - destruct H as [H|[H|[]]]; inversion H; subst; split; auto.
    - destruct H as [H|[]]. inversion H; subst. split; [reflexivity|]. left. symmetry. apply root_of_root. exact Ec.
  Qed.

  Lemma xprocess_delete st0 a x del s1 st evs st' evs' :
    XDelSpec del -> reach st0 a (root_of sch s1, x) -> ents_shrink st0 st ->
    process_delete sch oc del (st, evs) s1 x = Ok (st', evs') ->
    XStep (reach st0 a) st st' /\ Done (cons_of sch (root_of sch s1)) x st'.
  Proof.
    intros Hdel Hreach Hs H. unfold process_delete in H.
    destruct (before_delete_chain sch oc del x (chain sch s1) (st, evs)) as [[st1 evs1]|e] eqn:E1; cbn [bind] in H; [|discriminate].
    inversion H; subst st' evs'. clear H. cbn [fst].
    destruct (xbd_chain st0 a (root_of sch s1) x del Hdel Hreach _ st evs st1 evs1 (chain_shape s1) Hs E1) as [A D].
    pose proof (cleanup_links_fc sch st1 s1 x) as Hfc.
    split; [eapply xstep_trans; [exact A | apply xstep_fc; exact Hfc]|].
    eapply Done_shrink; [apply ents_fc_eq_shrink; exact Hfc|]. apply (D (root_of sch s1)).
    unfold chain. destruct (is_child sch s1) eqn:Ec; [left; reflexivity|]. rewrite (root_of_root _ _ Ec). left. reflexivity.
  Qed.

  Lemma xchildren_delete st0 a x del r0 : XDelSpec del -> reach st0 a (r0, x) ->
    forall cs cur flows cur' flows',
    (forall d, In d cs -> root_of sch (sd_name d) = r0) -> ents_shrink st0 (fst cur) ->
    children_delete sch oc del x cs cur flows = Ok (cur', flows') ->
    XStep (reach st0 a) (fst cur) (fst cur').
  Proof.
    intros Hdel Hreach. induction cs as [|d cs IH]; intros cur flows cur' flows' Hcs Hs H; cbn [children_delete] in H.
    - inversion H; subst. apply xstep_refl.
    - assert (forall d0, In d0 cs -> root_of sch (sd_name d0) = r0) as Hcs' by (intros; apply Hcs; right; assumption).
      destruct (loadable sch (fst cur) (sd_name d) x); [|eapply IH; eauto].
      destruct cur as [st evs]. cbn [fst] in *.
      destruct (process_delete sch oc del (st, evs) (sd_name d) x) as [[st1 evs1]|e] eqn:E1; cbn [bind] in H; [|discriminate].
      assert (reach st0 a (root_of sch (sd_name d), x)) as Hreach' by (rewrite (Hcs d (or_introl eq_refl)); exact Hreach).
      destruct (xprocess_delete st0 a x del _ st evs st1 evs1 Hdel Hreach' Hs E1) as [A _].
      assert (ents_shrink st0 (fst (st1, evs1))) as Hs1 by (eapply ents_shrink_trans; [exact Hs | apply A]).
      eapply xstep_trans; [exact A | eapply (IH (st1, evs1)); eauto].
  Qed.

  Lemma del_ent_shrink st r x : ents_shrink st (del_ent st r x).
  Proof.
    intros r1 y. rewrite get_ent_del_ent. destruct (str_eqb r r1 && str_eqb x y); [exact I|].
    destruct (get_ent st r1 y) as [e|]; [exists e; auto | exact I].
  Qed.

  (* DeleteById, for every amount of fuel *)
  Lemma xdelete_spec : forall n, XDelSpec (delete_by_id sch oc n).
  Proof.
    induction n as [|n IH]; intros stev s0 x stev' H; cbn [delete_by_id] in H; [discriminate|].
    destruct stev as [st evs]. cbn [fst] in *.
    set (r0 := root_of sch s0) in *.
    assert (root_of sch r0 = r0) as Hrr by (apply Hroots).
    destruct (present sch st r0 x) eqn:Epx; cbn [negb] in H; [|discriminate].
    destruct (children_delete sch oc (delete_by_id sch oc n) x (children_of sch r0) (st, evs) []) as [[[st1 evs1] flows]|e] eqn:Ech;
      cbn [bind] in H; [|discriminate].
    pose proof (xchildren_delete st (r0, x) x _ r0 IH (reach_refl st (r0, x)) _ (st, evs) [] (st1, evs1) flows
                  (Hchildren r0) (ents_shrink_refl st) Ech) as A1. cbn [fst] in *.
    destruct (present sch st1 r0 x) eqn:Epx1; cbn [negb] in H.
    - destruct (process_delete sch oc (delete_by_id sch oc n) (st1, evs1) r0 x) as [[st2 evs2]|e] eqn:Epd; cbn [bind] in H; [|discriminate].
      assert (reach st (r0, x) (root_of sch r0, x)) as Hreach by (rewrite Hrr; apply reach_refl).
      destruct (xprocess_delete st (r0, x) x _ r0 st1 evs1 st2 evs2 IH Hreach (proj1 A1) Epd) as [A2 D2]. rewrite Hrr in D2.
      cbn [fst snd] in H.
      destruct (fire (oc_vetoes oc) evs2 r0 Deleted x _) as [evs3|e]; cbn [bind] in H; [|discriminate].
      destruct (fire_flows oc x flows evs3) as [evs4|e]; cbn [bind] in H; [|discriminate].
      inversion H; subst stev'. clear H. cbn [fst].
      pose proof (xstep_trans _ _ _ _ A1 A2) as A12. destruct A12 as [S12 [R12 C12]].
      assert (get_ent (del_ent st2 r0 x) r0 x = None) as Hgone by (rewrite get_ent_del_ent, !str_eqb_refl; reflexivity).
      split; [|exact Hgone]. split; [eapply ents_shrink_trans; [exact S12 | apply del_ent_shrink]|]. split.
      + intros r y [H1 H2]. rewrite get_ent_del_ent in H2. destruct (str_eqb r0 r && str_eqb x y) eqn:E.
        * apply andb_prop in E as [E1 E2]. apply str_eqb_eq in E1, E2. subst. apply reach_refl.
        * apply R12. split; assumption.
      + intros r y [H1 H2] rs f z Hin Hm. rewrite get_ent_del_ent in H2. rewrite get_ent_del_ent.
        destruct (str_eqb r0 (root_of sch rs) && str_eqb x z); [reflexivity|].
        destruct (str_eqb r0 r && str_eqb x y) eqn:E.
        * apply andb_prop in E as [E1 E2]. apply str_eqb_eq in E1, E2. subst r y.
          destruct (get_ent st2 (root_of sch rs) z) eqn:Ez; [|reflexivity]. exfalso.
          assert (casc_matches sch rs f x st2 z = true) as Hm2 by (eapply casc_matches_keep; [exact S12 | congruence | exact Hm]).
          rewrite (D2 rs f Hin z) in Hm2. discriminate.
        * eapply (C12 r y); [split; assumption | exact Hin | exact Hm].
    - inversion H; subst stev'. clear H. cbn [fst]. split; [exact A1|].
      rewrite (present_root _ _ _ _ (Hrc s0)) in Epx1. fold r0 in Epx1. destruct (get_ent st1 r0 x); [discriminate | reflexivity].
  Qed.

  (* a successful delete removes exactly the transitive cascade referrers and keeps everything else *)
  Lemma delete_cascade_exact_lemma fuel st evs s0 x st' evs' :
    delete_by_id sch oc fuel (st, evs) s0 x = Ok (st', evs') ->
    ents_shrink st st' /\
    forall r y, (get_ent st r y <> None /\ get_ent st' r y = None) <-> reach st (root_of sch s0, x) (r, y).
  Proof.
    intros H. destruct (xdelete_spec fuel (st, evs) s0 x (st', evs') H) as [[S [R C]] Hgone]. cbn [fst] in *.
    split; [exact S|]. intros r y. split; [apply R|].
    assert (get_ent st (root_of sch s0) x <> None) as Hpx.
    { destruct fuel; cbn [delete_by_id] in H; [discriminate|]. cbn [fst] in H.
      destruct (present sch st (root_of sch s0) x) eqn:Ep; [|discriminate].
      rewrite (present_root _ _ _ _ (Hrc s0)) in Ep. destruct (get_ent st (root_of sch s0) x); [congruence | discriminate]. }
    intros Hr. remember (r, y) as n eqn:En. revert r y En.
    induction Hr as [|r1 y1 rs f z Hr IH Hin Hm]; intros r y En; inversion En; subst.
    - split; assumption.
    - split; [eapply casc_matches_present; eauto|]. eapply (C r1 y1); [apply IH; reflexivity | exact Hin | exact Hm].
  Qed.
End Cascade.

(* ================================================================ fuel *)
(* The fuel only bounds the depth of the cascade recursion: a result other than "out of fuel" does not
   change when more fuel is given.  "Enough fuel" therefore means: any fuel with which the machine does
   not answer EOutOfFuel. *)
Section Fuel.
  Variable sch : schema.
  Variable oc : octx.

  Definition Stable (del del' : st_ev -> name -> id -> res st_ev) : Prop :=
    forall stev s x, del stev s x <> Err EOutOfFuel -> del' stev s x = del stev s x.

  Lemma bind_not_err {A B} (a : res A) (k : A -> res B) e : bind a k <> Err e -> a <> Err e.
  Proof. intros H Ha. apply H. rewrite Ha. reflexivity. Qed.

  Lemma cascade_loop_stable del del' rs f i : Stable del del' -> forall cands cur,
    cascade_loop sch del rs f i cands cur <> Err EOutOfFuel ->
    cascade_loop sch del' rs f i cands cur = cascade_loop sch del rs f i cands cur.
  Proof.
    intros Hs. induction cands as [|c0 cands IH]; intros cur H; cbn [cascade_loop] in *; [reflexivity|].
    destruct (casc_matches sch rs f i (fst cur) c0); [|apply IH; exact H].
    rewrite (Hs cur rs c0 (bind_not_err _ _ _ H)). destruct (del cur rs c0) as [cur1|e]; cbn [bind] in *; [apply IH; exact H | reflexivity].
  Qed.

  Lemma bd_one_stable del del' stev c k : Stable del del' ->
    before_delete_one sch oc del stev c k <> Err EOutOfFuel ->
    before_delete_one sch oc del' stev c k = before_delete_one sch oc del stev c k.
  Proof.
    intros Hs H. destruct stev as [st evs]. destruct k as [| | | | |rs f cs|]; try reflexivity.
    destruct cs; [reflexivity|]. cbn [before_delete_one] in *. apply cascade_loop_stable; assumption.
  Qed.

  Lemma bd_all_stable del del' c : Stable del del' -> forall ks stev,
    before_delete_all sch oc del stev c ks <> Err EOutOfFuel ->
    before_delete_all sch oc del' stev c ks = before_delete_all sch oc del stev c ks.
  Proof.
    intros Hs. induction ks as [|k ks IH]; intros stev H; cbn [before_delete_all] in *; [reflexivity|].
    rewrite (bd_one_stable del del' stev c k Hs (bind_not_err _ _ _ H)).
    destruct (before_delete_one sch oc del stev c k) as [stev1|e]; cbn [bind] in *; [apply IH; exact H | reflexivity].
  Qed.

  Lemma bd_chain_stable del del' x : Stable del del' -> forall ch cur,
    before_delete_chain sch oc del x ch cur <> Err EOutOfFuel ->
    before_delete_chain sch oc del' x ch cur = before_delete_chain sch oc del x ch cur.
  Proof.
    intros Hs. induction ch as [|[s' ks] ch IH]; intros cur H; cbn [before_delete_chain] in *; [reflexivity|].
    rewrite (bd_all_stable del del' _ Hs ks cur (bind_not_err _ _ _ H)).
    destruct (before_delete_all sch oc del cur _ ks) as [cur1|e]; cbn [bind] in *; [apply IH; exact H | reflexivity].
  Qed.

  Lemma process_delete_stable del del' stev s1 x : Stable del del' ->
    process_delete sch oc del stev s1 x <> Err EOutOfFuel ->
    process_delete sch oc del' stev s1 x = process_delete sch oc del stev s1 x.
  Proof.
    intros Hs H. unfold process_delete in *. rewrite (bd_chain_stable del del' x Hs _ stev (bind_not_err _ _ _ H)). reflexivity.
  Qed.

  Lemma children_delete_stable del del' x : Stable del del' -> forall cs cur flows,
    children_delete sch oc del x cs cur flows <> Err EOutOfFuel ->
    children_delete sch oc del' x cs cur flows = children_delete sch oc del x cs cur flows.
  Proof.
    intros Hs. induction cs as [|d cs IH]; intros cur flows H; cbn [children_delete] in *; [reflexivity|].
    destruct (loadable sch (fst cur) (sd_name d) x); [|apply IH; exact H].
    rewrite (process_delete_stable del del' cur (sd_name d) x Hs (bind_not_err _ _ _ H)).
    destruct (process_delete sch oc del cur (sd_name d) x) as [cur1|e]; cbn [bind] in *; [apply IH; exact H | reflexivity].
  Qed.

  Definition del_body (del : st_ev -> name -> id -> res st_ev) (stev : st_ev) (s : name) (i : id) : res st_ev :=
    let r := root_of sch s in
    if negb (present sch (fst stev) r i) then Err ENotFound
    else
      do acc <- children_delete sch oc del i (children_of sch r) stev [];
      let '(stev1, flows) := acc in
      if negb (present sch (fst stev1) r i) then Ok stev1
      else
        do stev2 <- process_delete sch oc del stev1 r i;
        let st3 := del_ent (fst stev2) r i in
        let hasChildren := match flows with [] => false | _ => true end in
        do evs1 <- fire (oc_vetoes oc) (snd stev2) r Deleted i hasChildren;
        do evs2 <- fire_flows oc i flows evs1;
        Ok (st3, evs2).

  Lemma delete_by_id_S n stev s i : delete_by_id sch oc (S n) stev s i = del_body (delete_by_id sch oc n) stev s i.
  Proof. reflexivity. Qed.

  Lemma del_body_stable del del' stev s x : Stable del del' ->
    del_body del stev s x <> Err EOutOfFuel -> del_body del' stev s x = del_body del stev s x.
  Proof.
    intros Hs H. unfold del_body in *. cbn zeta in *.
    destruct (negb (present sch (fst stev) (root_of sch s) x)); [reflexivity|].
    rewrite (children_delete_stable del del' x Hs _ stev [] (bind_not_err _ _ _ H)).
    destruct (children_delete sch oc del x (children_of sch (root_of sch s)) stev []) as [[stev1 flows]|e];
      cbn [bind] in *; [|reflexivity].
    destruct (negb (present sch (fst stev1) (root_of sch s) x)); [reflexivity|].
    rewrite (process_delete_stable del del' stev1 (root_of sch s) x Hs (bind_not_err _ _ _ H)). reflexivity.
  Qed.

  Lemma delete_fuel_step : forall n, Stable (delete_by_id sch oc n) (delete_by_id sch oc (S n)).
  Proof.
    induction n as [|n IH]; intros stev s x H; [exfalso; apply H; reflexivity|].
    rewrite (delete_by_id_S (S n)), (delete_by_id_S n). rewrite (delete_by_id_S n) in H.
    apply del_body_stable; assumption.
  Qed.

  (* more fuel never changes a result that is not "out of fuel" *)
  Lemma delete_fuel_monotone_lemma : forall n m stev s x,
    delete_by_id sch oc n stev s x <> Err EOutOfFuel ->
    delete_by_id sch oc (n + m) stev s x = delete_by_id sch oc n stev s x.
  Proof.
    intros n m. revert n. induction m as [|m IH]; intros n stev s x H.
    - rewrite Nat.add_0_r. reflexivity.
    - rewrite Nat.add_succ_r, <- Nat.add_succ_l. rewrite IH.
      + apply delete_fuel_step. exact H.
      + rewrite (delete_fuel_step n stev s x H). exact H.
  Qed.
End Fuel.
