(* C06 - AddLinks / RemoveLinks of a link collection preserve the invariant (links stay symmetric). *)
From Coq Require Import List NArith Bool Lia.
From Storage Require Import Base.Bytes Base.BytesFacts Store.Model Store.AListFacts Store.FrameProofs
     Store.NoTrace Store.NoTraceFacts Store.NoTraceInv Store.NoTraceWrite Store.NoTraceOps.
Import ListNotations.

Section Links.
  Variable sch : schema.
  Hypothesis W : wfprops sch.

  Notation fbytes := (NoTraceInv.fbytes sch).
  Notation Inv := (NoTraceWrite.Inv sch).

  Lemma find_link_in s lf os of_ : find_link sch s lf = Some (os, of_) -> In (lf, os, of_) (links_of sch s).
  Proof.
    unfold find_link, links_of. destruct (find_store sch s) as [d|]; [|discriminate].
    destruct (find _ (sd_links d)) as [[[lf' os'] of']|] eqn:Ef; [|discriminate].
    intros H. inversion H; subst. apply find_some in Ef as [Hin Heq]. apply str_eqb_eq in Heq. subst. exact Hin.
  Qed.

  Section Step.
    Variables s lf os of_ : name.
    Hypothesis Hl : In (lf, os, of_) (links_of sch s).
    Variable i t : id.
    Variable st : state.
    Hypothesis HI : Inv st.

    Let Hsym := wp_link_sym sch W _ _ _ _ Hl.
    Let S := root_of sch s.
    Let O := root_of sch os.

    (* a link field is neither a set-index field nor a back-reference set *)
    Lemma not_setidx s0 f0 : In (CSetIdx f0) (cons_of sch s0) -> ~ (root_of sch s0 = S /\ f0 = lf) /\ ~ (root_of sch s0 = O /\ f0 = of_).
    Proof.
      intros Hc. split; intros [E ->].
      - eapply (wp_disj_sl sch W); [exact Hc | exact Hl | symmetry; exact E | reflexivity].
      - eapply (wp_disj_sl sch W); [exact Hc | exact Hsym | symmetry; exact E | reflexivity].
    Qed.
    Lemma not_backref s1 f1 t1 b1 nl1 : In (CFkIndex f1 t1 b1 nl1) (cons_of sch s1) ->
      ~ (root_of sch t1 = S /\ b1 = lf) /\ ~ (root_of sch t1 = O /\ b1 = of_).
    Proof.
      intros Hc. split; intros [E ->].
      - eapply (wp_disj_bl sch W); [exact Hc | exact Hl | symmetry; exact E | reflexivity].
      - eapply (wp_disj_bl sch W); [exact Hc | exact Hsym | symmetry; exact E | reflexivity].
    Qed.

    Lemma add_step : present sch st s i = true -> present sch st os t = true ->
      Inv (backref_add sch (backref_add sch st s i lf t) os t of_ i).
    Proof.
      intros Hpi Hpt.
      set (st1 := backref_add sch st s i lf t). set (st2 := backref_add sch st1 os t of_ i).
      assert (Hfc : ents_fc_eq st st2) by (eapply ents_fc_eq_trans; apply backref_add_fc).
      assert (Hp : forall s0 j, present sch st2 s0 j = present sch st s0 j) by (intros; apply present_fc; apply Hfc).
      assert (Hg : forall s0 j f, get_field sch st2 s0 j f = get_field sch st s0 j f) by (intros; apply get_field_fc; apply Hfc).
      assert (Hei : get_ent st S i <> None) by (apply present_get_ent; exact Hpi).
      assert (Het : get_ent st O t <> None) by (apply present_get_ent; exact Hpt).
      assert (Het1 : get_ent st1 O t <> None).
      { intros Hn. apply Het. apply (get_ent_none_fc st st1 O t (backref_add_fc sch st s i lf t)). exact Hn. }
      assert (Hes : forall r j f z, In z (eset st2 r j f) <->
                 In z (eset st r j f) \/ (r = S /\ j = i /\ f = lf /\ z = t) \/ (r = O /\ j = t /\ f = of_ /\ z = i)).
      { intros. unfold st2, st1. rewrite !eset_backref_add. fold S O. split.
        - intros [[A|[A [B [C [D _]]]]]|[A [B [C [D _]]]]]; [left; exact A | right; left; repeat split; assumption | right; right; repeat split; assumption].
        - intros [A|[[A [B [C D]]]|[A [B [C D]]]]]; [left; left; exact A | left; right; subst; repeat split; exact Hei
                                                    | right; subst; repeat split; exact Het1]. }
      destruct HI as [[HU [HS [HB [HF [HC HL]]]]] HFS]. split; [|eapply FieldsStr_fc; eauto].
      refine (conj _ (conj _ (conj _ (conj _ (conj _ _))))).
      - intros r f v x Hx. unfold st2, st1 in Hx. rewrite !backref_add_uidx in Hx.
        destruct (HU r f v x Hx) as [s0 [nl [A [B [C [D E]]]]]]. exists s0, nl. unfold NoTraceInv.fbytes in *. rewrite Hp, Hg. repeat split; assumption.
      - intros r f v x Hx. unfold sbucket, st2, st1 in Hx. rewrite !backref_add_sidx in Hx.
        destruct (HS r f v x Hx) as [s0 [A0 [A [P B]]]]. exists s0. rewrite Hp. split; [exact A0|]. split; [exact A|]. split; [exact P|]. apply Hes. left. exact B.
      - intros s1 f1 t1 b1 nl1 ti x Hin Hx. destruct (not_backref _ _ _ _ _ Hin) as [N1 N2].
        apply Hes in Hx as [Hx|[[A [_ [B _]]]|[A [_ [B _]]]]]; [|exfalso; apply N1; split; assumption|exfalso; apply N2; split; assumption].
        unfold NoTraceInv.fbytes. rewrite Hp, Hg. apply (HB s1 f1 t1 b1 nl1 ti x Hin Hx).
      - intros s1 f1 t1 b1 nl1 y v Hin Hgn Hpy Hf Hn. rewrite Hp in Hpy. rewrite Hg in Hf. rewrite Hp.
        destruct (HF s1 f1 t1 b1 nl1 y v Hin Hgn Hpy Hf Hn) as [A B]. split; [apply Hes; left; exact A | exact B].
      - intros s1 f1 t1 nl1 y v Hin Hgn Hpy Hf Hn. rewrite Hp in Hpy. rewrite Hg in Hf. rewrite Hp.
        apply (HC s1 f1 t1 nl1 y v Hin Hgn Hpy Hf Hn).
      - intros s1 lf1 os1 of1 x t0 Hin _ Ht0. rewrite !Hp. apply Hes in Ht0 as [Ht0|[[E1 [-> [-> ->]]]|[E1 [-> [-> ->]]]]].
        + destruct (HL s1 lf1 os1 of1 x t0 Hin (fun q => q) Ht0) as [A [B C]]. split; [apply Hes; left; exact A | split; assumption].
        + destruct (wp_link_uniq sch W _ _ _ _ _ _ _ Hin Hl E1) as [-> [-> ->]]. split; [apply Hes; right; right; repeat split | split; assumption].
        + destruct (wp_link_uniq sch W _ _ _ _ _ _ _ Hin Hsym E1) as [-> [-> ->]]. split; [apply Hes; right; left; repeat split | split; assumption].
    Qed.

    Lemma remove_step : Inv (backref_del sch (backref_del sch st s i lf t) os t of_ i).
    Proof.
      set (st1 := backref_del sch st s i lf t). set (st2 := backref_del sch st1 os t of_ i).
      assert (Hfc : ents_fc_eq st st2) by (eapply ents_fc_eq_trans; apply backref_del_fc).
      assert (Hp : forall s0 j, present sch st2 s0 j = present sch st s0 j) by (intros; apply present_fc; apply Hfc).
      assert (Hg : forall s0 j f, get_field sch st2 s0 j f = get_field sch st s0 j f) by (intros; apply get_field_fc; apply Hfc).
      assert (Hes : forall r j f z, In z (eset st2 r j f) <->
                 In z (eset st r j f) /\ ~ (r = S /\ j = i /\ f = lf /\ z = t) /\ ~ (r = O /\ j = t /\ f = of_ /\ z = i)).
      { intros. unfold st2, st1. rewrite !eset_backref_del. fold S O. tauto. }
      destruct HI as [[HU [HS [HB [HF [HC HL]]]]] HFS]. split; [|eapply FieldsStr_fc; eauto].
      refine (conj _ (conj _ (conj _ (conj _ (conj _ _))))).
      - intros r f v x Hx. unfold st2, st1 in Hx. rewrite !backref_del_uidx in Hx.
        destruct (HU r f v x Hx) as [s0 [nl [A [B [C [D E]]]]]]. exists s0, nl. unfold NoTraceInv.fbytes in *. rewrite Hp, Hg. repeat split; assumption.
      - intros r f v x Hx. unfold sbucket, st2, st1 in Hx. rewrite !backref_del_sidx in Hx.
        destruct (HS r f v x Hx) as [s0 [A0 [A [P B]]]]. exists s0. rewrite Hp. split; [exact A0|]. split; [exact A|]. split; [exact P|].
        destruct (not_setidx s0 f A) as [N1 N2]. apply Hes.
        split; [exact B|]. split; intros [Q1 [_ [Q2 _]]]; [apply N1 | apply N2]; split; congruence.
      - intros s1 f1 t1 b1 nl1 ti x Hin Hx. apply Hes in Hx as [Hx _].
        unfold NoTraceInv.fbytes. rewrite Hp, Hg. apply (HB s1 f1 t1 b1 nl1 ti x Hin Hx).
      - intros s1 f1 t1 b1 nl1 y v Hin Hgn Hpy Hf Hn. rewrite Hp in Hpy. rewrite Hg in Hf.
        destruct (not_backref _ _ _ _ _ Hin) as [N1 N2]. rewrite Hp.
        destruct (HF s1 f1 t1 b1 nl1 y v Hin Hgn Hpy Hf Hn) as [A B]. split; [|exact B]. apply Hes.
        split; [exact A|]. split; intros [Q1 [_ [Q2 _]]]; [apply N1 | apply N2]; split; assumption.
      - intros s1 f1 t1 nl1 y v Hin Hgn Hpy Hf Hn. rewrite Hp in Hpy. rewrite Hg in Hf. rewrite Hp.
        apply (HC s1 f1 t1 nl1 y v Hin Hgn Hpy Hf Hn).
      - intros s1 lf1 os1 of1 x t0 Hin _ Ht0. apply Hes in Ht0 as [Ht0 [M1 M2]]. rewrite !Hp.
        destruct (HL s1 lf1 os1 of1 x t0 Hin (fun q => q) Ht0) as [A [B C]]. split; [|split; assumption]. apply Hes.
        split; [exact A|]. pose proof (wp_link_sym sch W _ _ _ _ Hin) as Hsym1. split.
        + intros [E1 [-> [-> ->]]]. destruct (wp_link_uniq sch W _ _ _ _ _ _ _ Hsym1 Hl E1) as [-> [-> ->]]. apply M2. repeat split.
        + intros [E1 [-> [-> ->]]]. destruct (wp_link_uniq sch W _ _ _ _ _ _ _ Hsym1 Hsym E1) as [-> [-> ->]]. apply M1. repeat split.
    Qed.
  End Step.

  Lemma present_step_add st s i lf os of_ t j s0 :
    present sch (backref_add sch (backref_add sch st s i lf t) os t of_ i) s0 j = present sch st s0 j.
  Proof. rewrite !present_backref_add. reflexivity. Qed.

  Lemma op_add_links_inv st s i lf ts st' : Inv st -> op_add_links sch st s i lf ts = Ok st' -> Inv st'.
  Proof.
    intros HI H. unfold op_add_links in H. destruct (find_link sch s lf) as [[os of_]|] eqn:Efl; [|discriminate].
    pose proof (find_link_in _ _ _ _ Efl) as Hl.
    destruct (present sch st s i) eqn:Epi; cbn [negb] in H; [|discriminate].
    assert (Hfold : forall l acc stf, fold_left (fun acc t => do cur <- acc;
               if present sch cur os t then Ok (backref_add sch (backref_add sch cur s i lf t) os t of_ i) else Err ENotFound) l acc = Ok stf ->
             (forall st0, acc = Ok st0 -> Inv st0 /\ present sch st0 s i = true) -> Inv stf).
    { clear H. induction l as [|t l IH]; intros acc stf H Hacc; cbn [fold_left] in H.
      - destruct (Hacc stf H) as [A _]. exact A.
      - apply (IH _ _ H). intros st1 H1. destruct acc as [st0|e]; cbn [bind] in H1; [|discriminate].
        destruct (Hacc st0 eq_refl) as [A B]. destruct (present sch st0 os t) eqn:Ept; [|discriminate]. inversion H1; subst st1.
        split; [apply (add_step s lf os of_ Hl i t st0 A B Ept) | rewrite present_step_add; exact B]. }
    apply (Hfold _ _ _ H). intros st0 E. inversion E; subst. split; assumption.
  Qed.

  Lemma op_remove_links_inv st s i lf ts st' : Inv st -> op_remove_links sch st s i lf ts = Ok st' -> Inv st'.
  Proof.
    intros HI H. unfold op_remove_links in H. destruct (find_link sch s lf) as [[os of_]|] eqn:Efl; [|discriminate].
    pose proof (find_link_in _ _ _ _ Efl) as Hl.
    destruct (negb (present sch st s i)); [discriminate|]. inversion H; subst st'. clear H.
    revert st HI. induction ts as [|t ts IH]; intros st HI; cbn [fold_left]; [exact HI|].
    apply IH. apply (remove_step s lf os of_ Hl i t st HI).
  Qed.
End Links.
