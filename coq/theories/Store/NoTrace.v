(* C06 - definitions (no proofs): what it means that a state mentions an id, and the boolean
   well-formedness check of a schema under which "a delete leaves no trace" is proved
   (Store/NoTraceProofs.v).  Imports the frozen machine Store/Model.v. *)
From Coq Require Import List NArith Bool.
From Storage Require Import Base.Bytes Store.Model.
Import ListNotations.

(* the string set [f] stored inside entity [i] of root store [r] (set field, back-reference set or link set) *)
Definition eset (st : state) (r : name) (i : id) (f : name) : list str :=
  match get_ent st r i with Some e => ent_set e f | None => [] end.

(* the ids listed under value [v] of the set index (r, f) *)
Definition sbucket (st : state) (r f : name) (v : str) : list id :=
  match al_get v (sidx st r f) with Some l => l | None => [] end.

Definition links_of (sch : schema) (s : name) : list (name * name * name) :=
  match find_store sch s with Some d => sd_links d | None => [] end.

(* [mentions sch st R x]: the id x of root store R occurs somewhere in the state *)
Definition mentions (sch : schema) (st : state) (R : name) (x : id) : Prop :=
  (* as an entity (fields, string sets and child-store data live inside the entity) *)
  get_ent st R x <> None
  (* as the target of an entry of any unique index kept under R's entity type *)
  \/ (exists f v, al_get v (uidx st R f) = Some x)
  (* as a member of a bucket of any set index kept under R's entity type *)
  \/ (exists f v, In x (sbucket st R f v))
  (* in a back-reference set: the set b on the target of a foreign-key index of a store of R's family *)
  \/ (exists s f t b nl ti, root_of sch s = R /\ In (CFkIndex f t b nl) (cons_of sch s) /\
                            In x (eset st (root_of sch t) ti b))
  (* in a link set whose elements are ids of R *)
  \/ (exists s lf os of_ i, In (lf, os, of_) (links_of sch s) /\ root_of sch os = R /\
                            In x (eset st (root_of sch s) i lf))
  (* as the value of a foreign-key field (fk index or fk constraint) whose target store belongs to R *)
  \/ (exists s f t y, root_of sch t = R /\
         ((exists b nl, In (CFkIndex f t b nl) (cons_of sch s)) \/ (exists nl, In (CFkCons f t nl) (cons_of sch s))) /\
         nonempty x = true /\ present sch st s y = true /\ get_field sch st s y f = FStr x).

(* ---------------------------------------------------------------- well-formedness *)
Fixpoint nt_nodupb (l : list str) : bool :=
  match l with
  | [] => true
  | x :: r => negb (ss_mem x r) && nt_nodupb r
  end.

Definition is_rootb (sch : schema) (s : name) : bool :=
  match find_store sch s with
  | Some d => match sd_parent d with None => true | Some _ => false end
  | None => false
  end.

Definition name3_eqb (a b : name * name * name) : bool :=
  match a, b with (a1, a2, a3), (b1, b2, b3) => str_eqb a1 b1 && str_eqb a2 b2 && str_eqb a3 b3 end.

Definition unique_fields (ks : list cons) : list name :=
  flat_map (fun k => match k with CUnique f _ => [f] | _ => [] end) ks.
Definition setidx_fields (ks : list cons) : list name :=
  flat_map (fun k => match k with CSetIdx f => [f] | _ => [] end) ks.
(* back-reference set names that foreign-key indexes anywhere in the schema keep on (the entities of) root store r: the
   target of the index is r itself or one of its child stores *)
Definition backrefs_on (sch : schema) (r : name) : list name :=
  flat_map (fun d => flat_map (fun k => match k with CFkIndex _ t' b _ => if str_eqb (root_of sch t') r then [b] else [] | _ => [] end) (sd_cons d)) sch.
Definition declaredb (sch : schema) (s : name) : bool :=
  match find_store sch s with Some _ => true | None => false end.
Definition link_locals (d : sdef) : list name := map (fun l : name * name * name => fst (fst l)) (sd_links d).

(* the stores of the family of root r: r itself and its child stores *)
Definition family (sch : schema) (r : name) : list sdef :=
  filter (fun d => str_eqb (sd_name d) r || match sd_parent d with Some p => str_eqb p r | None => false end) sch.

(* a link collection (of a root store or of a child store) is declared on both sides; the other side may be a root store
   or a child store *)
Definition wf_link (sch : schema) (d : sdef) (l : name * name * name) : bool :=
  match l with (lf, os, of_) => existsb (name3_eqb (of_, sd_name d, lf)) (links_of sch os) end.

(* a constraint of a root store or of a child store.  Foreign-key index / constraint: the target - a root store or a child
   store - is declared and guarded, the field is not the isSystem flag; on a child store the field (also of a unique index) is
   one of its own fields.  Set index: over a declared string list of the root store. *)
Definition wf_cons (sch : schema) (d : sdef) (k : cons) : bool :=
  match k with
  | CSetIdx f =>     (* over a string list of the root store (the machine keeps string lists at the root level) *)
      match sd_parent d with
      | None => ss_mem f (sd_sets d)
      | Some p => match find_store sch p with Some pd => ss_mem f (sd_sets pd) | None => false end
      end
  | CUnique f _ => match sd_parent d with None => true | Some _ => declares_field d f end
  | CFkIndex f t b _ =>
      declaredb sch t && negb (str_eqb f isSystemF) &&
      (match sd_parent d with None => true | Some _ => declares_field d f end) &&
      existsb (fun k' => match k' with
                         | CFkRestrict b' => str_eqb b' b
                         | CFkCascade rs f' _ => str_eqb rs (sd_name d) && str_eqb f' f
                         | _ => false end) (cons_of sch t)
  | CFkCons f t _ =>
      declaredb sch t && negb (str_eqb f isSystemF) &&
      (match sd_parent d with None => true | Some _ => declares_field d f end) &&
      existsb (fun k' => match k' with
                         | CFkCascade rs f' _ => str_eqb rs (sd_name d) && str_eqb f' f
                         | _ => false end) (cons_of sch t)
  | _ => true
  end.

Definition wf_child (sch : schema) (d : sdef) : bool :=
  match sd_parent d with
  | None => true
  | Some p =>
      is_rootb sch p &&
      forallb (wf_cons sch d) (sd_cons d) &&
      forallb (wf_link sch d) (sd_links d)
  end.

Definition wf_root (sch : schema) (d : sdef) : bool :=
  match sd_parent d with
  | Some _ => true
  | None =>
      nt_nodupb (flat_map (fun c => unique_fields (sd_cons c)) (family sch (sd_name d))) &&
      nt_nodupb (flat_map (fun c => setidx_fields (sd_cons c)) (family sch (sd_name d))) &&
      (* the string sets inside an entity of this root store: declared string lists, back-reference sets kept on it, and the
         link sets of the root store AND of its child stores (the machine keeps them all in the root entity) *)
      nt_nodupb (sd_sets d ++ backrefs_on sch (sd_name d) ++ flat_map link_locals (family sch (sd_name d))) &&
      forallb (wf_cons sch d) (sd_cons d) &&
      forallb (wf_link sch d) (sd_links d)
  end.

Definition nt_wf_parents (sch : schema) : bool :=
  forallb (fun d => match sd_parent d with Some p => negb (is_child sch p) | None => true end) sch.

Definition wf_notrace_b (sch : schema) : bool :=
  nt_nodupb (map sd_name sch) && nt_wf_parents sch && forallb (wf_child sch) sch && forallb (wf_root sch) sch.
