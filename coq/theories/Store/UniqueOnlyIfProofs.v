(* C03, the converse of Store/UniqueRejectProofs.v: a create / update is refused with EDuplicate
   (UniqueIndexDuplicateError) ONLY when it would give two entities the same unique value.

   (1) generic: among the constraint hooks only the one of a unique index raises EDuplicate, and a run
       of a constraint list that ends in EDuplicate stopped at a unique index whose earlier hooks succeeded;
   (2) for the unique index (s, f) of a well-formed schema: when its hook reports the duplicate while the
       entity i is created / updated in a state satisfying the invariant, ANOTHER present entity of the
       state the operation started in holds the non-empty value the operation persists in f;
   (3) operation level: an update / create that fails with EDuplicate was stopped by a unique index of the
       root store (then (2) applies) or by one of the child store it runs in.
   Built on the invariant of Store/UniqueProofs.v and the vocabulary of Store/UniqueRejectProofs.v. *)
From Coq Require Import List NArith Bool Lia.
From Storage Require Import Base.Bytes Base.BytesFacts Store.Model Store.AListFacts Store.FrameProofs
  Store.UniqueProofs Store.WfSchema Store.UniqueRejectProofs.
Import ListNotations.

(* ================================================================ (1) where EDuplicate comes from *)
Lemma after_update_one_dup_is_unique sch st c k sv :
  after_update_one sch st c k sv = Err EDuplicate -> exists f nl, k = CUnique f nl.
Proof.
  destruct k as [f nl|f|f t b nl|b|f t nl|r f cc|]; cbn [after_update_one]; intros H.
  - exists f, nl. reflexivity.
  - exfalso. destruct (strs_eqb _ _); [discriminate|]. destruct (negb _); discriminate.
  - exfalso. destruct (negb (ic_create c) && _); [discriminate|].
    destruct (nonempty (sv_atom sv)).
    + destruct (present sch st t (sv_atom sv)); cbn [bind] in H; [|discriminate].
      destruct (nonempty _); [destruct (present _ _ _ _); discriminate | destruct nl; discriminate].
    + cbn [bind] in H.
      destruct (nonempty _); [destruct (present _ _ _ _); discriminate | destruct nl; discriminate].
  - discriminate.
  - exfalso. destruct (negb (ic_create c) && _); [discriminate|].
    destruct (nonempty _); [destruct (present _ _ _ _); discriminate | destruct nl; discriminate].
  - discriminate.
  - exfalso. destruct (ic_create c); [|discriminate].
    destruct (get_field _ _ _ _ _) as [| |x|[|]]; try discriminate. destruct (ic_sys c); discriminate.
Qed.

Lemma after_update_all_dup_origin sch c : forall ks svs st,
  after_update_all sch st c ks svs = Err EDuplicate ->
  exists pre f nl post stm,
    ks = pre ++ CUnique f nl :: post /\
    after_update_all sch st c pre svs = Ok stm /\
    after_update_one sch stm c (CUnique f nl) (hd SvNone (skipn (length pre) svs)) = Err EDuplicate.
Proof.
  induction ks as [|k ks IH]; intros svs st H; cbn [after_update_all] in H; [discriminate|].
  destruct (after_update_one sch st c k _) as [st1|e] eqn:E1; cbn [bind] in H.
  - destruct (IH _ _ H) as [pre [f [nl [post [stm [Hk [Hp Hh]]]]]]].
    exists (k :: pre), f, nl, post, stm. split; [rewrite Hk; reflexivity|]. split.
    + cbn [after_update_all]. rewrite E1. cbn [bind]. exact Hp.
    + cbn [length]. destruct svs as [|x t]; cbn [skipn]; [rewrite skipn_nil in Hh|]; exact Hh.
  - inversion H; subst e. destruct (after_update_one_dup_is_unique _ _ _ _ _ E1) as [f [nl ->]].
    exists [], f, nl, ks, st. split; [reflexivity|]. split; [reflexivity|].
    cbn [length skipn]. destruct svs; exact E1.
Qed.

(* the position of the only element satisfying P *)
Lemma unique_position {A} (P : A -> Prop) : forall (pre0 : list A) x0 post0 pre x post,
  pre0 ++ x0 :: post0 = pre ++ x :: post ->
  Forall (fun k => ~ P k) pre0 -> Forall (fun k => ~ P k) post0 -> P x -> pre = pre0.
Proof.
  induction pre0 as [|a pre0 IH]; intros x0 post0 pre x post He Hpre Hpost Hx.
  - destruct pre as [|b pre]; [reflexivity|]. cbn in He. inversion He; subst.
    exfalso. rewrite Forall_forall in Hpost. apply (Hpost x); [|exact Hx]. apply in_or_app. right. left. reflexivity.
  - destruct pre as [|b pre]; cbn in He; inversion He; subst.
    + exfalso. inversion Hpre; subst. auto.
    + f_equal. inversion Hpre; subst. eapply IH; eauto.
Qed.

(* fire_cu and the before-hooks never report a duplicate *)
Lemma fire_not_dup vs evs s c i p : fire vs evs s c i p <> Err EDuplicate.
Proof. unfold fire. destruct (vetoed _ _ _ _); discriminate. Qed.

Lemma fire_cu_not_dup sch oc evs s c i : fire_cu sch oc evs s c i <> Err EDuplicate.
Proof.
  unfold fire_cu. destruct (is_child sch s).
  - destruct (fire (oc_vetoes oc) evs (root_of sch s) c i true) as [e1|k] eqn:E; cbn [bind].
    + apply fire_not_dup.
    + intros H. inversion H; subst. exact (fire_not_dup _ _ _ _ _ _ E).
  - cbn [bind]. apply fire_not_dup.
Qed.

Lemma before_update_one_not_dup sch st c k : before_update_one sch st c k <> Err EDuplicate.
Proof.
  destruct k; cbn [before_update_one]; try discriminate.
  destruct (negb (ic_create c)); [|discriminate].
  destruct (get_field _ _ _ _ _) as [| |x|[|]]; try discriminate. destruct (ic_sys c); discriminate.
Qed.

Lemma before_update_all_not_dup sch st c : forall ks, before_update_all sch st c ks <> Err EDuplicate.
Proof.
  induction ks as [|k ks IH]; cbn [before_update_all]; [discriminate|].
  destruct (before_update_one sch st c k) as [sv|e] eqn:E; cbn [bind].
  - destruct (before_update_all sch st c ks) as [r|e] eqn:E2; cbn [bind]; [discriminate|].
    intros H; inversion H; subst. exact (IH eq_refl).
  - intros H; inversion H; subst. exact (before_update_one_not_dup _ _ _ _ E).
Qed.

Lemma before_chain_not_dup sch st cr sys i : forall ch, before_chain sch st cr sys i ch <> Err EDuplicate.
Proof.
  induction ch as [|[s ks] ch IH]; cbn [before_chain]; [discriminate|].
  destruct (before_update_all sch st _ ks) as [svs|e] eqn:E; cbn [bind].
  - destruct (before_chain sch st cr sys i ch) as [r|e] eqn:E2; cbn [bind]; [discriminate|].
    intros H; inversion H; subst. exact (IH eq_refl).
  - intros H; inversion H; subst. exact (before_update_all_not_dup _ _ _ _ E).
Qed.

(* ================================================================ (2) the unique index (s, f) *)
Section UniqueOnlyIf.
  Variable sch : schema.
  Variable s f : name.
  Hypothesis Hroot : is_child sch s = false.
  Hypothesis Hroots : forall x, root_of sch (root_of sch x) = root_of sch x.
  Hypothesis Hown : forall s' nl, root_of sch s' = s -> In (CUnique f nl) (cons_of sch s') -> s' = s.
  Hypothesis Honce : exists nl pre post,
    cons_of sch s = pre ++ CUnique f nl :: post /\ Forall (fun k => ~ is_ours f k) pre /\ Forall (fun k => ~ is_ours f k) post.
  Hypothesis Hchildren : forall r0 d, In d (children_of sch r0) -> root_of sch (sd_name d) = r0.

  Local Notation PRES := (pres sch s).
  Local Notation FB := (fbytes sch s f).
  Local Notation UINV := (UInv sch s f).
  Local Notation MID := (MidInv sch s f).
  Local Notation VIEW := (same_view sch s f).
  Local Notation DUP := (dup_at sch s f).

  (* the hook of the index reports a duplicate only when another present entity holds the new value *)
  Lemma unique_hook_dup_conv old i st c nl sv :
    MID old i st -> ic_store c = s -> ic_id c = i -> sv_atom sv = old ->
    after_update_one sch st c (CUnique f nl) sv = Err EDuplicate -> DUP st i (FB st i).
  Proof.
    intros [M1 [M2 [M3 M4]]] Hs Hi Hsv H. cbn [after_update_one] in H.
    rewrite Hs, Hi, Hsv, (rs sch s Hroot) in H. fold (fbytes sch s f st i) in H.
    set (new := FB st i) in *.
    destruct (negb (ic_create c) && str_eqb old new); [discriminate|].
    destruct (nonempty new) eqn:En; [|destruct nl; discriminate].
    destruct (al_get new (if nonempty old then al_del old (uidx st s f) else uidx st s f)) as [j|] eqn:Eg;
      [|destruct (key_ok new); discriminate].
    assert (al_get new (uidx st s f) = Some j /\ (nonempty old = true -> old <> new)) as [Hg Hne].
    { destruct (nonempty old) eqn:Eo.
      - rewrite al_get_del in Eg. destruct (str_eqb old new) eqn:Eq; [discriminate|].
        split; [exact Eg|]. intros _. apply str_eqb_neq. exact Eq.
      - split; [exact Eg | discriminate]. }
    destruct (M2 new j Hg) as [_ [Hpj [Hother Hself]]].
    split; [exact En|]. exists j.
    assert (j <> i) as Hji.
    { intros ->. specialize (Hself eq_refl). apply Hne; [|symmetry; exact Hself]. rewrite <- Hself. exact En. }
    split; [exact Hji|]. split; [exact Hpj | apply Hother; exact Hji].
  Qed.

  Lemma view_sym st st' : VIEW st st' -> VIEW st' st.
  Proof. intros [A [B C]]. repeat split; intros; congruence. Qed.

  (* ... in the run of the constraint list of s after entity i was persisted *)
  Lemma cons_run_dup_conv c old i st1 svs stm nl0 :
    MID old i st1 -> ic_store c = s -> ic_id c = i ->
    (forall pre k post, cons_of sch s = pre ++ k :: post -> is_ours f k ->
        sv_atom (hd SvNone (skipn (length pre) svs)) = old) ->
    after_update_all sch st1 c (before_unique f (cons_of sch s)) svs = Ok stm ->
    after_update_one sch stm c (CUnique f nl0)
      (hd SvNone (skipn (length (before_unique f (cons_of sch s))) svs)) = Err EDuplicate ->
    DUP st1 i (FB st1 i).
  Proof.
    intros HM Hs Hi Hsv Hpre Hh. destruct Honce as [nl [pre [post [Hc [Hp Hpost]]]]].
    specialize (Hsv pre (CUnique f nl) post Hc (ex_intro _ nl eq_refl)).
    rewrite Hc, (before_unique_app f pre nl post Hp) in Hpre, Hh.
    assert (VIEW st1 stm) as Hv.
    { eapply after_all_view; [|exact Hpre]. apply not_ours_of_not_is_ours. exact Hp. }
    assert (MID old i stm) as HMm by (eapply MidInv_view; eauto).
    pose proof (unique_hook_dup_conv old i stm c nl0 _ HMm Hs Hi Hsv Hh) as Hd.
    pose proof (dup_at_view sch s f _ _ i _ (view_sym _ _ Hv) Hd) as Hd1.
    destruct Hv as [_ [_ Hf]]. rewrite Hf in Hd1. exact Hd1.
  Qed.

  Lemma dup_at_unset st i e v : DUP (set_ent st s i e) i v -> DUP st i v.
  Proof.
    intros [Hn [j [Hj [Hpj Hfj]]]]. split; [exact Hn|]. exists j. split; [exact Hj|].
    rewrite (pres_set_ent sch s Hroot) in Hpj.
    assert (str_eqb i j = false) as E by (apply str_eqb_neq; congruence). rewrite E in Hpj.
    rewrite (fbytes_set_ent_other sch s f Hroot) in Hfj by congruence. split; assumption.
  Qed.

  (* ---- update: the duplicate reported by the index on f means another entity of the state the update
          started in holds the value the update persists ---- *)
  Lemma update_dup_conv oc st s0 i fv sv ch svs stm nl0 :
    UINV st -> root_of sch s0 = s -> present sch st s0 i = true ->
    before_chain sch st false (oc_sys oc) i (chain sch s0) = Ok svs ->
    after_update_all sch (set_ent st s i (persist sch s0 false false fv sv ch (cur_ent s st i)))
                     (mkIctx false (oc_sys oc) s i) (before_unique f (cons_of sch s)) (hd [] svs) = Ok stm ->
    after_update_one sch stm (mkIctx false (oc_sys oc) s i) (CUnique f nl0)
      (hd SvNone (skipn (length (before_unique f (cons_of sch s))) (hd [] svs))) = Err EDuplicate ->
    DUP st i (new_f sch s f false false fv ch (cur_ent s st i)).
  Proof.
    intros HU Hr Hp0 Hbc Hpre Hh.
    set (st1 := set_ent st s i (persist sch s0 false false fv sv ch (cur_ent s st i))) in *.
    pose proof (pres_of_present sch s Hroot st s0 i Hr Hp0) as Hpi.
    assert (MID (FB st i) i st1) as HM by (apply persist_mid_update; [exact Hroot | exact HU | exact Hpi]).
    pose proof (before_chain_root sch s st false (oc_sys oc) i s0 svs Hr
                  (not_child_eq sch s s0 Hr) Hbc) as HbA.
    pose proof (cons_run_dup_conv (mkIctx false (oc_sys oc) s i) (FB st i) i st1 (hd [] svs) stm nl0 HM eq_refl eq_refl
                  (saved_at_hook sch s f st i (oc_sys oc) (hd [] svs) HbA) Hpre Hh) as Hd.
    assert (FB st1 i = new_f sch s f false false fv ch (cur_ent s st i)) as Hf1.
    { unfold st1. apply (fbytes_persisted sch s f Hroot); [exact Hr | exact (found_of_root sch s f Honce s0 Hr)]. }
    rewrite Hf1 in Hd. eapply dup_at_unset. exact Hd.
  Qed.

  (* ---- create ---- *)
  Lemma create_dup_conv oc st s0 i sys fv sv stm nl0 :
    UINV st -> root_of sch s0 = s -> find_store sch s0 <> None -> present sch st s i = false ->
    after_update_all sch (set_ent st s i (persist sch s0 true sys fv sv None ent_empty))
                     (mkIctx true (oc_sys oc) s i) (before_unique f (cons_of sch s)) [] = Ok stm ->
    after_update_one sch stm (mkIctx true (oc_sys oc) s i) (CUnique f nl0)
      (hd SvNone (skipn (length (before_unique f (cons_of sch s))) [])) = Err EDuplicate ->
    DUP st i (new_f sch s f true sys fv None ent_empty).
  Proof.
    intros HU Hr Hfound Hps Hpre Hh.
    set (st1 := set_ent st s i (persist sch s0 true sys fv sv None ent_empty)) in *.
    assert (MID [] i st1) as HM by (apply persist_mid_create; [exact Hroot | exact HU | exact Hps]).
    pose proof (cons_run_dup_conv (mkIctx true (oc_sys oc) s i) [] i st1 [] stm nl0 HM eq_refl eq_refl) as Hd.
    assert (FB st1 i = new_f sch s f true sys fv None ent_empty) as Hf1.
    { unfold st1. apply (fbytes_persisted sch s f Hroot); [exact Hr | exact Hfound]. }
    rewrite Hf1 in Hd. eapply dup_at_unset. apply Hd; [|exact Hpre | exact Hh].
    intros; rewrite skipn_nil; reflexivity.
  Qed.
End UniqueOnlyIf.

(* ================================================================ (3) all unique indexes of a root store *)
(* every unique index declared on the root store s is well-formed and mirrors the entities of st *)
Definition all_unique_ok (sch : schema) (s : name) (st : state) : Prop :=
  forall f nl, In (CUnique f nl) (cons_of sch s) -> wf_unique_b sch s f = true /\ UInv sch s f st.

(* the run of the root store's constraint list for an update of entity i reports a duplicate: one of the
   store's unique indexes has another present entity holding the value the update persists in its field *)
Lemma root_run_dup_update sch s oc st s0 i fv sv ch svs :
  all_unique_ok sch s st -> root_of sch s0 = s -> present sch st s0 i = true ->
  before_chain sch st false (oc_sys oc) i (chain sch s0) = Ok svs ->
  after_update_all sch (set_ent st s i (persist sch s0 false false fv sv ch (cur_ent s st i)))
                   (mkIctx false (oc_sys oc) s i) (cons_of sch s) (hd [] svs) = Err EDuplicate ->
  exists f nl, In (CUnique f nl) (cons_of sch s) /\
               dup_at sch s f st i (new_f sch s f false false fv ch (cur_ent s st i)).
Proof.
  intros Hall Hr Hp0 Hbc Hrun.
  destruct (after_update_all_dup_origin _ _ _ _ _ Hrun) as [pre [f [nl [post [stm [Hk [Hpre Hh]]]]]]].
  assert (In (CUnique f nl) (cons_of sch s)) as Hin by (rewrite Hk; apply in_or_app; right; left; reflexivity).
  destruct (Hall f nl Hin) as [Hwf HU].
  destruct (wf_unique_b_sound sch s f Hwf) as [H1 [H2 [H3 [H4 H5]]]].
  exists f, nl. split; [exact Hin|].
  assert (before_unique f (cons_of sch s) = pre) as Hbu.
  { destruct H4 as [nl0 [pre0 [post0 [Hc [Hp0' Hpost0]]]]]. rewrite Hc.
    rewrite (before_unique_app f pre0 nl0 post0 Hp0'). symmetry.
    eapply (unique_position (is_ours f)); [rewrite <- Hc; exact Hk | exact Hp0' | exact Hpost0 | exists nl; reflexivity]. }
  eapply (update_dup_conv sch s f) with (svs := svs) (stm := stm) (nl0 := nl); try eassumption; rewrite Hbu; eassumption.
Qed.

Lemma root_run_dup_create sch s oc st s0 i sys fv sv :
  all_unique_ok sch s st -> root_of sch s0 = s -> find_store sch s0 <> None -> present sch st s i = false ->
  after_update_all sch (set_ent st s i (persist sch s0 true sys fv sv None ent_empty))
                   (mkIctx true (oc_sys oc) s i) (cons_of sch s) [] = Err EDuplicate ->
  exists f nl, In (CUnique f nl) (cons_of sch s) /\
               dup_at sch s f st i (new_f sch s f true sys fv None ent_empty).
Proof.
  intros Hall Hr Hfound Hps Hrun.
  destruct (after_update_all_dup_origin _ _ _ _ _ Hrun) as [pre [f [nl [post [stm [Hk [Hpre Hh]]]]]]].
  assert (In (CUnique f nl) (cons_of sch s)) as Hin by (rewrite Hk; apply in_or_app; right; left; reflexivity).
  destruct (Hall f nl Hin) as [Hwf HU].
  destruct (wf_unique_b_sound sch s f Hwf) as [H1 [H2 [H3 [H4 H5]]]].
  exists f, nl. split; [exact Hin|].
  assert (before_unique f (cons_of sch s) = pre) as Hbu.
  { destruct H4 as [nl0 [pre0 [post0 [Hc [Hp0' Hpost0]]]]]. rewrite Hc.
    rewrite (before_unique_app f pre0 nl0 post0 Hp0'). symmetry.
    eapply (unique_position (is_ours f)); [rewrite <- Hc; exact Hk | exact Hp0' | exact Hpost0 | exists nl; reflexivity]. }
  eapply (create_dup_conv sch s f) with (stm := stm) (nl0 := nl); try eassumption; rewrite Hbu; eassumption.
Qed.

(* ---- operation level ---- *)
(* An update that runs in store s0 (root store s itself or one of its child stores) and fails with EDuplicate:
   either a unique index of the ROOT store has another present entity holding the persisted value, or the
   root store's hooks all succeeded and the duplicate was reported by the constraint list of the child store. *)
Lemma update_in_dup_only_if sch s oc st evs s0 i fv sv ch :
  is_child sch s = false -> all_unique_ok sch s st -> root_of sch s0 = s ->
  update_in sch oc (st, evs) s0 i fv sv ch = Err EDuplicate ->
  (exists f nl, In (CUnique f nl) (cons_of sch s) /\
                dup_at sch s f st i (new_f sch s f false false fv ch (cur_ent s st i)))
  \/ (is_child sch s0 = true /\ exists svs stA,
        after_update_all sch (set_ent st s i (persist sch s0 false false fv sv ch (cur_ent s st i)))
                         (mkIctx false (oc_sys oc) s i) (cons_of sch s) (hd [] svs) = Ok stA /\
        after_update_all sch stA (mkIctx false (oc_sys oc) s0 i) (cons_of sch s0) (hd [] (tl svs)) = Err EDuplicate).
Proof.
  intros Hroot Hall Hr H. unfold update_in in H.
  destruct (nonempty i); cbn [negb] in H; [|discriminate].
  destruct (loadable sch st s0 i); cbn [negb] in H; [|discriminate].
  destruct (present sch st s0 i) eqn:Ep0; cbn [negb] in H; [|discriminate].
  destruct (fire_cu sch oc evs s0 Updated i) as [evs1|e] eqn:Efire; cbn [bind] in H.
  2:{ exfalso. inversion H; subst. exact (fire_cu_not_dup _ _ _ _ _ _ Efire). }
  destruct (before_chain sch st false (oc_sys oc) i (chain sch s0)) as [svs|e] eqn:Ebc; cbn [bind] in H.
  2:{ exfalso. inversion H; subst. exact (before_chain_not_dup _ _ _ _ _ _ Ebc). }
  rewrite Hr in H. fold (cur_ent s st i) in H.
  assert (is_child sch s0 = false -> s0 = s) as Hnc.
  { intros Hc. unfold root_of, is_child in *. destruct (find_store sch s0) as [d|]; [|exact Hr].
    destruct (sd_parent d); [discriminate | exact Hr]. }
  rewrite (after_chain_root sch s _ false (oc_sys oc) i s0 svs Hr Hnc) in H.
  destruct (after_update_all sch _ (mkIctx false (oc_sys oc) s i) (cons_of sch s) (hd [] svs)) as [stA|e] eqn:EA; cbn [bind] in H.
  - right. destruct (is_child sch s0) eqn:Ec; [|discriminate].
    split; [reflexivity|]. exists svs, stA. split; [first [exact EA | reflexivity]|].
    destruct (after_update_all sch stA _ (cons_of sch s0) _) as [stB|e] eqn:EB; cbn [bind] in H; [discriminate|].
    inversion H; subst. reflexivity.
  - left. inversion H; subst e.
    eapply root_run_dup_update; eauto.
Qed.

Lemma op_create_dup_only_if sch s oc st evs s0 i sys fv sv :
  is_child sch s = false -> all_unique_ok sch s st -> root_of sch s0 = s ->
  op_create sch oc (st, evs) s0 i sys fv sv = Err EDuplicate ->
  (exists f nl, In (CUnique f nl) (cons_of sch s) /\
                dup_at sch s f st i (new_f sch s f true sys fv None ent_empty))
  \/ (is_child sch s0 = true /\ exists stA,
        after_update_all sch (set_ent st s i (persist sch s0 true sys fv sv None ent_empty))
                         (mkIctx true (oc_sys oc) s i) (cons_of sch s) [] = Ok stA /\
        after_update_all sch stA (mkIctx true (oc_sys oc) s0 i) (cons_of sch s0) [] = Err EDuplicate).
Proof.
  intros Hroot Hall Hr H. unfold op_create in H.
  destruct (find_store sch s0) as [d0|] eqn:Ef; [|discriminate].
  destruct (nonempty i); cbn [negb] in H; [|discriminate].
  destruct (present sch st s0 i); [discriminate|].
  rewrite Hr in H. destruct (present sch st s i) eqn:Eps; [discriminate|].
  destruct (key_ok i); cbn [negb] in H; [|discriminate].
  destruct (fire_cu sch oc evs s0 Created i) as [evs1|e] eqn:Efire; cbn [bind] in H.
  2:{ exfalso. inversion H; subst. exact (fire_cu_not_dup _ _ _ _ _ _ Efire). }
  assert (is_child sch s0 = false -> s0 = s) as Hnc.
  { intros Hc. unfold root_of, is_child in *. rewrite Ef in *.
    destruct (sd_parent d0); [discriminate | exact Hr]. }
  rewrite (after_chain_root sch s _ true (oc_sys oc) i s0 [] Hr Hnc) in H. cbn [hd tl] in H.
  destruct (after_update_all sch _ (mkIctx true (oc_sys oc) s i) (cons_of sch s) []) as [stA|e] eqn:EA; cbn [bind] in H.
  - right. destruct (is_child sch s0) eqn:Ec; [|discriminate].
    split; [reflexivity|]. exists stA. split; [first [exact EA | reflexivity]|].
    destruct (after_update_all sch stA _ (cons_of sch s0) _) as [stB|e] eqn:EB; cbn [bind] in H; [discriminate|].
    inversion H; subst. reflexivity.
  - left. inversion H; subst e.
    eapply root_run_dup_create; eauto. rewrite Ef. discriminate.
Qed.

(* in every reachable state every well-formed unique index of s satisfies its invariant *)
Lemma all_unique_ok_reachable sch s fuel (txs : list tx) :
  (forall f nl, In (CUnique f nl) (cons_of sch s) -> wf_unique_b sch s f = true) ->
  all_unique_ok sch s (run_txs sch fuel st_empty txs).
Proof.
  intros Hwf f nl Hin. split; [exact (Hwf f nl Hin)|].
  destruct (wf_unique_b_sound sch s f (Hwf f nl Hin)) as [H1 [H2 [H3 [H4 H5]]]].
  apply (run_txs_inv sch s f H1 H2 H3 H4 H5). apply UInv_empty.
Qed.
