(* C03, set indexes: the index of a root store's set-index constraint mirrors the string sets of
   the entities in every reachable state, and no index key holds an empty id list.
   Same architecture as Store/UniqueProofs.v.  Fixed: a schema, a root store [s], a set field [f]. *)
From Coq Require Import List NArith Bool Lia.
From Storage Require Import Base.Bytes Base.BytesFacts Store.Model Store.AListFacts Store.FrameProofs.
Import ListNotations.

(* ================================================================ generic facts *)
(* the id list stored under key v ([] when the key is absent) *)
Definition bucket_of (m : alist (list id)) (v : str) : list id :=
  match al_get v m with Some l => l | None => [] end.

(* no key holds an empty id list *)
Definition no_empty (m : alist (list id)) : Prop := forall v l, al_get v m = Some l -> l <> [].

(* the string set g of entity i of root store r *)
Definition eset (st : state) (r : name) (i : id) (g : name) : list str :=
  match get_ent st r i with Some e => ent_set e g | None => [] end.

Lemma get_set_eset sch st s i g : get_set sch st s i g = eset st (root_of sch s) i g.
Proof. reflexivity. Qed.

Lemma ent_set_with_set e b l g : ent_set (ent_with_set e b l) g = if str_eqb b g then l else ent_set e g.
Proof. unfold ent_set, ent_with_set. cbn [e_s]. rewrite al_get_put. destruct (str_eqb b g); reflexivity. Qed.

Lemma eset_set_ent_with_set st r0 ti e b l r i g :
  get_ent st r0 ti = Some e -> (r0 <> r \/ b <> g) ->
  eset (set_ent st r0 ti (ent_with_set e b l)) r i g = eset st r i g.
Proof.
  intros E H. unfold eset. rewrite get_ent_set_ent.
  destruct (str_eqb r0 r && str_eqb ti i) eqn:E2; [|reflexivity].
  apply andb_prop in E2 as [E3 E4]. apply str_eqb_eq in E3, E4. subst r i. rewrite E.
  rewrite ent_set_with_set. destruct H as [H|H]; [congruence|].
  assert (str_eqb b g = false) as -> by (apply str_eqb_neq; exact H). reflexivity.
Qed.

(* a back-reference / link update only changes the set it names, in the root store it names *)
Lemma eset_backref_add sch st t ti b x r i g :
  (root_of sch t <> r \/ b <> g) -> eset (backref_add sch st t ti b x) r i g = eset st r i g.
Proof.
  intros H. unfold backref_add. destruct (get_ent st (root_of sch t) ti) as [e|] eqn:E; [|reflexivity].
  apply eset_set_ent_with_set; assumption.
Qed.

Lemma eset_backref_del sch st t ti b x r i g :
  (root_of sch t <> r \/ b <> g) -> eset (backref_del sch st t ti b x) r i g = eset st r i g.
Proof.
  intros H. unfold backref_del. destruct (get_ent st (root_of sch t) ti) as [e|] eqn:E; [|reflexivity].
  apply eset_set_ent_with_set; assumption.
Qed.

Lemma eset_ents st st' : ents st' = ents st -> forall r i g, eset st' r i g = eset st r i g.
Proof. intros H r i g. unfold eset, get_ent. rewrite H. reflexivity. Qed.

(* ---- set-index primitives on their own (r, g) ---- *)
Lemma sidx_set_sidx st r g m : sidx (set_sidx st r g m) r g = m.
Proof. cbn. apply upd2_same. Qed.

Lemma sidx_remove_other st r g v i r' g' :
  (r <> r' \/ g <> g') -> sidx (sidx_remove st r g v i) r' g' = sidx st r' g'.
Proof. intros H. unfold sidx_remove. destruct (ss_del i _); cbn; apply upd2_other; exact H. Qed.

Lemma sidx_add_other st r g v i r' g' :
  (r <> r' \/ g <> g') -> sidx (sidx_add st r g v i) r' g' = sidx st r' g'.
Proof. intros H. unfold sidx_add. cbn. apply upd2_other; exact H. Qed.

Lemma fold_sidx_remove_other r g i r' g' : (r <> r' \/ g <> g') -> forall l st,
  sidx (fold_left (fun acc v => sidx_remove acc r g v i) l st) r' g' = sidx st r' g'.
Proof. intros H. induction l as [|v l IH]; intros st; cbn [fold_left]; [reflexivity|]. rewrite IH. apply sidx_remove_other. exact H. Qed.

Lemma fold_sidx_add_other r g i r' g' : (r <> r' \/ g <> g') -> forall l st,
  sidx (fold_left (fun acc v => sidx_add acc r g v i) l st) r' g' = sidx st r' g'.
Proof. intros H. induction l as [|v l IH]; intros st; cbn [fold_left]; [reflexivity|]. rewrite IH. apply sidx_add_other. exact H. Qed.

Lemma bucket_remove st r g v i w :
  bucket_of (sidx (sidx_remove st r g v i) r g) w =
  if str_eqb v w then ss_del i (bucket_of (sidx st r g) w) else bucket_of (sidx st r g) w.
Proof.
  unfold sidx_remove, bucket_of. cbv zeta.
  destruct (ss_del i _) as [|a l'] eqn:E;
    rewrite sidx_set_sidx.
  - rewrite al_get_del. destruct (str_eqb v w) eqn:Ev; [|reflexivity].
    apply str_eqb_eq in Ev. subst w. symmetry. exact E.
  - rewrite al_get_put. destruct (str_eqb v w) eqn:Ev; [|reflexivity].
    apply str_eqb_eq in Ev. subst w. symmetry. exact E.
Qed.

Lemma bucket_add st r g v i w :
  bucket_of (sidx (sidx_add st r g v i) r g) w =
  if str_eqb v w then ss_add i (bucket_of (sidx st r g) w) else bucket_of (sidx st r g) w.
Proof.
  unfold sidx_add, bucket_of. rewrite sidx_set_sidx, al_get_put.
  destruct (str_eqb v w) eqn:Ev; [|reflexivity]. apply str_eqb_eq in Ev. subst w. reflexivity.
Qed.

Lemma mem_remove st r g v i w j :
  In j (bucket_of (sidx (sidx_remove st r g v i) r g) w) <->
  In j (bucket_of (sidx st r g) w) /\ ~ (v = w /\ j = i).
Proof.
  rewrite bucket_remove. destruct (str_eqb v w) eqn:Ev.
  - apply str_eqb_eq in Ev. rewrite ss_del_in. tauto.
  - apply str_eqb_neq in Ev. tauto.
Qed.

Lemma mem_add st r g v i w j :
  In j (bucket_of (sidx (sidx_add st r g v i) r g) w) <->
  In j (bucket_of (sidx st r g) w) \/ (v = w /\ j = i).
Proof.
  rewrite bucket_add. destruct (str_eqb v w) eqn:Ev.
  - apply str_eqb_eq in Ev. rewrite ss_add_in. tauto.
  - apply str_eqb_neq in Ev. tauto.
Qed.

Lemma mem_fold_remove r g i : forall l st w j,
  In j (bucket_of (sidx (fold_left (fun acc v => sidx_remove acc r g v i) l st) r g) w) <->
  In j (bucket_of (sidx st r g) w) /\ ~ (In w l /\ j = i).
Proof.
  induction l as [|v l IH]; intros st w j; cbn [fold_left In]; [tauto|].
  rewrite IH, mem_remove. tauto.
Qed.

Lemma mem_fold_add r g i : forall l st w j,
  In j (bucket_of (sidx (fold_left (fun acc v => sidx_add acc r g v i) l st) r g) w) <->
  In j (bucket_of (sidx st r g) w) \/ (In w l /\ j = i).
Proof.
  induction l as [|v l IH]; intros st w j; cbn [fold_left In]; [tauto|].
  rewrite IH, mem_add. tauto.
Qed.

Lemma ss_add_not_nil i l : ss_add i l <> [].
Proof.
  intros H. assert (In i (ss_add i l)) as Hin by (apply ss_add_in; left; reflexivity).
  rewrite H in Hin. contradiction.
Qed.

Lemma no_empty_remove st r g v i : no_empty (sidx st r g) -> no_empty (sidx (sidx_remove st r g v i) r g).
Proof.
  intros H w l Hg. unfold sidx_remove in Hg. cbv zeta in Hg.
  destruct (ss_del i _) as [|a l'] eqn:E;
    rewrite sidx_set_sidx in Hg.
  - rewrite al_get_del in Hg. destruct (str_eqb v w); [discriminate|]. eapply H; eauto.
  - rewrite al_get_put in Hg. destruct (str_eqb v w); [inversion Hg; discriminate|]. eapply H; eauto.
Qed.

Lemma no_empty_add st r g v i : no_empty (sidx st r g) -> no_empty (sidx (sidx_add st r g v i) r g).
Proof.
  intros H w l Hg. unfold sidx_add in Hg. rewrite sidx_set_sidx, al_get_put in Hg.
  destruct (str_eqb v w); [inversion Hg; apply ss_add_not_nil|]. eapply H; eauto.
Qed.

Lemma no_empty_fold_remove r g i : forall l st, no_empty (sidx st r g) ->
  no_empty (sidx (fold_left (fun acc v => sidx_remove acc r g v i) l st) r g).
Proof. induction l as [|v l IH]; intros st H; cbn [fold_left]; [exact H|]. apply IH, no_empty_remove, H. Qed.

Lemma no_empty_fold_add r g i : forall l st, no_empty (sidx st r g) ->
  no_empty (sidx (fold_left (fun acc v => sidx_add acc r g v i) l st) r g).
Proof. induction l as [|v l IH]; intros st H; cbn [fold_left]; [exact H|]. apply IH, no_empty_add, H. Qed.

(* ---- what a create/update hook can change besides fields: set indexes and string sets ---- *)
Lemma after_update_one_sframe sch st c k sv st' :
  after_update_one sch st c k sv = Ok st' ->
  (forall r g, sidx st' r g = sidx st r g \/ (k = CSetIdx g /\ root_of sch (ic_store c) = r)) /\
  (forall r i g, eset st' r i g = eset st r i g \/ (exists f0 t nl, k = CFkIndex f0 t g nl /\ root_of sch t = r)).
Proof.
  assert (Hsame : st' = st ->
    (forall r g, sidx st' r g = sidx st r g \/ (k = CSetIdx g /\ root_of sch (ic_store c) = r)) /\
    (forall r i g, eset st' r i g = eset st r i g \/ (exists f0 t nl, k = CFkIndex f0 t g nl /\ root_of sch t = r)))
    by (intros ->; split; intros; left; reflexivity).
  destruct k as [f0 nl|f0|f0 t b nl|b|f0 t nl|rs f0 cs|]; cbn [after_update_one]; intros H.
  - (* CUnique *)
    destruct (negb (ic_create c) && _); [inversion H; subst; apply Hsame; reflexivity|].
    destruct (nonempty (fv_bytes _)).
    + destruct (al_get _ _); [discriminate|]. destruct (key_ok _); [|discriminate].
      inversion H; subst. split; intros; left; reflexivity.
    + destruct nl; [|discriminate]. inversion H; subst. split; intros; left; reflexivity.
  - (* CSetIdx *)
    destruct (strs_eqb _ _); [inversion H; subst; apply Hsame; reflexivity|].
    destruct (negb _); [discriminate|]. inversion H; subst. split.
    + intros r g. destruct (name_pair_dec (root_of sch (ic_store c)) f0 r g) as [[-> ->]|Hne].
      * right. split; reflexivity.
      * left. rewrite fold_sidx_add_other, fold_sidx_remove_other by exact Hne. reflexivity.
    + intros r i g. left. apply eset_ents. rewrite fold_sidx_add_ents, fold_sidx_remove_ents. reflexivity.
  - (* CFkIndex *)
    assert (Hfk : forall st0, (forall r g, sidx st0 r g = sidx st r g) ->
              (forall r i g, (root_of sch t <> r \/ b <> g) -> eset st0 r i g = eset st r i g) ->
      (forall r g, sidx st0 r g = sidx st r g \/ (CFkIndex f0 t b nl = CSetIdx g /\ root_of sch (ic_store c) = r)) /\
      (forall r i g, eset st0 r i g = eset st r i g \/
                     (exists f1 t1 nl1, CFkIndex f0 t b nl = CFkIndex f1 t1 g nl1 /\ root_of sch t1 = r))).
    { intros st0 A B. split; [intros; left; apply A|]. intros r i g.
      destruct (name_pair_dec (root_of sch t) b r g) as [[<- <-]|Hne].
      - right. exists f0, t, nl. split; reflexivity.
      - left. apply B. exact Hne. }
    destruct (negb (ic_create c) && _); [inversion H; subst; apply Hsame; reflexivity|].
    destruct (nonempty (sv_atom sv)) eqn:Eo.
    + destruct (present sch st t (sv_atom sv)); [|discriminate]. cbn [bind] in H.
      destruct (nonempty (fv_bytes _)).
      * destruct (present sch _ t _); [|discriminate]. inversion H; subst. apply Hfk.
        -- intros. rewrite backref_add_sidx, backref_del_sidx. reflexivity.
        -- intros r i g Hne. rewrite eset_backref_add, eset_backref_del by exact Hne. reflexivity.
      * destruct nl; [|discriminate]. inversion H; subst. apply Hfk.
        -- intros. rewrite backref_del_sidx. reflexivity.
        -- intros r i g Hne. rewrite eset_backref_del by exact Hne. reflexivity.
    + cbn [bind] in H. destruct (nonempty (fv_bytes _)).
      * destruct (present sch st t _); [|discriminate]. inversion H; subst. apply Hfk.
        -- intros. rewrite backref_add_sidx. reflexivity.
        -- intros r i g Hne. rewrite eset_backref_add by exact Hne. reflexivity.
      * destruct nl; [|discriminate]. inversion H; subst. apply Hsame; reflexivity.
  - inversion H; subst. apply Hsame; reflexivity.
  - (* CFkCons *)
    destruct (negb (ic_create c) && _); [inversion H; subst; apply Hsame; reflexivity|].
    destruct (nonempty _).
    + destruct (present sch st t _); [|discriminate]. inversion H; subst. apply Hsame; reflexivity.
    + destruct nl; [|discriminate]. inversion H; subst. apply Hsame; reflexivity.
  - inversion H; subst. apply Hsame; reflexivity.
  - (* CSystem *)
    destruct (ic_create c).
    + destruct (get_field sch st (ic_store c) (ic_id c) isSystemF) as [| |x|[|]];
        try (inversion H; subst; apply Hsame; reflexivity).
      destruct (ic_sys c); [|discriminate]. inversion H; subst. apply Hsame; reflexivity.
    + inversion H; subst. apply Hsame; reflexivity.
Qed.

(* ================================================================ the invariant *)
Section SetIdx.
  Variable sch : schema.
  Variable s f : name.

  Definition sset (st : state) (i : id) : list str := get_set sch st s i f.
  Definition spres (st : state) (i : id) : bool := present sch st s i.
  Definition six (st : state) : alist (list id) := sidx st s f.
  (* i is listed under key v *)
  Definition smem (st : state) (v : str) (i : id) : Prop := In i (bucket_of (six st) v).

  (* no stale entries *)
  Definition SSound (st : state) : Prop :=
    forall v i, smem st v i -> spres st i = true /\ In v (sset st i).
  (* every member value of every entity is indexed (except for entities in [G], which are being deleted) *)
  Definition SComplete (G : id -> Prop) (st : state) : Prop :=
    forall i v, spres st i = true -> ~ G i -> In v (sset st i) -> smem st v i.
  Definition SNoEmpty (st : state) : Prop := no_empty (six st).
  Definition SDInv (G : id -> Prop) (st : state) : Prop := SSound st /\ SComplete G st /\ SNoEmpty st.
  Definition SInv (st : state) : Prop := SDInv (fun _ => False) st.

  (* the view of the state the invariant depends on *)
  Definition sview (st st' : state) : Prop :=
    six st' = six st /\ (forall i, spres st' i = spres st i) /\ (forall i, sset st' i = sset st i).

  Lemma sview_refl st : sview st st.
  Proof. repeat split. Qed.

  Lemma sview_trans a b c : sview a b -> sview b c -> sview a c.
  Proof. intros [A1 [A2 A3]] [B1 [B2 B3]]. repeat split; intros; congruence. Qed.

  Lemma smem_view st st' : sview st st' -> forall v i, smem st' v i <-> smem st v i.
  Proof. intros [Hi _] v i. unfold smem. rewrite Hi. tauto. Qed.

  Lemma SDInv_view G st st' : sview st st' -> SDInv G st -> SDInv G st'.
  Proof.
    intros Hv [HS [HC HN]]. pose proof (smem_view _ _ Hv) as Hm. destruct Hv as [Hi [Hp Hf]].
    split; [|split].
    - intros v i H. rewrite Hp, Hf. apply HS. apply Hm. exact H.
    - intros i v H1 H2 H3. apply Hm. rewrite Hp in H1. rewrite Hf in H3. apply HC; assumption.
    - unfold SNoEmpty. rewrite Hi. exact HN.
  Qed.

  (* a view is established from: same fields / child data, same index, same f-sets in root store s *)
  Lemma mk_sview st st' :
    ents_fc_eq st st' -> six st' = six st -> (forall i, eset st' (root_of sch s) i f = eset st (root_of sch s) i f) ->
    sview st st'.
  Proof.
    intros Hfc Hi Hs. split; [exact Hi|]. split; intros i.
    - apply present_fc. apply Hfc.
    - unfold sset. rewrite !get_set_eset. apply Hs.
  Qed.

  (* ---- well-formedness of the schema around (s, f) ---- *)
  Hypothesis Hroot : is_child sch s = false.
  Hypothesis Hroots : forall x, root_of sch (root_of sch x) = root_of sch x.
  (* the only constraint list (among the stores sharing root s) with the set index on f is that of s *)
  Hypothesis Hown : forall s', root_of sch s' = s -> In (CSetIdx f) (cons_of sch s') -> s' = s.
  (* f is not the back-reference set of any fk index whose target store has root s *)
  Hypothesis Hbackref : forall s' f0 t b nl, In (CFkIndex f0 t b nl) (cons_of sch s') -> ~ (root_of sch t = s /\ b = f).
  (* f is not a link field: neither the local field of a link collection of a store with root s, nor the
     remote field of a link collection whose remote store has root s *)
  Hypothesis Hlinks : forall s' d lf os of_, find_store sch s' = Some d -> In (lf, os, of_) (sd_links d) ->
    ~ (root_of sch s' = s /\ lf = f) /\ ~ (root_of sch os = s /\ of_ = f).

  Lemma sroot_s : root_of sch s = s.
  Proof.
    unfold is_child in Hroot. unfold root_of. destruct (find_store sch s) as [d|]; [|reflexivity].
    destruct (sd_parent d); [discriminate | reflexivity].
  Qed.

  (* hooks that are not the set index of (s,f) *)
  Definition snot_ours (store : name) (k : cons) : Prop :=
    In k (cons_of sch store) /\ ~ (root_of sch store = s /\ k = CSetIdx f).

  Lemma after_one_sview st c k sv st' :
    after_update_one sch st c k sv = Ok st' -> snot_ours (ic_store c) k -> sview st st'.
  Proof.
    intros H [Hin Hn]. pose proof (after_update_one_frame _ _ _ _ _ _ H) as [Hfc _].
    pose proof (after_update_one_sframe _ _ _ _ _ _ H) as [Hsi Hes].
    apply mk_sview; [exact Hfc | |].
    - unfold six. destruct (Hsi s f) as [E|[E1 E2]]; [exact E|]. exfalso. apply Hn. split; assumption.
    - intros i. rewrite sroot_s. destruct (Hes s i f) as [E|[f0 [t [nl [E1 E2]]]]]; [exact E|].
      exfalso. subst k. eapply Hbackref; [exact Hin|]. split; [exact E2 | reflexivity].
  Qed.

  Lemma after_all_sview c : forall ks svs st st',
    Forall (snot_ours (ic_store c)) ks ->
    after_update_all sch st c ks svs = Ok st' -> sview st st'.
  Proof.
    induction ks as [|k ks IH]; intros svs st st' Hall H; cbn [after_update_all] in H.
    - inversion H; subst. apply sview_refl.
    - inversion Hall as [|? ? Hk Hks]; subst.
      destruct (after_update_one sch st c k _) as [st1|e] eqn:E1; cbn [bind] in H; [|discriminate].
      eapply sview_trans; [eapply after_one_sview; eauto | eapply IH; eauto].
  Qed.

  (* ---- the state between persisting entity i and the set-index hook: the index still lists i
          under its OLD set ---- *)
  Definition SMid (old : list str) (i : id) (st : state) : Prop :=
    spres st i = true /\
    (forall v j, smem st v j -> spres st j = true /\ (j <> i -> In v (sset st j)) /\ (j = i -> In v old)) /\
    (forall j v, j <> i -> spres st j = true -> In v (sset st j) -> smem st v j) /\
    (forall v, In v old -> smem st v i) /\
    SNoEmpty st.

  Lemma SMid_view old i st st' : sview st st' -> SMid old i st -> SMid old i st'.
  Proof.
    intros Hv [M1 [M2 [M3 [M4 M5]]]]. pose proof (smem_view _ _ Hv) as Hm. destruct Hv as [Hi [Hp Hf]].
    unfold SMid. rewrite Hp. split; [exact M1|]. split; [|split; [|split]].
    - intros v j Hg. rewrite Hp, Hf. apply M2. apply Hm. exact Hg.
    - intros j v Hj Hpj Hin. apply Hm. rewrite Hp in Hpj. rewrite Hf in Hin. apply M3; assumption.
    - intros v Hin. apply Hm. apply M4. exact Hin.
    - unfold SNoEmpty. rewrite Hi. exact M5.
  Qed.

  (* the state after the hook's two loops *)
  Definition reindex (st : state) (i : id) (old new : list str) : state :=
    fold_left (fun acc v => sidx_add acc s f v i) new (fold_left (fun acc v => sidx_remove acc s f v i) old st).

  Lemma smem_reindex st i old new w j :
    smem (reindex st i old new) w j <-> (smem st w j /\ ~ (In w old /\ j = i)) \/ (In w new /\ j = i).
  Proof. unfold smem, six, reindex. rewrite mem_fold_add, mem_fold_remove. tauto. Qed.

  Lemma reindex_ents st i old new : ents (reindex st i old new) = ents st.
  Proof. unfold reindex. rewrite fold_sidx_add_ents, fold_sidx_remove_ents. reflexivity. Qed.

  Lemma spres_ents st st' : ents st' = ents st -> forall i, spres st' i = spres st i.
  Proof. intros H i. unfold spres, present, get_ent. rewrite H. reflexivity. Qed.

  Lemma sset_ents st st' : ents st' = ents st -> forall i, sset st' i = sset st i.
  Proof. intros H i. unfold sset, get_set, get_ent. rewrite H. reflexivity. Qed.

  Lemma SNoEmpty_reindex st i old new : SNoEmpty st -> SNoEmpty (reindex st i old new).
  Proof. intros H. unfold SNoEmpty, six, reindex. apply no_empty_fold_add, no_empty_fold_remove, H. Qed.

  (* the set-index hook re-establishes the invariant *)
  Lemma set_hook_restores old i st c sv st' :
    SMid old i st -> ic_store c = s -> ic_id c = i -> sv_set sv = old ->
    after_update_one sch st c (CSetIdx f) sv = Ok st' -> SInv st'.
  Proof.
    intros [M1 [M2 [M3 [M4 M5]]]] Hs Hi Hsv H. cbn [after_update_one] in H.
    rewrite Hs, Hi, Hsv, sroot_s in H. fold (sset st i) in H. set (new := sset st i) in *.
    destruct (strs_eqb old new) eqn:Eshort.
    - (* unchanged set *)
      inversion H; subst st'. apply strs_eqb_eq in Eshort. split; [|split; [|exact M5]].
      + intros v j Hg. destruct (M2 v j Hg) as [A [B C]]. split; [exact A|].
        destruct (str_eq_dec j i) as [->|Hne]; [fold new; rewrite <- Eshort; apply C; reflexivity | apply B; exact Hne].
      + intros j v Hp _ Hin. destruct (str_eq_dec j i) as [->|Hji]; [|apply M3; assumption].
        apply M4. rewrite Eshort. exact Hin.
    - destruct (negb _); [discriminate|]. inversion H; subst st'. clear H.
      fold (reindex st i old new).
      pose proof (reindex_ents st i old new) as He.
      pose proof (spres_ents _ _ He) as Hp. pose proof (sset_ents _ _ He) as Hf.
      split; [|split; [|apply SNoEmpty_reindex; exact M5]].
      + intros v j Hg. rewrite Hp, Hf. apply smem_reindex in Hg. destruct Hg as [[Hg Hn]|[Hin ->]].
        * destruct (M2 v j Hg) as [A [B C]]. split; [exact A|]. apply B. intros ->. apply Hn. split; [apply C; reflexivity | reflexivity].
        * split; [exact M1 | exact Hin].
      + intros j v Hpj _ Hin. rewrite Hp in Hpj. rewrite Hf in Hin. apply smem_reindex.
        destruct (str_eq_dec j i) as [->|Hji]; [right; split; [exact Hin | reflexivity]|].
        left. split; [apply M3; assumption | intros [_ E]; contradiction].
  Qed.

  (* ---- running the whole constraint list ---- *)
  (* the set-index constraint occurs exactly once in the constraint list of s *)
  Hypothesis Honce : exists pre post,
    cons_of sch s = pre ++ CSetIdx f :: post /\ ~ In (CSetIdx f) pre /\ ~ In (CSetIdx f) post.

  Lemma snot_ours_part store ks : incl ks (cons_of sch store) -> ~ In (CSetIdx f) ks -> Forall (snot_ours store) ks.
  Proof.
    intros Hi Hn. apply Forall_forall. intros k Hk. split; [apply Hi; exact Hk|]. intros [_ ->]. contradiction.
  Qed.

  Lemma after_all_spre c old i : forall pre rest svs st st',
    Forall (snot_ours (ic_store c)) pre -> SMid old i st ->
    after_update_all sch st c (pre ++ rest) svs = Ok st' ->
    exists st1, SMid old i st1 /\ after_update_all sch st1 c rest (skipn (length pre) svs) = Ok st'.
  Proof.
    induction pre as [|k pre IH]; intros rest svs st st' Hall HM H.
    - exists st. split; [exact HM | exact H].
    - inversion Hall as [|? ? Hk Hks]; subst. cbn [app after_update_all] in H.
      destruct (after_update_one sch st c k _) as [st1|e] eqn:E1; cbn [bind] in H; [|discriminate].
      assert (SMid old i st1) as HM1 by (eapply SMid_view; [eapply after_one_sview; eauto | exact HM]).
      destruct (IH rest _ st1 st' Hks HM1 H) as [st2 [HM2 H2]]. exists st2. split; [exact HM2|].
      destruct svs as [|x svs]; cbn [length skipn]; [destruct (length pre); exact H2 | exact H2].
  Qed.

  Lemma before_all_at_s c st0 : forall pre k post svs,
    before_update_all sch st0 c (pre ++ k :: post) = Ok svs ->
    exists sv rest, before_update_one sch st0 c k = Ok sv /\ skipn (length pre) svs = sv :: rest.
  Proof.
    induction pre as [|p pre IH]; intros k post svs H; cbn [app before_update_all] in H.
    - destruct (before_update_one sch st0 c k) as [sv|e]; cbn [bind] in H; [|discriminate].
      destruct (before_update_all sch st0 c post) as [rest|e]; cbn [bind] in H; [|discriminate].
      inversion H; subst. exists sv, rest. split; reflexivity.
    - destruct (before_update_one sch st0 c p) as [svp|e]; cbn [bind] in H; [|discriminate].
      destruct (before_update_all sch st0 c (pre ++ k :: post)) as [svs'|e] eqn:E; cbn [bind] in H; [|discriminate].
      inversion H; subst. destruct (IH k post svs' E) as [sv [rest [H1 H2]]]. exists sv, rest. split; [exact H1 | exact H2].
  Qed.

  (* the constraint list of s, run after entity i was persisted, re-establishes the invariant *)
  Lemma after_all_srestores c old i svs st st' :
    ic_store c = s -> ic_id c = i ->
    SMid old i st ->
    (forall pre post, cons_of sch s = pre ++ CSetIdx f :: post ->
        sv_set (hd SvNone (skipn (length pre) svs)) = old) ->
    after_update_all sch st c (cons_of sch s) svs = Ok st' -> SInv st'.
  Proof.
    intros Hs Hi HM Hsv H. destruct Honce as [pre [post [Hc [Hpre Hpost]]]].
    assert (incl pre (cons_of sch (ic_store c))) as Hipre by (rewrite Hs, Hc; intros k Hk; apply in_or_app; left; exact Hk).
    assert (incl post (cons_of sch (ic_store c))) as Hipost by (rewrite Hs, Hc; intros k Hk; apply in_or_app; right; right; exact Hk).
    rewrite Hc in H.
    destruct (after_all_spre c old i pre _ svs st st' (snot_ours_part _ _ Hipre Hpre) HM H) as [st1 [HM1 H1]].
    cbn [after_update_all] in H1.
    destruct (after_update_one sch st1 c (CSetIdx f) _) as [st2|e] eqn:E2; cbn [bind] in H1; [|discriminate].
    assert (SInv st2) as HU.
    { eapply set_hook_restores; [exact HM1 | exact Hs | exact Hi | | exact E2].
      specialize (Hsv pre post Hc). destruct (skipn (length pre) svs); exact Hsv. }
    eapply SDInv_view; [|exact HU]. eapply after_all_sview; [|exact H1].
    apply snot_ours_part; assumption.
  Qed.

  (* ---- chains ---- *)
  Lemma schain_in s0 s' ks : In (s', ks) (chain sch s0) -> ks = cons_of sch s' /\ root_of sch s' = root_of sch s0.
  Proof.
    unfold chain. destruct (is_child sch s0) eqn:E; cbn; intros H.
    - destruct H as [H|[H|[]]]; inversion H; subst; split; auto.
    - destruct H as [H|[]]. inversion H; subst. split; reflexivity.
  Qed.

  Lemma after_chain_sview i create sys : forall ch svs st st',
    (forall s' ks, In (s', ks) ch -> Forall (snot_ours s') ks) ->
    after_chain sch st create sys i ch svs = Ok st' -> sview st st'.
  Proof.
    induction ch as [|[s' ks] ch IH]; intros svs st st' Hall H; cbn [after_chain] in H.
    - inversion H; subst. apply sview_refl.
    - destruct (after_update_all sch st _ ks _) as [st1|e] eqn:E1; cbn [bind] in H; [|discriminate].
      eapply sview_trans.
      + eapply (after_all_sview (mkIctx create sys s' i)); [|exact E1]. cbn. apply Hall. left. reflexivity.
      + eapply IH; [|exact H]. intros s2 ks2 Hin. apply Hall. right. exact Hin.
  Qed.

  Lemma snot_ours_other_root s' : root_of sch s' <> s -> Forall (snot_ours s') (cons_of sch s').
  Proof. intros Hne. apply Forall_forall. intros k Hk. split; [exact Hk|]. intros [Hr _]. contradiction. Qed.

  Lemma snot_ours_child s' : is_child sch s' = true -> Forall (snot_ours s') (cons_of sch s').
  Proof.
    intros Hc. apply Forall_forall. intros k Hin. split; [exact Hin|]. intros [Hr ->].
    assert (s' = s) as -> by (eapply Hown; eauto). congruence.
  Qed.

  Lemma not_child_root_eq s0 : is_child sch s0 = false -> root_of sch s0 = s -> s0 = s.
  Proof.
    intros Hc Hr. unfold root_of, is_child in *. destruct (find_store sch s0) as [d|]; [|exact Hr].
    destruct (sd_parent d); [discriminate | exact Hr].
  Qed.

  (* ---- persisting entity i of root store s ---- *)
  Lemma spres_set_ent st i e j : spres (set_ent st s i e) j = if str_eqb i j then true else spres st j.
  Proof.
    unfold spres, present. rewrite sroot_s, Hroot, get_ent_set_ent, str_eqb_refl. cbn [andb].
    destruct (str_eqb i j); reflexivity.
  Qed.

  Lemma sset_set_ent_other st i e j : i <> j -> sset (set_ent st s i e) j = sset st j.
  Proof.
    intros Hne. unfold sset, get_set. rewrite sroot_s, get_ent_set_ent, str_eqb_refl. cbn [andb].
    assert (str_eqb i j = false) as -> by (apply str_eqb_neq; exact Hne). reflexivity.
  Qed.

  Lemma smem_set_ent st r0 i e v j : smem (set_ent st r0 i e) v j <-> smem st v j.
  Proof. unfold smem, six. cbn. tauto. Qed.

  Lemma persist_smid_update st i e :
    SInv st -> spres st i = true -> SMid (sset st i) i (set_ent st s i e).
  Proof.
    intros [HS [HC HN]] Hp. unfold SMid. rewrite spres_set_ent, str_eqb_refl. split; [reflexivity|].
    split; [|split; [|split]].
    - intros v j Hg. apply smem_set_ent in Hg. destruct (HS v j Hg) as [A B]. split; [|split].
      + rewrite spres_set_ent. destruct (str_eqb i j); [reflexivity | exact A].
      + intros Hne. rewrite sset_set_ent_other by congruence. exact B.
      + intros ->. exact B.
    - intros j v Hne Hpj Hin. rewrite spres_set_ent in Hpj.
      assert (str_eqb i j = false) as E by (apply str_eqb_neq; congruence). rewrite E in Hpj.
      rewrite sset_set_ent_other in Hin by congruence. apply smem_set_ent. apply HC; [exact Hpj | tauto | exact Hin].
    - intros v Hin. apply smem_set_ent. apply HC; [exact Hp | tauto | exact Hin].
    - exact HN.
  Qed.

  Lemma persist_smid_create st i e :
    SInv st -> spres st i = false -> SMid [] i (set_ent st s i e).
  Proof.
    intros [HS [HC HN]] Hp. unfold SMid. rewrite spres_set_ent, str_eqb_refl. split; [reflexivity|].
    split; [|split; [|split]].
    - intros v j Hg. apply smem_set_ent in Hg. destruct (HS v j Hg) as [A B]. split; [|split].
      + rewrite spres_set_ent. destruct (str_eqb i j); [reflexivity | exact A].
      + intros Hne. rewrite sset_set_ent_other by congruence. exact B.
      + intros ->. congruence.
    - intros j v Hne Hpj Hin. rewrite spres_set_ent in Hpj.
      assert (str_eqb i j = false) as E by (apply str_eqb_neq; congruence). rewrite E in Hpj.
      rewrite sset_set_ent_other in Hin by congruence. apply smem_set_ent. apply HC; [exact Hpj | tauto | exact Hin].
    - intros v [].
    - exact HN.
  Qed.

  (* a change to an entity of another root store is invisible *)
  Lemma set_ent_other_sview st r0 i e : r0 <> s -> sview st (set_ent st r0 i e).
  Proof.
    intros Hne. split; [reflexivity|]. split; intros j.
    - unfold spres, present. rewrite sroot_s, get_ent_set_ent.
      assert (str_eqb r0 s = false) as -> by (apply str_eqb_neq; exact Hne). reflexivity.
    - unfold sset, get_set. rewrite sroot_s, get_ent_set_ent.
      assert (str_eqb r0 s = false) as -> by (apply str_eqb_neq; exact Hne). reflexivity.
  Qed.

  Lemma spres_of_present st s0 i : root_of sch s0 = s -> present sch st s0 i = true -> spres st i = true.
  Proof.
    intros Hr Hp. unfold spres, present in *. rewrite sroot_s, Hroot. rewrite Hr in Hp.
    destruct (get_ent st s i); [reflexivity | discriminate].
  Qed.

  Lemma skipn_nil_any' {A} n : skipn n (@nil A) = [].
  Proof. destruct n; reflexivity. Qed.

  (* ---- create ---- *)
  Lemma op_create_sinv oc st evs s0 i sys fv sv st' evs' :
    SInv st -> op_create sch oc (st, evs) s0 i sys fv sv = Ok (st', evs') -> SInv st'.
  Proof.
    intros HU H. unfold op_create in H.
    destruct (find_store sch s0) as [d0|]; [|discriminate].
    destruct (negb (nonempty i)); [discriminate|].
    destruct (present sch st s0 i) eqn:Ep0; [discriminate|].
    destruct (present sch st (root_of sch s0) i) eqn:Epr; [discriminate|].
    destruct (negb (key_ok i)); [discriminate|].
    destruct (fire_cu sch oc evs s0 Created i) as [evs1|e]; cbn [bind] in H; [|discriminate].
    destruct (after_chain sch _ true (oc_sys oc) i (chain sch s0) []) as [st2|e] eqn:Eac; cbn [bind] in H; [|discriminate].
    inversion H; subst st' evs'. clear H.
    destruct (str_eq_dec (root_of sch s0) s) as [Hr|Hr].
    - (* an entity of our root store *)
      rewrite Hr in *.
      assert (spres st i = false) as Hpi by exact Epr.
      pose proof (persist_smid_create st i (persist sch s0 true sys fv sv None ent_empty) HU Hpi) as HM.
      unfold chain in Eac. destruct (is_child sch s0) eqn:Ec.
      + rewrite Hr in Eac. cbn [after_chain] in Eac.
        destruct (after_update_all sch _ _ (cons_of sch s) _) as [stA|e] eqn:EA; cbn [bind] in Eac; [|discriminate].
        assert (SInv stA) as HA.
        { eapply (after_all_srestores (mkIctx true (oc_sys oc) s i) [] i []); try reflexivity; [exact HM | | exact EA].
          intros. rewrite skipn_nil_any'. reflexivity. }
        destruct (after_update_all sch stA _ (cons_of sch s0) _) as [stB|e] eqn:EB; cbn [bind] in Eac; [|discriminate].
        inversion Eac; subst st2. eapply SDInv_view; [|exact HA].
        eapply (after_all_sview (mkIctx true (oc_sys oc) s0 i)); [|exact EB]. cbn. apply snot_ours_child. exact Ec.
      + assert (s0 = s) as -> by (apply not_child_root_eq; assumption).
        cbn [after_chain] in Eac.
        destruct (after_update_all sch _ _ (cons_of sch s) _) as [stA|e] eqn:EA; cbn [bind] in Eac; [|discriminate].
        inversion Eac; subst st2.
        eapply (after_all_srestores (mkIctx true (oc_sys oc) s i) [] i []); try reflexivity; [exact HM | | exact EA].
        intros. rewrite skipn_nil_any'. reflexivity.
    - (* another root store *)
      eapply SDInv_view; [|exact HU]. eapply sview_trans.
      + apply set_ent_other_sview. exact Hr.
      + eapply after_chain_sview; [|exact Eac]. intros s' ks Hin.
        apply schain_in in Hin as [-> Hrs]. apply snot_ours_other_root. congruence.
  Qed.

  (* ---- update ---- *)
  Lemma saved_at_set_hook st i sys svs :
    before_update_all sch st (mkIctx false sys s i) (cons_of sch s) = Ok svs ->
    forall pre post, cons_of sch s = pre ++ CSetIdx f :: post ->
      sv_set (hd SvNone (skipn (length pre) svs)) = sset st i.
  Proof.
    intros Hb pre post Hc. rewrite Hc in Hb.
    destruct (before_all_at_s _ _ _ _ _ _ Hb) as [sv [rest [H1 H2]]]. rewrite H2. cbn [hd].
    cbn in H1. inversion H1; subst. reflexivity.
  Qed.

  Lemma update_in_sinv oc st evs s0 i fv sv ch st' evs' :
    SInv st -> update_in sch oc (st, evs) s0 i fv sv ch = Ok (st', evs') -> SInv st'.
  Proof.
    intros HU H. unfold update_in in H.
    destruct (negb (nonempty i)); [discriminate|].
    destruct (negb (loadable sch st s0 i)); [discriminate|].
    destruct (present sch st s0 i) eqn:Ep0; cbn [negb] in H; [|discriminate].
    destruct (fire_cu sch oc evs s0 Updated i) as [evs1|e]; cbn [bind] in H; [|discriminate].
    destruct (before_chain sch st false (oc_sys oc) i (chain sch s0)) as [svs|e] eqn:Ebc; cbn [bind] in H; [|discriminate].
    destruct (after_chain sch _ false (oc_sys oc) i (chain sch s0) svs) as [st2|e] eqn:Eac; cbn [bind] in H; [|discriminate].
    inversion H; subst st' evs'. clear H.
    destruct (str_eq_dec (root_of sch s0) s) as [Hr|Hr].
    - pose proof (spres_of_present st s0 i Hr Ep0) as Hpi.
      rewrite Hr in *.
      set (e1 := persist sch s0 false false fv sv ch _) in Eac.
      pose proof (persist_smid_update st i e1 HU Hpi) as HM.
      unfold chain in Eac, Ebc. destruct (is_child sch s0) eqn:Ec.
      + rewrite Hr in Eac, Ebc. cbn [before_chain] in Ebc.
        destruct (before_update_all sch st _ (cons_of sch s)) as [svsA|e] eqn:EbA; cbn [bind] in Ebc; [|discriminate].
        destruct (before_update_all sch st _ (cons_of sch s0)) as [svsB|e] eqn:EbB; cbn [bind] in Ebc; [|discriminate].
        inversion Ebc; subst svs. cbn [after_chain] in Eac.
        destruct (after_update_all sch _ _ (cons_of sch s) _) as [stA|e] eqn:EA; cbn [bind] in Eac; [|discriminate].
        assert (SInv stA) as HA.
        { eapply (after_all_srestores (mkIctx false (oc_sys oc) s i) (sset st i) i svsA); try reflexivity;
            [exact HM | | exact EA].
          eapply saved_at_set_hook. exact EbA. }
        destruct (after_update_all sch stA _ (cons_of sch s0) _) as [stB|e] eqn:EB; cbn [bind] in Eac; [|discriminate].
        inversion Eac; subst st2. eapply SDInv_view; [|exact HA].
        eapply (after_all_sview (mkIctx false (oc_sys oc) s0 i)); [|exact EB]. cbn. apply snot_ours_child. exact Ec.
      + assert (s0 = s) as -> by (apply not_child_root_eq; assumption).
        cbn [before_chain] in Ebc.
        destruct (before_update_all sch st _ (cons_of sch s)) as [svsA|e] eqn:EbA; cbn [bind] in Ebc; [|discriminate].
        inversion Ebc; subst svs. cbn [after_chain] in Eac.
        destruct (after_update_all sch _ _ (cons_of sch s) _) as [stA|e] eqn:EA; cbn [bind] in Eac; [|discriminate].
        inversion Eac; subst st2.
        eapply (after_all_srestores (mkIctx false (oc_sys oc) s i) (sset st i) i svsA); try reflexivity;
          [exact HM | | exact EA].
        eapply saved_at_set_hook. exact EbA.
    - eapply SDInv_view; [|exact HU]. eapply sview_trans.
      + apply set_ent_other_sview. exact Hr.
      + eapply after_chain_sview; [|exact Eac]. intros s' ks Hin.
        apply schain_in in Hin as [-> Hrs]. apply snot_ours_other_root. congruence.
  Qed.

  Lemma op_update_sinv oc st evs s0 i fv sv ch st' evs' :
    SInv st -> op_update sch oc (st, evs) s0 i fv sv ch = Ok (st', evs') -> SInv st'.
  Proof.
    intros HU H. unfold op_update in H. destruct (find_store sch s0); [|discriminate].
    destruct (is_child sch s0); [eapply update_in_sinv; eauto|].
    destruct (find _ (children_of sch s0)); eapply update_in_sinv; eauto.
  Qed.

  (* ---- back-reference / link updates never touch the set f of store s ---- *)
  Lemma nand_or (a b a' b' : name) : ~ (a = a' /\ b = b') -> a <> a' \/ b <> b'.
  Proof. intros H. destruct (name_pair_dec a b a' b') as [E|E]; [contradiction | exact E]. Qed.

  Lemma backref_add_sview st t ti b x : ~ (root_of sch t = s /\ b = f) -> sview st (backref_add sch st t ti b x).
  Proof.
    intros H. apply mk_sview; [apply backref_add_fc | unfold six; rewrite backref_add_sidx; reflexivity|].
    intros i. rewrite sroot_s. apply eset_backref_add. apply nand_or. exact H.
  Qed.

  Lemma backref_del_sview st t ti b x : ~ (root_of sch t = s /\ b = f) -> sview st (backref_del sch st t ti b x).
  Proof.
    intros H. apply mk_sview; [apply backref_del_fc | unfold six; rewrite backref_del_sidx; reflexivity|].
    intros i. rewrite sroot_s. apply eset_backref_del. apply nand_or. exact H.
  Qed.

  Lemma find_link_in s0 lf os of_ : find_link sch s0 lf = Some (os, of_) ->
    exists d, find_store sch s0 = Some d /\ In (lf, os, of_) (sd_links d).
  Proof.
    unfold find_link. destruct (find_store sch s0) as [d|]; [|discriminate].
    destruct (find _ (sd_links d)) as [[[lf' os'] of']|] eqn:E; [|discriminate].
    intros H. inversion H; subst. apply find_some in E as [Hin Hp]. apply str_eqb_eq in Hp. subst lf'.
    exists d. split; [reflexivity | exact Hin].
  Qed.

  Lemma op_add_links_sview s0 i lf : forall ts st st',
    op_add_links sch st s0 i lf ts = Ok st' -> sview st st'.
  Proof.
    intros ts st st' H. unfold op_add_links in H. destruct (find_link sch s0 lf) as [[os of_]|] eqn:Efl; [|discriminate].
    destruct (find_link_in _ _ _ _ Efl) as [d [Hd Hin]]. destruct (Hlinks _ _ _ _ _ Hd Hin) as [HL1 HL2].
    destruct (negb (present sch st s0 i)); [discriminate|].
    assert (forall ts acc st', fold_left (fun acc t => do cur <- acc;
               if present sch cur os t then Ok (backref_add sch (backref_add sch cur s0 i lf t) os t of_ i) else Err ENotFound) ts acc = Ok st' ->
             exists st0, acc = Ok st0 /\ sview st0 st') as Hfold.
    { clear H. induction ts0 as [|t ts0 IH]; intros acc st1 H; cbn [fold_left] in H.
      - exists st1. split; [exact H | apply sview_refl].
      - destruct (IH _ _ H) as [st2 [H1 Hv]]. destruct acc as [st0|e]; cbn [bind] in H1; [|discriminate].
        exists st0. split; [reflexivity|]. destruct (present sch st0 os t); [|discriminate]. inversion H1; subst st2.
        eapply sview_trans; [|exact Hv]. eapply sview_trans; [apply backref_add_sview; exact HL1 | apply backref_add_sview; exact HL2]. }
    destruct (Hfold _ _ _ H) as [st0 [E Hv]]. inversion E; subst. exact Hv.
  Qed.

  Lemma op_remove_links_sview s0 i lf ts st st' :
    op_remove_links sch st s0 i lf ts = Ok st' -> sview st st'.
  Proof.
    intros H. unfold op_remove_links in H. destruct (find_link sch s0 lf) as [[os of_]|] eqn:Efl; [|discriminate].
    destruct (find_link_in _ _ _ _ Efl) as [d [Hd Hin]]. destruct (Hlinks _ _ _ _ _ Hd Hin) as [HL1 HL2].
    destruct (negb (present sch st s0 i)); [discriminate|]. inversion H; subst st'. clear H.
    revert st. induction ts as [|t ts IH]; intros st; cbn [fold_left]; [apply sview_refl|].
    eapply sview_trans; [|apply IH].
    eapply sview_trans; [apply backref_del_sview; exact HL1 | apply backref_del_sview; exact HL2].
  Qed.

  Lemma cleanup_links_sview st s0 x : sview st (cleanup_links sch st s0 x).
  Proof.
    unfold cleanup_links. destruct (find_store sch s0) as [d|] eqn:Hd; [|apply sview_refl].
    assert (forall ls, incl ls (sd_links d) -> forall st, sview st
              (fold_left (fun acc (l : name * name * name) => match l with (lf, os, of_) =>
                 fold_left (fun acc2 oi => backref_del sch acc2 os oi of_ x) (get_set sch acc s0 x lf) acc end) ls st)) as Hg.
    { induction ls as [|[[lf os] of_] ls IH]; intros Hincl st0; cbn [fold_left].
      - apply sview_refl.
      - assert (In (lf, os, of_) (sd_links d)) as Hin by (apply Hincl; left; reflexivity).
        destruct (Hlinks _ _ _ _ _ Hd Hin) as [_ HL2].
        eapply sview_trans; [|apply IH; intros y Hy; apply Hincl; right; exact Hy].
        generalize (get_set sch st0 s0 x lf). intros ms. revert st0. induction ms as [|m ms IHm]; intros st0; cbn [fold_left].
        + apply sview_refl.
        + eapply sview_trans; [|apply IHm]. apply backref_del_sview. exact HL2. }
    apply Hg. apply incl_refl.
  Qed.

  (* ================================================================ delete *)
  (* delete steps only remove: index entries shrink, entities disappear, survivors keep their set *)
  Definition sdmono (st st' : state) : Prop :=
    (forall v i, smem st' v i -> smem st v i) /\
    (forall i, spres st' i = true -> spres st i = true /\ sset st' i = sset st i).

  Definition SNoEntry (x : id) (st : state) : Prop := forall v, ~ smem st v x.

  Lemma SDInv_weaken (G G' : id -> Prop) st : (forall i, G i -> G' i) -> SDInv G st -> SDInv G' st.
  Proof.
    intros Hsub [HS [HC HN]]. split; [exact HS|]. split; [|exact HN].
    intros i v Hp Hn. apply HC; [exact Hp | intros Hg; apply Hn, Hsub, Hg].
  Qed.

  Lemma sdmono_refl st : sdmono st st.
  Proof. split; [tauto | intros; split; [assumption | reflexivity]]. Qed.

  Lemma sdmono_trans a b c : sdmono a b -> sdmono b c -> sdmono a c.
  Proof.
    intros [A1 A2] [B1 B2]. split.
    - intros v i H. apply A1, B1, H.
    - intros i H. destruct (B2 i H) as [Hb Hfb]. destruct (A2 i Hb) as [Ha Hfa]. split; [exact Ha | congruence].
  Qed.

  Lemma sview_sdmono st st' : sview st st' -> sdmono st st'.
  Proof.
    intros Hv. pose proof (smem_view _ _ Hv) as Hm. destruct Hv as [Hi [Hp Hf]]. split.
    - intros v i H. apply Hm. exact H.
    - intros i H. rewrite Hp in H. split; [exact H | apply Hf].
  Qed.

  Lemma SNoEntry_mono x st st' : sdmono st st' -> SNoEntry x st -> SNoEntry x st'.
  Proof. intros [H1 _] Hn v Hg. apply (Hn v). apply H1. exact Hg. Qed.

  (* specification of the recursive DeleteById used by the cascade constraint *)
  Definition SDelSpec (del : st_ev -> name -> id -> res st_ev) : Prop :=
    forall G stev s0 x stev', SDInv G (fst stev) -> del stev s0 x = Ok stev' ->
                              SDInv G (fst stev') /\ sdmono (fst stev) (fst stev').

  Definition unindex (st : state) (x : id) (vals : list str) : state :=
    fold_left (fun acc v => sidx_remove acc s f v x) vals st.

  Lemma smem_unindex st x vals w j : smem (unindex st x vals) w j <-> smem st w j /\ ~ (In w vals /\ j = x).
  Proof. unfold smem, six, unindex. apply mem_fold_remove. Qed.

  (* the set-index delete hook of (s,f) on entity x *)
  Lemma set_delete_hook G st x :
    SDInv G st -> G x ->
    let st' := unindex st x (sset st x) in
    SDInv G st' /\ sdmono st st' /\ SNoEntry x st'.
  Proof.
    intros [HS [HC HN]] HG st'.
    assert (ents st' = ents st) as He by apply fold_sidx_remove_ents.
    pose proof (spres_ents _ _ He) as Hp. pose proof (sset_ents _ _ He) as Hf.
    split; [split; [|split]|split].
    - intros v j Hg. rewrite Hp, Hf. apply smem_unindex in Hg. apply HS. apply Hg.
    - intros j v Hpj Hn Hin. rewrite Hp in Hpj. rewrite Hf in Hin. apply smem_unindex. split; [apply HC; assumption|].
      intros [_ ->]. contradiction.
    - unfold SNoEmpty, six. apply no_empty_fold_remove. exact HN.
    - split.
      + intros v j Hg. apply smem_unindex in Hg. apply Hg.
      + intros j Hpj. rewrite Hp in Hpj. split; [exact Hpj | apply Hf].
    - intros v Hg. apply smem_unindex in Hg. destruct Hg as [Hg Hn]. apply Hn. split; [|reflexivity].
      apply (HS v x Hg).
  Qed.

  Variable oc : octx.

  Lemma scascade_loop_spec G del rs f0 i0 : SDelSpec del -> forall cands cur cur',
    SDInv G (fst cur) -> cascade_loop sch del rs f0 i0 cands cur = Ok cur' ->
    SDInv G (fst cur') /\ sdmono (fst cur) (fst cur').
  Proof.
    intros Hdel. induction cands as [|c0 cands IH]; intros cur cur' HD H; cbn [cascade_loop] in H.
    - inversion H; subst. split; [exact HD | apply sdmono_refl].
    - destruct (casc_matches sch rs f0 i0 (fst cur) c0).
      + destruct (del cur rs c0) as [cur1|e] eqn:Ed; cbn [bind] in H; [|discriminate].
        destruct (Hdel G cur rs c0 cur1 HD Ed) as [HD1 Hm1].
        destruct (IH cur1 cur' HD1 H) as [HD2 Hm2]. split; [exact HD2 | eapply sdmono_trans; eauto].
      + apply IH; assumption.
  Qed.

  Lemma sview_all G st st' : sview st st' -> SDInv G st -> SDInv G st' /\ sdmono st st'.
  Proof. intros Hv HD. split; [eapply SDInv_view; eauto | apply sview_sdmono; exact Hv]. Qed.

  Definition sours (store : name) (k : cons) : Prop := root_of sch store = s /\ k = CSetIdx f.

  Lemma sbd_one G del st evs c k st' evs' x :
    SDelSpec del -> SDInv G st -> (root_of sch (ic_store c) = s -> G x) -> ic_id c = x -> In k (cons_of sch (ic_store c)) ->
    before_delete_one sch oc del (st, evs) c k = Ok (st', evs') ->
    SDInv G st' /\ sdmono st st' /\ (sours (ic_store c) k -> SNoEntry x st').
  Proof.
    intros Hdel HD HG Hx Hin H.
    assert (Hview : sview st st' -> ~ sours (ic_store c) k ->
                    SDInv G st' /\ sdmono st st' /\ (sours (ic_store c) k -> SNoEntry x st')).
    { intros Hv Hn. destruct (sview_all G st st' Hv HD) as [A B]. split; [exact A|]. split; [exact B | intros Ho; contradiction]. }
    assert (Hsame : st' = st -> ~ sours (ic_store c) k ->
                    SDInv G st' /\ sdmono st st' /\ (sours (ic_store c) k -> SNoEntry x st')).
    { intros -> Hn. apply Hview; [apply sview_refl | exact Hn]. }
    destruct k as [f0 nl|f0|f0 t b nl|b|f0 t nl|rs f0 cs|]; cbn [before_delete_one] in H.
    - (* CUnique *)
      assert (~ sours (ic_store c) (CUnique f0 nl)) as Hn by (intros [_ E]; discriminate).
      destruct (nonempty _); inversion H; subst st' evs'; [|apply Hsame; [reflexivity | exact Hn]].
      apply Hview; [|exact Hn]. apply mk_sview; [apply ents_eq_fc; reflexivity | reflexivity | intros; reflexivity].
    - (* CSetIdx *)
      destruct (negb _); [discriminate|]. inversion H; subst st' evs'. clear H.
      destruct (name_pair_dec (root_of sch (ic_store c)) f0 s f) as [[Hr ->]|Hne].
      + assert (ic_store c = s) as Hs by (eapply Hown; eauto).
        rewrite Hs, Hx, sroot_s. fold (sset st x). fold (unindex st x (sset st x)).
        destruct (set_delete_hook G st x HD (HG Hr)) as [A [B C]].
        split; [exact A|]. split; [exact B | intros _; exact C].
      + apply Hview; [|intros [Hr E]; inversion E; subst; destruct Hne; contradiction].
        apply mk_sview.
        * apply ents_eq_fc. apply fold_sidx_remove_ents.
        * unfold six. apply fold_sidx_remove_other. exact Hne.
        * intros i. apply eset_ents. apply fold_sidx_remove_ents.
    - (* CFkIndex *)
      assert (~ sours (ic_store c) (CFkIndex f0 t b nl)) as Hn by (intros [_ E]; discriminate).
      destruct (nonempty _).
      + destruct (present sch st t _); [|discriminate]. inversion H; subst st' evs'.
        apply Hview; [|exact Hn]. apply backref_del_sview. eapply Hbackref. exact Hin.
      + inversion H; subst st' evs'. apply Hsame; [reflexivity | exact Hn].
    - destruct (get_set sch st (ic_store c) (ic_id c) b); [|discriminate].
      inversion H; subst st' evs'. apply Hsame; [reflexivity | intros [_ E]; discriminate].
    - inversion H; subst st' evs'. apply Hsame; [reflexivity | intros [_ E]; discriminate].
    - (* CFkCascade *)
      destruct cs.
      + destruct (existsb _ _); [discriminate|]. inversion H; subst st' evs'.
        apply Hsame; [reflexivity | intros [_ E]; discriminate].
      + destruct (scascade_loop_spec G del rs f0 (ic_id c) Hdel _ (st, evs) (st', evs') HD H) as [A B].
        split; [exact A|]. split; [exact B | intros [_ E]; discriminate].
    - (* CSystem *)
      destruct (get_field sch st (ic_store c) (ic_id c) isSystemF) as [| |y|[|]];
        try (inversion H; subst st' evs'; apply Hsame; [reflexivity | intros [_ E]; discriminate]).
      destruct (oc_sys oc); [|discriminate].
      inversion H; subst st' evs'; apply Hsame; [reflexivity | intros [_ E]; discriminate].
  Qed.

  Lemma sbd_all (G : id -> Prop) del x c : SDelSpec del -> (root_of sch (ic_store c) = s -> G x) -> ic_id c = x -> forall ks st evs st' evs',
    incl ks (cons_of sch (ic_store c)) -> SDInv G st ->
    before_delete_all sch oc del (st, evs) c ks = Ok (st', evs') ->
    SDInv G st' /\ sdmono st st' /\
    (((root_of sch (ic_store c) = s /\ In (CSetIdx f) ks) \/ SNoEntry x st) -> SNoEntry x st').
  Proof.
    intros Hdel HG Hx. induction ks as [|k ks IH]; intros st evs st' evs' Hincl HD H; cbn [before_delete_all] in H.
    - inversion H; subst. split; [exact HD|]. split; [apply sdmono_refl|].
      intros [[_ []]|Hn]. exact Hn.
    - destruct (before_delete_one sch oc del (st, evs) c k) as [[st1 evs1]|e] eqn:E1; cbn [bind] in H; [|discriminate].
      assert (In k (cons_of sch (ic_store c))) as Hin by (apply Hincl; left; reflexivity).
      destruct (sbd_one G del st evs c k st1 evs1 x Hdel HD HG Hx Hin E1) as [HD1 [Hm1 Hn1]].
      assert (incl ks (cons_of sch (ic_store c))) as Hincl' by (intros y Hy; apply Hincl; right; exact Hy).
      destruct (IH st1 evs1 st' evs' Hincl' HD1 H) as [HD2 [Hm2 Hn2]].
      split; [exact HD2|]. split; [eapply sdmono_trans; eauto|].
      intros [[Hr [He|He]]|Hn].
      + apply Hn2. right. apply Hn1. split; [exact Hr | exact He].
      + apply Hn2. left. split; assumption.
      + apply Hn2. right. eapply SNoEntry_mono; eauto.
  Qed.

  Lemma sbd_chain (G : id -> Prop) del x : SDelSpec del -> forall ch st evs st' evs',
    (forall s' ks, In (s', ks) ch -> ks = cons_of sch s' /\ (root_of sch s' = s -> G x)) -> SDInv G st ->
    before_delete_chain sch oc del x ch (st, evs) = Ok (st', evs') ->
    SDInv G st' /\ sdmono st st' /\
    (((exists s', In (s', cons_of sch s') ch /\ root_of sch s' = s /\ In (CSetIdx f) (cons_of sch s')) \/ SNoEntry x st) -> SNoEntry x st').
  Proof.
    intros Hdel. induction ch as [|[s' ks] ch IH]; intros st evs st' evs' Hch HD H; cbn [before_delete_chain] in H.
    - inversion H; subst. split; [exact HD|]. split; [apply sdmono_refl|].
      intros [[s' [[] _]]|Hn]. exact Hn.
    - destruct (before_delete_all sch oc del (st, evs) _ ks) as [[st1 evs1]|e] eqn:E1; cbn [bind] in H; [|discriminate].
      destruct (Hch s' ks (or_introl eq_refl)) as [-> HGs].
      destruct (sbd_all G del x (mkIctx false (oc_sys oc) s' x) Hdel HGs eq_refl _ st evs st1 evs1 (incl_refl _) HD E1) as [HD1 [Hm1 Hn1]].
      assert (forall s2 ks2, In (s2, ks2) ch -> ks2 = cons_of sch s2 /\ (root_of sch s2 = s -> G x)) as Hch' by (intros; apply Hch; right; assumption).
      destruct (IH st1 evs1 st' evs' Hch' HD1 H) as [HD2 [Hm2 Hn2]].
      split; [exact HD2|]. split; [eapply sdmono_trans; eauto|].
      intros [[s2 [Hin [Hr He]]]|Hn].
      + destruct Hin as [Hin|Hin].
        * inversion Hin; subst s2. apply Hn2. right. apply Hn1. left. cbn. split; assumption.
        * apply Hn2. left. exists s2. repeat split; assumption.
      + apply Hn2. right. eapply SNoEntry_mono; eauto.
  Qed.

  Lemma sours_in_cons_s : In (CSetIdx f) (cons_of sch s).
  Proof. destruct Honce as [pre [post [Hc _]]]. rewrite Hc. apply in_or_app. right. left. reflexivity. Qed.

  Lemma sprocess_delete_spec (G : id -> Prop) del x s0 st evs st' evs' :
    SDelSpec del -> (root_of sch s0 = s -> G x) -> SDInv G st ->
    process_delete sch oc del (st, evs) s0 x = Ok (st', evs') ->
    SDInv G st' /\ sdmono st st' /\ ((root_of sch s0 = s \/ SNoEntry x st) -> SNoEntry x st').
  Proof.
    intros Hdel HG HD H. unfold process_delete in H.
    destruct (before_delete_chain sch oc del x (chain sch s0) (st, evs)) as [[st1 evs1]|e] eqn:E1; cbn [bind] in H; [|discriminate].
    inversion H; subst st' evs'. clear H.
    assert (forall s' ks, In (s', ks) (chain sch s0) -> ks = cons_of sch s' /\ (root_of sch s' = s -> G x)) as Hch
      by (intros s' ks Hin; apply schain_in in Hin as [A B]; split; [exact A | intros Hr; apply HG; congruence]).
    destruct (sbd_chain G del x Hdel _ st evs st1 evs1 Hch HD E1) as [HD1 [Hm1 Hn1]].
    pose proof (cleanup_links_sview st1 s0 x) as Hv.
    destruct (sview_all G _ _ Hv HD1) as [HD2 Hm2]. cbn [fst].
    split; [exact HD2|]. split; [eapply sdmono_trans; eauto|].
    intros Hor. eapply SNoEntry_mono; [exact Hm2|]. apply Hn1. destruct Hor as [Hr|Hn]; [|right; exact Hn].
    left. exists s. split; [|split; [apply sroot_s | apply sours_in_cons_s]].
    unfold chain. destruct (is_child sch s0) eqn:Ec.
    - rewrite Hr. left. reflexivity.
    - assert (s0 = s) as -> by (apply not_child_root_eq; assumption).
      left. reflexivity.
  Qed.

  Lemma schildren_delete_spec (G : id -> Prop) del x r0 : SDelSpec del -> (r0 = s -> G x) ->
    forall cs cur flows cur' flows',
    (forall d, In d cs -> root_of sch (sd_name d) = r0) -> SDInv G (fst cur) ->
    children_delete sch oc del x cs cur flows = Ok (cur', flows') ->
    SDInv G (fst cur') /\ sdmono (fst cur) (fst cur').
  Proof.
    intros Hdel HG. induction cs as [|d cs IH]; intros cur flows cur' flows' Hcs HD H; cbn [children_delete] in H.
    - inversion H; subst. split; [exact HD | apply sdmono_refl].
    - assert (forall d0, In d0 cs -> root_of sch (sd_name d0) = r0) as Hcs' by (intros; apply Hcs; right; assumption).
      destruct (loadable sch (fst cur) (sd_name d) x); [|eapply IH; eauto].
      destruct cur as [st evs].
      destruct (process_delete sch oc del (st, evs) (sd_name d) x) as [[st1 evs1]|e] eqn:E1; cbn [bind] in H; [|discriminate].
      assert (root_of sch (sd_name d) = s -> G x) as HG1 by (intros Hr; apply HG; rewrite <- Hr; symmetry; apply Hcs; left; reflexivity).
      destruct (sprocess_delete_spec G del x _ st evs st1 evs1 Hdel HG1 HD E1) as [HD1 [Hm1 _]].
      destruct (IH (st1, evs1) _ cur' flows' Hcs' HD1 H) as [HD2 Hm2].
      split; [exact HD2 | eapply sdmono_trans; eauto].
  Qed.

  (* store names are unique: the children listed for a root really have that root *)
  Hypothesis Hchildren : forall r0 d, In d (children_of sch r0) -> root_of sch (sd_name d) = r0.

  Lemma del_ent_other_sview st r0 i : r0 <> s -> sview st (del_ent st r0 i).
  Proof.
    intros Hne. split; [reflexivity|]. split; intros j.
    - unfold spres, present. rewrite sroot_s, get_ent_del_ent.
      assert (str_eqb r0 s = false) as -> by (apply str_eqb_neq; exact Hne). reflexivity.
    - unfold sset, get_set. rewrite sroot_s, get_ent_del_ent.
      assert (str_eqb r0 s = false) as -> by (apply str_eqb_neq; exact Hne). reflexivity.
  Qed.

  Lemma spres_del_ent st i j : spres (del_ent st s i) j = if str_eqb i j then false else spres st j.
  Proof.
    unfold spres, present. rewrite sroot_s, Hroot, get_ent_del_ent, str_eqb_refl. cbn [andb].
    destruct (str_eqb i j); reflexivity.
  Qed.

  Lemma sset_del_ent_other st i j : i <> j -> sset (del_ent st s i) j = sset st j.
  Proof.
    intros Hne. unfold sset, get_set. rewrite sroot_s, get_ent_del_ent, str_eqb_refl. cbn [andb].
    assert (str_eqb i j = false) as -> by (apply str_eqb_neq; exact Hne). reflexivity.
  Qed.

  Lemma smem_del_ent st r0 i v j : smem (del_ent st r0 i) v j <-> smem st v j.
  Proof. unfold smem, six. cbn. tauto. Qed.

  (* removing entity x of store s once no index entry lists it *)
  Lemma sdel_ent_spec (G G' : id -> Prop) st x :
    (forall i, G' i -> G i \/ i = x) -> SDInv G' st -> SNoEntry x st ->
    SDInv G (del_ent st s x) /\ sdmono st (del_ent st s x).
  Proof.
    intros Hsub [HS [HC HN]] Hn. split; [split; [|split]|split].
    - intros v j Hg. apply smem_del_ent in Hg.
      assert (j <> x) as Hj by (intros ->; exact (Hn v Hg)).
      destruct (HS v j Hg) as [A B]. rewrite spres_del_ent, sset_del_ent_other by congruence.
      assert (str_eqb x j = false) as -> by (apply str_eqb_neq; congruence). tauto.
    - intros j v Hp HG Hin. rewrite spres_del_ent in Hp. destruct (str_eqb x j) eqn:E; [discriminate|].
      apply str_eqb_neq in E. rewrite sset_del_ent_other in Hin by exact E.
      apply smem_del_ent. apply HC; [exact Hp | | exact Hin].
      intros Hg'. destruct (Hsub j Hg') as [Hg|Hg]; [exact (HG Hg) | congruence].
    - exact HN.
    - intros v i H. apply smem_del_ent in H. exact H.
    - intros i Hp. rewrite spres_del_ent in Hp. destruct (str_eqb x i) eqn:E; [discriminate|].
      apply str_eqb_neq in E. split; [exact Hp | apply sset_del_ent_other; exact E].
  Qed.

  (* DeleteById, for every amount of fuel *)
  Lemma sdelete_spec : forall n, SDelSpec (delete_by_id sch oc n).
  Proof.
    induction n as [|n IH]; intros G stev s0 x stev' HD H; cbn [delete_by_id] in H; [discriminate|].
    destruct stev as [st evs]. cbn [fst] in *.
    set (r0 := root_of sch s0) in *.
    destruct (present sch st r0 x) eqn:Epx; cbn [negb] in H; [|discriminate].
    destruct (children_delete sch oc (delete_by_id sch oc n) x (children_of sch r0) (st, evs) []) as [[[st1 evs1] flows]|e] eqn:Ech;
      cbn [bind] in H; [|discriminate].
    set (G' := fun i => G i \/ (r0 = s /\ i = x)).
    assert (SDInv G' st) as HD' by (eapply SDInv_weaken; [|exact HD]; intros i Hg; left; exact Hg).
    assert (r0 = s -> G' x) as HG' by (intros Hr; right; split; [exact Hr | reflexivity]).
    destruct (schildren_delete_spec G' _ x r0 IH HG' _ (st, evs) [] (st1, evs1) flows (Hchildren r0) HD' Ech) as [HD1 Hm1].
    cbn [fst] in *.
    destruct (present sch st1 r0 x) eqn:Epx1; cbn [negb] in H.
    - (* the normal path *)
      destruct (process_delete sch oc (delete_by_id sch oc n) (st1, evs1) r0 x) as [[st2 evs2]|e] eqn:Epd; cbn [bind] in H; [|discriminate].
      assert (root_of sch r0 = s -> G' x) as HG'' by (intros Hr; apply HG'; subst r0; rewrite Hroots in Hr; exact Hr).
      destruct (sprocess_delete_spec G' _ x r0 st1 evs1 st2 evs2 IH HG'' HD1 Epd) as [HD2 [Hm2 Hn2]].
      cbn [fst snd] in H.
      destruct (fire (oc_vetoes oc) evs2 r0 Deleted x _) as [evs3|e]; cbn [bind] in H; [|discriminate].
      destruct (fire_flows oc x flows evs3) as [evs4|e]; cbn [bind] in H; [|discriminate].
      inversion H; subst stev'. clear H. cbn [fst].
      destruct (str_eq_dec r0 s) as [Hr|Hr].
      + assert (SNoEntry x st2) as Hne by (apply Hn2; left; subst r0; rewrite Hroots; exact Hr).
        rewrite Hr.
        destruct (sdel_ent_spec G G' st2 x) as [A B]; [|exact HD2|exact Hne|].
        * intros i [Hg|[_ ->]]; [left; exact Hg | right; reflexivity].
        * split; [exact A | eapply sdmono_trans; [exact Hm1 | eapply sdmono_trans; [exact Hm2 | exact B]]].
      + pose proof (del_ent_other_sview st2 r0 x Hr) as Hv.
        assert (SDInv G st2) as HDg by (eapply SDInv_weaken; [|exact HD2]; intros i [Hg|[E _]]; [exact Hg | contradiction]).
        destruct (sview_all G _ _ Hv HDg) as [A B].
        split; [exact A | eapply sdmono_trans; [exact Hm1 | eapply sdmono_trans; [exact Hm2 | exact B]]].
    - (* the entity vanished while its child stores were processed (cascade cycle) *)
      inversion H; subst stev'. clear H. cbn [fst]. split; [|exact Hm1].
      destruct HD1 as [HS [HC HN]]. split; [exact HS|]. split; [|exact HN].
      intros j v Hp Hg Hin. apply HC; [exact Hp | | exact Hin].
      intros [Hg'|[Hr ->]]; [exact (Hg Hg')|].
      unfold spres in Hp. rewrite Hr in Epx1. congruence.
  Qed.

  (* ---- every operation ---- *)
  Lemma run_op_sinv fuel st evs o st' evs' :
    SInv st -> run_op sch fuel oc (st, evs) o = Ok (st', evs') -> SInv st'.
  Proof.
    intros HU H. destruct o as [s0 i sys fv sv|s0 i fv sv ch|s0 i|s0 i lf ts|s0 i lf ts|]; cbn [run_op] in H.
    - eapply op_create_sinv; eauto.
    - eapply op_update_sinv; eauto.
    - destruct (sdelete_spec fuel (fun _ => False) (st, evs) s0 i (st', evs')) as [A _]; [exact HU | exact H | exact A].
    - cbn [fst snd] in H. destruct (op_add_links sch st s0 i lf ts) as [st1|e] eqn:E; cbn [bind] in H; [|discriminate].
      inversion H; subst. eapply SDInv_view; [eapply op_add_links_sview; eauto | exact HU].
    - cbn [fst snd] in H. destruct (op_remove_links sch st s0 i lf ts) as [st1|e] eqn:E; cbn [bind] in H; [|discriminate].
      inversion H; subst. eapply SDInv_view; [eapply op_remove_links_sview; eauto | exact HU].
    - discriminate.
  Qed.
End SetIdx.

(* operations carry their own context, so the invariant lifts to op lists, transactions, histories *)
Section SetIdxHistories.
  Variable sch : schema.
  Variable s f : name.
  Hypothesis Hroot : is_child sch s = false.
  Hypothesis Hroots : forall x, root_of sch (root_of sch x) = root_of sch x.
  Hypothesis Hown : forall s', root_of sch s' = s -> In (CSetIdx f) (cons_of sch s') -> s' = s.
  Hypothesis Hbackref : forall s' f0 t b nl, In (CFkIndex f0 t b nl) (cons_of sch s') -> ~ (root_of sch t = s /\ b = f).
  Hypothesis Hlinks : forall s' d lf os of_, find_store sch s' = Some d -> In (lf, os, of_) (sd_links d) ->
    ~ (root_of sch s' = s /\ lf = f) /\ ~ (root_of sch os = s /\ of_ = f).
  Hypothesis Honce : exists pre post,
    cons_of sch s = pre ++ CSetIdx f :: post /\ ~ In (CSetIdx f) pre /\ ~ In (CSetIdx f) post.
  Hypothesis Hchildren : forall r0 d, In d (children_of sch r0) -> root_of sch (sd_name d) = r0.

  Lemma run_ops_sinv fuel oc : forall ops st evs rs st' evs',
    SInv sch s f st -> run_ops sch fuel oc (st, evs) ops = (rs, Ok (st', evs')) -> SInv sch s f st'.
  Proof.
    induction ops as [|o ops IH]; intros st evs rs st' evs' HU H; cbn [run_ops] in H.
    - inversion H; subst. exact HU.
    - destruct (run_op sch fuel oc (st, evs) o) as [[st1 evs1]|e] eqn:E1; [|inversion H].
      destruct (run_ops sch fuel oc (st1, evs1) ops) as [rs1 fin] eqn:E2. inversion H; subst.
      eapply IH; [|exact E2]. eapply (run_op_sinv sch s f Hroot Hroots Hown Hbackref Hlinks Honce oc Hchildren); eauto.
  Qed.

  Lemma run_tx_sinv fuel st t : SInv sch s f st ->
    SInv sch s f (match run_tx sch fuel st t with (_, _, st', _) => st' end).
  Proof.
    intros HU. unfold run_tx.
    destruct (run_ops sch fuel _ (st, []) (tx_ops t)) as [rs fin] eqn:E. destruct fin as [[st1 evs1]|e]; [|exact HU].
    destruct (tx_precommit_fails t); [exact HU|]. eapply run_ops_sinv; eauto.
  Qed.

  Lemma run_txs_sinv fuel : forall ts st, SInv sch s f st -> SInv sch s f (run_txs sch fuel st ts).
  Proof.
    unfold run_txs. induction ts as [|t ts IH]; intros st HU; cbn [fold_left]; [exact HU|].
    apply IH. apply run_tx_sinv. exact HU.
  Qed.

  Lemma SInv_empty : SInv sch s f st_empty.
  Proof.
    split; [|split].
    - intros v i H. cbn in H. contradiction.
    - intros i v H. unfold spres, present in H. cbn in H. discriminate.
    - intros v l H. cbn in H. discriminate.
  Qed.

  (* the set index mirrors the entities' sets in every reachable state *)
  Lemma set_index_mirrors_lemma fuel ts :
    let st := run_txs sch fuel st_empty ts in
    forall v i, In i (match al_get v (sidx st s f) with Some l => l | None => [] end) <->
                (present sch st s i = true /\ In v (get_set sch st s i f)).
  Proof.
    intros st v i. destruct (run_txs_sinv fuel ts st_empty SInv_empty) as [HS [HC _]]. fold st in HS, HC. split.
    - apply HS.
    - intros [Hp Hin]. apply HC; [exact Hp | tauto | exact Hin].
  Qed.

  (* no index key is left behind with an empty id list *)
  Lemma no_empty_index_keys_lemma fuel ts :
    let st := run_txs sch fuel st_empty ts in
    forall v l, al_get v (sidx st s f) = Some l -> l <> [].
  Proof.
    intros st. destruct (run_txs_sinv fuel ts st_empty SInv_empty) as [_ [_ HN]]. exact HN.
  Qed.
End SetIdxHistories.
