(* C15 (sixth strengthening): EVERY lookup variant of the store API, transcribed from boltz/store.go and
   boltz/store_crud.go over the state of Store/Model.v (which is untouched).  Model file: definitions only; the
   proofs are in Store/LookupsProofs.v.

     GetEntityBucket            entity_bucket           the bucket of the id in the ROOT store's entities bucket; a child
                                                        store then follows its own path inside it
     getEntityBucketForLoad     entity_bucket_for_load  a store declared Extended() falls back to the parent's bucket
     FindById / LoadById / LoadEntity                   all three start with getEntityBucketForLoad
     IsEntityPresent                                    nil != GetEntityBucket
     GetRelatedEntitiesIdList / GetRelatedEntitiesCursor / IsEntityRelated     GetEntityBucket, then the string list
     IterateValidIds / QueryIds("true")                 membership in valid_ids / query_ids of Store/Model.v *)
From Coq Require Import List NArith Bool.
From Storage Require Import Base.Bytes Store.Model.
Import ListNotations.

(* what the TypedBucket a lookup hands out shows: the entity bucket of a root store, or the sub-bucket a child store
   keeps inside it (the entity is kept: the string sets of a family live at the root level) *)
Inductive ebucket := BRoot (e : entity) | BChild (e : entity) (cd : alist fval).

(* func (store *BaseStore[E]) GetEntityBucket(tx, id):
     baseBucket := store.GetEntitiesBucket(tx)            -- a child store answers with its parent's entities bucket
     entityBucket := baseBucket.GetBucket(string(id))
     if store.parent == nil { return entityBucket }
     if entityBucket == nil { return nil }
     return entityBucket.GetPath(store.entityPath...) *)
Definition entity_bucket (sch : schema) (st : state) (s : name) (i : id) : option ebucket :=
  match get_ent st (root_of sch s) i with
  | None => None
  | Some e =>
      if is_child sch s then
        match al_get s (e_c e) with Some cd => Some (BChild e cd) | None => None end
      else Some (BRoot e)
  end.

(* func (store *BaseStore[E]) getEntityBucketForLoad(tx, id):
     bucket := store.GetEntityBucket(tx, []byte(id))
     if bucket == nil { if store.IsExtended() { bucket = store.parent.GetEntityBucket(tx, []byte(id))
                                                 if bucket == nil { return nil }
                                                 return NewTypedBucket(bucket, nil) } }
     return bucket *)
Definition entity_bucket_for_load (sch : schema) (st : state) (s : name) (i : id) : option ebucket :=
  match entity_bucket sch st s i with
  | Some b => Some b
  | None =>
      if is_ext sch s then
        match entity_bucket sch st (root_of sch s) i with
        | None => None
        | Some b => Some b
        end
      else None
  end.

Definition is_some {A} (o : option A) : bool := match o with Some _ => true | None => false end.

(* FindById: (entity, found, err) - found *)
Definition lk_find_by_id (sch : schema) (st : state) (s : name) (i : id) : bool :=
  match entity_bucket_for_load sch st s i with None => false | Some _ => true end.
(* LoadById: (entity, err) - err is not a NotFoundError *)
Definition lk_load_by_id (sch : schema) (st : state) (s : name) (i : id) : bool :=
  match entity_bucket_for_load sch st s i with None => false | Some _ => true end.
(* LoadEntity(tx, id, entity): fills the entity the caller provides - (found, err) *)
Definition lk_load_entity (sch : schema) (st : state) (s : name) (i : id) : bool :=
  match entity_bucket_for_load sch st s i with None => false | Some _ => true end.
(* IsEntityPresent: nil != store.GetEntityBucket(tx, id) *)
Definition lk_is_entity_present (sch : schema) (st : state) (s : name) (i : id) : bool :=
  is_some (entity_bucket sch st s i).
(* GetEntityBucket(tx, id) != nil, asked directly *)
Definition lk_bucket (sch : schema) (st : state) (s : name) (i : id) : bool :=
  is_some (entity_bucket sch st s i).
(* i is produced by IterateValidIds(true) / QueryIds("true") *)
Definition lk_valid_id (sch : schema) (st : state) (s : name) (i : id) : bool :=
  existsb (fun j => str_eqb j i) (valid_ids sch st s).
Definition lk_queried (sch : schema) (st : state) (s : name) (i : id) : bool :=
  existsb (fun j => str_eqb j i) (query_ids sch st s).

(* the string lists a child store keeps inside its OWN sub-bucket: the local sets of the link collections it declares
   and the back-reference sets of the foreign-key indexes that target it (the model keeps all string sets of a family
   in e_s of the root entity, Store/Model.v) *)
Definition child_owns_set (sch : schema) (s f : name) : bool :=
  match find_store sch s with
  | None => false
  | Some d =>
      existsb (fun l : name * name * name => str_eqb (fst (fst l)) f) (sd_links d) ||
      existsb (fun d' => existsb (fun k => match k with
                                           | CFkIndex _ t b _ => str_eqb t s && str_eqb b f
                                           | _ => false
                                           end) (sd_cons d')) sch
  end.

(* GetRelatedEntitiesIdList(tx, id, field) = GetEntityBucket(id).GetStringList(field) (nil without a bucket);
   GetRelatedEntitiesCursor walks the same sub-bucket, IsEntityRelated asks it for one key *)
Definition lk_related (sch : schema) (st : state) (s : name) (i : id) (f : name) : list str :=
  match entity_bucket sch st s i with
  | None => []
  | Some (BRoot e) => ent_set e f
  | Some (BChild e _) => if child_owns_set sch s f then ent_set e f else []
  end.
Definition lk_is_related (sch : schema) (st : state) (s : name) (i : id) (f : name) (x : str) : bool :=
  existsb (fun y => str_eqb y x) (lk_related sch st s i f).

(* the answers for a list of probe ids (driver: the ids of the root store and ids that are no entity) *)
Definition lk_filter (lk : schema -> state -> name -> id -> bool) (sch : schema) (st : state) (s : name) (probe : list id) : list id :=
  filter (lk sch st s) probe.
