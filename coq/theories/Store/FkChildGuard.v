(* C04, delete guards that are registered on a CHILD store.

   AddFkIndex / AddFkConstraint put the delete guard of an edge on the indexer of the LINKED store.  When the
   linked store is a child store (employees.manager -> managers), the guard is not in the constraint list of the
   root store: DeleteById of the root store runs it "on behalf of" the child store, in the loop over its child
   stores ([children_delete]), before its own list - for a plain child store when the entity has data in it, for
   an extended one always ([loadable]).  [delete_restrict] (Store/FkDelete.v) speaks about guards in the ROOT list
   only.  This file proves the counterpart for a guard in the list of a child store, in ANY state and for every fuel:

     if a restricting guard  - [CFkRestrict b] whose back-reference set lists another entity, or
                               [CFkCascade rs f CascNone] with a referrer whose field f names the entity -
     sits in the constraint list of a child store c of the family, the entity is loadable through c, and no
     cascading delete runs before the guard (root list, lists of the child stores registered before c, the part of
     c's list before the guard), then deleting the entity - through the root store or through any child store - is
     refused, and the enclosing transaction leaves the state unchanged.

   (Cascading deletes before the guard are excluded for the same reason as in [delete_restrict]: they may remove the
   referrers first, and then the delete legitimately succeeds.) *)
From Coq Require Import List NArith Bool Lia Arith.
From Storage Require Import Base.Bytes Base.BytesFacts Store.Model Store.AListFacts Store.FrameProofs Store.TxProofs
  Store.WfSchema Store.FkProofs Store.FkDelete Store.FkWf.
Import ListNotations.

Definition quiet (ks : list cons) : bool := forallb (fun k => negb (is_cascdel k)) ks.

(* the guard k, evaluated for entity x of the family in state st through the store c that owns the list, refuses *)
Definition guard_fires (sch : schema) (st : state) (c : name) (x : id) (k : cons) : Prop :=
  match k with
  | CFkRestrict b => exists j, j <> x /\ In j (get_set sch st c x b)
  | CFkCascade rs f CascNone => exists j, casc_matches sch rs f x st j = true
  | _ => False
  end.

Section ChildGuard.
  Variable sch : schema.
  Variable oc : octx.

  (* what the hooks before the guard preserve: entities with fields and child data, and every set member other
     than the entity that is being deleted *)
  Definition gkeep (x : id) (st st' : state) : Prop :=
    ents_fc_eq st st' /\
    forall s' ti b j, j <> x -> In j (get_set sch st s' ti b) -> In j (get_set sch st' s' ti b).

  Lemma gkeep_refl x st : gkeep x st st.
  Proof. split; [apply ents_fc_eq_refl | auto]. Qed.

  Lemma gkeep_trans x a b c : gkeep x a b -> gkeep x b c -> gkeep x a c.
  Proof.
    intros [A1 A2] [B1 B2]. split; [eapply ents_fc_eq_trans; eauto|].
    intros s' ti b0 j Hj Hin. apply B2; [exact Hj|]. apply A2; assumption.
  Qed.

  Lemma bd_all_fc del c : forall ks st evs st' evs',
    quiet ks = true -> before_delete_all sch oc del (st, evs) c ks = Ok (st', evs') -> ents_fc_eq st st'.
  Proof.
    induction ks as [|k ks IH]; intros st evs st' evs' Hq H; cbn [before_delete_all] in H.
    - inversion H; subst. apply ents_fc_eq_refl.
    - unfold quiet in Hq. cbn [forallb] in Hq. apply andb_prop in Hq as [Hk Hks]. apply negb_true_iff in Hk.
      destruct (before_delete_one sch oc del (st, evs) c k) as [[st1 evs1]|e] eqn:E1; cbn [bind] in H; [|discriminate].
      eapply ents_fc_eq_trans; [eapply bd_one_fc; eauto | eapply IH; eauto].
  Qed.

  Lemma bd_all_gkeep del c ks st evs st' evs' :
    quiet ks = true -> before_delete_all sch oc del (st, evs) c ks = Ok (st', evs') -> gkeep (ic_id c) st st'.
  Proof.
    intros Hq H. split; [eapply bd_all_fc; eauto|].
    intros s' ti b j Hj Hin. eapply (bd_all_keeps sch oc del c ks st evs st' evs' Hq H); eauto.
  Qed.

  Lemma bd_chain_gkeep del x : forall ch st evs st' evs',
    (forall s' ks, In (s', ks) ch -> quiet ks = true) ->
    before_delete_chain sch oc del x ch (st, evs) = Ok (st', evs') -> gkeep x st st'.
  Proof.
    induction ch as [|[s' ks] ch IH]; intros st evs st' evs' Hq H; cbn [before_delete_chain] in H.
    - inversion H; subst. apply gkeep_refl.
    - destruct (before_delete_all sch oc del (st, evs) _ ks) as [[st1 evs1]|e] eqn:E1; cbn [bind] in H; [|discriminate].
      eapply gkeep_trans.
      + apply (bd_all_gkeep del (mkIctx false (oc_sys oc) s' x) ks st evs st1 evs1); [apply (Hq s' ks); left; reflexivity | exact E1].
      + eapply IH; [|exact H]. intros s2 ks2 Hin. apply (Hq s2 ks2). right. exact Hin.
  Qed.

  Lemma cleanup_links_keeps st s0 x : forall s' ti b j, j <> x ->
    In j (get_set sch st s' ti b) -> In j (get_set sch (cleanup_links sch st s0 x) s' ti b).
  Proof.
    intros s' ti b j Hj. unfold cleanup_links. destruct (find_store sch s0) as [d|]; [|auto].
    generalize (sd_links d). intros ls. revert st. induction ls as [|[[lf os] of_] ls IH]; intros st Hin; cbn [fold_left]; [exact Hin|].
    apply IH. generalize (get_set sch st s0 x lf). intros ms. revert st Hin.
    induction ms as [|m ms IHm]; intros st Hin; cbn [fold_left]; [exact Hin|].
    apply IHm. apply In_backref_del. split; [exact Hin|]. intros [_ [_ [_ E]]]. contradiction.
  Qed.

  Lemma process_delete_gkeep del s1 x st evs st' evs' :
    (forall s' ks, In (s', ks) (chain sch s1) -> quiet ks = true) ->
    process_delete sch oc del (st, evs) s1 x = Ok (st', evs') -> gkeep x st st'.
  Proof.
    intros Hq H. unfold process_delete in H.
    destruct (before_delete_chain sch oc del x (chain sch s1) (st, evs)) as [[st1 evs1]|e] eqn:E1; cbn [bind] in H; [|discriminate].
    inversion H; subst st' evs'. clear H. cbn [fst].
    eapply gkeep_trans; [eapply bd_chain_gkeep; eauto|].
    split; [apply cleanup_links_fc | intros s' ti b j Hj Hin; apply cleanup_links_keeps; assumption].
  Qed.

  (* ---- what the guard reads is kept ---- *)
  Lemma casc_matches_fc st st' rs f x j : ents_fc_eq st st' -> casc_matches sch rs f x st' j = casc_matches sch rs f x st j.
  Proof.
    intros H. unfold casc_matches. rewrite (present_fc sch st st' rs j (H _ _)), (get_field_fc sch st st' rs j f (H _ _)). reflexivity.
  Qed.

  Lemma loadable_fc st st' c x : ents_fc_eq st st' -> loadable sch st' c x = loadable sch st c x.
  Proof.
    intros H. unfold loadable. rewrite (present_fc sch st st' c x (H _ _)), (present_fc sch st st' (root_of sch c) x (H _ _)). reflexivity.
  Qed.

  Lemma guard_fires_gkeep st st' c x k : gkeep x st st' -> guard_fires sch st c x k -> guard_fires sch st' c x k.
  Proof.
    intros [Hfc Hk] H. destruct k as [| | |b| |rs f cs|]; cbn [guard_fires] in *; try contradiction.
    - destruct H as [j [Hj Hin]]. exists j. split; [exact Hj | apply Hk; assumption].
    - destruct cs; [|contradiction]. destruct H as [j Hm]. exists j. rewrite (casc_matches_fc st st' rs f x j Hfc). exact Hm.
  Qed.

  (* the hook of a firing guard fails *)
  Lemma guard_hook_refuses del st evs c x k :
    guard_fires sch st c x k ->
    before_delete_one sch oc del (st, evs) (mkIctx false (oc_sys oc) c x) k = Err ERefExists.
  Proof.
    intros H. destruct k as [| | |b| |rs f cs|]; cbn [guard_fires] in H; try contradiction; cbn [before_delete_one ic_store ic_id].
    - destruct H as [j [_ Hin]]. destruct (get_set sch st c x b); [contradiction | reflexivity].
    - destruct cs; [|contradiction]. destruct H as [j Hm].
      assert (In j (ids_of st (root_of sch rs))) as Hids.
      { unfold casc_matches in Hm. apply andb_prop in Hm as [Hp _]. apply present_get_ent in Hp.
        unfold ids_of, get_ent in *. apply al_get_keys. exact Hp. }
      assert (existsb (casc_matches sch rs f x st) (ids_of st (root_of sch rs)) = true) as ->
        by (apply existsb_exists; exists j; split; assumption).
      reflexivity.
  Qed.

  (* ---- the family of the deleted entity ---- *)
  Variable r0 : name.                 (* its root store *)
  Variable cd : sdef.                 (* the child store that owns the guard *)
  Variables before after : list sdef.
  Variables pre post : list cons.
  Variable k : cons.
  Hypothesis Hsplit : children_of sch r0 = before ++ cd :: after.
  Hypothesis Hchild : forall d, In d (children_of sch r0) -> is_child sch (sd_name d) = true /\ root_of sch (sd_name d) = r0.
  Hypothesis Hcons : cons_of sch (sd_name cd) = pre ++ k :: post.
  Hypothesis Hq_root : quiet (cons_of sch r0) = true.
  Hypothesis Hq_before : forall d, In d before -> quiet (cons_of sch (sd_name d)) = true.
  Hypothesis Hq_pre : quiet pre = true.

  Lemma chain_child d : In d (children_of sch r0) ->
    chain sch (sd_name d) = [(r0, cons_of sch r0); (sd_name d, cons_of sch (sd_name d))].
  Proof. intros Hd. destruct (Hchild d Hd) as [Hc Hr]. unfold chain. rewrite Hc, Hr. reflexivity. Qed.

  Lemma cd_in : In cd (children_of sch r0).
  Proof. rewrite Hsplit. apply in_or_app. right. left. reflexivity. Qed.

  (* processDeleteConstraints of the child store that owns the guard fails *)
  Lemma process_delete_guard_refuses del st evs x :
    guard_fires sch st (sd_name cd) x k -> exists e, process_delete sch oc del (st, evs) (sd_name cd) x = Err e.
  Proof.
    intros Hg. unfold process_delete. rewrite (chain_child cd cd_in). cbn [before_delete_chain].
    destruct (before_delete_all sch oc del (st, evs) (mkIctx false (oc_sys oc) r0 x) (cons_of sch r0)) as [[st1 evs1]|e] eqn:E1;
      cbn [bind]; [|eexists; reflexivity].
    pose proof (bd_all_gkeep del _ _ st evs st1 evs1 Hq_root E1) as G1. cbn [ic_id] in G1.
    rewrite Hcons, before_delete_all_app.
    destruct (before_delete_all sch oc del (st1, evs1) (mkIctx false (oc_sys oc) (sd_name cd) x) pre) as [[st2 evs2]|e] eqn:E2;
      [|eexists; reflexivity].
    pose proof (bd_all_gkeep del _ _ st1 evs1 st2 evs2 Hq_pre E2) as G2. cbn [ic_id] in G2.
    cbn [before_delete_all].
    rewrite (guard_hook_refuses del st2 evs2 (sd_name cd) x k) by (apply (guard_fires_gkeep st st2 _ _ _ (gkeep_trans _ _ _ _ G1 G2) Hg)).
    cbn [bind]. eexists; reflexivity.
  Qed.

  (* the loop over the child stores fails: at an earlier child store, or at the one that owns the guard *)
  Lemma children_delete_guard_refuses del x st0 : guard_fires sch st0 (sd_name cd) x k -> loadable sch st0 (sd_name cd) x = true ->
    forall bef, incl bef before -> forall st evs flows, gkeep x st0 st ->
    exists e, children_delete sch oc del x (bef ++ cd :: after) (st, evs) flows = Err e.
  Proof.
    intros Hg Hl. induction bef as [|d bef IH]; intros Hincl st evs flows G; cbn [app children_delete fst].
    - rewrite (loadable_fc st0 st _ _ (proj1 G)), Hl.
      destruct (process_delete_guard_refuses del st evs x (guard_fires_gkeep _ _ _ _ _ G Hg)) as [e ->]. cbn [bind]. eexists; reflexivity.
    - assert (incl bef before) as Hincl' by (intros y Hy; apply Hincl; right; exact Hy).
      destruct (loadable sch st (sd_name d) x); [|apply IH; assumption].
      destruct (process_delete sch oc del (st, evs) (sd_name d) x) as [[st1 evs1]|e] eqn:E1; cbn [bind]; [|eexists; reflexivity].
      apply IH; [exact Hincl'|]. eapply gkeep_trans; [exact G|].
      assert (In d before) as Hd by (apply Hincl; left; reflexivity).
      assert (In d (children_of sch r0)) as Hd' by (rewrite Hsplit; apply in_or_app; left; exact Hd).
      eapply process_delete_gkeep; [|exact E1]. rewrite (chain_child d Hd').
      intros s' ks [E|[E|[]]]; inversion E; subst; [exact Hq_root | apply Hq_before; exact Hd].
  Qed.
End ChildGuard.

(* Deleting - through the root store or any child store of the family - an entity for which a restricting guard of a
   child store fires is refused, for every fuel. *)
Lemma delete_child_guard_refused_lemma sch oc n st evs s0 x cd before after pre post k :
  wf_stores_b sch = true ->
  let r0 := root_of sch s0 in
  children_of sch r0 = before ++ cd :: after ->
  cons_of sch (sd_name cd) = pre ++ k :: post ->
  quiet (cons_of sch r0) = true ->
  (forall d, In d before -> quiet (cons_of sch (sd_name d)) = true) ->
  quiet pre = true ->
  loadable sch st (sd_name cd) x = true ->
  guard_fires sch st (sd_name cd) x k ->
  exists e, delete_by_id sch oc (S n) (st, evs) s0 x = Err e.
Proof.
  intros Hwf r0 Hsplit Hcons Hqr Hqb Hqp Hl Hg.
  assert (Hchild : forall d, In d (children_of sch r0) -> is_child sch (sd_name d) = true /\ root_of sch (sd_name d) = r0).
  { intros d Hd. pose proof Hd as Hd0. destruct (wf_stores_b_sound sch Hwf) as [_ [_ H3]]. split; [|apply H3; exact Hd].
    unfold wf_stores_b in Hwf. apply andb_prop in Hwf as [Hn _].
    unfold children_of in Hd. apply filter_In in Hd as [Hin Hp]. unfold is_child. rewrite (find_store_nodup _ _ Hn Hin).
    destruct (sd_parent d); [reflexivity | discriminate]. }
  cbn [delete_by_id]. fold r0. cbn [fst].
  destruct (present sch st r0 x); cbn [negb]; [|eexists; reflexivity].
  destruct (children_delete_guard_refuses sch oc r0 cd before after pre post k Hsplit Hchild Hcons Hqr Hqb Hqp
              (delete_by_id sch oc n) x st Hg Hl before (incl_refl _) st evs [] (gkeep_refl sch x st)) as [e He].
  rewrite Hsplit, He. cbn [bind]. eexists; reflexivity.
Qed.

(* ... and the enclosing transaction ends rolled back: state unchanged, no events *)
Lemma delete_child_guard_tx_unchanged_lemma sch n st (tr : tx) ops1 ops2 s0 x cd before after pre post k st1 evs1 :
  wf_stores_b sch = true ->
  tx_ops tr = ops1 ++ ODelete s0 x :: ops2 ->
  snd (run_ops sch (S n) (mkOctx (tx_sys tr) (tx_vetoes tr)) (st, []) ops1) = Ok (st1, evs1) ->
  children_of sch (root_of sch s0) = before ++ cd :: after ->
  cons_of sch (sd_name cd) = pre ++ k :: post ->
  quiet (cons_of sch (root_of sch s0)) = true ->
  (forall d, In d before -> quiet (cons_of sch (sd_name d)) = true) ->
  quiet pre = true ->
  loadable sch st1 (sd_name cd) x = true ->
  guard_fires sch st1 (sd_name cd) x k ->
  exists rs, run_tx sch (S n) st tr = (rs, false, st, []).
Proof.
  intros Hwf Hops Hpre1 Hsplit Hcons Hqr Hqb Hqp Hl Hg.
  destruct (delete_child_guard_refused_lemma sch (mkOctx (tx_sys tr) (tx_vetoes tr)) n st1 evs1 s0 x cd before after pre post k
              Hwf Hsplit Hcons Hqr Hqb Hqp Hl Hg) as [e Hd].
  pose proof (run_ops_failure_propagates sch (S n) (mkOctx (tx_sys tr) (tx_vetoes tr)) ops1 (ODelete s0 x) ops2 (st, []) (st1, evs1) _ Hpre1 Hd) as Hf.
  unfold run_tx. rewrite Hops. destruct (run_ops sch (S n) _ (st, []) (ops1 ++ ODelete s0 x :: ops2)) as [rs fin].
  cbn [snd] in Hf. subst fin. eexists. reflexivity.
Qed.
