(* The state an entity event delivers is fixed when the operation runs (C08, sixth strengthening).
   Model: Store/EventsCaller.v (entity structs on a heap, the payload pointers of queued events, caller programs
   that re-use and overwrite the structs they passed). *)
From Coq Require Import List Bool Arith Lia.
From Storage Require Import Base.Bytes Base.BytesFacts Store.Model Store.Events Store.EventsCaller.
Import ListNotations.

Lemma eget_cons n a v cells b :
  eget (mkEHeap n ((a, v) :: cells)) b = if Nat.eqb a b then Some v else eget (mkEHeap n cells) b.
Proof. unfold eget. cbn. destruct (Nat.eqb a b); reflexivity. Qed.

Lemma eget_eset h a v b : eget (eset h a v) b = if Nat.eqb a b then Some v else eget h b.
Proof. unfold eset. rewrite eget_cons. destruct h; reflexivity. Qed.

Lemma eget_ealloc h v b :
  eget (fst (ealloc h v)) b = if Nat.eqb (eh_next h) b then Some v else eget h b.
Proof. unfold ealloc. cbn [fst]. rewrite eget_cons. destruct h; reflexivity. Qed.

(* every address in use is below the allocation counter *)
Definition eheap_wf (h : eheap) : Prop := forall a s, eget h a = Some s -> a < eh_next h.

(* nothing the caller has no reference to changed *)
Definition lib_frame (h h' : eheap) : Prop :=
  forall a s, eget h a = Some s -> g_caller s = false -> eget h' a = Some s.

Lemma lib_frame_refl h : lib_frame h h.
Proof. intros a s H _. exact H. Qed.

Lemma eheap_wf_empty : eheap_wf eheap_empty.
Proof. intros a s H. discriminate H. Qed.

Lemma eheap_wf_ealloc h v : eheap_wf h -> eheap_wf (fst (ealloc h v)).
Proof.
  intros W a s H. rewrite eget_ealloc in H. cbn. destruct (Nat.eqb (eh_next h) a) eqn:E.
  - apply Nat.eqb_eq in E. lia.
  - apply W in H. lia.
Qed.

Lemma ealloc_frame h v : eheap_wf h -> lib_frame h (fst (ealloc h v)).
Proof.
  intros W a s H _. rewrite eget_ealloc. destruct (Nat.eqb (eh_next h) a) eqn:E; [|exact H].
  apply Nat.eqb_eq in E. apply W in H. lia.
Qed.

Lemma ealloc_new h v : eget (fst (ealloc h v)) (snd (ealloc h v)) = Some v.
Proof. rewrite eget_ealloc. cbn. rewrite Nat.eqb_refl. reflexivity. Qed.

Lemma eheap_wf_eset h a s v : eheap_wf h -> eget h a = Some s -> eheap_wf (eset h a v).
Proof.
  intros W G b t H. rewrite eget_eset in H. cbn. destruct (Nat.eqb a b) eqn:E.
  - apply Nat.eqb_eq in E. subst b. apply W in G. exact G.
  - apply W in H. exact H.
Qed.

Lemma eset_caller_frame h a s v : eget h a = Some s -> g_caller s = true -> lib_frame h (eset h a v).
Proof.
  intros G C b t H L. rewrite eget_eset. destruct (Nat.eqb a b) eqn:E; [|exact H].
  apply Nat.eqb_eq in E. subst b. rewrite G in H. inversion H; subst t. rewrite C in L. discriminate L.
Qed.

(* the struct behind a queued event is one only the library knows, and it holds the recorded value *)
Definition points_to (h : eheap) (q : qevent) (sn : id * view) : Prop :=
  exists s, eget h (q_ptr q) = Some s /\ g_caller s = false /\ g_id s = fst sn /\ g_view s = snd sn.

Definition einv (st : estate) : Prop :=
  eheap_wf (es_heap st) /\ Forall2 (points_to (es_heap st)) (es_queue st) (es_snap st).

Lemma points_to_frame h h' q sn : lib_frame h h' -> points_to h q sn -> points_to h' q sn.
Proof. intros F (s & G & C & I & V). exists s. split; [apply F; assumption|]. auto. Qed.

Lemma Forall2_frame h h' qs sns :
  lib_frame h h' -> Forall2 (points_to h) qs sns -> Forall2 (points_to h') qs sns.
Proof. intros F H. induction H; constructor; [eapply points_to_frame; eassumption | assumption]. Qed.

Lemma Forall2_snoc {A B} (R : A -> B -> Prop) l1 l2 a b :
  Forall2 R l1 l2 -> R a b -> Forall2 R (l1 ++ [a]) (l2 ++ [b]).
Proof. intros H1 H2. apply Forall2_app; [assumption | constructor; [assumption | constructor]]. Qed.

Lemma db_get_new db i v : db_get ((i, v) :: db) i = v.
Proof. unfold db_get. cbn. rewrite str_eqb_refl. reflexivity. Qed.

(* a queued event whose payload the library loaded into a fresh struct *)
Lemma einv_load st db' ch i v :
  einv st ->
  einv (let (h', p) := load (es_heap st) false i v in
        mkES h' db' (es_queue st ++ [mkQ ch i p]) (es_snap st ++ [(i, v)])).
Proof.
  intros (W & F). unfold load. destruct (ealloc (es_heap st) (mkStruct false i v)) as [h' p] eqn:E.
  assert (Eh : h' = fst (ealloc (es_heap st) (mkStruct false i v))) by (rewrite E; reflexivity).
  assert (Ep : p = snd (ealloc (es_heap st) (mkStruct false i v))) by (rewrite E; reflexivity).
  split; cbn [es_heap es_queue es_snap].
  - subst h'. apply eheap_wf_ealloc. exact W.
  - apply Forall2_snoc.
    + eapply Forall2_frame; [|exact F]. subst h'. apply ealloc_frame. exact W.
    + exists (mkStruct false i v). cbn. subst h' p. rewrite ealloc_new. auto.
Qed.

Lemma estep_pinned_inv st c : einv st -> einv (estep LibPinned st c).
Proof.
  intros I. pose proof I as (W & F). destruct c as [i v | a i v | i | a | a | i]; cbn [estep].
  - split; cbn [es_heap es_queue es_snap].
    + apply eheap_wf_ealloc. exact W.
    + eapply Forall2_frame; [|exact F]. apply ealloc_frame. exact W.
  - destruct (eget (es_heap st) a) as [s|] eqn:G; [|exact I].
    destruct (g_caller s) eqn:C; [|exact I].
    split; cbn [es_heap es_queue es_snap].
    + eapply eheap_wf_eset; eassumption.
    + eapply Forall2_frame; [|exact F]. eapply eset_caller_frame; eassumption.
  - destruct (db_get (es_db st) i) as [v|]; [|exact I].
    split; cbn [es_heap es_queue es_snap]; unfold load.
    + apply eheap_wf_ealloc. exact W.
    + eapply Forall2_frame; [|exact F]. apply ealloc_frame. exact W.
  - destruct (eget (es_heap st) a) as [s|] eqn:G; [|exact I].
    destruct (negb (g_caller s)); [exact I|].
    destruct (db_get (es_db st) (g_id s)); [exact I|].
    rewrite db_get_new. apply einv_load. exact I.
  - destruct (eget (es_heap st) a) as [s|] eqn:G; [|exact I].
    destruct (negb (g_caller s)); [exact I|].
    destruct (db_get (es_db st) (g_id s)); [|exact I].
    rewrite db_get_new. apply einv_load. exact I.
  - destruct (db_get (es_db st) i) as [v|]; [|exact I].
    apply einv_load. exact I.
Qed.

Lemma run_pinned_inv acts : forall st, einv st -> einv (run_ecaller LibPinned st acts).
Proof.
  induction acts as [|c acts IH]; intros st I; [exact I|].
  change (run_ecaller LibPinned st (c :: acts)) with (run_ecaller LibPinned (estep LibPinned st c) acts).
  apply IH. apply estep_pinned_inv. exact I.
Qed.

Lemma einv_empty : einv estate_empty.
Proof. split; [exact eheap_wf_empty | constructor]. Qed.

Lemma einv_delivered st : einv st -> delivered st = map Some (es_snap st).
Proof.
  intros (_ & F). unfold delivered. induction F as [|q sn qs sns P _ IH]; [reflexivity|].
  cbn. rewrite IH. f_equal. destruct P as (s & G & _ & Hi & Hv). unfold deliver. rewrite G. cbn.
  rewrite Hi, Hv. destruct sn; reflexivity.
Qed.

(* what was recorded is never taken back: the record only grows at its end *)
Lemma estep_snap_prefix lib st c : exists more, es_snap (estep lib st c) = es_snap st ++ more.
Proof.
  destruct c as [i v | a i v | i | a | a | i]; cbn [estep].
  - exists []. cbn. now rewrite app_nil_r.
  - destruct (eget (es_heap st) a) as [s|]; [|exists []; now rewrite app_nil_r].
    destruct (g_caller s); exists []; cbn; now rewrite app_nil_r.
  - destruct (db_get (es_db st) i); exists []; cbn; now rewrite app_nil_r.
  - destruct (eget (es_heap st) a) as [s|]; [|exists []; now rewrite app_nil_r].
    destruct (negb (g_caller s)); [exists []; now rewrite app_nil_r|].
    destruct (db_get (es_db st) (g_id s)); [exists []; now rewrite app_nil_r|].
    rewrite db_get_new. destruct lib.
    + unfold load. destruct (ealloc _ _). eexists. cbn. reflexivity.
    + eexists. cbn. reflexivity.
  - destruct (eget (es_heap st) a) as [s|]; [|exists []; now rewrite app_nil_r].
    destruct (negb (g_caller s)); [exists []; now rewrite app_nil_r|].
    destruct (db_get (es_db st) (g_id s)); [|exists []; now rewrite app_nil_r].
    rewrite db_get_new. unfold load. destruct (ealloc _ _). eexists. cbn. reflexivity.
  - destruct (db_get (es_db st) i); [|exists []; now rewrite app_nil_r].
    unfold load. destruct (ealloc _ _). eexists. cbn. reflexivity.
Qed.

Lemma run_snap_prefix lib acts : forall st, exists more, es_snap (run_ecaller lib st acts) = es_snap st ++ more.
Proof.
  induction acts as [|c acts IH]; intros st; [exists []; cbn; now rewrite app_nil_r|].
  change (run_ecaller lib st (c :: acts)) with (run_ecaller lib (estep lib st c) acts).
  destruct (IH (estep lib st c)) as (m2 & E2). destruct (estep_snap_prefix lib st c) as (m1 & E1).
  exists (m1 ++ m2). rewrite E2, E1, app_assoc. reflexivity.
Qed.

Lemma firstn_length_app' {A} (l r : list A) : firstn (length l) (l ++ r) = l.
Proof. induction l as [|x l IH]; cbn; [reflexivity | now f_equal]. Qed.

(* what the record of an operation is: the bucket's content for the event's entity right after the create / update,
   right before the delete - for both variants of the library (the record is specification, not code) *)
Lemma estep_record lib st c q sn :
  es_queue (estep lib st c) = es_queue st ++ [q] ->
  es_snap (estep lib st c) = es_snap st ++ [sn] ->
  fst sn = q_id q /\
  db_get (match q_change q with Deleted => es_db st | _ => es_db (estep lib st c) end) (q_id q) = Some (snd sn).
Proof.
  assert (NQ : forall (l : list qevent) x, l = l ++ [x] -> False).
  { intros l x H. apply (f_equal (@length _)) in H. rewrite app_length in H. cbn in H. lia. }
  assert (SN : forall {A} (l : list A) x y, l ++ [x] = l ++ [y] -> x = y).
  { intros A l x y H. apply app_inv_head in H. now inversion H. }
  destruct c as [i v | a i v | i | a | a | i]; cbn [estep].
  - cbn. intros H. exfalso. eapply NQ; exact H.
  - destruct (eget (es_heap st) a) as [s|]; [|intros H; exfalso; eapply NQ; exact H].
    destruct (g_caller s); cbn; intros H; exfalso; eapply NQ; exact H.
  - destruct (db_get (es_db st) i); cbn; intros H; exfalso; eapply NQ; exact H.
  - destruct (eget (es_heap st) a) as [s|]; [|intros H; exfalso; eapply NQ; exact H].
    destruct (negb (g_caller s)); [intros H; exfalso; eapply NQ; exact H|].
    destruct (db_get (es_db st) (g_id s)); [intros H; exfalso; eapply NQ; exact H|].
    rewrite db_get_new. destruct lib.
    + unfold load. destruct (ealloc _ _) as [h' p]. cbn. intros HQ HS.
      apply SN in HQ. apply SN in HS. subst q sn. cbn. rewrite db_get_new. auto.
    + cbn. intros HQ HS. apply SN in HQ. apply SN in HS. subst q sn. cbn. rewrite db_get_new. auto.
  - destruct (eget (es_heap st) a) as [s|]; [|intros H; exfalso; eapply NQ; exact H].
    destruct (negb (g_caller s)); [intros H; exfalso; eapply NQ; exact H|].
    destruct (db_get (es_db st) (g_id s)); [|intros H; exfalso; eapply NQ; exact H].
    rewrite db_get_new. unfold load. destruct (ealloc _ _) as [h' p]. cbn. intros HQ HS.
    apply SN in HQ. apply SN in HS. subst q sn. cbn. rewrite db_get_new. auto.
  - destruct (db_get (es_db st) i) as [v|] eqn:G; [|intros H; exfalso; eapply NQ; exact H].
    unfold load. destruct (ealloc _ _) as [h' p]. cbn. intros HQ HS.
    apply SN in HQ. apply SN in HS. subst q sn. cbn. auto.
Qed.

Lemma delivered_state_fixed_lemma : forall pre c post st1 st2 stf,
  run_ecaller LibPinned estate_empty pre = st1 ->
  estep LibPinned st1 c = st2 ->
  run_ecaller LibPinned st2 post = stf ->
  delivered stf = map Some (es_snap stf) /\
  firstn (length (es_snap st2)) (es_snap stf) = es_snap st2 /\
  (forall q sn, es_queue st2 = es_queue st1 ++ [q] -> es_snap st2 = es_snap st1 ++ [sn] ->
     fst sn = q_id q /\
     db_get (match q_change q with Deleted => es_db st1 | _ => es_db st2 end) (q_id q) = Some (snd sn)).
Proof.
  intros pre c post st1 st2 stf H1 H2 H3. split; [|split].
  - apply einv_delivered. subst stf st2 st1. apply run_pinned_inv, estep_pinned_inv, run_pinned_inv, einv_empty.
  - subst stf. destruct (run_snap_prefix LibPinned post st2) as (m & E). rewrite E. apply firstn_length_app'.
  - intros q sn HQ HS. subst st2. eapply estep_record; eassumption.
Qed.
