(* C09 proofs, part 3: setIndex.CheckIntegrity (check_setidx of Store/Integrity.v) on arbitrary states. *)
From Coq Require Import List NArith Bool Lia.
From Storage Require Import Base.Bytes Base.BytesFacts Store.Model Store.AListFacts Store.FrameProofs
  Store.Integrity Store.IntegrityLoops.
Import ListNotations.

Section SetIdx.
  Variable sch : schema.
  Variables s f : name.
  Local Notation r := (root_of sch s).

  Definition sbucket (st : state) (v : str) : option (list id) := al_get v (sidx st r f).

  (* an entry (v, i) of the index is right *)
  Definition sgood (st : state) (v : str) (i : id) : Prop :=
    present sch st s i = true /\ In v (get_set sch st s i f).
  Definition sgoodb (st : state) (v : str) (i : id) : bool :=
    present sch st s i && ss_mem v (get_set sch st s i f).

  Lemma sgoodb_spec st v i : sgoodb st v i = true <-> sgood st v i.
  Proof. unfold sgoodb, sgood. rewrite andb_true_iff, ss_mem_in. tauto. Qed.

  (* every key bucket is non-empty and holds only right entries *)
  Definition SA (st : state) : Prop :=
    forall v l, sbucket st v = Some l -> l <> [] /\ forall i, In i l -> sgood st v i.
  (* every value of every present entity is indexed *)
  Definition SB (st : state) : Prop :=
    forall i, present sch st s i = true -> forall v, In v (get_set sch st s i f) -> In i (sidx_ids st r f v).
  (* consistent = the C03 set-index mirror statement with no empty keys; everything is repairable *)
  Definition SCons (st : state) : Prop := SA st /\ SB st.

  (* ---- primitives ---- *)
  Lemma sidx_ids_bucket st v : sidx_ids st r f v = match sbucket st v with Some l => l | None => [] end.
  Proof. reflexivity. Qed.

  Lemma sbucket_del_id st v i v' :
    sbucket (sidx_del_id st r f v i) v' =
    if str_eqb v v' then option_map (ss_del i) (sbucket st v) else sbucket st v'.
  Proof.
    unfold sbucket, sidx_del_id. destruct (al_get v (sidx st r f)) as [l|] eqn:E.
    - rewrite sidx_set_sidx, al_get_put. destruct (str_eqb v v'); reflexivity.
    - destruct (str_eqb v v') eqn:E2; [|reflexivity]. apply str_eqb_eq in E2. subst v'. rewrite E. reflexivity.
  Qed.

  Lemma sbucket_add st v i v' :
    sbucket (sidx_add st r f v i) v' =
    if str_eqb v v' then Some (ss_add i (sidx_ids st r f v)) else sbucket st v'.
  Proof.
    unfold sbucket, sidx_add, sidx_ids. rewrite sidx_set_sidx, al_get_put. destruct (str_eqb v v'); reflexivity.
  Qed.

  Lemma ents_del_id st v i : ents (sidx_del_id st r f v i) = ents st.
  Proof. unfold sidx_del_id. destruct (al_get v (sidx st r f)); reflexivity. Qed.
  Lemma ents_add st v i : ents (sidx_add st r f v i) = ents st.
  Proof. reflexivity. Qed.

  Lemma sgood_ents_eq st st' v i : ents st' = ents st -> sgood st' v i <-> sgood st v i.
  Proof. intros H. unfold sgood. rewrite (present_ents_eq sch st st' s i H), (get_set_ents_eq sch st st' s i f H). tauto. Qed.
  Lemma sgoodb_ents_eq st st' v i : ents st' = ents st -> sgoodb st' v i = sgoodb st v i.
  Proof. intros H. unfold sgoodb. rewrite (present_ents_eq sch st st' s i H), (get_set_ents_eq sch st st' s i f H). reflexivity. Qed.

  (* ---- loop bodies ---- *)
  Lemma scan1_id_fst fx v i st :
    fst (set_scan1_id sch fx s f v i st) =
    if negb (present sch st s i) then [mkReport KSMissingEntity fx]
    else if negb (ss_mem v (get_set sch st s i f)) then [mkReport KSStale fx] else [].
  Proof. unfold set_scan1_id. destruct (present sch st s i); cbn; [|reflexivity]. destruct (ss_mem v _); reflexivity. Qed.

  Lemma scan1_id_snd fx v i st :
    snd (set_scan1_id sch fx s f v i st) = if fx && negb (sgoodb st v i) then sidx_del_id st r f v i else st.
  Proof.
    unfold set_scan1_id, sgoodb. destruct (present sch st s i); cbn.
    - destruct (ss_mem v _); cbn; destruct fx; reflexivity.
    - destruct fx; reflexivity.
  Qed.

  Lemma scan1_id_ro v : ro_body (set_scan1_id sch false s f v).
  Proof. intros i st. rewrite scan1_id_snd. reflexivity. Qed.

  Lemma scan1_key_snd fx v l st :
    snd (set_scan1_key sch fx s f (v, l) st) = snd (run_list (set_scan1_id sch fx s f v) l st).
  Proof. unfold set_scan1_key. destruct (run_list _ l st). reflexivity. Qed.

  Lemma scan1_key_fst fx v l st :
    fst (set_scan1_key sch fx s f (v, l) st) =
    fst (run_list (set_scan1_id sch fx s f v) l st) ++ (if islnil l then [mkReport KSEmptyKey fx] else []).
  Proof. unfold set_scan1_key. destruct (run_list _ l st). cbn. destruct (islnil l); [reflexivity | rewrite app_nil_r; reflexivity]. Qed.

  Lemma scan1_key_ro : ro_body (set_scan1_key sch false s f).
  Proof. intros [v l] st. rewrite scan1_key_snd. apply run_list_ro, scan1_id_ro. Qed.

  Lemma scan2_val_fst fx i v st :
    fst (set_scan2_val sch fx s f i v st) = if ss_mem i (sidx_ids st r f v) then [] else [mkReport KSMissing fx].
  Proof. unfold set_scan2_val. destruct (ss_mem i _); reflexivity. Qed.

  Lemma scan2_val_snd fx i v st :
    snd (set_scan2_val sch fx s f i v st) = if fx && negb (ss_mem i (sidx_ids st r f v)) then sidx_add st r f v i else st.
  Proof. unfold set_scan2_val. destruct (ss_mem i _); destruct fx; reflexivity. Qed.

  Lemma scan2_val_ro i : ro_body (set_scan2_val sch false s f i).
  Proof. intros v st. rewrite scan2_val_snd. reflexivity. Qed.
  Lemma scan2_id_ro : ro_body (set_scan2_id sch false s f).
  Proof. intros i st. unfold set_scan2_id. apply run_list_ro, scan2_val_ro. Qed.

  (* ---- check-only ---- *)
  Lemma set_scan1_false st :
    set_scan1 sch false s f st = (fst (run_list (set_scan1_key sch false s f) (al_view (sidx st r f)) st), st).
  Proof.
    unfold set_scan1. pose proof (run_list_ro _ scan1_key_ro (al_view (sidx st r f)) st) as H.
    destruct (run_list (set_scan1_key sch false s f) (al_view (sidx st r f)) st) as [rs st1]. cbn in *. subst st1. reflexivity.
  Qed.

  Theorem check_setidx_readonly st : snd (check_setidx sch false s f st) = st.
  Proof. unfold check_setidx. rewrite seq2_snd, set_scan1_false. cbn [snd]. apply run_list_ro, scan2_id_ro. Qed.

  Lemma check_setidx_false_fst st :
    fst (check_setidx sch false s f st) =
    fst (run_list (set_scan1_key sch false s f) (al_view (sidx st r f)) st) ++
    fst (run_list (set_scan2_id sch false s f) (valid_ids sch st s) st).
  Proof. unfold check_setidx. rewrite seq2_fst, set_scan1_false. reflexivity. Qed.

  Lemma scan1_key_nil_iff st v l :
    fst (set_scan1_key sch false s f (v, l) st) = [] <-> l <> [] /\ forall i, In i l -> sgood st v i.
  Proof.
    rewrite scan1_key_fst, app_nil_iff, (run_list_ro_nil _ (scan1_id_ro v)). split.
    - intros [H1 H2]. split; [destruct l; [discriminate | congruence]|].
      intros i Hi. specialize (H1 i Hi). rewrite scan1_id_fst in H1. unfold sgood.
      destruct (present sch st s i); cbn in H1; [|discriminate].
      destruct (ss_mem v (get_set sch st s i f)) eqn:E; [|discriminate]. apply ss_mem_in in E. auto.
    - intros [H1 H2]. split.
      + intros i Hi. destruct (H2 i Hi) as [Hp Hv]. apply ss_mem_in in Hv. rewrite scan1_id_fst, Hp, Hv. reflexivity.
      + destruct l; [congruence | reflexivity].
  Qed.

  Lemma scan2_id_nil_iff st i :
    fst (set_scan2_id sch false s f i st) = [] <-> forall v, In v (get_set sch st s i f) -> In i (sidx_ids st r f v).
  Proof.
    unfold set_scan2_id. rewrite (run_list_ro_nil _ (scan2_val_ro i)). split; intros H v Hv; specialize (H v Hv).
    - rewrite scan2_val_fst in H. destruct (ss_mem i (sidx_ids st r f v)) eqn:E; [apply ss_mem_in; exact E | discriminate].
    - apply ss_mem_in in H. rewrite scan2_val_fst, H. reflexivity.
  Qed.

  Theorem check_setidx_nil_iff st : fst (check_setidx sch false s f st) = [] <-> SCons st.
  Proof.
    rewrite check_setidx_false_fst, app_nil_iff.
    rewrite (run_list_ro_nil _ scan1_key_ro), (run_list_ro_nil _ scan2_id_ro). unfold SCons, SA, SB. split.
    - intros [H1 H2]. split.
      + intros v l Hb. apply scan1_key_nil_iff. apply H1. apply al_view_in. exact Hb.
      + intros i Hp. apply scan2_id_nil_iff. apply H2. apply valid_ids_present. exact Hp.
    - intros [H1 H2]. split.
      + intros [v l] Hin. apply scan1_key_nil_iff. apply H1. apply al_view_in in Hin. exact Hin.
      + intros i Hin. apply scan2_id_nil_iff. apply H2. apply valid_ids_present in Hin. exact Hin.
  Qed.

  (* ---- fix ---- *)
  (* buckets only lose ids / keys *)
  Definition shrinks (st st' : state) : Prop :=
    ents st' = ents st /\ forall v l', sbucket st' v = Some l' -> exists l, sbucket st v = Some l /\ incl l' l.

  Lemma shrinks_refl st : shrinks st st.
  Proof. split; [reflexivity|]. intros v l H. exists l. split; [exact H | apply incl_refl]. Qed.
  Lemma shrinks_trans a b c : shrinks a b -> shrinks b c -> shrinks a c.
  Proof.
    intros [E1 H1] [E2 H2]. split; [congruence|]. intros v l'' Hc. destruct (H2 v l'' Hc) as [l' [Hb I2]].
    destruct (H1 v l' Hb) as [l [Ha I1]]. exists l. split; [exact Ha | eapply incl_tran; eassumption].
  Qed.

  Lemma del_id_shrinks st v i : shrinks st (sidx_del_id st r f v i).
  Proof.
    split; [apply ents_del_id|]. intros v' l' H. rewrite sbucket_del_id in H. destruct (str_eqb v v') eqn:E.
    - apply str_eqb_eq in E. subst v'. destruct (sbucket st v) as [l|]; [|discriminate]. cbn in H. inversion H; subst.
      exists l. split; [reflexivity|]. intros x Hx. apply ss_del_in in Hx. tauto.
    - exists l'. split; [exact H | apply incl_refl].
  Qed.

  Lemma scan1_id_shrinks fx v i st : shrinks st (snd (set_scan1_id sch fx s f v i st)).
  Proof. rewrite scan1_id_snd. destruct (fx && _); [apply del_id_shrinks | apply shrinks_refl]. Qed.

  Lemma scan1_key_shrinks fx e st : shrinks st (snd (set_scan1_key sch fx s f e st)).
  Proof.
    destruct e as [v l]. rewrite scan1_key_snd.
    apply (run_list_inv (set_scan1_id sch fx s f v) (fun st' => shrinks st st')); [|apply shrinks_refl].
    intros i st' H. eapply shrinks_trans; [exact H | apply scan1_id_shrinks].
  Qed.

  (* all entries left in bucket v are right *)
  Definition bucket_ok (v : str) (st : state) : Prop := forall l, sbucket st v = Some l -> forall i, In i l -> sgood st v i.

  Lemma bucket_ok_shrinks v st st' : shrinks st st' -> bucket_ok v st -> bucket_ok v st'.
  Proof.
    intros [He Hs] Hok l' Hb i Hi. destruct (Hs v l' Hb) as [l [Hl Hinc]].
    apply (sgood_ents_eq st st' v i He). apply (Hok l Hl). apply Hinc, Hi.
  Qed.

  Lemma scan1_keys_fix_spec st0 :
    let st1 := snd (run_list (set_scan1_key sch true s f) (al_view (sidx st0 r f)) st0) in
    shrinks st0 st1 /\ forall v, bucket_ok v st1.
  Proof.
    set (I := fun st' => shrinks st0 st').
    set (Q := fun (e : str * list id) st' => bucket_ok (fst e) st').
    destruct (run_list_post (set_scan1_key sch true s f) I Q (al_view (sidx st0 r f))) with (st := st0) as [Hsh HQ].
    - intros e st' _ H. eapply shrinks_trans; [exact H | apply scan1_key_shrinks].
    - intros [v l] st' Hin Hs. unfold Q. cbn [fst].
      apply al_view_in in Hin. destruct (sbucket st' v) as [l'|] eqn:El'.
      + (* the cursor sees the original content l; the bucket may only have shrunk meanwhile: treat via shrink *)
        destruct Hs as [He Hs]. destruct (Hs v l' El') as [l0 [Hl0 Hinc]]. unfold sbucket in Hl0. rewrite Hin in Hl0. inversion Hl0; subst l0.
        (* run the loop over l on a bucket holding l' (subset of l) *)
        rewrite scan1_key_snd.
        set (I2 := fun st2 => shrinks st' st2).
        set (Q2 := fun (i : id) st2 => sgoodb st' v i = false -> forall l2, sbucket st2 v = Some l2 -> ~ In i l2).
        destruct (run_list_post (set_scan1_id sch true s f v) I2 Q2 l) with (st := st') as [Hsh2 HQ2].
        * intros i st2 _ H. eapply shrinks_trans; [exact H | apply scan1_id_shrinks].
        * intros i st2 _ [He2 _] Hbad l2 Hl2. rewrite scan1_id_snd in Hl2. rewrite (sgoodb_ents_eq st' st2 v i He2), Hbad in Hl2. cbn in Hl2.
          rewrite sbucket_del_id, str_eqb_refl in Hl2. destruct (sbucket st2 v) as [l3|]; [|discriminate]. cbn in Hl2. inversion Hl2; subst.
          intros Hx. apply ss_del_in in Hx. tauto.
        * intros i y st2 _ _ _ Hq Hbad l2 Hl2. destruct (scan1_id_shrinks true v y st2) as [_ Hs2].
          destruct (Hs2 v l2 Hl2) as [l3 [Hl3 Hinc3]]. intros Hx. apply (Hq Hbad l3 Hl3). apply Hinc3, Hx.
        * apply shrinks_refl.
        * intros l2 Hl2 i Hi. destruct Hsh2 as [He2 Hs2]. destruct (Hs2 v l2 Hl2) as [l3 [Hl3 Hinc3]].
          rewrite El' in Hl3. inversion Hl3; subst l3.
          apply (sgood_ents_eq st' _ v i He2). apply sgoodb_spec.
          destruct (sgoodb st' v i) eqn:E; [reflexivity|]. exfalso.
          apply (HQ2 i (Hinc i (Hinc3 i Hi)) E l2 Hl2). exact Hi.
      + (* the bucket is gone: nothing to show *)
        intros l2 Hl2. destruct (scan1_key_shrinks true (v, l) st') as [_ Hs2]. destruct (Hs2 v l2 Hl2) as [l3 [Hl3 _]]. congruence.
    - intros e y st' _ _ _ Hq. unfold Q in *. eapply bucket_ok_shrinks; [apply scan1_key_shrinks | exact Hq].
    - apply shrinks_refl.
    - cbn zeta. split; [exact Hsh|]. intros v l Hl. destruct Hsh as [He Hs]. destruct (Hs v l Hl) as [l0 [Hl0 _]].
      apply (HQ (v, l0)); [apply al_view_in; exact Hl0 | exact Hl].
  Qed.

  (* dropping the keys whose bucket is empty *)
  Lemma drop_empty_spec keys : forall st,
    let st' := set_drop_empty true r f keys st in
    ents st' = ents st /\
    (forall v l, sbucket st' v = Some l -> sbucket st v = Some l) /\
    (forall v, In v keys -> sbucket st' v <> Some []).
  Proof.
    unfold set_drop_empty. induction keys as [|k keys IH]; intros st; cbn [fold_left].
    - split; [reflexivity|]. split; [auto | intros v []].
    - set (st1 := if islnil (sidx_ids st r f k) then set_sidx st r f (al_del k (sidx st r f)) else st).
      destruct (IH st1) as [He [Hsub Hne]].
      assert (He1 : ents st1 = ents st) by (unfold st1; destruct (islnil _); reflexivity).
      assert (Hsub1 : forall v l, sbucket st1 v = Some l -> sbucket st v = Some l).
      { intros v l. unfold st1. destruct (islnil _); [|auto]. unfold sbucket. rewrite sidx_set_sidx, al_get_del.
        destruct (str_eqb k v); [discriminate | auto]. }
      assert (Hk : sbucket st1 k <> Some []).
      { unfold st1. destruct (islnil (sidx_ids st r f k)) eqn:E.
        - unfold sbucket. rewrite sidx_set_sidx, al_get_del_same. discriminate.
        - intros H. rewrite sidx_ids_bucket, H in E. discriminate. }
      split; [congruence|]. split.
      + intros v l H. apply Hsub1, Hsub, H.
      + intros v [<-|Hv]; [|apply Hne, Hv]. intros H. apply Hk. apply Hsub. exact H.
  Qed.

  Lemma set_scan1_fix_spec st0 :
    let st1 := snd (set_scan1 sch true s f st0) in ents st1 = ents st0 /\ SA st1.
  Proof.
    unfold set_scan1. pose proof (scan1_keys_fix_spec st0) as H. cbn zeta in H.
    destruct (run_list (set_scan1_key sch true s f) (al_view (sidx st0 r f)) st0) as [rs stA]. cbn [snd] in *.
    destruct H as [[He Hs] Hok]. destruct (drop_empty_spec (map fst (al_view (sidx st0 r f))) stA) as [He2 [Hsub Hne]].
    cbn zeta in *. split; [congruence|]. intros v l Hl. split.
    - intros ->. apply (Hne v); [|exact Hl]. apply Hsub in Hl. destruct (Hs v [] Hl) as [l0 [Hl0 _]].
      apply in_map_iff. exists (v, l0). split; [reflexivity | apply al_view_in; exact Hl0].
    - intros i Hi. apply (sgood_ents_eq stA _ v i He2). apply (Hok v l (Hsub v l Hl) i Hi).
  Qed.

  (* scan 2 only adds right entries *)
  Lemma scan2_val_spec st i v : SA st -> sgood st v i ->
    let st' := snd (set_scan2_val sch true s f i v st) in
    ents st' = ents st /\ SA st' /\ In i (sidx_ids st' r f v) /\
    (forall v' j, In j (sidx_ids st r f v') -> In j (sidx_ids st' r f v')).
  Proof.
    intros HA Hg. cbn zeta. rewrite scan2_val_snd. cbn [andb]. destruct (ss_mem i (sidx_ids st r f v)) eqn:Em; cbn [negb].
    - split; [reflexivity|]. split; [exact HA|]. split; [apply ss_mem_in; exact Em | auto].
    - split; [reflexivity|]. split; [|split].
      + intros v' l Hl. rewrite sbucket_add in Hl. destruct (str_eqb v v') eqn:E.
        * apply str_eqb_eq in E. subst v'. inversion Hl; subst l. split.
          -- intros Hn. assert (In i (ss_add i (sidx_ids st r f v))) as Hx by (apply ss_add_in; left; reflexivity).
             rewrite Hn in Hx. destruct Hx.
          -- intros j Hj. apply (sgood_ents_eq st _ v j (ents_add st v i)). apply ss_add_in in Hj as [->|Hj]; [exact Hg|].
             rewrite sidx_ids_bucket in Hj. destruct (sbucket st v) as [l0|] eqn:El0; [|destruct Hj].
             apply (proj2 (HA v l0 El0) j Hj).
        * destruct (HA v' l Hl) as [H1 H2]. split; [exact H1|]. intros j Hj.
          apply (sgood_ents_eq st _ v' j (ents_add st v i)). apply H2, Hj.
      + rewrite sidx_ids_bucket, sbucket_add, str_eqb_refl. apply ss_add_in. left. reflexivity.
      + intros v' j Hj. rewrite sidx_ids_bucket, sbucket_add. destruct (str_eqb v v') eqn:E.
        * apply str_eqb_eq in E. subst v'. apply ss_add_in. right. exact Hj.
        * rewrite <- sidx_ids_bucket. exact Hj.
  Qed.

  Definition grows (st st' : state) : Prop :=
    ents st' = ents st /\ forall v j, In j (sidx_ids st r f v) -> In j (sidx_ids st' r f v).

  Lemma scan2_id_spec st i : SA st -> present sch st s i = true ->
    let st' := snd (set_scan2_id sch true s f i st) in
    grows st st' /\ SA st' /\ forall v, In v (get_set sch st s i f) -> In i (sidx_ids st' r f v).
  Proof.
    intros HA Hp. cbn zeta. unfold set_scan2_id.
    set (I := fun st' => grows st st' /\ SA st').
    set (Q := fun (v : str) st' => In i (sidx_ids st' r f v)).
    destruct (run_list_post (set_scan2_val sch true s f i) I Q (get_set sch st s i f)) with (st := st) as [[Hg HA'] HQ].
    - intros v st' Hv [[He Hgr] Ha].
      assert (Hgood : sgood st' v i) by (apply (sgood_ents_eq st st' v i He); split; assumption).
      destruct (scan2_val_spec st' i v Ha Hgood) as [He2 [Ha2 [_ Hgr2]]]. split; [|exact Ha2].
      split; [congruence|]. intros v' j Hj. apply Hgr2, Hgr, Hj.
    - intros v st' Hv [[He Hgr] Ha].
      assert (Hgood : sgood st' v i) by (apply (sgood_ents_eq st st' v i He); split; assumption).
      destruct (scan2_val_spec st' i v Ha Hgood) as [_ [_ [Hin _]]]. exact Hin.
    - intros v y st' Hv Hy [[He Hgr] Ha] Hq. unfold Q in *.
      assert (Hgood : sgood st' y i) by (apply (sgood_ents_eq st st' y i He); split; assumption).
      destruct (scan2_val_spec st' i y Ha Hgood) as [_ [_ [_ Hgr2]]]. apply Hgr2, Hq.
    - split; [|exact HA]. split; [reflexivity | auto].
    - split; [exact Hg|]. split; [exact HA'|]. exact HQ.
  Qed.

  Lemma set_scan2_fix_spec st1 : SA st1 ->
    let st2 := snd (run_list (set_scan2_id sch true s f) (valid_ids sch st1 s) st1) in
    ents st2 = ents st1 /\ SA st2 /\ SB st2.
  Proof.
    intros HA.
    set (I := fun st' => grows st1 st' /\ SA st').
    set (Q := fun (i : id) st' => forall v, In v (get_set sch st1 s i f) -> In i (sidx_ids st' r f v)).
    destruct (run_list_post (set_scan2_id sch true s f) I Q (valid_ids sch st1 s)) with (st := st1) as [[[He Hg] HA'] HQ].
    - intros i st' Hi [[He Hgr] Ha]. apply valid_ids_present in Hi. rewrite <- (present_ents_eq sch st1 st' s i He) in Hi.
      destruct (scan2_id_spec st' i Ha Hi) as [[He2 Hgr2] [Ha2 _]]. split; [|exact Ha2].
      split; [congruence|]. intros v j Hj. apply Hgr2, Hgr, Hj.
    - intros i st' Hi [[He Hgr] Ha]. apply valid_ids_present in Hi. rewrite <- (present_ents_eq sch st1 st' s i He) in Hi.
      destruct (scan2_id_spec st' i Ha Hi) as [_ [_ H]]. unfold Q. intros v Hv. apply H.
      rewrite (get_set_ents_eq sch st1 st' s i f He). exact Hv.
    - intros i y st' _ Hy [[He Hgr] Ha] Hq. unfold Q in *. apply valid_ids_present in Hy.
      rewrite <- (present_ents_eq sch st1 st' s y He) in Hy.
      destruct (scan2_id_spec st' y Ha Hy) as [[_ Hgr2] _]. intros v Hv. apply Hgr2, Hq, Hv.
    - split; [|exact HA]. split; [reflexivity | auto].
    - cbn zeta. split; [exact He|]. split; [exact HA'|]. intros i Hp v Hv.
      rewrite (present_ents_eq sch st1 _ s i He) in Hp. rewrite (get_set_ents_eq sch st1 _ s i f He) in Hv.
      apply (HQ i (proj2 (valid_ids_present sch st1 s i) Hp) v Hv).
  Qed.

  Theorem check_setidx_fix_cons st : SCons (snd (check_setidx sch true s f st)).
  Proof.
    unfold check_setidx. rewrite seq2_snd.
    destruct (set_scan1_fix_spec st) as [He1 HA1]. destruct (set_scan2_fix_spec _ HA1) as [He2 [HA2 HB2]]. split; assumption.
  Qed.

  (* ---- frame ---- *)
  Lemma sidx_del_id_same_except st v i : same_except [CS r f] st (sidx_del_id st r f v i).
  Proof. unfold sidx_del_id. destruct (al_get v (sidx st r f)); [apply set_sidx_same_except | apply same_except_refl]. Qed.

  Lemma set_drop_empty_same_except fx keys : forall st, same_except [CS r f] st (set_drop_empty fx r f keys st).
  Proof.
    unfold set_drop_empty. destruct fx; [|intros; apply same_except_refl].
    induction keys as [|k keys IH]; intros st; cbn [fold_left]; [apply same_except_refl|].
    eapply same_except_trans; [|apply IH]. destruct (islnil _); [apply set_sidx_same_except | apply same_except_refl].
  Qed.

  Lemma check_setidx_writes fx st : same_except [CS r f] st (snd (check_setidx sch fx s f st)).
  Proof.
    unfold check_setidx. apply seq2_same_except; intros st'.
    - unfold set_scan1.
      pose proof (run_list_same_except (set_scan1_key sch fx s f) [CS r f] (al_view (sidx st' r f))) as H.
      destruct (run_list (set_scan1_key sch fx s f) (al_view (sidx st' r f)) st') as [rs stA] eqn:E. cbn [snd].
      eapply same_except_trans; [|apply set_drop_empty_same_except].
      replace stA with (snd (run_list (set_scan1_key sch fx s f) (al_view (sidx st' r f)) st')) by (rewrite E; reflexivity).
      apply H. intros [v l] st2 _. rewrite scan1_key_snd. apply run_list_same_except.
      intros i st3 _. rewrite scan1_id_snd. destruct (fx && _); [apply sidx_del_id_same_except | apply same_except_refl].
    - apply run_list_same_except. intros i st2 _. unfold set_scan2_id. apply run_list_same_except.
      intros v st3 _. rewrite scan2_val_snd. destruct (fx && _); [apply set_sidx_same_except | apply same_except_refl].
  Qed.

  Definition setidx_reads : list cell := [CS r f; CSet r f].

  Lemma SCons_frame W st st' : same_except W st st' -> (forall c, In c setidx_reads -> cmem c W = false) ->
    SCons st -> SCons st'.
  Proof.
    intros Hs Hr [A B].
    assert (Hix : sidx st' r f = sidx st r f) by (apply (proj2 (proj2 Hs)), Hr; left; reflexivity).
    assert (Hset : forall i, get_set sch st' s i f = get_set sch st s i f).
    { intros i. apply (same_except_get_set sch W st st' s i f Hs). apply Hr. right. left. reflexivity. }
    assert (Hgood : forall v i, sgood st' v i <-> sgood st v i).
    { intros v i. unfold sgood. rewrite (same_except_present sch W st st' s i Hs), Hset. tauto. }
    split.
    - intros v l Hb. unfold sbucket in Hb. rewrite Hix in Hb. destruct (A v l Hb) as [H1 H2]. split; [exact H1|].
      intros i Hi. apply Hgood, H2, Hi.
    - intros i Hp v Hv. rewrite (same_except_present sch W st st' s i Hs) in Hp. rewrite Hset in Hv.
      unfold sidx_ids. rewrite Hix. apply (B i Hp v Hv).
  Qed.
End SetIdx.
