(* C07, fifth strengthening - EVERY hook that is told about a transaction, and its silence when the transaction fails.
   Model only, no proofs (Store/TxQuietProofs.v).

   C07: "... the caller receives a non-nil error, the database is left exactly as it was before the transaction, and
   no commit action or listener runs".  Until now the C07 machine (Store/TxCtx.v ctx_update) knew the entity events of
   the store machine and the commit actions of the transaction's contexts.  What can be registered to be told about a
   transaction is more than that:

     * store level (store_crud.go; Store/Events.v [listener]): AddEntityEventListener (typed object),
       AddEntityEventListenerF (typed function), AddListener (untyped function), AddEntityIdListener (id only) - each for
       one or several change types, synchronous or asynchronous - and AddEntityConstraint /
       AddUntypedEntityConstraint, whose ProcessPostCommit sees every change of the store;
     * context level (tx_context.go): AddCommitAction on any context of the transaction;
     * database level (db.go): Db.AddTxCompleteListener.

   All of them hang on ONE mechanism, bbolt's tx.OnCommit: bbolt runs the handlers registered on a transaction after
   its commit succeeded and drops them when the function returns an error (trusted, as in Store/TxHooks.v).  The
   registrations, transcribed:

       mutateContext.setTx(tx)             tx.OnCommit(self.handleCommit)            -> BHandleCommit q
           (DbImpl.Update / Batch: ctx.setTx(tx) on the opened context; NewTxMutateContext: on the new object)
       EntityChangeState.fireEvents()      self.Ctx.Tx().OnCommit(self.processPostCommit)   -> BPostCommit e
           (processPostCommit runs ProcessPostCommit of every entity constraint of the event's store: the listener
            adapters and the constraints - Store/Events.v [delivered_to])
       DbImpl.Update / DbImpl.Batch        if err := fn(ctx); err != nil { return err }
                                           if err := ctx.runPreCommitActions(); err != nil { return err }
                                           tx.OnCommit(func() { for _, l := range txCompleteListeners { l(ctx) } })   -> BTxComplete
                                           return nil

   so the tx-complete closure is registered only on the path on which the function AND every pre-commit action
   returned nil, and runs only after the commit. *)
From Coq Require Import List NArith Bool Arith.
From Storage Require Import Base.Bytes Store.Model Store.XOps Store.Events Store.TxCtx.
Import ListNotations.

(* everything registered, before the transaction, to be told about transactions *)
Record hooks := mkHooks {
  hk_listeners : list listener;      (* store-level registrations of every style *)
  hk_tx_complete : nat               (* number of Db.AddTxCompleteListener registrations *)
}.

(* tx.OnCommit registrations *)
Inductive bhandler :=
| BHandleCommit (q : nat)            (* mutateContext.handleCommit of context object q: runs q's commitActions as they are then *)
| BPostCommit (e : event)            (* EntityChangeState.processPostCommit of one change *)
| BTxComplete.                       (* the closure over DbImpl.txCompleteListeners *)

Record qobs := mkQobs {
  q_results : list (option ekind);
  q_committed : bool;
  q_state : state;
  q_heap : heap;                     (* the context objects of the transaction when the function returned *)
  q_fired : list bhandler            (* the handlers bbolt ran *)
}.

(* the handlers a transaction has registered when function and pre-commit actions are through - listed by kind, within
   a kind in registration order (the order between kinds is not observable: handleCommit only starts a goroutine) *)
Definition registered_handlers (h1 : heap) (evs : list event) : list bhandler :=
  map BHandleCommit (seq 0 (length h1)) ++ map BPostCommit evs.

(* DbImpl.Update / DbImpl.Batch with a context that has no transaction yet, over a context program of Store/TxCtx.v *)
Definition ctx_update_q (sch : schema) (fuel : nat) (st : state) (sys : bool) (vetoes : list veto) (p : cprog) : qobs :=
  let c0 := opened_ctx p in
  let '(rs, fin, h1) := run_citems sch fuel (mkOctx sys vetoes) c0 (cp_body p) (heap_before p) (st, []) in
  match fin with
  | Ok (st', evs) =>
      if run_pre_ok (pre_actions_of c0 h1)                          (* ctx.runPreCommitActions() *)
      then mkQobs rs true st' h1 (registered_handlers h1 evs ++ [BTxComplete])   (* return nil: commit, then the handlers *)
      else mkQobs rs false st h1 []                                 (* return err: rollback, handlers dropped *)
  | Err _ => mkQobs rs false st h1 []                               (* return err *)
  end.

(* ---------------------------------------------------------------- what each kind of hook saw *)
Definition q_events (o : qobs) : list event :=
  flat_map (fun b => match b with BPostCommit e => [e] | _ => [] end) (q_fired o).
(* the invocations of one store-level registration: (event, runs in its own goroutine) *)
Definition q_delivered (l : listener) (o : qobs) : list (event * bool) := delivered_to l (q_events o).
(* label of every commit-action execution *)
Definition q_commit_runs (o : qobs) : list nat :=
  flat_map (fun b => match b with BHandleCommit q => m_commit (get q (q_heap o)) | _ => [] end) (q_fired o).
(* executions of tx-complete listeners, all registrations together *)
Definition q_tx_complete (hk : hooks) (o : qobs) : nat :=
  (hk_tx_complete hk * length (filter (fun b => match b with BTxComplete => true | _ => false end) (q_fired o)))%nat.

(* nobody was told anything, nothing was changed *)
Definition silent (st : state) (o : qobs) : Prop :=
  q_state o = st /\ q_fired o = [] /\ q_events o = [] /\ (forall l, q_delivered l o = []) /\
  q_commit_runs o = [] /\ (forall hk, q_tx_complete hk o = 0%nat).

(* ---------------------------------------------------------------- what the correspondence check prints *)
(* per registration the number of invocations, and the tx-complete executions, as a function of what every driver
   path (run_tx, run_xtx, ctx_update) returns: commit flag and delivered events *)
Definition hook_counts (hk : hooks) (committed : bool) (evs : list event) : list (listener * nat) * nat :=
  (map (fun l => (l, length (delivered_to l (if committed then evs else [])))) (hk_listeners hk),
   if committed then hk_tx_complete hk else 0%nat).

(* the registrations of the C07 harness (harness/cmd/storageharness/store_c07_hooks.go) on store number k of the
   schema: the four filtering styles x {created, updated, deleted} x {sync, async} with one change type each, the two
   constraint styles, and one registration that names three change types in one call *)
Definition all_etypes : list etype := [ECreated; ECreatedAsync; EUpdated; EUpdatedAsync; EDeleted; EDeletedAsync].
Definition filtering_styles : list lstyle := [LTyped; LFunction; LUntyped; LIdOnly].
Definition multi_types (k : nat) : list etype :=
  match Nat.modulo k 3 with
  | 0%nat => [ECreated; EUpdatedAsync; EDeleted]
  | 1%nat => [EUpdatedAsync; EDeleted; ECreatedAsync]
  | _ => [EDeletedAsync; ECreated; EUpdated]
  end.
Definition multi_style (k : nat) : lstyle := nth (Nat.modulo k 4) filtering_styles LTyped.
Definition std_listeners_of (k : nat) (s : name) : list listener :=
  flat_map (fun y => map (fun t => mkListener y s [t]) all_etypes) filtering_styles ++
  [mkListener LConstraint s []; mkListener LUntypedConstraint s []; mkListener (multi_style k) s (multi_types k)].
Fixpoint std_listeners_from (k : nat) (sch : schema) : list listener :=
  match sch with
  | [] => []
  | d :: r => std_listeners_of k (sd_name d) ++ std_listeners_from (S k) r
  end.
(* two tx-complete listeners: "every listener registered" *)
Definition std_hooks (sch : schema) : hooks := mkHooks (std_listeners_from 0 sch) 2.

(* ---------------------------------------------------------------- the seeded shape, for the refuted example *)
(* DbImpl.Update that calls the tx-complete listeners itself after bbolt's Update returned, guarded by a flag that is
   set as soon as the FUNCTION succeeded (before runPreCommitActions): a transaction failed by a pre-commit action
   still notifies.  Not the code; Examples/C07Quiet.v shows that the silence theorem tells the two apart. *)
Definition ctx_update_q_flag_before_precommit (sch : schema) (fuel : nat) (st : state) (sys : bool) (vetoes : list veto)
    (p : cprog) : qobs :=
  let c0 := opened_ctx p in
  let '(rs, fin, h1) := run_citems sch fuel (mkOctx sys vetoes) c0 (cp_body p) (heap_before p) (st, []) in
  match fin with
  | Ok (st', evs) =>
      if run_pre_ok (pre_actions_of c0 h1)
      then mkQobs rs true st' h1 (registered_handlers h1 evs ++ [BTxComplete])
      else mkQobs rs false st h1 [BTxComplete]
  | Err _ => mkQobs rs false st h1 []
  end.
