(* C04, cascading deletes whose guard is registered on a CHILD store.

   [delete_cascade_exact] (Store/FkDelete.v) assumes that cascading deletes are wired on root stores only
   ([wf_casc_b]).  AddFkConstraint(..., CascadeDelete) / AddFkIndexCascadeDelete towards a child store put the
   cascading guard into the list of that child store; DeleteById of the root store runs it in the loop over its
   child stores, for the child stores through which the entity is loadable.  This file proves the exactness of a
   successful delete without that assumption, in ANY state and for EVERY fuel:

     the entities removed are exactly the nodes reachable from the deleted one, where a node (r, y) reaches
     (root rs, z) when  CFkCascade rs f CascDelete  is in the list of a store that runs for y - the root store r
     or a child store of r through which y is loadable - and z is an entity of rs whose field f is y;
     every other entity survives with its fields and child data.

   With cascades on root stores only this is [reach] of Store/FkDelete.v ([reachc_of_reach] / [reach_of_reachc]). *)
From Coq Require Import List NArith Bool Lia Arith.
From Storage Require Import Base.Bytes Base.BytesFacts Store.Model Store.AListFacts Store.FrameProofs Store.UniqueProofs
  Store.FkProofs Store.FkDelete Store.FkWf.
Import ListNotations.

Section CascadeAny.
  Variable sch : schema.
  Variable oc : octx.
  Hypothesis Hroots : forall x, root_of sch (root_of sch x) = root_of sch x.
  Hypothesis Hrc : forall x, is_child sch (root_of sch x) = false.
  Hypothesis Hchildren : forall r0 d, In d (children_of sch r0) -> root_of sch (sd_name d) = r0.

  (* the stores whose delete hooks run when entity y of root store r is deleted, in state st *)
  Definition runs (st : state) (r : name) (y : id) (s' : name) : Prop :=
    s' = r \/ exists d, In d (children_of sch r) /\ sd_name d = s' /\ loadable sch st s' y = true.

  Inductive reachc (st : state) (a : node) : node -> Prop :=
  | reachc_refl : reachc st a a
  | reachc_step r y s' rs f z : reachc st a (r, y) -> runs st r y s' -> In (CFkCascade rs f CascDelete) (cons_of sch s') ->
      casc_matches sch rs f y st z = true -> reachc st a (root_of sch rs, z).

  Definition Closedc (st st' : state) : Prop :=
    forall r y, removed st st' r y -> forall s' rs f z, runs st r y s' -> In (CFkCascade rs f CascDelete) (cons_of sch s') ->
      casc_matches sch rs f y st z = true -> get_ent st' (root_of sch rs) z = None.

  Definition XStepc (R : node -> Prop) (st st' : state) : Prop :=
    ents_shrink st st' /\ (forall r y, removed st st' r y -> R (r, y)) /\ Closedc st st'.

  (* an entity that is still there is loadable through the same stores *)
  Lemma loadable_keep st st' c x : ents_shrink st st' -> get_ent st' (root_of sch c) x <> None ->
    loadable sch st' c x = loadable sch st c x.
  Proof.
    intros H Hp. specialize (H (root_of sch c) x). unfold loadable, present. rewrite Hroots.
    destruct (get_ent st' (root_of sch c) x) as [e'|]; [|congruence].
    destruct H as [e [-> [_ Hc]]]. rewrite Hc. reflexivity.
  Qed.

  Lemma loadable_mono st st' c x : ents_shrink st st' -> loadable sch st' c x = true -> loadable sch st c x = true.
  Proof.
    intros H Hl. unfold loadable in *. apply orb_prop in Hl as [Hl|Hl].
    - rewrite (present_shrink _ _ _ _ _ H Hl). reflexivity.
    - apply andb_prop in Hl as [He Hp]. rewrite He, (present_shrink _ _ _ _ _ H Hp). apply orb_true_r.
  Qed.

  Lemma runs_mono st st' r y s' : ents_shrink st st' -> runs st' r y s' -> runs st r y s'.
  Proof.
    intros H [E|[d [Hd [Hn Hl]]]]; [left; exact E | right]. exists d. repeat split; try assumption. eapply loadable_mono; eauto.
  Qed.

  Lemma runs_keep st st' r y s' : ents_shrink st st' -> get_ent st' r y <> None -> runs st r y s' -> runs st' r y s'.
  Proof.
    intros H Hp [E|[d [Hd [Hn Hl]]]]; [left; exact E | right]. exists d. repeat split; try assumption.
    rewrite (loadable_keep st st' s' y H); [exact Hl|]. rewrite <- Hn, (Hchildren r d Hd). exact Hp.
  Qed.

  Lemma reachc_mono st st' a n : ents_shrink st st' -> reachc st' a n -> reachc st a n.
  Proof.
    intros H Hr. induction Hr as [|r y s' rs f z Hr IH Hrun Hin Hm]; [apply reachc_refl|].
    eapply reachc_step; [exact IH | eapply runs_mono; eauto | exact Hin | eapply casc_matches_shrink; eauto].
  Qed.

  Lemma reachc_trans st a b c : reachc st a b -> reachc st b c -> reachc st a c.
  Proof.
    intros Hab Hbc. induction Hbc as [|r y s' rs f z Hr IH Hrun Hin Hm]; [exact Hab|].
    eapply reachc_step; [exact IH | exact Hrun | exact Hin | exact Hm].
  Qed.

  Lemma xstepc_refl R st : XStepc R st st.
  Proof. split; [apply ents_shrink_refl|]. split; intros r y [H1 H2]; congruence. Qed.

  Lemma xstepc_fc R st st' : ents_fc_eq st st' -> XStepc R st st'.
  Proof.
    intros H. assert (forall r y, removed st st' r y -> False) as Hno.
    { intros r y [H1 H2]. specialize (H r y). rewrite H2 in H. unfold ent_fc_eq in H.
      destruct (get_ent st r y); [contradiction | congruence]. }
    split; [apply ents_fc_eq_shrink; exact H|]. split; intros r y Hr; exfalso; eapply Hno; eauto.
  Qed.

  Lemma xstepc_weaken (R R' : node -> Prop) st st' : (forall n, R' n -> R n) -> XStepc R' st st' -> XStepc R st st'.
  Proof. intros Hsub [H1 [H2 H3]]. split; [exact H1|]. split; [intros r y Hr; apply Hsub, H2, Hr | exact H3]. Qed.

  Lemma xstepc_trans R a b c : XStepc R a b -> XStepc R b c -> XStepc R a c.
  Proof.
    intros [A1 [A2 A3]] [B1 [B2 B3]]. split; [eapply ents_shrink_trans; eauto|]. split.
    - intros r y [H1 H2]. destruct (get_ent b r y) eqn:Eb.
      + apply B2. split; [congruence | exact H2].
      + apply A2. split; assumption.
    - intros r y [H1 H2] s' rs f z Hrun Hin Hm. destruct (get_ent b r y) eqn:Eb.
      + destruct (get_ent b (root_of sch rs) z) eqn:Ez.
        * eapply (B3 r y); [split; [congruence | exact H2] | eapply runs_keep; [exact A1 | congruence | exact Hrun] | exact Hin|].
          eapply casc_matches_keep; [exact A1 | congruence | exact Hm].
        * eapply shrink_none; eauto.
      + eapply shrink_none; [exact B1|]. eapply (A3 r y); [split; assumption | exact Hrun | exact Hin | exact Hm].
  Qed.

  (* specification of the recursive DeleteById *)
  Definition XDelSpecc (del : st_ev -> name -> id -> res st_ev) : Prop :=
    forall stev s0 x stev', del stev s0 x = Ok stev' ->
      XStepc (reachc (fst stev) (root_of sch s0, x)) (fst stev) (fst stev') /\
      get_ent (fst stev') (root_of sch s0) x = None.

  Lemma xloopc st0 a r y s' rs f del : XDelSpecc del -> reachc st0 a (r, y) -> runs st0 r y s' ->
    In (CFkCascade rs f CascDelete) (cons_of sch s') ->
    forall cands cur cur', ents_shrink st0 (fst cur) -> cascade_loop sch del rs f y cands cur = Ok cur' ->
    XStepc (reachc st0 a) (fst cur) (fst cur') /\ (forall z, In z cands -> casc_matches sch rs f y (fst cur') z = false).
  Proof.
    intros Hdel Hreach Hrun Hin. induction cands as [|c0 cands IH]; intros cur cur' Hs H; cbn [cascade_loop] in H.
    - inversion H; subst. split; [apply xstepc_refl | intros z []].
    - destruct (casc_matches sch rs f y (fst cur) c0) eqn:Em.
      + destruct (del cur rs c0) as [cur1|e] eqn:Ed; cbn [bind] in H; [|discriminate].
        destruct (Hdel cur rs c0 cur1 Ed) as [Hx Hgone].
        assert (XStepc (reachc st0 a) (fst cur) (fst cur1)) as Hx1.
        { eapply xstepc_weaken; [|exact Hx]. intros n Hn. eapply reachc_trans; [|eapply reachc_mono; [exact Hs | exact Hn]].
          eapply reachc_step; [exact Hreach | exact Hrun | exact Hin | eapply casc_matches_shrink; eauto]. }
        assert (ents_shrink st0 (fst cur1)) as Hs1 by (eapply ents_shrink_trans; [exact Hs | apply Hx1]).
        destruct (IH cur1 cur' Hs1 H) as [Hx2 Hpost]. split; [eapply xstepc_trans; eauto|].
        intros z [<-|Hz]; [|apply Hpost; exact Hz]. apply casc_matches_absent. eapply shrink_none; [apply Hx2 | exact Hgone].
      + destruct (IH cur cur' Hs H) as [Hx2 Hpost]. split; [exact Hx2|].
        intros z [<-|Hz]; [|apply Hpost; exact Hz].
        destruct (casc_matches sch rs f y (fst cur') c0) eqn:Em'; [|reflexivity].
        rewrite (casc_matches_shrink _ _ _ _ _ _ _ (proj1 Hx2) Em') in Em. discriminate.
  Qed.

  Lemma xbdc_one st0 a r0 x s' del st evs c k st' evs' :
    XDelSpecc del -> reachc st0 a (r0, x) -> runs st0 r0 x s' -> ents_shrink st0 st -> ic_id c = x ->
    In k (cons_of sch s') ->
    before_delete_one sch oc del (st, evs) c k = Ok (st', evs') ->
    XStepc (reachc st0 a) st st' /\ Done sch [k] x st'.
  Proof.
    intros Hdel Hreach Hrun Hs Hx Hk H. destruct (is_cascdel k) eqn:Ek.
    - destruct k as [| | | | |rs f cs|]; try discriminate. destruct cs; [discriminate|]. cbn [before_delete_one] in H.
      rewrite Hx in H.
      destruct (xloopc st0 a r0 x s' rs f del Hdel Hreach Hrun Hk _ (st, evs) (st', evs') Hs H) as [A B]. cbn [fst] in *.
      split; [exact A|]. intros rs' f' [E|[]] z. inversion E; subst rs' f'.
      destruct (get_ent st (root_of sch rs) z) eqn:Ez.
      + apply B. apply in_ids. congruence.
      + apply casc_matches_absent. eapply shrink_none; [apply A | exact Ez].
    - split; [apply xstepc_fc; eapply bd_one_fc; eauto|]. intros rs f [E|[]]. subst k. discriminate.
  Qed.

  Lemma xbdc_all st0 a r0 x s' del c : XDelSpecc del -> reachc st0 a (r0, x) -> runs st0 r0 x s' -> ic_id c = x ->
    forall ks st evs st' evs',
    incl ks (cons_of sch s') -> ents_shrink st0 st ->
    before_delete_all sch oc del (st, evs) c ks = Ok (st', evs') ->
    XStepc (reachc st0 a) st st' /\ Done sch ks x st'.
  Proof.
    intros Hdel Hreach Hrun Hx. induction ks as [|k ks IH]; intros st evs st' evs' Hks Hs H; cbn [before_delete_all] in H.
    - inversion H; subst. split; [apply xstepc_refl | intros rs f []].
    - destruct (before_delete_one sch oc del (st, evs) c k) as [[st1 evs1]|e] eqn:E1; cbn [bind] in H; [|discriminate].
      destruct (xbdc_one st0 a r0 x s' del st evs c k st1 evs1 Hdel Hreach Hrun Hs Hx (Hks k (or_introl eq_refl)) E1) as [A1 D1].
      assert (ents_shrink st0 st1) as Hs1 by (eapply ents_shrink_trans; [exact Hs | apply A1]).
      destruct (IH st1 evs1 st' evs' (fun k0 Hk0 => Hks k0 (or_intror Hk0)) Hs1 H) as [A2 D2].
      split; [eapply xstepc_trans; eauto|]. intros rs f [E|Hin] z.
      + eapply Done_shrink; [apply A2 | exact D1 | left; exact E].
      + apply (D2 rs f Hin z).
  Qed.

  Lemma xbdc_chain st0 a r0 x del : XDelSpecc del -> reachc st0 a (r0, x) -> forall ch st evs st' evs',
    (forall s' ks, In (s', ks) ch -> ks = cons_of sch s' /\ runs st0 r0 x s') -> ents_shrink st0 st ->
    before_delete_chain sch oc del x ch (st, evs) = Ok (st', evs') ->
    XStepc (reachc st0 a) st st' /\ (forall s' ks, In (s', ks) ch -> Done sch ks x st').
  Proof.
    intros Hdel Hreach. induction ch as [|[s' ks] ch IH]; intros st evs st' evs' Hch Hs H; cbn [before_delete_chain] in H.
    - inversion H; subst. split; [apply xstepc_refl | intros s' ks []].
    - destruct (before_delete_all sch oc del (st, evs) _ ks) as [[st1 evs1]|e] eqn:E1; cbn [bind] in H; [|discriminate].
      destruct (Hch s' ks (or_introl eq_refl)) as [-> Hrun].
      destruct (xbdc_all st0 a r0 x s' del (mkIctx false (oc_sys oc) s' x) Hdel Hreach Hrun eq_refl _ st evs st1 evs1 (incl_refl _) Hs E1) as [A1 D1].
      assert (ents_shrink st0 st1) as Hs1 by (eapply ents_shrink_trans; [exact Hs | apply A1]).
      destruct (IH st1 evs1 st' evs' (fun s2 ks2 Hin => Hch s2 ks2 (or_intror Hin)) Hs1 H) as [A2 D2].
      split; [eapply xstepc_trans; eauto|]. intros s2 ks2 [E|Hin].
      + inversion E; subst. eapply Done_shrink; [apply A2 | exact D1].
      + apply (D2 s2 ks2 Hin).
  Qed.

  Lemma chain_shapec s1 s' ks : In (s', ks) (chain sch s1) -> ks = cons_of sch s' /\ (s' = root_of sch s1 \/ s' = s1).
  Proof.
    unfold chain. destruct (is_child sch s1) eqn:Ec; cbn; intros H.
    - destruct H as [H|[H|[]]]; inversion H; subst; split; auto.
    - destruct H as [H|[]]. inversion H; subst. split; [reflexivity|]. right. reflexivity.
  Qed.

  (* processDeleteConstraints of a store s1 that runs for x: every list of its chain is done afterwards *)
  Lemma xprocess_deletec st0 a x del s1 st evs st' evs' :
    XDelSpecc del -> reachc st0 a (root_of sch s1, x) -> runs st0 (root_of sch s1) x s1 -> ents_shrink st0 st ->
    process_delete sch oc del (st, evs) s1 x = Ok (st', evs') ->
    XStepc (reachc st0 a) st st' /\ Done sch (cons_of sch (root_of sch s1)) x st' /\ Done sch (cons_of sch s1) x st'.
  Proof.
    intros Hdel Hreach Hrun Hs H. unfold process_delete in H.
    destruct (before_delete_chain sch oc del x (chain sch s1) (st, evs)) as [[st1 evs1]|e] eqn:E1; cbn [bind] in H; [|discriminate].
    inversion H; subst st' evs'. clear H. cbn [fst].
    assert (Hch : forall s' ks, In (s', ks) (chain sch s1) -> ks = cons_of sch s' /\ runs st0 (root_of sch s1) x s').
    { intros s' ks Hin. destruct (chain_shapec s1 s' ks Hin) as [-> [->| ->]]; split; auto. left. reflexivity. }
    destruct (xbdc_chain st0 a (root_of sch s1) x del Hdel Hreach _ st evs st1 evs1 Hch Hs E1) as [A D].
    pose proof (cleanup_links_fc sch st1 s1 x) as Hfc.
    split; [eapply xstepc_trans; [exact A | apply xstepc_fc; exact Hfc]|].
    assert (In (root_of sch s1, cons_of sch (root_of sch s1)) (chain sch s1)) as Hin_r.
    { unfold chain. destruct (is_child sch s1) eqn:Ec; [left; reflexivity|]. rewrite (root_of_root _ _ Ec). left. reflexivity. }
    assert (In (s1, cons_of sch s1) (chain sch s1)) as Hin_s.
    { unfold chain. destruct (is_child sch s1); [right; left; reflexivity | left; reflexivity]. }
    split; (eapply Done_shrink; [apply ents_fc_eq_shrink; exact Hfc|]); [apply (D _ _ Hin_r) | apply (D _ _ Hin_s)].
  Qed.

  (* the loop over the child stores: if the entity is still there afterwards, every child store it was loadable
     through has been processed *)
  Lemma xchildren_deletec st0 a x del r0 : XDelSpecc del -> reachc st0 a (r0, x) -> root_of sch r0 = r0 ->
    forall cs cur flows cur' flows',
    incl cs (children_of sch r0) -> ents_shrink st0 (fst cur) ->
    (forall d, In d cs -> loadable sch (fst cur) (sd_name d) x = true -> loadable sch st0 (sd_name d) x = true) ->
    children_delete sch oc del x cs cur flows = Ok (cur', flows') ->
    XStepc (reachc st0 a) (fst cur) (fst cur') /\
    (get_ent (fst cur') r0 x <> None ->
     forall d, In d cs -> loadable sch (fst cur) (sd_name d) x = true -> Done sch (cons_of sch (sd_name d)) x (fst cur')).
  Proof.
    intros Hdel Hreach Hrr. induction cs as [|d cs IH]; intros cur flows cur' flows' Hcs Hs Hl0 H; cbn [children_delete] in H.
    - inversion H; subst. split; [apply xstepc_refl | intros _ d []].
    - assert (incl cs (children_of sch r0)) as Hcs' by (intros y Hy; apply Hcs; right; exact Hy).
      assert (Hrd : forall d0, In d0 (d :: cs) -> root_of sch (sd_name d0) = r0) by (intros d0 Hd0; apply Hchildren, Hcs, Hd0).
      destruct cur as [st evs]. cbn [fst] in *.
      destruct (loadable sch st (sd_name d) x) eqn:El.
      + destruct (process_delete sch oc del (st, evs) (sd_name d) x) as [[st1 evs1]|e] eqn:E1; cbn [bind] in H; [|discriminate].
        assert (reachc st0 a (root_of sch (sd_name d), x)) as Hreach' by (rewrite (Hrd d (or_introl eq_refl)); exact Hreach).
        assert (runs st0 (root_of sch (sd_name d)) x (sd_name d)) as Hrun.
        { rewrite (Hrd d (or_introl eq_refl)). right. exists d. split; [apply Hcs; left; reflexivity|]. split; [reflexivity|].
          apply Hl0; [left; reflexivity | exact El]. }
        destruct (xprocess_deletec st0 a x del _ st evs st1 evs1 Hdel Hreach' Hrun Hs E1) as [A [_ Dd]].
        assert (ents_shrink st0 st1) as Hs1 by (eapply ents_shrink_trans; [exact Hs | apply A]).
        assert (Hl1 : forall d0, In d0 cs -> loadable sch st1 (sd_name d0) x = true -> loadable sch st0 (sd_name d0) x = true)
          by (intros d0 Hd0 Hl; eapply loadable_mono; [exact Hs1 | exact Hl]).
        destruct (IH (st1, evs1) _ cur' flows' Hcs' Hs1 Hl1 H) as [A2 D2]. cbn [fst] in *.
        split; [eapply xstepc_trans; eauto|]. intros Hp d0 [<-|Hd0] Hld.
        * eapply Done_shrink; [apply A2 | exact Dd].
        * apply D2; [exact Hp | exact Hd0|].
          rewrite (loadable_keep st st1 (sd_name d0) x (proj1 A)); [exact Hld|].
          rewrite (Hrd d0 (or_intror Hd0)). intros Hn. apply Hp. eapply shrink_none; [apply A2 | exact Hn].
      + assert (Hl1 : forall d0, In d0 cs -> loadable sch st (sd_name d0) x = true -> loadable sch st0 (sd_name d0) x = true)
          by (intros d0 Hd0 Hl; apply Hl0; [right; exact Hd0 | exact Hl]).
        destruct (IH (st, evs) _ cur' flows' Hcs' Hs Hl1 H) as [A2 D2]. cbn [fst] in *.
        split; [exact A2|]. intros Hp d0 [<-|Hd0] Hld; [congruence|]. apply D2; assumption.
  Qed.

  Lemma xdelete_specc : forall n, XDelSpecc (delete_by_id sch oc n).
  Proof.
    induction n as [|n IH]; intros stev s0 x stev' H; cbn [delete_by_id] in H; [discriminate|].
    destruct stev as [st evs]. cbn [fst] in *.
    set (r0 := root_of sch s0) in *.
    assert (root_of sch r0 = r0) as Hrr by (apply Hroots).
    destruct (present sch st r0 x) eqn:Epx; cbn [negb] in H; [|discriminate].
    destruct (children_delete sch oc (delete_by_id sch oc n) x (children_of sch r0) (st, evs) []) as [[[st1 evs1] flows]|e] eqn:Ech;
      cbn [bind] in H; [|discriminate].
    destruct (xchildren_deletec st (r0, x) x _ r0 IH (reachc_refl st (r0, x)) Hrr _ (st, evs) [] (st1, evs1) flows
                (incl_refl _) (ents_shrink_refl st) (fun _ _ Hl => Hl) Ech) as [A1 DC]. cbn [fst] in *.
    destruct (present sch st1 r0 x) eqn:Epx1; cbn [negb] in H.
    - destruct (process_delete sch oc (delete_by_id sch oc n) (st1, evs1) r0 x) as [[st2 evs2]|e] eqn:Epd; cbn [bind] in H; [|discriminate].
      assert (reachc st (r0, x) (root_of sch r0, x)) as Hreach by (rewrite Hrr; apply reachc_refl).
      assert (runs st (root_of sch r0) x r0) as Hrun0 by (left; symmetry; exact Hrr).
      destruct (xprocess_deletec st (r0, x) x _ r0 st1 evs1 st2 evs2 IH Hreach Hrun0 (proj1 A1) Epd) as [A2 [D2 _]]. rewrite Hrr in D2.
      cbn [fst snd] in H.
      destruct (fire (oc_vetoes oc) evs2 r0 Deleted x _) as [evs3|e]; cbn [bind] in H; [|discriminate].
      destruct (fire_flows oc x flows evs3) as [evs4|e]; cbn [bind] in H; [|discriminate].
      inversion H; subst stev'. clear H. cbn [fst].
      pose proof (xstepc_trans _ _ _ _ A1 A2) as A12. destruct A12 as [S12 [R12 C12]].
      assert (get_ent (del_ent st2 r0 x) r0 x = None) as Hgone by (rewrite get_ent_del_ent, !str_eqb_refl; reflexivity).
      assert (get_ent st1 r0 x <> None) as Hp1.
      { rewrite (present_root _ _ _ _ (Hrc s0)) in Epx1. fold r0 in Epx1. destruct (get_ent st1 r0 x); [congruence | discriminate]. }
      (* every list that runs for x is done in st2 *)
      assert (DAll : forall s', runs st r0 x s' -> Done sch (cons_of sch s') x st2).
      { intros s' [->|[d [Hd [<- Hl]]]]; [exact D2|]. eapply Done_shrink; [apply A2|]. apply (DC Hp1 d Hd Hl). }
      split; [|exact Hgone]. split; [eapply ents_shrink_trans; [exact S12 | apply del_ent_shrink]|]. split.
      + intros r y [H1 H2]. rewrite get_ent_del_ent in H2. destruct (str_eqb r0 r && str_eqb x y) eqn:E.
        * apply andb_prop in E as [E1 E2]. apply str_eqb_eq in E1, E2. subst. apply reachc_refl.
        * apply R12. split; assumption.
      + intros r y [H1 H2] s' rs f z Hrun Hin Hm. rewrite get_ent_del_ent in H2. rewrite get_ent_del_ent.
        destruct (str_eqb r0 (root_of sch rs) && str_eqb x z); [reflexivity|].
        destruct (str_eqb r0 r && str_eqb x y) eqn:E.
        * apply andb_prop in E as [E1 E2]. apply str_eqb_eq in E1, E2. subst r y.
          destruct (get_ent st2 (root_of sch rs) z) eqn:Ez; [|reflexivity]. exfalso.
          assert (casc_matches sch rs f x st2 z = true) as Hm2 by (eapply casc_matches_keep; [exact S12 | congruence | exact Hm]).
          rewrite (DAll s' Hrun rs f Hin z) in Hm2. discriminate.
        * eapply (C12 r y); [split; assumption | exact Hrun | exact Hin | exact Hm].
    - inversion H; subst stev'. clear H. cbn [fst]. split; [exact A1|].
      rewrite (present_root _ _ _ _ (Hrc s0)) in Epx1. fold r0 in Epx1. destruct (get_ent st1 r0 x); [discriminate | reflexivity].
  Qed.

  (* a successful delete removes exactly the transitive cascade referrers and keeps everything else *)
  Lemma delete_cascade_exact_any_lemma fuel st evs s0 x st' evs' :
    delete_by_id sch oc fuel (st, evs) s0 x = Ok (st', evs') ->
    ents_shrink st st' /\
    forall r y, (get_ent st r y <> None /\ get_ent st' r y = None) <-> reachc st (root_of sch s0, x) (r, y).
  Proof.
    intros H. destruct (xdelete_specc fuel (st, evs) s0 x (st', evs') H) as [[S [R C]] Hgone]. cbn [fst] in *.
    split; [exact S|]. intros r y. split; [apply R|].
    assert (get_ent st (root_of sch s0) x <> None) as Hpx.
    { destruct fuel; cbn [delete_by_id] in H; [discriminate|]. cbn [fst] in H.
      destruct (present sch st (root_of sch s0) x) eqn:Ep; [|discriminate].
      rewrite (present_root _ _ _ _ (Hrc s0)) in Ep. destruct (get_ent st (root_of sch s0) x); [congruence | discriminate]. }
    intros Hr. remember (r, y) as n eqn:En. revert r y En.
    induction Hr as [|r1 y1 s' rs f z Hr IH Hrun Hin Hm]; intros r y En; inversion En; subst.
    - split; assumption.
    - split; [eapply casc_matches_present; eauto|]. eapply (C r1 y1); [apply IH; reflexivity | exact Hrun | exact Hin | exact Hm].
  Qed.

  (* with cascading deletes on root stores only, this is the reachability of Store/FkDelete.v *)
  Lemma reachc_of_reach st a n : reach sch st a n -> reachc st a n.
  Proof.
    intros H. induction H as [|r y rs f z Hr IH Hin Hm]; [apply reachc_refl|].
    eapply reachc_step; [exact IH | left; reflexivity | exact Hin | exact Hm].
  Qed.

  Lemma reach_of_reachc st a n :
    (forall s' k, is_child sch s' = true -> In k (cons_of sch s') -> is_cascdel k = false) ->
    (forall r d, In d (children_of sch r) -> is_child sch (sd_name d) = true) ->
    reachc st a n -> reach sch st a n.
  Proof.
    intros Hcr Hch H. induction H as [|r y s' rs f z Hr IH Hrun Hin Hm]; [apply reach_refl|].
    destruct Hrun as [->|[d [Hd [<- _]]]]; [eapply reach_step; eauto|].
    pose proof (Hcr _ _ (Hch r d Hd) Hin) as Hk. discriminate.
  Qed.
End CascadeAny.

(* ---- under the boolean check of the store structure (unique store names, parents are root stores) ---- *)
Lemma delete_cascade_exact_any_wf : forall sch oc fuel st evs s0 x st' evs',
  wf_stores_b sch = true ->
  delete_by_id sch oc fuel (st, evs) s0 x = Ok (st', evs') ->
  ents_shrink st st' /\
  forall r y, (get_ent st r y <> None /\ get_ent st' r y = None) <-> reachc sch st (root_of sch s0, x) (r, y).
Proof.
  intros sch oc fuel st evs s0 x st' evs' Hwf H.
  destruct (wf_stores_b_sound sch Hwf) as [H1 [H2 H3]].
  exact (delete_cascade_exact_any_lemma sch oc H1 H2 H3 fuel st evs s0 x st' evs' H).
Qed.

(* the two notions of reachability coincide where Store/FkDelete.v applies *)
Lemma reachc_iff_reach_wf : forall sch st a n,
  wf_casc_b sch = true -> (reachc sch st a n <-> reach sch st a n).
Proof.
  intros sch st a n Hwf. destruct (wf_casc_b_sound sch Hwf) as [Hst Hcr]. split; [|apply reachc_of_reach].
  apply reach_of_reachc; [exact Hcr|].
  intros r d Hd. unfold wf_stores_b in Hst. apply andb_prop in Hst as [Hn _].
  unfold children_of in Hd. apply filter_In in Hd as [Hin Hp]. unfold is_child. rewrite (WfSchema.find_store_nodup _ _ Hn Hin).
  destruct (sd_parent d); [reflexivity | discriminate].
Qed.
