(* C03, unique indexes: the index of a root store's unique constraint mirrors the entities in
   every reachable state.  Fixed: a schema, a root store [s] and an indexed field [f]. *)
From Coq Require Import List NArith Bool Lia.
From Storage Require Import Base.Bytes Base.BytesFacts Store.Model Store.AListFacts Store.FrameProofs.
Import ListNotations.

Section Unique.
  Variable sch : schema.
  Variable s f : name.

  Definition fbytes (st : state) (i : id) : str := fv_bytes (get_field sch st s i f).
  Definition pres (st : state) (i : id) : bool := present sch st s i.
  Definition ix (st : state) : alist id := uidx st s f.

  (* no stale entries *)
  Definition USound (st : state) : Prop :=
    forall v i, al_get v (ix st) = Some i -> nonempty v = true /\ pres st i = true /\ fbytes st i = v.
  (* every holder of a non-empty value is indexed (except entities in [G], which are being deleted) *)
  Definition UComplete (G : id -> Prop) (st : state) : Prop :=
    forall i, pres st i = true -> ~ G i -> nonempty (fbytes st i) = true -> al_get (fbytes st i) (ix st) = Some i.
  Definition UInv (st : state) : Prop := USound st /\ UComplete (fun _ => False) st.

  (* the view of the state the invariant depends on *)
  Definition same_view (st st' : state) : Prop :=
    ix st' = ix st /\ (forall i, pres st' i = pres st i) /\ (forall i, fbytes st' i = fbytes st i).

  Lemma same_view_refl st : same_view st st.
  Proof. repeat split. Qed.

  Lemma same_view_trans a b c : same_view a b -> same_view b c -> same_view a c.
  Proof. intros [A1 [A2 A3]] [B1 [B2 B3]]. repeat split; intros; congruence. Qed.

  Lemma fc_eq_view st st' : ents_fc_eq st st' -> ix st' = ix st -> same_view st st'.
  Proof.
    intros H Hi. split; [exact Hi|]. split; intros i.
    - apply present_fc. apply H.
    - unfold fbytes. f_equal. apply get_field_fc. apply H.
  Qed.

  Lemma USound_view st st' : same_view st st' -> USound st -> USound st'.
  Proof.
    intros [Hi [Hp Hf]] H v i Hg. rewrite Hi in Hg. rewrite Hp, Hf. apply H. exact Hg.
  Qed.

  Lemma UComplete_view G st st' : same_view st st' -> UComplete G st -> UComplete G st'.
  Proof.
    intros [Hi [Hp Hf]] H i Hpi HG Hne. rewrite Hi, Hf in *. rewrite Hp in Hpi. apply H; assumption.
  Qed.

  Lemma UInv_view st st' : same_view st st' -> UInv st -> UInv st'.
  Proof. intros Hv [H1 H2]. split; [eapply USound_view | eapply UComplete_view]; eauto. Qed.

  (* ---- well-formedness of the schema around (s, f) ---- *)
  Hypothesis Hroot : is_child sch s = false.
  Hypothesis Hroots : forall x, root_of sch (root_of sch x) = root_of sch x.
  (* the only constraint writing the index (s, f) is one unique constraint of store s *)
  Hypothesis Hown : forall s' nl, root_of sch s' = s -> In (CUnique f nl) (cons_of sch s') -> s' = s.

  Lemma root_s : root_of sch s = s.
  Proof.
    unfold is_child in Hroot. unfold root_of. destruct (find_store sch s) as [d|]; [|reflexivity].
    destruct (sd_parent d); [discriminate | reflexivity].
  Qed.

  (* a hook that is not the unique constraint of (s,f) leaves the view unchanged *)
  Lemma after_one_view st c k sv st' :
    after_update_one sch st c k sv = Ok st' ->
    ~ (root_of sch (ic_store c) = s /\ exists nl, k = CUnique f nl) ->
    same_view st st'.
  Proof.
    intros H Hn. apply after_update_one_frame in H as [Hfc Hu].
    apply fc_eq_view; [exact Hfc|]. unfold ix. destruct (Hu s f) as [E|[nl [E1 E2]]]; [exact E|].
    exfalso. apply Hn. split; [exact E2 | exists nl; exact E1].
  Qed.

  Definition not_ours (store : name) (k : cons) : Prop :=
    ~ (root_of sch store = s /\ exists nl, k = CUnique f nl).

  Lemma after_all_view c : forall ks svs st st',
    Forall (not_ours (ic_store c)) ks ->
    after_update_all sch st c ks svs = Ok st' -> same_view st st'.
  Proof.
    induction ks as [|k ks IH]; intros svs st st' Hall H; cbn [after_update_all] in H.
    - inversion H; subst. apply same_view_refl.
    - inversion Hall as [|? ? Hk Hks]; subst.
      destruct (after_update_one sch st c k _) as [st1|e] eqn:E1; cbn [bind] in H; [|discriminate].
      eapply same_view_trans; [eapply after_one_view; eauto | eapply IH; eauto].
  Qed.

  (* ---- the state between persisting entity i and the unique hook ---- *)
  Definition MidInv (old : str) (i : id) (st : state) : Prop :=
    pres st i = true /\
    (forall v j, al_get v (ix st) = Some j ->
                 nonempty v = true /\ pres st j = true /\ (j <> i -> fbytes st j = v) /\ (j = i -> v = old)) /\
    (forall j, j <> i -> pres st j = true -> nonempty (fbytes st j) = true -> al_get (fbytes st j) (ix st) = Some j) /\
    (nonempty old = true -> al_get old (ix st) = Some i).

  Lemma MidInv_view old i st st' : same_view st st' -> MidInv old i st -> MidInv old i st'.
  Proof.
    intros [Hi [Hp Hf]] [M1 [M2 [M3 M4]]]. unfold MidInv. rewrite Hi, Hp.
    split; [exact M1|]. split; [|split].
    - intros v j Hg. rewrite Hp, Hf. apply M2. exact Hg.
    - intros j Hj Hpj Hne. rewrite Hf in *. rewrite Hp in Hpj. apply M3; assumption.
    - exact M4.
  Qed.

  Lemma nonempty_false v : nonempty v = false -> v = [].
  Proof. destruct v; [reflexivity | discriminate]. Qed.

  (* the unique hook re-establishes the invariant *)
  Lemma unique_hook_restores old i st c nl sv st' :
    MidInv old i st -> ic_store c = s -> ic_id c = i -> sv_atom sv = old ->
    (ic_create c = true -> old = []) ->
    after_update_one sch st c (CUnique f nl) sv = Ok st' -> UInv st'.
  Proof.
    intros [M1 [M2 [M3 M4]]] Hs Hi Hsv Hcr H. cbn [after_update_one] in H.
    rewrite Hs, Hi, Hsv, root_s in H. fold (fbytes st i) in H. fold (ix st) in H.
    set (new := fbytes st i) in *.
    destruct (negb (ic_create c) && str_eqb old new) eqn:Eshort.
    - (* unchanged value *)
      inversion H; subst st'. apply andb_prop in Eshort as [_ Eq]. apply str_eqb_eq in Eq.
      split.
      + intros v j Hg. destruct (M2 v j Hg) as [A [B [C D]]]. split; [exact A|]. split; [exact B|].
        destruct (str_eq_dec j i) as [->|Hne]; [rewrite (D eq_refl); symmetry; exact Eq | apply C; exact Hne].
      + intros j Hp _ Hne. destruct (str_eq_dec j i) as [->|Hji]; [|apply M3; assumption].
        fold new. rewrite <- Eq. apply M4. rewrite Eq. exact Hne.
    - set (m := ix st) in *.
      set (m1 := if nonempty old then al_del old m else m) in *.
      assert (Hm1 : forall v j, al_get v m1 = Some j -> al_get v m = Some j /\ j <> i).
      { intros v j Hg. subst m1. destruct (nonempty old) eqn:Eo.
        - rewrite al_get_del in Hg. destruct (str_eqb old v) eqn:Ev; [discriminate|].
          split; [exact Hg|]. intros ->. destruct (M2 v i Hg) as [_ [_ [_ D]]]. apply str_eqb_neq in Ev. apply Ev. symmetry. apply D. reflexivity.
        - split; [exact Hg|]. intros ->. destruct (M2 v i Hg) as [A [_ [_ D]]].
          rewrite (D eq_refl) in A. congruence. }
      assert (Hm1c : forall j, j <> i -> pres st j = true -> nonempty (fbytes st j) = true -> al_get (fbytes st j) m1 = Some j).
      { intros j Hji Hp Hne. specialize (M3 j Hji Hp Hne). subst m1. destruct (nonempty old) eqn:Eo; [|exact M3].
        rewrite al_get_del. destruct (str_eqb old (fbytes st j)) eqn:Ev; [|exact M3].
        apply str_eqb_eq in Ev. rewrite <- Ev in M3. rewrite (M4 eq_refl) in M3. congruence. }
      destruct (nonempty new) eqn:Enew.
      + destruct (al_get new m1) eqn:Eg; [discriminate|]. destruct (key_ok new); [|discriminate].
        inversion H; subst st'. clear H. split.
        * intros v j Hg. unfold ix, pres, fbytes in *. rewrite uidx_set_uidx in Hg.
          rewrite present_set_uidx, get_field_set_uidx. rewrite al_get_put in Hg.
          destruct (str_eqb new v) eqn:Ev.
          -- apply str_eqb_eq in Ev. subst v. inversion Hg; subst j. repeat split; assumption.
          -- destruct (Hm1 v j Hg) as [Hg' Hji]. destruct (M2 v j Hg') as [A [B [C _]]].
             repeat split; [exact A | exact B | apply C; exact Hji].
        * intros j Hp _ Hne. unfold ix, pres, fbytes in *. rewrite uidx_set_uidx.
          rewrite present_set_uidx in Hp. rewrite get_field_set_uidx in *. rewrite al_get_put.
          destruct (str_eq_dec j i) as [->|Hji].
          -- fold new. rewrite str_eqb_refl. reflexivity.
          -- specialize (Hm1c j Hji Hp Hne).
             destruct (str_eqb new (fv_bytes (get_field sch st s j f))) eqn:Ev; [|exact Hm1c].
             apply str_eqb_eq in Ev. rewrite <- Ev in Hm1c. congruence.
      + destruct nl; [|discriminate]. inversion H; subst st'. clear H. split.
        * intros v j Hg. unfold ix, pres, fbytes in *. rewrite uidx_set_uidx in Hg.
          rewrite present_set_uidx, get_field_set_uidx.
          destruct (Hm1 v j Hg) as [Hg' Hji]. destruct (M2 v j Hg') as [A [B [C _]]].
          repeat split; [exact A | exact B | apply C; exact Hji].
        * intros j Hp _ Hne. unfold ix, pres, fbytes in *. rewrite uidx_set_uidx.
          rewrite present_set_uidx in Hp. rewrite get_field_set_uidx in *.
          destruct (str_eq_dec j i) as [->|Hji]; [fold new in Hne; congruence|].
          apply Hm1c; assumption.
  Qed.

  (* ---- running the whole constraint list ---- *)
  Definition is_ours (k : cons) : Prop := exists nl, k = CUnique f nl.

  (* the unique constraint occurs exactly once in the constraint list of s *)
  Hypothesis Honce : exists nl pre post,
    cons_of sch s = pre ++ CUnique f nl :: post /\ Forall (fun k => ~ is_ours k) pre /\ Forall (fun k => ~ is_ours k) post.

  Lemma not_ours_of_not_is_ours store ks : Forall (fun k => ~ is_ours k) ks -> Forall (not_ours store) ks.
  Proof.
    intros H. eapply Forall_impl; [|exact H]. intros k Hk [_ Ho]. apply Hk. exact Ho.
  Qed.

  Lemma after_all_pre c old i : forall pre rest svs st st',
    Forall (not_ours (ic_store c)) pre -> MidInv old i st ->
    after_update_all sch st c (pre ++ rest) svs = Ok st' ->
    exists st1, MidInv old i st1 /\ after_update_all sch st1 c rest (skipn (length pre) svs) = Ok st'.
  Proof.
    induction pre as [|k pre IH]; intros rest svs st st' Hall HM H.
    - exists st. split; [exact HM | exact H].
    - inversion Hall as [|? ? Hk Hks]; subst. cbn [app after_update_all] in H.
      destruct (after_update_one sch st c k _) as [st1|e] eqn:E1; cbn [bind] in H; [|discriminate].
      assert (MidInv old i st1) as HM1 by (eapply MidInv_view; [eapply after_one_view; eauto | exact HM]).
      destruct (IH rest _ st1 st' Hks HM1 H) as [st2 [HM2 H2]]. exists st2. split; [exact HM2|].
      destruct svs as [|x svs]; cbn [length skipn]; [destruct (length pre); exact H2 | exact H2].
  Qed.

  Lemma skipn_nil_any {A} n : skipn n (@nil A) = [].
  Proof. destruct n; reflexivity. Qed.

  Lemma before_all_at c st0 : forall pre k post svs,
    before_update_all sch st0 c (pre ++ k :: post) = Ok svs ->
    exists sv rest, before_update_one sch st0 c k = Ok sv /\ skipn (length pre) svs = sv :: rest.
  Proof.
    induction pre as [|p pre IH]; intros k post svs H; cbn [app before_update_all] in H.
    - destruct (before_update_one sch st0 c k) as [sv|e]; cbn [bind] in H; [|discriminate].
      destruct (before_update_all sch st0 c post) as [rest|e]; cbn [bind] in H; [|discriminate].
      inversion H; subst. exists sv, rest. split; reflexivity.
    - destruct (before_update_one sch st0 c p) as [svp|e]; cbn [bind] in H; [|discriminate].
      destruct (before_update_all sch st0 c (pre ++ k :: post)) as [svs'|e] eqn:E; cbn [bind] in H; [|discriminate].
      inversion H; subst. destruct (IH k post svs' E) as [sv [rest [H1 H2]]]. exists sv, rest. split; [exact H1 | exact H2].
  Qed.

  (* the constraint list of s, run after entity i was persisted, re-establishes the invariant *)
  Lemma after_all_restores c old i svs st st' :
    ic_store c = s -> ic_id c = i -> (ic_create c = true -> old = []) ->
    MidInv old i st ->
    (forall pre k post, cons_of sch s = pre ++ k :: post -> is_ours k ->
        sv_atom (hd SvNone (skipn (length pre) svs)) = old) ->
    after_update_all sch st c (cons_of sch s) svs = Ok st' -> UInv st'.
  Proof.
    intros Hs Hi Hcr HM Hsv H. destruct Honce as [nl [pre [post [Hc [Hpre Hpost]]]]].
    rewrite Hc in H.
    destruct (after_all_pre c old i pre _ svs st st' (not_ours_of_not_is_ours _ _ Hpre) HM H) as [st1 [HM1 H1]].
    cbn [after_update_all] in H1.
    destruct (after_update_one sch st1 c (CUnique f nl) _) as [st2|e] eqn:E2; cbn [bind] in H1; [|discriminate].
    assert (UInv st2) as HU.
    { eapply unique_hook_restores; [exact HM1 | exact Hs | exact Hi | | exact Hcr | exact E2].
      specialize (Hsv pre (CUnique f nl) post Hc (ex_intro _ nl eq_refl)).
      destruct (skipn (length pre) svs); exact Hsv. }
    eapply UInv_view; [|exact HU]. eapply after_all_view; [|exact H1].
    apply not_ours_of_not_is_ours. exact Hpost.
  Qed.

  (* ---- chains ---- *)
  Lemma chain_in s0 s' ks : In (s', ks) (chain sch s0) -> ks = cons_of sch s' /\ root_of sch s' = root_of sch s0.
  Proof.
    unfold chain. destruct (is_child sch s0) eqn:E; cbn; intros H.
    - destruct H as [H|[H|[]]]; inversion H; subst; split; auto.
    - destruct H as [H|[]]. inversion H; subst. split; reflexivity.
  Qed.

  Lemma after_chain_view i create sys : forall ch svs st st',
    (forall s' ks, In (s', ks) ch -> Forall (not_ours s') ks) ->
    after_chain sch st create sys i ch svs = Ok st' -> same_view st st'.
  Proof.
    induction ch as [|[s' ks] ch IH]; intros svs st st' Hall H; cbn [after_chain] in H.
    - inversion H; subst. apply same_view_refl.
    - destruct (after_update_all sch st _ ks _) as [st1|e] eqn:E1; cbn [bind] in H; [|discriminate].
      eapply same_view_trans.
      + eapply (after_all_view (mkIctx create sys s' i)); [|exact E1]. cbn. apply Hall. left. reflexivity.
      + eapply IH; [|exact H]. intros s2 ks2 Hin. apply Hall. right. exact Hin.
  Qed.

  Lemma not_ours_other_root s' ks : root_of sch s' <> s -> Forall (not_ours s') ks.
  Proof. intros Hne. apply Forall_forall. intros k _ [Hr _]. contradiction. Qed.

  Lemma not_ours_child s' : is_child sch s' = true -> Forall (not_ours s') (cons_of sch s').
  Proof.
    intros Hc. apply Forall_forall. intros k Hin [Hr [nl ->]].
    assert (s' = s) as -> by (eapply Hown; eauto). congruence.
  Qed.

  (* ---- persisting entity i of root store s ---- *)
  Lemma pres_set_ent st i e j : pres (set_ent st s i e) j = if str_eqb i j then true else pres st j.
  Proof.
    unfold pres, present. rewrite root_s, Hroot, get_ent_set_ent, str_eqb_refl. cbn [andb].
    destruct (str_eqb i j); [reflexivity|]. reflexivity.
  Qed.

  Lemma fbytes_set_ent_other st i e j : i <> j -> fbytes (set_ent st s i e) j = fbytes st j.
  Proof.
    intros Hne. unfold fbytes, get_field. rewrite root_s, get_ent_set_ent, str_eqb_refl. cbn [andb].
    assert (str_eqb i j = false) as -> by (apply str_eqb_neq; exact Hne). reflexivity.
  Qed.

  Lemma persist_mid_update st i e :
    UInv st -> pres st i = true -> MidInv (fbytes st i) i (set_ent st s i e).
  Proof.
    intros [HS HC] Hp. unfold MidInv. rewrite pres_set_ent, str_eqb_refl. split; [reflexivity|].
    change (ix (set_ent st s i e)) with (ix st). split; [|split].
    - intros v j Hg. destruct (HS v j Hg) as [A [B C]]. split; [exact A|]. split.
      + rewrite pres_set_ent. destruct (str_eqb i j); [reflexivity | exact B].
      + split.
        * intros Hne. rewrite fbytes_set_ent_other by congruence. exact C.
        * intros ->. symmetry. exact C.
    - intros j Hne Hpj Hn. rewrite pres_set_ent in Hpj.
      assert (str_eqb i j = false) as E by (apply str_eqb_neq; congruence). rewrite E in Hpj.
      rewrite fbytes_set_ent_other in * by congruence. apply HC; [exact Hpj | tauto | exact Hn].
    - intros Hn. apply HC; [exact Hp | tauto | exact Hn].
  Qed.

  Lemma persist_mid_create st i e :
    UInv st -> pres st i = false -> MidInv [] i (set_ent st s i e).
  Proof.
    intros [HS HC] Hp. unfold MidInv. rewrite pres_set_ent, str_eqb_refl. split; [reflexivity|].
    change (ix (set_ent st s i e)) with (ix st). split; [|split].
    - intros v j Hg. destruct (HS v j Hg) as [A [B C]]. split; [exact A|]. split.
      + rewrite pres_set_ent. destruct (str_eqb i j); [reflexivity | exact B].
      + split.
        * intros Hne. rewrite fbytes_set_ent_other by congruence. exact C.
        * intros ->. congruence.
    - intros j Hne Hpj Hn. rewrite pres_set_ent in Hpj.
      assert (str_eqb i j = false) as E by (apply str_eqb_neq; congruence). rewrite E in Hpj.
      rewrite fbytes_set_ent_other in * by congruence. apply HC; [exact Hpj | tauto | exact Hn].
    - cbn. discriminate.
  Qed.

  (* a change to an entity of another root store is invisible *)
  Lemma set_ent_other_view st r0 i e : r0 <> s -> same_view st (set_ent st r0 i e).
  Proof.
    intros Hne. split; [reflexivity|]. split; intros j.
    - unfold pres, present. rewrite root_s, get_ent_set_ent.
      assert (str_eqb r0 s = false) as -> by (apply str_eqb_neq; exact Hne). reflexivity.
    - unfold fbytes, get_field. rewrite root_s, get_ent_set_ent.
      assert (str_eqb r0 s = false) as -> by (apply str_eqb_neq; exact Hne). reflexivity.
  Qed.

  Lemma pres_of_present st s0 i : root_of sch s0 = s -> present sch st s0 i = true -> pres st i = true.
  Proof.
    intros Hr Hp. unfold pres, present in *. rewrite root_s, Hroot. rewrite Hr in Hp.
    destruct (get_ent st s i); [reflexivity | discriminate].
  Qed.

  (* ---- create ---- *)
  Lemma op_create_inv oc st evs s0 i sys fv sv st' evs' :
    UInv st -> op_create sch oc (st, evs) s0 i sys fv sv = Ok (st', evs') -> UInv st'.
  Proof.
    intros HU H. unfold op_create in H.
    destruct (find_store sch s0) as [d0|]; [|discriminate].
    destruct (negb (nonempty i)); [discriminate|].
    destruct (present sch st s0 i) eqn:Ep0; [discriminate|].
    destruct (present sch st (root_of sch s0) i) eqn:Epr; [discriminate|].
    destruct (negb (key_ok i)); [discriminate|].
    destruct (fire_cu sch oc evs s0 Created i) as [evs1|e]; cbn [bind] in H; [|discriminate].
    destruct (after_chain sch _ true (oc_sys oc) i (chain sch s0) []) as [st2|e] eqn:Eac; cbn [bind] in H; [|discriminate].
    inversion H; subst st' evs'. clear H.
    destruct (str_eq_dec (root_of sch s0) s) as [Hr|Hr].
    - (* an entity of our root store *)
      rewrite Hr in *.
      assert (pres st i = false) as Hpi by exact Epr.
      pose proof (persist_mid_create st i (persist sch s0 true sys fv sv None ent_empty) HU Hpi) as HM.
      unfold chain in Eac. destruct (is_child sch s0) eqn:Ec.
      + rewrite Hr in Eac. cbn [after_chain] in Eac.
        destruct (after_update_all sch _ _ (cons_of sch s) _) as [stA|e] eqn:EA; cbn [bind] in Eac; [|discriminate].
        assert (UInv stA) as HA.
        { eapply (after_all_restores (mkIctx true (oc_sys oc) s i) [] i []); try reflexivity; [exact HM | | exact EA].
          intros. rewrite skipn_nil_any. reflexivity. }
        destruct (after_update_all sch stA _ (cons_of sch s0) _) as [stB|e] eqn:EB; cbn [bind] in Eac; [|discriminate].
        inversion Eac; subst st2. eapply UInv_view; [|exact HA].
        eapply (after_all_view (mkIctx true (oc_sys oc) s0 i)); [|exact EB]. cbn. apply not_ours_child. exact Ec.
      + assert (s0 = s) as -> by (unfold root_of, is_child in *; destruct (find_store sch s0) as [d|]; [destruct (sd_parent d); [discriminate|exact Hr] | exact Hr]).
        cbn [after_chain] in Eac.
        destruct (after_update_all sch _ _ (cons_of sch s) _) as [stA|e] eqn:EA; cbn [bind] in Eac; [|discriminate].
        inversion Eac; subst st2.
        eapply (after_all_restores (mkIctx true (oc_sys oc) s i) [] i []); try reflexivity; [exact HM | | exact EA].
        intros. rewrite skipn_nil_any. reflexivity.
    - (* another root store *)
      eapply UInv_view; [|exact HU]. eapply same_view_trans.
      + apply set_ent_other_view. exact Hr.
      + eapply after_chain_view; [|exact Eac]. intros s' ks Hin.
        apply chain_in in Hin as [-> Hrs]. apply not_ours_other_root. congruence.
  Qed.

  (* ---- update ---- *)
  Lemma saved_at_hook st i sys svs :
    before_update_all sch st (mkIctx false sys s i) (cons_of sch s) = Ok svs ->
    forall pre k post, cons_of sch s = pre ++ k :: post -> is_ours k ->
      sv_atom (hd SvNone (skipn (length pre) svs)) = fbytes st i.
  Proof.
    intros Hb pre k post Hc [nl ->]. rewrite Hc in Hb.
    destruct (before_all_at _ _ _ _ _ _ Hb) as [sv [rest [H1 H2]]]. rewrite H2. cbn [hd].
    cbn in H1. inversion H1; subst. reflexivity.
  Qed.

  Lemma update_in_inv oc st evs s0 i fv sv ch st' evs' :
    UInv st -> update_in sch oc (st, evs) s0 i fv sv ch = Ok (st', evs') -> UInv st'.
  Proof.
    intros HU H. unfold update_in in H.
    destruct (negb (nonempty i)); [discriminate|].
    destruct (negb (loadable sch st s0 i)); [discriminate|].
    destruct (present sch st s0 i) eqn:Ep0; cbn [negb] in H; [|discriminate].
    destruct (fire_cu sch oc evs s0 Updated i) as [evs1|e]; cbn [bind] in H; [|discriminate].
    destruct (before_chain sch st false (oc_sys oc) i (chain sch s0)) as [svs|e] eqn:Ebc; cbn [bind] in H; [|discriminate].
    destruct (after_chain sch _ false (oc_sys oc) i (chain sch s0) svs) as [st2|e] eqn:Eac; cbn [bind] in H; [|discriminate].
    inversion H; subst st' evs'. clear H.
    destruct (str_eq_dec (root_of sch s0) s) as [Hr|Hr].
    - pose proof (pres_of_present st s0 i Hr Ep0) as Hpi.
      rewrite Hr in *.
      set (e1 := persist sch s0 false false fv sv ch _) in Eac.
      pose proof (persist_mid_update st i e1 HU Hpi) as HM.
      unfold chain in Eac, Ebc. destruct (is_child sch s0) eqn:Ec.
      + rewrite Hr in Eac, Ebc. cbn [before_chain] in Ebc.
        destruct (before_update_all sch st _ (cons_of sch s)) as [svsA|e] eqn:EbA; cbn [bind] in Ebc; [|discriminate].
        destruct (before_update_all sch st _ (cons_of sch s0)) as [svsB|e] eqn:EbB; cbn [bind] in Ebc; [|discriminate].
        inversion Ebc; subst svs. cbn [after_chain] in Eac.
        destruct (after_update_all sch _ _ (cons_of sch s) _) as [stA|e] eqn:EA; cbn [bind] in Eac; [|discriminate].
        assert (UInv stA) as HA.
        { eapply (after_all_restores (mkIctx false (oc_sys oc) s i) (fbytes st i) i svsA); try reflexivity;
            [cbn; discriminate | exact HM | | exact EA].
          eapply saved_at_hook. exact EbA. }
        destruct (after_update_all sch stA _ (cons_of sch s0) _) as [stB|e] eqn:EB; cbn [bind] in Eac; [|discriminate].
        inversion Eac; subst st2. eapply UInv_view; [|exact HA].
        eapply (after_all_view (mkIctx false (oc_sys oc) s0 i)); [|exact EB]. cbn. apply not_ours_child. exact Ec.
      + assert (s0 = s) as -> by (unfold root_of, is_child in *; destruct (find_store sch s0) as [d|]; [destruct (sd_parent d); [discriminate|exact Hr] | exact Hr]).
        cbn [before_chain] in Ebc.
        destruct (before_update_all sch st _ (cons_of sch s)) as [svsA|e] eqn:EbA; cbn [bind] in Ebc; [|discriminate].
        inversion Ebc; subst svs. cbn [after_chain] in Eac.
        destruct (after_update_all sch _ _ (cons_of sch s) _) as [stA|e] eqn:EA; cbn [bind] in Eac; [|discriminate].
        inversion Eac; subst st2.
        eapply (after_all_restores (mkIctx false (oc_sys oc) s i) (fbytes st i) i svsA); try reflexivity;
          [cbn; discriminate | exact HM | | exact EA].
        eapply saved_at_hook. exact EbA.
    - eapply UInv_view; [|exact HU]. eapply same_view_trans.
      + apply set_ent_other_view. exact Hr.
      + eapply after_chain_view; [|exact Eac]. intros s' ks Hin.
        apply chain_in in Hin as [-> Hrs]. apply not_ours_other_root. congruence.
  Qed.

  Lemma op_update_inv oc st evs s0 i fv sv ch st' evs' :
    UInv st -> op_update sch oc (st, evs) s0 i fv sv ch = Ok (st', evs') -> UInv st'.
  Proof.
    intros HU H. unfold op_update in H. destruct (find_store sch s0); [|discriminate].
    destruct (is_child sch s0); [eapply update_in_inv; eauto|].
    destruct (find _ (children_of sch s0)); eapply update_in_inv; eauto.
  Qed.

  (* ---- link operations only touch string sets ---- *)
  Lemma op_add_links_view s0 i lf : forall ts st st',
    op_add_links sch st s0 i lf ts = Ok st' -> same_view st st'.
  Proof.
    intros ts st st' H. unfold op_add_links in H. destruct (find_link sch s0 lf) as [[os of_]|]; [|discriminate].
    destruct (negb (present sch st s0 i)); [discriminate|].
    assert (forall ts acc st', fold_left (fun acc t => do cur <- acc;
               if present sch cur os t then Ok (backref_add sch (backref_add sch cur s0 i lf t) os t of_ i) else Err ENotFound) ts acc = Ok st' ->
             exists st0, acc = Ok st0 /\ same_view st0 st') as Hfold.
    { clear. induction ts as [|t ts IH]; intros acc st' H; cbn [fold_left] in H.
      - exists st'. split; [exact H | apply same_view_refl].
      - destruct (IH _ _ H) as [st1 [H1 Hv]]. destruct acc as [st0|e]; cbn [bind] in H1; [|discriminate].
        exists st0. split; [reflexivity|]. destruct (present sch st0 os t); [|discriminate]. inversion H1; subst st1.
        eapply same_view_trans; [|exact Hv]. apply fc_eq_view.
        + eapply ents_fc_eq_trans; apply backref_add_fc.
        + unfold ix. rewrite !backref_add_uidx. reflexivity. }
    destruct (Hfold _ _ _ H) as [st0 [E Hv]]. inversion E; subst. exact Hv.
  Qed.

  Lemma op_remove_links_view s0 i lf ts st st' :
    op_remove_links sch st s0 i lf ts = Ok st' -> same_view st st'.
  Proof.
    intros H. unfold op_remove_links in H. destruct (find_link sch s0 lf) as [[os of_]|]; [|discriminate].
    destruct (negb (present sch st s0 i)); [discriminate|]. inversion H; subst st'. clear H.
    revert st. induction ts as [|t ts IH]; intros st; cbn [fold_left]; [apply same_view_refl|].
    eapply same_view_trans; [|apply IH]. apply fc_eq_view.
    - eapply ents_fc_eq_trans; apply backref_del_fc.
    - unfold ix. rewrite !backref_del_uidx. reflexivity.
  Qed.

  (* ================================================================ delete *)
  Definition UInj (st : state) : Prop :=
    forall i j, pres st i = true -> pres st j = true -> fbytes st i = fbytes st j ->
                nonempty (fbytes st i) = true -> i = j.

  (* invariant while the entities in G are being deleted *)
  Definition DInv (G : id -> Prop) (st : state) : Prop := USound st /\ UComplete G st /\ UInj st.

  (* delete steps only remove: index entries shrink, entities disappear, survivors keep their value *)
  Definition dmono (st st' : state) : Prop :=
    (forall v i, al_get v (ix st') = Some i -> al_get v (ix st) = Some i) /\
    (forall i, pres st' i = true -> pres st i = true /\ fbytes st' i = fbytes st i).

  Definition NoEntry (x : id) (st : state) : Prop := forall v, al_get v (ix st) <> Some x.

  Lemma UInv_DInv G st : UInv st -> DInv G st.
  Proof.
    intros [HS HC]. split; [exact HS|]. split.
    - intros i Hp _ Hn. apply HC; [exact Hp | tauto | exact Hn].
    - intros i j Hi Hj He Hn. pose proof (HC i Hi (fun x => x) Hn) as A.
      assert (nonempty (fbytes st j) = true) as Hn' by (rewrite <- He; exact Hn).
      pose proof (HC j Hj (fun x => x) Hn') as B. rewrite He in A. congruence.
  Qed.

  Lemma DInv_UInv st : DInv (fun _ => False) st -> UInv st.
  Proof. intros [HS [HC _]]. split; assumption. Qed.

  Lemma DInv_weaken (G G' : id -> Prop) st : (forall i, G i -> G' i) -> DInv G st -> DInv G' st.
  Proof.
    intros Hsub [HS [HC HI]]. split; [exact HS|]. split; [|exact HI].
    intros i Hp Hn. apply HC; [exact Hp | intros Hg; apply Hn, Hsub, Hg].
  Qed.

  Lemma dmono_refl st : dmono st st.
  Proof. split; [tauto | intros; split; [assumption | reflexivity]]. Qed.

  Lemma dmono_trans a b c : dmono a b -> dmono b c -> dmono a c.
  Proof.
    intros [A1 A2] [B1 B2]. split.
    - intros v i H. apply A1, B1, H.
    - intros i H. destruct (B2 i H) as [Hb Hfb]. destruct (A2 i Hb) as [Ha Hfa]. split; [exact Ha | congruence].
  Qed.

  Lemma same_view_dmono st st' : same_view st st' -> dmono st st'.
  Proof.
    intros [Hi [Hp Hf]]. split.
    - intros v i H. rewrite Hi in H. exact H.
    - intros i H. rewrite Hp in H. split; [exact H | apply Hf].
  Qed.

  Lemma DInv_view G st st' : same_view st st' -> DInv G st -> DInv G st'.
  Proof.
    intros Hv [HS [HC HI]]. split; [eapply USound_view; eauto|]. split; [eapply UComplete_view; eauto|].
    destruct Hv as [Hi [Hp Hf]]. intros i j. rewrite !Hp, !Hf. apply HI.
  Qed.

  Lemma NoEntry_mono x st st' : dmono st st' -> NoEntry x st -> NoEntry x st'.
  Proof. intros [H1 _] Hn v Hg. apply (Hn v). apply H1. exact Hg. Qed.

  (* specification of the recursive DeleteById used by the cascade constraint *)
  Definition DelSpec (del : st_ev -> name -> id -> res st_ev) : Prop :=
    forall G stev s0 x stev', DInv G (fst stev) -> del stev s0 x = Ok stev' ->
                              DInv G (fst stev') /\ dmono (fst stev) (fst stev').

  Lemma fbytes_nonempty_pres st x : nonempty (fbytes st x) = true -> pres st x = true.
  Proof.
    unfold fbytes, pres, get_field, present. rewrite root_s, Hroot.
    destruct (get_ent st s x); [reflexivity | cbn; discriminate].
  Qed.

  (* the unique hook of (s,f) on entity x *)
  Lemma unique_delete_hook G st x :
    DInv G st -> G x ->
    let v := fbytes st x in
    let st' := if nonempty v then set_uidx st s f (al_del v (ix st)) else st in
    DInv G st' /\ dmono st st' /\ NoEntry x st'.
  Proof.
    intros [HS [HC HI]] HG v st'. subst st'. destruct (nonempty v) eqn:En.
    - assert (pres st x = true) as Hpx by (apply fbytes_nonempty_pres; exact En).
      split; [|split].
      + split; [|split].
        * intros w j Hg. unfold ix, pres, fbytes in *. rewrite uidx_set_uidx in Hg.
          rewrite present_set_uidx, get_field_set_uidx. rewrite al_get_del in Hg.
          destruct (str_eqb v w); [discriminate|]. apply HS. exact Hg.
        * intros j Hp Hn Hne. unfold ix, pres, fbytes in *. rewrite uidx_set_uidx.
          rewrite present_set_uidx in Hp. rewrite get_field_set_uidx in *. rewrite al_get_del.
          destruct (str_eqb v (fv_bytes (get_field sch st s j f))) eqn:Ev; [|apply HC; assumption].
          apply str_eqb_eq in Ev. exfalso. apply Hn.
          assert (x = j) as <- by (apply HI; [exact Hpx | exact Hp | exact Ev | exact En]). exact HG.
        * intros i j. unfold pres, fbytes. rewrite !present_set_uidx, !get_field_set_uidx. apply HI.
      + split.
        * intros w j Hg. unfold ix in *. rewrite uidx_set_uidx in Hg. rewrite al_get_del in Hg.
          destruct (str_eqb v w); [discriminate | exact Hg].
        * intros j Hp. unfold pres, fbytes in *. rewrite present_set_uidx in Hp. rewrite get_field_set_uidx. split; [exact Hp | reflexivity].
      + intros w Hg. unfold ix in Hg. rewrite uidx_set_uidx in Hg. rewrite al_get_del in Hg.
        destruct (str_eqb v w) eqn:Ev; [discriminate|]. apply str_eqb_neq in Ev.
        destruct (HS w x Hg) as [_ [_ Hf]]. apply Ev. exact Hf.
    - split; [split; [exact HS | split; [exact HC | exact HI]]|]. split; [apply dmono_refl|].
      intros w Hg. destruct (HS w x Hg) as [Hnw [_ Hf]]. fold v in Hf. rewrite Hf in En. congruence.
  Qed.

  Variable oc : octx.

  Lemma cascade_loop_spec G del rs f0 i0 : DelSpec del -> forall cands cur cur',
    DInv G (fst cur) -> cascade_loop sch del rs f0 i0 cands cur = Ok cur' ->
    DInv G (fst cur') /\ dmono (fst cur) (fst cur').
  Proof.
    intros Hdel. induction cands as [|c0 cands IH]; intros cur cur' HD H; cbn [cascade_loop] in H.
    - inversion H; subst. split; [exact HD | apply dmono_refl].
    - destruct (casc_matches sch rs f0 i0 (fst cur) c0).
      + destruct (del cur rs c0) as [cur1|e] eqn:Ed; cbn [bind] in H; [|discriminate].
        destruct (Hdel G cur rs c0 cur1 HD Ed) as [HD1 Hm1].
        destruct (IH cur1 cur' HD1 H) as [HD2 Hm2]. split; [exact HD2 | eapply dmono_trans; eauto].
      + apply IH; assumption.
  Qed.

  Lemma view_all G st st' : same_view st st' -> DInv G st -> DInv G st' /\ dmono st st'.
  Proof. intros Hv HD. split; [eapply DInv_view; eauto | apply same_view_dmono; exact Hv]. Qed.

  Lemma bd_one G del st evs c k st' evs' x :
    DelSpec del -> DInv G st -> (root_of sch (ic_store c) = s -> G x) -> ic_id c = x -> In k (cons_of sch (ic_store c)) ->
    before_delete_one sch oc del (st, evs) c k = Ok (st', evs') ->
    DInv G st' /\ dmono st st' /\ ((root_of sch (ic_store c) = s /\ is_ours k) -> NoEntry x st').
  Proof.
    intros Hdel HD HG Hx Hin H.
    assert (Hsame : st' = st -> ~ (root_of sch (ic_store c) = s /\ is_ours k) ->
                    DInv G st' /\ dmono st st' /\ ((root_of sch (ic_store c) = s /\ is_ours k) -> NoEntry x st')).
    { intros -> Hn. split; [exact HD|]. split; [apply dmono_refl | intros Ho; contradiction]. }
    assert (Hview : same_view st st' -> ~ (root_of sch (ic_store c) = s /\ is_ours k) ->
                    DInv G st' /\ dmono st st' /\ ((root_of sch (ic_store c) = s /\ is_ours k) -> NoEntry x st')).
    { intros Hv Hn. destruct (view_all G st st' Hv HD) as [A B]. split; [exact A|]. split; [exact B | intros Ho; contradiction]. }
    destruct k as [f0 nl|f0|f0 t b nl|b|f0 t nl|rs f0 cs|]; cbn [before_delete_one] in H.
    - (* CUnique *)
      destruct (name_pair_dec (root_of sch (ic_store c)) f0 s f) as [[Hr ->]|Hne].
      + assert (ic_store c = s) as Hs by (eapply Hown; eauto).
        rewrite Hs, Hx, root_s in H. fold (fbytes st x) in H. fold (ix st) in H.
        pose proof (unique_delete_hook G st x HD (HG Hr)) as Hh. cbn zeta in Hh.
        destruct (nonempty (fbytes st x)); inversion H; subst st' evs'; destruct Hh as [A [B C]];
          (split; [exact A|]; split; [exact B | intros _; exact C]).
      + assert (~ (root_of sch (ic_store c) = s /\ is_ours (CUnique f0 nl))) as Hn.
        { intros [Hr [nl0 E]]. inversion E; subst. destruct Hne as [Hne|Hne]; contradiction. }
        destruct (nonempty _); inversion H; subst st' evs'; [|apply Hsame; [reflexivity | exact Hn]].
        apply Hview; [|exact Hn]. apply fc_eq_view; [apply ents_eq_fc; reflexivity|].
        unfold ix. cbn. apply upd2_other. exact Hne.
    - (* CSetIdx *)
      destruct (negb _); [discriminate|]. inversion H; subst st' evs'.
      apply Hview; [|intros [_ [nl0 E]]; discriminate].
      apply fc_eq_view; [apply ents_eq_fc; apply fold_sidx_remove_ents | unfold ix; rewrite fold_sidx_remove_uidx; reflexivity].
    - (* CFkIndex *)
      destruct (nonempty _).
      + destruct (present sch st t _); [|discriminate]. inversion H; subst st' evs'.
        apply Hview; [|intros [_ [nl0 E]]; discriminate].
        apply fc_eq_view; [apply backref_del_fc | unfold ix; rewrite backref_del_uidx; reflexivity].
      + inversion H; subst st' evs'. apply Hsame; [reflexivity | intros [_ [nl0 E]]; discriminate].
    - destruct (get_set sch st (ic_store c) (ic_id c) b); [|discriminate].
      inversion H; subst st' evs'. apply Hsame; [reflexivity | intros [_ [nl0 E]]; discriminate].
    - inversion H; subst st' evs'. apply Hsame; [reflexivity | intros [_ [nl0 E]]; discriminate].
    - (* CFkCascade *)
      destruct cs.
      + destruct (existsb _ _); [discriminate|]. inversion H; subst st' evs'.
        apply Hsame; [reflexivity | intros [_ [nl0 E]]; discriminate].
      + destruct (cascade_loop_spec G del rs f0 (ic_id c) Hdel _ (st, evs) (st', evs') HD H) as [A B].
        split; [exact A|]. split; [exact B | intros [_ [nl0 E]]; discriminate].
    - (* CSystem *)
      destruct (get_field sch st (ic_store c) (ic_id c) isSystemF) as [| |y|[|]];
        try (inversion H; subst st' evs'; apply Hsame; [reflexivity | intros [_ [nl0 E]]; discriminate]).
      destruct (oc_sys oc); [|discriminate].
      inversion H; subst st' evs'; apply Hsame; [reflexivity | intros [_ [nl0 E]]; discriminate].
  Qed.

  Lemma bd_all (G : id -> Prop) del x c : DelSpec del -> (root_of sch (ic_store c) = s -> G x) -> ic_id c = x -> forall ks st evs st' evs',
    incl ks (cons_of sch (ic_store c)) -> DInv G st ->
    before_delete_all sch oc del (st, evs) c ks = Ok (st', evs') ->
    DInv G st' /\ dmono st st' /\
    (((root_of sch (ic_store c) = s /\ Exists is_ours ks) \/ NoEntry x st) -> NoEntry x st').
  Proof.
    intros Hdel HG Hx. induction ks as [|k ks IH]; intros st evs st' evs' Hincl HD H; cbn [before_delete_all] in H.
    - inversion H; subst. split; [exact HD|]. split; [apply dmono_refl|].
      intros [[_ He]|Hn]; [inversion He | exact Hn].
    - destruct (before_delete_one sch oc del (st, evs) c k) as [[st1 evs1]|e] eqn:E1; cbn [bind] in H; [|discriminate].
      assert (In k (cons_of sch (ic_store c))) as Hin by (apply Hincl; left; reflexivity).
      destruct (bd_one G del st evs c k st1 evs1 x Hdel HD HG Hx Hin E1) as [HD1 [Hm1 Hn1]].
      assert (incl ks (cons_of sch (ic_store c))) as Hincl' by (intros y Hy; apply Hincl; right; exact Hy).
      destruct (IH st1 evs1 st' evs' Hincl' HD1 H) as [HD2 [Hm2 Hn2]].
      split; [exact HD2|]. split; [eapply dmono_trans; eauto|].
      intros [[Hr He]|Hn].
      + inversion He as [? ? Hk|? ? Hk]; subst.
        * apply Hn2. right. apply Hn1. split; assumption.
        * apply Hn2. left. split; assumption.
      + apply Hn2. right. eapply NoEntry_mono; eauto.
  Qed.

  Lemma bd_chain (G : id -> Prop) del x : DelSpec del -> forall ch st evs st' evs',
    (forall s' ks, In (s', ks) ch -> ks = cons_of sch s' /\ (root_of sch s' = s -> G x)) -> DInv G st ->
    before_delete_chain sch oc del x ch (st, evs) = Ok (st', evs') ->
    DInv G st' /\ dmono st st' /\
    (((exists s', In (s', cons_of sch s') ch /\ root_of sch s' = s /\ Exists is_ours (cons_of sch s')) \/ NoEntry x st) -> NoEntry x st').
  Proof.
    intros Hdel. induction ch as [|[s' ks] ch IH]; intros st evs st' evs' Hch HD H; cbn [before_delete_chain] in H.
    - inversion H; subst. split; [exact HD|]. split; [apply dmono_refl|].
      intros [[s' [[] _]]|Hn]. exact Hn.
    - destruct (before_delete_all sch oc del (st, evs) _ ks) as [[st1 evs1]|e] eqn:E1; cbn [bind] in H; [|discriminate].
      destruct (Hch s' ks (or_introl eq_refl)) as [-> HGs].
      destruct (bd_all G del x (mkIctx false (oc_sys oc) s' x) Hdel HGs eq_refl _ st evs st1 evs1 (incl_refl _) HD E1) as [HD1 [Hm1 Hn1]].
      assert (forall s2 ks2, In (s2, ks2) ch -> ks2 = cons_of sch s2 /\ (root_of sch s2 = s -> G x)) as Hch' by (intros; apply Hch; right; assumption).
      destruct (IH st1 evs1 st' evs' Hch' HD1 H) as [HD2 [Hm2 Hn2]].
      split; [exact HD2|]. split; [eapply dmono_trans; eauto|].
      intros [[s2 [Hin [Hr He]]]|Hn].
      + destruct Hin as [Hin|Hin].
        * inversion Hin; subst s2. apply Hn2. right. apply Hn1. left. cbn. split; assumption.
        * apply Hn2. left. exists s2. repeat split; assumption.
      + apply Hn2. right. eapply NoEntry_mono; eauto.
  Qed.

  Lemma cleanup_links_view st s0 x : same_view st (cleanup_links sch st s0 x).
  Proof.
    unfold cleanup_links. destruct (find_store sch s0) as [d|]; [|apply same_view_refl].
    generalize (sd_links d). intros ls. revert st. induction ls as [|[[lf os] of_] ls IH]; intros st; cbn [fold_left].
    - apply same_view_refl.
    - eapply same_view_trans; [|apply IH].
      generalize (get_set sch st s0 x lf). intros ms. revert st. induction ms as [|m ms IHm]; intros st; cbn [fold_left].
      + apply same_view_refl.
      + eapply same_view_trans; [|apply IHm]. apply fc_eq_view; [apply backref_del_fc | unfold ix; rewrite backref_del_uidx; reflexivity].
  Qed.

  Lemma ours_in_cons_s : Exists is_ours (cons_of sch s).
  Proof.
    destruct Honce as [nl [pre [post [Hc _]]]]. rewrite Hc. apply Exists_exists.
    exists (CUnique f nl). split; [apply in_or_app; right; left; reflexivity | exists nl; reflexivity].
  Qed.

  Lemma process_delete_spec (G : id -> Prop) del x s0 st evs st' evs' :
    DelSpec del -> (root_of sch s0 = s -> G x) -> DInv G st ->
    process_delete sch oc del (st, evs) s0 x = Ok (st', evs') ->
    DInv G st' /\ dmono st st' /\ ((root_of sch s0 = s \/ NoEntry x st) -> NoEntry x st').
  Proof.
    intros Hdel HG HD H. unfold process_delete in H.
    destruct (before_delete_chain sch oc del x (chain sch s0) (st, evs)) as [[st1 evs1]|e] eqn:E1; cbn [bind] in H; [|discriminate].
    inversion H; subst st' evs'. clear H.
    assert (forall s' ks, In (s', ks) (chain sch s0) -> ks = cons_of sch s' /\ (root_of sch s' = s -> G x)) as Hch
      by (intros s' ks Hin; apply chain_in in Hin as [A B]; split; [exact A | intros Hr; apply HG; congruence]).
    destruct (bd_chain G del x Hdel _ st evs st1 evs1 Hch HD E1) as [HD1 [Hm1 Hn1]].
    pose proof (cleanup_links_view st1 s0 x) as Hv.
    destruct (view_all G _ _ Hv HD1) as [HD2 Hm2]. cbn [fst].
    split; [exact HD2|]. split; [eapply dmono_trans; eauto|].
    intros Hor. eapply NoEntry_mono; [exact Hm2|]. apply Hn1. destruct Hor as [Hr|Hn]; [|right; exact Hn].
    left. exists s. split; [|split; [apply root_s | apply ours_in_cons_s]].
    unfold chain. destruct (is_child sch s0) eqn:Ec.
    - rewrite Hr. left. reflexivity.
    - assert (s0 = s) as -> by (unfold root_of, is_child in *; destruct (find_store sch s0) as [d|]; [destruct (sd_parent d); [discriminate|exact Hr] | exact Hr]).
      left. reflexivity.
  Qed.

  Lemma children_delete_spec (G : id -> Prop) del x r0 : DelSpec del -> (r0 = s -> G x) ->
    forall cs cur flows cur' flows',
    (forall d, In d cs -> root_of sch (sd_name d) = r0) -> DInv G (fst cur) ->
    children_delete sch oc del x cs cur flows = Ok (cur', flows') ->
    DInv G (fst cur') /\ dmono (fst cur) (fst cur').
  Proof.
    intros Hdel HG. induction cs as [|d cs IH]; intros cur flows cur' flows' Hcs HD H; cbn [children_delete] in H.
    - inversion H; subst. split; [exact HD | apply dmono_refl].
    - assert (forall d0, In d0 cs -> root_of sch (sd_name d0) = r0) as Hcs' by (intros; apply Hcs; right; assumption).
      destruct (loadable sch (fst cur) (sd_name d) x); [|eapply IH; eauto].
      destruct cur as [st evs].
      destruct (process_delete sch oc del (st, evs) (sd_name d) x) as [[st1 evs1]|e] eqn:E1; cbn [bind] in H; [|discriminate].
      assert (root_of sch (sd_name d) = s -> G x) as HG1 by (intros Hr; apply HG; rewrite <- Hr; symmetry; apply Hcs; left; reflexivity).
      destruct (process_delete_spec G del x _ st evs st1 evs1 Hdel HG1 HD E1) as [HD1 [Hm1 _]].
      destruct (IH (st1, evs1) _ cur' flows' Hcs' HD1 H) as [HD2 Hm2].
      split; [exact HD2 | eapply dmono_trans; eauto].
  Qed.

  (* store names are unique: the children listed for a root really have that root *)
  Hypothesis Hchildren : forall r0 d, In d (children_of sch r0) -> root_of sch (sd_name d) = r0.

  Lemma del_ent_other_view st r0 i : r0 <> s -> same_view st (del_ent st r0 i).
  Proof.
    intros Hne. split; [reflexivity|]. split; intros j.
    - unfold pres, present. rewrite root_s, get_ent_del_ent.
      assert (str_eqb r0 s = false) as -> by (apply str_eqb_neq; exact Hne). reflexivity.
    - unfold fbytes, get_field. rewrite root_s, get_ent_del_ent.
      assert (str_eqb r0 s = false) as -> by (apply str_eqb_neq; exact Hne). reflexivity.
  Qed.

  Lemma pres_del_ent st i j : pres (del_ent st s i) j = if str_eqb i j then false else pres st j.
  Proof.
    unfold pres, present. rewrite root_s, Hroot, get_ent_del_ent, str_eqb_refl. cbn [andb].
    destruct (str_eqb i j); reflexivity.
  Qed.

  Lemma fbytes_del_ent_other st i j : i <> j -> fbytes (del_ent st s i) j = fbytes st j.
  Proof.
    intros Hne. unfold fbytes, get_field. rewrite root_s, get_ent_del_ent, str_eqb_refl. cbn [andb].
    assert (str_eqb i j = false) as -> by (apply str_eqb_neq; exact Hne). reflexivity.
  Qed.

  (* removing entity x of store s once no index entry points to it *)
  Lemma del_ent_spec (G G' : id -> Prop) st x :
    (forall i, G' i -> G i \/ i = x) -> DInv G' st -> NoEntry x st ->
    DInv G (del_ent st s x) /\ dmono st (del_ent st s x).
  Proof.
    intros Hsub [HS [HC HI]] Hn. change (ix (del_ent st s x)) with (ix st) in *. split; [split; [|split]|split].
    - intros v j Hg. change (ix (del_ent st s x)) with (ix st) in Hg.
      assert (j <> x) as Hj by (intros ->; exact (Hn v Hg)).
      destruct (HS v j Hg) as [A [B C]]. rewrite pres_del_ent, fbytes_del_ent_other by congruence.
      assert (str_eqb x j = false) as -> by (apply str_eqb_neq; congruence). tauto.
    - intros j Hp HG Hne. rewrite pres_del_ent in Hp. destruct (str_eqb x j) eqn:E; [discriminate|].
      apply str_eqb_neq in E. rewrite fbytes_del_ent_other in * by exact E.
      change (ix (del_ent st s x)) with (ix st). apply HC; [exact Hp | | exact Hne].
      intros Hg'. destruct (Hsub j Hg') as [Hg|Hg]; [exact (HG Hg) | congruence].
    - intros i j Hi Hj. rewrite pres_del_ent in Hi, Hj.
      destruct (str_eqb x i) eqn:Ei; [discriminate|]. destruct (str_eqb x j) eqn:Ej; [discriminate|].
      apply str_eqb_neq in Ei, Ej. rewrite !fbytes_del_ent_other by assumption. apply HI; assumption.
    - intros v i H. exact H.
    - intros i Hp. rewrite pres_del_ent in Hp. destruct (str_eqb x i) eqn:E; [discriminate|].
      apply str_eqb_neq in E. split; [exact Hp | apply fbytes_del_ent_other; exact E].
  Qed.

  (* DeleteById, for every amount of fuel *)
  Lemma delete_spec : forall n, DelSpec (delete_by_id sch oc n).
  Proof.
    induction n as [|n IH]; intros G stev s0 x stev' HD H; cbn [delete_by_id] in H; [discriminate|].
    destruct stev as [st evs]. cbn [fst] in *.
    set (r0 := root_of sch s0) in *.
    destruct (present sch st r0 x) eqn:Epx; cbn [negb] in H; [|discriminate].
    destruct (children_delete sch oc (delete_by_id sch oc n) x (children_of sch r0) (st, evs) []) as [[[st1 evs1] flows]|e] eqn:Ech;
      cbn [bind] in H; [|discriminate].
    set (G' := fun i => G i \/ (r0 = s /\ i = x)).
    assert (DInv G' st) as HD' by (eapply DInv_weaken; [|exact HD]; intros i Hg; left; exact Hg).
    assert (r0 = s -> G' x) as HG' by (intros Hr; right; split; [exact Hr | reflexivity]).
    destruct (children_delete_spec G' _ x r0 IH HG' _ (st, evs) [] (st1, evs1) flows (Hchildren r0) HD' Ech) as [HD1 Hm1].
    cbn [fst] in *.
    destruct (present sch st1 r0 x) eqn:Epx1; cbn [negb] in H.
    - (* the normal path *)
      destruct (process_delete sch oc (delete_by_id sch oc n) (st1, evs1) r0 x) as [[st2 evs2]|e] eqn:Epd; cbn [bind] in H; [|discriminate].
      assert (root_of sch r0 = s -> G' x) as HG'' by (intros Hr; apply HG'; subst r0; rewrite Hroots in Hr; exact Hr).
      destruct (process_delete_spec G' _ x r0 st1 evs1 st2 evs2 IH HG'' HD1 Epd) as [HD2 [Hm2 Hn2]].
      cbn [fst snd] in H.
      destruct (fire (oc_vetoes oc) evs2 r0 Deleted x _) as [evs3|e]; cbn [bind] in H; [|discriminate].
      destruct (fire_flows oc x flows evs3) as [evs4|e]; cbn [bind] in H; [|discriminate].
      inversion H; subst stev'. clear H. cbn [fst].
      destruct (str_eq_dec r0 s) as [Hr|Hr].
      + assert (NoEntry x st2) as Hne by (apply Hn2; left; subst r0; rewrite Hroots; exact Hr).
        rewrite Hr.
        destruct (del_ent_spec G G' st2 x) as [A B]; [|exact HD2|exact Hne|].
        * intros i [Hg|[_ ->]]; [left; exact Hg | right; reflexivity].
        * split; [exact A | eapply dmono_trans; [exact Hm1 | eapply dmono_trans; [exact Hm2 | exact B]]].
      + pose proof (del_ent_other_view st2 r0 x Hr) as Hv.
        assert (DInv G st2) as HDg by (eapply DInv_weaken; [|exact HD2]; intros i [Hg|[E _]]; [exact Hg | contradiction]).
        destruct (view_all G _ _ Hv HDg) as [A B].
        split; [exact A | eapply dmono_trans; [exact Hm1 | eapply dmono_trans; [exact Hm2 | exact B]]].
    - (* the entity vanished while its child stores were processed (cascade cycle) *)
      inversion H; subst stev'. clear H. cbn [fst]. split; [|exact Hm1].
      destruct HD1 as [HS [HC HI]]. split; [exact HS|]. split; [|exact HI].
      intros j Hp Hg Hne. apply HC; [exact Hp | | exact Hne].
      intros [Hg'|[Hr ->]]; [exact (Hg Hg')|].
      subst r0. unfold pres in Hp. rewrite <- Hr in Hp at 1. 
      assert (present sch st1 (root_of sch s0) x = true) as Hc.
      { unfold present in *. rewrite Hroots. rewrite Hr in *. rewrite root_s in Hp. rewrite Hroot in *.
        destruct (get_ent st1 s x); [|discriminate]. destruct (is_child sch s); reflexivity. }
      congruence.
  Qed.
  (* ---- every operation, transaction and history ---- *)
  Lemma run_op_inv fuel st evs o st' evs' :
    UInv st -> run_op sch fuel oc (st, evs) o = Ok (st', evs') -> UInv st'.
  Proof.
    intros HU H. destruct o as [s0 i sys fv sv|s0 i fv sv ch|s0 i|s0 i lf ts|s0 i lf ts|]; cbn [run_op] in H.
    - eapply op_create_inv; eauto.
    - eapply op_update_inv; eauto.
    - apply DInv_UInv. destruct (delete_spec fuel (fun _ => False) (st, evs) s0 i (st', evs')) as [A _];
        [apply UInv_DInv; exact HU | exact H | exact A].
    - cbn [fst snd] in H. destruct (op_add_links sch st s0 i lf ts) as [st1|e] eqn:E; cbn [bind] in H; [|discriminate].
      inversion H; subst. eapply UInv_view; [eapply op_add_links_view; eauto | exact HU].
    - cbn [fst snd] in H. destruct (op_remove_links sch st s0 i lf ts) as [st1|e] eqn:E; cbn [bind] in H; [|discriminate].
      inversion H; subst. eapply UInv_view; [eapply op_remove_links_view; eauto | exact HU].
    - discriminate.
  Qed.
End Unique.

(* operations carry their own context, so the invariant lifts to op lists, transactions, histories *)
Section UniqueHistories.
  Variable sch : schema.
  Variable s f : name.
  Hypothesis Hroot : is_child sch s = false.
  Hypothesis Hroots : forall x, root_of sch (root_of sch x) = root_of sch x.
  Hypothesis Hown : forall s' nl, root_of sch s' = s -> In (CUnique f nl) (cons_of sch s') -> s' = s.
  Hypothesis Honce : exists nl pre post,
    cons_of sch s = pre ++ CUnique f nl :: post /\ Forall (fun k => ~ is_ours f k) pre /\ Forall (fun k => ~ is_ours f k) post.
  Hypothesis Hchildren : forall r0 d, In d (children_of sch r0) -> root_of sch (sd_name d) = r0.

  Lemma run_ops_inv fuel oc : forall ops st evs rs st' evs',
    UInv sch s f st -> run_ops sch fuel oc (st, evs) ops = (rs, Ok (st', evs')) -> UInv sch s f st'.
  Proof.
    induction ops as [|o ops IH]; intros st evs rs st' evs' HU H; cbn [run_ops] in H.
    - inversion H; subst. exact HU.
    - destruct (run_op sch fuel oc (st, evs) o) as [[st1 evs1]|e] eqn:E1; [|inversion H].
      destruct (run_ops sch fuel oc (st1, evs1) ops) as [rs1 fin] eqn:E2. inversion H; subst.
      eapply IH; [|exact E2]. eapply (run_op_inv sch s f Hroot Hroots Hown Honce oc Hchildren); eauto.
  Qed.

  Lemma run_tx_inv fuel st t : UInv sch s f st ->
    UInv sch s f (match run_tx sch fuel st t with (_, _, st', _) => st' end).
  Proof.
    intros HU. unfold run_tx.
    destruct (run_ops sch fuel _ (st, []) (tx_ops t)) as [rs fin] eqn:E. destruct fin as [[st1 evs1]|e]; [|exact HU].
    destruct (tx_precommit_fails t); [exact HU|]. eapply run_ops_inv; eauto.
  Qed.

  Lemma run_txs_inv fuel : forall ts st, UInv sch s f st -> UInv sch s f (run_txs sch fuel st ts).
  Proof.
    unfold run_txs. induction ts as [|t ts IH]; intros st HU; cbn [fold_left]; [exact HU|].
    apply IH. apply run_tx_inv. exact HU.
  Qed.

  Lemma UInv_empty : UInv sch s f st_empty.
  Proof.
    split.
    - intros v i H. cbn in H. discriminate.
    - intros i H. unfold pres, present in H. cbn in H. discriminate.
  Qed.

  (* the index mirrors the entities in every reachable state *)
  Lemma unique_index_mirrors_lemma fuel ts :
    let st := run_txs sch fuel st_empty ts in
    forall v i, al_get v (uidx st s f) = Some i <->
                (nonempty v = true /\ present sch st s i = true /\ fv_bytes (get_field sch st s i f) = v).
  Proof.
    intros st v i. destruct (run_txs_inv fuel ts st_empty UInv_empty) as [HS HC]. fold st in HS, HC. split.
    - apply HS.
    - intros [Hn [Hp Hf]]. specialize (HC i Hp (fun x => x)). unfold fbytes in HC. rewrite Hf in HC. apply HC. exact Hn.
  Qed.

  (* hence no two entities ever hold the same non-empty value *)
  Lemma unique_values_distinct_lemma fuel ts :
    let st := run_txs sch fuel st_empty ts in
    forall i j, present sch st s i = true -> present sch st s j = true ->
                fv_bytes (get_field sch st s i f) = fv_bytes (get_field sch st s j f) ->
                nonempty (fv_bytes (get_field sch st s i f)) = true -> i = j.
  Proof.
    intros st i j Hi Hj He Hn.
    pose proof (UInv_DInv sch s f (fun _ => False) st (run_txs_inv fuel ts st_empty UInv_empty)) as [_ [_ HI]].
    apply HI; assumption.
  Qed.
End UniqueHistories.
