(* C03, unique indexes: the index of a root store's unique constraint mirrors the entities in
   every reachable state.  Fixed: a schema, a root store [s] and an indexed field [f]. *)
From Coq Require Import List NArith Bool Lia.
From Storage Require Import Base.Bytes Base.BytesFacts Store.Model Store.AListFacts Store.FrameProofs.
Import ListNotations.

Section Unique.
  Variable sch : schema.
  Variable s f : name.

  Definition fbytes (st : state) (i : id) : str := fv_bytes (get_field sch st s i f).
  Definition pres (st : state) (i : id) : bool := present sch st s i.
  Definition ix (st : state) : alist id := uidx st s f.

  (* no stale entries *)
  Definition USound (st : state) : Prop :=
    forall v i, al_get v (ix st) = Some i -> nonempty v = true /\ pres st i = true /\ fbytes st i = v.
  (* every holder of a non-empty value is indexed (except entities in [G], which are being deleted) *)
  Definition UComplete (G : id -> Prop) (st : state) : Prop :=
    forall i, pres st i = true -> ~ G i -> nonempty (fbytes st i) = true -> al_get (fbytes st i) (ix st) = Some i.
  Definition UInv (st : state) : Prop := USound st /\ UComplete (fun _ => False) st.

  (* the view of the state the invariant depends on *)
  Definition same_view (st st' : state) : Prop :=
    ix st' = ix st /\ (forall i, pres st' i = pres st i) /\ (forall i, fbytes st' i = fbytes st i).

  Lemma same_view_refl st : same_view st st.
  Proof. repeat split. Qed.

  Lemma same_view_trans a b c : same_view a b -> same_view b c -> same_view a c.
  Proof. intros [A1 [A2 A3]] [B1 [B2 B3]]. repeat split; intros; congruence. Qed.

  Lemma fc_eq_view st st' : ents_fc_eq st st' -> ix st' = ix st -> same_view st st'.
  Proof.
    intros H Hi. split; [exact Hi|]. split; intros i.
    - apply present_fc. apply H.
    - unfold fbytes. f_equal. apply get_field_fc. apply H.
  Qed.

  Lemma USound_view st st' : same_view st st' -> USound st -> USound st'.
  Proof.
    intros [Hi [Hp Hf]] H v i Hg. rewrite Hi in Hg. rewrite Hp, Hf. apply H. exact Hg.
  Qed.

  Lemma UComplete_view G st st' : same_view st st' -> UComplete G st -> UComplete G st'.
  Proof.
    intros [Hi [Hp Hf]] H i Hpi HG Hne. rewrite Hi, Hf in *. rewrite Hp in Hpi. apply H; assumption.
  Qed.

  Lemma UInv_view st st' : same_view st st' -> UInv st -> UInv st'.
  Proof. intros Hv [H1 H2]. split; [eapply USound_view | eapply UComplete_view]; eauto. Qed.

  (* ---- well-formedness of the schema around (s, f) ---- *)
  Hypothesis Hroot : is_child sch s = false.
  Hypothesis Hroots : forall x, root_of sch (root_of sch x) = root_of sch x.
  (* the only constraint writing the index (s, f) is one unique constraint of store s *)
  Hypothesis Hown : forall s' nl, root_of sch s' = s -> In (CUnique f nl) (cons_of sch s') -> s' = s.

  Lemma root_s : root_of sch s = s.
  Proof.
    unfold is_child in Hroot. unfold root_of. destruct (find_store sch s) as [d|]; [|reflexivity].
    destruct (sd_parent d); [discriminate | reflexivity].
  Qed.

  (* a hook that is not the unique constraint of (s,f) leaves the view unchanged *)
  Lemma after_one_view st c k sv st' :
    after_update_one sch st c k sv = Ok st' ->
    ~ (root_of sch (ic_store c) = s /\ exists nl, k = CUnique f nl) ->
    same_view st st'.
  Proof.
    intros H Hn. apply after_update_one_frame in H as [Hfc Hu].
    apply fc_eq_view; [exact Hfc|]. unfold ix. destruct (Hu s f) as [E|[nl [E1 E2]]]; [exact E|].
    exfalso. apply Hn. split; [exact E2 | exists nl; exact E1].
  Qed.

  Definition not_ours (store : name) (k : cons) : Prop :=
    ~ (root_of sch store = s /\ exists nl, k = CUnique f nl).

  Lemma after_all_view c : forall ks svs st st',
    Forall (not_ours (ic_store c)) ks ->
    after_update_all sch st c ks svs = Ok st' -> same_view st st'.
  Proof.
    induction ks as [|k ks IH]; intros svs st st' Hall H; cbn [after_update_all] in H.
    - inversion H; subst. apply same_view_refl.
    - inversion Hall as [|? ? Hk Hks]; subst.
      destruct (after_update_one sch st c k _) as [st1|e] eqn:E1; cbn [bind] in H; [|discriminate].
      eapply same_view_trans; [eapply after_one_view; eauto | eapply IH; eauto].
  Qed.

  (* ---- the state between persisting entity i and the unique hook ---- *)
  Definition MidInv (old : str) (i : id) (st : state) : Prop :=
    pres st i = true /\
    (forall v j, al_get v (ix st) = Some j ->
                 nonempty v = true /\ pres st j = true /\ (j <> i -> fbytes st j = v) /\ (j = i -> v = old)) /\
    (forall j, j <> i -> pres st j = true -> nonempty (fbytes st j) = true -> al_get (fbytes st j) (ix st) = Some j) /\
    (nonempty old = true -> al_get old (ix st) = Some i).

  Lemma MidInv_view old i st st' : same_view st st' -> MidInv old i st -> MidInv old i st'.
  Proof.
    intros [Hi [Hp Hf]] [M1 [M2 [M3 M4]]]. unfold MidInv. rewrite Hi, Hp.
    split; [exact M1|]. split; [|split].
    - intros v j Hg. rewrite Hp, Hf. apply M2. exact Hg.
    - intros j Hj Hpj Hne. rewrite Hf in *. rewrite Hp in Hpj. apply M3; assumption.
    - exact M4.
  Qed.

  Lemma nonempty_false v : nonempty v = false -> v = [].
  Proof. destruct v; [reflexivity | discriminate]. Qed.

  (* the unique hook re-establishes the invariant *)
  Lemma unique_hook_restores old i st c nl sv st' :
    MidInv old i st -> ic_store c = s -> ic_id c = i -> sv_atom sv = old ->
    (ic_create c = true -> old = []) ->
    after_update_one sch st c (CUnique f nl) sv = Ok st' -> UInv st'.
  Proof.
    intros [M1 [M2 [M3 M4]]] Hs Hi Hsv Hcr H. cbn [after_update_one] in H.
    rewrite Hs, Hi, Hsv, root_s in H. fold (fbytes st i) in H. fold (ix st) in H.
    set (new := fbytes st i) in *.
    destruct (negb (ic_create c) && str_eqb old new) eqn:Eshort.
    - (* unchanged value *)
      inversion H; subst st'. apply andb_prop in Eshort as [_ Eq]. apply str_eqb_eq in Eq.
      split.
      + intros v j Hg. destruct (M2 v j Hg) as [A [B [C D]]]. split; [exact A|]. split; [exact B|].
        destruct (str_eq_dec j i) as [->|Hne]; [rewrite (D eq_refl); symmetry; exact Eq | apply C; exact Hne].
      + intros j Hp _ Hne. destruct (str_eq_dec j i) as [->|Hji]; [|apply M3; assumption].
        fold new. rewrite <- Eq. apply M4. rewrite Eq. exact Hne.
    - set (m := ix st) in *.
      set (m1 := if nonempty old then al_del old m else m) in *.
      assert (Hm1 : forall v j, al_get v m1 = Some j -> al_get v m = Some j /\ j <> i).
      { intros v j Hg. subst m1. destruct (nonempty old) eqn:Eo.
        - rewrite al_get_del in Hg. destruct (str_eqb old v) eqn:Ev; [discriminate|].
          split; [exact Hg|]. intros ->. destruct (M2 v i Hg) as [_ [_ [_ D]]]. apply str_eqb_neq in Ev. apply Ev. symmetry. apply D. reflexivity.
        - split; [exact Hg|]. intros ->. destruct (M2 v i Hg) as [A [_ [_ D]]].
          rewrite (D eq_refl) in A. congruence. }
      assert (Hm1c : forall j, j <> i -> pres st j = true -> nonempty (fbytes st j) = true -> al_get (fbytes st j) m1 = Some j).
      { intros j Hji Hp Hne. specialize (M3 j Hji Hp Hne). subst m1. destruct (nonempty old) eqn:Eo; [|exact M3].
        rewrite al_get_del. destruct (str_eqb old (fbytes st j)) eqn:Ev; [|exact M3].
        apply str_eqb_eq in Ev. rewrite <- Ev in M3. rewrite (M4 eq_refl) in M3. congruence. }
      destruct (nonempty new) eqn:Enew.
      + destruct (al_get new m1) eqn:Eg; [discriminate|]. destruct (key_ok new); [|discriminate].
        inversion H; subst st'. clear H. split.
        * intros v j Hg. unfold ix, pres, fbytes in *. rewrite uidx_set_uidx in Hg.
          rewrite present_set_uidx, get_field_set_uidx. rewrite al_get_put in Hg.
          destruct (str_eqb new v) eqn:Ev.
          -- apply str_eqb_eq in Ev. subst v. inversion Hg; subst j. repeat split; assumption.
          -- destruct (Hm1 v j Hg) as [Hg' Hji]. destruct (M2 v j Hg') as [A [B [C _]]].
             repeat split; [exact A | exact B | apply C; exact Hji].
        * intros j Hp _ Hne. unfold ix, pres, fbytes in *. rewrite uidx_set_uidx.
          rewrite present_set_uidx in Hp. rewrite get_field_set_uidx in *. rewrite al_get_put.
          destruct (str_eq_dec j i) as [->|Hji].
          -- fold new. rewrite str_eqb_refl. reflexivity.
          -- specialize (Hm1c j Hji Hp Hne).
             destruct (str_eqb new (fv_bytes (get_field sch st s j f))) eqn:Ev; [|exact Hm1c].
             apply str_eqb_eq in Ev. rewrite <- Ev in Hm1c. congruence.
      + destruct nl; [|discriminate]. inversion H; subst st'. clear H. split.
        * intros v j Hg. unfold ix, pres, fbytes in *. rewrite uidx_set_uidx in Hg.
          rewrite present_set_uidx, get_field_set_uidx.
          destruct (Hm1 v j Hg) as [Hg' Hji]. destruct (M2 v j Hg') as [A [B [C _]]].
          repeat split; [exact A | exact B | apply C; exact Hji].
        * intros j Hp _ Hne. unfold ix, pres, fbytes in *. rewrite uidx_set_uidx.
          rewrite present_set_uidx in Hp. rewrite get_field_set_uidx in *.
          destruct (str_eq_dec j i) as [->|Hji]; [fold new in Hne; congruence|].
          apply Hm1c; assumption.
  Qed.

  (* ---- running the whole constraint list ---- *)
  Definition is_ours (k : cons) : Prop := exists nl, k = CUnique f nl.

  (* the unique constraint occurs exactly once in the constraint list of s *)
  Hypothesis Honce : exists nl pre post,
    cons_of sch s = pre ++ CUnique f nl :: post /\ Forall (fun k => ~ is_ours k) pre /\ Forall (fun k => ~ is_ours k) post.

  Lemma not_ours_of_not_is_ours store ks : Forall (fun k => ~ is_ours k) ks -> Forall (not_ours store) ks.
  Proof.
    intros H. eapply Forall_impl; [|exact H]. intros k Hk [_ Ho]. apply Hk. exact Ho.
  Qed.

  Lemma after_all_pre c old i : forall pre rest svs st st',
    Forall (not_ours (ic_store c)) pre -> MidInv old i st ->
    after_update_all sch st c (pre ++ rest) svs = Ok st' ->
    exists st1, MidInv old i st1 /\ after_update_all sch st1 c rest (skipn (length pre) svs) = Ok st'.
  Proof.
    induction pre as [|k pre IH]; intros rest svs st st' Hall HM H.
    - exists st. split; [exact HM | exact H].
    - inversion Hall as [|? ? Hk Hks]; subst. cbn [app after_update_all] in H.
      destruct (after_update_one sch st c k _) as [st1|e] eqn:E1; cbn [bind] in H; [|discriminate].
      assert (MidInv old i st1) as HM1 by (eapply MidInv_view; [eapply after_one_view; eauto | exact HM]).
      destruct (IH rest _ st1 st' Hks HM1 H) as [st2 [HM2 H2]]. exists st2. split; [exact HM2|].
      destruct svs as [|x svs]; cbn [length skipn]; [destruct (length pre); exact H2 | exact H2].
  Qed.

  Lemma skipn_nil_any {A} n : skipn n (@nil A) = [].
  Proof. destruct n; reflexivity. Qed.

  Lemma before_all_at c st0 : forall pre k post svs,
    before_update_all sch st0 c (pre ++ k :: post) = Ok svs ->
    exists sv rest, before_update_one sch st0 c k = Ok sv /\ skipn (length pre) svs = sv :: rest.
  Proof.
    induction pre as [|p pre IH]; intros k post svs H; cbn [app before_update_all] in H.
    - destruct (before_update_one sch st0 c k) as [sv|e]; cbn [bind] in H; [|discriminate].
      destruct (before_update_all sch st0 c post) as [rest|e]; cbn [bind] in H; [|discriminate].
      inversion H; subst. exists sv, rest. split; reflexivity.
    - destruct (before_update_one sch st0 c p) as [svp|e]; cbn [bind] in H; [|discriminate].
      destruct (before_update_all sch st0 c (pre ++ k :: post)) as [svs'|e] eqn:E; cbn [bind] in H; [|discriminate].
      inversion H; subst. destruct (IH k post svs' E) as [sv [rest [H1 H2]]]. exists sv, rest. split; [exact H1 | exact H2].
  Qed.

  (* the constraint list of s, run after entity i was persisted, re-establishes the invariant *)
  Lemma after_all_restores c old i svs st st' :
    ic_store c = s -> ic_id c = i -> (ic_create c = true -> old = []) ->
    MidInv old i st ->
    (forall pre k post, cons_of sch s = pre ++ k :: post -> is_ours k ->
        sv_atom (hd SvNone (skipn (length pre) svs)) = old) ->
    after_update_all sch st c (cons_of sch s) svs = Ok st' -> UInv st'.
  Proof.
    intros Hs Hi Hcr HM Hsv H. destruct Honce as [nl [pre [post [Hc [Hpre Hpost]]]]].
    rewrite Hc in H.
    destruct (after_all_pre c old i pre _ svs st st' (not_ours_of_not_is_ours _ _ Hpre) HM H) as [st1 [HM1 H1]].
    cbn [after_update_all] in H1.
    destruct (after_update_one sch st1 c (CUnique f nl) _) as [st2|e] eqn:E2; cbn [bind] in H1; [|discriminate].
    assert (UInv st2) as HU.
    { eapply unique_hook_restores; [exact HM1 | exact Hs | exact Hi | | exact Hcr | exact E2].
      specialize (Hsv pre (CUnique f nl) post Hc (ex_intro _ nl eq_refl)).
      destruct (skipn (length pre) svs); exact Hsv. }
    eapply UInv_view; [|exact HU]. eapply after_all_view; [|exact H1].
    apply not_ours_of_not_is_ours. exact Hpost.
  Qed.

  (* ---- chains ---- *)
  Lemma chain_in s0 s' ks : In (s', ks) (chain sch s0) -> ks = cons_of sch s' /\ root_of sch s' = root_of sch s0.
  Proof.
    unfold chain. destruct (is_child sch s0) eqn:E; cbn; intros H.
    - destruct H as [H|[H|[]]]; inversion H; subst; split; auto.
    - destruct H as [H|[]]. inversion H; subst. split; reflexivity.
  Qed.

  Lemma after_chain_view i create sys : forall ch svs st st',
    (forall s' ks, In (s', ks) ch -> Forall (not_ours s') ks) ->
    after_chain sch st create sys i ch svs = Ok st' -> same_view st st'.
  Proof.
    induction ch as [|[s' ks] ch IH]; intros svs st st' Hall H; cbn [after_chain] in H.
    - inversion H; subst. apply same_view_refl.
    - destruct (after_update_all sch st _ ks _) as [st1|e] eqn:E1; cbn [bind] in H; [|discriminate].
      eapply same_view_trans.
      + eapply (after_all_view (mkIctx create sys s' i)); [|exact E1]. cbn. apply Hall. left. reflexivity.
      + eapply IH; [|exact H]. intros s2 ks2 Hin. apply Hall. right. exact Hin.
  Qed.

  Lemma not_ours_other_root s' ks : root_of sch s' <> s -> Forall (not_ours s') ks.
  Proof. intros Hne. apply Forall_forall. intros k _ [Hr _]. contradiction. Qed.

  Lemma not_ours_child s' : is_child sch s' = true -> Forall (not_ours s') (cons_of sch s').
  Proof.
    intros Hc. apply Forall_forall. intros k Hin [Hr [nl ->]].
    assert (s' = s) as -> by (eapply Hown; eauto). congruence.
  Qed.

  (* ---- persisting entity i of root store s ---- *)
  Lemma pres_set_ent st i e j : pres (set_ent st s i e) j = if str_eqb i j then true else pres st j.
  Proof.
    unfold pres, present. rewrite root_s, Hroot, get_ent_set_ent, str_eqb_refl. cbn [andb].
    destruct (str_eqb i j); [reflexivity|]. reflexivity.
  Qed.

  Lemma fbytes_set_ent_other st i e j : i <> j -> fbytes (set_ent st s i e) j = fbytes st j.
  Proof.
    intros Hne. unfold fbytes, get_field. rewrite root_s, get_ent_set_ent, str_eqb_refl. cbn [andb].
    assert (str_eqb i j = false) as -> by (apply str_eqb_neq; exact Hne). reflexivity.
  Qed.

  Lemma persist_mid_update st i e :
    UInv st -> pres st i = true -> MidInv (fbytes st i) i (set_ent st s i e).
  Proof.
    intros [HS HC] Hp. unfold MidInv. rewrite pres_set_ent, str_eqb_refl. split; [reflexivity|].
    change (ix (set_ent st s i e)) with (ix st). split; [|split].
    - intros v j Hg. destruct (HS v j Hg) as [A [B C]]. split; [exact A|]. split.
      + rewrite pres_set_ent. destruct (str_eqb i j); [reflexivity | exact B].
      + split.
        * intros Hne. rewrite fbytes_set_ent_other by congruence. exact C.
        * intros ->. symmetry. exact C.
    - intros j Hne Hpj Hn. rewrite pres_set_ent in Hpj.
      assert (str_eqb i j = false) as E by (apply str_eqb_neq; congruence). rewrite E in Hpj.
      rewrite fbytes_set_ent_other in * by congruence. apply HC; [exact Hpj | tauto | exact Hn].
    - intros Hn. apply HC; [exact Hp | tauto | exact Hn].
  Qed.

  Lemma persist_mid_create st i e :
    UInv st -> pres st i = false -> MidInv [] i (set_ent st s i e).
  Proof.
    intros [HS HC] Hp. unfold MidInv. rewrite pres_set_ent, str_eqb_refl. split; [reflexivity|].
    change (ix (set_ent st s i e)) with (ix st). split; [|split].
    - intros v j Hg. destruct (HS v j Hg) as [A [B C]]. split; [exact A|]. split.
      + rewrite pres_set_ent. destruct (str_eqb i j); [reflexivity | exact B].
      + split.
        * intros Hne. rewrite fbytes_set_ent_other by congruence. exact C.
        * intros ->. congruence.
    - intros j Hne Hpj Hn. rewrite pres_set_ent in Hpj.
      assert (str_eqb i j = false) as E by (apply str_eqb_neq; congruence). rewrite E in Hpj.
      rewrite fbytes_set_ent_other in * by congruence. apply HC; [exact Hpj | tauto | exact Hn].
    - cbn. discriminate.
  Qed.

  (* a change to an entity of another root store is invisible *)
  Lemma set_ent_other_view st r0 i e : r0 <> s -> same_view st (set_ent st r0 i e).
  Proof.
    intros Hne. split; [reflexivity|]. split; intros j.
    - unfold pres, present. rewrite root_s, get_ent_set_ent.
      assert (str_eqb r0 s = false) as -> by (apply str_eqb_neq; exact Hne). reflexivity.
    - unfold fbytes, get_field. rewrite root_s, get_ent_set_ent.
      assert (str_eqb r0 s = false) as -> by (apply str_eqb_neq; exact Hne). reflexivity.
  Qed.

  Lemma pres_of_present st s0 i : root_of sch s0 = s -> present sch st s0 i = true -> pres st i = true.
  Proof.
    intros Hr Hp. unfold pres, present in *. rewrite root_s, Hroot. rewrite Hr in Hp.
    destruct (get_ent st s i); [reflexivity | discriminate].
  Qed.

  (* ---- create ---- *)
  Lemma op_create_inv oc st evs s0 i sys fv sv st' evs' :
    UInv st -> op_create sch oc (st, evs) s0 i sys fv sv = Ok (st', evs') -> UInv st'.
  Proof.
    intros HU H. unfold op_create in H.
    destruct (find_store sch s0) as [d0|]; [|discriminate].
    destruct (negb (nonempty i)); [discriminate|].
    destruct (present sch st s0 i) eqn:Ep0; [discriminate|].
    destruct (present sch st (root_of sch s0) i) eqn:Epr; [discriminate|].
    destruct (negb (key_ok i)); [discriminate|].
    destruct (fire_cu sch oc evs s0 Created i) as [evs1|e]; cbn [bind] in H; [|discriminate].
    destruct (after_chain sch _ true (oc_sys oc) i (chain sch s0) []) as [st2|e] eqn:Eac; cbn [bind] in H; [|discriminate].
    inversion H; subst st' evs'. clear H.
    destruct (str_eq_dec (root_of sch s0) s) as [Hr|Hr].
    - (* an entity of our root store *)
      rewrite Hr in *.
      assert (pres st i = false) as Hpi by exact Epr.
      pose proof (persist_mid_create st i (persist sch s0 true sys fv sv None ent_empty) HU Hpi) as HM.
      unfold chain in Eac. destruct (is_child sch s0) eqn:Ec.
      + rewrite Hr in Eac. cbn [after_chain] in Eac.
        destruct (after_update_all sch _ _ (cons_of sch s) _) as [stA|e] eqn:EA; cbn [bind] in Eac; [|discriminate].
        assert (UInv stA) as HA.
        { eapply (after_all_restores (mkIctx true (oc_sys oc) s i) [] i []); try reflexivity; [exact HM | | exact EA].
          intros. rewrite skipn_nil_any. reflexivity. }
        destruct (after_update_all sch stA _ (cons_of sch s0) _) as [stB|e] eqn:EB; cbn [bind] in Eac; [|discriminate].
        inversion Eac; subst st2. eapply UInv_view; [|exact HA].
        eapply (after_all_view (mkIctx true (oc_sys oc) s0 i)); [|exact EB]. cbn. apply not_ours_child. exact Ec.
      + assert (s0 = s) as -> by (unfold root_of, is_child in *; destruct (find_store sch s0) as [d|]; [destruct (sd_parent d); [discriminate|exact Hr] | exact Hr]).
        cbn [after_chain] in Eac.
        destruct (after_update_all sch _ _ (cons_of sch s) _) as [stA|e] eqn:EA; cbn [bind] in Eac; [|discriminate].
        inversion Eac; subst st2.
        eapply (after_all_restores (mkIctx true (oc_sys oc) s i) [] i []); try reflexivity; [exact HM | | exact EA].
        intros. rewrite skipn_nil_any. reflexivity.
    - (* another root store *)
      eapply UInv_view; [|exact HU]. eapply same_view_trans.
      + apply set_ent_other_view. exact Hr.
      + eapply after_chain_view; [|exact Eac]. intros s' ks Hin.
        apply chain_in in Hin as [-> Hrs]. apply not_ours_other_root. congruence.
  Qed.

  (* ---- update ---- *)
  Lemma saved_at_hook st i sys svs :
    before_update_all sch st (mkIctx false sys s i) (cons_of sch s) = Ok svs ->
    forall pre k post, cons_of sch s = pre ++ k :: post -> is_ours k ->
      sv_atom (hd SvNone (skipn (length pre) svs)) = fbytes st i.
  Proof.
    intros Hb pre k post Hc [nl ->]. rewrite Hc in Hb.
    destruct (before_all_at _ _ _ _ _ _ Hb) as [sv [rest [H1 H2]]]. rewrite H2. cbn [hd].
    cbn in H1. inversion H1; subst. reflexivity.
  Qed.

  Lemma update_in_inv oc st evs s0 i fv sv ch st' evs' :
    UInv st -> update_in sch oc (st, evs) s0 i fv sv ch = Ok (st', evs') -> UInv st'.
  Proof.
    intros HU H. unfold update_in in H.
    destruct (negb (nonempty i)); [discriminate|].
    destruct (negb (loadable sch st s0 i)); [discriminate|].
    destruct (present sch st s0 i) eqn:Ep0; cbn [negb] in H; [|discriminate].
    destruct (fire_cu sch oc evs s0 Updated i) as [evs1|e]; cbn [bind] in H; [|discriminate].
    destruct (before_chain sch st false (oc_sys oc) i (chain sch s0)) as [svs|e] eqn:Ebc; cbn [bind] in H; [|discriminate].
    destruct (after_chain sch _ false (oc_sys oc) i (chain sch s0) svs) as [st2|e] eqn:Eac; cbn [bind] in H; [|discriminate].
    inversion H; subst st' evs'. clear H.
    destruct (str_eq_dec (root_of sch s0) s) as [Hr|Hr].
    - pose proof (pres_of_present st s0 i Hr Ep0) as Hpi.
      rewrite Hr in *.
      set (e1 := persist sch s0 false false fv sv ch _) in Eac.
      pose proof (persist_mid_update st i e1 HU Hpi) as HM.
      unfold chain in Eac, Ebc. destruct (is_child sch s0) eqn:Ec.
      + rewrite Hr in Eac, Ebc. cbn [before_chain] in Ebc.
        destruct (before_update_all sch st _ (cons_of sch s)) as [svsA|e] eqn:EbA; cbn [bind] in Ebc; [|discriminate].
        destruct (before_update_all sch st _ (cons_of sch s0)) as [svsB|e] eqn:EbB; cbn [bind] in Ebc; [|discriminate].
        inversion Ebc; subst svs. cbn [after_chain] in Eac.
        destruct (after_update_all sch _ _ (cons_of sch s) _) as [stA|e] eqn:EA; cbn [bind] in Eac; [|discriminate].
        assert (UInv stA) as HA.
        { eapply (after_all_restores (mkIctx false (oc_sys oc) s i) (fbytes st i) i svsA); try reflexivity;
            [cbn; discriminate | exact HM | | exact EA].
          eapply saved_at_hook. exact EbA. }
        destruct (after_update_all sch stA _ (cons_of sch s0) _) as [stB|e] eqn:EB; cbn [bind] in Eac; [|discriminate].
        inversion Eac; subst st2. eapply UInv_view; [|exact HA].
        eapply (after_all_view (mkIctx false (oc_sys oc) s0 i)); [|exact EB]. cbn. apply not_ours_child. exact Ec.
      + assert (s0 = s) as -> by (unfold root_of, is_child in *; destruct (find_store sch s0) as [d|]; [destruct (sd_parent d); [discriminate|exact Hr] | exact Hr]).
        cbn [before_chain] in Ebc.
        destruct (before_update_all sch st _ (cons_of sch s)) as [svsA|e] eqn:EbA; cbn [bind] in Ebc; [|discriminate].
        inversion Ebc; subst svs. cbn [after_chain] in Eac.
        destruct (after_update_all sch _ _ (cons_of sch s) _) as [stA|e] eqn:EA; cbn [bind] in Eac; [|discriminate].
        inversion Eac; subst st2.
        eapply (after_all_restores (mkIctx false (oc_sys oc) s i) (fbytes st i) i svsA); try reflexivity;
          [cbn; discriminate | exact HM | | exact EA].
        eapply saved_at_hook. exact EbA.
    - eapply UInv_view; [|exact HU]. eapply same_view_trans.
      + apply set_ent_other_view. exact Hr.
      + eapply after_chain_view; [|exact Eac]. intros s' ks Hin.
        apply chain_in in Hin as [-> Hrs]. apply not_ours_other_root. congruence.
  Qed.

  Lemma op_update_inv oc st evs s0 i fv sv ch st' evs' :
    UInv st -> op_update sch oc (st, evs) s0 i fv sv ch = Ok (st', evs') -> UInv st'.
  Proof.
    intros HU H. unfold op_update in H. destruct (find_store sch s0); [|discriminate].
    destruct (is_child sch s0); [eapply update_in_inv; eauto|].
    destruct (find _ (children_of sch s0)); eapply update_in_inv; eauto.
  Qed.

  (* ---- link operations only touch string sets ---- *)
  Lemma op_add_links_view s0 i lf : forall ts st st',
    op_add_links sch st s0 i lf ts = Ok st' -> same_view st st'.
  Proof.
    intros ts st st' H. unfold op_add_links in H. destruct (find_link sch s0 lf) as [[os of_]|]; [|discriminate].
    destruct (negb (present sch st s0 i)); [discriminate|].
    assert (forall ts acc st', fold_left (fun acc t => do cur <- acc;
               if present sch cur os t then Ok (backref_add sch (backref_add sch cur s0 i lf t) os t of_ i) else Err ENotFound) ts acc = Ok st' ->
             exists st0, acc = Ok st0 /\ same_view st0 st') as Hfold.
    { clear. induction ts as [|t ts IH]; intros acc st' H; cbn [fold_left] in H.
      - exists st'. split; [exact H | apply same_view_refl].
      - destruct (IH _ _ H) as [st1 [H1 Hv]]. destruct acc as [st0|e]; cbn [bind] in H1; [|discriminate].
        exists st0. split; [reflexivity|]. destruct (present sch st0 os t); [|discriminate]. inversion H1; subst st1.
        eapply same_view_trans; [|exact Hv]. apply fc_eq_view.
        + eapply ents_fc_eq_trans; apply backref_add_fc.
        + unfold ix. rewrite !backref_add_uidx. reflexivity. }
    destruct (Hfold _ _ _ H) as [st0 [E Hv]]. inversion E; subst. exact Hv.
  Qed.

  Lemma op_remove_links_view s0 i lf ts st st' :
    op_remove_links sch st s0 i lf ts = Ok st' -> same_view st st'.
  Proof.
    intros H. unfold op_remove_links in H. destruct (find_link sch s0 lf) as [[os of_]|]; [|discriminate].
    destruct (negb (present sch st s0 i)); [discriminate|]. inversion H; subst st'. clear H.
    revert st. induction ts as [|t ts IH]; intros st; cbn [fold_left]; [apply same_view_refl|].
    eapply same_view_trans; [|apply IH]. apply fc_eq_view.
    - eapply ents_fc_eq_trans; apply backref_del_fc.
    - unfold ix. rewrite !backref_del_uidx. reflexivity.
  Qed.
End Unique.
