(* C09 proofs, part 6: the whole check ([check_all]) as a list of jobs; soundness, completeness,
   read-only check mode and convergence of fix mode for every schema passing the boolean check [wf_c09]. *)
From Coq Require Import List NArith Bool Lia.
From Storage Require Import Base.Bytes Base.BytesFacts Store.Model Store.AListFacts Store.FrameProofs
  Store.Integrity Store.IntegrityLoops Store.IntegrityUnique Store.IntegritySet Store.IntegrityFk Store.IntegrityLinks.
Import ListNotations.

(* ---------------------------------------------------------------- jobs *)
(* one CheckIntegrity call of one link collection or one constraint *)
Inductive job :=
| JLink (s : name) (l : name * name * name)
| JCons (s : name) (k : cons).

Definition run_job (sch : schema) (fx : bool) (j : job) (st : state) : outcome :=
  match j with
  | JLink s l => check_link sch fx s l st
  | JCons s k => check_cons sch fx s k st
  end.

Definition links_of (sch : schema) (s : name) : list (name * name * name) :=
  match find_store sch s with Some d => sd_links d | None => [] end.

Definition store_jobs (sch : schema) (s : name) : list job :=
  map (JLink s) (links_of sch s) ++ map (JCons s) (cons_of sch s).

(* the jobs of "the check", in execution order *)
Definition jobs (sch : schema) : list job := flat_map (fun d => store_jobs sch (sd_name d)) sch.

Lemma pair_eta {A B} (p : A * B) : p = (fst p, snd p).
Proof. destruct p; reflexivity. Qed.

Lemma check_store_jobs sch fx s st : check_store sch fx s st = run_list (run_job sch fx) (store_jobs sch s) st.
Proof.
  unfold store_jobs. rewrite run_list_app, !run_list_map.
  assert (H : check_links sch fx s st = run_list (fun l => run_job sch fx (JLink s l)) (links_of sch s) st).
  { unfold check_links, links_of. destruct (find_store sch s); reflexivity. }
  rewrite (pair_eta (check_store sch fx s st)). unfold check_store. rewrite seq2_fst, seq2_snd, H. reflexivity.
Qed.

Theorem check_all_jobs sch fx st : check_all sch fx st = run_list (run_job sch fx) (jobs sch) st.
Proof.
  unfold check_all, jobs. rewrite run_list_flat_map. apply run_list_ext. intros d st' _. apply check_store_jobs.
Qed.

Lemma in_jobs sch j : In j (jobs sch) <->
  exists d, In d sch /\ (match j with
                         | JLink s l => s = sd_name d /\ In l (links_of sch s)
                         | JCons s k => s = sd_name d /\ In k (cons_of sch s)
                         end).
Proof.
  unfold jobs. rewrite in_flat_map. split; intros [d [Hd H]]; exists d; (split; [exact Hd|]).
  - unfold store_jobs in H. apply in_app_or in H as [H|H]; apply in_map_iff in H as [x [<- Hx]]; auto.
  - unfold store_jobs. apply in_or_app. destruct j as [s l|s k]; destruct H as [-> H]; [left | right]; apply in_map; exact H.
Qed.

(* ---------------------------------------------------------------- verdicts per job *)
(* consistent: the C03 / C04 / C05 mirror statements *)
Definition job_cons (sch : schema) (j : job) (st : state) : Prop :=
  match j with
  | JLink s (lf, os, of_) => LGood sch s lf os of_ st
  | JCons s (CUnique f nl) => UCons sch s f nl st
  | JCons s (CSetIdx f) => SCons sch s f st
  | JCons s (CFkIndex f t b nl) => FICons sch s f t b nl st
  | JCons s (CFkCons f t nl) => FCCons sch s f t nl st
  | JCons _ _ => True
  end.

(* what a fix run establishes: the mirror up to genuine data conflicts *)
Definition job_good (sch : schema) (j : job) (st : state) : Prop :=
  match j with
  | JLink s (lf, os, of_) => LGood sch s lf os of_ st
  | JCons s (CUnique f nl) => UGood sch s f st
  | JCons s (CSetIdx f) => SCons sch s f st
  | JCons s (CFkIndex f t b nl) => FIGood sch s f t b nl st
  | JCons s (CFkCons f t nl) => FCGood sch s f t nl st
  | JCons _ _ => True
  end.

Definition Consistent (sch : schema) (st : state) : Prop := forall j, In j (jobs sch) -> job_cons sch j st.
Definition Mirror (sch : schema) (st : state) : Prop := forall j, In j (jobs sch) -> job_good sch j st.

Lemma job_cons_good sch j st : job_cons sch j st -> job_good sch j st.
Proof.
  destruct j as [s [[lf os] of_]|s k]; cbn; [auto|]. destruct k; cbn; auto.
  - apply UCons_UGood.
  - apply FICons_FIGood.
  - apply FCCons_FCGood.
Qed.

Lemma Consistent_Mirror sch st : Consistent sch st -> Mirror sch st.
Proof. intros H j Hj. apply job_cons_good, H, Hj. Qed.

Lemma run_job_readonly sch j st : snd (run_job sch false j st) = st.
Proof.
  destruct j as [s [[lf os] of_]|s k]; cbn [run_job].
  - apply check_link_readonly.
  - destruct k; cbn [check_cons]; try reflexivity.
    + apply check_unique_readonly.
    + apply check_setidx_readonly.
    + apply check_fkindex_readonly.
    + apply check_fkcons_readonly.
Qed.

Lemma run_job_nil_iff sch j st : fst (run_job sch false j st) = [] <-> job_cons sch j st.
Proof.
  destruct j as [s [[lf os] of_]|s k]; cbn [run_job job_cons].
  - apply check_link_nil_iff.
  - destruct k; cbn [check_cons]; try (cbn; tauto).
    + apply check_unique_nil_iff.
    + apply check_setidx_nil_iff.
    + apply check_fkindex_nil_iff.
    + apply check_fkcons_nil_iff.
Qed.

Lemma job_good_reports sch j st : job_good sch j st ->
  forall x, In x (fst (run_job sch false j st)) -> unfixable (r_kind x) = true /\ r_fixed x = false.
Proof.
  destruct j as [s [[lf os] of_]|s k]; cbn [run_job job_good].
  - intros G x Hx. rewrite (proj2 (check_link_nil_iff sch s lf os of_ st) G) in Hx. destruct Hx.
  - destruct k; cbn [check_cons]; intros G x Hx; try (destruct Hx).
    + destruct (check_unique_good_reports sch s field nullable st G x Hx) as [[H|H] H2]; rewrite H; auto.
    + rewrite (proj2 (check_setidx_nil_iff sch s setf st) G) in Hx. destruct Hx.
    + destruct (check_fkindex_good_reports sch s field tstore backref nullable st G x Hx) as [[H|[H _]] H2]; rewrite H; auto.
    + destruct (check_fkcons_good_reports sch s field tstore nullable st G x Hx) as [[H|[H _]] H2]; rewrite H; auto.
Qed.

(* ---------------------------------------------------------------- cells read and written *)
Definition job_wf (sch : schema) (j : job) : bool :=
  match j with
  | JLink s (lf, os, of_) => negb (str_eqb (root_of sch s) (root_of sch os) && str_eqb lf of_)
  | JCons s (CFkIndex _ _ _ _) | JCons s (CFkCons _ _ _) => negb (is_child sch s)
  | JCons _ _ => true
  end.

Definition reads (sch : schema) (j : job) : list cell :=
  match j with
  | JLink s (lf, os, of_) => link_cells sch s lf os of_
  | JCons s (CUnique f _) => unique_reads sch s f
  | JCons s (CSetIdx f) => setidx_reads sch s f
  | JCons s (CFkIndex f t b _) => fkindex_reads sch s f t b
  | JCons s (CFkCons f _ _) => fld_cells sch s f
  | JCons _ _ => []
  end.

Definition writes (sch : schema) (j : job) : list cell :=
  match j with
  | JLink s (lf, os, of_) => link_cells sch s lf os of_
  | JCons s (CUnique f _) => [CU (root_of sch s) f]
  | JCons s (CSetIdx f) => [CS (root_of sch s) f]
  | JCons s (CFkIndex f t b _) => fkindex_writes sch s f t b
  | JCons s (CFkCons f _ _) => fkcons_cells sch s f
  | JCons _ _ => []
  end.

Lemma job_wf_link sch s lf os of_ : job_wf sch (JLink s (lf, os, of_)) = true ->
  root_of sch s <> root_of sch os \/ lf <> of_.
Proof.
  cbn. intros H. apply negb_true_iff, andb_false_iff in H as [H|H]; apply str_eqb_neq in H; auto.
Qed.

Lemma run_job_fix_good sch j st : job_wf sch j = true -> job_good sch j (snd (run_job sch true j st)).
Proof.
  destruct j as [s [[lf os] of_]|s k]; intros Hwf; cbn [run_job job_good].
  - apply check_link_fix_good. apply job_wf_link, Hwf.
  - destruct k; cbn [check_cons]; try exact I.
    + apply check_unique_fix_good.
    + apply check_setidx_fix_cons.
    + apply check_fkindex_fix_good. cbn in Hwf. apply negb_true_iff in Hwf. exact Hwf.
    + apply check_fkcons_fix_good. cbn in Hwf. apply negb_true_iff in Hwf. exact Hwf.
Qed.

Lemma run_job_writes sch fx j st : job_wf sch j = true -> same_except (writes sch j) st (snd (run_job sch fx j st)).
Proof.
  destruct j as [s [[lf os] of_]|s k]; intros Hwf; cbn [run_job writes].
  - apply check_link_writes.
  - destruct k; cbn [check_cons snd]; try apply same_except_refl.
    + apply check_unique_writes.
    + apply check_setidx_writes.
    + apply check_fkindex_writes. cbn in Hwf. apply negb_true_iff in Hwf. exact Hwf.
    + apply check_fkcons_writes. cbn in Hwf. apply negb_true_iff in Hwf. exact Hwf.
Qed.

Lemma job_good_frame sch j W st st' : same_except W st st' -> (forall c, In c (reads sch j) -> cmem c W = false) ->
  job_good sch j st -> job_good sch j st'.
Proof.
  destruct j as [s [[lf os] of_]|s k]; cbn [reads job_good]; intros Hs Hr.
  - apply (LGood_frame sch s lf os of_ W st st' Hs Hr).
  - destruct k; auto.
    + apply (UGood_frame sch s field W st st' Hs Hr).
    + apply (SCons_frame sch s setf W st st' Hs Hr).
    + apply (FIGood_frame sch s field tstore backref nullable W st st' Hs Hr).
    + apply (FCGood_frame sch s field tstore nullable W st st' Hs Hr).
Qed.

(* ---------------------------------------------------------------- a later job keeps an earlier verdict *)
Definition inverse_link (j j' : job) : bool :=
  match j, j' with
  | JLink s (lf, os, of_), JLink s' (lf', os', of') =>
      str_eqb s' os && str_eqb lf' of_ && str_eqb os' s && str_eqb of' lf
  | _, _ => false
  end.

(* the later job j' does not write what the verdict of the earlier job j reads - or it is j's inverse collection *)
Definition keeps (sch : schema) (j' j : job) : bool :=
  forallb (fun c => negb (cmem c (writes sch j'))) (reads sch j) || inverse_link j j'.

Lemma keeps_step sch j' j st : keeps sch j' j = true -> job_wf sch j' = true -> job_wf sch j = true ->
  job_good sch j st -> job_good sch j (snd (run_job sch true j' st)).
Proof.
  intros Hk Hwf' Hwf G. unfold keeps in Hk. apply orb_true_iff in Hk as [Hk|Hk].
  - apply (job_good_frame sch j (writes sch j') st _ (run_job_writes sch true j' st Hwf')); [|exact G].
    intros c Hc. rewrite forallb_forall in Hk. apply negb_true_iff, Hk, Hc.
  - destruct j as [s [[lf os] of_]|]; [|discriminate]. destruct j' as [s' [[lf' os'] of']|]; [|discriminate].
    cbn in Hk. apply andb_prop in Hk as [Hk H4]. apply andb_prop in Hk as [Hk H3]. apply andb_prop in Hk as [H1 H2].
    apply str_eqb_eq in H1, H2, H3, H4. subst s' lf' os' of'. cbn [run_job job_good] in *.
    apply inverse_link_keeps. exact G.
Qed.

Fixpoint jobs_ok (sch : schema) (l : list job) : bool :=
  match l with
  | [] => true
  | j :: r => job_wf sch j && forallb (fun j' => keeps sch j' j) r && jobs_ok sch r
  end.

(* the boolean well-formedness check of a schema for C09 *)
Definition wf_c09 (sch : schema) : bool := jobs_ok sch (jobs sch).

Lemma jobs_ok_wf sch l : jobs_ok sch l = true -> forall j, In j l -> job_wf sch j = true.
Proof.
  induction l as [|j0 l IH]; cbn; intros H j Hj; [destruct Hj|].
  apply andb_prop in H as [H H3]. apply andb_prop in H as [H1 H2]. destruct Hj as [<-|Hj]; [exact H1 | apply IH; assumption].
Qed.

Lemma run_jobs_keep sch j l : job_wf sch j = true ->
  (forall j', In j' l -> keeps sch j' j = true /\ job_wf sch j' = true) ->
  forall st, job_good sch j st -> job_good sch j (snd (run_list (run_job sch true) l st)).
Proof.
  intros Hwf Hall. apply run_list_inv_in. intros j' st' Hj' G. destruct (Hall j' Hj') as [Hk Hwf'].
  apply keeps_step; assumption.
Qed.

Theorem fix_jobs_good sch : forall l st, jobs_ok sch l = true ->
  forall j, In j l -> job_good sch j (snd (run_list (run_job sch true) l st)).
Proof.
  induction l as [|j0 l IH]; intros st Hok j Hj; [destruct Hj|].
  pose proof (jobs_ok_wf sch _ Hok) as Hwfs.
  cbn [jobs_ok] in Hok. apply andb_prop in Hok as [Hok H3]. apply andb_prop in Hok as [H1 H2].
  rewrite run_list_cons. cbn [snd]. destruct Hj as [<-|Hj].
  - apply run_jobs_keep; [exact H1 | | apply run_job_fix_good; exact H1].
    intros j' Hj'. split; [|apply Hwfs; right; exact Hj']. rewrite forallb_forall in H2. apply H2, Hj'.
  - apply IH; assumption.
Qed.

(* ---------------------------------------------------------------- the four parts of C09 *)
Theorem check_readonly_lemma sch st : snd (check_all sch false st) = st.
Proof. rewrite check_all_jobs. apply run_list_ro. intros j st'. apply run_job_readonly. Qed.

Theorem check_nil_iff sch st : fst (check_all sch false st) = [] <-> Consistent sch st.
Proof.
  rewrite check_all_jobs. rewrite run_list_ro_nil; [|intros j st'; apply run_job_readonly].
  unfold Consistent. split; intros H j Hj; apply run_job_nil_iff, H, Hj.
Qed.

Theorem check_sound_lemma sch st : Consistent sch st -> fst (check_all sch false st) = [].
Proof. apply check_nil_iff. Qed.

Theorem check_complete_lemma sch st : fst (check_all sch false st) = [] -> Consistent sch st.
Proof. apply check_nil_iff. Qed.

Theorem fix_mirror_lemma sch st : wf_c09 sch = true -> Mirror sch (snd (check_all sch true st)).
Proof. intros Hwf j Hj. rewrite check_all_jobs. apply fix_jobs_good; assumption. Qed.

Theorem mirror_reports_lemma sch st : Mirror sch st ->
  forall x, In x (fst (check_all sch false st)) -> unfixable (r_kind x) = true /\ r_fixed x = false.
Proof.
  intros M. rewrite check_all_jobs. apply run_list_ro_forall; [intros j st'; apply run_job_readonly|].
  intros j Hj x Hx. apply (job_good_reports sch j st (M j Hj) x Hx).
Qed.

Theorem fix_convergent_lemma sch st : wf_c09 sch = true ->
  let st' := snd (check_all sch true st) in
  (forall x, In x (fst (check_all sch false st')) -> unfixable (r_kind x) = true /\ r_fixed x = false) /\
  Mirror sch st'.
Proof. intros Hwf. cbn zeta. split; [apply mirror_reports_lemma|]; apply fix_mirror_lemma, Hwf. Qed.

(* a fix run whose re-check is clean left a consistent database *)
Corollary fix_clean_consistent_lemma sch st :
  fst (check_all sch false (snd (check_all sch true st))) = [] -> Consistent sch (snd (check_all sch true st)).
Proof. apply check_complete_lemma. Qed.

(* ---------------------------------------------------------------- Consistent in the words of C03 / C04 / C05 *)
Section MirrorForms.
  Variable sch : schema.
  Variable st : state.
  Hypothesis HC : Consistent sch st.

  (* C03, unique index: v -> i exactly when i is the present entity holding the non-empty value v
     (bbolt cannot store the empty key: [al_get [] ... = None] is a fact of the representation) *)
  Lemma consistent_unique_mirror s f nl : In (JCons s (CUnique f nl)) (jobs sch) ->
    al_get [] (uidx st (root_of sch s) f) = None ->
    forall v i, al_get v (uidx st (root_of sch s) f) = Some i <->
                (nonempty v = true /\ present sch st s i = true /\ fv_bytes (get_field sch st s i f) = v).
  Proof.
    intros Hj Hnil v i. destruct (HC _ Hj) as [A [B _]]. split.
    - intros Hg. destruct (A v i Hg) as [H1 H2]. split; [|split; assumption].
      destruct v; [congruence | reflexivity].
    - intros [Hn [Hp Hv]]. unfold UB, ufb in B. specialize (B i Hp). rewrite Hv in B. apply B, Hn.
  Qed.

  (* C03, set index: i is in the bucket of v exactly when i is a present entity whose set holds v; no empty key *)
  Lemma consistent_setidx_mirror s f : In (JCons s (CSetIdx f)) (jobs sch) ->
    (forall v i, In i (sidx_ids st (root_of sch s) f v) <-> (present sch st s i = true /\ In v (get_set sch st s i f))) /\
    (forall v, al_get v (sidx st (root_of sch s) f) <> Some []).
  Proof.
    intros Hj. destruct (HC _ Hj) as [A B]. split.
    - intros v i. split.
      + intros Hi. unfold sidx_ids in Hi. destruct (al_get v (sidx st (root_of sch s) f)) as [l|] eqn:E; [|destruct Hi].
        apply (proj2 (A v l E) i Hi).
      + intros [Hp Hv]. apply (B i Hp v Hv).
    - intros v E. destruct (A v [] E) as [H _]. congruence.
  Qed.

  (* C04: the back-reference set of a present target holds exactly the present referrers; targets exist
     (entity ids are bucket names, hence non-empty) *)
  Lemma consistent_backrefs_exact s f t b nl : In (JCons s (CFkIndex f t b nl)) (jobs sch) ->
    (forall ti x, present sch st t ti = true -> nonempty ti = true ->
       (In x (get_set sch st t ti b) <-> (present sch st s x = true /\ fv_bytes (get_field sch st s x f) = ti))) /\
    (forall i, present sch st s i = true -> nonempty (fv_bytes (get_field sch st s i f)) = true ->
               present sch st t (fv_bytes (get_field sch st s i f)) = true).
  Proof.
    intros Hj. destruct (HC _ Hj) as [A [B [T _]]]. split; [|exact T].
    intros ti x Hpt Hne. split.
    - intros Hx. destruct (A ti Hpt x Hx) as [H1 [_ H3]]. auto.
    - intros [Hp Hk]. unfold FB, fkey, brefs in B. specialize (B x Hp). rewrite Hk in B. apply B; assumption.
  Qed.

  (* C05: links are symmetric and never dangle, when the schema declares both directions *)
  Lemma consistent_links_symmetric s lf os of_ :
    In (JLink s (lf, os, of_)) (jobs sch) -> In (JLink os (of_, s, lf)) (jobs sch) ->
    forall i x, present sch st s i = true -> present sch st os x = true ->
      (In x (get_set sch st s i lf) <-> In i (get_set sch st os x of_)).
  Proof.
    intros H1 H2 i x Hi Hx. pose proof (HC _ H1) as G1. pose proof (HC _ H2) as G2. cbn in G1, G2. split; intros H.
    - apply (G1 i Hi x H).
    - apply (G2 x Hx i H).
  Qed.
End MirrorForms.

(* ---------------------------------------------------------------- with C03: reachable states *)
From Storage Require Import Store.UniqueProofs Store.WfSchema.

Theorem check_unique_sound_reachable_lemma sch s f fuel (txs : list tx) :
  wf_unique_b sch s f = true ->
  fst (check_unique sch false s f true (run_txs sch fuel st_empty txs)) = [].
Proof.
  intros Hwf. destruct (wf_unique_b_sound sch s f Hwf) as [H1 [H2 [H3 [H4 H5]]]].
  pose proof (unique_index_mirrors_lemma sch s f H1 H2 H3 H4 H5 fuel txs) as M. cbn zeta in M.
  assert (Hr : root_of sch s = s).
  { unfold root_of. unfold is_child in H1. destruct (find_store sch s) as [d|]; [|reflexivity].
    destruct (sd_parent d); [discriminate | reflexivity]. }
  apply check_unique_nil_iff. split; [|split].
  - intros v i Hg. rewrite Hr in Hg. apply M in Hg. tauto.
  - intros i Hp Hn. rewrite Hr. apply M. auto.
  - discriminate.
Qed.

(* ---------------------------------------------------------------- completeness / convergence, entry by entry *)
(* The direct forms used against "the bucket is not there at all": [get_set] reads an absent string set as [],
   [sidx_ids] an absent key bucket as [] - a missing entry is reported / repaired whatever the reason it is
   missing (entry removed, bucket emptied, bucket removed, or the target never had a referrer / link). *)
Lemma missing_backref_reported_lemma sch st s f t b nl i :
  In (JCons s (CFkIndex f t b nl)) (jobs sch) ->
  present sch st s i = true -> nonempty (fv_bytes (get_field sch st s i f)) = true ->
  ~ In i (get_set sch st t (fv_bytes (get_field sch st s i f)) b) ->
  fst (check_all sch false st) <> [].
Proof.
  intros Hj Hp Hne Hn H. apply check_complete_lemma in H.
  destruct (consistent_backrefs_exact sch st H s f t b nl Hj) as [A T].
  apply Hn. apply (A _ i (T i Hp Hne) Hne). split; [exact Hp | reflexivity].
Qed.

Lemma missing_reverse_link_reported_lemma sch st s lf os of_ i x :
  In (JLink s (lf, os, of_)) (jobs sch) ->
  present sch st s i = true -> In x (get_set sch st s i lf) -> ~ In i (get_set sch st os x of_) ->
  fst (check_all sch false st) <> [].
Proof.
  intros Hj Hp Hx Hn H. apply check_complete_lemma in H. pose proof (H _ Hj) as G. cbn in G.
  apply Hn. apply (G i Hp x Hx).
Qed.

Lemma missing_set_entry_reported_lemma sch st s f i v :
  In (JCons s (CSetIdx f)) (jobs sch) ->
  present sch st s i = true -> In v (get_set sch st s i f) -> ~ In i (sidx_ids st (root_of sch s) f v) ->
  fst (check_all sch false st) <> [].
Proof.
  intros Hj Hp Hv Hn H. apply check_complete_lemma in H.
  destruct (consistent_setidx_mirror sch st H s f Hj) as [A _]. apply Hn, A. split; assumption.
Qed.

(* after ONE fix run every referrer of an existing target is in that target's back-reference set, every link is
   reciprocated and every set value is indexed - also when the set / bucket did not exist before the run *)
Lemma fix_restores_backrefs_lemma sch st s f t b nl i :
  wf_c09 sch = true -> In (JCons s (CFkIndex f t b nl)) (jobs sch) ->
  let st' := snd (check_all sch true st) in
  present sch st' s i = true -> nonempty (fv_bytes (get_field sch st' s i f)) = true ->
  present sch st' t (fv_bytes (get_field sch st' s i f)) = true ->
  In i (get_set sch st' t (fv_bytes (get_field sch st' s i f)) b).
Proof.
  intros Hwf Hj st' Hp Hne Ht. destruct (fix_convergent_lemma sch st Hwf) as [_ M].
  pose proof (M _ Hj) as G. cbn in G. destruct G as [_ [B _]]. apply (B i Hp Hne Ht).
Qed.

Lemma fix_restores_reverse_links_lemma sch st s lf os of_ i x :
  wf_c09 sch = true -> In (JLink s (lf, os, of_)) (jobs sch) ->
  let st' := snd (check_all sch true st) in
  present sch st' s i = true -> In x (get_set sch st' s i lf) ->
  present sch st' os x = true /\ In i (get_set sch st' os x of_).
Proof.
  intros Hwf Hj st' Hp Hx. destruct (fix_convergent_lemma sch st Hwf) as [_ M].
  pose proof (M _ Hj) as G. cbn in G. apply (G i Hp x Hx).
Qed.
