(* Error-plumbing table of package boltz (C07): what each function does with the errors it sees.
   The table itself (Gen/GenErrFlow.v) is regenerated from the Go source by translators/errflow on
   every run; this file defines the obligation it must satisfy. *)
From Coq Require Import List String Bool.
Import ListNotations.
Open Scope string_scope.

Inductive disp :=
| DReturn    (* if err != nil { return …, err } *)
| DLatch     (* latched into an error holder that is returned later *)
| DSwallow   (* if err != nil { return …, nil } : reports success although an error occurred *)
| DDiscard   (* an error result is dropped *)
| DOther.    (* function does not return an error: logs, panics, converts *)

Record erow := mkRow { r_file : string; r_fn : string; r_ord : nat; r_disp : disp; r_what : string }.

(* printing to stdout is the only error result that may be ignored *)
Definition benign_discard (r : erow) : bool := prefix "call fmt." (r_what r).

Definition row_ok (r : erow) : bool :=
  match r_disp r with
  | DSwallow => false
  | DDiscard => benign_discard r
  | _ => true
  end.

Definition errflow_ok (tbl : list erow) : bool := forallb row_ok tbl.
Definition errflow_bad (tbl : list erow) : list erow := filter (fun r => negb (row_ok r)) tbl.

Lemma errflow_ok_spec tbl : errflow_ok tbl = true <-> forall r, In r tbl -> row_ok r = true.
Proof. unfold errflow_ok. apply forallb_forall. Qed.

Lemma errflow_bad_nil tbl : errflow_bad tbl = [] <-> errflow_ok tbl = true.
Proof.
  unfold errflow_bad, errflow_ok. induction tbl as [|r tbl IH]; cbn; [tauto|].
  destruct (row_ok r); cbn; [exact IH | split; discriminate].
Qed.
