(* C09 proofs, part 2: uniqueIndex.CheckIntegrity (check_unique of Store/Integrity.v) on arbitrary states. *)
From Coq Require Import List NArith Bool Lia.
From Storage Require Import Base.Bytes Base.BytesFacts Store.Model Store.AListFacts Store.FrameProofs
  Store.Integrity Store.IntegrityLoops.
Import ListNotations.

Section Unique.
  Variable sch : schema.
  Variables s f : name.
  Variable nullable : bool.
  Local Notation r := (root_of sch s).

  Definition ufb (st : state) (i : id) : str := fv_bytes (get_field sch st s i f).

  (* every index entry points to the present entity that holds the value *)
  Definition UA (st : state) : Prop :=
    forall v i, al_get v (uidx st r f) = Some i -> present sch st s i = true /\ ufb st i = v.
  (* every non-empty value of a present entity is indexed to that entity *)
  Definition UB (st : state) : Prop :=
    forall i, present sch st s i = true -> nonempty (ufb st i) = true -> al_get (ufb st i) (uidx st r f) = Some i.
  (* a non-nullable index: every present entity has a value *)
  Definition UNN (st : state) : Prop :=
    nullable = false -> forall i, present sch st s i = true -> nonempty (ufb st i) = true.
  (* consistent: the C03 mirror statement + no nil in a non-nullable index *)
  Definition UCons (st : state) : Prop := UA st /\ UB st /\ UNN st.
  (* what a fix run guarantees: the mirror up to genuine conflicts (several holders of one value) *)
  Definition UB' (st : state) : Prop :=
    forall i, present sch st s i = true -> nonempty (ufb st i) = true -> exists j, al_get (ufb st i) (uidx st r f) = Some j.
  Definition UGood (st : state) : Prop := UA st /\ UB' st.

  Lemma UCons_UGood st : UCons st -> UGood st.
  Proof. intros [A [B _]]. split; [exact A|]. intros i Hp Hn. exists i. apply B; assumption. Qed.

  (* ---- the loop bodies ---- *)
  Lemma scan1_fst fx v i st :
    fst (uniq_scan1_step sch fx s f (v, i) st) =
    if negb (present sch st s i) then [mkReport KUStale fx]
    else if negb (str_eqb v (ufb st i)) then [mkReport KUWrong fx] else [].
  Proof. unfold uniq_scan1_step, ufb. destruct (present sch st s i); cbn; [|reflexivity]. destruct (str_eqb v _); reflexivity. Qed.

  Lemma scan1_snd fx v i st :
    snd (uniq_scan1_step sch fx s f (v, i) st) =
    if fx && negb (present sch st s i && str_eqb v (ufb st i)) then set_uidx st r f (al_del v (uidx st r f)) else st.
  Proof.
    unfold uniq_scan1_step, ufb. destruct (present sch st s i); cbn.
    - destruct (str_eqb v _); cbn; destruct fx; reflexivity.
    - destruct fx; reflexivity.
  Qed.

  Lemma scan2_fst fx i st :
    fst (uniq_scan2_step sch fx s f nullable i st) =
    if negb (nonempty (ufb st i)) then (if nullable then [] else [mkReport KNil false])
    else match al_get (ufb st i) (uidx st r f) with
         | None => [mkReport KUMissing fx]
         | Some j => if str_eqb j i then [] else [mkReport KUConflict false]
         end.
  Proof.
    unfold uniq_scan2_step, ufb. destruct (nonempty _); cbn; [|reflexivity].
    destruct (al_get _ _) as [j|]; [destruct (str_eqb j i)|]; reflexivity.
  Qed.

  Lemma scan2_snd fx i st :
    snd (uniq_scan2_step sch fx s f nullable i st) =
    if fx && nonempty (ufb st i) && match al_get (ufb st i) (uidx st r f) with None => true | Some _ => false end
    then set_uidx st r f (al_put (ufb st i) i (uidx st r f)) else st.
  Proof.
    unfold uniq_scan2_step, ufb. destruct (nonempty _); cbn; [|destruct fx; reflexivity].
    destruct (al_get _ _) as [j|]; [destruct (str_eqb j i); destruct fx; reflexivity | destruct fx; reflexivity].
  Qed.

  Lemma scan1_ro : ro_body (uniq_scan1_step sch false s f).
  Proof. intros [v i] st. rewrite scan1_snd. reflexivity. Qed.
  Lemma scan2_ro : ro_body (uniq_scan2_step sch false s f nullable).
  Proof. intros i st. rewrite scan2_snd. reflexivity. Qed.

  (* ---- check-only ---- *)
  Theorem check_unique_readonly st : snd (check_unique sch false s f nullable st) = st.
  Proof. unfold check_unique. rewrite seq2_snd, !run_list_ro; auto using scan1_ro, scan2_ro. Qed.

  Lemma check_unique_false_fst st :
    fst (check_unique sch false s f nullable st) =
    fst (run_list (uniq_scan1_step sch false s f) (al_view (uidx st r f)) st) ++
    fst (run_list (uniq_scan2_step sch false s f nullable) (valid_ids sch st s) st).
  Proof. unfold check_unique. rewrite seq2_fst. rewrite (run_list_ro _ scan1_ro). reflexivity. Qed.

  Theorem check_unique_nil_iff st : fst (check_unique sch false s f nullable st) = [] <-> UCons st.
  Proof.
    rewrite check_unique_false_fst. split.
    - intros H. apply app_eq_nil in H as [H1 H2].
      rewrite (run_list_ro_nil _ scan1_ro) in H1. rewrite (run_list_ro_nil _ scan2_ro) in H2.
      split; [|split].
      + intros v i Hg. specialize (H1 (v, i) (proj2 (al_view_in _ v i) Hg)). rewrite scan1_fst in H1.
        destruct (present sch st s i); cbn in H1; [|discriminate]. split; [reflexivity|].
        destruct (str_eqb v (ufb st i)) eqn:E; cbn in H1; [|discriminate]. apply str_eqb_eq in E. congruence.
      + intros i Hp Hn. specialize (H2 i (proj2 (valid_ids_present sch st s i) Hp)). rewrite scan2_fst, Hn in H2. cbn in H2.
        destruct (al_get (ufb st i) (uidx st r f)) as [j|]; [|discriminate].
        destruct (str_eqb j i) eqn:E; [|discriminate]. apply str_eqb_eq in E. congruence.
      + intros Hnl i Hp. specialize (H2 i (proj2 (valid_ids_present sch st s i) Hp)). rewrite scan2_fst in H2.
        destruct (nonempty (ufb st i)); [reflexivity|]. cbn in H2. rewrite Hnl in H2. discriminate.
    - intros [A [B N]]. apply app_nil_iff. split.
      + apply (run_list_ro_nil _ scan1_ro). intros [v i] Hin. apply al_view_in in Hin. destruct (A v i Hin) as [Hp Hv].
        rewrite scan1_fst, Hp, Hv, str_eqb_refl. reflexivity.
      + apply (run_list_ro_nil _ scan2_ro). intros i Hin. apply valid_ids_present in Hin. rewrite scan2_fst.
        destruct (nonempty (ufb st i)) eqn:En; cbn.
        * rewrite (B i Hin En), str_eqb_refl. reflexivity.
        * destruct nullable eqn:Enl; [reflexivity|]. rewrite (N Enl i Hin) in En. discriminate.
  Qed.

  (* a state that a fix run left behind: only genuine conflicts are reported, never as fixed *)
  Theorem check_unique_good_reports st : UGood st ->
    forall x, In x (fst (check_unique sch false s f nullable st)) ->
      (r_kind x = KNil \/ r_kind x = KUConflict) /\ r_fixed x = false.
  Proof.
    intros [A B'] x Hx. rewrite check_unique_false_fst in Hx. apply in_app_or in Hx as [Hx|Hx].
    - exfalso. assert (Hn : fst (run_list (uniq_scan1_step sch false s f) (al_view (uidx st r f)) st) = []).
      { apply (run_list_ro_nil _ scan1_ro). intros [v i] Hin. apply al_view_in in Hin. destruct (A v i Hin) as [Hp Hv].
        rewrite scan1_fst, Hp, Hv, str_eqb_refl. reflexivity. }
      rewrite Hn in Hx. destruct Hx.
    - revert x Hx. apply (run_list_ro_forall _ _ scan2_ro). intros i Hin x Hx. apply valid_ids_present in Hin.
      rewrite scan2_fst in Hx. destruct (nonempty (ufb st i)) eqn:En; cbn in Hx.
      + destruct (B' i Hin En) as [j Hj]. rewrite Hj in Hx. destruct (str_eqb j i); [destruct Hx|].
        destruct Hx as [<-|[]]. cbn. auto.
      + destruct nullable; [destruct Hx|]. destruct Hx as [<-|[]]. cbn. auto.
  Qed.

  (* ---- fix ---- *)
  Lemma scan1_fix_spec st0 :
    let st1 := snd (run_list (uniq_scan1_step sch true s f) (al_view (uidx st0 r f)) st0) in
    ents st1 = ents st0 /\ UA st1.
  Proof.
    set (m0 := uidx st0 r f).
    set (I := fun st => ents st = ents st0 /\ forall v i, al_get v (uidx st r f) = Some i -> al_get v m0 = Some i).
    set (Q := fun (e : str * id) st => present sch st0 s (snd e) && str_eqb (fst e) (ufb st0 (snd e)) = false ->
                                      al_get (fst e) (uidx st r f) = None).
    assert (Hufb : forall st i, ents st = ents st0 -> ufb st i = ufb st0 i).
    { intros st i He. unfold ufb. rewrite (get_field_ents_eq sch st0 st s i f He). reflexivity. }
    destruct (run_list_post (uniq_scan1_step sch true s f) I Q (al_view m0)) with (st := st0) as [[He Hsub] HQ].
    - intros [v i] st _ [He Hs]. rewrite scan1_snd. cbn [andb].
      destruct (negb (present sch st s i && str_eqb v (ufb st i))); [|split; assumption].
      split; [exact He|]. intros v' i' Hg. rewrite uidx_set_uidx in Hg. rewrite al_get_del in Hg.
      destruct (str_eqb v v'); [discriminate | apply Hs; exact Hg].
    - intros [v i] st _ [He Hs]. unfold Q. cbn [fst snd]. intros Hbad. rewrite scan1_snd. cbn [andb].
      rewrite (present_ents_eq sch st0 st s i He), (Hufb st i He), Hbad. cbn [andb negb].
      rewrite uidx_set_uidx. apply al_get_del_same.
    - intros [v i] [v' i'] st _ _ [He Hs] Hq. unfold Q in *. cbn [fst snd] in *. intros Hbad. specialize (Hq Hbad).
      rewrite scan1_snd. cbn [andb]. destruct (negb _); [|exact Hq].
      rewrite uidx_set_uidx, al_get_del. destruct (str_eqb v' v); [reflexivity | exact Hq].
    - split; [reflexivity | auto].
    - cbn zeta. fold m0. split; [exact He|].
      intros v i Hg. pose proof (Hsub v i Hg) as H0. pose proof (HQ (v, i) (proj2 (al_view_in m0 v i) H0)) as Hq.
      unfold Q in Hq. cbn [fst snd] in Hq.
      rewrite (present_ents_eq sch st0 _ s i He), (Hufb _ i He).
      destruct (present sch st0 s i && str_eqb v (ufb st0 i)) eqn:E.
      + apply andb_prop in E as [E1 E2]. apply str_eqb_eq in E2. split; [exact E1 | congruence].
      + rewrite (Hq eq_refl) in Hg. discriminate.
  Qed.

  Lemma scan2_fix_spec st1 : UA st1 ->
    let st2 := snd (run_list (uniq_scan2_step sch true s f nullable) (valid_ids sch st1 s) st1) in
    ents st2 = ents st1 /\ UA st2 /\ UB' st2.
  Proof.
    intros HA.
    set (I := fun st => ents st = ents st1 /\ UA st).
    set (Q := fun (i : id) st => nonempty (ufb st1 i) = true -> exists j, al_get (ufb st1 i) (uidx st r f) = Some j).
    assert (Hufb : forall st i, ents st = ents st1 -> ufb st i = ufb st1 i).
    { intros st i He. unfold ufb. rewrite (get_field_ents_eq sch st1 st s i f He). reflexivity. }
    destruct (run_list_post (uniq_scan2_step sch true s f nullable) I Q (valid_ids sch st1 s)) with (st := st1) as [[He HA2] HQ].
    - intros i st Hin [He Ha]. rewrite scan2_snd. cbn [andb].
      destruct (nonempty (ufb st i)) eqn:En; [|split; assumption]. cbn [andb].
      destruct (al_get (ufb st i) (uidx st r f)) as [j|] eqn:Eg; [split; assumption|].
      split; [exact He|]. intros v' i' Hg. rewrite uidx_set_uidx, al_get_put in Hg.
      set (st' := set_uidx st r f (al_put (ufb st i) i (uidx st r f))).
      assert (He' : ents st' = ents st) by reflexivity.
      rewrite (present_ents_eq sch st st' s i' He').
      replace (ufb st' i') with (ufb st i') by (unfold ufb; rewrite (get_field_ents_eq sch st st' s i' f He'); reflexivity).
      destruct (str_eqb (ufb st i) v') eqn:E.
      + inversion Hg; subst i'. apply str_eqb_eq in E. split; [|exact E].
        apply valid_ids_present in Hin. rewrite (present_ents_eq sch st1 st s i He). exact Hin.
      + apply Ha. exact Hg.
    - intros i st Hin [He Ha]. unfold Q. intros Hn. rewrite scan2_snd. cbn [andb].
      rewrite (Hufb st i He), Hn. cbn [andb].
      destruct (al_get (ufb st1 i) (uidx st r f)) as [j|] eqn:Eg; [exists j; exact Eg|].
      exists i. rewrite uidx_set_uidx. apply al_get_put_same.
    - intros i y st _ _ [He Ha] Hq. unfold Q in *. intros Hn. destruct (Hq Hn) as [j Hj].
      rewrite scan2_snd. cbn [andb]. destruct (nonempty (ufb st y)); [|exists j; exact Hj]. cbn [andb].
      destruct (al_get (ufb st y) (uidx st r f)) as [j'|] eqn:Eg; [exists j; exact Hj|].
      rewrite uidx_set_uidx, al_get_put. destruct (str_eqb (ufb st y) (ufb st1 i)) eqn:E.
      + exists y. reflexivity.
      + exists j. exact Hj.
    - split; [reflexivity | exact HA].
    - cbn zeta. split; [exact He|]. split; [exact HA2|].
      intros i Hp Hn. rewrite (present_ents_eq sch st1 _ s i He) in Hp. rewrite (Hufb _ i He) in *.
      apply (HQ i (proj2 (valid_ids_present sch st1 s i) Hp) Hn).
  Qed.

  Theorem check_unique_fix_good st : UGood (snd (check_unique sch true s f nullable st)).
  Proof.
    unfold check_unique. rewrite seq2_snd.
    destruct (scan1_fix_spec st) as [He1 HA1].
    destruct (scan2_fix_spec _ HA1) as [He2 [HA2 HB2]]. split; assumption.
  Qed.

  (* ---- frame: the checker writes its own index bucket only, and its verdict depends only on that
          bucket, the presence of entities and the indexed field ---- *)
  Lemma check_unique_writes fx st : same_except [CU r f] st (snd (check_unique sch fx s f nullable st)).
  Proof.
    unfold check_unique. apply seq2_same_except; intros st'; apply run_list_same_except.
    - intros [v i] st2 _. rewrite scan1_snd. destruct (fx && _); [apply set_uidx_same_except | apply same_except_refl].
    - intros i st2 _. rewrite scan2_snd. destruct (fx && _ && _); [apply set_uidx_same_except | apply same_except_refl].
  Qed.

  Definition unique_reads : list cell := CU r f :: fld_cells sch s f.

  Lemma UGood_frame W st st' : same_except W st st' -> (forall c, In c unique_reads -> cmem c W = false) ->
    UGood st -> UGood st'.
  Proof.
    intros Hs Hr [A B].
    assert (Hix : uidx st' r f = uidx st r f) by (apply (proj1 (proj2 Hs)), Hr; left; reflexivity).
    assert (Hfb : forall i, ufb st' i = ufb st i).
    { intros i. unfold ufb. rewrite (same_except_get_field sch W st st' s i f Hs); [reflexivity|].
      intros c Hc. apply Hr. right. exact Hc. }
    split.
    - intros v i Hg. rewrite Hix in Hg. rewrite (same_except_present sch W st st' s i Hs), Hfb. apply A, Hg.
    - intros i Hp Hn. rewrite (same_except_present sch W st st' s i Hs) in Hp. rewrite Hfb in *. rewrite Hix. apply B; assumption.
  Qed.
End Unique.
