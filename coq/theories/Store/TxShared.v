(* C08, third strengthening - MutateContexts built AROUND an existing bbolt transaction
   (boltz/tx_context.go NewTxMutateContext), on top of Store/TxHooks.v.  Model only, no proofs
   (Store/TxSharedProofs.v).

       func NewTxMutateContext(context context.Context, tx *bbolt.Tx) MutateContext {
           ctx := &mutateContext{ctx: context}
           ctx.setTx(tx)                     // self.tx = tx; tx.OnCommit(self.handleCommit)
           return ctx
       }

   Two call sites exist for it:

   (1) the CALLER manages the bbolt transaction itself (bbolt Begin(true) ... Commit / Rollback, or bbolt's own
       Update / Batch) and wraps it: neither DbImpl.Update nor DbImpl.Batch opens anything.  A Db.Update / Db.Batch
       called with such a context finds ctx.Tx() != nil and joins ([HNest], as for every running transaction).
       Nobody calls runPreCommitActions (it is not exported and bbolt has no before-commit hook), and the
       tx-complete listeners of the DbImpl are registered only by the Db.Update / Db.Batch call that OPENS a
       transaction: with a caller-managed transaction the pre-commit actions never run and the tx-complete
       listeners are not involved.  The commit actions are hooked to the transaction by setTx in the constructor:
       once after the caller's commit, never after its rollback.
   (2) inside the function of a running transaction (whoever opened it) a SECOND context is built around
       ctx.Tx() and part of the work is done with it: its commit actions are hooked to the same transaction by
       its own handleCommit, its pre-commit actions are never run (Db.Update runs those of the context it was
       called with).

   Both are programs over the items of Store/TxHooks.v:

       TOwn it      item executed with the transaction's primary context (the one handed to Db.Update /
                    Db.Batch, or the one the caller built around its own transaction)
       TCtx body    ctx2 := NewTxMutateContext(ctx.Context(), ctx.Tx()); body runs with ctx2 (nested
                    Db.Update(ctx2, ..) calls inside it join, as always); ctx2 is not used afterwards *)
From Coq Require Import List NArith Bool Arith.
From Storage Require Import Base.Bytes Store.Model Store.Events Store.TxHooks.
Import ListNotations.

(* who opened the bbolt transaction *)
Inductive opener :=
| ByDb          (* DbImpl.Update / DbImpl.Batch called with a context that has no transaction *)
| ByCaller.     (* the caller; the primary context is NewTxMutateContext(.., tx) *)

Inductive titem :=
| TOwn (it : hitem)
| TCtx (body : list hitem).

(* the running transaction: Store/TxHooks.v's state for the primary context + the secondary contexts built so far
   (each holds what was registered on it; its handleCommit reads it at commit time) *)
Record tstate := mkT { t_b : bstate; t_sec : list mctx }.

Definition empty_ctx : mctx := mkMctx [] [].

Section Run.
  Variable sch : schema.
  Variable fuel : nat.
  Variable oc : octx.

  Definition run_titem (ti : titem) (t : tstate) : tstate * bool :=
    match ti with
    | TOwn it => let (b1, ok) := run_item sch fuel oc it (t_b t) in (mkT b1 (t_sec t), ok)
    | TCtx body =>
        let b := t_b t in
        (* a new context around the same transaction: same database state, same event queue *)
        let (b1, ok) := run_items sch fuel oc body (mkB empty_ctx (b_stev b) (b_sevs b) (b_rs b) (b_on_commit b)) in
        (mkT (mkB (b_ctx b) (b_stev b1) (b_sevs b1) (b_rs b1) (b_on_commit b1)) (t_sec t ++ [b_ctx b1]), ok)
    end.

  Fixpoint run_titems (l : list titem) (t : tstate) : tstate * bool :=
    match l with
    | [] => (t, true)
    | x :: r => let (t1, ok) := run_titem x t in if ok then run_titems r t1 else (t1, false)
    end.
End Run.

(* One bbolt write transaction shared by a primary context (registrations [ctx0] before the first item) and the
   secondary contexts of the program.  The function / the caller propagates the first error and the transaction
   is rolled back (ByCaller: tx.Rollback(), or the error returned to bbolt's Update); otherwise ByDb runs the
   primary context's pre-commit actions and registers the tx-complete listeners, ByCaller just commits.
   bbolt then runs every OnCommit handler once: handleCommit of the primary context (registered by setTx), the
   tx-complete closure (ByDb), handleCommit of every secondary context. *)
Definition shared_update (sch : schema) (fuel : nat) (st : state) (sys : bool) (vetoes : list veto)
    (opn : opener) (ctx0 : mctx) (prog : list titem) : hook_obs :=
  let oc := mkOctx sys vetoes in
  let (t1, ok) := run_titems sch fuel oc prog (mkT (mkB ctx0 (st, []) [] [] [HdlCommitActions]) []) in
  let b1 := t_b t1 in
  if ok then
    let '(commits, runs, pok) :=
      match opn with
      | ByDb => run_pre (mc_pre (b_ctx b1)) (mc_commit (b_ctx b1)) []
      | ByCaller => (mc_commit (b_ctx b1), [], true)
      end in
    if pok then
      let hs := b_on_commit b1 ++ match opn with ByDb => [HdlTxComplete] | ByCaller => [] end in
      mkHookObs (b_rs b1) true (fst (b_stev b1)) (b_sevs b1)
                (fire_commit_actions commits hs ++ flat_map mc_commit (t_sec t1)) runs (fire_tx_complete hs)
    else mkHookObs (b_rs b1) false st [] [] runs 0
  else mkHookObs (b_rs b1) false st [] [] [] 0.

(* ---------------------------------------------------------------- what a program registers / issues *)
Definition titem_ops (ti : titem) : list op := match ti with TOwn it => item_ops it | TCtx body => body_ops body end.
Definition prog_ops (l : list titem) : list op := flat_map titem_ops l.

Definition titem_own_commits (ti : titem) : list nat := match ti with TOwn it => item_commits it | TCtx _ => [] end.
Definition own_commits (l : list titem) : list nat := flat_map titem_own_commits l.

Definition titem_own_pres (ti : titem) : list (nat * pre_kind) := match ti with TOwn it => item_pres it | TCtx _ => [] end.
Definition own_pres (l : list titem) : list (nat * pre_kind) := flat_map titem_own_pres l.

(* the secondary contexts a completed program has built, with what was registered on each *)
Definition titem_sec (ti : titem) : list mctx :=
  match ti with TOwn _ => [] | TCtx body => [mkMctx (body_pres body) (body_commits body)] end.
Definition sec_ctxs (l : list titem) : list mctx := flat_map titem_sec l.

(* pre-commit actions somebody runs: those of the primary context of a transaction Db.Update / Db.Batch opened *)
Definition live_pres (opn : opener) (ctx0 : mctx) (l : list titem) : list (nat * pre_kind) :=
  match opn with ByDb => mc_pre ctx0 ++ own_pres l | ByCaller => [] end.
(* pre-commit actions nobody runs: on a context built around an existing transaction *)
Definition dead_pres (opn : opener) (ctx0 : mctx) (l : list titem) : list (nat * pre_kind) :=
  match opn with ByDb => [] | ByCaller => mc_pre ctx0 ++ own_pres l end ++ flat_map mc_pre (sec_ctxs l).

(* every commit action of a committed transaction: on the primary context (before the first item, by the items,
   by its pre-commit actions when they run), then on the secondary contexts *)
Definition shared_registered_commits (opn : opener) (ctx0 : mctx) (l : list titem) : list nat :=
  ((mc_commit ctx0 ++ own_commits l) ++ pre_added (live_pres opn ctx0 l)) ++ flat_map mc_commit (sec_ctxs l).

(* the transaction of the plain machine the program amounts to *)
Definition shared_tx (opn : opener) (sys : bool) (vetoes : list veto) (ctx0 : mctx) (l : list titem) : tx :=
  mkTx sys vetoes (prog_ops l) (existsb pre_fails (live_pres opn ctx0 l)).

Definition tc_runs (opn : opener) : nat := match opn with ByDb => 1 | ByCaller => 0 end.
