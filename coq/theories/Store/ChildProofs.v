(* C15: parent and child (extension) stores of the store machine.
   Fixed: a schema, a root store [r] and a child store [c] of it. *)
From Coq Require Import List NArith Bool Lia.
From Storage Require Import Base.Bytes Base.BytesFacts Store.Model Store.AListFacts Store.FrameProofs
  Store.DeleteFrame Store.SystemProofs Store.UniqueProofs Store.WfSchema.
Import ListNotations.

(* the value PersistEntity writes for field f (SetString / SetStringP of the harness strategy) *)
Definition written (fv : fieldvals) (f : name) (ptr : bool) : fval :=
  match lookup_fv fv f with
  | Some (Some v) => FStr v
  | _ => if ptr then FNil else FStr []
  end.

Lemma ss_mem_existsb f (decl : list (name * bool)) :
  ss_mem f (map fst decl) = existsb (fun p : name * bool => str_eqb (fst p) f) decl.
Proof.
  induction decl as [|[f0 p0] decl IH]; cbn; [reflexivity|]. rewrite IH, (str_eqb_sym f f0). reflexivity.
Qed.

Lemma persist_fields_get fv ch f ptr : forall decl cur,
  nodupb (map fst decl) = true -> In (f, ptr) decl ->
  al_get f (persist_fields decl fv ch cur) = if checked ch f then Some (written fv f ptr) else al_get f cur.
Proof.
  induction decl as [|[f0 p0] decl IH]; intros cur Hnd Hin; [contradiction|].
  cbn [map fst nodupb] in Hnd. apply andb_prop in Hnd as [Hn0 Hnd]. apply negb_true_iff in Hn0.
  change (persist_fields ((f0, p0) :: decl) fv ch cur) with
    (persist_fields decl fv ch
       (if checked ch f0 then
          match lookup_fv fv f0 with
          | Some (Some v) => al_put f0 (FStr v) cur
          | Some None => if p0 then al_put f0 FNil cur else al_put f0 (FStr []) cur
          | None => if p0 then al_put f0 FNil cur else al_put f0 (FStr []) cur
          end
        else cur)).
  destruct Hin as [Heq|Hin].
  - inversion Heq; subst f0 p0. rewrite ss_mem_existsb in Hn0.
    rewrite (persist_fields_other decl fv ch f _ Hn0).
    destruct (checked ch f); [|reflexivity]. unfold written.
    destruct (lookup_fv fv f) as [[v|]|]; try destruct ptr; apply al_get_put_same.
  - assert (f0 <> f) as Hne.
    { intros ->. assert (ss_mem f (map fst decl) = true) as Hm by (apply ss_mem_in; change f with (fst (f, ptr)); apply in_map; exact Hin).
      congruence. }
    rewrite (IH _ Hnd Hin). destruct (checked ch f); [reflexivity|].
    destruct (checked ch f0); [|reflexivity].
    destruct (lookup_fv fv f0) as [[v|]|]; try destruct p0; apply al_get_put_other; exact Hne.
Qed.

(* reads: a filter that accepts everything *)
Lemma filter_all {A} (p : A -> bool) l : (forall x, In x l -> p x = true) -> filter p l = l.
Proof.
  induction l as [|a l IH]; intros H; cbn; [reflexivity|]. rewrite (H a (or_introl eq_refl)). f_equal.
  apply IH. intros x Hx. apply H. right. exact Hx.
Qed.

Lemma present_in_ids sch st s i : present sch st s i = true -> In i (ids_of st (root_of sch s)).
Proof.
  intros H. apply present_get_ent in H. unfold ids_of. apply al_get_keys. exact H.
Qed.

Section Child.
  Variable sch : schema.
  Variable r c : name.
  Variable pd cd : sdef.

  Hypothesis Hr : find_store sch r = Some pd.
  Hypothesis Hc : find_store sch c = Some cd.
  Hypothesis Hrroot : sd_parent pd = None.
  Hypothesis Hcparent : sd_parent cd = Some r.

  Lemma root_c : root_of sch c = r.
  Proof. unfold root_of. rewrite Hc, Hcparent. reflexivity. Qed.
  Lemma root_r : root_of sch r = r.
  Proof. unfold root_of. rewrite Hr, Hrroot. reflexivity. Qed.
  Lemma is_child_c : is_child sch c = true.
  Proof. unfold is_child. rewrite Hc, Hcparent. reflexivity. Qed.
  Lemma is_child_r : is_child sch r = false.
  Proof. unfold is_child. rewrite Hr, Hrroot. reflexivity. Qed.

  Lemma present_r st i : present sch st r i = match get_ent st r i with Some _ => true | None => false end.
  Proof. unfold present. rewrite root_r, is_child_r. reflexivity. Qed.

  Lemma present_c st i :
    present sch st c i = match get_ent st r i with
                         | Some e => match al_get c (e_c e) with Some _ => true | None => false end
                         | None => false
                         end.
  Proof. unfold present. rewrite root_c, is_child_c. reflexivity. Qed.

  Lemma present_c_r st i : present sch st c i = true -> present sch st r i = true.
  Proof. rewrite present_c, present_r. destruct (get_ent st r i); [reflexivity | discriminate]. Qed.

  Lemma chain_c : chain sch c = [(r, cons_of sch r); (c, cons_of sch c)].
  Proof. unfold chain. rewrite is_child_c, root_c. reflexivity. Qed.

  (* a parent field read through the parent store *)
  Lemma get_field_r st i f : get_field sch st r i f = match get_ent st r i with Some e => ent_field e f | None => FAbsent end.
  Proof.
    unfold get_field. rewrite root_r. destruct (get_ent st r i); [|reflexivity]. rewrite Hr, is_child_r. reflexivity.
  Qed.

  (* ... and through the child store: the child sees the parent's fields *)
  Lemma child_sees_parent_fields st i f : declares_field cd f = false -> get_field sch st c i f = get_field sch st r i f.
  Proof.
    intros Hd. rewrite get_field_r. unfold get_field. rewrite root_c. destruct (get_ent st r i); [|reflexivity].
    rewrite Hc, Hd, andb_false_r. reflexivity.
  Qed.

  (* ================================================================ create through the child store *)
  Lemma persist_child create sys fv sv ch e :
    persist sch c create sys fv sv ch e =
    mkEnt (let f1 := persist_fields (sd_fields pd) fv ch (e_f e) in if create && sys then al_put isSystemF (FBool true) f1 else f1)
          (persist_sets (sd_sets pd) sv ch (e_s e))
          (al_put c (persist_fields (sd_fields cd) fv ch (match al_get c (e_c e) with Some x => x | None => [] end)) (e_c e)).
  Proof. unfold persist. rewrite Hc, Hcparent, Hr. reflexivity. Qed.

  Hypothesis Hnodup : nodupb (map fst (sd_fields pd)) = true.

  Lemma persisted_parent_field create sys fv sv ch e f ptr :
    In (f, ptr) (sd_fields pd) -> f <> isSystemF ->
    ent_field (persist sch c create sys fv sv ch e) f = if checked ch f then written fv f ptr else ent_field e f.
  Proof.
    intros Hin Hne. rewrite persist_child. unfold ent_field. cbn [e_f].
    assert (al_get f (persist_fields (sd_fields pd) fv ch (e_f e)) =
            if checked ch f then Some (written fv f ptr) else al_get f (e_f e)) as Hg
      by (apply persist_fields_get; assumption).
    destruct (create && sys).
    - rewrite al_get_put_other by congruence. rewrite Hg. destruct (checked ch f); reflexivity.
    - rewrite Hg. destruct (checked ch f); reflexivity.
  Qed.

  Lemma persisted_parent_field_root create sys fv sv ch e f ptr :
    In (f, ptr) (sd_fields pd) -> f <> isSystemF ->
    ent_field (persist sch r create sys fv sv ch e) f = if checked ch f then written fv f ptr else ent_field e f.
  Proof.
    intros Hin Hne. unfold persist. rewrite Hr, Hrroot. unfold ent_field. cbn [e_f].
    assert (al_get f (persist_fields (sd_fields pd) fv ch (e_f e)) =
            if checked ch f then Some (written fv f ptr) else al_get f (e_f e)) as Hg
      by (apply persist_fields_get; assumption).
    destruct (create && sys).
    - rewrite al_get_put_other by congruence. rewrite Hg. destruct (checked ch f); reflexivity.
    - rewrite Hg. destruct (checked ch f); reflexivity.
  Qed.

  Lemma child_create_in_both_lemma oc st evs i sys fv sv st' evs' :
    op_create sch oc (st, evs) c i sys fv sv = Ok (st', evs') ->
    present sch st' r i = true /\ present sch st' c i = true /\
    (forall f ptr, In (f, ptr) (sd_fields pd) -> f <> isSystemF -> get_field sch st' r i f = written fv f ptr) /\
    (forall j, j <> i -> ent_fc_eq (get_ent st' r j) (get_ent st r j)).
  Proof.
    intros H. unfold op_create in H. rewrite Hc, root_c in H.
    destruct (negb (nonempty i)); [discriminate|].
    destruct (present sch st c i); [discriminate|].
    destruct (present sch st r i); [discriminate|].
    destruct (negb (key_ok i)); [discriminate|].
    destruct (fire_cu sch oc evs c Created i) as [evs1|e]; cbn [bind] in H; [|discriminate].
    destruct (after_chain sch _ true (oc_sys oc) i (chain sch c) []) as [st2|e] eqn:Eac; cbn [bind] in H; [|discriminate].
    inversion H; subst st' evs'. clear H.
    pose proof (after_chain_fc _ _ _ _ _ _ _ _ Eac) as Hfc.
    set (e1 := persist sch c true sys fv sv None ent_empty) in *.
    assert (Hg : get_ent (set_ent st r i e1) r i = Some e1) by (rewrite get_ent_set_ent, !str_eqb_refl; reflexivity).
    split; [|split; [|split]].
    - rewrite (present_fc sch _ st2 r i) by (rewrite root_r; apply Hfc). rewrite present_r, Hg. reflexivity.
    - rewrite (present_fc sch _ st2 c i) by (rewrite root_c; apply Hfc). rewrite present_c, Hg.
      unfold e1. rewrite persist_child. cbn [e_c]. rewrite al_get_put_same. reflexivity.
    - intros f ptr Hin Hne. rewrite (get_field_fc sch _ st2 r i f) by (rewrite root_r; apply Hfc).
      rewrite get_field_r, Hg. unfold e1. rewrite (persisted_parent_field true sys fv sv None ent_empty f ptr Hin Hne). reflexivity.
    - intros j Hj. specialize (Hfc r j). rewrite get_ent_set_ent in Hfc.
      assert (str_eqb i j = false) as Eij by (apply str_eqb_neq; congruence). rewrite Eij, andb_false_r in Hfc.
      exact Hfc.
  Qed.

  (* ================================================================ reads *)
  Lemma query_ids_parent st : query_ids sch st r = ids_of st r.
  Proof. unfold query_ids. rewrite is_child_r, root_r. cbn [andb]. apply filter_all. reflexivity. Qed.

  Lemma valid_ids_parent st : valid_ids sch st r = ids_of st r.
  Proof. unfold valid_ids. rewrite is_child_r, root_r. apply filter_all. reflexivity. Qed.

  Lemma query_ids_plain_child st i : sd_ext cd = false ->
    In i (query_ids sch st c) <-> present sch st c i = true.
  Proof.
    intros He. unfold query_ids, is_ext. rewrite is_child_c, Hc, He, root_c. cbn [andb negb]. rewrite filter_In.
    split; [intros [_ H]; exact H | intros H; split; [|exact H]]. rewrite <- root_c. apply present_in_ids. exact H.
  Qed.

  Lemma query_ids_extended_child st : sd_ext cd = true -> query_ids sch st c = query_ids sch st r.
  Proof.
    intros He. rewrite query_ids_parent. unfold query_ids, is_ext. rewrite is_child_c, Hc, He, root_c. cbn [andb negb].
    apply filter_all. reflexivity.
  Qed.

  Lemma valid_ids_child st i : In i (valid_ids sch st c) <-> present sch st c i = true.
  Proof.
    unfold valid_ids. rewrite is_child_c, root_c, filter_In.
    split; [intros [_ H]; exact H | intros H; split; [|exact H]]. rewrite <- root_c. apply present_in_ids. exact H.
  Qed.

  Lemma find_ids_plain_child st i : sd_ext cd = false -> In i (find_ids sch st c) <-> present sch st c i = true.
  Proof.
    intros He. unfold find_ids, loadable, is_ext. rewrite Hc, He, root_c, filter_In. cbn [andb]. rewrite orb_false_r.
    split; [intros [_ H]; exact H | intros H; split; [|exact H]]. rewrite <- root_c. apply present_in_ids. exact H.
  Qed.

  Lemma find_ids_extended_child st : sd_ext cd = true -> find_ids sch st c = ids_of st r.
  Proof.
    intros He. unfold find_ids, loadable, is_ext. rewrite Hc, He, root_c. cbn [andb]. apply filter_all.
    intros i Hin. apply orb_true_iff. right. rewrite present_r. unfold ids_of in Hin. apply al_get_keys in Hin.
    unfold get_ent. destruct (al_get i (ents st r)); [reflexivity | congruence].
  Qed.

  (* ================================================================ update through either store *)
  (* the root store offers the entity to its child stores; the first one holding child data handles it *)
  Lemma update_either_store_lemma oc stev i fv sv ch d :
    find (fun d => present sch (fst stev) (sd_name d) i) (children_of sch r) = Some d ->
    op_update sch oc stev r i fv sv ch = update_in sch oc stev (sd_name d) i fv sv ch.
  Proof. intros Hf. unfold op_update. rewrite Hr, is_child_r, Hf. reflexivity. Qed.

  Lemma update_through_child oc stev i fv sv ch :
    op_update sch oc stev c i fv sv ch = update_in sch oc stev c i fv sv ch.
  Proof. unfold op_update. rewrite Hc, is_child_c. reflexivity. Qed.

  (* c is the child store that handles entity i: the first child store of r holding data for i *)
  Definition handles (st : state) (i : id) : Prop :=
    exists d, find (fun d => present sch st (sd_name d) i) (children_of sch r) = Some d /\ sd_name d = c.

  Lemma update_same_either_store oc stev i fv sv ch : handles (fst stev) i ->
    op_update sch oc stev r i fv sv ch = op_update sch oc stev c i fv sv ch.
  Proof.
    intros [d [Hf Hn]]. rewrite (update_either_store_lemma oc stev i fv sv ch d Hf), Hn, update_through_child. reflexivity.
  Qed.

  (* when c is the only child store of r, it handles exactly the entities with child data *)
  Lemma handles_only_child st i : children_of sch r = [cd] -> present sch st c i = true -> handles st i.
  Proof.
    intros Hch Hp. exists cd. rewrite Hch. cbn [find].
    assert (sd_name cd = c) as Hn by (destruct (find_store_in _ _ _ Hc) as [_ Hn]; exact Hn).
    split; [|exact Hn]. rewrite Hn, Hp. reflexivity.
  Qed.

  (* the shared fields carry the new values after an update entered through s0 in {r, c} *)
  Lemma update_in_shared_fields oc st evs s0 i fv sv ch st' evs' f ptr :
    s0 = r \/ s0 = c ->
    update_in sch oc (st, evs) s0 i fv sv ch = Ok (st', evs') ->
    In (f, ptr) (sd_fields pd) -> f <> isSystemF ->
    get_field sch st' r i f = if checked ch f then written fv f ptr else get_field sch st r i f.
  Proof.
    intros Hs0 H Hin Hne. unfold update_in in H.
    destruct (negb (nonempty i)); [discriminate|].
    destruct (negb (loadable sch st s0 i)); [discriminate|].
    destruct (negb (present sch st s0 i)) eqn:Ep; [discriminate|]. apply negb_false_iff in Ep.
    destruct (fire_cu sch oc evs s0 Updated i) as [evs1|e]; cbn [bind] in H; [|discriminate].
    destruct (before_chain sch st false (oc_sys oc) i (chain sch s0)) as [svs|e]; cbn [bind] in H; [|discriminate].
    destruct (after_chain sch _ false (oc_sys oc) i (chain sch s0) svs) as [st2|e] eqn:Eac; cbn [bind] in H; [|discriminate].
    inversion H; subst st' evs'. clear H.
    pose proof (after_chain_fc _ _ _ _ _ _ _ _ Eac) as Hfc.
    assert (root_of sch s0 = r) as Hroot by (destruct Hs0; subst s0; [apply root_r | apply root_c]).
    rewrite Hroot in *.
    rewrite (get_field_fc sch _ st2 r i f) by (rewrite root_r; apply Hfc).
    rewrite !get_field_r, get_ent_set_ent, !str_eqb_refl. cbn [andb].
    assert (get_ent st r i <> None) as Hex.
    { destruct Hs0; subst s0; [rewrite present_r in Ep | apply present_c_r in Ep; rewrite present_r in Ep];
        destruct (get_ent st r i); congruence. }
    destruct (get_ent st r i) as [e0|]; [|congruence].
    destruct Hs0; subst s0; [apply persisted_parent_field_root | apply persisted_parent_field]; assumption.
  Qed.

  (* ================================================================ delete through either store *)
  Lemma delete_either_store_lemma oc n stev i :
    delete_by_id sch oc n stev c i = delete_by_id sch oc n stev r i.
  Proof. destruct n as [|n]; [reflexivity|]. cbn [delete_by_id]. rewrite root_c, root_r. reflexivity. Qed.

  (* a successful delete leaves neither part *)
  Lemma delete_removes_both_lemma oc n st evs s0 i st' evs' :
    s0 = r \/ s0 = c ->
    delete_by_id sch oc n (st, evs) s0 i = Ok (st', evs') ->
    get_ent st' r i = None /\ present sch st' r i = false /\ present sch st' c i = false.
  Proof.
    intros Hs0 H.
    assert (get_ent st' r i = None) as Hg.
    { assert (root_of sch s0 = r) as Hroot by (destruct Hs0; subst s0; [apply root_r | apply root_c]).
      destruct n as [|n]; cbn [delete_by_id] in H; [discriminate|]. rewrite Hroot in H. cbn [fst] in H.
      destruct (negb (present sch st r i)); [discriminate|].
      destruct (children_delete sch oc (delete_by_id sch oc n) i (children_of sch r) (st, evs) [])
        as [[[st1 evs1] flows]|e]; cbn [bind] in H; [|discriminate]. cbn [fst] in H.
      destruct (present sch st1 r i) eqn:Ep1; cbn [negb] in H.
      - destruct (process_delete sch oc (delete_by_id sch oc n) (st1, evs1) r i) as [[st2 evs2]|e]; cbn [bind] in H; [|discriminate].
        cbn [fst snd] in H.
        destruct (fire (oc_vetoes oc) evs2 r Deleted i _) as [evs3|e]; cbn [bind] in H; [|discriminate].
        destruct (fire_flows oc i flows evs3) as [evs4|e]; cbn [bind] in H; [|discriminate].
        inversion H; subst st' evs'. rewrite get_ent_del_ent, !str_eqb_refl. reflexivity.
      - inversion H; subst st' evs'. rewrite present_r in Ep1. destruct (get_ent st1 r i); [discriminate | reflexivity]. }
    split; [exact Hg|]. rewrite present_r, present_c, Hg. split; reflexivity.
  Qed.
End Child.

(* ================================================================ the boolean check and closed statements *)
Definition fields_of (sch : schema) (s : name) : list (name * bool) :=
  match find_store sch s with Some d => sd_fields d | None => [] end.

Definition wf_child_b (sch : schema) (r c : name) : bool :=
  match find_store sch r, find_store sch c with
  | Some pd, Some cd =>
      (match sd_parent pd with None => true | Some _ => false end) &&
      (match sd_parent cd with Some p => str_eqb p r | None => false end) &&
      nodupb (map fst (sd_fields pd))
  | _, _ => false
  end.

Lemma wf_child_b_sound sch r c : wf_child_b sch r c = true ->
  exists pd cd, find_store sch r = Some pd /\ find_store sch c = Some cd /\ sd_parent pd = None /\
                sd_parent cd = Some r /\ nodupb (map fst (sd_fields pd)) = true.
Proof.
  unfold wf_child_b. destruct (find_store sch r) as [pd|]; [|discriminate]. destruct (find_store sch c) as [cd|]; [|discriminate].
  intros H. apply andb_prop in H as [H H3]. apply andb_prop in H as [H1 H2].
  exists pd, cd. repeat split; try assumption.
  - destruct (sd_parent pd); [discriminate | reflexivity].
  - destruct (sd_parent cd) as [p|]; [|discriminate]. apply str_eqb_eq in H2. subst. reflexivity.
Qed.

Lemma child_create_in_both_closed sch r c oc st evs i sys fv sv st' evs' :
  wf_child_b sch r c = true ->
  op_create sch oc (st, evs) c i sys fv sv = Ok (st', evs') ->
  present sch st' r i = true /\ present sch st' c i = true /\
  (forall f ptr, In (f, ptr) (fields_of sch r) -> f <> isSystemF -> get_field sch st' r i f = written fv f ptr).
Proof.
  intros Hwf H. destruct (wf_child_b_sound _ _ _ Hwf) as [pd [cd [H1 [H2 [H3 [H4 H5]]]]]].
  destruct (child_create_in_both_lemma sch r c pd cd H1 H2 H3 H4 H5 oc st evs i sys fv sv st' evs' H) as [A [B [C _]]].
  split; [exact A|]. split; [exact B|]. unfold fields_of. rewrite H1. exact C.
Qed.

Lemma child_query_only_children_closed sch r c st :
  wf_child_b sch r c = true ->
  (is_ext sch c = false -> forall i, In i (query_ids sch st c) <-> present sch st c i = true) /\
  (is_ext sch c = true -> query_ids sch st c = query_ids sch st r) /\
  query_ids sch st r = ids_of st r /\
  (forall i, In i (valid_ids sch st c) <-> present sch st c i = true) /\
  (is_ext sch c = false -> forall i, In i (find_ids sch st c) <-> present sch st c i = true) /\
  (is_ext sch c = true -> find_ids sch st c = ids_of st r) /\
  (forall i, present sch st c i = true -> present sch st r i = true).
Proof.
  intros Hwf. destruct (wf_child_b_sound _ _ _ Hwf) as [pd [cd [H1 [H2 [H3 [H4 H5]]]]]].
  assert (is_ext sch c = sd_ext cd) as He by (unfold is_ext; rewrite H2; reflexivity). rewrite He.
  split; [intros E i; exact (query_ids_plain_child sch r c cd H2 H4 st i E)|].
  split; [intros E; exact (query_ids_extended_child sch r c pd cd H1 H2 H3 H4 st E)|].
  split; [exact (query_ids_parent sch r pd H1 H3 st)|].
  split; [intros i; exact (valid_ids_child sch r c cd H2 H4 st i)|].
  split; [intros E i; exact (find_ids_plain_child sch r c cd H2 H4 st i E)|].
  split; [intros E; exact (find_ids_extended_child sch r c pd cd H1 H2 H3 H4 st E)|].
  intros i. exact (present_c_r sch r c pd cd H1 H2 H3 H4 st i).
Qed.

Lemma child_sees_parent_fields_closed sch r c st i f :
  wf_child_b sch r c = true -> existsb (fun p => str_eqb (fst p) f) (fields_of sch c) = false ->
  get_field sch st c i f = get_field sch st r i f.
Proof.
  intros Hwf Hd. destruct (wf_child_b_sound _ _ _ Hwf) as [pd [cd [H1 [H2 [H3 [H4 H5]]]]]].
  unfold fields_of in Hd. rewrite H2 in Hd.
  exact (child_sees_parent_fields sch r c pd cd H1 H2 H3 H4 st i f Hd).
Qed.

Lemma update_either_store_closed sch r c oc stev i fv sv ch :
  wf_child_b sch r c = true -> handles sch r c (fst stev) i ->
  op_update sch oc stev r i fv sv ch = op_update sch oc stev c i fv sv ch.
Proof.
  intros Hwf Hh. destruct (wf_child_b_sound _ _ _ Hwf) as [pd [cd [H1 [H2 [H3 [H4 H5]]]]]].
  exact (update_same_either_store sch r c pd cd H1 H2 H3 H4 oc stev i fv sv ch Hh).
Qed.

Lemma handles_only_child_closed sch r c st i :
  wf_child_b sch r c = true -> map sd_name (children_of sch r) = [c] -> present sch st c i = true -> handles sch r c st i.
Proof.
  intros Hwf Hch Hp. destruct (children_of sch r) as [|d [|d2 l]] eqn:E; try discriminate.
  cbn [map] in Hch. injection Hch as Hn. unfold handles. rewrite E. exists d. split; [|exact Hn]. cbn [find]. rewrite Hn, Hp. reflexivity.
Qed.

Lemma update_writes_shared_fields_closed sch r c oc st evs s0 i fv sv ch st' evs' f ptr :
  wf_child_b sch r c = true -> s0 = r \/ s0 = c ->
  op_update sch oc (st, evs) s0 i fv sv ch = Ok (st', evs') ->
  (s0 = r -> forall d, In d (children_of sch r) -> sd_name d = c) ->
  In (f, ptr) (fields_of sch r) -> f <> isSystemF ->
  get_field sch st' r i f = if checked ch f then written fv f ptr else get_field sch st r i f.
Proof.
  intros Hwf Hs0 H Honly Hin Hne. destruct (wf_child_b_sound _ _ _ Hwf) as [pd [cd [H1 [H2 [H3 [H4 H5]]]]]].
  unfold fields_of in Hin. rewrite H1 in Hin.
  assert (exists s1, (s1 = r \/ s1 = c) /\ update_in sch oc (st, evs) s1 i fv sv ch = Ok (st', evs')) as [s1 [Hs1 Hu]].
  { unfold op_update in H. destruct Hs0 as [-> | ->].
    - rewrite H1, (is_child_r sch r pd H1 H3) in H.
      destruct (find _ (children_of sch r)) as [d|] eqn:Ef.
      + exists c. split; [right; reflexivity|]. apply find_some in Ef as [Hind _]. rewrite (Honly eq_refl d Hind) in H. exact H.
      + exists r. split; [left; reflexivity | exact H].
    - rewrite H2, (is_child_c sch r c cd H2 H4) in H. exists c. split; [right; reflexivity | exact H]. }
  exact (update_in_shared_fields sch r c pd cd H1 H2 H3 H4 H5 oc st evs s1 i fv sv ch st' evs' f ptr Hs1 Hu Hin Hne).
Qed.

Lemma delete_either_store_closed sch r c oc n stev i :
  wf_child_b sch r c = true -> delete_by_id sch oc n stev c i = delete_by_id sch oc n stev r i.
Proof.
  intros Hwf. destruct (wf_child_b_sound _ _ _ Hwf) as [pd [cd [H1 [H2 [H3 [H4 H5]]]]]].
  exact (delete_either_store_lemma sch r c pd cd H1 H2 H3 H4 oc n stev i).
Qed.

Lemma delete_removes_both_closed sch r c oc n st evs s0 i st' evs' :
  wf_child_b sch r c = true -> s0 = r \/ s0 = c ->
  delete_by_id sch oc n (st, evs) s0 i = Ok (st', evs') ->
  present sch st' r i = false /\ present sch st' c i = false /\ ~ In i (query_ids sch st' r) /\ ~ In i (query_ids sch st' c).
Proof.
  intros Hwf Hs0 H. destruct (wf_child_b_sound _ _ _ Hwf) as [pd [cd [H1 [H2 [H3 [H4 H5]]]]]].
  destruct (delete_removes_both_lemma sch r c pd cd H1 H2 H3 H4 oc n st evs s0 i st' evs' Hs0 H) as [Hg [A B]].
  split; [exact A|]. split; [exact B|].
  assert (~ In i (ids_of st' r)) as Hni by (unfold ids_of; intros Hin; apply al_get_keys in Hin; unfold get_ent in Hg; congruence).
  split; intros Hin; apply Hni.
  - rewrite (query_ids_parent sch r pd H1 H3) in Hin. exact Hin.
  - unfold query_ids in Hin. apply filter_In in Hin as [Hin _]. rewrite (root_c sch r c cd H2 H4) in Hin. exact Hin.
Qed.

(* ---- the parent's unique index under operations entering through the child store ---- *)
Lemma parent_constraints_apply_closed sch r f fuel oc st evs o st' evs' :
  wf_unique_b sch r f = true -> UInv sch r f st ->
  run_op sch fuel oc (st, evs) o = Ok (st', evs') -> UInv sch r f st'.
Proof.
  intros Hwf HU H. destruct (wf_unique_b_sound sch r f Hwf) as [H1 [H2 [H3 [H4 H5]]]].
  exact (run_op_inv sch r f H1 H2 H3 H4 oc H5 fuel st evs o st' evs' HU H).
Qed.

(* uniqueness is enforced for entities created through the child store: a duplicate of a parent's unique value is refused *)
Lemma child_create_duplicate_rejected_closed sch r c f ptr oc st evs i j v sys fv sv :
  wf_unique_b sch r f = true -> wf_child_b sch r c = true -> UInv sch r f st ->
  In (f, ptr) (fields_of sch r) -> f <> isSystemF ->
  lookup_fv fv f = Some (Some v) -> nonempty v = true ->
  j <> i -> present sch st r j = true -> fv_bytes (get_field sch st r j f) = v ->
  exists k, op_create sch oc (st, evs) c i sys fv sv = Err k.
Proof.
  intros Hwfu Hwf HU Hin Hne Hl Hnv Hji Hpj Hvj.
  destruct (op_create sch oc (st, evs) c i sys fv sv) as [[st' evs']|k] eqn:E; [|eexists; reflexivity]. exfalso.
  destruct (wf_unique_b_sound sch r f Hwfu) as [U1 [U2 [U3 [U4 U5]]]].
  pose proof (op_create_inv sch r f U1 U2 U3 U4 oc st evs c i sys fv sv st' evs' HU E) as HU'.
  destruct (wf_child_b_sound _ _ _ Hwf) as [pd [cd [H1 [H2 [H3 [H4 H5]]]]]].
  unfold fields_of in Hin. rewrite H1 in Hin.
  destruct (child_create_in_both_lemma sch r c pd cd H1 H2 H3 H4 H5 oc st evs i sys fv sv st' evs' E) as [A [_ [C D]]].
  pose proof (D j Hji) as Dj.
  assert (root_of sch r = r) as Hrr by (exact (root_r sch r pd H1 H3)).
  assert (present sch st' r j = true) as Hpj' by (rewrite (present_fc sch st st' r j); [exact Hpj | rewrite Hrr; exact Dj]).
  assert (get_field sch st' r j f = get_field sch st r j f) as Hfj by (apply get_field_fc; rewrite Hrr; exact Dj).
  destruct (UInv_DInv sch r f (fun _ => False) st' HU') as [_ [_ HI]].
  apply Hji. symmetry. apply (HI i j A Hpj').
  - unfold fbytes. rewrite (C f ptr Hin Hne), Hfj, Hvj. unfold written. rewrite Hl. reflexivity.
  - unfold fbytes. rewrite (C f ptr Hin Hne). unfold written. rewrite Hl. exact Hnv.
Qed.
