(* Frame of the delete path of the store machine, generic in a relation [R] on states that is
   reflexive, transitive and contains [ents_fc_eq] (same entities, same fields and child data):
   every delete-time constraint hook, the cascade loop, link cleanup and the child-store fan-out
   relate the state before to the state after by [R], provided the recursive DeleteById does.
   Instances: [ents_shrink] (entities only disappear; survivors keep fields and child data). *)
From Coq Require Import List NArith Bool Lia.
From Storage Require Import Base.Bytes Base.BytesFacts Store.Model Store.AListFacts Store.FrameProofs.
Import ListNotations.

Section DeleteFrame.
  Variable sch : schema.
  Variable oc : octx.
  Variable R : state -> state -> Prop.
  Hypothesis R_refl : forall a, R a a.
  Hypothesis R_trans : forall a b c, R a b -> R b c -> R a c.
  Hypothesis R_fc : forall a b, ents_fc_eq a b -> R a b.

  Definition DelR (del : st_ev -> name -> id -> res st_ev) : Prop :=
    forall stev s0 x stev', del stev s0 x = Ok stev' -> R (fst stev) (fst stev').

  Lemma cascade_loop_R del rs f0 i0 : DelR del -> forall cands cur cur',
    cascade_loop sch del rs f0 i0 cands cur = Ok cur' -> R (fst cur) (fst cur').
  Proof.
    intros Hdel. induction cands as [|c0 cands IH]; intros cur cur' H; cbn [cascade_loop] in H.
    - inversion H; subst. apply R_refl.
    - destruct (casc_matches sch rs f0 i0 (fst cur) c0).
      + destruct (del cur rs c0) as [cur1|e] eqn:Ed; cbn [bind] in H; [|discriminate].
        eapply R_trans; [eapply Hdel; exact Ed | apply IH; exact H].
      + apply IH; exact H.
  Qed.

  Lemma bd_one_R del st evs c k st' evs' : DelR del ->
    before_delete_one sch oc del (st, evs) c k = Ok (st', evs') -> R st st'.
  Proof.
    intros Hdel H.
    destruct k as [f0 nl|f0|f0 t b nl|b|f0 t nl|rs f0 cs|]; cbn [before_delete_one] in H.
    - destruct (nonempty _); inversion H; subst; [|apply R_refl].
      apply R_fc. apply ents_eq_fc. reflexivity.
    - destruct (negb _); [discriminate|]. inversion H; subst.
      apply R_fc. apply ents_eq_fc. apply fold_sidx_remove_ents.
    - destruct (nonempty _).
      + destruct (present sch st t _); [|discriminate]. inversion H; subst. apply R_fc. apply backref_del_fc.
      + inversion H; subst. apply R_refl.
    - destruct (get_set sch st (ic_store c) (ic_id c) b); [|discriminate]. inversion H; subst. apply R_refl.
    - inversion H; subst. apply R_refl.
    - destruct cs.
      + destruct (existsb _ _); [discriminate|]. inversion H; subst. apply R_refl.
      + apply (cascade_loop_R del rs f0 (ic_id c) Hdel _ (st, evs) (st', evs') H).
    - destruct (get_field sch st (ic_store c) (ic_id c) isSystemF) as [| |y|[|]];
        try (inversion H; subst; apply R_refl).
      destruct (oc_sys oc); [|discriminate]. inversion H; subst. apply R_refl.
  Qed.

  Lemma bd_all_R del c : DelR del -> forall ks st evs st' evs',
    before_delete_all sch oc del (st, evs) c ks = Ok (st', evs') -> R st st'.
  Proof.
    intros Hdel. induction ks as [|k ks IH]; intros st evs st' evs' H; cbn [before_delete_all] in H.
    - inversion H; subst. apply R_refl.
    - destruct (before_delete_one sch oc del (st, evs) c k) as [[st1 evs1]|e] eqn:E1; cbn [bind] in H; [|discriminate].
      eapply R_trans; [eapply bd_one_R; eauto | eapply IH; eauto].
  Qed.

  Lemma bd_chain_R del x : DelR del -> forall ch st evs st' evs',
    before_delete_chain sch oc del x ch (st, evs) = Ok (st', evs') -> R st st'.
  Proof.
    intros Hdel. induction ch as [|[s' ks] ch IH]; intros st evs st' evs' H; cbn [before_delete_chain] in H.
    - inversion H; subst. apply R_refl.
    - destruct (before_delete_all sch oc del (st, evs) _ ks) as [[st1 evs1]|e] eqn:E1; cbn [bind] in H; [|discriminate].
      eapply R_trans; [eapply bd_all_R; eauto | eapply IH; eauto].
  Qed.

  Lemma cleanup_links_fc st s0 x : ents_fc_eq st (cleanup_links sch st s0 x).
  Proof.
    unfold cleanup_links. destruct (find_store sch s0) as [d|]; [|apply ents_fc_eq_refl].
    generalize (sd_links d). intros ls. revert st. induction ls as [|[[lf os] of_] ls IH]; intros st; cbn [fold_left].
    - apply ents_fc_eq_refl.
    - eapply ents_fc_eq_trans; [|apply IH].
      generalize (get_set sch st s0 x lf). intros ms. revert st. induction ms as [|m ms IHm]; intros st; cbn [fold_left].
      + apply ents_fc_eq_refl.
      + eapply ents_fc_eq_trans; [|apply IHm]. apply backref_del_fc.
  Qed.

  Lemma process_delete_R del st evs s0 x st' evs' : DelR del ->
    process_delete sch oc del (st, evs) s0 x = Ok (st', evs') -> R st st'.
  Proof.
    intros Hdel H. unfold process_delete in H.
    destruct (before_delete_chain sch oc del x (chain sch s0) (st, evs)) as [[st1 evs1]|e] eqn:E1; cbn [bind] in H; [|discriminate].
    inversion H; subst. cbn [fst].
    eapply R_trans; [eapply bd_chain_R; eauto | apply R_fc, cleanup_links_fc].
  Qed.

  Lemma children_delete_R del x : DelR del -> forall cs cur flows cur' flows',
    children_delete sch oc del x cs cur flows = Ok (cur', flows') -> R (fst cur) (fst cur').
  Proof.
    intros Hdel. induction cs as [|d cs IH]; intros cur flows cur' flows' H; cbn [children_delete] in H.
    - inversion H; subst. apply R_refl.
    - destruct (loadable sch (fst cur) (sd_name d) x); [|eapply IH; eauto].
      destruct cur as [st evs].
      destruct (process_delete sch oc del (st, evs) (sd_name d) x) as [[st1 evs1]|e] eqn:E1; cbn [bind] in H; [|discriminate].
      eapply R_trans; [eapply process_delete_R; eauto | apply (IH _ _ _ _ H)].
  Qed.
End DeleteFrame.

(* ---- instance: entities only disappear ---- *)
Lemma del_ent_shrink st r i : ents_shrink st (del_ent st r i).
Proof.
  intros r0 i0. rewrite get_ent_del_ent. destruct (str_eqb r r0 && str_eqb i i0); [exact I|].
  destruct (get_ent st r0 i0) as [e|]; [|exact I]. exists e. auto.
Qed.

Lemma delete_shrink sch oc : forall n, DelR ents_shrink (delete_by_id sch oc n).
Proof.
  induction n as [|n IH]; intros stev s0 x stev' H; cbn [delete_by_id] in H; [discriminate|].
  destruct (negb (present sch (fst stev) (root_of sch s0) x)); [discriminate|].
  destruct (children_delete sch oc (delete_by_id sch oc n) x (children_of sch (root_of sch s0)) stev [])
    as [[stev1 flows]|e] eqn:Ech; cbn [bind] in H; [|discriminate].
  pose proof (children_delete_R sch oc ents_shrink ents_shrink_refl ents_shrink_trans ents_fc_eq_shrink _ x IH _ _ _ _ _ Ech) as H1.
  cbn [fst] in H1.
  destruct (negb (present sch (fst stev1) (root_of sch s0) x)).
  - inversion H; subst. exact H1.
  - destruct stev1 as [st1 evs1].
    destruct (process_delete sch oc (delete_by_id sch oc n) (st1, evs1) (root_of sch s0) x) as [[st2 evs2]|e] eqn:Epd;
      cbn [bind] in H; [|discriminate].
    pose proof (process_delete_R sch oc ents_shrink ents_shrink_refl ents_shrink_trans ents_fc_eq_shrink _ _ _ _ _ _ _ IH Epd) as H2.
    cbn [fst snd] in H.
    destruct (fire (oc_vetoes oc) evs2 (root_of sch s0) Deleted x _) as [evs3|e]; cbn [bind] in H; [|discriminate].
    destruct (fire_flows oc x flows evs3) as [evs4|e]; cbn [bind] in H; [|discriminate].
    inversion H; subst. cbn [fst] in *.
    eapply ents_shrink_trans; [exact H1|]. eapply ents_shrink_trans; [exact H2 | apply del_ent_shrink].
Qed.

(* ---- create / update chains and link operations keep entities, fields and child data ---- *)
Lemma after_all_fc sch c : forall ks svs st st',
  after_update_all sch st c ks svs = Ok st' -> ents_fc_eq st st'.
Proof.
  induction ks as [|k ks IH]; intros svs st st' H; cbn [after_update_all] in H.
  - inversion H; subst. apply ents_fc_eq_refl.
  - destruct (after_update_one sch st c k _) as [st1|e] eqn:E1; cbn [bind] in H; [|discriminate].
    eapply ents_fc_eq_trans; [eapply after_update_one_frame; exact E1 | eapply IH; exact H].
Qed.

Lemma after_chain_fc sch create sys i : forall ch svs st st',
  after_chain sch st create sys i ch svs = Ok st' -> ents_fc_eq st st'.
Proof.
  induction ch as [|[s' ks] ch IH]; intros svs st st' H; cbn [after_chain] in H.
  - inversion H; subst. apply ents_fc_eq_refl.
  - destruct (after_update_all sch st _ ks _) as [st1|e] eqn:E1; cbn [bind] in H; [|discriminate].
    eapply ents_fc_eq_trans; [eapply after_all_fc; exact E1 | eapply IH; exact H].
Qed.

Lemma op_add_links_fc sch s0 i lf ts st st' :
  op_add_links sch st s0 i lf ts = Ok st' -> ents_fc_eq st st'.
Proof.
  intros H. unfold op_add_links in H. destruct (find_link sch s0 lf) as [[os of_]|]; [|discriminate].
  destruct (negb (present sch st s0 i)); [discriminate|].
  assert (forall ts acc st', fold_left (fun acc t => do cur <- acc;
             if present sch cur os t then Ok (backref_add sch (backref_add sch cur s0 i lf t) os t of_ i) else Err ENotFound) ts acc = Ok st' ->
           exists st0, acc = Ok st0 /\ ents_fc_eq st0 st') as Hfold.
  { clear. induction ts as [|t ts IH]; intros acc st' H; cbn [fold_left] in H.
    - exists st'. split; [exact H | apply ents_fc_eq_refl].
    - destruct (IH _ _ H) as [st1 [H1 Hv]]. destruct acc as [st0|e]; cbn [bind] in H1; [|discriminate].
      exists st0. split; [reflexivity|]. destruct (present sch st0 os t); [|discriminate]. inversion H1; subst st1.
      eapply ents_fc_eq_trans; [|exact Hv]. eapply ents_fc_eq_trans; apply backref_add_fc. }
  destruct (Hfold _ _ _ H) as [st0 [E Hv]]. inversion E; subst. exact Hv.
Qed.

Lemma op_remove_links_fc sch s0 i lf ts st st' :
  op_remove_links sch st s0 i lf ts = Ok st' -> ents_fc_eq st st'.
Proof.
  intros H. unfold op_remove_links in H. destruct (find_link sch s0 lf) as [[os of_]|]; [|discriminate].
  destruct (negb (present sch st s0 i)); [discriminate|]. inversion H; subst st'. clear H.
  revert st. induction ts as [|t ts IH]; intros st; cbn [fold_left]; [apply ents_fc_eq_refl|].
  eapply ents_fc_eq_trans; [|apply IH]. eapply ents_fc_eq_trans; apply backref_del_fc.
Qed.
