(* The change types of a listener registration are fixed at registration time (C08, fifth strengthening).
   Model: Store/EventsReg.v (Go slices over a heap of arrays, the registration expression of store_crud.go, caller
   programs that re-use and overwrite their slices). *)
From Coq Require Import List Bool Arith Lia.
From Storage Require Import Base.Bytes Store.Model Store.Events Store.EventsReg.
Import ListNotations.

Lemma hget_cons n a v arrs b :
  hget (mkHeap n ((a, v) :: arrs)) b = if Nat.eqb a b then Some v else hget (mkHeap n arrs) b.
Proof. unfold hget. cbn. destruct (Nat.eqb a b); reflexivity. Qed.

Lemma hget_next n m arrs b : hget (mkHeap n arrs) b = hget (mkHeap m arrs) b.
Proof. reflexivity. Qed.

Lemma hget_hset h a v b : hget (hset h a v) b = if Nat.eqb a b then Some v else hget h b.
Proof. unfold hset. rewrite hget_cons. destruct h; reflexivity. Qed.

Lemma hget_halloc h lib cells b :
  hget (fst (halloc h lib cells)) b = if Nat.eqb (h_next h) b then Some (mkArr lib cells) else hget h b.
Proof. unfold halloc. cbn [fst]. rewrite hget_cons. destruct h; reflexivity. Qed.

Lemma firstn_length_app {A} (l r : list A) : firstn (length l) (l ++ r) = l.
Proof. induction l as [|x l IH]; cbn; [reflexivity | now f_equal]. Qed.

(* every array identity in use is below the allocation counter *)
Definition heap_wf (h : gheap) : Prop := forall a ar, hget h a = Some ar -> a < h_next h.

(* the kept slices live in arrays of the library *)
Definition regs_lib (h : gheap) (regs : list gslice) : Prop :=
  forall s, In s regs -> exists ar, hget h (s_arr s) = Some ar /\ a_lib ar = true.

(* nothing the library owns changed *)
Definition lib_frame (h h' : gheap) : Prop :=
  forall a ar, hget h a = Some ar -> a_lib ar = true -> hget h' a = Some ar.

Lemma lib_frame_refl h : lib_frame h h.
Proof. intros a ar H _. exact H. Qed.

Lemma lib_frame_trans h1 h2 h3 : lib_frame h1 h2 -> lib_frame h2 h3 -> lib_frame h1 h3.
Proof. intros A B a ar H L. apply B; [apply A|]; assumption. Qed.

Lemma heap_wf_halloc h lib cells : heap_wf h -> heap_wf (fst (halloc h lib cells)).
Proof.
  intros W a ar H. rewrite hget_halloc in H. cbn. destruct (Nat.eqb (h_next h) a) eqn:E.
  - apply Nat.eqb_eq in E. lia.
  - apply W in H. lia.
Qed.

Lemma halloc_keeps h lib cells a ar : heap_wf h -> hget h a = Some ar -> hget (fst (halloc h lib cells)) a = Some ar.
Proof.
  intros W H. rewrite hget_halloc. destruct (Nat.eqb (h_next h) a) eqn:E; [|exact H].
  apply Nat.eqb_eq in E. apply W in H. lia.
Qed.

Lemma halloc_new h lib cells : hget (fst (halloc h lib cells)) (h_next h) = Some (mkArr lib cells).
Proof. rewrite hget_halloc, Nat.eqb_refl. reflexivity. Qed.

(* the pinned expression: a fresh library array holding  first :: (the additional types as they are now);
   no array that existed before the call is touched *)
Lemma reg_pinned_spec spare h first rest h' s :
  heap_wf h -> reg_pinned spare h first rest = (h', s) ->
  heap_wf h' /\
  (forall a ar, hget h a = Some ar -> hget h' a = Some ar) /\
  sread h' s = first :: sread h rest /\
  (exists ar, hget h' (s_arr s) = Some ar /\ a_lib ar = true).
Proof.
  intros W H. unfold reg_pinned in H.
  pose proof (heap_wf_halloc h true [first] W) as W1.
  pose proof (halloc_new h true [first]) as N1.
  assert (K1 : forall a ar, hget h a = Some ar -> hget (fst (halloc h true [first])) a = Some ar)
    by (intros a ar Ha; apply halloc_keeps; assumption).
  destruct (halloc h true [first]) as [h1 a1] eqn:E1.
  assert (a1 = h_next h) by (unfold halloc in E1; congruence). subst a1.
  assert (Hn1 : h_next h1 = S (h_next h)) by (unfold halloc in E1; inversion E1; reflexivity).
  cbn [fst] in W1, N1, K1.
  unfold go_append in H. cbn [s_len s_cap s_arr s_off] in H.
  destruct (sread h rest) as [|v vs] eqn:Ev.
  - cbn [length Nat.add Nat.leb] in H. rewrite N1 in H. cbn [a_lib a_cells] in H.
    inversion H; subst h' s; clear H. repeat split.
    + intros a ar Ha. rewrite hget_hset in Ha. unfold hset. cbn [h_next].
      destruct (Nat.eqb (h_next h) a) eqn:E; [apply Nat.eqb_eq in E; lia | exact (W1 a ar Ha)].
    + intros a ar Ha. rewrite hget_hset. destruct (Nat.eqb (h_next h) a) eqn:E; [|exact (K1 a ar Ha)].
      apply Nat.eqb_eq in E. apply W in Ha. lia.
    + unfold sread. cbn [s_arr s_len s_off]. rewrite hget_hset, Nat.eqb_refl. reflexivity.
    + cbn [s_arr]. rewrite hget_hset, Nat.eqb_refl. eexists; split; reflexivity.
  - assert (Hc : (1 + length (v :: vs) <=? 1) = false) by (apply Nat.leb_gt; cbn; lia).
    rewrite Hc in H. clear Hc.
    assert (Hr : sread h1 (mkSlice (h_next h) 0 1 1) = [first]).
    { unfold sread. cbn [s_arr s_len s_off]. rewrite N1. reflexivity. }
    rewrite Hr in H.
    pose proof (heap_wf_halloc h1 true ([first] ++ (v :: vs) ++ spare) W1) as W2.
    pose proof (halloc_new h1 true ([first] ++ (v :: vs) ++ spare)) as N2.
    assert (K2 : forall a ar, hget h1 a = Some ar -> hget (fst (halloc h1 true ([first] ++ (v :: vs) ++ spare))) a = Some ar)
      by (intros a ar Ha; apply halloc_keeps; assumption).
    destruct (halloc h1 true ([first] ++ (v :: vs) ++ spare)) as [h2 a2] eqn:E2.
    assert (a2 = h_next h1) by (unfold halloc in E2; congruence). subst a2.
    cbn [fst] in W2, N2, K2.
    inversion H; subst h' s; clear H. repeat split.
    + exact W2.
    + intros a ar Ha. apply K2, K1, Ha.
    + unfold sread. cbn [s_arr s_len s_off]. rewrite N2. cbn [a_cells skipn].
      change ([first] ++ (v :: vs) ++ spare) with (first :: ((v :: vs) ++ spare)).
      change (1 + length (v :: vs)) with (S (length (v :: vs))).
      rewrite firstn_cons. f_equal. exact (firstn_length_app (v :: vs) spare).
    + cbn [s_arr]. rewrite N2. eexists; split; reflexivity.
Qed.

Lemma sread_lib_frame h h' s ar :
  lib_frame h h' -> hget h (s_arr s) = Some ar -> a_lib ar = true -> sread h' s = sread h s.
Proof. intros F H L. unfold sread. rewrite (F _ _ H L), H. reflexivity. Qed.

Definition cinv (st : cstate) : Prop := heap_wf (fst st) /\ regs_lib (fst st) (snd st).

(* one action of the caller against the pinned registration code *)
Lemma cstep_pinned spare st c :
  cinv st ->
  let st' := cstep (reg_pinned spare) st c in
  cinv st' /\ lib_frame (fst st) (fst st') /\
  (match c with
   | CRegister first rest => exists s, snd st' = snd st ++ [s] /\ sread (fst st') s = first :: sread (fst st) rest
   | _ => snd st' = snd st
   end).
Proof.
  destruct st as [h regs]. intros [W R]. cbn [fst snd] in W, R. destruct c as [cells | a i v | first rest]; cbn [cstep].
  - repeat split; cbn [fst snd].
    + apply heap_wf_halloc, W.
    + intros s Hs. destruct (R s Hs) as [ar [Ha La]]. exists ar. split; [apply halloc_keeps; assumption | exact La].
    + intros a ar Ha _. apply halloc_keeps; assumption.
  - destruct (hget h a) as [ar|] eqn:Ea; [|cbn [fst snd]; repeat split; [exact W | exact R | apply lib_frame_refl]].
    destruct (a_lib ar || negb (i <? length (a_cells ar))) eqn:Eg;
      [cbn [fst snd]; repeat split; [exact W | exact R | apply lib_frame_refl]|].
    apply orb_false_iff in Eg as [Lf _]. cbn [fst snd].
    assert (F : lib_frame h (hset h a (mkArr false (write_at (a_cells ar) i [v])))).
    { intros b br Hb Lb. rewrite hget_hset. destruct (Nat.eqb a b) eqn:E; [|exact Hb].
      apply Nat.eqb_eq in E. subst b. congruence. }
    repeat split; cbn [fst snd].
    + intros b br Hb. rewrite hget_hset in Hb. unfold hset. cbn [h_next].
      destruct (Nat.eqb a b) eqn:E; [apply Nat.eqb_eq in E; subst b; exact (W a ar Ea) | exact (W b br Hb)].
    + intros s Hs. destruct (R s Hs) as [sr [Ha La]]. exists sr. split; [exact (F _ _ Ha La) | exact La].
    + exact F.
  - destruct (reg_pinned spare h first rest) as [h' s] eqn:Er. cbn [fst snd].
    destruct (reg_pinned_spec spare h first rest h' s W Er) as [W' [K [Hs [sr [Ha La]]]]].
    repeat split; cbn [fst snd].
    + exact W'.
    + intros s0 Hin. apply in_app_or in Hin as [Hin | [Heq | []]].
      * destruct (R s0 Hin) as [ar0 [Ha0 La0]]. exists ar0. split; [apply K, Ha0 | exact La0].
      * subst s0. exists sr. split; assumption.
    + intros a ar Ha0 _. apply K, Ha0.
    + exists s. split; [reflexivity | exact Hs].
Qed.

Lemma map_sread_frame h h' regs :
  regs_lib h regs -> lib_frame h h' -> map (sread h') regs = map (sread h) regs.
Proof.
  intros R F. apply map_ext_in. intros s Hs. destruct (R s Hs) as [ar [Ha La]].
  exact (sread_lib_frame h h' s ar F Ha La).
Qed.

(* any caller program: registrations only accumulate, and what the earlier ones hold does not change *)
Lemma run_caller_pinned spare acts : forall st,
  cinv st ->
  let st' := run_caller (reg_pinned spare) st acts in
  cinv st' /\ lib_frame (fst st) (fst st') /\
  (exists more, snd st' = snd st ++ more) /\
  map (sread (fst st')) (snd st) = map (sread (fst st)) (snd st).
Proof.
  induction acts as [|c acts IH]; intros st I; cbn [run_caller fold_left].
  - repeat split; [apply I | apply I | apply lib_frame_refl | exists []; symmetry; apply app_nil_r].
  - destruct (cstep_pinned spare st c I) as [I1 [F1 H1]].
    set (st1 := cstep (reg_pinned spare) st c) in *.
    destruct (IH st1 I1) as [I2 [F2 [[more Hm] Hk]]]. fold (run_caller (reg_pinned spare) st1 acts).
    set (st2 := run_caller (reg_pinned spare) st1 acts) in *.
    assert (Hpre : exists pre, snd st1 = snd st ++ pre).
    { destruct c; [exists []; rewrite H1; symmetry; apply app_nil_r | exists []; rewrite H1; symmetry; apply app_nil_r |].
      destruct H1 as [s [Hs _]]. exists [s]. exact Hs. }
    destruct Hpre as [pre Hpre].
    split; [exact I2|]. split; [exact (lib_frame_trans _ _ _ F1 F2)|]. split.
    + exists (pre ++ more). rewrite Hm, Hpre. symmetry. apply app_assoc.
    + rewrite (map_sread_frame (fst st) (fst st2) (snd st) (proj2 I) (lib_frame_trans _ _ _ F1 F2)). reflexivity.
Qed.

Lemma cinv_empty : cinv (heap_empty, []).
Proof. split; [intros a ar H; discriminate H | intros s []]. Qed.

(* THE statement.  Whatever the caller did before ([pre]) and does afterwards ([post] - more registrations with the
   same slice, writes into its slices), registration number |regs1| holds  first :: (the additional types as they were
   when it was made), and the earlier registrations hold what they held. *)
Lemma registration_types_fixed_lemma : forall spare pre first rest post h1 regs1 hf regsf,
  run_caller (reg_pinned spare) (heap_empty, []) pre = (h1, regs1) ->
  run_caller (reg_pinned spare) (h1, regs1) (CRegister first rest :: post) = (hf, regsf) ->
  nth_error (reg_types (hf, regsf)) (length regs1) = Some (first :: sread h1 rest) /\
  firstn (length regs1) (reg_types (hf, regsf)) = reg_types (h1, regs1).
Proof.
  intros spare pre first rest post h1 regs1 hf regsf Hpre Hpost.
  destruct (run_caller_pinned spare pre (heap_empty, []) cinv_empty) as [I1 _]. rewrite Hpre in I1.
  cbn [run_caller fold_left] in Hpost. fold (run_caller (reg_pinned spare)) in Hpost.
  destruct (cstep_pinned spare (h1, regs1) (CRegister first rest) I1) as [I2 [F2 [s [Hs Hr]]]].
  set (st2 := cstep (reg_pinned spare) (h1, regs1) (CRegister first rest)) in *.
  destruct (run_caller_pinned spare post st2 I2) as [I3 [F3 [[more Hm] Hk]]].
  change (fold_left (cstep (reg_pinned spare)) post st2) with (run_caller (reg_pinned spare) st2 post) in Hpost.
  rewrite Hpost in *. cbn [fst snd] in Hm, Hk, F3.
  destruct st2 as [h2 regs2] eqn:E2. cbn [fst snd] in *. subst regs2 regsf.
  assert (H1 : map (sread h2) regs1 = map (sread h1) regs1) by (apply (map_sread_frame h1 h2 regs1 (proj2 I1)); exact F2).
  assert (Hall : reg_types (hf, (regs1 ++ [s]) ++ more)
                 = map (sread h1) regs1 ++ (first :: sread h1 rest) :: map (sread hf) more).
  { unfold reg_types. cbn [fst snd]. rewrite map_app, Hk, map_app, H1. cbn [map]. rewrite Hr, <- app_assoc. reflexivity. }
  rewrite Hall.
  assert (Hlen : length (map (sread h1) regs1) = length regs1) by apply map_length.
  split.
  - rewrite nth_error_app2 by lia. rewrite Hlen, Nat.sub_diag. reflexivity.
  - rewrite <- Hlen. unfold reg_types. cbn [fst snd]. apply firstn_length_app.
Qed.
