(* C06 - the invariant behind "a delete leaves no trace": every place that can hold an id
   (unique index entry, set-index bucket, back-reference set, link set, foreign-key field) holds only ids
   that are justified by the data of the entity with that id.  [G] = entities in the middle of a delete
   (or being written): places INSIDE them are exempt.  Definitions and the structural lemmas. *)
From Coq Require Import List NArith Bool Lia.
From Storage Require Import Base.Bytes Base.BytesFacts Store.Model Store.AListFacts Store.FrameProofs
     Store.NoTrace Store.NoTraceFacts.
Import ListNotations.

Section Inv.
  Variable sch : schema.

  Definition gset := name -> id -> Prop.
  Definition gnone : gset := fun _ _ => False.
  Definition gadd (G : gset) (r : name) (x : id) : gset := fun r' x' => G r' x' \/ (r' = r /\ x' = x).

  Definition fbytes (st : state) (s : name) (i : id) (f : name) : str := fv_bytes (get_field sch st s i f).

  Definition USound (st : state) : Prop :=
    forall r f v x, al_get v (uidx st r f) = Some x ->
      exists s nl, root_of sch s = r /\ In (CUnique f nl) (cons_of sch s) /\
                   nonempty v = true /\ present sch st s x = true /\ fbytes st s x f = v.

  (* the set index (r, f) is owned by a store s of the family of r - r itself or a child store -; a listed id lives in s *)
  Definition SSound (st : state) : Prop :=
    forall r f v x, In x (sbucket st r f v) ->
      exists s, root_of sch s = r /\ In (CSetIdx f) (cons_of sch s) /\ present sch st s x = true /\ In v (eset st r x f).

  (* referrer store s and target store t may be child stores: the back-reference set lives in the entity of the root store
     of t, the referenced entity lives in t *)
  Definition BSound (st : state) : Prop :=
    forall s f t b nl ti x, In (CFkIndex f t b nl) (cons_of sch s) -> In x (eset st (root_of sch t) ti b) ->
      nonempty ti = true /\ present sch st s x = true /\ fbytes st s x f = ti.

  Definition FSound (G : gset) (st : state) : Prop :=
    forall s f t b nl y v, In (CFkIndex f t b nl) (cons_of sch s) -> ~ G (root_of sch s) y ->
      present sch st s y = true -> get_field sch st s y f = FStr v -> nonempty v = true ->
      In y (eset st (root_of sch t) v b) /\ present sch st t v = true.

  Definition CSound (G : gset) (st : state) : Prop :=
    forall s f t nl y v, In (CFkCons f t nl) (cons_of sch s) -> ~ G (root_of sch s) y ->
      present sch st s y = true -> get_field sch st s y f = FStr v -> nonempty v = true ->
      present sch st t v = true.

  (* link sets live in the entity of the ROOT store of the declaring store (which may be a child store); a link is
     symmetric and both ends live in the stores that declare the collection *)
  Definition LSound (G : gset) (st : state) : Prop :=
    forall s lf os of_ x t, In (lf, os, of_) (links_of sch s) -> ~ G (root_of sch s) x ->
      In t (eset st (root_of sch s) x lf) ->
      In x (eset st (root_of sch os) t of_) /\ present sch st s x = true /\ present sch st os t = true.

  Definition DInv (G : gset) (st : state) : Prop :=
    USound st /\ SSound st /\ BSound st /\ FSound G st /\ CSound G st /\ LSound G st.

  Definition Inv (st : state) : Prop := DInv gnone st.

  Lemma DInv_weaken (G G' : gset) st : (forall r x, G r x -> G' r x) -> DInv G st -> DInv G' st.
  Proof.
    intros Hsub [HU [HS [HB [HF [HC HL]]]]].
    refine (conj HU (conj HS (conj HB (conj _ (conj _ _))))).
    - intros s f t b nl y v Hin Hg. apply (HF s f t b nl y v Hin). intros A. apply Hg, Hsub, A.
    - intros s f t nl y v Hin Hg. apply (HC s f t nl y v Hin). intros A. apply Hg, Hsub, A.
    - intros s lf os of_ x t Hin Hg. apply (HL s lf os of_ x t Hin). intros A. apply Hg, Hsub, A.
  Qed.

  (* ---- delete steps only remove ---- *)
  Definition dmono (st st' : state) : Prop :=
    (forall r f v x, al_get v (uidx st' r f) = Some x -> al_get v (uidx st r f) = Some x) /\
    (forall r f v x, In x (sbucket st' r f v) -> In x (sbucket st r f v)) /\
    (forall r j f z, In z (eset st' r j f) -> In z (eset st r j f)) /\
    ents_shrink st st'.

  Lemma dmono_refl st : dmono st st.
  Proof. refine (conj _ (conj _ (conj _ _))); auto. apply ents_shrink_refl. Qed.

  Lemma dmono_trans a b c : dmono a b -> dmono b c -> dmono a c.
  Proof.
    intros [A1 [A2 [A3 A4]]] [B1 [B2 [B3 B4]]]. refine (conj _ (conj _ (conj _ _))).
    - intros; apply A1, B1; assumption.
    - intros; apply A2, B2; assumption.
    - intros; apply A3, B3; assumption.
    - eapply ents_shrink_trans; eauto.
  Qed.

  Lemma dmono_present st st' s j : dmono st st' -> present sch st' s j = true -> present sch st s j = true.
  Proof. intros [_ [_ [_ H]]]. apply present_shrink. exact H. Qed.

  Lemma dmono_get_field st st' s j f : dmono st st' -> present sch st' s j = true ->
    get_field sch st' s j f = get_field sch st s j f.
  Proof. intros [_ [_ [_ H]]] Hp. apply get_field_shrink; [exact H | apply present_get_ent; exact Hp]. Qed.

  Lemma dmono_get_ent_none st st' r j : dmono st st' -> get_ent st r j = None -> get_ent st' r j = None.
  Proof.
    intros [_ [_ [_ H]]] Hn. specialize (H r j). destruct (get_ent st' r j); [|reflexivity].
    destruct H as [e0 [He _]]. congruence.
  Qed.

  (* ---- a step that leaves the entities alone ---- *)
  Lemma DInv_uidx_shrink G st st' :
    ents st' = ents st -> sidx st' = sidx st ->
    (forall r f v x, al_get v (uidx st' r f) = Some x -> al_get v (uidx st r f) = Some x) ->
    DInv G st -> DInv G st' /\ dmono st st'.
  Proof.
    intros He Hs Hu [HU [HS [HB [HF [HC HL]]]]].
    assert (Hp : forall s j, present sch st' s j = present sch st s j) by (intros; apply present_ents_eq; exact He).
    assert (Hg : forall s j f, get_field sch st' s j f = get_field sch st s j f) by (intros; apply get_field_ents_eq; exact He).
    assert (Hes : forall r j f, eset st' r j f = eset st r j f) by (intros; apply eset_ents_eq; exact He).
    assert (Hsb : forall r f v, sbucket st' r f v = sbucket st r f v) by (intros; apply sbucket_sidx_eq; exact Hs).
    split; [refine (conj _ (conj _ (conj _ (conj _ (conj _ _)))))|].
    - intros r f v x Hx. destruct (HU r f v x (Hu _ _ _ _ Hx)) as [s [nl [A [B [C [D E]]]]]].
      exists s, nl. unfold fbytes in *. rewrite Hp, Hg. repeat split; assumption.
    - intros r f v x Hx. rewrite Hsb in Hx. rewrite Hes. destruct (HS r f v x Hx) as [s [A [B [C D]]]]. exists s. rewrite Hp. repeat split; assumption.
    - intros s f t b nl ti x Hin Hx. rewrite Hes in Hx. unfold fbytes. rewrite Hp, Hg. apply (HB s f t b nl ti x Hin Hx).
    - intros s f t b nl y v Hin Hgn Hpy Hf Hn. rewrite Hes. rewrite Hp in Hpy. rewrite Hg in Hf. rewrite Hp.
      apply (HF s f t b nl y v Hin Hgn Hpy Hf Hn).
    - intros s f t nl y v Hin Hgn Hpy Hf Hn. rewrite Hp in Hpy. rewrite Hg in Hf. rewrite Hp.
      apply (HC s f t nl y v Hin Hgn Hpy Hf Hn).
    - intros s lf os of_ x t Hin Hgn Ht. rewrite Hes in *. rewrite !Hp. apply (HL s lf os of_ x t Hin Hgn Ht).
    - refine (conj _ (conj _ (conj _ _))).
      + exact Hu.
      + intros r f v x Hx. rewrite Hsb in Hx. exact Hx.
      + intros r j f z Hz. rewrite Hes in Hz. exact Hz.
      + apply ents_fc_eq_shrink. apply ents_eq_fc. exact He.
  Qed.

  Lemma DInv_sidx_shrink G st st' :
    ents st' = ents st -> uidx st' = uidx st ->
    (forall r f v x, In x (sbucket st' r f v) -> In x (sbucket st r f v)) ->
    DInv G st -> DInv G st' /\ dmono st st'.
  Proof.
    intros He Hu Hs [HU [HS [HB [HF [HC HL]]]]].
    assert (Hp : forall s j, present sch st' s j = present sch st s j) by (intros; apply present_ents_eq; exact He).
    assert (Hg : forall s j f, get_field sch st' s j f = get_field sch st s j f) by (intros; apply get_field_ents_eq; exact He).
    assert (Hes : forall r j f, eset st' r j f = eset st r j f) by (intros; apply eset_ents_eq; exact He).
    split; [refine (conj _ (conj _ (conj _ (conj _ (conj _ _)))))|].
    - intros r f v x Hx. rewrite Hu in Hx. destruct (HU r f v x Hx) as [s [nl [A [B [C [D E]]]]]].
      exists s, nl. unfold fbytes in *. rewrite Hp, Hg. repeat split; assumption.
    - intros r f v x Hx. rewrite Hes. destruct (HS r f v x (Hs _ _ _ _ Hx)) as [s [A [B [C D]]]]. exists s. rewrite Hp. repeat split; assumption.
    - intros s f t b nl ti x Hin Hx. rewrite Hes in Hx. unfold fbytes. rewrite Hp, Hg. apply (HB s f t b nl ti x Hin Hx).
    - intros s f t b nl y v Hin Hgn Hpy Hf Hn. rewrite Hes. rewrite Hp in Hpy. rewrite Hg in Hf. rewrite Hp.
      apply (HF s f t b nl y v Hin Hgn Hpy Hf Hn).
    - intros s f t nl y v Hin Hgn Hpy Hf Hn. rewrite Hp in Hpy. rewrite Hg in Hf. rewrite Hp.
      apply (HC s f t nl y v Hin Hgn Hpy Hf Hn).
    - intros s lf os of_ x t Hin Hgn Ht. rewrite Hes in *. rewrite !Hp. apply (HL s lf os of_ x t Hin Hgn Ht).
    - refine (conj _ (conj _ (conj _ _))).
      + intros r f v x Hx. rewrite Hu in Hx. exact Hx.
      + exact Hs.
      + intros r j f z Hz. rewrite Hes in Hz. exact Hz.
      + apply ents_fc_eq_shrink. apply ents_eq_fc. exact He.
  Qed.
End Inv.

(* ---- what the proofs need from a schema (implied by the boolean check wf_notrace_b, see NoTraceProofs.v) ---- *)
Definition isroot (sch : schema) (s : name) : Prop := is_child sch s = false /\ root_of sch s = s.

Record wfprops (sch : schema) : Prop := mkWfprops {
  wp_roots : forall x, root_of sch (root_of sch x) = root_of sch x;
  wp_root_nochild : forall x, is_child sch (root_of sch x) = false;
  wp_children : forall r0 d, In d (children_of sch r0) -> root_of sch (sd_name d) = r0;
  wp_children_child : forall r0 d, In d (children_of sch r0) -> is_child sch (sd_name d) = true;
  (* unique indexes and foreign keys of a child store are on its own fields *)
  (* one owner per set index (family, string list) *)
  wp_sown : forall s s' f, root_of sch s = root_of sch s' ->
      In (CSetIdx f) (cons_of sch s) -> In (CSetIdx f) (cons_of sch s') -> s = s';
  wp_uchild : forall s d f nl, is_child sch s = true -> find_store sch s = Some d ->
      In (CUnique f nl) (cons_of sch s) -> declares_field d f = true;
  (* foreign-key fields of a child store are its own fields *)
  wp_fchild : forall s d k f, is_child sch s = true -> find_store sch s = Some d -> In k (cons_of sch s) ->
      (match k with CFkIndex f' _ _ _ => f' = f | CFkCons f' _ _ => f' = f | _ => False end) -> declares_field d f = true;
  (* one owner per unique index (root, field) *)
  wp_uown : forall s s' f nl nl', root_of sch s = root_of sch s' ->
      In (CUnique f nl) (cons_of sch s) -> In (CUnique f nl') (cons_of sch s') -> s = s';
  (* foreign keys (of root and child stores) point to root or child stores and are guarded on the target *)
  wp_fk_guard : forall s f t b nl, In (CFkIndex f t b nl) (cons_of sch s) ->
      In (CFkRestrict b) (cons_of sch t) \/ exists c, In (CFkCascade s f c) (cons_of sch t);
  wp_fc_guard : forall s f t nl, In (CFkCons f t nl) (cons_of sch s) -> exists c, In (CFkCascade s f c) (cons_of sch t);
  (* one owner per back-reference set (root of the target, name) *)
  wp_buniq : forall s s' f f' t t' b nl nl', In (CFkIndex f t b nl) (cons_of sch s) -> In (CFkIndex f' t' b nl') (cons_of sch s') ->
      root_of sch t = root_of sch t' -> s = s' /\ f = f' /\ t = t';
  (* link collections: of root stores and of child stores, declared on both sides, one per (family, local field) *)
  wp_link_sym : forall s lf os of_, In (lf, os, of_) (links_of sch s) -> In (of_, s, lf) (links_of sch os);
  wp_link_uniq : forall s s' lf os of_ os' of', In (lf, os, of_) (links_of sch s) -> In (lf, os', of') (links_of sch s') ->
      root_of sch s = root_of sch s' -> s = s' /\ os = os' /\ of_ = of';
  (* the names of the string sets inside an entity are pairwise different *)
  wp_disj_sb : forall s0 f0 s f t b nl, In (CSetIdx f0) (cons_of sch s0) -> In (CFkIndex f t b nl) (cons_of sch s) ->
      root_of sch t = root_of sch s0 -> f0 <> b;
  wp_disj_sl : forall s0 f0 s lf os of_, In (CSetIdx f0) (cons_of sch s0) -> In (lf, os, of_) (links_of sch s) ->
      root_of sch s = root_of sch s0 -> f0 <> lf;
  wp_disj_bl : forall s f t b nl s' lf os of_, In (CFkIndex f t b nl) (cons_of sch s) -> In (lf, os, of_) (links_of sch s') ->
      root_of sch s' = root_of sch t -> b <> lf;
  (* PersistEntity does not write back-reference sets or link sets *)
  wp_sets_b : forall d s f t b nl, find_store sch (root_of sch t) = Some d -> In (CFkIndex f t b nl) (cons_of sch s) -> ~ In b (sd_sets d);
  wp_sets_l : forall s d lf os of_, find_store sch (root_of sch s) = Some d -> In (lf, os, of_) (links_of sch s) -> ~ In lf (sd_sets d);
  (* foreign-key fields are ordinary string fields; the parent of a child store is declared *)
  wp_fk_nosys : forall s f t b nl, In (CFkIndex f t b nl) (cons_of sch s) -> f <> isSystemF;
  wp_fc_nosys : forall s f t nl, In (CFkCons f t nl) (cons_of sch s) -> f <> isSystemF;
  wp_child_parent : forall s d p, find_store sch s = Some d -> sd_parent d = Some p -> find_store sch p <> None
}.
