(* C06 - the invariant behind "a delete leaves no trace": every place that can hold an id
   (unique index entry, set-index bucket, back-reference set, link set, foreign-key field) holds only ids
   that are justified by the data of the entity with that id.  [G] = entities in the middle of a delete
   (or being written): places INSIDE them are exempt.  Definitions and the structural lemmas. *)
From Coq Require Import List NArith Bool Lia.
From Storage Require Import Base.Bytes Base.BytesFacts Store.Model Store.AListFacts Store.FrameProofs
     Store.NoTrace Store.NoTraceFacts.
Import ListNotations.

Section Inv.
  Variable sch : schema.

  Definition gset := name -> id -> Prop.
  Definition gnone : gset := fun _ _ => False.
  Definition gadd (G : gset) (r : name) (x : id) : gset := fun r' x' => G r' x' \/ (r' = r /\ x' = x).

  Definition fbytes (st : state) (s : name) (i : id) (f : name) : str := fv_bytes (get_field sch st s i f).

  Definition USound (st : state) : Prop :=
    forall r f v x, al_get v (uidx st r f) = Some x ->
      exists s nl, root_of sch s = r /\ In (CUnique f nl) (cons_of sch s) /\
                   nonempty v = true /\ present sch st s x = true /\ fbytes st s x f = v.

  Definition SSound (st : state) : Prop :=
    forall r f v x, In x (sbucket st r f v) -> In (CSetIdx f) (cons_of sch r) /\ In v (eset st r x f).

  Definition BSound (st : state) : Prop :=
    forall s f t b nl ti x, In (CFkIndex f t b nl) (cons_of sch s) -> In x (eset st t ti b) ->
      nonempty ti = true /\ present sch st s x = true /\ fbytes st s x f = ti.

  Definition FSound (G : gset) (st : state) : Prop :=
    forall s f t b nl y v, In (CFkIndex f t b nl) (cons_of sch s) -> ~ G s y ->
      present sch st s y = true -> get_field sch st s y f = FStr v -> nonempty v = true ->
      In y (eset st t v b).

  Definition CSound (G : gset) (st : state) : Prop :=
    forall s f t nl y v, In (CFkCons f t nl) (cons_of sch s) -> ~ G s y ->
      present sch st s y = true -> get_field sch st s y f = FStr v -> nonempty v = true ->
      get_ent st t v <> None.

  Definition LSound (G : gset) (st : state) : Prop :=
    forall s lf os of_ x t, In (lf, os, of_) (links_of sch s) -> ~ G s x ->
      In t (eset st s x lf) -> In x (eset st os t of_).

  Definition DInv (G : gset) (st : state) : Prop :=
    USound st /\ SSound st /\ BSound st /\ FSound G st /\ CSound G st /\ LSound G st.

  Definition Inv (st : state) : Prop := DInv gnone st.

  Lemma DInv_weaken (G G' : gset) st : (forall r x, G r x -> G' r x) -> DInv G st -> DInv G' st.
  Proof.
    intros Hsub [HU [HS [HB [HF [HC HL]]]]].
    refine (conj HU (conj HS (conj HB (conj _ (conj _ _))))).
    - intros s f t b nl y v Hin Hg. apply (HF s f t b nl y v Hin). intros A. apply Hg, Hsub, A.
    - intros s f t nl y v Hin Hg. apply (HC s f t nl y v Hin). intros A. apply Hg, Hsub, A.
    - intros s lf os of_ x t Hin Hg. apply (HL s lf os of_ x t Hin). intros A. apply Hg, Hsub, A.
  Qed.

  (* ---- delete steps only remove ---- *)
  Definition dmono (st st' : state) : Prop :=
    (forall r f v x, al_get v (uidx st' r f) = Some x -> al_get v (uidx st r f) = Some x) /\
    (forall r f v x, In x (sbucket st' r f v) -> In x (sbucket st r f v)) /\
    (forall r j f z, In z (eset st' r j f) -> In z (eset st r j f)) /\
    ents_shrink st st'.

  Lemma dmono_refl st : dmono st st.
  Proof. refine (conj _ (conj _ (conj _ _))); auto. apply ents_shrink_refl. Qed.

  Lemma dmono_trans a b c : dmono a b -> dmono b c -> dmono a c.
  Proof.
    intros [A1 [A2 [A3 A4]]] [B1 [B2 [B3 B4]]]. refine (conj _ (conj _ (conj _ _))).
    - intros; apply A1, B1; assumption.
    - intros; apply A2, B2; assumption.
    - intros; apply A3, B3; assumption.
    - eapply ents_shrink_trans; eauto.
  Qed.

  Lemma dmono_present st st' s j : dmono st st' -> present sch st' s j = true -> present sch st s j = true.
  Proof. intros [_ [_ [_ H]]]. apply present_shrink. exact H. Qed.

  Lemma dmono_get_field st st' s j f : dmono st st' -> present sch st' s j = true ->
    get_field sch st' s j f = get_field sch st s j f.
  Proof. intros [_ [_ [_ H]]] Hp. apply get_field_shrink; [exact H | apply present_get_ent; exact Hp]. Qed.

  Lemma dmono_get_ent_none st st' r j : dmono st st' -> get_ent st r j = None -> get_ent st' r j = None.
  Proof.
    intros [_ [_ [_ H]]] Hn. specialize (H r j). destruct (get_ent st' r j); [|reflexivity].
    destruct H as [e0 [He _]]. congruence.
  Qed.

  (* ---- a step that leaves the entities alone ---- *)
  Lemma DInv_uidx_shrink G st st' :
    ents st' = ents st -> sidx st' = sidx st ->
    (forall r f v x, al_get v (uidx st' r f) = Some x -> al_get v (uidx st r f) = Some x) ->
    DInv G st -> DInv G st' /\ dmono st st'.
  Proof.
    intros He Hs Hu [HU [HS [HB [HF [HC HL]]]]].
    assert (Hp : forall s j, present sch st' s j = present sch st s j) by (intros; apply present_ents_eq; exact He).
    assert (Hg : forall s j f, get_field sch st' s j f = get_field sch st s j f) by (intros; apply get_field_ents_eq; exact He).
    assert (Hes : forall r j f, eset st' r j f = eset st r j f) by (intros; apply eset_ents_eq; exact He).
    assert (Hsb : forall r f v, sbucket st' r f v = sbucket st r f v) by (intros; apply sbucket_sidx_eq; exact Hs).
    split; [refine (conj _ (conj _ (conj _ (conj _ (conj _ _)))))|].
    - intros r f v x Hx. destruct (HU r f v x (Hu _ _ _ _ Hx)) as [s [nl [A [B [C [D E]]]]]].
      exists s, nl. unfold fbytes in *. rewrite Hp, Hg. repeat split; assumption.
    - intros r f v x Hx. rewrite Hsb in Hx. rewrite Hes. apply (HS r f v x Hx).
    - intros s f t b nl ti x Hin Hx. rewrite Hes in Hx. unfold fbytes. rewrite Hp, Hg. apply (HB s f t b nl ti x Hin Hx).
    - intros s f t b nl y v Hin Hgn Hpy Hf Hn. rewrite Hes. rewrite Hp in Hpy. rewrite Hg in Hf.
      apply (HF s f t b nl y v Hin Hgn Hpy Hf Hn).
    - intros s f t nl y v Hin Hgn Hpy Hf Hn. rewrite (get_ent_ents_eq _ _ _ _ He). rewrite Hp in Hpy. rewrite Hg in Hf.
      apply (HC s f t nl y v Hin Hgn Hpy Hf Hn).
    - intros s lf os of_ x t Hin Hgn Ht. rewrite Hes in *. apply (HL s lf os of_ x t Hin Hgn Ht).
    - refine (conj _ (conj _ (conj _ _))).
      + exact Hu.
      + intros r f v x Hx. rewrite Hsb in Hx. exact Hx.
      + intros r j f z Hz. rewrite Hes in Hz. exact Hz.
      + apply ents_fc_eq_shrink. apply ents_eq_fc. exact He.
  Qed.

  Lemma DInv_sidx_shrink G st st' :
    ents st' = ents st -> uidx st' = uidx st ->
    (forall r f v x, In x (sbucket st' r f v) -> In x (sbucket st r f v)) ->
    DInv G st -> DInv G st' /\ dmono st st'.
  Proof.
    intros He Hu Hs [HU [HS [HB [HF [HC HL]]]]].
    assert (Hp : forall s j, present sch st' s j = present sch st s j) by (intros; apply present_ents_eq; exact He).
    assert (Hg : forall s j f, get_field sch st' s j f = get_field sch st s j f) by (intros; apply get_field_ents_eq; exact He).
    assert (Hes : forall r j f, eset st' r j f = eset st r j f) by (intros; apply eset_ents_eq; exact He).
    split; [refine (conj _ (conj _ (conj _ (conj _ (conj _ _)))))|].
    - intros r f v x Hx. rewrite Hu in Hx. destruct (HU r f v x Hx) as [s [nl [A [B [C [D E]]]]]].
      exists s, nl. unfold fbytes in *. rewrite Hp, Hg. repeat split; assumption.
    - intros r f v x Hx. rewrite Hes. apply (HS r f v x (Hs _ _ _ _ Hx)).
    - intros s f t b nl ti x Hin Hx. rewrite Hes in Hx. unfold fbytes. rewrite Hp, Hg. apply (HB s f t b nl ti x Hin Hx).
    - intros s f t b nl y v Hin Hgn Hpy Hf Hn. rewrite Hes. rewrite Hp in Hpy. rewrite Hg in Hf.
      apply (HF s f t b nl y v Hin Hgn Hpy Hf Hn).
    - intros s f t nl y v Hin Hgn Hpy Hf Hn. rewrite (get_ent_ents_eq _ _ _ _ He). rewrite Hp in Hpy. rewrite Hg in Hf.
      apply (HC s f t nl y v Hin Hgn Hpy Hf Hn).
    - intros s lf os of_ x t Hin Hgn Ht. rewrite Hes in *. apply (HL s lf os of_ x t Hin Hgn Ht).
    - refine (conj _ (conj _ (conj _ _))).
      + intros r f v x Hx. rewrite Hu in Hx. exact Hx.
      + exact Hs.
      + intros r j f z Hz. rewrite Hes in Hz. exact Hz.
      + apply ents_fc_eq_shrink. apply ents_eq_fc. exact He.
  Qed.
End Inv.

(* ---- what the proofs need from a schema (implied by the boolean check wf_notrace_b, see NoTraceProofs.v) ---- *)
Definition isroot (sch : schema) (s : name) : Prop := is_child sch s = false /\ root_of sch s = s.

Record wfprops (sch : schema) : Prop := mkWfprops {
  wp_roots : forall x, root_of sch (root_of sch x) = root_of sch x;
  wp_root_nochild : forall x, is_child sch (root_of sch x) = false;
  wp_children : forall r0 d, In d (children_of sch r0) -> root_of sch (sd_name d) = r0;
  (* child stores carry only unique indexes (on their own fields) and system constraints, and no links *)
  wp_cons_root : forall s k, In k (cons_of sch s) ->
      match k with CUnique _ _ => True | CSystem => True | _ => isroot sch s end;
  wp_uchild : forall s d f nl, is_child sch s = true -> find_store sch s = Some d ->
      In (CUnique f nl) (cons_of sch s) -> declares_field d f = true;
  (* one owner per unique index (root, field) *)
  wp_uown : forall s s' f nl nl', root_of sch s = root_of sch s' ->
      In (CUnique f nl) (cons_of sch s) -> In (CUnique f nl') (cons_of sch s') -> s = s';
  (* foreign keys point to root stores and are guarded on the target *)
  wp_fk_t : forall s f t b nl, In (CFkIndex f t b nl) (cons_of sch s) -> isroot sch t;
  wp_fc_t : forall s f t nl, In (CFkCons f t nl) (cons_of sch s) -> isroot sch t;
  wp_fk_guard : forall s f t b nl, In (CFkIndex f t b nl) (cons_of sch s) ->
      In (CFkRestrict b) (cons_of sch t) \/ exists c, In (CFkCascade s f c) (cons_of sch t);
  wp_fc_guard : forall s f t nl, In (CFkCons f t nl) (cons_of sch s) -> exists c, In (CFkCascade s f c) (cons_of sch t);
  wp_buniq : forall s s' f f' t b nl nl', In (CFkIndex f t b nl) (cons_of sch s) -> In (CFkIndex f' t b nl') (cons_of sch s') ->
      s = s' /\ f = f';
  (* link collections: between root stores, declared on both sides, one per local field *)
  wp_link_root : forall s lf os of_, In (lf, os, of_) (links_of sch s) -> isroot sch s /\ isroot sch os;
  wp_link_sym : forall s lf os of_, In (lf, os, of_) (links_of sch s) -> In (of_, s, lf) (links_of sch os);
  wp_link_uniq : forall s lf os of_ os' of', In (lf, os, of_) (links_of sch s) -> In (lf, os', of') (links_of sch s) ->
      os = os' /\ of_ = of';
  (* the names of the string sets inside an entity are pairwise different *)
  wp_disj_sb : forall r f0 s f b nl, In (CSetIdx f0) (cons_of sch r) -> In (CFkIndex f r b nl) (cons_of sch s) -> f0 <> b;
  wp_disj_sl : forall r f0 lf os of_, In (CSetIdx f0) (cons_of sch r) -> In (lf, os, of_) (links_of sch r) -> f0 <> lf;
  wp_disj_bl : forall r s f b nl lf os of_, In (CFkIndex f r b nl) (cons_of sch s) -> In (lf, os, of_) (links_of sch r) -> b <> lf;
  (* PersistEntity does not write back-reference sets or link sets *)
  wp_sets_b : forall r d s f b nl, find_store sch r = Some d -> In (CFkIndex f r b nl) (cons_of sch s) -> ~ In b (sd_sets d);
  wp_sets_l : forall r d lf os of_, find_store sch r = Some d -> In (lf, os, of_) (sd_links d) -> ~ In lf (sd_sets d);
  (* foreign-key fields are ordinary string fields; the parent of a child store is declared *)
  wp_fk_nosys : forall s f t b nl, In (CFkIndex f t b nl) (cons_of sch s) -> f <> isSystemF;
  wp_fc_nosys : forall s f t nl, In (CFkCons f t nl) (cons_of sch s) -> f <> isSystemF;
  wp_child_parent : forall s d p, find_store sch s = Some d -> sd_parent d = Some p -> find_store sch p <> None
}.
