(* C15 (seventh strengthening): link collections declared on the PARENT store of a family are facts of the parent part
   of an entity.  A delete through ANY store of the family - the parent, the child store that holds the entity's data or
   another child store - leaves no mention of the id on the other side of any link collection, whichever store the
   collection is declared on, and none of the entity's own link sets (from C06's delete_leaves_no_trace: the fifth
   clause of [mentions]). *)
From Coq Require Import List NArith Bool.
From Storage Require Import Base.Bytes Store.Model Store.WfSchema Store.ChildProofs.
From Storage Require Import Store.NoTrace Store.NoTraceProofs Store.Lookups Store.LookupsProofs.
Import ListNotations.

Lemma delete_removes_link_mentions_closed sch fuel (txs : list tx) oc fuel' evs r c s0 x st' evs' :
  wf_notrace_b sch = true -> wf_child_b sch r c = true -> root_of sch s0 = r ->
  delete_by_id sch oc fuel' (run_txs sch fuel st_empty txs, evs) s0 x = Ok (st', evs') ->
  (* the entity is gone, with its own link sets (they live inside the parent part) *)
  (get_ent st' r x = None /\ forall lf, get_set sch st' r x lf = [] /\ get_set sch st' c x lf = []) /\
  (* no link set of ANY entity of ANY store s whose elements are ids of the family of r still lists x - in particular
     the other side (os = a store of the family, the set lf on the peer s) of every link collection declared on r *)
  (forall s lf os of_ i, In (lf, os, of_) (links_of sch s) -> root_of sch os = r -> ~ In x (eset st' (root_of sch s) i lf)).
Proof.
  intros Hnt Hwf Hroot Hdel.
  pose proof (final_delete_no_trace sch Hnt fuel txs oc fuel' evs s0 x st' evs' Hdel) as Hm. rewrite Hroot in Hm.
  destruct (wf_child_b_sound _ _ _ Hwf) as [pd [cd [H1 [H2 [H3 [H4 H5]]]]]].
  assert (root_of sch r = r) as Hrr by (unfold root_of; rewrite H1, H3; reflexivity).
  assert (root_of sch c = r) as Hrc by (unfold root_of; rewrite H2, H4; reflexivity).
  assert (get_ent st' r x = None) as Hg.
  { destruct (get_ent st' r x) eqn:G; [|reflexivity]. exfalso. apply Hm. left. congruence. }
  split.
  - split; [exact Hg|]. intros lf. unfold get_set. rewrite Hrr, Hrc, Hg. split; reflexivity.
  - intros s lf os of_ i Hl Hos Hin. apply Hm. right; right; right; right; left.
    exists s, lf, os, of_, i. repeat split; assumption.
Qed.
