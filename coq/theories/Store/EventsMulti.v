(* Listener registrations that name several change types in ONE Add*Listener call (C08, second strengthening).
   Model only - proofs in Store/EventMultiProofs.v.

   store_crud.go: AddEntityEventListener(listener, changeType, changeTypes...) and its three siblings keep the
   list  changeType :: changeTypes ; the adapters' ProcessPostCommit loops over it and notifies the listener for
   every entry that matches the committed change (Store/Events.v [invocations] is that loop).  The property
   speaks of "each listener registered for that change type": a registration that names every change KIND at
   most once ([kinds_distinct]; EntityCreated and EntityCreatedAsync are the same kind) is registered for a
   change iff one of its entries has the change's kind ([registers]), and then asks for one notification, in
   the mode of that entry ([registered_mode]).

   The kinds of a registration are FIXED WHEN IT IS MADE: [l_types] is the list  changeType :: changeTypes  as the call
   named it - not whatever the caller's variadic slice (same backing array, possibly re-used for the next registration
   or overwritten later) holds when an event is delivered.  That the registration code of store_crud.go guarantees this
   for every caller is Store/EventsReg.v + Properties/C08.v [registration_types_fixed]. *)
From Coq Require Import List Bool.
From Storage Require Import Base.Bytes Store.Model Store.Events.
Import ListNotations.

Definition same_kind (c : change) (t : etype) : bool := change_eqb (et_change t) c.

Definition registers (l : listener) (c : change) : bool := existsb (same_kind c) (l_types l).

Definition registered_mode (l : listener) (c : change) : option bool :=
  option_map et_is_async (find (same_kind c) (l_types l)).

Fixpoint kinds_distinct (ts : list etype) : bool :=
  match ts with
  | [] => true
  | t :: r => negb (existsb (same_kind (et_change t)) r) && kinds_distinct r
  end.

(* an adapter whose "matched" flag is never reset inside the loop over the registered types: once an entry
   matched, every following entry notifies too.  Not the code of the pinned tree - kept as the witness that
   the exactly-once statement for multi-type registrations is not vacuous (Examples: sticky_adapter_refuted) *)
Fixpoint sticky_invocations (ts : list etype) (c : change) (matched : bool) : list bool :=
  match ts with
  | [] => []
  | t :: r =>
      let m := matched || adapter_fires t c in
      if m then et_is_async t :: sticky_invocations r c m else sticky_invocations r c m
  end.
