(* C15: paged / sorted / counted queries through the stores of a parent/child family (r root, c child store):
   what the specification [query_page] of Store/Paging.v shows and counts.  Together with the refinement theorems
   of Store/PagingProofs.v ([sorting_scan_spec], [unsorted_scan_spec], [cursor_scan_spec]) this is what the scan
   loops of boltz/query_scanners.go return. *)
From Coq Require Import List NArith Bool Arith Lia Permutation Sorted.
From Storage Require Import Base.Bytes Store.Model Store.ChildProofs Store.Paging Store.PagingProofs.
Import ListNotations.
Local Open Scope nat_scope.

(* the three scan loops compute the specification - every schema, state, store, filter, sort, skip, limit *)
Lemma paged_scans_meet_spec_closed sch st s flt f asc skip limit :
  sorting_scan sch st s flt f asc skip limit = query_page sch st s flt (Some (f, asc)) skip limit /\
  unsorted_scan sch st s flt skip limit = query_page sch st s flt None skip limit /\
  cursor_scan sch st s flt skip limit = fst (query_page sch st s flt None skip limit).
Proof.
  split; [apply sorting_scan_spec|]. split; [apply unsorted_scan_spec|apply cursor_scan_spec].
Qed.

(* the specification spelled out: the count is the number of ids the store shows that satisfy the filter; the
   page is skip/limit of those ids, in id order or sorted by (field value - nil first - in the given direction,
   then id): a permutation of them that is sorted for the total order [row_leb] *)
Lemma query_page_meaning_closed sch st s flt srt skip limit :
  let m := filter (q_match sch st s flt) (query_ids sch st s) in
  snd (query_page sch st s flt srt skip limit) = length m /\
  exists l, fst (query_page sch st s flt srt skip limit)
            = match limit with None => skipn skip l | Some n => firstn n (skipn skip l) end /\
            Permutation m l /\
            match srt with
            | None => l = m
            | Some (f, asc) => StronglySorted (fun i j => row_leb sch st s f asc i j = true) l
            end.
Proof.
  cbn zeta. split; [reflexivity|]. unfold query_page. cbn [fst]. destruct srt as [[f asc]|].
  - exists (sort_ids (row_leb sch st s f asc) (q_matching sch st s flt)). split; [reflexivity|].
    split; [apply sort_ids_perm|apply sort_ids_strongly_sorted].
  - exists (q_matching sch st s flt). split; [reflexivity|]. split; [apply Permutation_refl|reflexivity].
Qed.

(* [row_leb] is a total order on ids (so the sorted list is unique) *)
Lemma row_leb_total_order_closed sch st s f asc :
  (forall i j, row_leb sch st s f asc i j = true \/ row_leb sch st s f asc j i = true) /\
  (forall i j k, row_leb sch st s f asc i j = true -> row_leb sch st s f asc j k = true -> row_leb sch st s f asc i k = true) /\
  (forall i j, row_leb sch st s f asc i j = true -> row_leb sch st s f asc j i = true -> i = j).
Proof.
  split; [|split].
  - intros i j. destruct (row_leb sch st s f asc i j) eqn:E; [left; reflexivity|right; apply row_leb_total; exact E].
  - apply row_leb_trans.
  - apply row_leb_antisym.
Qed.

Definition flt_not_declared (sch : schema) (c : name) (flt : qfilter) : Prop :=
  match flt with
  | QTrue => True
  | QFieldEq f _ => existsb (fun p : name * bool => str_eqb (fst p) f) (fields_of sch c) = false
  end.

Definition srt_not_declared (sch : schema) (c : name) (srt : option (name * bool)) : Prop :=
  match srt with
  | None => True
  | Some (f, _) => existsb (fun p : name * bool => str_eqb (fst p) f) (fields_of sch c) = false
  end.

(* C15 for paged / sorted / counted queries:
   plain child store   - every id of the page has child data, and the count is the number of parent entities WITH
                         child data that satisfy the filter (never the parent store's count);
   extended child store - page and count are those of the same query through the parent store (filter and sort on
                         fields the child store does not declare itself);
   parent store        - pages and counts range over all parent entities. *)
Lemma child_paged_query_only_children_closed sch r c st flt srt skip limit :
  wf_child_b sch r c = true ->
  (is_ext sch c = false ->
     (forall i, In i (fst (query_page sch st c flt srt skip limit)) -> present sch st c i = true /\ q_match sch st c flt i = true) /\
     snd (query_page sch st c flt srt skip limit)
       = length (filter (fun i => present sch st c i && q_match sch st c flt i) (ids_of st r)) /\
     length (fst (query_page sch st c flt srt skip limit))
       = match limit with
         | None => snd (query_page sch st c flt srt skip limit) - skip
         | Some n => Nat.min n (snd (query_page sch st c flt srt skip limit) - skip)
         end) /\
  (is_ext sch c = true -> flt_not_declared sch c flt -> srt_not_declared sch c srt ->
     query_page sch st c flt srt skip limit = query_page sch st r flt srt skip limit) /\
  snd (query_page sch st r flt srt skip limit) = length (filter (q_match sch st r flt) (ids_of st r)).
Proof.
  intros Hwf. destruct (child_query_only_children_closed sch r c st Hwf) as [Hp [He [Hr _]]].
  destruct (wf_child_b_sound _ _ _ Hwf) as [pd [cd [H1 [H2 [H3 [H4 H5]]]]]].
  split; [|split].
  - intros E. split; [|split].
    + intros i Hi. apply query_page_in in Hi as [Hq Hm]. split; [apply (Hp E); exact Hq|exact Hm].
    + unfold query_page, q_matching, query_ids. cbn [snd].
      rewrite (is_child_c sch r c cd H2 H4), E, (root_c sch r c cd H2 H4). cbn [andb negb].
      rewrite <- filter_andb. reflexivity.
    + apply query_page_length.
  - intros E Hf Hs.
    assert (forall i, q_match sch st c flt i = q_match sch st r flt i) as Hm.
    { intros i. destruct flt as [|f v]; cbn [q_match]; [reflexivity|].
      cbn [flt_not_declared] in Hf. rewrite (child_sees_parent_fields_closed sch r c st i f Hwf Hf). reflexivity. }
    unfold query_page. rewrite (q_matching_ext sch st r c flt (He E) Hm).
    destruct srt as [[f asc]|]; [|reflexivity].
    cbn [srt_not_declared] in Hs.
    rewrite (sort_ids_ext (row_leb sch st c f asc) (row_leb sch st r f asc)); [reflexivity|].
    intros a b. unfold row_leb, row_cmp, q_key.
    rewrite !(child_sees_parent_fields_closed sch r c st _ f Hwf Hs). reflexivity.
  - unfold query_page, q_matching. cbn [snd]. rewrite Hr. reflexivity.
Qed.
