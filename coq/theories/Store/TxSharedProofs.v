(* Proofs about contexts built around an existing bbolt transaction (C08): Store/TxShared.v over
   Store/TxHooks.v / Store/TxHooksProofs.v. *)
From Coq Require Import List NArith Bool Arith Lia.
From Storage Require Import Base.Bytes Store.Model Store.Events Store.EventProofs Store.TxHooks Store.TxHooksProofs Store.TxShared.
Import ListNotations.

(* the state a program leaves behind when it ran to its end: the primary context gained ITS registrations, the
   secondary contexts were appended, the OnCommit handlers of the primary state are those it started with *)
Definition tafter (t : tstate) (pres : list (nat * pre_kind)) (commits : list nat) (secs : list mctx) (stev : st_ev)
    (sevs : list sevent) (rs : list (option ekind)) : tstate :=
  mkT (after (t_b t) pres commits stev sevs rs) (t_sec t ++ secs).

Section Body.
  Variable sch : schema.
  Variable fuel : nat.
  Variable oc : octx.

  Definition titem_spec (ti : titem) : Prop := forall t,
    let '(rs, fin) := run_ops_v sch fuel oc (b_stev (t_b t)) (titem_ops ti) (b_sevs (t_b t)) in
    match fin with
    | Ok (stev', sevs') =>
        run_titem sch fuel oc ti t = (tafter t (titem_own_pres ti) (titem_own_commits ti) (titem_sec ti) stev' sevs' rs, true)
    | Err _ => exists t1, run_titem sch fuel oc ti t = (t1, false) /\ b_rs (t_b t1) = b_rs (t_b t) ++ rs
    end.

  Definition titems_spec (l : list titem) : Prop := forall t,
    let '(rs, fin) := run_ops_v sch fuel oc (b_stev (t_b t)) (prog_ops l) (b_sevs (t_b t)) in
    match fin with
    | Ok (stev', sevs') =>
        run_titems sch fuel oc l t = (tafter t (own_pres l) (own_commits l) (sec_ctxs l) stev' sevs' rs, true)
    | Err _ => exists t1, run_titems sch fuel oc l t = (t1, false) /\ b_rs (t_b t1) = b_rs (t_b t) ++ rs
    end.

  Lemma tafter_nil t : tafter t [] [] [] (b_stev (t_b t)) (b_sevs (t_b t)) [] = t.
  Proof. destruct t as [b sec]. unfold tafter. cbn [t_b t_sec]. rewrite after_nil, app_nil_r. reflexivity. Qed.

  Lemma titem_spec_all : forall ti, titem_spec ti.
  Proof.
    intros [it|body] t.
    - cbn [titem_ops titem_own_pres titem_own_commits titem_sec run_titem].
      pose proof (item_spec_all sch fuel oc it (t_b t)) as H.
      destruct (run_ops_v sch fuel oc (b_stev (t_b t)) (item_ops it) (b_sevs (t_b t))) as [rs fin].
      destruct fin as [[stev' sevs']|k].
      + rewrite H. unfold tafter. rewrite app_nil_r. reflexivity.
      + destruct H as [b1 [E R]]. rewrite E. eexists. split; [reflexivity|exact R].
    - cbn [titem_ops titem_own_pres titem_own_commits titem_sec run_titem].
      pose proof (items_spec_all sch fuel oc body
                    (mkB empty_ctx (b_stev (t_b t)) (b_sevs (t_b t)) (b_rs (t_b t)) (b_on_commit (t_b t)))) as H.
      unfold items_spec in H. cbn [b_stev b_sevs] in H.
      destruct (run_ops_v sch fuel oc (b_stev (t_b t)) (body_ops body) (b_sevs (t_b t))) as [rs fin].
      destruct fin as [[stev' sevs']|k].
      + rewrite H. unfold tafter, after, empty_ctx. cbn. rewrite !app_nil_r.
        destruct t as [[[pre com] stev sevs rs0 hs] sec]. reflexivity.
      + destruct H as [b1 [E R]]. rewrite E. eexists. split; [reflexivity|]. cbn. exact R.
  Qed.

  Lemma titems_spec_all : forall l, titems_spec l.
  Proof.
    induction l as [|x r IH]; intros t.
    - cbn. rewrite tafter_nil. reflexivity.
    - unfold prog_ops, own_pres, own_commits, sec_ctxs. cbn [flat_map].
      fold (prog_ops r) (own_pres r) (own_commits r) (sec_ctxs r).
      rewrite run_ops_v_app. pose proof (titem_spec_all x t) as Hx.
      destruct (run_ops_v sch fuel oc (b_stev (t_b t)) (titem_ops x) (b_sevs (t_b t))) as [rs1 fin1].
      destruct fin1 as [[stev1 acc1]|k].
      + cbn [run_titems]. rewrite Hx.
        specialize (IH (tafter t (titem_own_pres x) (titem_own_commits x) (titem_sec x) stev1 acc1 rs1)).
        cbn [tafter after t_b b_stev b_sevs] in IH.
        destruct (run_ops_v sch fuel oc stev1 (prog_ops r) acc1) as [rs2 fin2].
        destruct fin2 as [[stev2 acc2]|k].
        * rewrite IH. unfold tafter, after. cbn. rewrite !app_assoc. reflexivity.
        * destruct IH as [t1 [E R]]. exists t1. split; [exact E|]. rewrite R. cbn. rewrite app_assoc. reflexivity.
      + destruct Hx as [t1 [E R]]. exists t1. cbn [run_titems]. rewrite E. split; [reflexivity|exact R].
  Qed.
End Body.

(* ================================================================ the shared transaction *)
Lemma shared_update_spec sch fuel st sys vetoes opn ctx0 prog :
  let '(rs, fin) := run_ops_v sch fuel (mkOctx sys vetoes) (st, []) (prog_ops prog) [] in
  shared_update sch fuel st sys vetoes opn ctx0 prog =
  match fin with
  | Ok ((st', _), sevs) =>
      let '(commits, runs, pok) :=
        match opn with
        | ByDb => run_pre (mc_pre ctx0 ++ own_pres prog) (mc_commit ctx0 ++ own_commits prog) []
        | ByCaller => (mc_commit ctx0 ++ own_commits prog, [], true)
        end in
      if pok then mkHookObs rs true st' sevs (commits ++ flat_map mc_commit (sec_ctxs prog)) runs (tc_runs opn)
      else mkHookObs rs false st [] [] runs 0
  | Err _ => mkHookObs rs false st [] [] [] 0
  end.
Proof.
  unfold shared_update.
  pose proof (titems_spec_all sch fuel (mkOctx sys vetoes) prog (mkT (mkB ctx0 (st, []) [] [] [HdlCommitActions]) [])) as H.
  unfold titems_spec in H. cbn [t_b b_stev b_sevs] in H.
  destruct (run_ops_v sch fuel (mkOctx sys vetoes) (st, []) (prog_ops prog) []) as [rs fin].
  destruct fin as [[[st' evs] sevs]|k].
  - rewrite H. unfold tafter, after. cbn.
    destruct opn.
    + destruct (run_pre (mc_pre ctx0 ++ own_pres prog) (mc_commit ctx0 ++ own_commits prog) []) as [[commits runs] pok].
      destruct pok; [|reflexivity]. cbn. rewrite !app_nil_r. reflexivity.
    + cbn. rewrite !app_nil_r. reflexivity.
  - destruct H as [t1 [E R]]. rewrite E. cbn. rewrite R. reflexivity.
Qed.

(* the program delivers exactly what the plain instrumented machine delivers for its operations *)
Lemma shared_update_refines_lemma sch fuel st sys vetoes opn ctx0 prog :
  let o := shared_update sch fuel st sys vetoes opn ctx0 prog in
  let v := run_tx_v sch fuel st (shared_tx opn sys vetoes ctx0 prog) in
  ho_results o = to_results v /\ ho_committed o = to_committed v /\ ho_state o = to_state v /\ ho_events o = to_events v.
Proof.
  cbn zeta. pose proof (shared_update_spec sch fuel st sys vetoes opn ctx0 prog) as H.
  unfold run_tx_v, shared_tx. cbn [tx_sys tx_vetoes tx_ops tx_precommit_fails].
  destruct (run_ops_v sch fuel (mkOctx sys vetoes) (st, []) (prog_ops prog) []) as [rs fin].
  rewrite H. destruct fin as [[[st' evs] sevs]|k]; [|cbn; repeat split; reflexivity].
  destruct opn; cbn [live_pres].
  - destruct (existsb pre_fails (mc_pre ctx0 ++ own_pres prog)) eqn:E.
    + pose proof (run_pre_fail _ (mc_commit ctx0 ++ own_commits prog) [] E) as F.
      destruct (run_pre (mc_pre ctx0 ++ own_pres prog) (mc_commit ctx0 ++ own_commits prog) []) as [[commits runs] pok].
      cbn in F. subst pok. cbn. repeat split; reflexivity.
    + rewrite run_pre_ok by exact E. cbn. repeat split; reflexivity.
  - cbn. repeat split; reflexivity.
Qed.

(* exactly once, for every context that shares the transaction; the pre-commit actions of contexts built around an
   existing transaction never run; tx-complete listeners only when Db.Update / Db.Batch opened the transaction *)
Lemma shared_hooks_exactly_once_lemma sch fuel st sys vetoes opn ctx0 prog :
  let o := shared_update sch fuel st sys vetoes opn ctx0 prog in
  (ho_committed o = true ->
     ho_commit_runs o = shared_registered_commits opn ctx0 prog /\
     ho_pre_runs o = map fst (live_pres opn ctx0 prog) /\
     ho_tc o = tc_runs opn) /\
  (ho_committed o = false ->
     ho_commit_runs o = [] /\ ho_tc o = 0%nat /\ ho_events o = [] /\ ho_state o = st) /\
  (forall k, In (Some k) (ho_results o) -> ho_committed o = false /\ ho_pre_runs o = []).
Proof.
  cbn zeta. pose proof (shared_update_spec sch fuel st sys vetoes opn ctx0 prog) as H.
  destruct (run_ops_v sch fuel (mkOctx sys vetoes) (st, []) (prog_ops prog) []) as [rs fin] eqn:Ev.
  rewrite H. destruct fin as [[[st' evs] sevs]|k].
  - assert (Hrs : forall k, In (Some k) rs -> False).
    { intros k Hin. apply (run_ops_v_ok_results _ _ _ _ _ _ _ _ Ev) in Hin. discriminate. }
    unfold shared_registered_commits. destruct opn; cbn [live_pres tc_runs].
    + destruct (existsb pre_fails (mc_pre ctx0 ++ own_pres prog)) eqn:E.
      * pose proof (run_pre_fail _ (mc_commit ctx0 ++ own_commits prog) [] E) as F.
        destruct (run_pre (mc_pre ctx0 ++ own_pres prog) (mc_commit ctx0 ++ own_commits prog) []) as [[commits runs] pok].
        cbn in F. subst pok. cbn. split; [discriminate|]. split; [repeat split; reflexivity|].
        intros k Hin. destruct (Hrs k Hin).
      * rewrite run_pre_ok by exact E. cbn. split; [|split; [discriminate|]].
        -- intros _. repeat split; reflexivity.
        -- intros k Hin. destruct (Hrs k Hin).
    + cbn. split; [|split; [discriminate|]].
      * intros _. rewrite app_nil_r. repeat split; reflexivity.
      * intros k Hin. destruct (Hrs k Hin).
  - cbn. split; [discriminate|]. split; [repeat split; reflexivity|]. intros; split; reflexivity.
Qed.

(* a transaction the caller manages itself commits iff every operation succeeded (no pre-commit action can fail
   it: none runs), runs the commit actions of all its contexts and nothing else *)
Lemma caller_tx_hooks_lemma sch fuel st sys vetoes ctx0 prog :
  let o := shared_update sch fuel st sys vetoes ByCaller ctx0 prog in
  (ho_committed o = true <-> (forall r, In r (ho_results o) -> r = None)) /\
  ho_pre_runs o = [] /\ ho_tc o = 0%nat /\
  (ho_committed o = true ->
     ho_commit_runs o = (mc_commit ctx0 ++ own_commits prog) ++ flat_map mc_commit (sec_ctxs prog)).
Proof.
  cbn zeta. pose proof (shared_update_spec sch fuel st sys vetoes ByCaller ctx0 prog) as H.
  destruct (run_ops_v sch fuel (mkOctx sys vetoes) (st, []) (prog_ops prog) []) as [rs fin] eqn:Ev.
  rewrite H. destruct fin as [[[st' evs] sevs]|k]; cbn.
  - repeat split; try reflexivity. intros _ r Hin. exact (run_ops_v_ok_results _ _ _ _ _ _ _ _ Ev r Hin).
  - repeat split; try discriminate; try reflexivity.
    intros Hall. exfalso.
    assert (In (Some k) rs) as Hin.
    { clear H Hall. revert st rs Ev. generalize (@nil sevent). generalize (@nil event).
      induction (prog_ops prog) as [|o ops IH]; intros evs acc st0 rs Ev; cbn [run_ops_v] in Ev; [discriminate|].
      destruct (run_op sch fuel (mkOctx sys vetoes) (st0, evs) o) as [[st1 evs1]|k1].
      - destruct (run_ops_v sch fuel (mkOctx sys vetoes) (st1, evs1) ops _) as [rs1 fin1] eqn:E1.
        inversion Ev; subst. right. eapply IH. exact E1.
      - inversion Ev; subst. left. reflexivity. }
    specialize (Hall _ Hin). discriminate.
Qed.

(* a program whose items all run with the primary context of a transaction Db.Update / Db.Batch opened is a
   program of Store/TxHooks.v: same observation *)
Lemma run_titems_own sch fuel oc : forall body t,
  run_titems sch fuel oc (map TOwn body) t =
  let (b1, ok) := run_items sch fuel oc body (t_b t) in (mkT b1 (t_sec t), ok).
Proof.
  induction body as [|x r IH]; intros [b sec]; cbn [map run_titems run_items run_titem t_b t_sec].
  - reflexivity.
  - destruct (run_item sch fuel oc x b) as [b1 ok]. destruct ok; [|reflexivity]. rewrite IH. reflexivity.
Qed.

Lemma shared_update_own_lemma sch fuel st sys vetoes ctx0 body :
  shared_update sch fuel st sys vetoes ByDb ctx0 (map TOwn body) = db_update sch fuel st sys vetoes ctx0 body.
Proof.
  unfold shared_update, db_update. rewrite run_titems_own. cbn [t_b t_sec].
  destruct (run_items sch fuel (mkOctx sys vetoes) body (mkB ctx0 (st, []) [] [] [HdlCommitActions])) as [b1 ok].
  cbn [t_b t_sec]. destruct ok; [|reflexivity].
  destruct (run_pre (mc_pre (b_ctx b1)) (mc_commit (b_ctx b1)) []) as [[commits runs] pok].
  destruct pok; [|reflexivity]. cbn [flat_map]. rewrite app_nil_r. reflexivity.
Qed.
