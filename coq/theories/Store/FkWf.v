(* A boolean well-formedness check of a schema around a foreign-key edge (s.f -> t, fk index with
   back-reference set b or fk constraint), and the proof that it implies the hypotheses [FkWf] of the
   C04 invariant theorems - so that the theorems apply to concrete schemas by computation. *)
From Coq Require Import List NArith Bool Lia Arith.
From Storage Require Import Base.Bytes Base.BytesFacts Store.Model Store.AListFacts Store.FrameProofs Store.TxProofs Store.UniqueProofs Store.WfSchema Store.FkProofs Store.FkDelete.
Import ListNotations.

Definition is_maint_b (f t : name) (ob : option name) (k : cons) : bool :=
  match ob, k with
  | Some b, CFkIndex f' t' b' _ => str_eqb f' f && str_eqb t' t && str_eqb b' b
  | None, CFkCons f' t' _ => str_eqb f' f && str_eqb t' t
  | _, _ => false
  end.

Definition is_guard_b (s f : name) (ob : option name) (k : cons) : bool :=
  match k with
  | CFkRestrict b' => match ob with Some b => str_eqb b' b | None => false end
  | CFkCascade rs f' _ => str_eqb rs s && str_eqb f' f
  | _ => false
  end.

(* every fk index writing the back-reference set (t, b) is the edge's own, in store s *)
Definition own_ok (sch : schema) (s f t b : name) : bool :=
  forallb (fun d => forallb (fun k =>
    match k with
    | CFkIndex f' t' b' _ =>
        if str_eqb (root_of sch t') t && str_eqb b' b then str_eqb (sd_name d) s && str_eqb f' f && str_eqb t' t else true
    | _ => true
    end) (sd_cons d)) sch.

Definition link_side_ok (sch : schema) (t : name) (ob : option name) (store x : name) : bool :=
  negb (str_eqb (root_of sch store) t) || match ob with Some b => negb (str_eqb x b) | None => true end.

Definition links_ok (sch : schema) (t : name) (ob : option name) : bool :=
  forallb (fun d => forallb (fun l : name * name * name =>
    match l with (lf, os, of_) => link_side_ok sch t ob (sd_name d) lf && link_side_ok sch t ob os of_ end) (sd_links d)) sch.

Definition wf_fk_b (sch : schema) (s f t : name) (ob : option name) : bool :=
  negb (is_child sch s) && negb (is_child sch t) &&
  nodupb (map sd_name sch) && wf_parents sch &&
  match ob with Some b => own_ok sch s f t b | None => true end &&
  Nat.eqb (length (filter (is_maint_b f t ob) (cons_of sch s))) 1 &&
  negb (str_eqb f isSystemF) &&
  match ob, find_store sch t with Some b, Some d => negb (ss_mem b (sd_sets d)) | _, _ => true end &&
  links_ok sch t ob &&
  existsb (is_guard_b s f ob) (cons_of sch t).

Lemma is_maint_b_spec f t ob k : is_maint_b f t ob k = true <-> is_maint f t ob k.
Proof.
  unfold is_maint_b, is_maint. destruct ob as [b|]; destruct k; split; intros H;
    try discriminate; try (destruct H; discriminate).
  - apply andb_prop in H as [H H3]. apply andb_prop in H as [H1 H2]. apply str_eqb_eq in H1, H2, H3. subst. eexists; reflexivity.
  - destruct H as [nl0 H]. inversion H; subst. rewrite !str_eqb_refl. reflexivity.
  - apply andb_prop in H as [H1 H2]. apply str_eqb_eq in H1, H2. subst. eexists; reflexivity.
  - destruct H as [nl0 H]. inversion H; subst. rewrite !str_eqb_refl. reflexivity.
Qed.

Lemma is_guard_b_spec s f ob k : is_guard_b s f ob k = true -> is_guard s f ob k.
Proof.
  unfold is_guard_b, is_guard. destruct k; try discriminate.
  - destruct ob as [b|]; [|discriminate]. intros H. apply str_eqb_eq in H. subst. left. exists b. split; reflexivity.
  - intros H. apply andb_prop in H as [H1 H2]. apply str_eqb_eq in H1, H2. subst. right. eexists; reflexivity.
Qed.

Lemma cons_of_in sch s' k : In k (cons_of sch s') -> exists d, In d sch /\ sd_name d = s' /\ In k (sd_cons d).
Proof.
  unfold cons_of. destruct (find_store sch s') as [d|] eqn:Ef; [|contradiction].
  destruct (find_store_in _ _ _ Ef) as [A B]. intros H. exists d. repeat split; assumption.
Qed.

Lemma link_side_ok_spec sch t ob store x : link_side_ok sch t ob store x = true -> root_of sch store <> t \/ Some x <> ob.
Proof.
  unfold link_side_ok. intros H. apply orb_prop in H as [H|H].
  - left. apply negb_true_iff in H. apply str_eqb_neq. exact H.
  - right. destruct ob as [b|]; [|discriminate]. apply negb_true_iff, str_eqb_neq in H. congruence.
Qed.

Theorem wf_fk_b_sound sch s f t ob : wf_fk_b sch s f t ob = true -> FkWf sch s f t ob.
Proof.
  unfold wf_fk_b. intros H.
  apply andb_prop in H as [H H10]. apply andb_prop in H as [H H9]. apply andb_prop in H as [H H8].
  apply andb_prop in H as [H H7]. apply andb_prop in H as [H H6]. apply andb_prop in H as [H H5].
  apply andb_prop in H as [H H4]. apply andb_prop in H as [H H3]. apply andb_prop in H as [H1 H2].
  apply negb_true_iff in H1, H2.
  assert (Hnc : forall p, is_child sch p = false -> root_of sch p = p) by (intros p Hp; apply root_of_root; exact Hp).
  assert (Hrc : forall x, is_child sch (root_of sch x) = false).
  { intros x. destruct (find_store sch x) as [d|] eqn:Ef.
    - destruct (sd_parent d) as [p|] eqn:Ep.
      + assert (root_of sch x = p) as -> by (unfold root_of; rewrite Ef, Ep; reflexivity).
        destruct (find_store_in _ _ _ Ef) as [Hin _].
        unfold wf_parents in H4. rewrite forallb_forall in H4. specialize (H4 d Hin). rewrite Ep in H4.
        apply negb_true_iff in H4. exact H4.
      + assert (root_of sch x = x) as -> by (unfold root_of; rewrite Ef, Ep; reflexivity).
        unfold is_child. rewrite Ef, Ep. reflexivity.
    - assert (root_of sch x = x) as -> by (unfold root_of; rewrite Ef; reflexivity).
      unfold is_child. rewrite Ef. reflexivity. }
  split; [exact H1|]. split; [exact H2|]. split; [intros x; apply Hnc, Hrc|]. split; [exact Hrc|].
  split; [|split; [|split; [|split; [|split; [|split]]]]].
  - (* own *)
    intros s' f' t' b nl Hob Hin Hr. subst ob. destruct (cons_of_in _ _ _ Hin) as [d [Hd [Hn Hk]]].
    unfold own_ok in H5. rewrite forallb_forall in H5. specialize (H5 d Hd). rewrite forallb_forall in H5.
    specialize (H5 _ Hk). cbn in H5. rewrite Hr, !str_eqb_refl in H5. cbn [andb] in H5.
    apply andb_prop in H5 as [H5 Hc]. apply andb_prop in H5 as [Ha Hb]. apply str_eqb_eq in Ha, Hb, Hc. subst. tauto.
  - (* once *)
    apply Nat.eqb_eq in H6. destruct (filter_one_split _ _ H6) as [pre [x [post [Hc [Hx [Hpre Hpost]]]]]].
    apply is_maint_b_spec in Hx. exists x, pre, post. split; [exact Hc|]. split; [exact Hx|].
    split; eapply Forall_impl; try eassumption; intros k Hk Ho; apply is_maint_b_spec in Ho; congruence.
  - apply negb_true_iff in H7. apply str_eqb_neq. exact H7.
  - (* sets *)
    intros b d Hob Hf. subst ob. rewrite Hf in H8. apply negb_true_iff in H8. intros Hin. apply ss_mem_in in Hin. congruence.
  - (* links *)
    intros s0 d lf os of_ Hf Hin. destruct (find_store_in _ _ _ Hf) as [Hd Hn].
    unfold links_ok in H9. rewrite forallb_forall in H9. specialize (H9 d Hd). rewrite forallb_forall in H9.
    specialize (H9 _ Hin). cbn in H9. apply andb_prop in H9 as [Ha Hb]. rewrite Hn in Ha.
    split; apply link_side_ok_spec; assumption.
  - (* guard *)
    apply existsb_exists in H10 as [k [Hk Hg]]. apply Exists_exists. exists k. split; [exact Hk | apply is_guard_b_spec; exact Hg].
  - (* children *)
    intros r0 d Hin. unfold children_of in Hin. apply filter_In in Hin as [Hin Hp].
    destruct (sd_parent d) as [p|] eqn:Ep; [|discriminate]. apply str_eqb_eq in Hp. subst p.
    unfold root_of. rewrite (find_store_nodup _ _ H3 Hin), Ep. reflexivity.
Qed.

(* ---- store structure only: unique store names, parents are root stores ---- *)
Definition wf_stores_b (sch : schema) : bool := nodupb (map sd_name sch) && wf_parents sch.

Theorem wf_stores_b_sound sch : wf_stores_b sch = true ->
  (forall x, root_of sch (root_of sch x) = root_of sch x) /\
  (forall x, is_child sch (root_of sch x) = false) /\
  (forall r0 d, In d (children_of sch r0) -> root_of sch (sd_name d) = r0).
Proof.
  unfold wf_stores_b. intros H. apply andb_prop in H as [H3 H4].
  assert (Hrc : forall x, is_child sch (root_of sch x) = false).
  { intros x. destruct (find_store sch x) as [d|] eqn:Ef.
    - destruct (sd_parent d) as [p|] eqn:Ep.
      + assert (root_of sch x = p) as -> by (unfold root_of; rewrite Ef, Ep; reflexivity).
        destruct (find_store_in _ _ _ Ef) as [Hin _].
        unfold wf_parents in H4. rewrite forallb_forall in H4. specialize (H4 d Hin). rewrite Ep in H4.
        apply negb_true_iff in H4. exact H4.
      + assert (root_of sch x = x) as -> by (unfold root_of; rewrite Ef, Ep; reflexivity).
        unfold is_child. rewrite Ef, Ep. reflexivity.
    - assert (root_of sch x = x) as -> by (unfold root_of; rewrite Ef; reflexivity).
      unfold is_child. rewrite Ef. reflexivity. }
  split; [intros x; apply root_of_root, Hrc|]. split; [exact Hrc|].
  intros r0 d Hin. unfold children_of in Hin. apply filter_In in Hin as [Hin Hp].
  destruct (sd_parent d) as [p|] eqn:Ep; [|discriminate]. apply str_eqb_eq in Hp. subst p.
  unfold root_of. rewrite (find_store_nodup _ _ H3 Hin), Ep. reflexivity.
Qed.

(* ---- cascading deletes are wired on root stores only ---- *)

Definition wf_casc_b (sch : schema) : bool :=
  wf_stores_b sch &&
  forallb (fun d => if is_child sch (sd_name d) then forallb (fun k => negb (is_cascdel k)) (sd_cons d) else true) sch.

Theorem wf_casc_b_sound sch : wf_casc_b sch = true ->
  wf_stores_b sch = true /\
  (forall s' k, is_child sch s' = true -> In k (cons_of sch s') -> is_cascdel k = false).
Proof.
  unfold wf_casc_b. intros H. apply andb_prop in H as [H1 H2]. split; [exact H1|].
  intros s' k Hc Hin. destruct (cons_of_in _ _ _ Hin) as [d [Hd [Hn Hk]]].
  rewrite forallb_forall in H2. specialize (H2 d Hd). rewrite Hn, Hc in H2.
  rewrite forallb_forall in H2. specialize (H2 k Hk). apply negb_true_iff in H2. exact H2.
Qed.

(* ================================================================ the C04 statements, under the boolean checks *)
Lemma fk_target_exists_wf : forall sch s f t ob fuel (txs : list tx),
  wf_fk_b sch s f t ob = true ->
  let st := run_txs sch fuel st_empty txs in
  forall i, present sch st s i = true -> nonempty (fv_bytes (get_field sch st s i f)) = true ->
            present sch st t (fv_bytes (get_field sch st s i f)) = true.
Proof.
  intros sch s f t ob fuel txs Hwf. exact (fk_target_exists_lemma sch s f t ob (wf_fk_b_sound _ _ _ _ _ Hwf) fuel txs).
Qed.

Lemma backrefs_exact_wf : forall sch s f t b fuel (txs : list tx),
  wf_fk_b sch s f t (Some b) = true ->
  let st := run_txs sch fuel st_empty txs in
  forall ti i, nonempty ti = true ->
    (In i (get_set sch st t ti b) <-> present sch st s i = true /\ fv_bytes (get_field sch st s i f) = ti).
Proof.
  intros sch s f t b fuel txs Hwf. exact (backrefs_exact_lemma sch s f t b fuel txs (wf_fk_b_sound _ _ _ _ _ Hwf)).
Qed.

Lemma backrefs_sound_wf : forall sch s f t b fuel (txs : list tx),
  wf_fk_b sch s f t (Some b) = true ->
  let st := run_txs sch fuel st_empty txs in
  forall ti i, In i (get_set sch st t ti b) ->
    present sch st s i = true /\ fv_bytes (get_field sch st s i f) = ti /\ present sch st t ti = true /\ nonempty ti = true.
Proof.
  intros sch s f t b fuel txs Hwf. exact (backrefs_sound_lemma sch s f t b fuel txs (wf_fk_b_sound _ _ _ _ _ Hwf)).
Qed.

Lemma fk_invariant_step_wf : forall sch s f t ob fuel st (tr : tx),
  wf_fk_b sch s f t ob = true ->
  FInv sch s f t ob st -> FInv sch s f t ob (match run_tx sch fuel st tr with (_, _, st', _) => st' end).
Proof.
  intros sch s f t ob fuel st tr Hwf. exact (fk_run_tx_inv sch s f t ob (wf_fk_b_sound _ _ _ _ _ Hwf) fuel st tr).
Qed.

Lemma delete_restrict_wf : forall sch oc n st evs s0 x b pre post,
  wf_stores_b sch = true ->
  let r0 := root_of sch s0 in
  cons_of sch r0 = pre ++ CFkRestrict b :: post ->
  forallb (fun k => negb (is_cascdel k)) pre = true ->
  (exists j, j <> x /\ In j (get_set sch st r0 x b)) ->
  delete_by_id sch oc (S n) (st, evs) s0 x =
    Err (match before_delete_all sch oc (delete_by_id sch oc n) (st, evs) (mkIctx false (oc_sys oc) r0 x) pre with
         | Err k => k
         | Ok _ => ERefExists
         end).
Proof.
  intros sch oc n st evs s0 x b pre post Hwf r0 Hcons Hpre Href.
  destruct (wf_stores_b_sound sch Hwf) as [H1 [H2 H3]].
  exact (delete_restrict_lemma sch oc n st evs s0 x b pre post (H1 s0) (H2 s0) (H3 r0) Hcons Hpre Href).
Qed.

Lemma delete_restrict_tx_unchanged_wf : forall sch n st (tr : tx) ops1 ops2 s0 x b pre post st1 evs1,
  wf_stores_b sch = true ->
  tx_ops tr = ops1 ++ ODelete s0 x :: ops2 ->
  snd (run_ops sch (S n) (mkOctx (tx_sys tr) (tx_vetoes tr)) (st, []) ops1) = Ok (st1, evs1) ->
  cons_of sch (root_of sch s0) = pre ++ CFkRestrict b :: post ->
  forallb (fun k => negb (is_cascdel k)) pre = true ->
  (exists j, j <> x /\ In j (get_set sch st1 (root_of sch s0) x b)) ->
  exists rs, run_tx sch (S n) st tr = (rs, false, st, []).
Proof.
  intros sch n st tr ops1 ops2 s0 x b pre post st1 evs1 Hwf Hops Hpre1 Hcons Hpre Href.
  pose proof (delete_restrict_wf sch (mkOctx (tx_sys tr) (tx_vetoes tr)) n st1 evs1 s0 x b pre post Hwf Hcons Hpre Href) as Hd.
  pose proof (run_ops_failure_propagates sch (S n) (mkOctx (tx_sys tr) (tx_vetoes tr)) ops1 (ODelete s0 x) ops2 (st, []) (st1, evs1) _ Hpre1 Hd) as Hf.
  unfold run_tx. rewrite Hops. destruct (run_ops sch (S n) _ (st, []) (ops1 ++ ODelete s0 x :: ops2)) as [rs fin].
  cbn [snd] in Hf. subst fin. eexists. reflexivity.
Qed.

Lemma delete_referenced_refused_wf : forall sch s f t b fuel (txs : list tx) oc n evs x j pre post,
  wf_fk_b sch s f t (Some b) = true ->
  let st := run_txs sch fuel st_empty txs in
  cons_of sch t = pre ++ CFkRestrict b :: post ->
  forallb (fun k => negb (is_cascdel k)) pre = true ->
  j <> x -> present sch st s j = true -> fv_bytes (get_field sch st s j f) = x -> nonempty x = true ->
  exists k, delete_by_id sch oc (S n) (st, evs) t x = Err k /\
            (before_delete_all sch oc (delete_by_id sch oc n) (st, evs) (mkIctx false (oc_sys oc) t x) pre <> Err k -> k = ERefExists).
Proof.
  intros sch s f t b fuel txs oc n evs x j pre post Hwf st Hcons Hpre Hj Hp Hf Hne.
  pose proof (wf_fk_b_sound _ _ _ _ _ Hwf) as HW.
  assert (In j (get_set sch st t x b)) as Hin by (apply (backrefs_exact_lemma sch s f t b fuel txs HW x j Hne); split; assumption).
  destruct HW as [_ [Ht [Hroots [Hrc [_ [_ [_ [_ [_ [_ Hch]]]]]]]]]].
  assert (root_of sch t = t) as Hrt by (apply root_of_root; exact Ht).
  pose proof (delete_restrict_lemma sch oc n st evs t x b pre post) as Hd. cbn zeta in Hd. rewrite Hrt in Hd.
  specialize (Hd Hrt Ht (Hch t) Hcons Hpre (ex_intro _ j (conj Hj Hin))).
  eexists. split; [exact Hd|]. unfold refusal_kind.
  destruct (before_delete_all sch oc (delete_by_id sch oc n) (st, evs) _ pre); [reflexivity | intros H; congruence].
Qed.

Lemma delete_cascade_exact_wf : forall sch oc fuel st evs s0 x st' evs',
  wf_casc_b sch = true ->
  delete_by_id sch oc fuel (st, evs) s0 x = Ok (st', evs') ->
  ents_shrink st st' /\
  forall r y, (get_ent st r y <> None /\ get_ent st' r y = None) <-> reach sch st (root_of sch s0, x) (r, y).
Proof.
  intros sch oc fuel st evs s0 x st' evs' Hwf H.
  destruct (wf_casc_b_sound sch Hwf) as [Hst Hcr]. destruct (wf_stores_b_sound sch Hst) as [H1 [H2 H3]].
  exact (delete_cascade_exact_lemma sch oc H1 H2 H3 Hcr fuel st evs s0 x st' evs' H).
Qed.

Lemma cascade_predicate_is_field_equality_wf : forall sch rs f i st x,
  casc_matches sch rs f i st x = true <-> (present sch st rs x = true /\ get_field sch st rs x f = FStr i).
Proof.
  intros sch rs f i st x. unfold casc_matches. split.
  - intros H. apply andb_prop in H as [Hp Hf]. split; [exact Hp|].
    destruct (get_field sch st rs x f) as [| |v|]; try discriminate. apply str_eqb_eq in Hf. subst. reflexivity.
  - intros [Hp Hf]. rewrite Hp, Hf, str_eqb_refl. reflexivity.
Qed.
