(* Transaction-level facts of the store machine (C07). *)
From Coq Require Import List NArith Bool Arith Lia.
From Storage Require Import Base.Bytes Store.Model.
Import ListNotations.

(* the per-op result list marks a failure iff the run failed, and the failure is last *)
Lemma run_ops_results sch fuel oc : forall ops stev rs fin,
  run_ops sch fuel oc stev ops = (rs, fin) ->
  match fin with
  | Ok _ => Forall (fun r => r = None) rs /\ length rs = length ops
  | Err k => exists pre, rs = pre ++ [Some k] /\ Forall (fun r => r = None) pre /\ (length rs <= length ops)%nat
  end.
Proof.
  induction ops as [|o ops IH]; intros stev rs fin H; cbn [run_ops] in H.
  - inversion H; subst. split; [constructor | reflexivity].
  - destruct (run_op sch fuel oc stev o) as [stev1|k] eqn:Ho.
    + destruct (run_ops sch fuel oc stev1 ops) as [rs' fin'] eqn:Hr. inversion H; subst.
      specialize (IH _ _ _ Hr). destruct fin as [x|k].
      * destruct IH as [Hall Hlen]. split; [constructor; [reflexivity|exact Hall] | cbn; rewrite Hlen; reflexivity].
      * destruct IH as [pre [-> [Hall Hlen]]]. exists (None :: pre). repeat split.
        -- constructor; [reflexivity|exact Hall].
        -- cbn in *. lia.
    + inversion H; subst. exists []. repeat split; [constructor | cbn; lia].
Qed.

(* a failing operation fails the whole run: nothing after it is executed and the run is an error *)
Lemma run_ops_failure_propagates sch fuel oc : forall pre o post stev stev' k,
  snd (run_ops sch fuel oc stev pre) = Ok stev' ->
  run_op sch fuel oc stev' o = Err k ->
  snd (run_ops sch fuel oc stev (pre ++ o :: post)) = Err k.
Proof.
  induction pre as [|p pre IH]; intros o post stev stev' k Hpre Ho; cbn [app run_ops] in *.
  - inversion Hpre; subst. rewrite Ho. reflexivity.
  - destruct (run_op sch fuel oc stev p) as [stev1|k1] eqn:Hp.
    + destruct (run_ops sch fuel oc stev1 pre) as [rs fin] eqn:Hr. cbn [snd] in Hpre. subst fin.
      specialize (IH o post stev1 stev' k). rewrite Hr in IH. specialize (IH eq_refl Ho).
      destruct (run_ops sch fuel oc stev1 (pre ++ o :: post)) as [rs2 fin2]. cbn [snd] in *. exact IH.
    + cbn [snd] in Hpre. discriminate.
Qed.

(* Db.Update is all-or-nothing *)
Lemma run_tx_all_or_nothing_lemma sch fuel st t rs st' evs :
  run_tx sch fuel st t = (rs, false, st', evs) -> st' = st /\ evs = [].
Proof.
  unfold run_tx. destruct (run_ops sch fuel _ (st, []) (tx_ops t)) as [rs0 fin].
  destruct fin as [[st1 evs1]|k].
  - destruct (tx_precommit_fails t); intros H; inversion H; subst; split; reflexivity.
  - intros H; inversion H; subst; split; reflexivity.
Qed.

(* Db.Update reports failure iff an operation failed or the pre-commit action failed *)
Lemma run_tx_error_iff_lemma sch fuel st t :
  let '(rs, committed, _, _) := run_tx sch fuel st t in
  committed = false <->
  (tx_precommit_fails t = true \/ exists k, In (Some k) rs).
Proof.
  unfold run_tx. destruct (run_ops sch fuel _ (st, []) (tx_ops t)) as [rs fin] eqn:Hr.
  pose proof (run_ops_results _ _ _ _ _ _ _ Hr) as Hres.
  destruct fin as [[st1 evs1]|k].
  - destruct Hres as [Hall _]. destruct (tx_precommit_fails t) eqn:Hp.
    + split; [intros _; left; reflexivity | reflexivity].
    + split; [discriminate|]. intros [Hc|[k Hin]]; [discriminate|].
      rewrite Forall_forall in Hall. specialize (Hall _ Hin). discriminate.
  - destruct Hres as [pre [-> _]]. split; [|reflexivity]. intros _. right. exists k.
    apply in_or_app. right. left. reflexivity.
Qed.

(* a committed transaction delivers exactly the events its operations queued; a failed one none *)
Lemma run_tx_commit_lemma sch fuel st t rs st' evs :
  run_tx sch fuel st t = (rs, true, st', evs) ->
  tx_precommit_fails t = false /\
  snd (run_ops sch fuel (mkOctx (tx_sys t) (tx_vetoes t)) (st, []) (tx_ops t)) = Ok (st', evs).
Proof.
  unfold run_tx. destruct (run_ops sch fuel _ (st, []) (tx_ops t)) as [rs0 fin].
  destruct fin as [[st1 evs1]|k].
  - destruct (tx_precommit_fails t); intros H; inversion H; subst. split; reflexivity.
  - intros H; inversion H.
Qed.

(* a veto raised by a pre-commit entity constraint makes the operation fail: create / update *)
Lemma veto_fails_create sch oc stev s i sys fv sv :
  vetoed (oc_vetoes oc) s Created i = true ->
  exists k, op_create sch oc stev s i sys fv sv = Err k.
Proof.
  intros Hv. unfold op_create. destruct stev as [st evs].
  destruct (find_store sch s); [|eexists; reflexivity].
  destruct (negb (nonempty i)); [eexists; reflexivity|].
  destruct (present sch st s i); [eexists; reflexivity|].
  destruct (present sch st (root_of sch s) i); [eexists; reflexivity|].
  destruct (negb (key_ok i)); [eexists; reflexivity|].
  unfold fire_cu. destruct (is_child sch s).
  - unfold bind at 2. destruct (fire (oc_vetoes oc) evs (root_of sch s) Created i true) as [evs1|k]; [|eexists; reflexivity].
    unfold fire at 1. rewrite Hv. eexists; reflexivity.
  - unfold bind at 2. unfold fire. rewrite Hv. eexists; reflexivity.
Qed.
