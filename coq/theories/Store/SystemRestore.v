(* C16 (second strengthening): histories in which the database content changes UNDERNEATH the store objects.

   Go counterpart (harness store_c16w2.go): between two transactions the bolt file is replaced by a snapshot taken
   earlier in the same history - Db.RestoreSnapshot / Db.RestoreFromReader on the same DbImpl and the same store
   objects, a snapshot file made by Db.Snapshot, a second node whose stores were initialised on an EMPTY database and
   which then receives the snapshot, a file swapped underneath the DbImpl, a restart with freshly built stores.
   None of these is an operation of a store: the content simply becomes what it was after step k.

   [HRestore k] therefore is a derived step: state := the k-th element of the trace (the states after 0, 1, 2, ... steps).
   Store/Model.v is untouched.  Every state of the trace is reachable by transactions alone ([hist_reachable]); the
   state after a history with restore steps is the state after an explicit restore-FREE history made of steps of the
   original one ([hist_restore_free]), so every theorem about states, operations, transactions and histories of
   transactions covers it.  The system-entity rules are stated for EVERY state, hence hold for whatever is present
   after a restore ([restore_then_refused_lemma]). *)
From Coq Require Import List NArith Bool Lia.
From Storage Require Import Base.Bytes Store.Model Store.SystemProofs Store.SystemMixed Store.SystemChild.
Import ListNotations.

Inductive hstep :=
| HTx (t : tx)          (* Db.Update with one context kind *)
| HMtx (t : mtx)        (* mixed transaction (Store/SystemMixed.v) *)
| HRestore (k : nat).   (* the content becomes what it was after the first k steps *)

Definition tx_obs := (list (option ekind) * bool * state * list event)%type.
Definition obs_state (o : tx_obs) : state := snd (fst o).

(* one step from the current state, given the trace so far (for restore steps) *)
Definition step_obs (sch : schema) (fuel : nat) (trace : list state) (cur : state) (h : hstep) : tx_obs :=
  match h with
  | HTx t => run_tx sch fuel cur t
  | HMtx t => run_mtx sch fuel cur t
  | HRestore k => ([], true, nth k trace cur, [])
  end.

(* the trace is never empty when started by [run_hist]: element 0 is the initial state; the current state is the last *)
Definition hist_step (sch : schema) (fuel : nat) (st0 : state) (trace : list state) (h : hstep) : tx_obs * list state :=
  let o := step_obs sch fuel trace (last trace st0) h in
  (o, trace ++ [obs_state o]).

Definition run_hist (sch : schema) (fuel : nat) (st0 : state) (steps : list hstep) : list state :=
  fold_left (fun tr h => snd (hist_step sch fuel st0 tr h)) steps [st0].

Definition hist_final (sch : schema) (fuel : nat) (st0 : state) (steps : list hstep) : state :=
  last (run_hist sch fuel st0 steps) st0.

(* ------------------------------------------------------------------------------------------------ reachability *)
Inductive reach (sch : schema) (fuel : nat) (st0 : state) : state -> Prop :=
| reach_init : reach sch fuel st0 st0
| reach_tx st t : reach sch fuel st0 st -> reach sch fuel st0 (obs_state (run_tx sch fuel st t))
| reach_mtx st t : reach sch fuel st0 st -> reach sch fuel st0 (obs_state (run_mtx sch fuel st t)).

Lemma last_snoc {A} (l : list A) (x d : A) : last (l ++ [x]) d = x.
Proof. induction l as [|a l IH]; [reflexivity|]. cbn [app]. destruct (l ++ [x]) eqn:E; [destruct l; discriminate|]. exact IH. Qed.

Lemma Forall_last {A} (P : A -> Prop) (l : list A) (d : A) : Forall P l -> P d -> P (last l d).
Proof. induction 1 as [|a l Ha Hl IH]; intros Hd; [exact Hd|]. destruct l; [exact Ha | apply IH; exact Hd]. Qed.

Lemma Forall_nth {A} (P : A -> Prop) (l : list A) (k : nat) (d : A) : Forall P l -> P d -> P (nth k l d).
Proof. intros Hl Hd. revert k. induction Hl as [|a l Ha Hl IH]; intros [|k]; cbn [nth]; auto. Qed.

Lemma hist_step_reach sch fuel st0 trace h :
  Forall (reach sch fuel st0) trace -> Forall (reach sch fuel st0) (snd (hist_step sch fuel st0 trace h)).
Proof.
  intros Ht. unfold hist_step. cbn [snd]. apply Forall_app. split; [exact Ht|]. constructor; [|constructor].
  assert (Hcur : reach sch fuel st0 (last trace st0)) by (apply Forall_last; [exact Ht | constructor]).
  destruct h as [t|t|k]; cbn [step_obs].
  - apply reach_tx. exact Hcur.
  - apply reach_mtx. exact Hcur.
  - unfold obs_state. cbn [fst snd]. apply Forall_nth; assumption.
Qed.

Lemma fold_hist_reach sch fuel st0 : forall steps trace,
  Forall (reach sch fuel st0) trace ->
  Forall (reach sch fuel st0) (fold_left (fun tr h => snd (hist_step sch fuel st0 tr h)) steps trace).
Proof.
  induction steps as [|h steps IH]; intros trace Ht; cbn [fold_left]; [exact Ht|].
  apply IH. apply hist_step_reach. exact Ht.
Qed.

(* every state a history with restore steps passes through is reachable by transactions alone *)
Lemma hist_reachable sch fuel st0 steps : Forall (reach sch fuel st0) (run_hist sch fuel st0 steps).
Proof. apply fold_hist_reach. constructor; [constructor | constructor]. Qed.

Lemma hist_final_reachable sch fuel st0 steps : reach sch fuel st0 (hist_final sch fuel st0 steps).
Proof. unfold hist_final. apply Forall_last; [apply hist_reachable | constructor]. Qed.

(* ------------------------------------------------------------------------------------------------ restore-free form *)
Definition is_restore (h : hstep) : bool := match h with HRestore _ => true | _ => false end.

(* a restore-free history, run from st0 *)
Definition run_plain (sch : schema) (fuel : nat) (st0 : state) (l : list hstep) : state :=
  fold_left (fun st h => obs_state (step_obs sch fuel [] st h)) l st0.

(* paths: for every element of the trace the restore-free history that leads to it *)
Definition path_step (paths : list (list hstep)) (h : hstep) : list (list hstep) :=
  let cur := last paths [] in
  paths ++ [match h with HRestore k => nth k paths cur | _ => cur ++ [h] end].

Definition paths_of (steps : list hstep) : list (list hstep) := fold_left path_step steps [[]].

Definition restore_free (steps : list hstep) : list hstep := last (paths_of steps) [].

Lemma run_plain_snoc sch fuel st0 l h :
  run_plain sch fuel st0 (l ++ [h]) = obs_state (step_obs sch fuel [] (run_plain sch fuel st0 l) h).
Proof. unfold run_plain. rewrite fold_left_app. reflexivity. Qed.

Lemma map_last {A B} (f : A -> B) (l : list A) (d : A) : last (map f l) (f d) = f (last l d).
Proof. induction l as [|a l IH]; [reflexivity|]. cbn [map]. destruct l; [reflexivity | exact IH]. Qed.

Lemma step_invariant sch fuel st0 trace paths h :
  trace = map (run_plain sch fuel st0) paths ->
  snd (hist_step sch fuel st0 trace h) = map (run_plain sch fuel st0) (path_step paths h).
Proof.
  intros ->. unfold hist_step, path_step. cbn [snd]. rewrite map_app. f_equal. cbn [map]. f_equal.
  assert (Hl : last (map (run_plain sch fuel st0) paths) st0 = run_plain sch fuel st0 (last paths []))
    by exact (map_last (run_plain sch fuel st0) paths []).
  rewrite Hl.
  destruct h as [t|t|k]; cbn [step_obs].
  - rewrite run_plain_snoc. reflexivity.
  - rewrite run_plain_snoc. reflexivity.
  - unfold obs_state. cbn [fst snd]. apply map_nth.
Qed.

Lemma fold_invariant sch fuel st0 : forall steps trace paths,
  trace = map (run_plain sch fuel st0) paths ->
  fold_left (fun tr h => snd (hist_step sch fuel st0 tr h)) steps trace =
  map (run_plain sch fuel st0) (fold_left path_step steps paths).
Proof.
  induction steps as [|h steps IH]; intros trace paths E; cbn [fold_left]; [exact E|].
  apply IH. apply step_invariant. exact E.
Qed.

Lemma run_hist_paths sch fuel st0 steps :
  run_hist sch fuel st0 steps = map (run_plain sch fuel st0) (paths_of steps).
Proof. unfold run_hist, paths_of. apply fold_invariant. reflexivity. Qed.

(* the paths contain no restore step and only steps of the original history *)
Definition path_ok (steps : list hstep) (p : list hstep) : Prop :=
  Forall (fun h => is_restore h = false /\ In h steps) p.

Lemma path_step_ok all paths h : In h all -> Forall (path_ok all) paths -> Forall (path_ok all) (path_step paths h).
Proof.
  intros Hin Hp. unfold path_step. apply Forall_app. split; [exact Hp|]. constructor; [|constructor].
  assert (Hcur : path_ok all (last paths [])) by (apply Forall_last; [exact Hp | constructor]).
  destruct h as [t|t|k].
  - apply Forall_app. split; [exact Hcur|]. constructor; [split; [reflexivity | exact Hin] | constructor].
  - apply Forall_app. split; [exact Hcur|]. constructor; [split; [reflexivity | exact Hin] | constructor].
  - apply Forall_nth; assumption.
Qed.

Lemma fold_paths_ok all : forall steps paths,
  (forall h, In h steps -> In h all) -> Forall (path_ok all) paths -> Forall (path_ok all) (fold_left path_step steps paths).
Proof.
  induction steps as [|h steps IH]; intros paths Hsub Hp; cbn [fold_left]; [exact Hp|].
  apply IH; [intros h' Hh'; apply Hsub; right; exact Hh'|]. apply path_step_ok; [apply Hsub; left; reflexivity | exact Hp].
Qed.

(* the state after a history with restore steps = the state after a restore-free history made of its steps *)
Lemma hist_restore_free sch fuel st0 steps :
  hist_final sch fuel st0 steps = run_plain sch fuel st0 (restore_free steps) /\
  Forall (fun h => is_restore h = false /\ In h steps) (restore_free steps).
Proof.
  split.
  - unfold hist_final, restore_free. rewrite run_hist_paths.
    exact (map_last (run_plain sch fuel st0) (paths_of steps) []).
  - unfold restore_free. apply Forall_last; [|constructor].
    unfold paths_of. apply fold_paths_ok; [auto|]. constructor; [constructor | constructor].
Qed.

(* a restore-free history of plain transactions is a history of Store/Model.v *)
Fixpoint txs_of (l : list hstep) : list tx :=
  match l with
  | HTx t :: r => t :: txs_of r
  | _ :: r => txs_of r
  | [] => []
  end.

Definition is_tx (h : hstep) : bool := match h with HTx _ => true | _ => false end.

Lemma run_plain_txs sch fuel : forall l st0,
  forallb is_tx l = true -> run_plain sch fuel st0 l = run_txs sch fuel st0 (txs_of l).
Proof.
  unfold run_plain, run_txs. induction l as [|h l IH]; intros st0 H; [reflexivity|].
  cbn [forallb] in H. apply andb_prop in H as [Hh Hl]. destruct h as [t|t|k]; try discriminate.
  cbn [fold_left txs_of step_obs]. rewrite (IH _ Hl). f_equal.
  unfold obs_state. destruct (run_tx sch fuel st0 t) as [[[rs b] st'] evs]. reflexivity.
Qed.

(* ------------------------------------------------------------------------------------------------ the rules after a restore *)
(* whatever the history did before - restores included -, a transaction of an ordinary context that reaches an operation
   on a system entity present NOW is refused and leaves the content as it is *)
Lemma restore_then_refused_lemma sch s fuel st0 steps t pre o post stev' :
  wf_system_b sch s = true -> tx_sys t = false ->
  tx_ops t = pre ++ o :: post ->
  snd (run_ops sch fuel (mkOctx (tx_sys t) (tx_vetoes t)) (hist_final sch fuel st0 steps, []) pre) = Ok stev' ->
  sys_target sch s (fst stev') o ->
  exists rs, fst (hist_step sch fuel st0 (run_hist sch fuel st0 steps) (HTx t)) =
             (rs, false, hist_final sch fuel st0 steps, []).
Proof.
  intros Hwf Hy Hops Hpre Ht. unfold hist_step. cbn [fst step_obs]. fold (hist_final sch fuel st0 steps).
  exact (proj2 (system_requires_system_ctx_lemma sch s fuel _ t pre o post stev' Hwf Hy Hops Hpre Ht)).
Qed.

Lemma restore_then_refused_child_lemma sch c fuel st0 steps t pre o post stev' :
  wf_system_child_b sch c = true -> tx_sys t = false ->
  tx_ops t = pre ++ o :: post ->
  snd (run_ops sch fuel (mkOctx (tx_sys t) (tx_vetoes t)) (hist_final sch fuel st0 steps, []) pre) = Ok stev' ->
  child_sys_target sch c (fst stev') o ->
  exists rs, fst (hist_step sch fuel st0 (run_hist sch fuel st0 steps) (HTx t)) =
             (rs, false, hist_final sch fuel st0 steps, []).
Proof.
  intros Hwf Hy Hops Hpre Ht. unfold hist_step. cbn [fst step_obs]. fold (hist_final sch fuel st0 steps).
  exact (proj2 (child_system_requires_system_ctx_lemma sch c fuel _ t pre o post stev' Hwf Hy Hops Hpre Ht)).
Qed.

(* a restore step brings back exactly the k-th state - entities, fields and flags *)
Lemma restore_brings_back_lemma sch fuel st0 steps k :
  (k < length (run_hist sch fuel st0 steps))%nat ->
  hist_final sch fuel st0 (steps ++ [HRestore k]) = nth k (run_hist sch fuel st0 steps) st0.
Proof.
  intros Hk. unfold hist_final, run_hist. rewrite fold_left_app. cbn [fold_left].
  unfold hist_step at 1. cbn [snd step_obs]. rewrite last_snoc. unfold obs_state. cbn [fst snd].
  apply nth_indep. exact Hk.
Qed.
