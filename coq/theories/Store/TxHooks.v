(* C08 - the hooks of a transaction: boltz/tx_context.go (mutateContext) and boltz/db.go
   (DbImpl.Update / DbImpl.Batch), on top of the store machine (Store/Model.v) and its event layer
   (Store/Events.v).  Model only, no proofs (Store/TxHooksProofs.v).

   What the caller does with a MutateContext is a PROGRAM:

     * before the transaction, on the context object (ctx.Tx() == nil):
         ctx.AddCommitAction / ctx.AddPreCommitAction            -> the initial [mctx]
     * inside the function handed to Db.Update / Db.Batch: a list of [hitem]
         HOp o            a store operation (run_op of the machine)
         HAddCommit k     ctx.AddCommitAction(action k)
         HAddPre k pk     ctx.AddPreCommitAction(action k); [pk] says what action k does when it runs
         HNest b body     db.Update(ctx, body) (b = false) / db.Batch(ctx, body) (b = true) with the
                          context of the RUNNING transaction (ctx.Tx() != nil): the call joins it

   Labels (k) identify one registration; the harness gives every registration its own label.

   db.go, both DbImpl.Update and DbImpl.Batch (identical since fixes/C08-batch-txcomplete.patch):

       if ctx.Tx() == nil {
           return self.db.Update(func(tx) error {          // bbolt: commit iff nil is returned
               ctx.setTx(tx)                               // tx.OnCommit(ctx.handleCommit)
               if err := fn(ctx); err != nil { return err }
               if err := ctx.runPreCommitActions(); err != nil { return err }
               tx.OnCommit(func() { for l in txCompleteListeners { l(ctx) } })
               return nil })
       }
       return fn(ctx)                                      // joined: nothing but the function

   bbolt runs the OnCommit handlers of a transaction once each, in registration order, after a
   successful commit, and never for a rolled-back transaction (trusted, see checks/c08.py). *)
From Coq Require Import List NArith Bool Arith.
From Storage Require Import Base.Bytes Store.Model Store.Events.
Import ListNotations.

(* what a pre-commit action does when runPreCommitActions calls it *)
Inductive pre_kind :=
| PkOk                      (* returns nil *)
| PkFail                    (* returns an error: the transaction function fails, bbolt rolls back *)
| PkAddsCommit (j : nat).   (* calls ctx.AddCommitAction(action j), returns nil *)

Inductive hitem :=
| HOp (o : op)
| HAddCommit (k : nat)
| HAddPre (k : nat) (pk : pre_kind)
| HNest (batch : bool) (body : list hitem).

(* mutateContext.preCommitActions / commitActions (registration order) *)
Record mctx := mkMctx { mc_pre : list (nat * pre_kind); mc_commit : list nat }.

(* the handlers DbImpl / mutateContext register with bbolt's tx.OnCommit (the post-commit delivery of
   entity events, EntityChangeState.processPostCommit, is the event queue of the machine) *)
Inductive handler :=
| HdlCommitActions          (* mutateContext.handleCommit: runs every action in ctx.commitActions *)
| HdlTxComplete.            (* the closure over DbImpl.txCompleteListeners *)

Record bstate := mkB {
  b_ctx : mctx;
  b_stev : st_ev;                       (* database state + queued events *)
  b_sevs : list sevent;                 (* the queued events with the entity each listener will receive *)
  b_rs : list (option ekind);           (* result of every operation issued so far *)
  b_on_commit : list handler            (* tx.OnCommit registrations so far *)
}.

Definition add_commit (c : mctx) (k : nat) : mctx := mkMctx (mc_pre c) (mc_commit c ++ [k]).
Definition add_pre (c : mctx) (k : nat) (pk : pre_kind) : mctx := mkMctx (mc_pre c ++ [(k, pk)]) (mc_commit c).

Section Run.
  Variable sch : schema.
  Variable fuel : nat.
  Variable oc : octx.

  Definition run_hop (o : op) (b : bstate) : bstate * bool :=
    match run_op sch fuel oc (b_stev b) o with
    | Ok stev1 =>
        let new := skipn (length (snd (b_stev b))) (snd stev1) in
        (mkB (b_ctx b) stev1 (b_sevs b ++ map (attach sch (fst (b_stev b)) (fst stev1)) new) (b_rs b ++ [None]) (b_on_commit b), true)
    | Err k => (mkB (b_ctx b) (b_stev b) (b_sevs b) (b_rs b ++ [Some k]) (b_on_commit b), false)
    end.

  (* the function body: the first error is returned to the caller at once (the harness, like every
     caller under the discipline of C07, propagates it up to Db.Update) *)
  Fixpoint run_item (it : hitem) (b : bstate) : bstate * bool :=
    match it with
    | HOp o => run_hop o b
    | HAddCommit k => (mkB (add_commit (b_ctx b) k) (b_stev b) (b_sevs b) (b_rs b) (b_on_commit b), true)
    | HAddPre k pk => (mkB (add_pre (b_ctx b) k pk) (b_stev b) (b_sevs b) (b_rs b) (b_on_commit b), true)
    | HNest _ body =>
        (* DbImpl.Update / DbImpl.Batch with ctx.Tx() != nil: [return fn(ctx)] *)
        (fix go (l : list hitem) (b : bstate) : bstate * bool :=
           match l with
           | [] => (b, true)
           | x :: r => let (b1, ok) := run_item x b in if ok then go r b1 else (b1, false)
           end) body b
    end.

  Fixpoint run_items (l : list hitem) (b : bstate) : bstate * bool :=
    match l with
    | [] => (b, true)
    | x :: r => let (b1, ok) := run_item x b in if ok then run_items r b1 else (b1, false)
    end.
End Run.

(* mutateContext.runPreCommitActions: [for _, action := range self.preCommitActions] - the slice is
   evaluated once, an action that fails ends the loop; returns ctx.commitActions afterwards, the labels
   of the actions that ran, and whether all of them returned nil *)
Fixpoint run_pre (l : list (nat * pre_kind)) (commits : list nat) (runs : list nat) : list nat * list nat * bool :=
  match l with
  | [] => (commits, runs, true)
  | (k, PkOk) :: r => run_pre r commits (runs ++ [k])
  | (k, PkFail) :: _ => (commits, runs ++ [k], false)
  | (k, PkAddsCommit j) :: r => run_pre r (commits ++ [j]) (runs ++ [k])
  end.

Record hook_obs := mkHookObs {
  ho_results : list (option ekind);
  ho_committed : bool;
  ho_state : state;
  ho_events : list sevent;
  ho_commit_runs : list nat;    (* label of every commit-action execution *)
  ho_pre_runs : list nat;       (* label of every pre-commit-action execution *)
  ho_tc : nat                   (* executions of each tx-complete listener *)
}.

(* bbolt after a successful commit: every handler once, in order *)
Definition fire_commit_actions (commits : list nat) (hs : list handler) : list nat :=
  flat_map (fun h => match h with HdlCommitActions => commits | HdlTxComplete => [] end) hs.
Definition fire_tx_complete (hs : list handler) : nat :=
  length (filter (fun h => match h with HdlTxComplete => true | HdlCommitActions => false end) hs).

(* DbImpl.Update(ctx, body) / DbImpl.Batch(ctx, body) with a context that has no transaction yet and
   carries the registrations [ctx0] *)
Definition db_update (sch : schema) (fuel : nat) (st : state) (sys : bool) (vetoes : list veto)
    (ctx0 : mctx) (body : list hitem) : hook_obs :=
  let oc := mkOctx sys vetoes in
  (* ctx.setTx(tx): tx.OnCommit(self.handleCommit) *)
  let (b1, ok) := run_items sch fuel oc body (mkB ctx0 (st, []) [] [] [HdlCommitActions]) in
  if ok then
    let '(commits, runs, pok) := run_pre (mc_pre (b_ctx b1)) (mc_commit (b_ctx b1)) [] in
    if pok then
      let hs := b_on_commit b1 ++ [HdlTxComplete] in
      mkHookObs (b_rs b1) true (fst (b_stev b1)) (b_sevs b1) (fire_commit_actions commits hs) runs (fire_tx_complete hs)
    else mkHookObs (b_rs b1) false st [] [] runs 0
  else mkHookObs (b_rs b1) false st [] [] [] 0.

(* ---------------------------------------------------------------- what a program registers / issues *)
Fixpoint item_ops (it : hitem) : list op :=
  match it with
  | HOp o => [o]
  | HNest _ body => (fix go (l : list hitem) : list op := match l with [] => [] | x :: r => item_ops x ++ go r end) body
  | _ => []
  end.
Definition body_ops (l : list hitem) : list op := flat_map item_ops l.

Fixpoint item_commits (it : hitem) : list nat :=
  match it with
  | HAddCommit k => [k]
  | HNest _ body => (fix go (l : list hitem) : list nat := match l with [] => [] | x :: r => item_commits x ++ go r end) body
  | _ => []
  end.
Definition body_commits (l : list hitem) : list nat := flat_map item_commits l.

Fixpoint item_pres (it : hitem) : list (nat * pre_kind) :=
  match it with
  | HAddPre k pk => [(k, pk)]
  | HNest _ body => (fix go (l : list hitem) : list (nat * pre_kind) := match l with [] => [] | x :: r => item_pres x ++ go r end) body
  | _ => []
  end.
Definition body_pres (l : list hitem) : list (nat * pre_kind) := flat_map item_pres l.

(* the same program without the nested calls: their items spliced in place *)
Fixpoint flatten_item (it : hitem) : list hitem :=
  match it with
  | HNest _ body => (fix go (l : list hitem) : list hitem := match l with [] => [] | x :: r => flatten_item x ++ go r end) body
  | x => [x]
  end.
Definition flatten (l : list hitem) : list hitem := flat_map flatten_item l.

Definition pre_fails (pk : nat * pre_kind) : bool := match snd pk with PkFail => true | _ => false end.
Fixpoint pre_added (l : list (nat * pre_kind)) : list nat :=
  match l with
  | [] => []
  | (_, PkAddsCommit j) :: r => j :: pre_added r
  | _ :: r => pre_added r
  end.

(* every pre-commit action a completed body has registered, in the order runPreCommitActions sees them *)
Definition registered_pres (ctx0 : mctx) (body : list hitem) : list (nat * pre_kind) := mc_pre ctx0 ++ body_pres body.
(* every commit action a committed transaction has registered: on the context before the transaction,
   inside the body (nested calls included), by the pre-commit actions *)
Definition registered_commits (ctx0 : mctx) (body : list hitem) : list nat :=
  (mc_commit ctx0 ++ body_commits body) ++ pre_added (registered_pres ctx0 body).

(* the transaction of the plain machine this program amounts to *)
Definition hook_tx (sys : bool) (vetoes : list veto) (ctx0 : mctx) (body : list hitem) : tx :=
  mkTx sys vetoes (body_ops body) (existsb pre_fails (registered_pres ctx0 body)).
