(* C15, ninth strengthening (seeded C15-w9-3): the persist-time validation of the PARENT's entity strategy applies to
   writes that enter through a CHILD store.

   Store/XOps.v persist_rejected is the rejection PersistEntity latches in the bucket's error holder (required string
   written empty, string-list element bbolt refuses, refused tags).  A child strategy persists the shared part through
   PersistContext.GetParentContext, whose bucket shares the error holder of the child's bucket: whatever the parent level
   rejects is rejected through the child store too - for a create, a full update and a patch with the same checker. *)
From Coq Require Import List NArith Bool.
From Storage Require Import Base.Bytes Store.Model Store.XOps Store.XOpsProofs.
Import ListNotations.

Lemma parent_rejection_is_child_rejection_closed : forall bt req sch p c pd cd fv sv ch,
  find_store sch p = Some pd -> sd_parent pd = None ->
  find_store sch c = Some cd -> sd_parent cd = Some p ->
  persist_rejected bt req sch p fv sv ch = true ->
  persist_rejected bt req sch c fv sv ch = true.
Proof.
  intros bt req sch p c pd cd fv sv ch Hp Hpp Hc Hcp H.
  unfold persist_rejected in *. rewrite Hp, Hpp in H. rewrite Hc, Hcp, Hp.
  destruct (bt && checked ch tagsF); [reflexivity|]. cbn [orb] in *.
  rewrite H. reflexivity.
Qed.

(* the create through the child store fails where the create of the same values through the parent store is rejected *)
Lemma parent_validation_refuses_child_create_closed : forall bt req sch p c pd cd fuel oc stev i sys fv sv,
  find_store sch p = Some pd -> sd_parent pd = None ->
  find_store sch c = Some cd -> sd_parent cd = Some p ->
  persist_rejected bt req sch p fv sv None = true ->
  run_xop sch fuel oc stev (XPersist bt req (OCreate p i sys fv sv)) = Err EOther /\
  run_xop sch fuel oc stev (XPersist bt req (OCreate c i sys fv sv)) = Err EOther.
Proof.
  intros bt req sch p c pd cd fuel oc stev i sys fv sv Hp Hpp Hc Hcp H. split.
  - apply persist_rejection_fails_create. exact H.
  - apply persist_rejection_fails_create.
    exact (parent_rejection_is_child_rejection_closed bt req sch p c pd cd fv sv None Hp Hpp Hc Hcp H).
Qed.
