(* C16 (strengthening): transactions whose operations run through DIFFERENT context objects of the same
   bolt transaction, and whose body may SWALLOW the error of an update refused by the system-entity
   constraint and go on (and commit).

   Go counterpart (harness store_c16s.go, c16RunTx):
     db.Update(base, func(ctx) {            base ordinary or system (tx flag)
        for each operation:
           b : the operation uses ctx itself
           s : ctx.GetSystemContext()        n : boltz.NewSystemMutateContext(ctx)
           u : db.Update(ctx.GetSystemContext(), ...) nested in the open transaction
           err := op(...)
           if err != nil { if swallow-flag && ordinary context && the update targets an entity whose STORED flag
                             is set in a family carrying the constraint { continue } ; return err }
     })
   The context kind of an operation is a property of THAT operation ([m_sys]); deriving a system context
   does not change the kind of the context it was derived from.  The machine has no notion of a partially
   executed operation ([res] carries no state on [Err]): a swallowed refusal continues from the state before
   the operation - which is what "fail and leave the entity unchanged" demands of the implementation and what
   the harness checks directly on the bolt file (dump before = dump after, inside the transaction). *)
From Coq Require Import List NArith Bool.
From Storage Require Import Base.Bytes Store.Model Store.SystemProofs.
Import ListNotations.

Record mop := mkMop { m_sys : bool; m_swallow : bool; m_op : op }.

Definition fval_true (v : fval) : bool := match v with FBool true => true | _ => false end.

(* an update (through a root or a child store) of an entity whose stored flag is set, in a family whose root
   store carries the constraint *)
Definition upd_sys_target_b (sch : schema) (st : state) (o : op) : bool :=
  match o with
  | OUpdate s0 i _ _ _ =>
      existsb is_sys (cons_of sch (root_of sch s0)) && fval_true (get_field sch st (root_of sch s0) i isSystemF)
  | _ => false
  end.

Definition swallows (sch : schema) (st : state) (m : mop) : bool :=
  m_swallow m && negb (m_sys m) && upd_sys_target_b sch st (m_op m).

Fixpoint run_mops (sch : schema) (fuel : nat) (vs : list veto) (stev : st_ev) (ops : list mop)
  : list (option ekind) * res st_ev :=
  match ops with
  | [] => ([], Ok stev)
  | m :: r =>
      match run_op sch fuel (mkOctx (m_sys m) vs) stev (m_op m) with
      | Ok stev1 => let (rs, fin) := run_mops sch fuel vs stev1 r in (None :: rs, fin)
      | Err k =>
          if swallows sch (fst stev) m
          then let (rs, fin) := run_mops sch fuel vs stev r in (Some k :: rs, fin)
          else ([Some k], Err k)
      end
  end.

Record mtx := mkMtx { mt_vetoes : list veto; mt_ops : list mop; mt_precommit_fails : bool }.

Definition run_mtx (sch : schema) (fuel : nat) (st : state) (t : mtx) : list (option ekind) * bool * state * list event :=
  let (rs, fin) := run_mops sch fuel (mt_vetoes t) (st, []) (mt_ops t) in
  match fin with
  | Ok (st', evs) => if mt_precommit_fails t then (rs, false, st, []) else (rs, true, st', evs)
  | Err _ => (rs, false, st, [])
  end.

(* ------------------------------------------------------------------------------------------------ proofs *)

(* the mixed machine is a conservative extension: one context kind for all operations and no swallowing
   = the transaction machine of Store/Model.v *)
Definition uniform (b : bool) (ops : list op) : list mop := map (mkMop b false) ops.

Lemma run_mops_uniform sch fuel vs b : forall ops stev,
  run_mops sch fuel vs stev (uniform b ops) = run_ops sch fuel (mkOctx b vs) stev ops.
Proof.
  induction ops as [|o ops IH]; intros stev; cbn [uniform map run_mops run_ops m_sys m_op]; [reflexivity|].
  destruct (run_op sch fuel (mkOctx b vs) stev o) as [stev1|k].
  - fold (uniform b ops). rewrite IH. reflexivity.
  - unfold swallows. cbn [m_swallow andb]. reflexivity.
Qed.

Lemma run_mtx_uniform_lemma sch fuel st t :
  run_mtx sch fuel st (mkMtx (tx_vetoes t) (uniform (tx_sys t) (tx_ops t)) (tx_precommit_fails t)) = run_tx sch fuel st t.
Proof.
  unfold run_mtx, run_tx. cbn [mt_vetoes mt_ops mt_precommit_fails]. rewrite run_mops_uniform. reflexivity.
Qed.

(* the kind of the context of THIS operation decides; what earlier operations of the transaction ran through
   (a system context derived from the same base context, say) is irrelevant; and the machine goes on - if the
   caller swallows the refusal - from exactly the state before the refused operation *)
Lemma refused_op_no_write_lemma sch s fuel vs stev m r :
  wf_system_b sch s = true -> m_sys m = false -> sys_target sch s (fst stev) (m_op m) ->
  exists k, run_op sch fuel (mkOctx false vs) stev (m_op m) = Err k /\
    run_mops sch fuel vs stev (m :: r) =
      if swallows sch (fst stev) m
      then (Some k :: fst (run_mops sch fuel vs stev r), snd (run_mops sch fuel vs stev r))
      else ([Some k], Err k).
Proof.
  intros Hwf Hy Ht.
  destruct (run_op_refuses_lemma sch s fuel (mkOctx false vs) stev (m_op m) Hwf eq_refl Ht) as [k Hk].
  exists k. split; [exact Hk|].
  cbn [run_mops]. rewrite Hy, Hk.
  destruct (swallows sch (fst stev) m); [|reflexivity].
  destruct (run_mops sch fuel vs stev r) as [rs fin]. reflexivity.
Qed.

(* a refusal that is not swallowed rolls the whole mixed transaction back, wherever it stands *)
Lemma run_mops_failure_propagates sch fuel vs : forall pre m post stev stev' k,
  snd (run_mops sch fuel vs stev pre) = Ok stev' ->
  run_op sch fuel (mkOctx (m_sys m) vs) stev' (m_op m) = Err k ->
  swallows sch (fst stev') m = false ->
  snd (run_mops sch fuel vs stev (pre ++ m :: post)) = Err k.
Proof.
  induction pre as [|p pre IH]; intros m post stev stev' k Hpre Ho Hs; cbn [app run_mops] in *.
  - inversion Hpre; subst. rewrite Ho, Hs. reflexivity.
  - destruct (run_op sch fuel (mkOctx (m_sys p) vs) stev (m_op p)) as [stev1|k1] eqn:Hp.
    + destruct (run_mops sch fuel vs stev1 pre) as [rs fin] eqn:Hr. cbn [snd] in Hpre. subst fin.
      specialize (IH m post stev1 stev' k). rewrite Hr in IH. specialize (IH eq_refl Ho Hs).
      destruct (run_mops sch fuel vs stev1 (pre ++ m :: post)) as [rs2 fin2]. cbn [snd] in *. exact IH.
    + destruct (swallows sch (fst stev) p).
      * destruct (run_mops sch fuel vs stev pre) as [rs fin] eqn:Hr. cbn [snd] in Hpre. subst fin.
        specialize (IH m post stev stev' k). rewrite Hr in IH. specialize (IH eq_refl Ho Hs).
        destruct (run_mops sch fuel vs stev (pre ++ m :: post)) as [rs2 fin2]. cbn [snd] in *. exact IH.
      * cbn [snd] in Hpre. discriminate.
Qed.

Lemma mixed_system_requires_system_ctx_lemma sch s fuel st t pre m post stev' :
  wf_system_b sch s = true -> m_sys m = false ->
  mt_ops t = pre ++ m :: post ->
  snd (run_mops sch fuel (mt_vetoes t) (st, []) pre) = Ok stev' ->
  sys_target sch s (fst stev') (m_op m) ->
  swallows sch (fst stev') m = false ->
  exists rs, run_mtx sch fuel st t = (rs, false, st, []).
Proof.
  intros Hwf Hy Hops Hpre Ht Hs.
  destruct (run_op_refuses_lemma sch s fuel (mkOctx false (mt_vetoes t)) stev' (m_op m) Hwf eq_refl Ht) as [k Hk].
  rewrite <- Hy in Hk.
  pose proof (run_mops_failure_propagates sch fuel (mt_vetoes t) pre m post _ _ _ Hpre Hk Hs) as Hfail.
  unfold run_mtx. rewrite Hops.
  destruct (run_mops sch fuel (mt_vetoes t) (st, []) (pre ++ m :: post)) as [rs fin]. cbn [snd] in Hfail. subst fin.
  exists rs. reflexivity.
Qed.

(* the flag in mixed transactions: whatever contexts the operations use and whichever refusals are swallowed, an
   entity that exists before and after every EXECUTED operation keeps its flag *)
Fixpoint alive_mops (sch : schema) (s : name) (fuel : nat) (vs : list veto) (j : id) (stev : st_ev) (ops : list mop) : Prop :=
  match ops with
  | [] => True
  | m :: r =>
      match run_op sch fuel (mkOctx (m_sys m) vs) stev (m_op m) with
      | Ok stev1 => present sch (fst stev) s j = true /\ present sch (fst stev1) s j = true /\ alive_mops sch s fuel vs j stev1 r
      | Err _ => if swallows sch (fst stev) m then alive_mops sch s fuel vs j stev r else True
      end
  end.

Lemma mixed_ops_preserve_flag_lemma sch s fuel vs j : forall ops stev rs stev',
  wf_system_b sch s = true ->
  run_mops sch fuel vs stev ops = (rs, Ok stev') ->
  alive_mops sch s fuel vs j stev ops ->
  get_field sch (fst stev') s j isSystemF = get_field sch (fst stev) s j isSystemF.
Proof.
  induction ops as [|m r IH]; intros stev rs stev' Hwf Hrun Hal; cbn [run_mops alive_mops] in *.
  - inversion Hrun; subst. reflexivity.
  - destruct (run_op sch fuel (mkOctx (m_sys m) vs) stev (m_op m)) as [stev1|k] eqn:Ho.
    + destruct Hal as [Hp [Hp1 Hal]].
      destruct (run_mops sch fuel vs stev1 r) as [rs1 fin] eqn:Hr. inversion Hrun; subst.
      rewrite (IH stev1 rs1 stev' Hwf Hr Hal).
      destruct stev as [st evs], stev1 as [st1 evs1]. cbn [fst] in *.
      exact (op_preserves_flag_lemma sch s fuel _ st evs (m_op m) st1 evs1 j Hwf Ho Hp Hp1).
    + destruct (swallows sch (fst stev) m).
      * destruct (run_mops sch fuel vs stev r) as [rs1 fin] eqn:Hr. inversion Hrun; subst.
        exact (IH stev rs1 stev' Hwf Hr Hal).
      * inversion Hrun.
Qed.
