(* C15: queries over a caller-supplied cursor through the stores of a parent/child family (Store/PagingCursor.v).
   The loop lemmas of Store/PagingProofs.v hold for every list of ids the cursor yields, so the refinement is theirs;
   new here: what the specification shows per store kind - a plain child store only candidates WITH child data, an
   extended child store and the parent every candidate. *)
From Coq Require Import List NArith Bool Arith Lia.
From Storage Require Import Base.Bytes Store.Model Store.ChildProofs Store.Paging Store.PagingProofs Store.PagingChild
     Store.PagingCursor.
Import ListNotations.
Local Open Scope nat_scope.

(* the two scan loops over a supplied cursor compute the specification - every schema, state, store, filter, sort,
   skip, limit and EVERY candidate list *)
Lemma cursor_scans_meet_spec_closed sch st s flt f asc skip limit cands :
  sorting_scan_over sch st s flt f asc skip limit cands = cursor_query_page sch st s flt (Some (f, asc)) skip limit cands /\
  unsorted_scan_over sch st s flt skip limit cands = cursor_query_page sch st s flt None skip limit cands.
Proof.
  split.
  - unfold sorting_scan_over, cursor_query_page, cands_matching.
    pose proof (sorting_loop_spec (q_visible sch st s) (q_match sch st s flt) (row_leb sch st s f asc)
                  (max_results skip limit) cands []) as H.
    cbn [length] in H. replace (trunc (max_results skip limit) []) with (@nil id) in H
      by (destruct (max_results skip limit); cbn [trunc]; [rewrite firstn_nil|]; reflexivity).
    rewrite H. cbn [Nat.add]. rewrite page_trunc. reflexivity.
  - unfold unsorted_scan_over, cursor_query_page, cands_matching. rewrite unsorted_loop_spec. cbn [rev app Nat.add].
    destruct limit; rewrite !Nat.sub_0_r; reflexivity.
Qed.

(* the scan over the content of the root store's entities bucket is the scan of Store/Paging.v *)
Lemma cursor_scan_over_entities sch st s flt f asc skip limit :
  sorting_scan_over sch st s flt f asc skip limit (ids_of st (root_of sch s)) = sorting_scan sch st s flt f asc skip limit /\
  unsorted_scan_over sch st s flt skip limit (ids_of st (root_of sch s)) = unsorted_scan sch st s flt skip limit.
Proof. split; reflexivity. Qed.

Lemma cursor_query_page_in sch st s flt srt skip limit cands i :
  In i (fst (cursor_query_page sch st s flt srt skip limit cands)) ->
  In i cands /\ q_visible sch st s i = true /\ q_match sch st s flt i = true.
Proof.
  unfold cursor_query_page, cands_matching. cbn [fst]. intros H. apply page_incl in H.
  assert (In i (filter (fun i0 => q_visible sch st s i0 && q_match sch st s flt i0) cands)) as H'.
  { destruct srt as [[f asc]|]; [apply sort_ids_in in H|]; exact H. }
  apply filter_In in H' as [Hc Hb]. apply andb_true_iff in Hb as [Hv Hm]. auto.
Qed.

Lemma cursor_query_page_length sch st s flt srt skip limit cands :
  length (fst (cursor_query_page sch st s flt srt skip limit cands))
  = match limit with
    | None => snd (cursor_query_page sch st s flt srt skip limit cands) - skip
    | Some n => Nat.min n (snd (cursor_query_page sch st s flt srt skip limit cands) - skip)
    end.
Proof.
  unfold cursor_query_page. cbn [fst snd]. rewrite page_length.
  destruct srt as [[f asc]|]; [rewrite sort_ids_length|]; reflexivity.
Qed.

Lemma filter_ext_eq {A} (f g : A -> bool) l : (forall x, f x = g x) -> filter f l = filter g l.
Proof. intros H. induction l as [|x l IH]; cbn; [reflexivity|]. rewrite H, IH. reflexivity. Qed.

(* C15 for queries over a supplied cursor (QueryWithCursorC), for EVERY candidate list:
   plain child store    - every id of the page is a candidate WITH child data that satisfies the filter; the count is
                          the number of candidates with child data satisfying it (never the number of candidates); the
                          page holds min(limit, count - skip) rows;
   extended child store - page and count are those of the same query over the same cursor through the parent store
                          (filter and sort on fields the child store does not declare): ALL candidates take part;
   parent store         - all candidates take part. *)
Lemma child_cursor_query_only_children_closed sch r c st flt srt skip limit cands :
  wf_child_b sch r c = true ->
  (is_ext sch c = false ->
     (forall i, In i (fst (cursor_query_page sch st c flt srt skip limit cands)) ->
                In i cands /\ present sch st c i = true /\ q_match sch st c flt i = true) /\
     snd (cursor_query_page sch st c flt srt skip limit cands)
       = length (filter (fun i => present sch st c i && q_match sch st c flt i) cands) /\
     length (fst (cursor_query_page sch st c flt srt skip limit cands))
       = match limit with
         | None => snd (cursor_query_page sch st c flt srt skip limit cands) - skip
         | Some n => Nat.min n (snd (cursor_query_page sch st c flt srt skip limit cands) - skip)
         end) /\
  (is_ext sch c = true -> flt_not_declared sch c flt -> srt_not_declared sch c srt ->
     cursor_query_page sch st c flt srt skip limit cands = cursor_query_page sch st r flt srt skip limit cands) /\
  snd (cursor_query_page sch st r flt srt skip limit cands) = length (filter (q_match sch st r flt) cands).
Proof.
  intros Hwf.
  destruct (wf_child_b_sound _ _ _ Hwf) as [pd [cd [H1 [H2 [H3 [H4 H5]]]]]].
  assert (is_child sch r = false) as Hcr by (unfold is_child; rewrite H1, H3; reflexivity).
  assert (forall i, q_visible sch st r i = true) as Hvr by (intros i; unfold q_visible; rewrite Hcr; reflexivity).
  split; [|split].
  - intros E.
    assert (forall i, q_visible sch st c i = present sch st c i) as Hv.
    { intros i. unfold q_visible. rewrite (is_child_c sch r c cd H2 H4), E. reflexivity. }
    split; [|split].
    + intros i Hi. apply cursor_query_page_in in Hi as [Hc [Hvis Hm]]. rewrite Hv in Hvis. auto.
    + unfold cursor_query_page, cands_matching. cbn [snd]. f_equal. apply filter_ext_eq. intros i. rewrite Hv. reflexivity.
    + apply cursor_query_page_length.
  - intros E Hf Hs.
    assert (forall i, q_visible sch st c i = true) as Hv.
    { intros i. unfold q_visible. rewrite E. cbn [negb]. rewrite andb_false_r. reflexivity. }
    assert (forall i, q_match sch st c flt i = q_match sch st r flt i) as Hm.
    { intros i. destruct flt as [|f v]; cbn [q_match]; [reflexivity|].
      cbn [flt_not_declared] in Hf. rewrite (child_sees_parent_fields_closed sch r c st i f Hwf Hf). reflexivity. }
    unfold cursor_query_page, cands_matching.
    rewrite (filter_ext_eq (fun i => q_visible sch st c i && q_match sch st c flt i)
                           (fun i => q_visible sch st r i && q_match sch st r flt i))
      by (intros i; rewrite Hv, Hvr, Hm; reflexivity).
    destruct srt as [[f asc]|]; [|reflexivity].
    cbn [srt_not_declared] in Hs.
    rewrite (sort_ids_ext (row_leb sch st c f asc) (row_leb sch st r f asc)); [reflexivity|].
    intros a b. unfold row_leb, row_cmp, q_key.
    rewrite !(child_sees_parent_fields_closed sch r c st _ f Hwf Hs). reflexivity.
  - unfold cursor_query_page, cands_matching. cbn [snd]. f_equal. apply filter_ext_eq. intros i. rewrite Hvr. reflexivity.
Qed.
