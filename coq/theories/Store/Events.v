(* Event delivery on top of the store machine (C08).  Model only - proofs live in Store/EventProofs.v.

   Store/Model.v queues one [event] per EntityChangeState.fireEvents and [run_tx] hands the queue
   over on commit.  This file adds what the listeners of boltz see of it:

   * the registration styles of store_crud.go (AddEntityEventListener, AddEntityEventListenerF,
     AddListener, AddEntityIdListener -> adapters that filter on the change type they were
     registered for, sync or async; AddEntityConstraint / AddUntypedEntityConstraint -> every
     change of the store) as a pure function [delivered_to] of the delivered event list;
   * the entity state a listener receives ([ent_view]: what FindById through the event's store
     loads): FinalState = the state right after the operation for create / update, InitialState =
     the state before the operation for delete;
   * an instrumented transaction run [run_tx_v] that attaches those views to the events
     ([run_tx_v_events]: it delivers exactly the events of [run_tx]);
   * commit actions (MutateContext.AddCommitAction) and tx-complete listeners
     (Db.AddTxCompleteListener): run iff the transaction commits. *)
From Coq Require Import List NArith Bool.
From Storage Require Import Base.Bytes Store.Model.
Import ListNotations.
Open Scope N_scope.

(* ---------------------------------------------------------------- change types of base.go *)
Inductive etype := ECreated | EUpdated | EDeleted | ECreatedAsync | EUpdatedAsync | EDeletedAsync.

Definition et_is_create (t : etype) : bool := match t with ECreated | ECreatedAsync => true | _ => false end.
Definition et_is_update (t : etype) : bool := match t with EUpdated | EUpdatedAsync => true | _ => false end.
Definition et_is_delete (t : etype) : bool := match t with EDeleted | EDeletedAsync => true | _ => false end.
Definition et_is_async (t : etype) : bool :=
  match t with ECreatedAsync | EUpdatedAsync | EDeletedAsync => true | _ => false end.

Definition et_change (t : etype) : change :=
  match t with
  | ECreated | ECreatedAsync => Created
  | EUpdated | EUpdatedAsync => Updated
  | EDeleted | EDeletedAsync => Deleted
  end.

(* the test of entityListenerAdapter / entityFunctionListenerAdapter / untypedEventListenerWrapper
   .ProcessPostCommit:  state.ChangeType == EntityCreated && changeType.IsCreate() || ... *)
Definition adapter_fires (t : etype) (c : change) : bool :=
  match c with
  | Created => et_is_create t
  | Updated => et_is_update t
  | Deleted => et_is_delete t
  end.

(* ---------------------------------------------------------------- registration styles *)
Inductive lstyle :=
| LTyped        (* AddEntityEventListener    -> entityListenerAdapter *)
| LFunction     (* AddEntityEventListenerF   -> entityFunctionListenerAdapter *)
| LUntyped      (* AddListener               -> untypedEventListenerWrapper *)
| LIdOnly       (* AddEntityIdListener       -> untypedEventListenerWrapper over GetId *)
| LConstraint   (* AddEntityConstraint       -> the constraint itself, every change *)
| LUntypedConstraint. (* AddUntypedEntityConstraint -> untypedEntityConstraintWrapper, every change *)

Definition style_filters (y : lstyle) : bool :=
  match y with LConstraint | LUntypedConstraint => false | _ => true end.

Record listener := mkListener {
  l_style : lstyle;
  l_store : name;
  l_types : list etype     (* changeType :: changeTypes ; ignored by the constraint styles *)
}.

(* one invocation per registered change type that matches (the adapters loop over changeTypes);
   the boolean says whether the invocation runs in its own goroutine *)
Definition invocations (l : listener) (c : change) : list bool :=
  if style_filters (l_style l) then map et_is_async (filter (fun t => adapter_fires t c) (l_types l))
  else [false].

(* processPostCommit runs the constraint list of the event's store *)
Definition delivered_to (l : listener) (evs : list event) : list (event * bool) :=
  flat_map (fun e => if str_eqb (ev_store e) (l_store l)
                     then map (fun a => (e, a)) (invocations l (ev_change e)) else []) evs.

(* ---------------------------------------------------------------- the entity a listener receives *)
Definition all_fields (sch : schema) (s : name) : list name :=
  match find_store sch s with
  | None => []
  | Some d =>
      match sd_parent d with
      | None => map fst (sd_fields d)
      | Some p => (match find_store sch p with Some pd => map fst (sd_fields pd) | None => [] end)
                  ++ map fst (sd_fields d)
      end
  end.

Definition root_sets (sch : schema) (s : name) : list name :=
  match find_store sch (root_of sch s) with Some d => sd_sets d | None => [] end.

Record view := mkView {
  v_fields : list (name * fval);       (* declared fields of the parent store, then of the store *)
  v_sets : list (name * list str);     (* declared string-list fields (root bucket) *)
  v_sys : bool                         (* BaseExtEntity.IsSystem *)
}.

(* store.FindById(tx, i) of store s, projected to the declared fields *)
Definition ent_view (sch : schema) (st : state) (s : name) (i : id) : view :=
  mkView (map (fun f => (f, get_field sch st s i f)) (all_fields sch s))
         (map (fun f => (f, get_set sch st s i f)) (root_sets sch s))
         (match get_field sch st (root_of sch s) i isSystemF with FBool true => true | _ => false end).

Record sevent := mkSevent { se_ev : event; se_view : view }.

(* FinalState is loaded after the write of the operation (loadFinalState), InitialState of a delete
   flow before the entity is removed; declared fields of an entity do not change while a cascade
   delete runs, so the state before the operation is its last state *)
Definition attach (sch : schema) (before after : state) (e : event) : sevent :=
  mkSevent e (ent_view sch (match ev_change e with Deleted => before | _ => after end) (ev_store e) (ev_id e)).

(* ---------------------------------------------------------------- instrumented run *)
Fixpoint run_ops_v (sch : schema) (fuel : nat) (oc : octx) (stev : st_ev) (ops : list op) (acc : list sevent)
  : list (option ekind) * res (st_ev * list sevent) :=
  match ops with
  | [] => ([], Ok (stev, acc))
  | o :: r =>
      match run_op sch fuel oc stev o with
      | Ok stev1 =>
          let new := skipn (length (snd stev)) (snd stev1) in
          let acc1 := acc ++ map (attach sch (fst stev) (fst stev1)) new in
          let (rs, fin) := run_ops_v sch fuel oc stev1 r acc1 in (None :: rs, fin)
      | Err k => ([Some k], Err k)
      end
  end.

Record tx_obs := mkTxObs {
  to_results : list (option ekind);
  to_committed : bool;
  to_state : state;
  to_events : list sevent;
  to_commit_actions : nat;     (* executions per registered commit action *)
  to_tx_complete : nat         (* executions per registered tx-complete listener *)
}.

(* Db.Update: events, commit actions (mutateContext.handleCommit) and tx-complete listeners are all
   bbolt OnCommit handlers: they run once iff the transaction commits *)
Definition run_tx_v (sch : schema) (fuel : nat) (st : state) (t : tx) : tx_obs :=
  let oc := mkOctx (tx_sys t) (tx_vetoes t) in
  let (rs, fin) := run_ops_v sch fuel oc (st, []) (tx_ops t) [] in
  match fin with
  | Ok ((st', _), sevs) =>
      if tx_precommit_fails t then mkTxObs rs false st [] 0 0 else mkTxObs rs true st' sevs 1 1
  | Err _ => mkTxObs rs false st [] 0 0
  end.

(* ---------------------------------------------------------------- declarative expectation *)
(* the events of a create / update entered at store s: the parent-store event (flagged) first *)
Definition ev_cu (sch : schema) (s : name) (c : change) (i : id) : list event :=
  (if is_child sch s then [mkEvent (root_of sch s) c i true] else []) ++ [mkEvent s c i false].

(* the store an Update entered through store s is carried out by (child-store strategies of a root) *)
Definition update_target (sch : schema) (st : state) (s : name) (i : id) : name :=
  if is_child sch s then s
  else match find (fun d => present sch st (sd_name d) i) (children_of sch s) with
       | Some d => sd_name d
       | None => s
       end.

(* child stores of root r whose FindById finds entity i (extended stores find every parent entity) *)
Definition flows_of (sch : schema) (st : state) (r : name) (i : id) : list name :=
  map sd_name (filter (fun d => loadable sch st (sd_name d) i) (children_of sch r)).

(* the events of the removal of entity i of root store r *)
Definition del_events (sch : schema) (st : state) (r : name) (i : id) : list event :=
  let fl := flows_of sch st r i in
  mkEvent r Deleted i (match fl with [] => false | _ => true end)
  :: map (fun c => mkEvent c Deleted i false) fl.

Definition alive (st : state) (r : name) (i : id) : bool :=
  match get_ent st r i with Some _ => true | None => false end.

Definition vanished (st st' : state) (r : name) (i : id) : bool := alive st r i && negb (alive st' r i).

Definition event_eqb (a b : event) : bool :=
  str_eqb (ev_store a) (ev_store b) && change_eqb (ev_change a) (ev_change b) &&
  str_eqb (ev_id a) (ev_id b) && Bool.eqb (ev_parent a) (ev_parent b).

Definition count_ev (e : event) (l : list event) : nat := length (filter (event_eqb e) l).

(* multiset of the events of a delete that took the database from st to st': every entity that
   vanished - the named one and every cascade-deleted referrer - contributes [del_events] once *)
Definition expected_delete (sch : schema) (st st' : state) (e : event) : nat :=
  match ev_change e with
  | Deleted =>
      let r := root_of sch (ev_store e) in
      if vanished st st' r (ev_id e) then count_ev e (del_events sch st r (ev_id e)) else 0%nat
  | _ => 0%nat
  end.

Definition expected_op (sch : schema) (st st' : state) (o : op) (e : event) : nat :=
  match o with
  | OCreate s i _ _ _ => count_ev e (ev_cu sch s Created i)
  | OUpdate s i _ _ _ => count_ev e (ev_cu sch (update_target sch st s i) Updated i)
  | ODelete _ _ => expected_delete sch st st' e
  | _ => 0%nat
  end.

(* the successful operations of a body with the states before and after each *)
Fixpoint op_trace (sch : schema) (fuel : nat) (oc : octx) (stev : st_ev) (ops : list op) : list (state * op * state) :=
  match ops with
  | [] => []
  | o :: r =>
      match run_op sch fuel oc stev o with
      | Ok stev1 => (fst stev, o, fst stev1) :: op_trace sch fuel oc stev1 r
      | Err _ => []
      end
  end.

Definition tx_trace (sch : schema) (fuel : nat) (st : state) (t : tx) : list (state * op * state) :=
  op_trace sch fuel (mkOctx (tx_sys t) (tx_vetoes t)) (st, []) (tx_ops t).

Definition expected_events (sch : schema) (tr : list (state * op * state)) (e : event) : nat :=
  fold_right (fun (x : state * op * state) acc => let '(st, o, st') := x in (expected_op sch st st' o e + acc)%nat) 0%nat tr.

(* ---------------------------------------------------------------- schema conditions *)
(* cascade deletes follow a strictly increasing rank of root stores: no cascade cycle (a cycle makes
   DeleteById recurse without bound - C04) *)
Fixpoint rank_of (rk : list (name * nat)) (s : name) : nat :=
  match rk with
  | [] => 0%nat
  | (s', n) :: r => if str_eqb s s' then n else rank_of r s
  end.

Fixpoint names_nodup (l : list name) : bool :=
  match l with
  | [] => true
  | x :: r => negb (existsb (str_eqb x) r) && names_nodup r
  end.

Definition wf_events_b (sch : schema) (rk : list (name * nat)) : bool :=
  names_nodup (map sd_name sch) &&
  forallb (fun d => match sd_parent d with Some p => negb (is_child sch p) | None => true end) sch &&
  forallb (fun d =>
    forallb (fun k => match k with
                      | CFkCascade rs _ CascDelete =>
                          Nat.ltb (rank_of rk (root_of sch (sd_name d))) (rank_of rk (root_of sch rs))
                      | _ => true
                      end) (sd_cons d)) sch.
