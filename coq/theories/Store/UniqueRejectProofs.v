(* C03, enforcement of uniqueness at operation level:
   (a) a create / update that would give entity i a non-empty value already held by another present
       entity never succeeds, fails with EDuplicate when no earlier check fails first, and the
       transaction containing it leaves the state unchanged;
   (b) with a non-nullable unique index every present entity holds a non-empty value in every
       reachable state.
   Built on the invariant of Store/UniqueProofs.v. *)
From Coq Require Import List NArith Bool Lia.
From Storage Require Import Base.Bytes Base.BytesFacts Store.Model Store.AListFacts Store.FrameProofs
  Store.UniqueProofs Store.WfSchema Store.TxProofs.
Import ListNotations.

(* ================================================================ generic: decomposition of hook runs *)
Lemma after_update_all_app sch c : forall pre rest svs st,
  after_update_all sch st c (pre ++ rest) svs =
  (do st1 <- after_update_all sch st c pre svs; after_update_all sch st1 c rest (skipn (length pre) svs)).
Proof.
  induction pre as [|k pre IH]; intros rest svs st; cbn [app after_update_all length].
  - reflexivity.
  - destruct (after_update_one sch st c k _) as [st1|e]; cbn [bind]; [|reflexivity].
    rewrite IH. destruct svs as [|x svs]; cbn [skipn]; rewrite ?skipn_nil; reflexivity.
Qed.

(* the constraints registered before the unique index on f *)
Fixpoint before_unique (f : name) (ks : list cons) : list cons :=
  match ks with
  | [] => []
  | k :: r => if is_unique_on f k then [] else k :: before_unique f r
  end.

Lemma before_unique_app f pre nl post :
  Forall (fun k => ~ is_ours f k) pre -> before_unique f (pre ++ CUnique f nl :: post) = pre.
Proof.
  induction pre as [|k pre IH]; intros H; cbn [app before_unique].
  - cbn. rewrite str_eqb_refl. reflexivity.
  - inversion H as [|? ? Hk Hr]; subst. destruct (is_unique_on f k) eqn:E.
    + apply is_unique_on_spec in E. contradiction.
    + f_equal. apply IH. exact Hr.
Qed.

(* the indexing chain of a store with root s starts with the constraint list of s *)
Lemma after_chain_root sch s st cr sys i s0 svs :
  root_of sch s0 = s -> (is_child sch s0 = false -> s0 = s) ->
  after_chain sch st cr sys i (chain sch s0) svs =
  (do stA <- after_update_all sch st (mkIctx cr sys s i) (cons_of sch s) (hd [] svs);
   if is_child sch s0
   then (do stB <- after_update_all sch stA (mkIctx cr sys s0 i) (cons_of sch s0) (hd [] (tl svs)); Ok stB)
   else Ok stA).
Proof.
  intros Hr Hnc. unfold chain. destruct (is_child sch s0) eqn:Ec.
  - rewrite Hr. cbn [after_chain]. destruct svs as [|x [|y t]]; reflexivity.
  - rewrite (Hnc eq_refl). cbn [after_chain]. destruct svs as [|x t]; reflexivity.
Qed.

Lemma before_chain_root sch s st cr sys i s0 svs :
  root_of sch s0 = s -> (is_child sch s0 = false -> s0 = s) ->
  before_chain sch st cr sys i (chain sch s0) = Ok svs ->
  before_update_all sch st (mkIctx cr sys s i) (cons_of sch s) = Ok (hd [] svs).
Proof.
  intros Hr Hnc. unfold chain. destruct (is_child sch s0) eqn:Ec.
  - rewrite Hr. cbn [before_chain].
    destruct (before_update_all sch st _ (cons_of sch s)) as [a|e]; cbn [bind]; [|discriminate].
    destruct (before_update_all sch st _ (cons_of sch s0)) as [b|e]; cbn [bind]; [|discriminate].
    intros H; inversion H; subst. reflexivity.
  - rewrite (Hnc eq_refl). cbn [before_chain].
    destruct (before_update_all sch st _ (cons_of sch s)) as [a|e]; cbn [bind]; [|discriminate].
    intros H; inversion H; subst. reflexivity.
Qed.

(* what PersistEntity writes for a declared field that the checker allows and the entity provides *)
Lemma persist_fields_get f v fv ch : lookup_fv fv f = Some (Some v) -> checked ch f = true ->
  forall decl cur, al_get f (persist_fields decl fv ch cur) =
                   if existsb (fun p : name * bool => str_eqb (fst p) f) decl then Some (FStr v) else al_get f cur.
Proof.
  intros Hl Hc. unfold persist_fields. induction decl as [|[g ptr] decl IH]; intros cur; cbn [fold_left existsb fst].
  - reflexivity.
  - rewrite IH. destruct (str_eqb g f) eqn:E; cbn [orb].
    + apply str_eqb_eq in E. subst g. rewrite Hc, Hl. rewrite al_get_put_same.
      destruct (existsb _ decl); reflexivity.
    + destruct (existsb _ decl); [reflexivity|]. apply str_eqb_neq in E.
      destruct (checked ch g); [|reflexivity].
      destruct (lookup_fv fv g) as [[x|]|]; try destruct ptr; apply al_get_put_other; exact E.
Qed.

(* ================================================================ the section *)
Section UniqueReject.
  Variable sch : schema.
  Variable s f : name.
  Hypothesis Hroot : is_child sch s = false.
  Hypothesis Hroots : forall x, root_of sch (root_of sch x) = root_of sch x.
  Hypothesis Hown : forall s' nl, root_of sch s' = s -> In (CUnique f nl) (cons_of sch s') -> s' = s.
  Hypothesis Honce : exists nl pre post,
    cons_of sch s = pre ++ CUnique f nl :: post /\ Forall (fun k => ~ is_ours f k) pre /\ Forall (fun k => ~ is_ours f k) post.
  Hypothesis Hchildren : forall r0 d, In d (children_of sch r0) -> root_of sch (sd_name d) = r0.

  Local Notation PRES := (pres sch s).
  Local Notation FB := (fbytes sch s f).
  Local Notation UINV := (UInv sch s f).
  Local Notation MID := (MidInv sch s f).
  Local Notation VIEW := (same_view sch s f).

  Lemma rs : root_of sch s = s.
  Proof. apply root_s. exact Hroot. Qed.

  Lemma s_found : find_store sch s <> None.
  Proof.
    intros E. destruct Honce as [nl [pre [post [Hc _]]]]. unfold cons_of in Hc. rewrite E in Hc.
    destruct pre; discriminate.
  Qed.

  Lemma found_of_root s0 : root_of sch s0 = s -> find_store sch s0 <> None.
  Proof.
    intros Hr E. unfold root_of in Hr. rewrite E in Hr. subst s0. exact (s_found E).
  Qed.

  Lemma not_child_eq s0 : root_of sch s0 = s -> is_child sch s0 = false -> s0 = s.
  Proof.
    intros Hr Hc. unfold root_of, is_child in *. destruct (find_store sch s0) as [d|]; [|exact Hr].
    destruct (sd_parent d); [discriminate | exact Hr].
  Qed.

  (* ---- the value PersistEntity leaves in field f of the root entity ---- *)
  (* (the string sets play no role, so the reference run persists none) *)
  Definition new_f (cr sys : bool) (fv : fieldvals) (ch : checker) (e : entity) : str :=
    fv_bytes (ent_field (persist sch s cr sys fv [] ch e) f).

  Definition cur_ent (st : state) (i : id) : entity :=
    match get_ent st s i with Some e => e | None => ent_empty end.

  Lemma persist_root_ef s0 cr sys fv sv ch e : root_of sch s0 = s -> find_store sch s0 <> None ->
    e_f (persist sch s0 cr sys fv sv ch e) = e_f (persist sch s cr sys fv [] ch e).
  Proof.
    intros Hr Hf. unfold persist. unfold root_of in Hr. destruct (find_store sch s0) as [d0|] eqn:E0; [|congruence].
    destruct (sd_parent d0) as [p|] eqn:Ep.
    - subst p. pose proof Hroot as Hc. unfold is_child in Hc. destruct (find_store sch s) as [ds|]; [|reflexivity].
      destruct (sd_parent ds); [discriminate|]. reflexivity.
    - subst s0. rewrite E0, Ep. reflexivity.
  Qed.

  Lemma fbytes_set_ent_same st i e : FB (set_ent st s i e) i = fv_bytes (ent_field e f).
  Proof.
    unfold fbytes, get_field. rewrite rs, get_ent_set_ent, !str_eqb_refl. cbn [andb].
    rewrite Hroot. cbn [andb]. destruct (find_store sch s); reflexivity.
  Qed.

  Lemma fbytes_persisted st s0 i cr sys fv sv ch e : root_of sch s0 = s -> find_store sch s0 <> None ->
    FB (set_ent st s i (persist sch s0 cr sys fv sv ch e)) i = new_f cr sys fv ch e.
  Proof.
    intros Hr Hf. rewrite fbytes_set_ent_same. unfold new_f, ent_field.
    rewrite (persist_root_ef s0 cr sys fv sv ch e Hr Hf). reflexivity.
  Qed.

  (* when the entity supplies the value v for the declared field f and the field checker allows f,
     the persisted value is v *)
  Lemma new_f_supplied cr sys fv ch e v d :
    find_store sch s = Some d -> declares_field d f = true ->
    lookup_fv fv f = Some (Some v) -> checked ch f = true -> (cr && sys = false \/ f <> isSystemF) ->
    new_f cr sys fv ch e = v.
  Proof.
    intros Hd Hdecl Hl Hc Hsys. unfold new_f, persist, ent_field. rewrite Hd.
    pose proof Hroot as Hch. unfold is_child in Hch. rewrite Hd in Hch. destruct (sd_parent d); [discriminate|].
    cbn [e_f].
    assert (al_get f (persist_fields (sd_fields d) fv ch (e_f e)) = Some (FStr v)) as Hg.
    { rewrite (persist_fields_get f v fv ch Hl Hc). unfold declares_field in Hdecl.
      destruct (existsb _ (sd_fields d)) eqn:E; [reflexivity|]. exfalso.
      pose proof (eq_trans (eq_sym Hdecl) E) as X. discriminate X. }
    destruct (cr && sys) eqn:Ecs.
    - destruct Hsys as [Hs|Hs]; [discriminate|]. rewrite al_get_put_other by congruence. rewrite Hg. reflexivity.
    - rewrite Hg. reflexivity.
  Qed.

  (* ---- (a) the unique hook reports the duplicate ---- *)
  (* another present entity holds the non-empty value v *)
  Definition dup_at (st : state) (i : id) (v : str) : Prop :=
    nonempty v = true /\ exists j, j <> i /\ PRES st j = true /\ FB st j = v.

  Lemma dup_at_view st st' i v : VIEW st st' -> dup_at st i v -> dup_at st' i v.
  Proof.
    intros [_ [Hp Hf]] [Hn [j [Hj [Hpj Hfj]]]]. split; [exact Hn|]. exists j. rewrite Hp, Hf. tauto.
  Qed.

  Lemma unique_hook_dup old i v st c nl sv :
    MID old i st -> ic_store c = s -> ic_id c = i -> sv_atom sv = old -> old <> v ->
    dup_at st i v -> FB st i = v ->
    after_update_one sch st c (CUnique f nl) sv = Err EDuplicate.
  Proof.
    intros [M1 [M2 [M3 M4]]] Hs Hi Hsv Hov [Hnv [j [Hji [Hpj Hfj]]]] Hfi. cbn [after_update_one].
    rewrite Hs, Hi, Hsv, rs. fold (fbytes sch s f st i). rewrite Hfi.
    assert (str_eqb old v = false) as Eov by (apply str_eqb_neq; exact Hov). rewrite Eov, andb_false_r, Hnv.
    assert (al_get v (uidx st s f) = Some j) as Hg.
    { specialize (M3 j Hji Hpj). rewrite Hfj in M3. unfold ix in M3. apply M3. exact Hnv. }
    assert (al_get v (if nonempty old then al_del old (uidx st s f) else uidx st s f) = Some j) as ->.
    { destruct (nonempty old); [|exact Hg]. rewrite al_get_del, Eov. exact Hg. }
    reflexivity.
  Qed.

  (* the constraint list of s, run after entity i was persisted with the duplicate value *)
  Lemma cons_run_dup c old i v st1 svs :
    MID old i st1 -> ic_store c = s -> ic_id c = i ->
    (forall pre k post, cons_of sch s = pre ++ k :: post -> is_ours f k ->
        sv_atom (hd SvNone (skipn (length pre) svs)) = old) ->
    old <> v -> dup_at st1 i v -> FB st1 i = v ->
    exists k, after_update_all sch st1 c (cons_of sch s) svs = Err k /\
              (forall stm, after_update_all sch st1 c (before_unique f (cons_of sch s)) svs = Ok stm -> k = EDuplicate).
  Proof.
    intros HM Hs Hi Hsv Hov Hdup Hfi. destruct Honce as [nl [pre [post [Hc [Hpre Hpost]]]]].
    specialize (Hsv pre (CUnique f nl) post Hc (ex_intro _ nl eq_refl)).
    rewrite Hc. rewrite (before_unique_app f pre nl post Hpre). rewrite after_update_all_app.
    destruct (after_update_all sch st1 c pre svs) as [stm|e] eqn:Epre; cbn [bind].
    - assert (VIEW st1 stm) as Hv.
      { eapply after_all_view; [|exact Epre]. apply not_ours_of_not_is_ours. exact Hpre. }
      assert (MID old i stm) as HMm by (eapply MidInv_view; eauto).
      pose proof (dup_at_view _ _ _ _ Hv Hdup) as Hdm.
      assert (FB stm i = v) as Hfm by (destruct Hv as [_ [_ Hf]]; rewrite Hf; exact Hfi).
      cbn [after_update_all].
      pose proof (unique_hook_dup old i v stm c nl (match skipn (length pre) svs with x :: _ => x | [] => SvNone end)
                    HMm Hs Hi Hsv Hov Hdm Hfm) as Hh.
      rewrite Hh. cbn [bind].
      exists EDuplicate. split; [reflexivity | intros; reflexivity].
    - exists e. split; [reflexivity | intros stm H; discriminate].
  Qed.

  (* ---- create ---- *)
  Lemma op_create_dup oc st evs s0 i sys fv sv v :
    UINV st -> root_of sch s0 = s -> dup_at st i v -> new_f true sys fv None ent_empty = v ->
    exists k, op_create sch oc (st, evs) s0 i sys fv sv = Err k /\
      (forall evs1 stm,
         nonempty i = true -> present sch st s i = false -> key_ok i = true ->
         fire_cu sch oc evs s0 Created i = Ok evs1 ->
         after_update_all sch (set_ent st s i (persist sch s0 true sys fv sv None ent_empty))
                          (mkIctx true (oc_sys oc) s i) (before_unique f (cons_of sch s)) [] = Ok stm ->
         k = EDuplicate).
  Proof.
    intros HU Hr Hdup Hnew. unfold op_create.
    pose proof (found_of_root s0 Hr) as Hfound.
    destruct (find_store sch s0) as [d0|] eqn:Ef; [|congruence].
    destruct (nonempty i) eqn:Eni; cbn [negb]; [|exists EOther; split; [reflexivity | intros; congruence]].
    destruct (present sch st s0 i) eqn:Ep0.
    { exists EOther. split; [reflexivity|]. intros ? ? _ Hps.
      pose proof (pres_of_present sch s Hroot st s0 i Hr Ep0) as Hp. unfold pres in Hp. congruence. }
    rewrite Hr. destruct (present sch st s i) eqn:Eps; [exists EOther; split; [reflexivity | intros; congruence]|].
    destruct (key_ok i) eqn:Ek; cbn [negb]; [|exists EOther; split; [reflexivity | intros; congruence]].
    destruct (fire_cu sch oc evs s0 Created i) as [evs1|e] eqn:Efire; cbn [bind];
      [|exists e; split; [reflexivity | intros; congruence]].
    set (st1 := set_ent st s i (persist sch s0 true sys fv sv None ent_empty)).
    assert (MID [] i st1) as HM by (apply persist_mid_create; [exact Hroot | exact HU | exact Eps]).
    assert (dup_at st1 i v) as Hd1.
    { destruct Hdup as [Hn [j [Hj [Hpj Hfj]]]]. split; [exact Hn|]. exists j. split; [exact Hj|]. unfold st1. split.
      - rewrite pres_set_ent by exact Hroot. destruct (str_eqb i j); [reflexivity | exact Hpj].
      - rewrite fbytes_set_ent_other by (try exact Hroot; congruence). exact Hfj. }
    assert (FB st1 i = v) as Hf1.
    { unfold st1. rewrite fbytes_persisted; [exact Hnew | exact Hr | rewrite Ef; discriminate]. }
    assert ([] <> v) as Hov by (destruct Hdup as [Hn _]; intros <-; discriminate).
    destruct (cons_run_dup (mkIctx true (oc_sys oc) s i) [] i v st1 [] HM eq_refl eq_refl) as [k [Hk1 Hk2]];
      [intros; rewrite skipn_nil; reflexivity | exact Hov | exact Hd1 | exact Hf1 |].
    rewrite (after_chain_root sch s st1 true (oc_sys oc) i s0 [] Hr (not_child_eq s0 Hr)).
    cbn [hd]. rewrite Hk1. cbn [bind]. exists k. split; [reflexivity|].
    intros evs1' stm _ _ _ _ Hrun. eapply Hk2. exact Hrun.
  Qed.

  (* ---- update ---- *)
  Lemma update_in_dup oc st evs s0 i fv sv ch v :
    UINV st -> root_of sch s0 = s -> dup_at st i v -> new_f false false fv ch (cur_ent st i) = v ->
    exists k, update_in sch oc (st, evs) s0 i fv sv ch = Err k /\
      (forall evs1 svs stm,
         nonempty i = true -> present sch st s0 i = true ->
         fire_cu sch oc evs s0 Updated i = Ok evs1 ->
         before_chain sch st false (oc_sys oc) i (chain sch s0) = Ok svs ->
         after_update_all sch (set_ent st s i (persist sch s0 false false fv sv ch (cur_ent st i)))
                          (mkIctx false (oc_sys oc) s i) (before_unique f (cons_of sch s)) (hd [] svs) = Ok stm ->
         k = EDuplicate).
  Proof.
    intros HU Hr Hdup Hnew. unfold update_in.
    destruct (nonempty i) eqn:Eni; cbn [negb]; [|exists EOther; split; [reflexivity | intros; congruence]].
    destruct (loadable sch st s0 i) eqn:El; cbn [negb].
    2:{ exists ENotFound. split; [reflexivity|]. intros ? ? ? _ Hp. unfold loadable in El. rewrite Hp in El. discriminate. }
    destruct (present sch st s0 i) eqn:Ep0; cbn [negb]; [|exists ENotFound; split; [reflexivity | intros; congruence]].
    destruct (fire_cu sch oc evs s0 Updated i) as [evs1|e] eqn:Efire; cbn [bind];
      [|exists e; split; [reflexivity | intros; congruence]].
    destruct (before_chain sch st false (oc_sys oc) i (chain sch s0)) as [svs|e] eqn:Ebc; cbn [bind];
      [|exists e; split; [reflexivity | intros; congruence]].
    rewrite Hr. fold (cur_ent st i).
    set (st1 := set_ent st s i (persist sch s0 false false fv sv ch (cur_ent st i))).
    pose proof (pres_of_present sch s Hroot st s0 i Hr Ep0) as Hpi.
    assert (MID (FB st i) i st1) as HM by (apply persist_mid_update; [exact Hroot | exact HU | exact Hpi]).
    assert (dup_at st1 i v) as Hd1.
    { destruct Hdup as [Hn [j [Hj [Hpj Hfj]]]]. split; [exact Hn|]. exists j. split; [exact Hj|]. unfold st1. split.
      - rewrite pres_set_ent by exact Hroot. destruct (str_eqb i j); [reflexivity | exact Hpj].
      - rewrite fbytes_set_ent_other by (try exact Hroot; congruence). exact Hfj. }
    assert (FB st1 i = v) as Hf1.
    { unfold st1. rewrite fbytes_persisted; [exact Hnew | exact Hr | apply found_of_root; exact Hr]. }
    assert (FB st i <> v) as Hov.
    { intros E. destruct Hdup as [Hn [j [Hj [Hpj Hfj]]]].
      destruct (UInv_DInv sch s f (fun _ => False) st HU) as [_ [_ HI]].
      apply Hj. symmetry. apply HI; [exact Hpi | exact Hpj | congruence | rewrite E; exact Hn]. }
    pose proof (before_chain_root sch s st false (oc_sys oc) i s0 svs Hr (not_child_eq s0 Hr) Ebc) as HbA.
    destruct (cons_run_dup (mkIctx false (oc_sys oc) s i) (FB st i) i v st1 (hd [] svs) HM eq_refl eq_refl) as [k [Hk1 Hk2]];
      [eapply saved_at_hook; exact HbA | exact Hov | exact Hd1 | exact Hf1 |].
    rewrite (after_chain_root sch s st1 false (oc_sys oc) i s0 svs Hr (not_child_eq s0 Hr)).
    rewrite Hk1. cbn [bind]. exists k. split; [reflexivity|].
    intros evs1' svs' stm _ _ _ Hb Hrun. inversion Hb; subst svs'. eapply Hk2. exact Hrun.
  Qed.

  (* the store through which BaseStore.Update really runs: a root store hands the entity to the first
     child store that holds data for it *)
  Definition upd_store (st : state) (s0 : name) (i : id) : name :=
    if is_child sch s0 then s0
    else match find (fun d => present sch st (sd_name d) i) (children_of sch s0) with
         | Some d => sd_name d
         | None => s0
         end.

  Lemma upd_store_root st s0 i : root_of sch s0 = s -> root_of sch (upd_store st s0 i) = s.
  Proof.
    intros Hr. unfold upd_store. destruct (is_child sch s0) eqn:Ec; [exact Hr|].
    destruct (find _ (children_of sch s0)) as [d|] eqn:E; [|exact Hr].
    apply find_some in E as [Hin _]. rewrite (Hchildren _ _ Hin). apply not_child_eq; assumption.
  Qed.

  Lemma op_update_eq oc st evs s0 i fv sv ch : find_store sch s0 <> None ->
    op_update sch oc (st, evs) s0 i fv sv ch = update_in sch oc (st, evs) (upd_store st s0 i) i fv sv ch.
  Proof.
    intros Hf. unfold op_update, upd_store. destruct (find_store sch s0); [|congruence].
    destruct (is_child sch s0); [reflexivity|]. cbn [fst].
    destruct (find _ (children_of sch s0)); reflexivity.
  Qed.

  Lemma op_update_dup oc st evs s0 i fv sv ch v :
    UINV st -> root_of sch s0 = s -> dup_at st i v -> new_f false false fv ch (cur_ent st i) = v ->
    exists k, op_update sch oc (st, evs) s0 i fv sv ch = Err k /\
      (forall evs1 svs stm,
         nonempty i = true -> present sch st (upd_store st s0 i) i = true ->
         fire_cu sch oc evs (upd_store st s0 i) Updated i = Ok evs1 ->
         before_chain sch st false (oc_sys oc) i (chain sch (upd_store st s0 i)) = Ok svs ->
         after_update_all sch (set_ent st s i (persist sch (upd_store st s0 i) false false fv sv ch (cur_ent st i)))
                          (mkIctx false (oc_sys oc) s i) (before_unique f (cons_of sch s)) (hd [] svs) = Ok stm ->
         k = EDuplicate).
  Proof.
    intros HU Hr Hdup Hnew. rewrite op_update_eq by (apply found_of_root; exact Hr).
    apply (update_in_dup oc st evs (upd_store st s0 i) i fv sv ch v); [exact HU | apply upd_store_root; exact Hr | exact Hdup | exact Hnew].
  Qed.

  (* ---- operations and transactions ---- *)
  (* o is a create / update of an entity of root store s that would duplicate a held value *)
  Definition dup_op (st : state) (o : op) : Prop :=
    match o with
    | OCreate s0 i sys fv sv => root_of sch s0 = s /\ exists v, dup_at st i v /\ new_f true sys fv None ent_empty = v
    | OUpdate s0 i fv sv ch => root_of sch s0 = s /\ exists v, dup_at st i v /\ new_f false false fv ch (cur_ent st i) = v
    | _ => False
    end.

  Lemma run_op_dup fuel oc st evs o : UINV st -> dup_op st o -> exists k, run_op sch fuel oc (st, evs) o = Err k.
  Proof.
    intros HU Hd. destruct o as [s0 i sys fv sv|s0 i fv sv ch|s0 i|s0 i lf ts|s0 i lf ts|]; cbn [dup_op run_op] in *; try contradiction.
    - destruct Hd as [Hr [v [Hdup Hnew]]]. destruct (op_create_dup oc st evs s0 i sys fv sv v HU Hr Hdup Hnew) as [k [Hk _]].
      exists k. exact Hk.
    - destruct Hd as [Hr [v [Hdup Hnew]]]. destruct (op_update_dup oc st evs s0 i fv sv ch v HU Hr Hdup Hnew) as [k [Hk _]].
      exists k. exact Hk.
  Qed.

  (* a transaction whose operation list reaches a duplicating operation is rolled back: no state change,
     no events, and the operation's error is the last reported result *)
  Lemma dup_tx_rolled_back fuel st t pre o post st1 evs1 :
    UINV st -> tx_ops t = pre ++ o :: post ->
    snd (run_ops sch fuel (mkOctx (tx_sys t) (tx_vetoes t)) (st, []) pre) = Ok (st1, evs1) ->
    dup_op st1 o ->
    exists rs k, run_op sch fuel (mkOctx (tx_sys t) (tx_vetoes t)) (st1, evs1) o = Err k /\
                 run_tx sch fuel st t = (rs ++ [Some k], false, st, []).
  Proof.
    intros HU Hops Hpre Hd. set (oc := mkOctx (tx_sys t) (tx_vetoes t)) in *.
    assert (UINV st1) as HU1.
    { destruct (run_ops sch fuel oc (st, []) pre) as [rs0 fin0] eqn:E0. cbn [snd] in Hpre. subst fin0.
      eapply (run_ops_inv sch s f Hroot Hroots Hown Honce Hchildren); eauto. }
    destruct (run_op_dup fuel oc st1 evs1 o HU1 Hd) as [k Hk].
    pose proof (run_ops_failure_propagates sch fuel oc pre o post (st, []) (st1, evs1) k Hpre Hk) as Hfail.
    unfold run_tx. fold oc. rewrite Hops.
    destruct (run_ops sch fuel oc (st, []) (pre ++ o :: post)) as [rs fin] eqn:E. cbn [snd] in Hfail. subst fin.
    pose proof (run_ops_results _ _ _ _ _ _ _ E) as [pre' [-> _]].
    exists pre', k. split; [exact Hk | reflexivity].
  Qed.

  (* ================================================================ (b) non-nullable unique index *)
  Definition NN (st : state) : Prop := forall i, PRES st i = true -> nonempty (FB st i) = true.
  Definition NMid (i : id) (st : state) : Prop := forall j, j <> i -> PRES st j = true -> nonempty (FB st j) = true.

  Lemma NN_view st st' : VIEW st st' -> NN st -> NN st'.
  Proof. intros [_ [Hp Hf]] H i Hpi. rewrite Hp in Hpi. rewrite Hf. apply H. exact Hpi. Qed.

  Hypothesis Hnn : In (CUnique f false) (cons_of sch s).

  Lemma once_false : exists pre post,
    cons_of sch s = pre ++ CUnique f false :: post /\ Forall (fun k => ~ is_ours f k) pre /\ Forall (fun k => ~ is_ours f k) post.
  Proof.
    destruct Honce as [nl [pre [post [Hc [Hpre Hpost]]]]]. exists pre, post.
    assert (nl = false) as ->; [|tauto].
    rewrite Hc in Hnn. apply in_app_or in Hnn. rewrite Forall_forall in Hpre, Hpost.
    assert (is_ours f (CUnique f false)) as Ho by (exists false; reflexivity).
    destruct Hnn as [H|[H|H]]; [exfalso; exact (Hpre _ H Ho) | inversion H; reflexivity | exfalso; exact (Hpost _ H Ho)].
  Qed.

  Lemma unique_hook_nn stm c sv stu i :
    after_update_one sch stm c (CUnique f false) sv = Ok stu -> ic_store c = s -> ic_id c = i ->
    (ic_create c = false -> nonempty (sv_atom sv) = true) ->
    nonempty (FB stm i) = true /\ (forall j, PRES stu j = PRES stm j) /\ (forall j, FB stu j = FB stm j).
  Proof.
    intros H Hs Hi Hold. pose proof (after_update_one_frame _ _ _ _ _ _ H) as [Hfc _].
    split; [|split; intros j; [apply present_fc; apply Hfc | unfold fbytes; f_equal; apply get_field_fc; apply Hfc]].
    cbn [after_update_one] in H. rewrite Hs, Hi, rs in H. fold (fbytes sch s f stm i) in H.
    destruct (negb (ic_create c) && str_eqb (sv_atom sv) (FB stm i)) eqn:E.
    - apply andb_prop in E as [E1 E2]. apply negb_true_iff in E1. apply str_eqb_eq in E2.
      rewrite <- E2. apply Hold. exact E1.
    - destruct (nonempty (FB stm i)); [reflexivity | discriminate].
  Qed.

  Lemma cons_run_nn c i st1 svs st2 :
    after_update_all sch st1 c (cons_of sch s) svs = Ok st2 -> ic_store c = s -> ic_id c = i ->
    (ic_create c = false -> forall pre k post, cons_of sch s = pre ++ k :: post -> is_ours f k ->
        nonempty (sv_atom (hd SvNone (skipn (length pre) svs))) = true) ->
    NMid i st1 -> NN st2.
  Proof.
    intros H Hs Hi Hold HM. destruct once_false as [pre [post [Hc [Hpre Hpost]]]].
    assert (ic_create c = false -> nonempty (sv_atom (hd SvNone (skipn (length pre) svs))) = true) as Hold'
      by (intros Hcr; apply (Hold Hcr pre (CUnique f false) post Hc); exists false; reflexivity).
    rewrite Hc, after_update_all_app in H.
    destruct (after_update_all sch st1 c pre svs) as [stm|e] eqn:Epre; cbn [bind] in H; [|discriminate].
    cbn [after_update_all] in H.
    destruct (after_update_one sch stm c (CUnique f false) _) as [stu|e] eqn:Eu; cbn [bind] in H; [|discriminate].
    assert (VIEW st1 stm) as [_ [Hp1 Hf1]].
    { eapply after_all_view; [|exact Epre]. apply not_ours_of_not_is_ours. exact Hpre. }
    destruct (unique_hook_nn stm c _ stu i Eu Hs Hi Hold') as [Hne [Hp2 Hf2]].
    assert (VIEW stu st2) as [_ [Hp3 Hf3]].
    { eapply after_all_view; [|exact H]. apply not_ours_of_not_is_ours. exact Hpost. }
    intros j Hpj. rewrite Hf3, Hf2. rewrite Hp3, Hp2 in Hpj.
    destruct (str_eq_dec j i) as [->|Hji]; [exact Hne|].
    rewrite Hf1. rewrite Hp1 in Hpj. apply HM; assumption.
  Qed.

  Lemma NMid_set_ent st i e : NN st -> NMid i (set_ent st s i e).
  Proof.
    intros H j Hj Hp. rewrite pres_set_ent in Hp by exact Hroot.
    assert (str_eqb i j = false) as E by (apply str_eqb_neq; congruence). rewrite E in Hp.
    rewrite fbytes_set_ent_other by (try exact Hroot; congruence). apply H. exact Hp.
  Qed.

  (* the part of the chain after the constraint list of s *)
  Lemma chain_rest_nn cr sys i s0 stA st2 sv :
    (if is_child sch s0
     then (do stB <- after_update_all sch stA (mkIctx cr sys s0 i) (cons_of sch s0) sv; Ok stB)
     else Ok stA) = Ok st2 -> NN stA -> NN st2.
  Proof.
    intros H HN. destruct (is_child sch s0) eqn:Ec; [|inversion H; subst; exact HN].
    destruct (after_update_all sch stA _ (cons_of sch s0) sv) as [stB|e] eqn:EB; cbn [bind] in H; [|discriminate].
    inversion H; subst. eapply NN_view; [|exact HN].
    eapply (after_all_view sch s f (mkIctx cr sys s0 i)); [|exact EB]. cbn.
    apply not_ours_child; assumption.
  Qed.

  Lemma other_root_view st r0 i e cr sys s0 svs st2 : r0 = root_of sch s0 -> r0 <> s ->
    after_chain sch (set_ent st r0 i e) cr sys i (chain sch s0) svs = Ok st2 -> VIEW st st2.
  Proof.
    intros Hr0 Hr Eac. eapply same_view_trans.
    - apply set_ent_other_view; [exact Hroot | exact Hr].
    - eapply after_chain_view; [|exact Eac]. intros s' ks Hin.
      apply (chain_in sch Hroots) in Hin as [-> Hrs]. apply not_ours_other_root. congruence.
  Qed.

  Lemma op_create_nn oc st evs s0 i sys fv sv st' evs' :
    NN st -> op_create sch oc (st, evs) s0 i sys fv sv = Ok (st', evs') -> NN st'.
  Proof.
    intros HN H. unfold op_create in H.
    destruct (find_store sch s0) as [d0|]; [|discriminate].
    destruct (negb (nonempty i)); [discriminate|].
    destruct (present sch st s0 i); [discriminate|].
    destruct (present sch st (root_of sch s0) i); [discriminate|].
    destruct (negb (key_ok i)); [discriminate|].
    destruct (fire_cu sch oc evs s0 Created i) as [evs1|e]; cbn [bind] in H; [|discriminate].
    destruct (after_chain sch _ true (oc_sys oc) i (chain sch s0) []) as [st2|e] eqn:Eac; cbn [bind] in H; [|discriminate].
    inversion H; subst st' evs'. clear H.
    destruct (str_eq_dec (root_of sch s0) s) as [Hr|Hr].
    - rewrite Hr in Eac. rewrite (after_chain_root sch s _ true (oc_sys oc) i s0 [] Hr (not_child_eq s0 Hr)) in Eac.
      destruct (after_update_all sch _ _ (cons_of sch s) _) as [stA|e] eqn:EA; cbn [bind] in Eac; [|discriminate].
      eapply chain_rest_nn; [exact Eac|].
      eapply (cons_run_nn (mkIctx true (oc_sys oc) s i) i _ _ stA EA eq_refl eq_refl); [cbn; discriminate|].
      apply NMid_set_ent. exact HN.
    - eapply NN_view; [|exact HN]. eapply other_root_view; [reflexivity | exact Hr | exact Eac].
  Qed.

  Lemma update_in_nn oc st evs s0 i fv sv ch st' evs' :
    NN st -> update_in sch oc (st, evs) s0 i fv sv ch = Ok (st', evs') -> NN st'.
  Proof.
    intros HN H. unfold update_in in H.
    destruct (negb (nonempty i)); [discriminate|].
    destruct (negb (loadable sch st s0 i)); [discriminate|].
    destruct (present sch st s0 i) eqn:Ep0; cbn [negb] in H; [|discriminate].
    destruct (fire_cu sch oc evs s0 Updated i) as [evs1|e]; cbn [bind] in H; [|discriminate].
    destruct (before_chain sch st false (oc_sys oc) i (chain sch s0)) as [svs|e] eqn:Ebc; cbn [bind] in H; [|discriminate].
    destruct (after_chain sch _ false (oc_sys oc) i (chain sch s0) svs) as [st2|e] eqn:Eac; cbn [bind] in H; [|discriminate].
    inversion H; subst st' evs'. clear H.
    destruct (str_eq_dec (root_of sch s0) s) as [Hr|Hr].
    - pose proof (pres_of_present sch s Hroot st s0 i Hr Ep0) as Hpi.
      rewrite Hr in Eac. rewrite (after_chain_root sch s _ false (oc_sys oc) i s0 svs Hr (not_child_eq s0 Hr)) in Eac.
      destruct (after_update_all sch _ _ (cons_of sch s) _) as [stA|e] eqn:EA; cbn [bind] in Eac; [|discriminate].
      eapply chain_rest_nn; [exact Eac|].
      pose proof (before_chain_root sch s st false (oc_sys oc) i s0 svs Hr (not_child_eq s0 Hr) Ebc) as HbA.
      eapply (cons_run_nn (mkIctx false (oc_sys oc) s i) i _ _ stA EA eq_refl eq_refl).
      + intros _ pre k post Hc Ho. rewrite (saved_at_hook sch s f st i _ _ HbA pre k post Hc Ho). apply HN. exact Hpi.
      + apply NMid_set_ent. exact HN.
    - eapply NN_view; [|exact HN]. eapply other_root_view; [reflexivity | exact Hr | exact Eac].
  Qed.

  Lemma run_op_nn fuel oc st evs o st' evs' :
    UINV st -> NN st -> run_op sch fuel oc (st, evs) o = Ok (st', evs') -> NN st'.
  Proof.
    intros HU HN H. destruct o as [s0 i sys fv sv|s0 i fv sv ch|s0 i|s0 i lf ts|s0 i lf ts|]; cbn [run_op] in H.
    - eapply op_create_nn; eauto.
    - unfold op_update in H. destruct (find_store sch s0); [|discriminate].
      destruct (is_child sch s0); [eapply update_in_nn; eauto|].
      destruct (find _ (children_of sch s0)); eapply update_in_nn; eauto.
    - destruct (delete_spec sch s f Hroot Hroots Hown Honce oc Hchildren fuel (fun _ => False) (st, evs) s0 i (st', evs')) as [_ [_ Hm]];
        [apply UInv_DInv; exact HU | exact H|]. cbn [fst] in Hm.
      intros j Hp. destruct (Hm j Hp) as [Hp0 Hf0]. rewrite Hf0. apply HN. exact Hp0.
    - cbn [fst snd] in H. destruct (op_add_links sch st s0 i lf ts) as [st1|e] eqn:E; cbn [bind] in H; [|discriminate].
      inversion H; subst. eapply NN_view; [eapply op_add_links_view; eauto | exact HN].
    - cbn [fst snd] in H. destruct (op_remove_links sch st s0 i lf ts) as [st1|e] eqn:E; cbn [bind] in H; [|discriminate].
      inversion H; subst. eapply NN_view; [eapply op_remove_links_view; eauto | exact HN].
    - discriminate.
  Qed.

  Lemma run_ops_nn fuel oc : forall ops st evs rs st' evs',
    UINV st -> NN st -> run_ops sch fuel oc (st, evs) ops = (rs, Ok (st', evs')) -> NN st'.
  Proof.
    induction ops as [|o ops IH]; intros st evs rs st' evs' HU HN H; cbn [run_ops] in H.
    - inversion H; subst. exact HN.
    - destruct (run_op sch fuel oc (st, evs) o) as [[st1 evs1]|e] eqn:E1; [|inversion H].
      destruct (run_ops sch fuel oc (st1, evs1) ops) as [rs1 fin] eqn:E2. inversion H; subst.
      eapply IH; [| |exact E2].
      + eapply (run_op_inv sch s f Hroot Hroots Hown Honce oc Hchildren); eauto.
      + eapply run_op_nn; eauto.
  Qed.

  Lemma run_tx_nn fuel st t : UINV st -> NN st ->
    NN (match run_tx sch fuel st t with (_, _, st', _) => st' end).
  Proof.
    intros HU HN. unfold run_tx.
    destruct (run_ops sch fuel _ (st, []) (tx_ops t)) as [rs fin] eqn:E. destruct fin as [[st1 evs1]|e]; [|exact HN].
    destruct (tx_precommit_fails t); [exact HN|]. eapply run_ops_nn; eauto.
  Qed.

  Lemma run_txs_nn fuel : forall ts st, UINV st -> NN st -> NN (run_txs sch fuel st ts).
  Proof.
    unfold run_txs. induction ts as [|t ts IH]; intros st HU HN; cbn [fold_left]; [exact HN|].
    apply IH; [apply (run_tx_inv sch s f Hroot Hroots Hown Honce Hchildren); exact HU | apply run_tx_nn; assumption].
  Qed.

  Lemma nonnull_unique_never_empty_lemma fuel ts :
    let st := run_txs sch fuel st_empty ts in
    forall i, present sch st s i = true -> nonempty (fv_bytes (get_field sch st s i f)) = true.
  Proof.
    intros st. apply run_txs_nn; [apply UInv_empty|].
    intros i H. unfold pres, present in H. cbn in H. discriminate.
  Qed.
End UniqueReject.
