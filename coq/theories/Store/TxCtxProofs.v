(* Proofs about Store/TxCtx.v: every context derived from the transaction's context without building a new
   mutateContext object shares its pre-commit queue; Db.Update over a program that registers actions through derived
   contexts is the store machine's transaction whose pre-commit flag is "some failing action was registered through a
   context that belongs to the transaction"; hence such an action fails the transaction, at any position. *)
From Coq Require Import List NArith Bool Arith Lia.
From Storage Require Import Base.Bytes Store.Model Store.XOps Store.XOpsProofs Store.TxCtx.
Import ListNotations.
Local Open Scope nat_scope.

(* ---------------------------------------------------------------- references *)
Lemma root_new_system c : root (new_system_ctx c) = root c.
Proof. destruct c; reflexivity. Qed.

Lemma root_get_system c : root (get_system_ctx c) = root c.
Proof. destruct c; reflexivity. Qed.

Lemma root_update_ctx c : root (update_ctx c) = root c.
Proof. induction c as [q|w IH]; cbn; [reflexivity|exact IH]. Qed.

Lemma root_wrap1 w c : root (wrap1 w c) = root c.
Proof. destruct w; cbn [wrap1]; [apply root_get_system|apply root_new_system|apply root_update_ctx]. Qed.

Lemma root_wrap : forall p c, root (wrap p c) = root c.
Proof.
  induction p as [|w p IH]; intros c; [reflexivity|].
  unfold wrap in *. cbn [fold_left]. rewrite IH. apply root_wrap1.
Qed.

(* a system wrapper never wraps a system wrapper when it is built by the library's constructors *)
Lemma new_system_idem c : new_system_ctx (new_system_ctx c) = new_system_ctx c.
Proof. destruct c; reflexivity. Qed.

Definition reg_obj (a : act) (m : mobj) : mobj :=
  match a with
  | APre k f => mkMobj (m_pre m ++ [(k, f)]) (m_commit m)
  | ACommit k => mkMobj (m_pre m) (m_commit m ++ [k])
  end.

Lemma add_pre_root c a h :
  add_pre_action c a h = upd_nth (root c) (fun m => mkMobj (m_pre m ++ [a]) (m_commit m)) h.
Proof. induction c as [q|w IH]; cbn; [reflexivity|exact IH]. Qed.

Lemma add_commit_root c k h :
  add_commit_action c k h = upd_nth (root c) (fun m => mkMobj (m_pre m) (m_commit m ++ [k])) h.
Proof. induction c as [q|w IH]; cbn; [reflexivity|exact IH]. Qed.

Lemma register_root a c h : register a c h = upd_nth (root c) (reg_obj a) h.
Proof. destruct a as [k f|k]; cbn [register]; [exact (add_pre_root c (k, f) h)|exact (add_commit_root c k h)]. Qed.

Lemma pre_actions_root c h : pre_actions_of c h = m_pre (get (root c) h).
Proof. induction c as [q|w IH]; cbn; [reflexivity|exact IH]. Qed.

Lemma run_pre_ok_spec l : run_pre_ok l = negb (existsb snd l).
Proof. induction l as [|[k f] l IH]; cbn; [reflexivity|]. destruct f; cbn; [reflexivity|exact IH]. Qed.

(* ---------------------------------------------------------------- the heap *)
Lemma upd_nth_length f : forall h q, length (upd_nth q f h) = length h.
Proof. induction h as [|m h IH]; intros q; [reflexivity|]. destruct q; cbn; [reflexivity|]. rewrite IH. reflexivity. Qed.

Lemma get_upd_same f : forall h q, q < length h -> get q (upd_nth q f h) = f (get q h).
Proof.
  induction h as [|m h IH]; intros q Hq; cbn in Hq; [lia|].
  destruct q; cbn; [reflexivity|]. apply IH. lia.
Qed.

Lemma get_upd_other f : forall h q r, q <> r -> get r (upd_nth q f h) = get r h.
Proof.
  induction h as [|m h IH]; intros q r Hne; [reflexivity|].
  destruct q, r; cbn; try reflexivity; [congruence|]. apply IH. congruence.
Qed.

Lemma get_app_l r h ext : r < length h -> get r (h ++ ext) = get r h.
Proof. intros H. unfold get. apply app_nth1. exact H. Qed.

(* ---------------------------------------------------------------- derivations *)
Lemma derive_fold_spec : forall p ch,
  exists ext, snd (fold_left derive1 p ch) = snd ch ++ ext /\
    (if belongs p then root (fst (fold_left derive1 p ch)) = root (fst ch) /\ ext = []
     else length (snd ch) <= root (fst (fold_left derive1 p ch)) < length (snd ch) + length ext).
Proof.
  induction p as [|d p IH]; intros ch.
  - exists []. cbn. rewrite app_nil_r. auto.
  - cbn [fold_left]. destruct (IH (derive1 ch d)) as [ext2 [Hs Hr]].
    destruct d as [w|b|].
    + exists ext2. cbn [derive1 fst snd] in *. split; [exact Hs|].
      cbn [belongs forallb step_belongs andb]. fold (belongs p).
      destruct (belongs p); [|exact Hr]. destruct Hr as [Hr ->]. split; [|reflexivity].
      rewrite Hr. apply root_wrap1.
    + exists ext2. cbn [derive1] in *. split; [exact Hs|].
      cbn [belongs forallb step_belongs andb]. fold (belongs p). exact Hr.
    + exists (new_mobj :: ext2). cbn [derive1 fst snd] in *. split.
      * rewrite Hs, <- app_assoc. reflexivity.
      * cbn [belongs forallb step_belongs andb]. rewrite app_length in Hr. cbn [length] in *.
        destruct (belongs p).
        -- destruct Hr as [Hr ->]. rewrite Hr. cbn [root length]. lia.
        -- lia.
Qed.

Lemma derive_spec p c h :
  exists ext, snd (derive p c h) = h ++ ext /\
    (if belongs p then root (fst (derive p c h)) = root c /\ ext = []
     else length h <= root (fst (derive p c h)) < length h + length ext).
Proof. exact (derive_fold_spec p (c, h)). Qed.

(* a context derived through wrappers, UpdateContext and joined nested calls is a reference to the SAME
   mutateContext object, and the derivation allocates nothing *)
Lemma derive_belongs p c h :
  belongs p = true -> root (fst (derive p c h)) = root c /\ snd (derive p c h) = h.
Proof.
  intros Hb. destruct (derive_spec p c h) as [ext [Hs Hr]].
  rewrite Hb in Hr. destruct Hr as [Hr ->]. rewrite app_nil_r in Hs. auto.
Qed.

(* ... so a pre-commit action registered through it is in the slice runPreCommitActions of the original context
   ranges over (AddPreCommitAction and runPreCommitActions of every wrapper delegate down to the root object) *)
Lemma registration_reaches_queue p c h k f :
  belongs p = true -> root c < length h ->
  let ch := derive p c h in
  pre_actions_of c (register (APre k f) (fst ch) (snd ch)) = pre_actions_of c h ++ [(k, f)].
Proof.
  intros Hb Hlt ch. destruct (derive_belongs p c h Hb) as [Hr Hs]. subst ch.
  rewrite Hs, register_root, Hr, !pre_actions_root, get_upd_same by exact Hlt. reflexivity.
Qed.

(* ---------------------------------------------------------------- the body *)
Definition item_live_pres (it : citem) : list (nat * bool) :=
  match it with
  | IReg p (APre k f) => if belongs p then [(k, f)] else []
  | _ => []
  end.
Definition live_pres (l : list citem) : list (nat * bool) := flat_map item_live_pres l.

Lemma live_pres_fail l : existsb snd (live_pres l) = existsb item_live_fail l.
Proof.
  induction l as [|it l IH]; [reflexivity|].
  unfold live_pres in *. cbn [flat_map existsb]. rewrite existsb_app, IH. f_equal.
  destruct it as [x|p [k f|k]]; cbn [item_live_pres item_live_fail act_fails].
  - reflexivity.
  - destruct (belongs p); cbn; [destruct f; reflexivity|reflexivity].
  - destruct (belongs p); reflexivity.
Qed.

Lemma run_citems_spec sch fuel oc c0 : forall l h stev rs fin h1,
  root c0 < length h ->
  run_citems sch fuel oc c0 l h stev = (rs, fin, h1) ->
  run_xops sch fuel oc stev (body_xops l) = (rs, fin) /\
  (forall s, fin = Ok s -> m_pre (get (root c0) h1) = m_pre (get (root c0) h) ++ live_pres l).
Proof.
  induction l as [|it l IH]; intros h stev rs fin h1 Hlt H.
  - cbn in H. inversion H; subst. split; [reflexivity|]. intros _ _. cbn. rewrite app_nil_r. reflexivity.
  - destruct it as [x|p a].
    + cbn [run_citems] in H. unfold body_xops in *. cbn [flat_map item_xops app run_xops].
      destruct (run_xop sch fuel oc stev x) as [stev1|k].
      * destruct (run_citems sch fuel oc c0 l h stev1) as [[rs' fin'] h1'] eqn:Hr. inversion H; subst.
        destruct (IH _ _ _ _ _ Hlt Hr) as [Hx Hq]. rewrite Hx. split; [reflexivity|exact Hq].
      * inversion H; subst. split; [reflexivity|]. intros s Hs. discriminate.
    + cbn [run_citems] in H. unfold body_xops in *. cbn [flat_map item_xops app].
      destruct (derive_spec p c0 h) as [ext [Hs Hr]].
      set (ch := derive p c0 h) in *.
      assert (Hlen : length (register a (fst ch) (snd ch)) = length h + length ext).
      { rewrite register_root, upd_nth_length, Hs, app_length. reflexivity. }
      assert (Hlt' : root c0 < length (register a (fst ch) (snd ch))) by lia.
      destruct (IH _ _ _ _ _ Hlt' H) as [Hx Hq]. split; [exact Hx|].
      intros s Hfin. rewrite (Hq s Hfin). unfold live_pres. cbn [flat_map]. rewrite app_assoc. f_equal.
      rewrite register_root, Hs.
      destruct (belongs p) eqn:Hb.
      * destruct Hr as [Hr ->]. rewrite app_nil_r, Hr, get_upd_same by exact Hlt.
        destruct a as [k f|k]; cbn [reg_obj m_pre item_live_pres]; rewrite ?Hb; [reflexivity|rewrite app_nil_r; reflexivity].
      * rewrite get_upd_other by lia. rewrite get_app_l by exact Hlt.
        destruct a as [k f|k]; cbn [item_live_pres]; rewrite ?Hb, app_nil_r; reflexivity.
Qed.

(* ---------------------------------------------------------------- before the transaction *)
Definition before_pres (l : list (list wstep * act)) : list (nat * bool) :=
  flat_map (fun pa => match snd pa with APre k f => [(k, f)] | ACommit _ => [] end) l.

Lemma before_pres_fail l : existsb snd (before_pres l) = existsb (fun pa => act_fails (snd pa)) l.
Proof.
  induction l as [|[w a] l IH]; [reflexivity|].
  unfold before_pres in *. cbn [flat_map existsb snd]. rewrite existsb_app, IH. f_equal.
  destruct a as [k f|k]; cbn; [destruct f; reflexivity|reflexivity].
Qed.

Lemma before_fold : forall l h, 0 < length h ->
  let h' := fold_left (fun h pa => register (snd pa) (wrap (fst pa) (CPlain 0)) h) l h in
  length h' = length h /\ m_pre (get 0 h') = m_pre (get 0 h) ++ before_pres l.
Proof.
  induction l as [|[w a] l IH]; intros h Hlt; cbn [fold_left].
  - cbn. rewrite app_nil_r. auto.
  - cbn [fst snd].
    assert (Hreg : register a (wrap w (CPlain 0)) h = upd_nth 0 (reg_obj a) h).
    { rewrite register_root, root_wrap. reflexivity. }
    rewrite Hreg.
    assert (Hlt' : 0 < length (upd_nth 0 (reg_obj a) h)) by (rewrite upd_nth_length; exact Hlt).
    destruct (IH _ Hlt') as [Hl Hq]. cbn zeta in *. split.
    + rewrite Hl. apply upd_nth_length.
    + rewrite Hq, get_upd_same by exact Hlt. unfold before_pres. cbn [flat_map snd]. rewrite app_assoc. f_equal.
      destruct a as [k f|k]; cbn [reg_obj m_pre]; [reflexivity|rewrite app_nil_r; reflexivity].
Qed.

Lemma heap_before_spec p :
  0 < length (heap_before p) /\
  m_pre (get 0 (heap_before p)) = if cp_nil p then [] else before_pres (cp_before p).
Proof.
  unfold heap_before. destruct (cp_nil p).
  - cbn. split; [lia|reflexivity].
  - destruct (before_fold (cp_before p) [new_mobj]) as [Hl Hq]; [cbn; lia|]. cbn zeta in *.
    rewrite Hl, Hq. cbn. split; [lia|reflexivity].
Qed.

Lemma root_opened p : root (opened_ctx p) = 0.
Proof. unfold opened_ctx. destruct (cp_nil p); [reflexivity|]. rewrite root_wrap. reflexivity. Qed.

(* ---------------------------------------------------------------- the transaction *)
(* Db.Update / Db.Batch over a program that registers actions through derived contexts = the transaction of the store
   machine over the program's operations whose pre-commit flag is ctx_precommit_fails *)
Lemma ctx_update_refines sch fuel st sys vetoes p :
  let o := ctx_update sch fuel st sys vetoes p in
  (co_results o, co_committed o, co_state o, co_events o) = run_xtx sch fuel st (ctx_xtx sys vetoes p).
Proof.
  unfold ctx_update, run_xtx, ctx_xtx. cbn [xtx_sys xtx_vetoes xtx_ops xtx_precommit_fails].
  destruct (heap_before_spec p) as [Hlen Hq0].
  destruct (run_citems sch fuel (mkOctx sys vetoes) (opened_ctx p) (cp_body p) (heap_before p) (st, []))
    as [[rs fin] h1] eqn:Hr.
  assert (Hlt : root (opened_ctx p) < length (heap_before p)) by (rewrite root_opened; exact Hlen).
  destruct (run_citems_spec _ _ _ _ _ _ _ _ _ _ Hlt Hr) as [Hx Hq]. rewrite Hx.
  destruct fin as [[st' evs]|k]; [|reflexivity].
  specialize (Hq _ eq_refl). rewrite root_opened in Hq.
  rewrite pre_actions_root, root_opened, Hq, Hq0, run_pre_ok_spec, existsb_app, live_pres_fail.
  unfold ctx_precommit_fails.
  destruct (cp_nil p); cbn [negb andb existsb orb].
  - destruct (existsb item_live_fail (cp_body p)); reflexivity.
  - rewrite before_pres_fail.
    destruct (existsb (fun pa => act_fails (snd pa)) (cp_before p)), (existsb item_live_fail (cp_body p)); reflexivity.
Qed.

Lemma ctx_update_rollback_runs_nothing sch fuel st sys vetoes p :
  let o := ctx_update sch fuel st sys vetoes p in
  co_committed o = false -> co_state o = st /\ co_events o = [] /\ co_commit_runs o = [].
Proof.
  unfold ctx_update.
  destruct (run_citems sch fuel (mkOctx sys vetoes) (opened_ctx p) (cp_body p) (heap_before p) (st, []))
    as [[rs fin] h1].
  destruct fin as [[st' evs]|k]; [|cbn; auto].
  destruct (run_pre_ok (pre_actions_of (opened_ctx p) h1)); cbn; [discriminate|auto].
Qed.

Lemma ctx_update_error_iff sch fuel st sys vetoes p :
  let o := ctx_update sch fuel st sys vetoes p in
  co_committed o = false <-> (ctx_precommit_fails p = true \/ exists k, In (Some k) (co_results o)).
Proof.
  cbn zeta. pose proof (ctx_update_refines sch fuel st sys vetoes p) as Href. cbn zeta in Href.
  pose proof (run_xtx_error_iff_lemma sch fuel st (ctx_xtx sys vetoes p)) as Hiff.
  rewrite <- Href in Hiff. cbn [ctx_xtx xtx_precommit_fails] in Hiff. exact Hiff.
Qed.

Lemma live_fail_in_body p path k :
  In (IReg path (APre k true)) (cp_body p) -> belongs path = true -> ctx_precommit_fails p = true.
Proof.
  intros Hin Hb. unfold ctx_precommit_fails. apply orb_true_iff. right.
  apply existsb_exists. exists (IReg path (APre k true)). split; [exact Hin|].
  cbn [item_live_fail act_fails]. rewrite Hb. reflexivity.
Qed.

Lemma live_fail_before p w k :
  cp_nil p = false -> In (w, APre k true) (cp_before p) -> ctx_precommit_fails p = true.
Proof.
  intros Hn Hin. unfold ctx_precommit_fails. apply orb_true_iff. left. rewrite Hn. cbn [negb andb].
  apply existsb_exists. exists (w, APre k true). split; [exact Hin|reflexivity].
Qed.

(* a failing pre-commit action registered - at ANY position of the function - through ANY context that belongs to
   the transaction fails the transaction: error to the caller, database unchanged, no event, no commit action *)
Lemma failing_precommit_in_body sch fuel st sys vetoes p path k :
  In (IReg path (APre k true)) (cp_body p) -> belongs path = true ->
  let o := ctx_update sch fuel st sys vetoes p in
  co_committed o = false /\ co_state o = st /\ co_events o = [] /\ co_commit_runs o = [].
Proof.
  intros Hin Hb o.
  assert (Hc : co_committed o = false).
  { apply (ctx_update_error_iff sch fuel st sys vetoes p). left. exact (live_fail_in_body p path k Hin Hb). }
  split; [exact Hc|]. exact (ctx_update_rollback_runs_nothing sch fuel st sys vetoes p Hc).
Qed.

Lemma failing_precommit_before sch fuel st sys vetoes p w k :
  cp_nil p = false -> In (w, APre k true) (cp_before p) ->
  let o := ctx_update sch fuel st sys vetoes p in
  co_committed o = false /\ co_state o = st /\ co_events o = [] /\ co_commit_runs o = [].
Proof.
  intros Hn Hin o.
  assert (Hc : co_committed o = false).
  { apply (ctx_update_error_iff sch fuel st sys vetoes p). left. exact (live_fail_before p w k Hn Hin). }
  split; [exact Hc|]. exact (ctx_update_rollback_runs_nothing sch fuel st sys vetoes p Hc).
Qed.
