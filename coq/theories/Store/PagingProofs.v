(* C15: the scan loops of Store/Paging.v (transcribed from boltz/query_scanners.go) compute the specification
   [query_page]: count = number of visible matching ids, page = skip/limit of the (sorted) visible matching ids;
   hence a paged / sorted / counted query through a plain child store only ever shows and counts entities with
   child data, and through an extended child store it is the query through the parent. *)
From Coq Require Import List NArith Bool Arith Lia Permutation Sorted.
From Storage Require Import Base.Bytes Codec.StrOrderProofs Store.Model Store.Paging.
Import ListNotations.
Local Open Scope nat_scope.

(* ---------------------------------------------------------------- lists *)
Lemma filter_andb {A} (f g : A -> bool) l : filter (fun x => f x && g x) l = filter g (filter f l).
Proof.
  induction l as [|a l IH]; cbn; [reflexivity|].
  destruct (f a); cbn; [destruct (g a); rewrite IH; reflexivity|exact IH].
Qed.

Lemma ins_length leb x l : length (ins leb x l) = S (length l).
Proof. induction l as [|y r IH]; cbn; [reflexivity|]. destruct (leb x y); cbn; [reflexivity|]. rewrite IH. reflexivity. Qed.

Lemma firstn_cons_firstn {A} k (y : A) r : firstn k (y :: firstn k r) = firstn k (y :: r).
Proof.
  destruct k as [|k]; [reflexivity|]. change (y :: firstn k (firstn (S k) r) = y :: firstn k r).
  f_equal. rewrite firstn_firstn. f_equal. lia.
Qed.

(* truncating the tree before an insertion does not change the truncated result *)
Lemma ins_firstn leb x : forall l k, firstn k (ins leb x (firstn k l)) = firstn k (ins leb x l).
Proof.
  induction l as [|y r IH]; intros k.
  - rewrite firstn_nil. reflexivity.
  - destruct k as [|k]; [reflexivity|]. cbn [firstn ins]. destruct (leb x y).
    + cbn [firstn]. f_equal. apply firstn_cons_firstn.
    + cbn [firstn]. f_equal. apply IH.
Qed.

Definition trunc (maxr : option nat) (l : list id) : list id :=
  match maxr with None => l | Some m => firstn m l end.

Lemma tree_step leb maxr i S0 :
  (if over (S (length S0)) maxr then removelast (ins leb i (trunc maxr S0)) else ins leb i (trunc maxr S0))
  = trunc maxr (ins leb i S0).
Proof.
  destruct maxr as [m|]; cbn [over trunc]; [|reflexivity].
  destruct (Nat.ltb m (S (length S0))) eqn:E.
  - apply Nat.ltb_lt in E. rewrite removelast_firstn_len, ins_length, firstn_length.
    replace (Nat.pred (S (Nat.min m (length S0)))) with m by lia. apply ins_firstn.
  - apply Nat.ltb_ge in E. rewrite (firstn_all2 S0) by lia.
    rewrite firstn_all2; [reflexivity|]. rewrite ins_length. exact E.
Qed.

Lemma sort_ids_app leb l x acc :
  fold_left (fun t y => ins leb y t) (l ++ [x]) acc = ins leb x (fold_left (fun t y => ins leb y t) l acc).
Proof. rewrite fold_left_app. reflexivity. Qed.

Lemma fold_ins_length leb : forall l acc, length (fold_left (fun t y => ins leb y t) l acc) = length acc + length l.
Proof.
  induction l as [|x l IH]; intros acc; cbn; [lia|]. rewrite IH, ins_length. lia.
Qed.

(* ---------------------------------------------------------------- the three loops *)
Section Loops.
  Variables (vis mat : id -> bool).
  Local Notation vm := (fun i : id => vis i && mat i).

  Lemma sorting_loop_spec leb maxr : forall ids S0,
    sorting_loop vis mat leb maxr ids (trunc maxr S0) (length S0)
    = (trunc maxr (fold_left (fun t y => ins leb y t) (filter vm ids) S0), length S0 + length (filter vm ids)).
  Proof.
    induction ids as [|i r IH]; intros S0; cbn [sorting_loop filter fold_left].
    - cbn. f_equal. lia.
    - destruct (vis i); cbn [negb andb]; [|apply IH].
      destruct (mat i); [|apply IH].
      rewrite tree_step. change (S (length S0)) with (S (length S0)).
      rewrite <- (ins_length leb i S0). rewrite IH. cbn [fold_left length]. f_equal. rewrite ins_length. lia.
  Qed.

  Lemma unsorted_loop_spec skip limit : forall ids offset collected count acc,
    unsorted_loop vis mat skip limit ids offset collected count acc
    = (rev acc ++ match limit with
                  | None => skipn (skip - offset) (filter vm ids)
                  | Some l => firstn (l - collected) (skipn (skip - offset) (filter vm ids))
                  end,
       count + length (filter vm ids)).
  Proof.
    induction ids as [|i r IH]; intros offset collected count acc; cbn [unsorted_loop filter].
    - rewrite skipn_nil. destruct limit; [rewrite firstn_nil|]; rewrite app_nil_r; cbn; f_equal; lia.
    - destruct (vis i); cbn [negb andb]; [|apply IH].
      destruct (mat i); [|apply IH].
      destruct (Nat.ltb offset skip) eqn:Eo.
      + apply Nat.ltb_lt in Eo. rewrite IH. replace (skip - offset) with (S (skip - S offset)) by lia.
        cbn [skipn length]. f_equal. lia.
      + apply Nat.ltb_ge in Eo. replace (skip - offset) with 0 by lia. cbn [skipn].
        destruct limit as [l|]; cbn [under].
        * destruct (Nat.ltb collected l) eqn:Ec.
          -- apply Nat.ltb_lt in Ec. rewrite IH. replace (skip - offset) with 0 by lia. cbn [skipn].
             replace (l - collected) with (S (l - S collected)) by lia. cbn [firstn rev length].
             rewrite <- app_assoc. cbn. f_equal. lia.
          -- apply Nat.ltb_ge in Ec. rewrite IH. replace (skip - offset) with 0 by lia.
             replace (l - collected) with 0 by lia. cbn [firstn skipn length]. f_equal. lia.
        * rewrite IH. replace (skip - offset) with 0 by lia. cbn [skipn rev length].
          rewrite <- app_assoc. cbn. f_equal. lia.
  Qed.

  Lemma cursor_loop_spec skip limit : forall ids offset collected,
    cursor_loop vis mat skip limit ids offset collected
    = match limit with
      | None => skipn (skip - offset) (filter vm ids)
      | Some l => firstn (l - collected) (skipn (skip - offset) (filter vm ids))
      end.
  Proof.
    induction ids as [|i r IH]; intros offset collected; cbn [cursor_loop filter].
    - rewrite skipn_nil. destruct limit; [rewrite firstn_nil|]; reflexivity.
    - destruct (under collected limit) eqn:Eu; cbn [negb].
      + destruct (vis i); cbn [negb andb]; [|apply IH].
        destruct (mat i); [|apply IH].
        destruct (Nat.ltb offset skip) eqn:Eo.
        * apply Nat.ltb_lt in Eo. rewrite IH. replace (skip - offset) with (S (skip - S offset)) by lia. reflexivity.
        * apply Nat.ltb_ge in Eo. rewrite IH. replace (skip - offset) with 0 by lia. cbn [skipn].
          destruct limit as [l|]; [|reflexivity]. cbn [under] in Eu. apply Nat.ltb_lt in Eu.
          replace (l - collected) with (S (l - S collected)) by lia. reflexivity.
      + destruct limit as [l|]; [|discriminate]. cbn [under] in Eu. apply Nat.ltb_ge in Eu.
        replace (l - collected) with 0 by lia. reflexivity.
  Qed.
End Loops.

(* ---------------------------------------------------------------- scans = specification *)
Lemma q_matching_filter sch st s flt :
  filter (fun i => q_visible sch st s i && q_match sch st s flt i) (ids_of st (root_of sch s)) = q_matching sch st s flt.
Proof. rewrite filter_andb. reflexivity. Qed.

Lemma page_trunc skip limit l : skipn skip (trunc (max_results skip limit) l) = page skip limit l.
Proof.
  destruct limit as [n|]; cbn [max_results trunc page]; [|reflexivity]. symmetry. apply firstn_skipn_comm.
Qed.

Theorem sorting_scan_spec sch st s flt f asc skip limit :
  sorting_scan sch st s flt f asc skip limit = query_page sch st s flt (Some (f, asc)) skip limit.
Proof.
  unfold sorting_scan, query_page.
  pose proof (sorting_loop_spec (q_visible sch st s) (q_match sch st s flt) (row_leb sch st s f asc)
                (max_results skip limit) (ids_of st (root_of sch s)) []) as H.
  cbn [length] in H. replace (trunc (max_results skip limit) []) with (@nil id) in H
    by (destruct (max_results skip limit); cbn [trunc]; [rewrite firstn_nil|]; reflexivity).
  rewrite H, q_matching_filter. cbn [Nat.add]. rewrite page_trunc. reflexivity.
Qed.

Theorem unsorted_scan_spec sch st s flt skip limit :
  unsorted_scan sch st s flt skip limit = query_page sch st s flt None skip limit.
Proof.
  unfold unsorted_scan, query_page. rewrite unsorted_loop_spec, q_matching_filter. cbn [rev app Nat.add].
  destruct limit; rewrite !Nat.sub_0_r; reflexivity.
Qed.

Theorem cursor_scan_spec sch st s flt skip limit :
  cursor_scan sch st s flt skip limit = fst (query_page sch st s flt None skip limit).
Proof.
  unfold cursor_scan, query_page. rewrite cursor_loop_spec, q_matching_filter. cbn [fst].
  destruct limit; rewrite !Nat.sub_0_r; reflexivity.
Qed.

(* ---------------------------------------------------------------- the sort is a sort *)
Lemma ins_perm leb x l : Permutation (x :: l) (ins leb x l).
Proof.
  induction l as [|y r IH]; cbn; [apply Permutation_refl|]. destruct (leb x y); [apply Permutation_refl|].
  eapply Permutation_trans; [apply perm_swap|]. apply perm_skip. exact IH.
Qed.

Lemma fold_ins_perm leb : forall l acc, Permutation (l ++ acc) (fold_left (fun t y => ins leb y t) l acc).
Proof.
  induction l as [|x l IH]; intros acc; cbn; [apply Permutation_refl|].
  eapply Permutation_trans; [|apply IH]. eapply Permutation_trans; [apply Permutation_middle|].
  apply Permutation_app_head. apply ins_perm.
Qed.

Lemma sort_ids_perm leb l : Permutation l (sort_ids leb l).
Proof. unfold sort_ids. rewrite <- (app_nil_r l) at 1. apply fold_ins_perm. Qed.

Lemma sort_ids_length leb l : length (sort_ids leb l) = length l.
Proof. symmetry. apply Permutation_length. apply sort_ids_perm. Qed.

Lemma sort_ids_in leb l i : In i (sort_ids leb l) <-> In i l.
Proof. split; intros H; [eapply Permutation_in; [apply Permutation_sym, sort_ids_perm|exact H]|eapply Permutation_in; [apply sort_ids_perm|exact H]]. Qed.

(* the comparator is a total order: (field value, nil first; direction) then id *)
Lemma key_cmp_refl a : key_cmp a a = Eq.
Proof. destruct a; cbn; [apply str_cmp_refl|reflexivity]. Qed.

Lemma key_cmp_antisym a b : key_cmp b a = CompOpp (key_cmp a b).
Proof. destruct a, b; cbn; try reflexivity. apply str_cmp_antisym. Qed.

Lemma str_cmp_eq_trans a b c : str_cmp a b = Eq -> str_cmp b c = str_cmp a c.
Proof. intros H. apply str_cmp_eq in H. subst. reflexivity. Qed.

Lemma key_cmp_eq a b : key_cmp a b = Eq -> a = b.
Proof. destruct a, b; cbn; intros H; try discriminate; [apply str_cmp_eq in H; subst|]; reflexivity. Qed.

Lemma key_cmp_lt_trans a b c : key_cmp a b = Lt -> key_cmp b c = Lt -> key_cmp a c = Lt.
Proof.
  destruct a, b, c; cbn; intros H1 H2; try discriminate; try reflexivity. eapply str_cmp_lt_trans; eassumption.
Qed.

Lemma key_cmp_gt_trans a b c : key_cmp a b = Gt -> key_cmp b c = Gt -> key_cmp a c = Gt.
Proof.
  intros H1 H2. rewrite key_cmp_antisym. rewrite (key_cmp_lt_trans c b a); [reflexivity| |].
  - rewrite key_cmp_antisym, H2. reflexivity.
  - rewrite key_cmp_antisym, H1. reflexivity.
Qed.

Lemma dir_cmp_lt_trans asc a b c :
  dir_cmp asc (key_cmp a b) = Lt -> dir_cmp asc (key_cmp b c) = Lt -> dir_cmp asc (key_cmp a c) = Lt.
Proof.
  destruct asc; cbn [dir_cmp]; [apply key_cmp_lt_trans|].
  intros H1 H2. assert (key_cmp a b = Gt) as G1 by (destruct (key_cmp a b); cbn in H1; congruence).
  assert (key_cmp b c = Gt) as G2 by (destruct (key_cmp b c); cbn in H2; congruence).
  rewrite (key_cmp_gt_trans a b c G1 G2). reflexivity.
Qed.

Section Order.
  Variables (sch : schema) (st : state) (s f : name) (asc : bool).
  Let cmp := row_cmp sch st s f asc.
  Let leb := row_leb sch st s f asc.

  Lemma row_cmp_antisym i j : cmp j i = CompOpp (cmp i j).
  Proof.
    unfold cmp, row_cmp. rewrite (key_cmp_antisym (q_key sch st s f i) (q_key sch st s f j)).
    destruct asc; cbn [dir_cmp]; destruct (key_cmp (q_key sch st s f i) (q_key sch st s f j)); cbn;
      try reflexivity; apply str_cmp_antisym.
  Qed.

  Lemma row_cmp_eq i j : cmp i j = Eq -> i = j.
  Proof.
    unfold cmp, row_cmp. destruct (dir_cmp asc (key_cmp (q_key sch st s f i) (q_key sch st s f j))); try discriminate.
    apply str_cmp_eq.
  Qed.

  Lemma row_cmp_lt_trans i j k : cmp i j = Lt -> cmp j k = Lt -> cmp i k = Lt.
  Proof.
    unfold cmp, row_cmp. set (ki := q_key sch st s f i). set (kj := q_key sch st s f j). set (kk := q_key sch st s f k).
    destruct (dir_cmp asc (key_cmp ki kj)) eqn:E1; try discriminate;
      destruct (dir_cmp asc (key_cmp kj kk)) eqn:E2; try discriminate; intros H1 H2.
    - assert (ki = kj) as -> by (apply key_cmp_eq; destruct asc; cbn in E1; [exact E1|destruct (key_cmp ki kj); cbn in E1; congruence]).
      rewrite E2. eapply str_cmp_lt_trans; eassumption.
    - assert (ki = kj) as -> by (apply key_cmp_eq; destruct asc; cbn in E1; [exact E1|destruct (key_cmp ki kj); cbn in E1; congruence]).
      rewrite E2. reflexivity.
    - assert (kj = kk) as <- by (apply key_cmp_eq; destruct asc; cbn in E2; [exact E2|destruct (key_cmp kj kk); cbn in E2; congruence]).
      rewrite E1. reflexivity.
    - rewrite (dir_cmp_lt_trans asc ki kj kk E1 E2). reflexivity.
  Qed.

  Lemma row_leb_total i j : leb i j = false -> leb j i = true.
  Proof.
    unfold leb, row_leb. fold cmp. rewrite (row_cmp_antisym i j). destruct (cmp i j); cbn; congruence.
  Qed.

  Lemma row_leb_trans i j k : leb i j = true -> leb j k = true -> leb i k = true.
  Proof.
    unfold leb, row_leb. fold cmp. intros H1 H2.
    destruct (cmp i j) eqn:E1; try discriminate.
    - apply row_cmp_eq in E1. subst j. exact H2.
    - destruct (cmp j k) eqn:E2; try discriminate.
      + apply row_cmp_eq in E2. subst k. rewrite E1. reflexivity.
      + rewrite (row_cmp_lt_trans i j k E1 E2). reflexivity.
  Qed.

  Lemma row_leb_antisym i j : leb i j = true -> leb j i = true -> i = j.
  Proof.
    unfold leb, row_leb. fold cmp. rewrite (row_cmp_antisym i j). destruct (cmp i j) eqn:E; cbn; try discriminate.
    intros _ _. apply row_cmp_eq. exact E.
  Qed.

  Let le := fun i j => leb i j = true.

  Lemma ins_hdrel x a l : le a x -> HdRel le a l -> HdRel le a (ins leb x l).
  Proof.
    intros Hax H. destruct l as [|y r]; cbn; [constructor; exact Hax|].
    destruct (leb x y); constructor; [exact Hax|]. inversion H; assumption.
  Qed.

  Lemma ins_sorted x l : Sorted le l -> Sorted le (ins leb x l).
  Proof.
    induction 1 as [|y r Hs IH Hd]; cbn; [repeat constructor|].
    destruct (leb x y) eqn:E.
    - constructor; [constructor; assumption|]. constructor. exact E.
    - constructor; [exact IH|]. apply ins_hdrel; [apply row_leb_total; exact E|exact Hd].
  Qed.

  Lemma fold_ins_sorted : forall l acc, Sorted le acc -> Sorted le (fold_left (fun t y => ins leb y t) l acc).
  Proof.
    induction l as [|x l IH]; intros acc H; cbn; [exact H|]. apply IH. apply ins_sorted. exact H.
  Qed.

  Lemma sort_ids_sorted l : Sorted le (sort_ids leb l).
  Proof. apply fold_ins_sorted. constructor. Qed.

  Lemma sort_ids_strongly_sorted l : StronglySorted le (sort_ids leb l).
  Proof.
    apply Sorted_StronglySorted; [|apply sort_ids_sorted].
    intros i j k. apply row_leb_trans.
  Qed.
End Order.

(* ---------------------------------------------------------------- what a page contains *)
Lemma in_firstn_in {A} n (l : list A) i : In i (firstn n l) -> In i l.
Proof. intros H. rewrite <- (firstn_skipn n l). apply in_or_app. left. exact H. Qed.

Lemma in_skipn_in {A} n (l : list A) i : In i (skipn n l) -> In i l.
Proof. intros H. rewrite <- (firstn_skipn n l). apply in_or_app. right. exact H. Qed.

Lemma page_incl skip limit l i : In i (page skip limit l) -> In i l.
Proof.
  destruct limit as [n|]; cbn [page]; intros H.
  - apply in_firstn_in in H. eapply in_skipn_in; exact H.
  - eapply in_skipn_in; exact H.
Qed.

Lemma page_length skip limit l :
  length (page skip limit l) = match limit with None => length l - skip | Some n => Nat.min n (length l - skip) end.
Proof.
  destruct limit as [n|]; cbn [page]; [rewrite firstn_length|]; rewrite skipn_length; reflexivity.
Qed.

Lemma query_page_in sch st s flt srt skip limit i :
  In i (fst (query_page sch st s flt srt skip limit)) -> In i (query_ids sch st s) /\ q_match sch st s flt i = true.
Proof.
  unfold query_page. cbn [fst]. intros H. apply page_incl in H.
  assert (In i (q_matching sch st s flt)) as Hm.
  { destruct srt as [[f asc]|]; [apply sort_ids_in in H|]; exact H. }
  unfold q_matching in Hm. apply filter_In in Hm. exact Hm.
Qed.

Lemma query_page_length sch st s flt srt skip limit :
  length (fst (query_page sch st s flt srt skip limit))
  = match limit with
    | None => snd (query_page sch st s flt srt skip limit) - skip
    | Some n => Nat.min n (snd (query_page sch st s flt srt skip limit) - skip)
    end.
Proof.
  unfold query_page. cbn [fst snd]. rewrite page_length.
  destruct srt as [[f asc]|]; [rewrite sort_ids_length|]; reflexivity.
Qed.

(* filter and sort key read through an extended child store = read through the parent, when the child store does
   not declare the fields itself *)
Lemma q_matching_ext sch st r c flt :
  query_ids sch st c = query_ids sch st r ->
  (forall i, q_match sch st c flt i = q_match sch st r flt i) ->
  q_matching sch st c flt = q_matching sch st r flt.
Proof.
  intros Hq Hm. unfold q_matching. rewrite Hq. apply filter_ext. exact Hm.
Qed.

Lemma ins_ext leb1 leb2 x : forall l, (forall a b, leb1 a b = leb2 a b) -> ins leb1 x l = ins leb2 x l.
Proof.
  induction l as [|y r IH]; intros H; cbn; [reflexivity|]. rewrite H. destruct (leb2 x y); [reflexivity|]. rewrite IH by exact H. reflexivity.
Qed.

Lemma sort_ids_ext leb1 leb2 l : (forall a b, leb1 a b = leb2 a b) -> sort_ids leb1 l = sort_ids leb2 l.
Proof.
  intros H. unfold sort_ids. generalize (@nil id). induction l as [|x l IH]; intros acc; cbn; [reflexivity|].
  rewrite (ins_ext leb1 leb2 x acc H). apply IH.
Qed.
