(* Derived operations of histories (model only, proofs in Store/XOpsProofs.v).

   Store/Model.v is not changed: every operation defined here EXPANDS, at the state in which it is reached,
   to a list of plain operations of the store machine and is executed by [run_ops] on that list.  Every theorem
   about [run_ops] / [run_tx] therefore still covers histories that contain them (XOpsProofs.run_xtx_is_run_tx).

   * [XDeleteWhere s flt]  -  BaseStore.DeleteWhere (store_crud.go): QueryIds of the filter, then DeleteById for
     every id IN THE ORDER THE QUERY RETURNED THEM (no sort clause: id order), returning the first error.  The id
     list is collected up front; an id that an earlier (cascading) delete already removed makes its DeleteById fail
     with RecordNotFoundError and that error is returned like any other.
   * [XPersist badtags req o]  -  a create / update whose entity is written by an entity strategy that validates
     required strings (PersistContext.SetRequiredString) and whose string-list elements / tags reach bbolt:
     PersistEntity latches an error in the bucket's error holder when
       - a required field that is written is empty,
       - an element of a string list that is written is longer than 32767 bytes (it is stored under a one-byte
         type tag: bbolt refuses keys longer than 32768 bytes),
       - the tags carry a value the storage layer refuses and the tags are written.
     Create returns that error right after PersistEntity; Update returns it (bucket.Err) unless the update already
     failed earlier (blank id, not found).  All of these are plain errors (EOther), so the guarded operation
     behaves as the caller-visible failing step [OFail] when the rejection is reached. *)
From Coq Require Import List NArith Bool.
From Storage Require Import Base.Bytes Store.Model.
Import ListNotations.
Open Scope N_scope.

(* ---------------------------------------------------------------- DeleteWhere *)
Inductive dwfilter :=
| DwTrue                               (* true *)
| DwFieldEq (f : name) (v : str).      (* <field symbol> = "<v>" *)

Definition dw_matches (sch : schema) (st : state) (s : name) (flt : dwfilter) (i : id) : bool :=
  match flt with
  | DwTrue => true
  | DwFieldEq f v => match get_field sch st s i f with FStr w => str_eqb w v | _ => false end
  end.

(* the ids QueryIds returns for the filter, in id order *)
Definition dw_ids (sch : schema) (st : state) (s : name) (flt : dwfilter) : list id :=
  filter (dw_matches sch st s flt) (query_ids sch st s).

Definition dw_expand (sch : schema) (st : state) (s : name) (flt : dwfilter) : list op :=
  map (ODelete s) (dw_ids sch st s flt).

(* ---------------------------------------------------------------- rejections raised by PersistEntity *)
Definition tagsF : name := [116;97;103;115].  (* "tags" *)

(* a string-list element is stored under key  <type tag> ++ element *)
Definition elem_ok (k : str) : bool := N.of_nat (length k) <? 32768.

Definition sv_lookup (sv : setvals) (f : name) : list str :=
  match find (fun p => str_eqb (fst p) f) sv with Some p => snd p | None => [] end.

Definition sets_rejected (decl : list name) (sv : setvals) (ch : checker) : bool :=
  existsb (fun f => checked ch f && negb (forallb elem_ok (sv_lookup sv f))) decl.

Definition is_required (req : list (name * name)) (s f : name) : bool :=
  existsb (fun p => str_eqb (fst p) s && str_eqb (snd p) f) req.

Definition req_rejected (req : list (name * name)) (s : name) (decl : list (name * bool)) (fv : fieldvals) (ch : checker) : bool :=
  existsb (fun p : name * bool =>
    is_required req s (fst p) && checked ch (fst p) &&
    match lookup_fv fv (fst p) with Some (Some v) => negb (nonempty v) | _ => true end) decl.

(* PersistEntity of store [t] (root, or child: parent level first) latches an error *)
Definition persist_rejected (badtags : bool) (req : list (name * name)) (sch : schema) (t : name)
           (fv : fieldvals) (sv : setvals) (ch : checker) : bool :=
  match find_store sch t with
  | None => false
  | Some d =>
      (badtags && checked ch tagsF) ||
      match sd_parent d with
      | None => req_rejected req t (sd_fields d) fv ch || sets_rejected (sd_sets d) sv ch
      | Some p =>
          match find_store sch p with
          | None => false
          | Some pd =>
              req_rejected req p (sd_fields pd) fv ch || sets_rejected (sd_sets pd) sv ch ||
              req_rejected req t (sd_fields d) fv ch
          end
      end
  end.

(* the store whose Update finally runs (Model.op_update: a root store offers the entity to its child stores) *)
Definition update_target (sch : schema) (st : state) (s : name) (i : id) : name :=
  if is_child sch s then s
  else match find (fun d => present sch st (sd_name d) i) (children_of sch s) with
       | Some d => sd_name d
       | None => s
       end.

(* Update gets as far as PersistEntity *)
Definition update_reaches_persist (sch : schema) (st : state) (s : name) (i : id) : bool :=
  match find_store sch s with
  | None => false
  | Some _ =>
      let t := update_target sch st s i in
      nonempty i && loadable sch st t i && present sch st t i
  end.

Definition guard_op (badtags : bool) (req : list (name * name)) (sch : schema) (st : state) (o : op) : op :=
  match o with
  | OCreate s i sys fv sv => if persist_rejected badtags req sch s fv sv None then OFail else o
  | OUpdate s i fv sv ch =>
      if update_reaches_persist sch st s i && persist_rejected badtags req sch (update_target sch st s i) fv sv ch
      then OFail else o
  | _ => o
  end.

(* ---------------------------------------------------------------- extended operations *)
Inductive xop :=
| XBase (o : op)
| XPersist (badtags : bool) (req : list (name * name)) (o : op)
| XDeleteWhere (s : name) (flt : dwfilter).

(* the plain operations an extended operation performs when it is reached in state [st] *)
Definition xexpand (sch : schema) (st : state) (x : xop) : list op :=
  match x with
  | XBase o => [o]
  | XPersist bt req o => [guard_op bt req sch st o]
  | XDeleteWhere s flt => dw_expand sch st s flt
  end.

Definition run_xop (sch : schema) (fuel : nat) (oc : octx) (stev : st_ev) (x : xop) : res st_ev :=
  snd (run_ops sch fuel oc stev (xexpand sch (fst stev) x)).

(* one result per extended operation, up to and including the first failure *)
Fixpoint run_xops (sch : schema) (fuel : nat) (oc : octx) (stev : st_ev) (xs : list xop) : list (option ekind) * res st_ev :=
  match xs with
  | [] => ([], Ok stev)
  | x :: r =>
      match run_xop sch fuel oc stev x with
      | Ok stev1 => let (rs, fin) := run_xops sch fuel oc stev1 r in (None :: rs, fin)
      | Err k => ([Some k], Err k)
      end
  end.

(* the plain operations a body performs: each extended operation expanded at the state it is reached in;
   nothing is expanded after the first failure *)
Fixpoint xflatten (sch : schema) (fuel : nat) (oc : octx) (stev : st_ev) (xs : list xop) : list op :=
  match xs with
  | [] => []
  | x :: r =>
      let ops := xexpand sch (fst stev) x in
      match snd (run_ops sch fuel oc stev ops) with
      | Ok stev1 => ops ++ xflatten sch fuel oc stev1 r
      | Err _ => ops
      end
  end.

Record xtx := mkXtx { xtx_sys : bool; xtx_vetoes : list veto; xtx_ops : list xop; xtx_precommit_fails : bool }.

(* Db.Update over a body of extended operations *)
Definition run_xtx (sch : schema) (fuel : nat) (st : state) (t : xtx) : list (option ekind) * bool * state * list event :=
  let oc := mkOctx (xtx_sys t) (xtx_vetoes t) in
  let (rs, fin) := run_xops sch fuel oc (st, []) (xtx_ops t) in
  match fin with
  | Ok (st', evs) => if xtx_precommit_fails t then (rs, false, st, []) else (rs, true, st', evs)
  | Err _ => (rs, false, st, [])
  end.

(* the plain transaction it performs *)
Definition xtx_flat (sch : schema) (fuel : nat) (st : state) (t : xtx) : tx :=
  mkTx (xtx_sys t) (xtx_vetoes t)
       (xflatten sch fuel (mkOctx (xtx_sys t) (xtx_vetoes t)) (st, []) (xtx_ops t))
       (xtx_precommit_fails t).
