(* C15: DeleteWhere through the stores of a parent / child family.

   BaseStore.DeleteWhere (boltz/store_crud.go) is the derived operation [XDeleteWhere] of Store/XOps.v (added for
   C07; nothing is re-defined here): QueryIds of the filter THROUGH THE STORE IT WAS CALLED ON, then DeleteById for
   every id the query returned.  For a child store c of the root store r this file proves

   * which ids those are ([delete_where_ids_closed]): through a plain child store exactly the entities WITH child
     data that satisfy the filter, through an extended child store every parent entity that satisfies it, through
     the parent every parent entity that satisfies it;
   * that the deletes issued through the child store are the deletes through the parent store
     ([delete_where_through_child_closed]);
   * that after a successful DeleteWhere through either store neither part of any of those entities is left and no
     store's query returns them ([delete_where_removes_both_closed]);
   * that nothing else is touched ([delete_where_spares_closed]): an entity of r that the store's query did not
     show for the filter - in particular a plain parent entity that satisfies the filter of a DeleteWhere issued
     through a plain child store - keeps its presence, its child data and every field.  Side condition (boolean,
     [dw_zone_b]): a list of store names closed under "root of", "child stores of the root" and "referrer of a
     cascade-delete constraint", containing the store, in which no cascade leads back to a store of the family of r
     (otherwise other entities of r legitimately disappear through the cascade). *)
From Coq Require Import List NArith Bool Lia.
From Storage Require Import Base.Bytes Base.BytesFacts Store.Model Store.AListFacts Store.FrameProofs Store.DeleteFrame
     Store.WfSchema Store.ChildProofs Store.XOps Store.XOpsProofs.
Import ListNotations.

(* ================================================================ which ids *)
Lemma dw_ids_In sch st s flt i :
  In i (dw_ids sch st s flt) <-> In i (query_ids sch st s) /\ dw_matches sch st s flt i = true.
Proof. unfold dw_ids. apply filter_In. Qed.

Lemma in_ids_present_root sch r pd st i : find_store sch r = Some pd -> sd_parent pd = None ->
  (In i (ids_of st r) <-> present sch st r i = true).
Proof.
  intros H1 H3. rewrite (present_r sch r pd H1 H3). unfold ids_of, get_ent. rewrite <- al_get_keys.
  destruct (al_get i (ents st r)); split; intros; congruence.
Qed.

Lemma delete_where_ids_closed sch r c st flt :
  wf_child_b sch r c = true ->
  (is_ext sch c = false ->
     forall i, In i (dw_ids sch st c flt) <-> present sch st c i = true /\ dw_matches sch st c flt i = true) /\
  (is_ext sch c = true ->
     forall i, In i (dw_ids sch st c flt) <-> present sch st r i = true /\ dw_matches sch st c flt i = true) /\
  (forall i, In i (dw_ids sch st r flt) <-> present sch st r i = true /\ dw_matches sch st r flt i = true).
Proof.
  intros Hwf. destruct (child_query_only_children_closed sch r c st Hwf) as [Q1 [Q2 [Q3 _]]].
  destruct (wf_child_b_sound _ _ _ Hwf) as [pd [cd [H1 [H2 [H3 [H4 H5]]]]]].
  split; [|split].
  - intros E i. rewrite dw_ids_In, (Q1 E i). tauto.
  - intros E i. rewrite dw_ids_In, (Q2 E), Q3, (in_ids_present_root sch r pd st i H1 H3). tauto.
  - intros i. rewrite dw_ids_In, Q3, (in_ids_present_root sch r pd st i H1 H3). tauto.
Qed.

(* ================================================================ the deletes are those of the parent store *)
Lemma run_deletes_either_store sch r c fuel oc : wf_child_b sch r c = true -> forall l stev,
  run_ops sch fuel oc stev (map (ODelete c) l) = run_ops sch fuel oc stev (map (ODelete r) l).
Proof.
  intros Hwf. induction l as [|i l IH]; intros stev; cbn [map run_ops run_op]; [reflexivity|].
  rewrite (delete_either_store_closed sch r c oc fuel stev i Hwf).
  destruct (delete_by_id sch oc fuel stev r i) as [s1|k]; [rewrite IH|]; reflexivity.
Qed.

Lemma delete_where_through_child_closed sch r c fuel oc stev flt :
  wf_child_b sch r c = true ->
  run_xop sch fuel oc stev (XDeleteWhere c flt) =
  snd (run_ops sch fuel oc stev (map (ODelete r) (dw_ids sch (fst stev) c flt))).
Proof.
  intros Hwf. unfold run_xop. cbn [xexpand]. unfold dw_expand.
  rewrite (run_deletes_either_store sch r c fuel oc Hwf). reflexivity.
Qed.

(* ================================================================ both parts of every collected id are removed *)
Lemma run_deletes_shrink sch fuel oc s : forall l stev stev',
  snd (run_ops sch fuel oc stev (map (ODelete s) l)) = Ok stev' -> ents_shrink (fst stev) (fst stev').
Proof.
  induction l as [|a l IH]; intros stev stev' H; cbn [map run_ops run_op] in H.
  - cbn [snd] in H. inversion H; subst. apply ents_shrink_refl.
  - destruct (delete_by_id sch oc fuel stev s a) as [s1|k] eqn:E; [|cbn [snd] in H; discriminate].
    destruct (run_ops sch fuel oc s1 (map (ODelete s) l)) as [rs fin] eqn:Er. cbn [snd] in H. subst fin.
    eapply ents_shrink_trans; [exact (delete_shrink sch oc fuel stev s a s1 E)|].
    apply IH. rewrite Er. reflexivity.
Qed.

Lemma run_deletes_remove_both sch r c fuel oc s0 : wf_child_b sch r c = true -> s0 = r \/ s0 = c ->
  forall l stev stev', snd (run_ops sch fuel oc stev (map (ODelete s0) l)) = Ok stev' ->
  forall i, In i l -> present sch (fst stev') r i = false /\ present sch (fst stev') c i = false.
Proof.
  intros Hwf Hs0. induction l as [|a l IH]; intros stev stev' H i Hin; [contradiction|].
  cbn [map run_ops run_op] in H.
  destruct (delete_by_id sch oc fuel stev s0 a) as [s1|k] eqn:E; [|cbn [snd] in H; discriminate].
  destruct (run_ops sch fuel oc s1 (map (ODelete s0) l)) as [rs fin] eqn:Er. cbn [snd] in H. subst fin.
  assert (Hrest : snd (run_ops sch fuel oc s1 (map (ODelete s0) l)) = Ok stev') by (rewrite Er; reflexivity).
  destruct Hin as [-> | Hin]; [|exact (IH s1 stev' Hrest i Hin)].
  destruct stev as [st evs], s1 as [st1 evs1].
  destruct (delete_removes_both_closed sch r c oc fuel st evs s0 i st1 evs1 Hwf Hs0 E) as [A [B _]].
  pose proof (run_deletes_shrink sch fuel oc s0 l _ _ Hrest) as Hsh. cbn [fst] in Hsh.
  split.
  - destruct (present sch (fst stev') r i) eqn:P; [|reflexivity].
    apply (present_shrink sch st1 (fst stev') r i Hsh) in P. congruence.
  - destruct (present sch (fst stev') c i) eqn:P; [|reflexivity].
    apply (present_shrink sch st1 (fst stev') c i Hsh) in P. congruence.
Qed.

Lemma delete_where_removes_both_closed sch r c fuel oc st evs s0 flt st' evs' :
  wf_child_b sch r c = true -> s0 = r \/ s0 = c ->
  run_xop sch fuel oc (st, evs) (XDeleteWhere s0 flt) = Ok (st', evs') ->
  forall i, In i (dw_ids sch st s0 flt) ->
    present sch st' r i = false /\ present sch st' c i = false /\
    ~ In i (query_ids sch st' r) /\ ~ In i (query_ids sch st' c).
Proof.
  intros Hwf Hs0 H i Hin. unfold run_xop in H. cbn [xexpand fst] in H. unfold dw_expand in H.
  destruct (run_deletes_remove_both sch r c fuel oc s0 Hwf Hs0 _ _ _ H i Hin) as [A B]. cbn [fst] in A, B.
  split; [exact A|]. split; [exact B|].
  destruct (wf_child_b_sound _ _ _ Hwf) as [pd [cd [H1 [H2 [H3 [H4 H5]]]]]].
  assert (~ In i (ids_of st' r)) as Hni
    by (intros Hi; apply (in_ids_present_root sch r pd st' i H1 H3) in Hi; congruence).
  split; intros Hq; apply Hni.
  - rewrite (query_ids_parent sch r pd H1 H3) in Hq. exact Hq.
  - unfold query_ids in Hq. apply filter_In in Hq as [Hq _]. rewrite (root_c sch r c cd H2 H4) in Hq. exact Hq.
Qed.

(* ================================================================ nothing else is touched *)
(* the frame of the delete path (Store/DeleteFrame.v) for a relation that the recursive DeleteById satisfies only on the
   stores a cascade can reach: [keeps] = entity j of root store r has the same presence, fields and child data *)
Section Spare.
  Variable sch : schema.
  Variable oc : octx.
  Variable r : name.
  Variable j : id.
  Variable zone : list name.

  Definition keeps (st st' : state) : Prop := ent_fc_eq (get_ent st' r j) (get_ent st r j).

  Lemma keeps_refl a : keeps a a.
  Proof. exact (ents_fc_eq_refl a r j). Qed.

  Lemma keeps_trans a b c : keeps a b -> keeps b c -> keeps a c.
  Proof.
    unfold keeps, ent_fc_eq. intros H1 H2.
    destruct (get_ent a r j), (get_ent b r j), (get_ent c r j); try contradiction; auto.
    destruct H1, H2. split; congruence.
  Qed.

  Lemma keeps_fc a b : ents_fc_eq a b -> keeps a b.
  Proof. intros H. exact (H r j). Qed.

  (* stores the recursive DeleteById may be called on *)
  Definition reach_ok (s : name) : Prop := In s zone /\ root_of sch s <> r.

  Definition DelG (del : st_ev -> name -> id -> res st_ev) : Prop :=
    forall stev s0 x stev', reach_ok s0 -> del stev s0 x = Ok stev' -> keeps (fst stev) (fst stev').

  Definition cons_ok (k : cons) : Prop :=
    match k with CFkCascade rs _ CascDelete => reach_ok rs | _ => True end.

  Lemma cascade_loop_G del rs f0 i0 : DelG del -> reach_ok rs -> forall cands cur cur',
    cascade_loop sch del rs f0 i0 cands cur = Ok cur' -> keeps (fst cur) (fst cur').
  Proof.
    intros Hdel Hrs. induction cands as [|c0 cands IH]; intros cur cur' H; cbn [cascade_loop] in H.
    - inversion H; subst. apply keeps_refl.
    - destruct (casc_matches sch rs f0 i0 (fst cur) c0).
      + destruct (del cur rs c0) as [cur1|e] eqn:Ed; cbn [bind] in H; [|discriminate].
        eapply keeps_trans; [eapply Hdel; [exact Hrs | exact Ed] | apply IH; exact H].
      + apply IH; exact H.
  Qed.

  Lemma bd_one_G del st evs c k st' evs' : DelG del -> cons_ok k ->
    before_delete_one sch oc del (st, evs) c k = Ok (st', evs') -> keeps st st'.
  Proof.
    intros Hdel Hk H.
    set (del0 := fun (_ : st_ev) (_ : name) (_ : id) => (Err EOther : res st_ev)).
    assert (Hd0 : DelR keeps del0) by (intros a b x y Hx; discriminate).
    assert (Hnd : forall k0, before_delete_one sch oc del0 (st, evs) c k0 = Ok (st', evs') -> keeps st st')
      by (intros k0; exact (bd_one_R sch oc keeps keeps_refl keeps_trans keeps_fc del0 st evs c k0 st' evs' Hd0)).
    destruct k as [f0 nl|f0|f0 t b nl|b|f0 t nl|rs f0 cs|];
      try (match type of H with before_delete_one _ _ _ _ _ ?k0 = _ => exact (Hnd k0 H) end).
    destruct cs.
    - exact (Hnd (CFkCascade rs f0 CascNone) H).
    - cbn [before_delete_one] in H. cbn [cons_ok] in Hk.
      exact (cascade_loop_G del rs f0 (ic_id c) Hdel Hk _ (st, evs) (st', evs') H).
  Qed.

  Lemma bd_all_G del c : DelG del -> forall ks st evs st' evs', Forall cons_ok ks ->
    before_delete_all sch oc del (st, evs) c ks = Ok (st', evs') -> keeps st st'.
  Proof.
    intros Hdel. induction ks as [|k ks IH]; intros st evs st' evs' Hks H; cbn [before_delete_all] in H.
    - inversion H; subst. apply keeps_refl.
    - inversion Hks as [|k0 ks0 Hk Hks']; subst.
      destruct (before_delete_one sch oc del (st, evs) c k) as [[st1 evs1]|e] eqn:E1; cbn [bind] in H; [|discriminate].
      eapply keeps_trans; [eapply bd_one_G; eauto | eapply IH; eauto].
  Qed.

  Definition chain_ok (ch : list (name * list cons)) : Prop := Forall (fun p => Forall cons_ok (snd p)) ch.

  Lemma bd_chain_G del x : DelG del -> forall ch st evs st' evs', chain_ok ch ->
    before_delete_chain sch oc del x ch (st, evs) = Ok (st', evs') -> keeps st st'.
  Proof.
    intros Hdel. induction ch as [|[s' ks] ch IH]; intros st evs st' evs' Hch H; cbn [before_delete_chain] in H.
    - inversion H; subst. apply keeps_refl.
    - inversion Hch as [|p0 ch0 Hp Hch']; subst. cbn [snd] in Hp.
      destruct (before_delete_all sch oc del (st, evs) _ ks) as [[st1 evs1]|e] eqn:E1; cbn [bind] in H; [|discriminate].
      eapply keeps_trans; [eapply bd_all_G; eauto | eapply IH; eauto].
  Qed.

  Lemma process_delete_G del st evs s0 x st' evs' : DelG del -> chain_ok (chain sch s0) ->
    process_delete sch oc del (st, evs) s0 x = Ok (st', evs') -> keeps st st'.
  Proof.
    intros Hdel Hch H. unfold process_delete in H.
    destruct (before_delete_chain sch oc del x (chain sch s0) (st, evs)) as [[st1 evs1]|e] eqn:E1; cbn [bind] in H; [|discriminate].
    inversion H; subst. cbn [fst].
    eapply keeps_trans; [eapply bd_chain_G; eauto | apply keeps_fc, cleanup_links_fc].
  Qed.

  Lemma children_delete_G del x : DelG del -> forall cs cur flows cur' flows',
    (forall d, In d cs -> chain_ok (chain sch (sd_name d))) ->
    children_delete sch oc del x cs cur flows = Ok (cur', flows') -> keeps (fst cur) (fst cur').
  Proof.
    intros Hdel. induction cs as [|d cs IH]; intros cur flows cur' flows' Hcs H; cbn [children_delete] in H.
    - inversion H; subst. apply keeps_refl.
    - assert (Hrest : forall d0, In d0 cs -> chain_ok (chain sch (sd_name d0))) by (intros d0 Hd0; apply Hcs; right; exact Hd0).
      destruct (loadable sch (fst cur) (sd_name d) x); [|eapply IH; eauto].
      destruct cur as [st evs].
      destruct (process_delete sch oc del (st, evs) (sd_name d) x) as [[st1 evs1]|e] eqn:E1; cbn [bind] in H; [|discriminate].
      eapply keeps_trans; [eapply process_delete_G; [exact Hdel | apply Hcs; left; reflexivity | exact E1] | apply (IH _ _ _ _ Hrest H)].
  Qed.

  (* the zone is closed under root-of and child stores, and its cascade-delete constraints stay in it outside the family of r *)
  Hypothesis Hzone : forall s, In s zone ->
    In (root_of sch s) zone /\
    (forall d, In d (children_of sch (root_of sch s)) -> In (sd_name d) zone) /\
    Forall cons_ok (cons_of sch s).

  Lemma zone_chain_ok s : In s zone -> chain_ok (chain sch s).
  Proof.
    intros Hs. destruct (Hzone s Hs) as [Hroot [_ Hcons]]. destruct (Hzone _ Hroot) as [_ [_ Hrcons]].
    unfold chain, chain_ok. destruct (is_child sch s); repeat constructor; assumption.
  Qed.

  Lemma delete_spares : forall n stev s0 x stev', In s0 zone -> (root_of sch s0 = r -> x <> j) ->
    delete_by_id sch oc n stev s0 x = Ok stev' -> keeps (fst stev) (fst stev').
  Proof.
    induction n as [|n IH]; intros stev s0 x stev' Hs0 Hx H; cbn [delete_by_id] in H; [discriminate|].
    destruct (negb (present sch (fst stev) (root_of sch s0) x)); [discriminate|].
    assert (HdelG : DelG (delete_by_id sch oc n)).
    { intros stev1 s1 x1 stev1' [Hz Hne] Hd. apply (IH stev1 s1 x1 stev1' Hz); [intros E; contradiction | exact Hd]. }
    destruct (Hzone s0 Hs0) as [Hroot [Hch _]].
    destruct (children_delete sch oc (delete_by_id sch oc n) x (children_of sch (root_of sch s0)) stev [])
      as [[stev1 flows]|e] eqn:Ech; cbn [bind] in H; [|discriminate].
    assert (H1 : keeps (fst stev) (fst stev1)).
    { apply (children_delete_G _ x HdelG _ _ _ _ _ (fun d Hd => zone_chain_ok _ (Hch d Hd)) Ech). }
    destruct (negb (present sch (fst stev1) (root_of sch s0) x)).
    - inversion H; subst. exact H1.
    - destruct stev1 as [st1 evs1].
      destruct (process_delete sch oc (delete_by_id sch oc n) (st1, evs1) (root_of sch s0) x) as [[st2 evs2]|e] eqn:Epd;
        cbn [bind] in H; [|discriminate].
      pose proof (process_delete_G _ _ _ _ _ _ _ HdelG (zone_chain_ok _ Hroot) Epd) as H2.
      cbn [fst snd] in H.
      destruct (fire (oc_vetoes oc) evs2 (root_of sch s0) Deleted x _) as [evs3|e]; cbn [bind] in H; [|discriminate].
      destruct (fire_flows oc x flows evs3) as [evs4|e]; cbn [bind] in H; [|discriminate].
      inversion H; subst. cbn [fst] in *.
      eapply keeps_trans; [exact H1|]. eapply keeps_trans; [exact H2|].
      unfold keeps. rewrite get_ent_del_ent.
      destruct (str_eqb (root_of sch s0) r) eqn:Er; cbn [andb].
      + apply str_eqb_eq in Er. apply Hx in Er. apply str_eqb_neq in Er. rewrite Er.
        exact (ents_fc_eq_refl st2 r j).
      + exact (ents_fc_eq_refl st2 r j).
  Qed.

End Spare.

Lemma run_deletes_keep sch oc r j zone fuel s0 :
  (forall s, In s zone ->
     In (root_of sch s) zone /\
     (forall d, In d (children_of sch (root_of sch s)) -> In (sd_name d) zone) /\
     Forall (cons_ok sch r zone) (cons_of sch s)) ->
  In s0 zone -> forall l stev stev', ~ In j l ->
  snd (run_ops sch fuel oc stev (map (ODelete s0) l)) = Ok stev' -> keeps r j (fst stev) (fst stev').
Proof.
  intros Hzone Hs0. induction l as [|a l IH]; intros stev stev' Hnj H; cbn [map run_ops run_op] in H.
  - cbn [snd] in H. inversion H; subst. apply keeps_refl.
  - destruct (delete_by_id sch oc fuel stev s0 a) as [s1|k] eqn:E; [|cbn [snd] in H; discriminate].
    destruct (run_ops sch fuel oc s1 (map (ODelete s0) l)) as [rs fin] eqn:Er. cbn [snd] in H. subst fin.
    eapply keeps_trans.
    + apply (delete_spares sch oc r j zone Hzone fuel stev s0 a s1 Hs0); [|exact E].
      intros _ Ea. apply Hnj. left. exact Ea.
    + apply IH; [intros Hin; apply Hnj; right; exact Hin | rewrite Er; reflexivity].
Qed.

(* ---- the boolean side condition *)
Definition mem_name (s : name) (l : list name) : bool := existsb (str_eqb s) l.

Lemma mem_name_In s l : mem_name s l = true -> In s l.
Proof.
  unfold mem_name. intros H. apply existsb_exists in H as [x [Hx Hs]]. apply str_eqb_eq in Hs. subst. exact Hx.
Qed.

Definition dw_zone_b (sch : schema) (r : name) (zone : list name) : bool :=
  forallb (fun s =>
    mem_name (root_of sch s) zone &&
    forallb (fun d => mem_name (sd_name d) zone) (children_of sch (root_of sch s)) &&
    forallb (fun k => match k with
                      | CFkCascade rs _ CascDelete => mem_name rs zone && negb (str_eqb (root_of sch rs) r)
                      | _ => true
                      end) (cons_of sch s)) zone.

Lemma dw_zone_b_sound sch r zone : dw_zone_b sch r zone = true ->
  forall s, In s zone ->
    In (root_of sch s) zone /\
    (forall d, In d (children_of sch (root_of sch s)) -> In (sd_name d) zone) /\
    Forall (cons_ok sch r zone) (cons_of sch s).
Proof.
  unfold dw_zone_b. intros H s Hs. rewrite forallb_forall in H. specialize (H s Hs).
  apply andb_prop in H as [H H3]. apply andb_prop in H as [H1 H2].
  split; [apply mem_name_In; exact H1|]. split.
  - intros d Hd. rewrite forallb_forall in H2. apply mem_name_In. exact (H2 d Hd).
  - apply Forall_forall. intros k Hk. rewrite forallb_forall in H3. specialize (H3 k Hk).
    destruct k as [| | | | |rs f0 [|]|]; cbn [cons_ok]; try exact I.
    apply andb_prop in H3 as [Ha Hb]. split; [apply mem_name_In; exact Ha|].
    apply negb_true_iff in Hb. apply str_eqb_neq in Hb. exact Hb.
Qed.

Lemma delete_where_spares_closed sch r c zone fuel oc st evs s0 flt st' evs' :
  wf_child_b sch r c = true -> dw_zone_b sch r zone = true -> s0 = r \/ s0 = c -> mem_name s0 zone = true ->
  run_xop sch fuel oc (st, evs) (XDeleteWhere s0 flt) = Ok (st', evs') ->
  forall j, ~ In j (dw_ids sch st s0 flt) ->
    present sch st' r j = present sch st r j /\ present sch st' c j = present sch st c j /\
    (forall f, get_field sch st' r j f = get_field sch st r j f) /\
    (forall f, get_field sch st' c j f = get_field sch st c j f).
Proof.
  intros Hwf Hz Hs0 Hmem H j Hnj. unfold run_xop in H. cbn [xexpand fst] in H. unfold dw_expand in H.
  pose proof (run_deletes_keep sch oc r j zone fuel s0 (dw_zone_b_sound sch r zone Hz) (mem_name_In _ _ Hmem) _ _ _ Hnj H) as K.
  cbn [fst] in K. unfold keeps in K.
  destruct (wf_child_b_sound _ _ _ Hwf) as [pd [cd [H1 [H2 [H3 [H4 H5]]]]]].
  pose proof (root_r sch r pd H1 H3) as Rr. pose proof (root_c sch r c cd H2 H4) as Rc.
  split; [apply present_fc; rewrite Rr; exact K|].
  split; [apply present_fc; rewrite Rc; exact K|].
  split; intros f; apply get_field_fc; [rewrite Rr | rewrite Rc]; exact K.
Qed.

(* the headline: DeleteWhere through a PLAIN child store leaves every plain parent entity alone - whether or not it
   satisfies the filter *)
Lemma delete_where_plain_child_spares_plain_parents_closed sch r c zone fuel oc st evs flt st' evs' :
  wf_child_b sch r c = true -> is_ext sch c = false -> dw_zone_b sch r zone = true -> mem_name c zone = true ->
  run_xop sch fuel oc (st, evs) (XDeleteWhere c flt) = Ok (st', evs') ->
  forall j, present sch st r j = true -> present sch st c j = false ->
    present sch st' r j = true /\ (forall f, get_field sch st' r j f = get_field sch st r j f).
Proof.
  intros Hwf He Hz Hmem H j Hr Hc.
  assert (~ In j (dw_ids sch st c flt)) as Hnj.
  { intros Hin. destruct (delete_where_ids_closed sch r c st flt Hwf) as [A _]. apply (A He j) in Hin as [Hp _]. congruence. }
  destruct (delete_where_spares_closed sch r c zone fuel oc st evs c flt st' evs' Hwf Hz (or_intror eq_refl) Hmem H j Hnj)
    as [P [_ [F _]]].
  split; [rewrite P; exact Hr | exact F].
Qed.
