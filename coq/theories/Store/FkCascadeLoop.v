(* C04: the loop of a cascading delete over the referrers looks at the CURRENT state.

   fkDeleteCascadeConstraint.ProcessBeforeDelete walks the referrers with a cursor that is re-positioned after every
   delete; [cascade_loop] models it as: enumerate the candidates once, evaluate the match of each against the state of
   its turn.  When a referrer is reachable over two cascade paths (own o <- item p <- item s and o <- s), the nested
   cascade of p removes s before the loop reaches it.  The statements below say that this can never surface as an error
   of the loop: the delete function is only ever applied to an entity that is, at that moment, a present referrer - the
   result of the loop is the same for every two delete functions that agree on such arguments, in particular for one
   that answers NotFound (or anything else) for vanished candidates.  ([Examples.c04d_snapshot_loop_refuted]: a loop that
   fixes the referrers before the first delete does not have this property.) *)
From Coq Require Import List Bool.
From Storage Require Import Base.Bytes Store.Model.
Import ListNotations.

Lemma cascade_loop_ext_lemma : forall sch (del1 del2 : st_ev -> name -> id -> res st_ev) rs f i cands cur,
  (forall c x, casc_matches sch rs f i (fst c) x = true -> del1 c rs x = del2 c rs x) ->
  cascade_loop sch del1 rs f i cands cur = cascade_loop sch del2 rs f i cands cur.
Proof.
  intros sch del1 del2 rs f i cands. induction cands as [|x rest IH]; intros cur H; cbn [cascade_loop]; [reflexivity|].
  destruct (casc_matches sch rs f i (fst cur) x) eqn:E.
  - rewrite (H cur x E). destruct (del2 cur rs x) as [cur'|e]; cbn; [apply IH; exact H | reflexivity].
  - apply IH; exact H.
Qed.

Lemma casc_matches_present : forall sch rs f i st x, casc_matches sch rs f i st x = true -> present sch st rs x = true.
Proof. intros sch rs f i st x H. unfold casc_matches in H. apply andb_prop in H as [Hp _]. exact Hp. Qed.

(* the delete is never asked for an absent entity: guarding it with "present, else <any result>" changes nothing *)
Lemma cascade_loop_present_only_lemma : forall sch (del : st_ev -> name -> id -> res st_ev) (other : st_ev -> name -> id -> res st_ev) rs f i cands cur,
  cascade_loop sch del rs f i cands cur =
  cascade_loop sch (fun c s x => if present sch (fst c) s x then del c s x else other c s x) rs f i cands cur.
Proof.
  intros. apply cascade_loop_ext_lemma. intros c x H. rewrite (casc_matches_present _ _ _ _ _ _ H). reflexivity.
Qed.
