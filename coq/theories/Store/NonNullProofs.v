(* Non-nullable constraints never let an empty value in: for a constraint [k] of store [s] that is a
   non-nullable unique index, fk index or fk constraint on field [f], every present entity of [s] holds a
   non-empty value in [f] in every reachable state.  (The hook of [k] validates the value on every create and
   on every update that changes it; nothing else writes fields.)  [s] may be a root store or a child store
   that declares [f] itself. *)
From Coq Require Import List NArith Bool Lia.
From Storage Require Import Base.Bytes Base.BytesFacts Store.Model Store.AListFacts Store.FrameProofs Store.DeleteFrame.
Import ListNotations.

Lemma persist_child_other sch s0 cr sys fv sv ch e c :
  c <> s0 -> al_get c (e_c (persist sch s0 cr sys fv sv ch e)) = al_get c (e_c e).
Proof.
  intros Hne. unfold persist. destruct (find_store sch s0) as [d|]; [|reflexivity].
  destruct (sd_parent d) as [p|]; [|reflexivity].
  destruct (find_store sch p) as [pd|]; [|reflexivity]. cbn [e_c].
  apply al_get_put_other. congruence.
Qed.

Lemma not_child_root sch x : is_child sch x = false -> root_of sch x = x.
Proof.
  unfold is_child, root_of. destruct (find_store sch x) as [d|]; [|reflexivity].
  destruct (sd_parent d); [discriminate | reflexivity].
Qed.

Lemma ent_fc_eq_of_eq (a b : option entity) : a = b -> ent_fc_eq a b.
Proof. intros ->. unfold ent_fc_eq. destruct b; auto. Qed.

(* [s] is one of the stores whose constraint lists run when an entity is written through [s0] *)
Lemma in_chain_cases sch s s0 :
  root_of sch s = root_of sch s0 ->
  (In (s, cons_of sch s) (chain sch s0) /\ (s = s0 \/ is_child sch s = false)) \/ (is_child sch s = true /\ s <> s0).
Proof.
  intros Hr. unfold chain. destruct (is_child sch s) eqn:Ecs.
  - destruct (str_eq_dec s s0) as [->|Hne]; [|right; split; [reflexivity | exact Hne]].
    left. rewrite Ecs. split; [right; left; reflexivity | left; reflexivity].
  - left. split; [|right; reflexivity]. rewrite (not_child_root _ _ Ecs) in Hr. destruct (is_child sch s0) eqn:Ec0.
    + left. rewrite <- Hr. reflexivity.
    + rewrite (not_child_root _ _ Ec0) in Hr. subst s0. left. reflexivity.
Qed.

Definition nn_on (f : name) (k : cons) : Prop :=
  k = CUnique f false \/ (exists t b, k = CFkIndex f t b false) \/ (exists t, k = CFkCons f t false).

Section NonNull.
  Variable sch : schema.
  Variable s f : name.
  Variable k : cons.
  Hypothesis Hk : nn_on f k.
  Hypothesis Hin : In k (cons_of sch s).
  (* a child store validates a field of its own *)
  Hypothesis Hdecl : is_child sch s = true -> exists d, find_store sch s = Some d /\ declares_field d f = true.

  Definition fb (st : state) (i : id) : str := fv_bytes (get_field sch st s i f).
  Definition NN (st : state) : Prop := forall i, present sch st s i = true -> nonempty (fb st i) = true.

  Lemma fb_fc st st' i : ents_fc_eq st st' -> fb st' i = fb st i.
  Proof. intros H. unfold fb. f_equal. apply get_field_fc. apply H. Qed.

  (* the hook of k accepts only a non-empty value (or an unchanged one) *)
  Lemma hook_validates st c sv st' :
    after_update_one sch st c k sv = Ok st' -> ic_store c = s ->
    (ic_create c = false -> nonempty (sv_atom sv) = true) ->
    nonempty (fb st (ic_id c)) = true.
  Proof.
    intros H Hs Hold. unfold fb. rewrite <- Hs.
    destruct Hk as [->|[[t [b ->]]|[t ->]]]; cbn [after_update_one] in H;
      (destruct (negb (ic_create c) && str_eqb (sv_atom sv) (fv_bytes (get_field sch st (ic_store c) (ic_id c) f))) eqn:E;
       [apply andb_prop in E as [E1 E2]; apply negb_true_iff in E1; apply str_eqb_eq in E2; rewrite <- E2; apply Hold, E1|]);
      (destruct (nonempty (fv_bytes (get_field sch st (ic_store c) (ic_id c) f))) eqn:En; [reflexivity|]); exfalso.
    - discriminate.
    - destruct (nonempty (sv_atom sv)); [destruct (present sch st t (sv_atom sv))|]; cbn in H; discriminate.
    - discriminate.
  Qed.

  Lemma sv_of_before st0 c sv : before_update_one sch st0 c k = Ok sv -> ic_store c = s -> sv_atom sv = fb st0 (ic_id c).
  Proof.
    intros H Hs. unfold fb. rewrite <- Hs.
    destruct Hk as [->|[[t [b ->]]|[t ->]]]; cbn in H; inversion H; reflexivity.
  Qed.

  Lemma all_validates c st0 : ic_store c = s ->
    (ic_create c = false -> nonempty (fb st0 (ic_id c)) = true) ->
    forall ks svs st st',
      (ic_create c = true \/ before_update_all sch st0 c ks = Ok svs) ->
      after_update_all sch st c ks svs = Ok st' -> In k ks -> nonempty (fb st' (ic_id c)) = true.
  Proof.
    intros Hs Hold. induction ks as [|k0 ks IH]; intros svs st st' Hb H Hink; [destruct Hink|].
    cbn [after_update_all] in H.
    destruct (after_update_one sch st c k0 _) as [st1|e] eqn:E1; cbn [bind] in H; [|discriminate].
    assert (Hb' : ic_create c = true \/
                  (exists sv0, before_update_one sch st0 c k0 = Ok sv0 /\
                               match svs with x :: _ => x | [] => SvNone end = sv0 /\
                               before_update_all sch st0 c ks = Ok (match svs with _ :: t => t | [] => [] end))).
    { destruct Hb as [Hb|Hb]; [left; exact Hb|]. right. cbn [before_update_all] in Hb.
      destruct (before_update_one sch st0 c k0) as [sv0|e]; cbn [bind] in Hb; [|discriminate].
      destruct (before_update_all sch st0 c ks) as [rest|e]; cbn [bind] in Hb; [|discriminate].
      inversion Hb; subst svs. exists sv0. repeat split. }
    destruct Hink as [->|Hink].
    - rewrite (fb_fc st1 st' _ (after_all_fc _ _ _ _ _ _ H)).
      rewrite (fb_fc st st1 _ (proj1 (after_update_one_frame _ _ _ _ _ _ E1))).
      eapply hook_validates; [exact E1 | exact Hs|].
      intros Hc. destruct Hb' as [Hb'|[sv0 [B1 [B2 _]]]]; [congruence|].
      rewrite B2. rewrite (sv_of_before _ _ _ B1 Hs). apply Hold, Hc.
    - eapply IH; [|exact H|exact Hink].
      destruct Hb' as [Hb'|[sv0 [_ [_ B3]]]]; [left; exact Hb' | right; exact B3].
  Qed.

  Lemma chain_validates create sys i st0 :
    (create = false -> nonempty (fb st0 i) = true) ->
    forall ch svs st st',
      (create = true \/ before_chain sch st0 create sys i ch = Ok svs) ->
      after_chain sch st create sys i ch svs = Ok st' -> In (s, cons_of sch s) ch -> nonempty (fb st' i) = true.
  Proof.
    intros Hold. induction ch as [|[s' ks] ch IH]; intros svs st st' Hb H Hinc; [destruct Hinc|].
    cbn [after_chain] in H.
    destruct (after_update_all sch st _ ks _) as [st1|e] eqn:E1; cbn [bind] in H; [|discriminate].
    assert (Hb' : create = true \/
                  (before_update_all sch st0 (mkIctx create sys s' i) ks = Ok (match svs with x :: _ => x | [] => [] end) /\
                   before_chain sch st0 create sys i ch = Ok (match svs with _ :: t => t | [] => [] end))).
    { destruct Hb as [Hb|Hb]; [left; exact Hb|]. right. cbn [before_chain] in Hb.
      destruct (before_update_all sch st0 _ ks) as [sv0|e]; cbn [bind] in Hb; [|discriminate].
      destruct (before_chain sch st0 create sys i ch) as [rest|e]; cbn [bind] in Hb; [|discriminate].
      inversion Hb; subst svs. split; reflexivity. }
    destruct Hinc as [Heq|Hinc].
    - inversion Heq; subst s' ks.
      rewrite (fb_fc st1 st' _ (after_chain_fc _ _ _ _ _ _ _ _ H)).
      eapply (all_validates (mkIctx create sys s i) st0 eq_refl Hold); [|exact E1|exact Hin].
      destruct Hb' as [Hb'|[B1 _]]; [left; exact Hb' | right; exact B1].
    - eapply IH; [|exact H|exact Hinc].
      destruct Hb' as [Hb'|[_ B2]]; [left; exact Hb' | right; exact B2].
  Qed.

  (* entities other than the written one keep presence and value *)
  Lemma other_entity st r0 i e j :
    ~ (root_of sch s = r0 /\ j = i) ->
    present sch (set_ent st r0 i e) s j = present sch st s j /\ fb (set_ent st r0 i e) j = fb st j.
  Proof.
    intros Hn.
    assert (ent_fc_eq (get_ent (set_ent st r0 i e) (root_of sch s) j) (get_ent st (root_of sch s) j)) as Hfc.
    { apply ent_fc_eq_of_eq. rewrite get_ent_set_ent.
      destruct (str_eqb r0 (root_of sch s)) eqn:E1; [|reflexivity].
      destruct (str_eqb i j) eqn:E2; [|reflexivity].
      apply str_eqb_eq in E1, E2. exfalso. apply Hn. split; congruence. }
    split; [apply present_fc; exact Hfc | unfold fb; f_equal; apply get_field_fc; exact Hfc].
  Qed.

  (* written through another store of the family: the child data of s is not touched *)
  Lemma child_untouched st s0 i e0 e1 :
    is_child sch s = true -> s <> s0 -> root_of sch s = root_of sch s0 ->
    al_get s (e_c e1) = al_get s (e_c e0) ->
    (present sch (set_ent st (root_of sch s0) i e1) s i = true ->
     al_get s (e_c e0) <> None /\
     (get_ent st (root_of sch s0) i = Some e0 -> fb (set_ent st (root_of sch s0) i e1) i = fb st i)).
  Proof.
    intros Hc Hne Hr Hec Hp. destruct (Hdecl Hc) as [d [Hd Hdf]].
    unfold present in Hp. rewrite Hr, get_ent_set_ent, !str_eqb_refl, Hc in Hp. cbn [andb] in Hp.
    split.
    - rewrite <- Hec. destruct (al_get s (e_c e1)); [discriminate | discriminate].
    - intros He0. unfold fb, get_field. rewrite Hr, get_ent_set_ent, !str_eqb_refl, He0, Hd, Hc, Hdf. cbn [andb].
      rewrite Hec. reflexivity.
  Qed.

  Lemma op_create_nn oc st evs s0 i sys fv sv st' evs' :
    NN st -> op_create sch oc (st, evs) s0 i sys fv sv = Ok (st', evs') -> NN st'.
  Proof.
    intros HN H. unfold op_create in H.
    destruct (find_store sch s0) as [d0|]; [|discriminate].
    destruct (negb (nonempty i)); [discriminate|].
    destruct (present sch st s0 i); [discriminate|].
    destruct (present sch st (root_of sch s0) i); [discriminate|].
    destruct (negb (key_ok i)); [discriminate|].
    destruct (fire_cu sch oc evs s0 Created i) as [evs1|e]; cbn [bind] in H; [|discriminate].
    destruct (after_chain sch _ true (oc_sys oc) i (chain sch s0) []) as [st2|e] eqn:Eac; cbn [bind] in H; [|discriminate].
    inversion H; subst st' evs'. clear H.
    pose proof (after_chain_fc _ _ _ _ _ _ _ _ Eac) as Hfc.
    intros j Hpj. rewrite (present_fc _ _ _ _ _ (Hfc _ _)) in Hpj.
    destruct (str_eq_dec (root_of sch s) (root_of sch s0)) as [Hr|Hr];
      [destruct (str_eq_dec j i) as [->|Hji]|].
    - destruct (in_chain_cases sch s s0 Hr) as [[Hic _]|[Hc Hne]].
      + eapply (chain_validates true (oc_sys oc) i st); [discriminate | left; reflexivity | exact Eac | exact Hic].
      + exfalso.
        destruct (child_untouched st s0 i ent_empty _ Hc Hne Hr (persist_child_other sch s0 true sys fv sv None ent_empty s Hne) Hpj) as [A _].
        apply A. reflexivity.
    - rewrite (fb_fc _ _ _ Hfc).
      destruct (other_entity st (root_of sch s0) i (persist sch s0 true sys fv sv None ent_empty) j) as [A B]; [tauto|].
      rewrite B. apply HN. rewrite <- A. exact Hpj.
    - rewrite (fb_fc _ _ _ Hfc).
      destruct (other_entity st (root_of sch s0) i (persist sch s0 true sys fv sv None ent_empty) j) as [A B]; [tauto|].
      rewrite B. apply HN. rewrite <- A. exact Hpj.
  Qed.

  Lemma update_in_nn oc st evs s0 i fv sv ch st' evs' :
    NN st -> update_in sch oc (st, evs) s0 i fv sv ch = Ok (st', evs') -> NN st'.
  Proof.
    intros HN H. unfold update_in in H.
    destruct (negb (nonempty i)); [discriminate|].
    destruct (negb (loadable sch st s0 i)); [discriminate|].
    destruct (present sch st s0 i) eqn:Ep0; cbn [negb] in H; [|discriminate].
    destruct (fire_cu sch oc evs s0 Updated i) as [evs1|e]; cbn [bind] in H; [|discriminate].
    destruct (before_chain sch st false (oc_sys oc) i (chain sch s0)) as [svs|e] eqn:Ebc; cbn [bind] in H; [|discriminate].
    destruct (after_chain sch _ false (oc_sys oc) i (chain sch s0) svs) as [st2|e] eqn:Eac; cbn [bind] in H; [|discriminate].
    inversion H; subst st' evs'. clear H.
    pose proof (after_chain_fc _ _ _ _ _ _ _ _ Eac) as Hfc.
    assert (exists e0, get_ent st (root_of sch s0) i = Some e0) as [e0 He0].
    { apply present_get_ent in Ep0. destruct (get_ent st (root_of sch s0) i) as [e0|]; [exists e0; reflexivity | congruence]. }
    rewrite He0 in Eac, Hfc.
    intros j Hpj. rewrite (present_fc _ _ _ _ _ (Hfc _ _)) in Hpj.
    destruct (str_eq_dec (root_of sch s) (root_of sch s0)) as [Hr|Hr];
      [destruct (str_eq_dec j i) as [->|Hji]|].
    - destruct (in_chain_cases sch s s0 Hr) as [[Hic Hwho]|[Hc Hne]].
      + eapply (chain_validates false (oc_sys oc) i st); [|right; exact Ebc | exact Eac | exact Hic].
        intros _. apply HN. destruct Hwho as [->|Ecs]; [exact Ep0|].
        unfold present. rewrite Hr, He0, Ecs. reflexivity.
      + destruct (child_untouched st s0 i e0 _ Hc Hne Hr (persist_child_other sch s0 false false fv sv ch e0 s Hne) Hpj) as [A B].
        rewrite (fb_fc _ _ _ Hfc), (B He0). apply HN.
        unfold present. rewrite Hr, He0, Hc. destruct (al_get s (e_c e0)); [reflexivity | congruence].
    - rewrite (fb_fc _ _ _ Hfc).
      destruct (other_entity st (root_of sch s0) i (persist sch s0 false false fv sv ch e0) j) as [A B]; [tauto|].
      rewrite B. apply HN. rewrite <- A. exact Hpj.
    - rewrite (fb_fc _ _ _ Hfc).
      destruct (other_entity st (root_of sch s0) i (persist sch s0 false false fv sv ch e0) j) as [A B]; [tauto|].
      rewrite B. apply HN. rewrite <- A. exact Hpj.
  Qed.

  Lemma NN_fc st st' : ents_fc_eq st st' -> NN st -> NN st'.
  Proof.
    intros Hfc HN i Hp. rewrite (fb_fc _ _ _ Hfc). apply HN. rewrite <- (present_fc _ _ _ _ _ (Hfc _ _)). exact Hp.
  Qed.

  Lemma NN_shrink st st' : ents_shrink st st' -> NN st -> NN st'.
  Proof.
    intros Hs HN i Hp. unfold fb. rewrite (get_field_shrink _ _ _ _ _ _ Hs (present_get_ent _ _ _ _ Hp)).
    apply HN. eapply present_shrink; eauto.
  Qed.

  Lemma run_op_nn fuel oc st evs o st' evs' :
    NN st -> run_op sch fuel oc (st, evs) o = Ok (st', evs') -> NN st'.
  Proof.
    intros HN H. destruct o as [s0 i sys fv sv|s0 i fv sv ch|s0 i|s0 i lf ts|s0 i lf ts|]; cbn [run_op] in H.
    - eapply op_create_nn; eauto.
    - unfold op_update in H. destruct (find_store sch s0); [|discriminate].
      destruct (is_child sch s0); [eapply update_in_nn; eauto|].
      destruct (find _ (children_of sch s0)); eapply update_in_nn; eauto.
    - eapply NN_shrink; [|exact HN]. apply (delete_shrink sch oc fuel (st, evs) s0 i (st', evs') H).
    - cbn [fst snd] in H. destruct (op_add_links sch st s0 i lf ts) as [st1|e] eqn:E; cbn [bind] in H; [|discriminate].
      inversion H; subst. eapply NN_fc; [eapply op_add_links_fc; eauto | exact HN].
    - cbn [fst snd] in H. destruct (op_remove_links sch st s0 i lf ts) as [st1|e] eqn:E; cbn [bind] in H; [|discriminate].
      inversion H; subst. eapply NN_fc; [eapply op_remove_links_fc; eauto | exact HN].
    - discriminate.
  Qed.

  Lemma run_ops_nn fuel oc : forall ops st evs rs st' evs',
    NN st -> run_ops sch fuel oc (st, evs) ops = (rs, Ok (st', evs')) -> NN st'.
  Proof.
    induction ops as [|o ops IH]; intros st evs rs st' evs' HN H; cbn [run_ops] in H.
    - inversion H; subst. exact HN.
    - destruct (run_op sch fuel oc (st, evs) o) as [[st1 evs1]|e] eqn:E1; [|inversion H].
      destruct (run_ops sch fuel oc (st1, evs1) ops) as [rs1 fin] eqn:E2. inversion H; subst.
      eapply IH; [|exact E2]. eapply run_op_nn; eauto.
  Qed.

  Lemma run_tx_nn fuel st t : NN st -> NN (match run_tx sch fuel st t with (_, _, st', _) => st' end).
  Proof.
    intros HN. unfold run_tx.
    destruct (run_ops sch fuel _ (st, []) (tx_ops t)) as [rs fin] eqn:E. destruct fin as [[st1 evs1]|e]; [|exact HN].
    destruct (tx_precommit_fails t); [exact HN|]. eapply run_ops_nn; eauto.
  Qed.

  Lemma run_txs_nn fuel : forall ts st, NN st -> NN (run_txs sch fuel st ts).
  Proof.
    unfold run_txs. induction ts as [|t ts IH]; intros st HN; cbn [fold_left]; [exact HN|].
    apply IH. apply run_tx_nn. exact HN.
  Qed.

  (* in every reachable state every present entity of s holds a non-empty value in f *)
  Lemma nonnull_reachable fuel ts :
    forall i, present sch (run_txs sch fuel st_empty ts) s i = true ->
              nonempty (fv_bytes (get_field sch (run_txs sch fuel st_empty ts) s i f)) = true.
  Proof.
    apply run_txs_nn. intros i H. unfold present in H. cbn in H. discriminate.
  Qed.
End NonNull.
