(* Facts about the derived operations of Store/XOps.v: a body of extended operations IS a body of plain
   operations (its flattening), so the transaction theorems of the store machine carry over; DeleteWhere returns
   the first failure of its deletes; a rejection raised by PersistEntity always reaches the caller. *)
From Coq Require Import List NArith Bool Arith Lia.
From Storage Require Import Base.Bytes Store.Model Store.TxProofs Store.XOps.
Import ListNotations.

Lemma run_ops_app sch fuel oc : forall a b stev,
  snd (run_ops sch fuel oc stev (a ++ b)) =
  match snd (run_ops sch fuel oc stev a) with
  | Ok s1 => snd (run_ops sch fuel oc s1 b)
  | Err k => Err k
  end.
Proof.
  induction a as [|o a IH]; intros b stev; cbn [app run_ops].
  - reflexivity.
  - destruct (run_op sch fuel oc stev o) as [s1|k].
    + specialize (IH b s1).
      destruct (run_ops sch fuel oc s1 (a ++ b)) as [rs fin].
      destruct (run_ops sch fuel oc s1 a) as [rs2 fin2]. cbn [snd] in *. exact IH.
    + reflexivity.
Qed.

(* an extended operation that is a plain operation behaves as that operation *)
Lemma run_xop_base sch fuel oc stev o :
  run_xop sch fuel oc stev (XBase o) = run_op sch fuel oc stev o.
Proof.
  unfold run_xop. cbn [xexpand run_ops]. destruct (run_op sch fuel oc stev o); reflexivity.
Qed.

(* running a body of extended operations = running its flattening *)
Lemma run_xops_flatten sch fuel oc : forall xs stev,
  snd (run_xops sch fuel oc stev xs) = snd (run_ops sch fuel oc stev (xflatten sch fuel oc stev xs)).
Proof.
  induction xs as [|x xs IH]; intros stev; cbn [run_xops xflatten].
  - reflexivity.
  - unfold run_xop.
    destruct (snd (run_ops sch fuel oc stev (xexpand sch (fst stev) x))) as [s1|k] eqn:Hx.
    + rewrite run_ops_app, Hx. specialize (IH s1).
      destruct (run_xops sch fuel oc s1 xs) as [rs fin]. cbn [snd] in *. exact IH.
    + cbn [snd]. rewrite Hx. reflexivity.
Qed.

(* per-operation results of a body of extended operations: same shape as for plain operations *)
Lemma run_xops_results sch fuel oc : forall xs stev rs fin,
  run_xops sch fuel oc stev xs = (rs, fin) ->
  match fin with
  | Ok _ => Forall (fun r => r = None) rs /\ length rs = length xs
  | Err k => exists pre, rs = pre ++ [Some k] /\ Forall (fun r => r = None) pre /\ (length rs <= length xs)%nat
  end.
Proof.
  induction xs as [|x xs IH]; intros stev rs fin H; cbn [run_xops] in H.
  - inversion H; subst. split; [constructor | reflexivity].
  - destruct (run_xop sch fuel oc stev x) as [stev1|k] eqn:Ho.
    + destruct (run_xops sch fuel oc stev1 xs) as [rs' fin'] eqn:Hr. inversion H; subst.
      specialize (IH _ _ _ Hr). destruct fin as [y|k].
      * destruct IH as [Hall Hlen]. split; [constructor; [reflexivity|exact Hall] | cbn; rewrite Hlen; reflexivity].
      * destruct IH as [pre [-> [Hall Hlen]]]. exists (None :: pre). repeat split.
        -- constructor; [reflexivity|exact Hall].
        -- cbn in *. lia.
    + inversion H; subst. exists []. repeat split; [constructor | cbn; lia].
Qed.

(* Db.Update over extended operations commits / rolls back exactly as Db.Update over the flattened body:
   same commit flag, same resulting database, same delivered events *)
Lemma run_xtx_is_run_tx sch fuel st t rs c st' evs :
  run_xtx sch fuel st t = (rs, c, st', evs) ->
  exists rs0, run_tx sch fuel st (xtx_flat sch fuel st t) = (rs0, c, st', evs).
Proof.
  unfold run_xtx, run_tx, xtx_flat. cbn [tx_sys tx_vetoes tx_ops tx_precommit_fails].
  pose proof (run_xops_flatten sch fuel (mkOctx (xtx_sys t) (xtx_vetoes t)) (xtx_ops t) (st, [])) as Hf.
  destruct (run_xops sch fuel _ (st, []) (xtx_ops t)) as [rs1 fin1].
  destruct (run_ops sch fuel _ (st, []) (xflatten sch fuel _ (st, []) (xtx_ops t))) as [rs2 fin2].
  cbn [snd] in Hf. subst fin2.
  destruct fin1 as [[st1 evs1]|k].
  - destruct (xtx_precommit_fails t); intros H; inversion H; subst; eexists; reflexivity.
  - intros H; inversion H; subst; eexists; reflexivity.
Qed.

Lemma run_xtx_all_or_nothing_lemma sch fuel st t rs st' evs :
  run_xtx sch fuel st t = (rs, false, st', evs) -> st' = st /\ evs = [].
Proof.
  intros H. destruct (run_xtx_is_run_tx _ _ _ _ _ _ _ _ H) as [rs0 H0].
  exact (run_tx_all_or_nothing_lemma _ _ _ _ _ _ _ H0).
Qed.

Lemma run_xtx_error_iff_lemma sch fuel st t :
  let '(rs, committed, _, _) := run_xtx sch fuel st t in
  committed = false <->
  (xtx_precommit_fails t = true \/ exists k, In (Some k) rs).
Proof.
  unfold run_xtx. destruct (run_xops sch fuel _ (st, []) (xtx_ops t)) as [rs fin] eqn:Hr.
  pose proof (run_xops_results _ _ _ _ _ _ _ Hr) as Hres.
  destruct fin as [[st1 evs1]|k].
  - destruct Hres as [Hall _]. destruct (xtx_precommit_fails t) eqn:Hp.
    + split; [intros _; left; reflexivity | reflexivity].
    + split; [discriminate|]. intros [Hc|[k Hin]]; [discriminate|].
      rewrite Forall_forall in Hall. specialize (Hall _ Hin). discriminate.
  - destruct Hres as [pre [-> _]]. split; [|reflexivity]. intros _. right. exists k.
    apply in_or_app. right. left. reflexivity.
Qed.

(* a failing extended operation at ANY position fails the body *)
Lemma run_xops_failure_propagates sch fuel oc : forall pre x post stev stev' k,
  snd (run_xops sch fuel oc stev pre) = Ok stev' ->
  run_xop sch fuel oc stev' x = Err k ->
  snd (run_xops sch fuel oc stev (pre ++ x :: post)) = Err k.
Proof.
  induction pre as [|p pre IH]; intros x post stev stev' k Hpre Hx; cbn [app run_xops] in *.
  - inversion Hpre; subst. rewrite Hx. reflexivity.
  - destruct (run_xop sch fuel oc stev p) as [stev1|k1] eqn:Hp.
    + destruct (run_xops sch fuel oc stev1 pre) as [rs fin] eqn:Hr. cbn [snd] in Hpre. subst fin.
      specialize (IH x post stev1 stev' k). rewrite Hr in IH. specialize (IH eq_refl Hx).
      destruct (run_xops sch fuel oc stev1 (pre ++ x :: post)) as [rs2 fin2]. cbn [snd] in *. exact IH.
    + cbn [snd] in Hpre. discriminate.
Qed.

(* ---------------------------------------------------------------- DeleteWhere *)
(* DeleteWhere returns the error of the first DeleteById that fails, whatever its kind (also a
   RecordNotFoundError) and wherever it sits in the list of collected ids *)
Lemma delete_where_first_failure sch fuel oc stev s flt pre i post stev' k :
  dw_ids sch (fst stev) s flt = pre ++ i :: post ->
  snd (run_ops sch fuel oc stev (map (ODelete s) pre)) = Ok stev' ->
  delete_by_id sch oc fuel stev' s i = Err k ->
  run_xop sch fuel oc stev (XDeleteWhere s flt) = Err k.
Proof.
  intros Hids Hpre Hdel. unfold run_xop. cbn [xexpand]. unfold dw_expand. rewrite Hids, map_app. cbn [map].
  apply run_ops_failure_propagates with (stev' := stev'); [exact Hpre | exact Hdel].
Qed.

(* DeleteWhere returns nil only if every DeleteById of the collected ids returned nil *)
Lemma delete_where_ok_all_deleted sch fuel oc stev s flt stev' :
  run_xop sch fuel oc stev (XDeleteWhere s flt) = Ok stev' ->
  exists rs, run_ops sch fuel oc stev (map (ODelete s) (dw_ids sch (fst stev) s flt)) = (rs, Ok stev') /\
             Forall (fun r => r = None) rs /\ length rs = length (dw_ids sch (fst stev) s flt).
Proof.
  unfold run_xop. cbn [xexpand]. unfold dw_expand. intros H.
  destruct (run_ops sch fuel oc stev (map (ODelete s) (dw_ids sch (fst stev) s flt))) as [rs fin] eqn:Hr.
  cbn [snd] in H. subst fin. exists rs. split; [reflexivity|].
  pose proof (run_ops_results _ _ _ _ _ _ _ Hr) as Hres. cbn in Hres. destruct Hres as [Hall Hlen].
  split; [exact Hall|]. rewrite Hlen, map_length. reflexivity.
Qed.

(* ---------------------------------------------------------------- rejections raised by PersistEntity *)
Lemma op_update_routes sch oc stev s i fv sv ch d :
  find_store sch s = Some d ->
  op_update sch oc stev s i fv sv ch = update_in sch oc stev (update_target sch (fst stev) s i) i fv sv ch.
Proof.
  intros Hf. unfold op_update, update_target. rewrite Hf. destruct (is_child sch s); [reflexivity|].
  destruct (find (fun d0 => present sch (fst stev) (sd_name d0) i) (children_of sch s)); reflexivity.
Qed.

(* a create whose entity carries a value PersistEntity rejects fails *)
Lemma persist_rejection_fails_create sch fuel oc stev bt req s i sys fv sv :
  persist_rejected bt req sch s fv sv None = true ->
  run_xop sch fuel oc stev (XPersist bt req (OCreate s i sys fv sv)) = Err EOther.
Proof.
  intros H. unfold run_xop. cbn [xexpand guard_op]. rewrite H. reflexivity.
Qed.

(* an update whose entity carries a value PersistEntity rejects (in a field the checker lets through) never
   reports success: it fails earlier (blank id / not found) or with the latched error *)
Lemma persist_rejection_fails_update sch fuel oc stev bt req s i fv sv ch :
  persist_rejected bt req sch (update_target sch (fst stev) s i) fv sv ch = true ->
  exists k, run_xop sch fuel oc stev (XPersist bt req (OUpdate s i fv sv ch)) = Err k.
Proof.
  intros H. unfold run_xop. cbn [xexpand guard_op]. rewrite H.
  destruct (update_reaches_persist sch (fst stev) s i) eqn:Hr; cbn [andb].
  - exists EOther. reflexivity.
  - cbn [run_ops run_op]. unfold update_reaches_persist in Hr.
    destruct (find_store sch s) as [d|] eqn:Hf.
    + rewrite (op_update_routes _ _ _ _ _ _ _ _ _ Hf). unfold update_in. destruct stev as [st evs]. cbn [fst] in *.
      destruct (nonempty i); cbn [negb andb] in *; [|eexists; reflexivity].
      destruct (loadable sch st (update_target sch st s i) i); cbn [negb andb] in *; [|eexists; reflexivity].
      rewrite Hr. cbn [negb]. eexists; reflexivity.
    + unfold op_update. rewrite Hf. eexists; reflexivity.
Qed.

Lemma persist_rejection_update_kind sch fuel oc stev bt req s i fv sv ch :
  update_reaches_persist sch (fst stev) s i = true ->
  persist_rejected bt req sch (update_target sch (fst stev) s i) fv sv ch = true ->
  run_xop sch fuel oc stev (XPersist bt req (OUpdate s i fv sv ch)) = Err EOther.
Proof.
  intros Hr H. unfold run_xop. cbn [xexpand guard_op]. rewrite Hr, H. reflexivity.
Qed.

(* without a rejected value the guarded operation is the operation *)
Lemma guard_transparent sch fuel oc stev bt req o :
  guard_op bt req sch (fst stev) o = o ->
  run_xop sch fuel oc stev (XPersist bt req o) = run_op sch fuel oc stev o.
Proof.
  intros H. unfold run_xop. cbn [xexpand]. rewrite H. cbn [run_ops]. destruct (run_op sch fuel oc stev o); reflexivity.
Qed.
