(* Frame facts of the store machine: which components each primitive and each constraint hook
   can change.  [ents_fc_eq] = same entities with the same fields and child data (only string sets
   may differ); [ents_shrink] = entities only disappear, survivors keep fields and child data. *)
From Coq Require Import List NArith Bool Lia.
From Storage Require Import Base.Bytes Base.BytesFacts Store.Model Store.AListFacts.
Import ListNotations.

Definition ent_fc_eq (a b : option entity) : Prop :=
  match a, b with
  | Some e', Some e => e_f e' = e_f e /\ e_c e' = e_c e
  | None, None => True
  | _, _ => False
  end.

Definition ents_fc_eq (st st' : state) : Prop :=
  forall r i, ent_fc_eq (get_ent st' r i) (get_ent st r i).

Definition ents_shrink (st st' : state) : Prop :=
  forall r i, match get_ent st' r i with
              | Some e' => exists e, get_ent st r i = Some e /\ e_f e' = e_f e /\ e_c e' = e_c e
              | None => True
              end.

Lemma ents_fc_eq_refl st : ents_fc_eq st st.
Proof. intros r i. unfold ent_fc_eq. destruct (get_ent st r i); auto. Qed.

Lemma ents_fc_eq_trans a b c : ents_fc_eq a b -> ents_fc_eq b c -> ents_fc_eq a c.
Proof.
  intros H1 H2 r i. specialize (H1 r i). specialize (H2 r i). unfold ent_fc_eq in *.
  destruct (get_ent a r i), (get_ent b r i), (get_ent c r i); try contradiction; auto.
  destruct H1, H2. split; congruence.
Qed.

Lemma ents_fc_eq_shrink a b : ents_fc_eq a b -> ents_shrink a b.
Proof.
  intros H r i. specialize (H r i). unfold ent_fc_eq in H.
  destruct (get_ent b r i) as [e'|]; [|exact I].
  destruct (get_ent a r i) as [e|]; [|contradiction]. exists e. tauto.
Qed.

Lemma ents_shrink_refl st : ents_shrink st st.
Proof. apply ents_fc_eq_shrink, ents_fc_eq_refl. Qed.

Lemma ents_shrink_trans a b c : ents_shrink a b -> ents_shrink b c -> ents_shrink a c.
Proof.
  intros H1 H2 r i. specialize (H2 r i). destruct (get_ent c r i) as [e''|]; [|exact I].
  destruct H2 as [e' [Hb [Hf Hc]]]. specialize (H1 r i). rewrite Hb in H1.
  destruct H1 as [e [Ha [Hf' Hc']]]. exists e. repeat split; congruence.
Qed.

(* what [present] and [get_field] read *)
Lemma present_fc sch st st' s i :
  ent_fc_eq (get_ent st' (root_of sch s) i) (get_ent st (root_of sch s) i) ->
  present sch st' s i = present sch st s i.
Proof.
  unfold present, ent_fc_eq. destruct (get_ent st' (root_of sch s) i) as [e'|], (get_ent st (root_of sch s) i) as [e|];
    try contradiction; [|reflexivity].
  intros [_ Hc]. rewrite Hc. reflexivity.
Qed.

Lemma get_field_fc sch st st' s i f :
  ent_fc_eq (get_ent st' (root_of sch s) i) (get_ent st (root_of sch s) i) ->
  get_field sch st' s i f = get_field sch st s i f.
Proof.
  unfold get_field, ent_fc_eq, ent_field. destruct (get_ent st' (root_of sch s) i) as [e'|], (get_ent st (root_of sch s) i) as [e|];
    try contradiction; [|reflexivity].
  intros [Hf Hc]. rewrite Hf, Hc. reflexivity.
Qed.

Lemma present_shrink sch st st' s i :
  ents_shrink st st' -> present sch st' s i = true -> present sch st s i = true.
Proof.
  intros H. specialize (H (root_of sch s) i). unfold present.
  destruct (get_ent st' (root_of sch s) i) as [e'|]; [|discriminate].
  destruct H as [e [-> [_ Hc]]]. rewrite Hc. auto.
Qed.

Lemma get_field_shrink sch st st' s i f :
  ents_shrink st st' -> get_ent st' (root_of sch s) i <> None ->
  get_field sch st' s i f = get_field sch st s i f.
Proof.
  intros H Hp. specialize (H (root_of sch s) i). unfold get_field, ent_field.
  destruct (get_ent st' (root_of sch s) i) as [e'|] eqn:E; [|congruence].
  destruct H as [e [-> [Hf Hc]]]. rewrite Hf, Hc. reflexivity.
Qed.

Lemma present_get_ent sch st s i : present sch st s i = true -> get_ent st (root_of sch s) i <> None.
Proof. unfold present. destruct (get_ent st (root_of sch s) i); [congruence | discriminate]. Qed.

(* ---- primitives ---- *)
Lemma get_ent_set_ent st r i e r0 i0 :
  get_ent (set_ent st r i e) r0 i0 = if str_eqb r r0 && str_eqb i i0 then Some e else get_ent st r0 i0.
Proof.
  unfold get_ent, set_ent, upd1. cbn. destruct (str_eqb r r0) eqn:Er; cbn.
  - apply str_eqb_eq in Er. subst r0. rewrite al_get_put. reflexivity.
  - reflexivity.
Qed.

Lemma get_ent_del_ent st r i r0 i0 :
  get_ent (del_ent st r i) r0 i0 = if str_eqb r r0 && str_eqb i i0 then None else get_ent st r0 i0.
Proof.
  unfold get_ent, del_ent, upd1. cbn. destruct (str_eqb r r0) eqn:Er; cbn.
  - apply str_eqb_eq in Er. subst r0. rewrite al_get_del. reflexivity.
  - reflexivity.
Qed.

Lemma set_ent_sets_fc st r i e e' :
  get_ent st r i = Some e -> e_f e' = e_f e -> e_c e' = e_c e -> ents_fc_eq st (set_ent st r i e').
Proof.
  intros He Hf Hc r0 i0. rewrite get_ent_set_ent.
  destruct (str_eqb r r0 && str_eqb i i0) eqn:E.
  - apply andb_prop in E as [E1 E2]. apply str_eqb_eq in E1, E2. subst. rewrite He. cbn. auto.
  - unfold ent_fc_eq. destruct (get_ent st r0 i0); auto.
Qed.

Lemma backref_add_fc sch st t ti b i : ents_fc_eq st (backref_add sch st t ti b i).
Proof.
  unfold backref_add. destruct (get_ent st (root_of sch t) ti) as [e|] eqn:E; [|apply ents_fc_eq_refl].
  eapply set_ent_sets_fc; [exact E | reflexivity | reflexivity].
Qed.

Lemma backref_del_fc sch st t ti b i : ents_fc_eq st (backref_del sch st t ti b i).
Proof.
  unfold backref_del. destruct (get_ent st (root_of sch t) ti) as [e|] eqn:E; [|apply ents_fc_eq_refl].
  eapply set_ent_sets_fc; [exact E | reflexivity | reflexivity].
Qed.

Lemma backref_add_uidx sch st t ti b i : uidx (backref_add sch st t ti b i) = uidx st.
Proof. unfold backref_add. destruct (get_ent st (root_of sch t) ti); reflexivity. Qed.
Lemma backref_del_uidx sch st t ti b i : uidx (backref_del sch st t ti b i) = uidx st.
Proof. unfold backref_del. destruct (get_ent st (root_of sch t) ti); reflexivity. Qed.
Lemma backref_add_sidx sch st t ti b i : sidx (backref_add sch st t ti b i) = sidx st.
Proof. unfold backref_add. destruct (get_ent st (root_of sch t) ti); reflexivity. Qed.
Lemma backref_del_sidx sch st t ti b i : sidx (backref_del sch st t ti b i) = sidx st.
Proof. unfold backref_del. destruct (get_ent st (root_of sch t) ti); reflexivity. Qed.

Lemma sidx_remove_ents st r f v i : ents (sidx_remove st r f v i) = ents st.
Proof. unfold sidx_remove. destruct (ss_del i _); reflexivity. Qed.
Lemma sidx_remove_uidx st r f v i : uidx (sidx_remove st r f v i) = uidx st.
Proof. unfold sidx_remove. destruct (ss_del i _); reflexivity. Qed.
Lemma sidx_add_ents st r f v i : ents (sidx_add st r f v i) = ents st.
Proof. reflexivity. Qed.
Lemma sidx_add_uidx st r f v i : uidx (sidx_add st r f v i) = uidx st.
Proof. reflexivity. Qed.

Lemma fold_sidx_remove_ents r f i l : forall st, ents (fold_left (fun acc v => sidx_remove acc r f v i) l st) = ents st.
Proof. induction l as [|v l IH]; intros st; cbn; [reflexivity|]. rewrite IH. apply sidx_remove_ents. Qed.
Lemma fold_sidx_remove_uidx r f i l : forall st, uidx (fold_left (fun acc v => sidx_remove acc r f v i) l st) = uidx st.
Proof. induction l as [|v l IH]; intros st; cbn; [reflexivity|]. rewrite IH. apply sidx_remove_uidx. Qed.
Lemma fold_sidx_add_ents r f i l : forall st, ents (fold_left (fun acc v => sidx_add acc r f v i) l st) = ents st.
Proof. induction l as [|v l IH]; intros st; cbn; [reflexivity|]. rewrite IH. reflexivity. Qed.
Lemma fold_sidx_add_uidx r f i l : forall st, uidx (fold_left (fun acc v => sidx_add acc r f v i) l st) = uidx st.
Proof. induction l as [|v l IH]; intros st; cbn; [reflexivity|]. rewrite IH. reflexivity. Qed.

Lemma ents_eq_fc st st' : ents st' = ents st -> ents_fc_eq st st'.
Proof. intros H r i. unfold get_ent. rewrite H. unfold ent_fc_eq. destruct (al_get i (ents st r)); auto. Qed.

(* ---- constraint hooks: create / update ---- *)
Lemma upd2_other {V} (g : name -> name -> V) a b v a' b' :
  (a <> a' \/ b <> b') -> upd2 g a b v a' b' = g a' b'.
Proof.
  intros H. unfold upd2. destruct (str_eqb a a') eqn:E1; [|reflexivity].
  destruct (str_eqb b b') eqn:E2; [|reflexivity].
  apply str_eqb_eq in E1, E2. destruct H; contradiction.
Qed.

Lemma upd2_same {V} (g : name -> name -> V) a b v : upd2 g a b v a b = v.
Proof. unfold upd2. rewrite !str_eqb_refl. reflexivity. Qed.

Lemma name_pair_dec (a b a' b' : name) : (a = a' /\ b = b') \/ (a <> a' \/ b <> b').
Proof.
  destruct (str_eq_dec a a'); [|right; left; assumption].
  destruct (str_eq_dec b b'); [left; split; assumption | right; right; assumption].
Qed.

Lemma after_update_one_frame sch st c k sv st' :
  after_update_one sch st c k sv = Ok st' ->
  ents_fc_eq st st' /\
  (forall r f, uidx st' r f = uidx st r f \/ (exists nl, k = CUnique f nl /\ root_of sch (ic_store c) = r)).
Proof.
  destruct k as [f0 nl|f0|f0 t b nl|b|f0 t nl|rs f0 cs|]; cbn [after_update_one]; intros H.
  - (* CUnique *)
    assert (forall m, ents_fc_eq st (set_uidx st (root_of sch (ic_store c)) f0 m)) as Hfc
      by (intros m; apply ents_eq_fc; reflexivity).
    assert (forall m r f, uidx (set_uidx st (root_of sch (ic_store c)) f0 m) r f = uidx st r f \/
                          (exists nl0, CUnique f0 nl = CUnique f nl0 /\ root_of sch (ic_store c) = r)) as Hu.
    { intros m r f. cbn. destruct (name_pair_dec (root_of sch (ic_store c)) f0 r f) as [[-> ->]|Hne].
      - right. exists nl. split; reflexivity.
      - left. apply upd2_other. exact Hne. }
    destruct (negb (ic_create c) && str_eqb (sv_atom sv) (fv_bytes (get_field sch st (ic_store c) (ic_id c) f0))).
    + inversion H; subst. split; [apply ents_fc_eq_refl | intros; left; reflexivity].
    + destruct (nonempty (fv_bytes (get_field sch st (ic_store c) (ic_id c) f0))).
      * destruct (al_get _ _); [discriminate|]. destruct (key_ok _); [|discriminate].
        inversion H; subst. split; [apply Hfc | intros; apply Hu].
      * destruct nl; [|discriminate]. inversion H; subst. split; [apply Hfc | intros; apply Hu].
  - (* CSetIdx *)
    destruct (strs_eqb _ _).
    + inversion H; subst. split; [apply ents_fc_eq_refl | intros; left; reflexivity].
    + destruct (negb _); [discriminate|]. inversion H; subst. split.
      * apply ents_eq_fc. rewrite fold_sidx_add_ents, fold_sidx_remove_ents. reflexivity.
      * intros. left. rewrite fold_sidx_add_uidx, fold_sidx_remove_uidx. reflexivity.
  - (* CFkIndex *)
    destruct (negb (ic_create c) && _).
    + inversion H; subst. split; [apply ents_fc_eq_refl | intros; left; reflexivity].
    + destruct (nonempty (sv_atom sv)) eqn:Eo.
      * destruct (present sch st t (sv_atom sv)); [|discriminate]. cbn [bind] in H.
        destruct (nonempty (fv_bytes _)).
        -- destruct (present sch _ t _); [|discriminate]. inversion H; subst. split.
           ++ eapply ents_fc_eq_trans; [apply backref_del_fc | apply backref_add_fc].
           ++ intros. left. rewrite backref_add_uidx, backref_del_uidx. reflexivity.
        -- destruct nl; [|discriminate]. inversion H; subst. split;
             [apply backref_del_fc | intros; left; rewrite backref_del_uidx; reflexivity].
      * cbn [bind] in H. destruct (nonempty (fv_bytes _)).
        -- destruct (present sch st t _); [|discriminate]. inversion H; subst. split;
             [apply backref_add_fc | intros; left; rewrite backref_add_uidx; reflexivity].
        -- destruct nl; [|discriminate]. inversion H; subst. split; [apply ents_fc_eq_refl | intros; left; reflexivity].
  - inversion H; subst. split; [apply ents_fc_eq_refl | intros; left; reflexivity].
  - (* CFkCons *)
    destruct (negb (ic_create c) && _); [inversion H; subst; split; [apply ents_fc_eq_refl | intros; left; reflexivity]|].
    destruct (nonempty _).
    + destruct (present sch st t _); [|discriminate]. inversion H; subst. split; [apply ents_fc_eq_refl | intros; left; reflexivity].
    + destruct nl; [|discriminate]. inversion H; subst. split; [apply ents_fc_eq_refl | intros; left; reflexivity].
  - inversion H; subst. split; [apply ents_fc_eq_refl | intros; left; reflexivity].
  - (* CSystem *)
    destruct (ic_create c).
    + destruct (get_field sch st (ic_store c) (ic_id c) isSystemF) as [| |x|[|]];
        try (inversion H; subst; split; [apply ents_fc_eq_refl | intros; left; reflexivity]).
      destruct (ic_sys c); [|discriminate]. inversion H; subst. split; [apply ents_fc_eq_refl | intros; left; reflexivity].
    + inversion H; subst. split; [apply ents_fc_eq_refl | intros; left; reflexivity].
Qed.

Lemma present_set_uidx sch st r f m s i : present sch (set_uidx st r f m) s i = present sch st s i.
Proof. reflexivity. Qed.
Lemma get_field_set_uidx sch st r f m s i g : get_field sch (set_uidx st r f m) s i g = get_field sch st s i g.
Proof. reflexivity. Qed.
Lemma uidx_set_uidx st r f m : uidx (set_uidx st r f m) r f = m.
Proof. cbn. apply upd2_same. Qed.
