(* Facts about the single-link operations of Store/LinkOne.v:
   - a body that contains them IS a body of plain operations (its flattening), so the theorems about run_tx / run_txs
     carry over - in particular "a committed delete leaves no trace" and "links are symmetric" (C06);
   - what the bool returned by AddLink / RemoveLink must be inside one transaction: after an AddLink that returned nil
     the link is a member (a RemoveLink of it reports true, a second AddLink reports false), after a RemoveLink it is not
     (an AddLink reports true again) - whether or not anything was committed in between. *)
From Coq Require Import List NArith Bool Arith Lia.
From Storage Require Import Base.Bytes Store.Model Store.AListFacts Store.TxProofs Store.XOps Store.XOpsProofs Store.LinkOne
  Store.NoTrace Store.NoTraceFacts Store.NoTraceProofs.
Import ListNotations.

(* ---------------------------------------------------------------- expansion *)
Lemma link_calls_expand sch fuel oc mk rep : forall ts stev,
  snd (link_calls sch fuel oc mk rep stev ts) = snd (run_ops sch fuel oc stev (map mk ts)).
Proof.
  induction ts as [|t r IH]; intros stev; cbn [link_calls map run_ops]; [reflexivity|].
  destruct (run_op sch fuel oc stev (mk t)) as [s1|k]; [|reflexivity].
  specialize (IH s1).
  destruct (link_calls sch fuel oc mk rep s1 r) as [bs fin].
  destruct (run_ops sch fuel oc s1 (map mk r)) as [rs fin2]. cbn [snd] in *. exact IH.
Qed.

(* every operation leaves the database its expansion leaves *)
Lemma run_lop_expand sch fuel oc stev l :
  snd (run_lop sch fuel oc stev l) = snd (run_ops sch fuel oc stev (lexpand sch (fst stev) l)).
Proof.
  destruct l as [x|s i lf ts|s i lf ts|s i f ts]; cbn [run_lop lexpand snd].
  - reflexivity.
  - apply link_calls_expand.
  - apply link_calls_expand.
  - reflexivity.
Qed.

Definition lfin (r : list (option ekind) * list (list bool) * res st_ev) : res st_ev := snd r.

Lemma run_lops_flatten sch fuel oc : forall ls stev,
  lfin (run_lops sch fuel oc stev ls) = snd (run_ops sch fuel oc stev (lflatten sch fuel oc stev ls)).
Proof.
  induction ls as [|l ls IH]; intros stev; cbn [run_lops lflatten].
  - reflexivity.
  - pose proof (run_lop_expand sch fuel oc stev l) as Hx.
    destruct (run_lop sch fuel oc stev l) as [bs fin1]. cbn [snd] in Hx. rewrite <- Hx.
    destruct fin1 as [s1|k].
    + rewrite run_ops_app, <- Hx. specialize (IH s1).
      destruct (run_lops sch fuel oc s1 ls) as [[rs bss] fin]. unfold lfin in *. cbn [snd] in *. exact IH.
    + unfold lfin. cbn [snd]. rewrite <- Hx. reflexivity.
Qed.

(* Db.Update over a body with single-link operations commits / rolls back exactly as Db.Update over the flattened
   body: same commit flag, same resulting database, same delivered events *)
Lemma run_ltx_is_run_tx sch fuel st t rs bss c st' evs :
  run_ltx sch fuel st t = (rs, bss, c, st', evs) ->
  exists rs0, run_tx sch fuel st (ltx_flat sch fuel st t) = (rs0, c, st', evs).
Proof.
  unfold run_ltx, run_tx, ltx_flat. cbn [tx_sys tx_vetoes tx_ops tx_precommit_fails].
  pose proof (run_lops_flatten sch fuel (mkOctx (ltx_sys t) (ltx_vetoes t)) (ltx_ops t) (st, [])) as Hf.
  destruct (run_lops sch fuel _ (st, []) (ltx_ops t)) as [[rs1 bss1] fin1].
  destruct (run_ops sch fuel _ (st, []) (lflatten sch fuel _ (st, []) (ltx_ops t))) as [rs2 fin2].
  unfold lfin in Hf. cbn [snd] in Hf. subst fin2.
  destruct fin1 as [[st1 evs1]|k].
  - destruct (ltx_precommit_fails t); intros H; inversion H; subst; eexists; reflexivity.
  - intros H; inversion H; subst; eexists; reflexivity.
Qed.

Lemma ltx_state_flat sch fuel st t :
  ltx_state sch fuel st t = match run_tx sch fuel st (ltx_flat sch fuel st t) with (_, _, st', _) => st' end.
Proof.
  unfold ltx_state. destruct (run_ltx sch fuel st t) as [[[[rs bss] c] st'] evs] eqn:E.
  destruct (run_ltx_is_run_tx _ _ _ _ _ _ _ _ _ E) as [rs0 H]. rewrite H. reflexivity.
Qed.

(* a history with single-link operations reaches the state its plain history reaches *)
Lemma run_ltxs_flat sch fuel : forall ts st,
  run_ltxs sch fuel st ts = run_txs sch fuel st (ltxs_flat sch fuel st ts).
Proof.
  unfold run_ltxs, run_txs. induction ts as [|t r IH]; intros st; cbn [fold_left ltxs_flat]; [reflexivity|].
  rewrite IH. rewrite <- ltx_state_flat. reflexivity.
Qed.

(* ---------------------------------------------------------------- bodies that end in a given operation *)
Lemma run_lops_app_ok sch fuel oc : forall pre l stev stev2,
  lfin (run_lops sch fuel oc stev (pre ++ [l])) = Ok stev2 ->
  exists stev1, lfin (run_lops sch fuel oc stev pre) = Ok stev1.
Proof.
  induction pre as [|p pre IH]; intros l stev stev2 H; cbn [app run_lops] in *.
  - exists stev. reflexivity.
  - destruct (run_lop sch fuel oc stev p) as [bs [s1|k]].
    + specialize (IH l s1 stev2).
      destruct (run_lops sch fuel oc s1 (pre ++ [l])) as [[rs bss] fin].
      destruct (run_lops sch fuel oc s1 pre) as [[rs' bss'] fin']. unfold lfin in *. cbn [snd] in *. exact (IH H).
    + unfold lfin in H. cbn [snd] in H. discriminate.
Qed.

Lemma lflatten_app_last sch fuel oc : forall pre l stev stev1,
  lfin (run_lops sch fuel oc stev pre) = Ok stev1 ->
  lflatten sch fuel oc stev (pre ++ [l]) = lflatten sch fuel oc stev pre ++ lexpand sch (fst stev1) l.
Proof.
  induction pre as [|p pre IH]; intros l stev stev1 H; cbn [app run_lops lflatten] in *.
  - unfold lfin in H. cbn [snd] in H. inversion H; subst.
    destruct (snd (run_ops sch fuel oc stev1 (lexpand sch (fst stev1) l))); [apply app_nil_r | reflexivity].
  - pose proof (run_lop_expand sch fuel oc stev p) as Hx.
    destruct (run_lop sch fuel oc stev p) as [bs fin1]. cbn [snd] in Hx. rewrite <- Hx.
    destruct fin1 as [s1|k].
    + specialize (IH l s1 stev1).
      destruct (run_lops sch fuel oc s1 pre) as [[rs bss] fin]. unfold lfin in *. cbn [snd] in *.
      rewrite (IH H). rewrite app_assoc. reflexivity.
    + unfold lfin in H. cbn [snd] in H. discriminate.
Qed.

(* ---------------------------------------------------------------- C06 for histories with single-link operations *)
Section NoTraceLinkOne.
  Variable sch : schema.
  Hypothesis W : wf_notrace_b sch = true.

  Lemma ltx_committed_delete fuel lts t pre s x rs bss st' evs :
    ltx_ops t = pre ++ [LBase (XBase (ODelete s x))] ->
    run_ltx sch fuel (run_ltxs sch fuel st_empty lts) t = (rs, bss, true, st', evs) ->
    ~ mentions sch st' (root_of sch s) x.
  Proof.
    intros Hops H. rewrite run_ltxs_flat in H.
    set (st0 := run_txs sch fuel st_empty (ltxs_flat sch fuel st_empty lts)) in *.
    destruct (run_ltx_is_run_tx _ _ _ _ _ _ _ _ _ H) as [rs0 H0].
    (* the body before the delete succeeded *)
    assert (Hpre : exists stev1, lfin (run_lops sch fuel (mkOctx (ltx_sys t) (ltx_vetoes t)) (st0, []) pre) = Ok stev1).
    { unfold run_ltx in H. rewrite Hops in H.
      destruct (run_lops sch fuel (mkOctx (ltx_sys t) (ltx_vetoes t)) (st0, []) (pre ++ [LBase (XBase (ODelete s x))])) as [[rs1 bss1] fin] eqn:E.
      destruct fin as [[st1 evs1]|k]; [|inversion H].
      apply (run_lops_app_ok sch fuel _ pre (LBase (XBase (ODelete s x))) (st0, []) (st1, evs1)).
      rewrite E. reflexivity. }
    destruct Hpre as [stev1 Hpre].
    eapply (final_committed_delete sch W fuel (ltxs_flat sch fuel st_empty lts) (ltx_flat sch fuel st0 t)
              (lflatten sch fuel (mkOctx (ltx_sys t) (ltx_vetoes t)) (st0, []) pre) s x rs0 st' evs); [|exact H0].
    unfold ltx_flat. cbn [tx_ops]. rewrite Hops.
    rewrite (lflatten_app_last sch fuel _ pre _ (st0, []) stev1 Hpre). reflexivity.
  Qed.

  Lemma ltx_links_symmetric fuel lts s lf os of_ x t : In (lf, os, of_) (links_of sch s) ->
    let st := run_ltxs sch fuel st_empty lts in
    (In t (eset st (root_of sch s) x lf) <-> In x (eset st (root_of sch os) t of_)) /\
    (In t (eset st (root_of sch s) x lf) -> present sch st s x = true /\ present sch st os t = true).
  Proof. intros Hin. cbv zeta. rewrite run_ltxs_flat. apply (final_links_symmetric sch W); exact Hin. Qed.

  Lemma ltx_absent fuel lts R x : root_of sch R = R ->
    get_ent (run_ltxs sch fuel st_empty lts) R x = None -> ~ mentions sch (run_ltxs sch fuel st_empty lts) R x.
  Proof. rewrite run_ltxs_flat. apply (final_absent sch W). Qed.
End NoTraceLinkOne.

(* ---------------------------------------------------------------- what AddLink / RemoveLink report *)
Lemma get_set_eset sch st s i f : get_set sch st s i f = eset st (root_of sch s) i f.
Proof. reflexivity. Qed.

(* after an AddLink that returned nil the link is a member of the local set *)
Lemma add1_then_member sch fuel oc stev s i lf t stev1 :
  run_op sch fuel oc stev (add1 s i lf t) = Ok stev1 ->
  link_member sch (fst stev1) s i lf t = true.
Proof.
  unfold add1. cbn [run_op]. unfold op_add_links.
  destruct (find_link sch s lf) as [[os of_]|]; [|discriminate].
  destruct (present sch (fst stev) s i) eqn:Hp; cbn [negb]; [|discriminate].
  cbn [fold_left bind]. destruct (present sch (fst stev) os t); cbn [bind]; [|discriminate].
  intros H. inversion H; subst. cbn [fst]. unfold link_member.
  rewrite !present_backref_add, Hp. cbn [andb].
  apply ss_mem_in. rewrite get_set_eset. apply eset_backref_add. left. apply eset_backref_add. right.
  repeat split. apply (present_true_ent sch (fst stev) s i Hp).
Qed.

(* after a RemoveLink that returned nil it is not *)
Lemma remove1_then_not_member sch fuel oc stev s i lf t stev1 :
  run_op sch fuel oc stev (remove1 s i lf t) = Ok stev1 ->
  link_member sch (fst stev1) s i lf t = false.
Proof.
  unfold remove1. cbn [run_op]. unfold op_remove_links.
  destruct (find_link sch s lf) as [[os of_]|]; [|discriminate].
  destruct (present sch (fst stev) s i) eqn:Hp; cbn [negb]; [|discriminate].
  cbn [fold_left bind]. intros H. inversion H; subst. cbn [fst]. unfold link_member.
  rewrite !present_backref_del, Hp. cbn [andb].
  destruct (ss_mem t (get_set sch (backref_del sch (backref_del sch (fst stev) s i lf t) os t of_ i) s i lf)) eqn:E; [|reflexivity].
  exfalso. apply ss_mem_in in E. rewrite get_set_eset in E. apply eset_backref_del in E. destruct E as [E _].
  apply eset_backref_del in E. destruct E as [_ E]. apply E. repeat split.
Qed.

(* the link written by an earlier operation of the same transaction counts: RemoveLink reports true, AddLink false *)
Lemma remove_after_add_reports_true sch fuel oc stev s i lf t stev1 :
  run_op sch fuel oc stev (add1 s i lf t) = Ok stev1 -> remove1_reports sch s i lf (fst stev1) t = true.
Proof. intros H. unfold remove1_reports. exact (add1_then_member _ _ _ _ _ _ _ _ _ H). Qed.

Lemma add_after_add_reports_false sch fuel oc stev s i lf t stev1 :
  run_op sch fuel oc stev (add1 s i lf t) = Ok stev1 -> add1_reports sch s i lf (fst stev1) t = false.
Proof. intros H. unfold add1_reports. rewrite (add1_then_member _ _ _ _ _ _ _ _ _ H). reflexivity. Qed.

Lemma add_after_remove_reports_true sch fuel oc stev s i lf t stev1 :
  run_op sch fuel oc stev (remove1 s i lf t) = Ok stev1 -> add1_reports sch s i lf (fst stev1) t = true.
Proof. intros H. unfold add1_reports. rewrite (remove1_then_not_member _ _ _ _ _ _ _ _ _ H). reflexivity. Qed.

Lemma remove_after_remove_reports_false sch fuel oc stev s i lf t stev1 :
  run_op sch fuel oc stev (remove1 s i lf t) = Ok stev1 -> remove1_reports sch s i lf (fst stev1) t = false.
Proof. intros H. unfold remove1_reports. exact (remove1_then_not_member _ _ _ _ _ _ _ _ _ H). Qed.

(* add - remove of one link inside one body: the calls report [true-or-false; true] and the link is gone on the local side *)
Lemma add_remove_in_one_body sch fuel oc stev s i lf t bs stev2 :
  run_lops sch fuel oc stev [LAddLink s i lf [t]; LRemoveLink s i lf [t]] = ([None; None], bs, Ok stev2) ->
  exists b, bs = [[b]; [true]] /\ link_member sch (fst stev2) s i lf t = false.
Proof.
  cbn [run_lops run_lop link_calls].
  destruct (run_op sch fuel oc stev (add1 s i lf t)) as [s1|k] eqn:Ha; [|intros H; inversion H].
  destruct (run_op sch fuel oc s1 (remove1 s i lf t)) as [s2|k] eqn:Hr; [|intros H; inversion H].
  intros H. inversion H; subst. exists (add1_reports sch s i lf (fst stev) t). split.
  - rewrite (remove_after_add_reports_true _ _ _ _ _ _ _ _ _ Ha). reflexivity.
  - exact (remove1_then_not_member _ _ _ _ _ _ _ _ _ Hr).
Qed.
