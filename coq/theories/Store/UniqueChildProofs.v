(* Unique indexes of CHILD stores: the unique constraint [CUnique f _] of a child (extension) store [c] on a
   field [f] that the child store declares itself keeps its index - stored under the root store R = root_of c -
   a mirror of the entities that have data for c, in every reachable state.  Same invariant technique as
   Store/UniqueProofs.v (which fixes a ROOT store): [UInv], the state between PersistEntity and the hook
   ([MidInv]), the weakened [DInv G] for entities in the middle of a (cascading) delete, [dmono], [DelSpec].
   What is different for a child store: presence = "the child data exists"; the value lives in the child data;
   writes through the parent store or a sibling child store leave both alone; on delete the hook runs in the
   child-store fan-out of DeleteById, before the root store's own constraints. *)
From Coq Require Import List NArith Bool Lia.
From Storage Require Import Base.Bytes Base.BytesFacts Store.Model Store.AListFacts Store.FrameProofs Store.UniqueProofs
  Store.NonNullProofs.
Import ListNotations.

Section UniqueChild.
  Variable sch : schema.
  Variable c f : name.
  Variable cd : sdef.
  Local Notation R := (root_of sch c).

  Definition cfbytes (st : state) (i : id) : str := fv_bytes (get_field sch st c i f).
  Definition cpres (st : state) (i : id) : bool := present sch st c i.
  Definition cix (st : state) : alist id := uidx st R f.

  Definition CUSound (st : state) : Prop :=
    forall v i, al_get v (cix st) = Some i -> nonempty v = true /\ cpres st i = true /\ cfbytes st i = v.
  Definition CUComplete (G : id -> Prop) (st : state) : Prop :=
    forall i, cpres st i = true -> ~ G i -> nonempty (cfbytes st i) = true -> al_get (cfbytes st i) (cix st) = Some i.
  Definition CUInv (st : state) : Prop := CUSound st /\ CUComplete (fun _ => False) st.

  Definition same_view (st st' : state) : Prop :=
    cix st' = cix st /\ (forall i, cpres st' i = cpres st i) /\ (forall i, cfbytes st' i = cfbytes st i).

  Lemma same_view_refl st : same_view st st.
  Proof. repeat split. Qed.

  Lemma same_view_trans a b d : same_view a b -> same_view b d -> same_view a d.
  Proof. intros [A1 [A2 A3]] [B1 [B2 B3]]. repeat split; intros; congruence. Qed.

  Lemma fc_eq_view st st' : ents_fc_eq st st' -> cix st' = cix st -> same_view st st'.
  Proof.
    intros H Hi. split; [exact Hi|]. split; intros i.
    - apply present_fc. apply H.
    - unfold cfbytes. f_equal. apply get_field_fc. apply H.
  Qed.

  Lemma USound_view st st' : same_view st st' -> CUSound st -> CUSound st'.
  Proof. intros [Hi [Hp Hf]] H v i Hg. rewrite Hi in Hg. rewrite Hp, Hf. apply H. exact Hg. Qed.

  Lemma UComplete_view G st st' : same_view st st' -> CUComplete G st -> CUComplete G st'.
  Proof. intros [Hi [Hp Hf]] H i Hpi HG Hne. rewrite Hi, Hf in *. rewrite Hp in Hpi. apply H; assumption. Qed.

  Lemma UInv_view st st' : same_view st st' -> CUInv st -> CUInv st'.
  Proof. intros Hv [H1 H2]. split; [eapply USound_view | eapply UComplete_view]; eauto. Qed.

  (* ---- well-formedness of the schema around (c, f) ---- *)
  Hypothesis Hchild : is_child sch c = true.
  Hypothesis Hcd : find_store sch c = Some cd.
  Hypothesis Hdf : declares_field cd f = true.
  Hypothesis HRroot : is_child sch R = false.
  Hypothesis HRdecl : find_store sch R <> None.
  Hypothesis Hroots : forall x, root_of sch (root_of sch x) = root_of sch x.
  Hypothesis Hown : forall s' nl, root_of sch s' = R -> In (CUnique f nl) (cons_of sch s') -> s' = c.

  Lemma R_neq_c : R <> c.
  Proof. intros E. rewrite E in HRroot. congruence. Qed.

  Lemma cpres_ent st i : cpres st i = match get_ent st R i with
                                      | Some e => match al_get c (e_c e) with Some _ => true | None => false end
                                      | None => false end.
  Proof. unfold cpres, present. rewrite Hchild. reflexivity. Qed.

  Lemma cfbytes_ent st i : cfbytes st i = match get_ent st R i with
                                          | Some e => match al_get c (e_c e) with
                                                      | Some x => fv_bytes (match al_get f x with Some v => v | None => FAbsent end)
                                                      | None => [] end
                                          | None => [] end.
  Proof.
    unfold cfbytes, get_field. rewrite Hcd, Hchild, Hdf. cbn [andb].
    destruct (get_ent st R i) as [e|]; [|reflexivity]. destruct (al_get c (e_c e)); reflexivity.
  Qed.

  Lemma after_one_view st k0 k sv st' :
    after_update_one sch st k0 k sv = Ok st' ->
    ~ (root_of sch (ic_store k0) = R /\ exists nl, k = CUnique f nl) ->
    same_view st st'.
  Proof.
    intros H Hn. apply after_update_one_frame in H as [Hfc Hu].
    apply fc_eq_view; [exact Hfc|]. unfold cix. destruct (Hu R f) as [E|[nl [E1 E2]]]; [exact E|].
    exfalso. apply Hn. split; [exact E2 | exists nl; exact E1].
  Qed.

  Definition not_ours (store : name) (k : cons) : Prop :=
    ~ (root_of sch store = R /\ exists nl, k = CUnique f nl).

  Lemma after_all_view k0 : forall ks svs st st',
    Forall (not_ours (ic_store k0)) ks ->
    after_update_all sch st k0 ks svs = Ok st' -> same_view st st'.
  Proof.
    induction ks as [|k ks IH]; intros svs st st' Hall H; cbn [after_update_all] in H.
    - inversion H; subst. apply same_view_refl.
    - inversion Hall as [|? ? Hk Hks]; subst.
      destruct (after_update_one sch st k0 k _) as [st1|e] eqn:E1; cbn [bind] in H; [|discriminate].
      eapply same_view_trans; [eapply after_one_view; eauto | eapply IH; eauto].
  Qed.

  (* ---- the state between persisting entity i and the unique hook ---- *)
  Definition MidInv (old : str) (i : id) (st : state) : Prop :=
    cpres st i = true /\
    (forall v j, al_get v (cix st) = Some j ->
                 nonempty v = true /\ cpres st j = true /\ (j <> i -> cfbytes st j = v) /\ (j = i -> v = old)) /\
    (forall j, j <> i -> cpres st j = true -> nonempty (cfbytes st j) = true -> al_get (cfbytes st j) (cix st) = Some j) /\
    (nonempty old = true -> al_get old (cix st) = Some i).

  Lemma MidInv_view old i st st' : same_view st st' -> MidInv old i st -> MidInv old i st'.
  Proof.
    intros [Hi [Hp Hf]] [M1 [M2 [M3 M4]]]. unfold MidInv. rewrite Hi, Hp.
    split; [exact M1|]. split; [|split].
    - intros v j Hg. rewrite Hp, Hf. apply M2. exact Hg.
    - intros j Hj Hpj Hne. rewrite Hf in *. rewrite Hp in Hpj. apply M3; assumption.
    - exact M4.
  Qed.

  Lemma unique_hook_restores old i st k0 nl sv st' :
    MidInv old i st -> ic_store k0 = c -> ic_id k0 = i -> sv_atom sv = old ->
    (ic_create k0 = true -> old = []) ->
    after_update_one sch st k0 (CUnique f nl) sv = Ok st' -> CUInv st'.
  Proof.
    intros [M1 [M2 [M3 M4]]] Hs Hi Hsv Hcr H. cbn [after_update_one] in H.
    rewrite Hs, Hi, Hsv in H. fold (cfbytes st i) in H. fold (cix st) in H.
    set (new := cfbytes st i) in *.
    destruct (negb (ic_create k0) && str_eqb old new) eqn:Eshort.
    - inversion H; subst st'. apply andb_prop in Eshort as [_ Eq]. apply str_eqb_eq in Eq.
      split.
      + intros v j Hg. destruct (M2 v j Hg) as [A [B [C D]]]. split; [exact A|]. split; [exact B|].
        destruct (str_eq_dec j i) as [->|Hne]; [rewrite (D eq_refl); symmetry; exact Eq | apply C; exact Hne].
      + intros j Hp _ Hne. destruct (str_eq_dec j i) as [->|Hji]; [|apply M3; assumption].
        fold new. rewrite <- Eq. apply M4. rewrite Eq. exact Hne.
    - set (m := cix st) in *.
      set (m1 := if nonempty old then al_del old m else m) in *.
      assert (Hm1 : forall v j, al_get v m1 = Some j -> al_get v m = Some j /\ j <> i).
      { intros v j Hg. subst m1. destruct (nonempty old) eqn:Eo.
        - rewrite al_get_del in Hg. destruct (str_eqb old v) eqn:Ev; [discriminate|].
          split; [exact Hg|]. intros ->. destruct (M2 v i Hg) as [_ [_ [_ D]]]. apply str_eqb_neq in Ev. apply Ev. symmetry. apply D. reflexivity.
        - split; [exact Hg|]. intros ->. destruct (M2 v i Hg) as [A [_ [_ D]]].
          rewrite (D eq_refl) in A. congruence. }
      assert (Hm1c : forall j, j <> i -> cpres st j = true -> nonempty (cfbytes st j) = true -> al_get (cfbytes st j) m1 = Some j).
      { intros j Hji Hp Hne. specialize (M3 j Hji Hp Hne). subst m1. destruct (nonempty old) eqn:Eo; [|exact M3].
        rewrite al_get_del. destruct (str_eqb old (cfbytes st j)) eqn:Ev; [|exact M3].
        apply str_eqb_eq in Ev. rewrite <- Ev in M3. rewrite (M4 eq_refl) in M3. congruence. }
      destruct (nonempty new) eqn:Enew.
      + destruct (al_get new m1) eqn:Eg; [discriminate|]. destruct (key_ok new); [|discriminate].
        inversion H; subst st'. clear H. split.
        * intros v j Hg. unfold cix, cpres, cfbytes in *. rewrite uidx_set_uidx in Hg.
          rewrite present_set_uidx, get_field_set_uidx. rewrite al_get_put in Hg.
          destruct (str_eqb new v) eqn:Ev.
          -- apply str_eqb_eq in Ev. subst v. inversion Hg; subst j. repeat split; assumption.
          -- destruct (Hm1 v j Hg) as [Hg' Hji]. destruct (M2 v j Hg') as [A [B [C _]]].
             repeat split; [exact A | exact B | apply C; exact Hji].
        * intros j Hp _ Hne. unfold cix, cpres, cfbytes in *. rewrite uidx_set_uidx.
          rewrite present_set_uidx in Hp. rewrite get_field_set_uidx in *. rewrite al_get_put.
          destruct (str_eq_dec j i) as [->|Hji].
          -- fold new. rewrite str_eqb_refl. reflexivity.
          -- specialize (Hm1c j Hji Hp Hne).
             destruct (str_eqb new (fv_bytes (get_field sch st c j f))) eqn:Ev; [|exact Hm1c].
             apply str_eqb_eq in Ev. rewrite <- Ev in Hm1c. congruence.
      + destruct nl; [|discriminate]. inversion H; subst st'. clear H. split.
        * intros v j Hg. unfold cix, cpres, cfbytes in *. rewrite uidx_set_uidx in Hg.
          rewrite present_set_uidx, get_field_set_uidx.
          destruct (Hm1 v j Hg) as [Hg' Hji]. destruct (M2 v j Hg') as [A [B [C _]]].
          repeat split; [exact A | exact B | apply C; exact Hji].
        * intros j Hp _ Hne. unfold cix, cpres, cfbytes in *. rewrite uidx_set_uidx.
          rewrite present_set_uidx in Hp. rewrite get_field_set_uidx in *.
          destruct (str_eq_dec j i) as [->|Hji]; [fold new in Hne; congruence|].
          apply Hm1c; assumption.
  Qed.

  (* the unique constraint occurs exactly once in the constraint list of c *)
  Hypothesis Honce : exists nl pre post,
    cons_of sch c = pre ++ CUnique f nl :: post /\ Forall (fun k => ~ is_ours f k) pre /\ Forall (fun k => ~ is_ours f k) post.

  Lemma not_ours_of_not_is_ours store ks : Forall (fun k => ~ is_ours f k) ks -> Forall (not_ours store) ks.
  Proof. intros H. eapply Forall_impl; [|exact H]. intros k Hk [_ Ho]. apply Hk. exact Ho. Qed.

  Lemma after_all_pre k0 old i : forall pre rest svs st st',
    Forall (not_ours (ic_store k0)) pre -> MidInv old i st ->
    after_update_all sch st k0 (pre ++ rest) svs = Ok st' ->
    exists st1, MidInv old i st1 /\ after_update_all sch st1 k0 rest (skipn (length pre) svs) = Ok st'.
  Proof.
    induction pre as [|k pre IH]; intros rest svs st st' Hall HM H.
    - exists st. split; [exact HM | exact H].
    - inversion Hall as [|? ? Hk Hks]; subst. cbn [app after_update_all] in H.
      destruct (after_update_one sch st k0 k _) as [st1|e] eqn:E1; cbn [bind] in H; [|discriminate].
      assert (MidInv old i st1) as HM1 by (eapply MidInv_view; [eapply after_one_view; eauto | exact HM]).
      destruct (IH rest _ st1 st' Hks HM1 H) as [st2 [HM2 H2]]. exists st2. split; [exact HM2|].
      destruct svs as [|x svs]; cbn [length skipn]; [destruct (length pre); exact H2 | exact H2].
  Qed.

  Lemma after_all_restores k0 old i svs st st' :
    ic_store k0 = c -> ic_id k0 = i -> (ic_create k0 = true -> old = []) ->
    MidInv old i st ->
    (forall pre k post, cons_of sch c = pre ++ k :: post -> is_ours f k ->
        sv_atom (hd SvNone (skipn (length pre) svs)) = old) ->
    after_update_all sch st k0 (cons_of sch c) svs = Ok st' -> CUInv st'.
  Proof.
    intros Hs Hi Hcr HM Hsv H. destruct Honce as [nl [pre [post [Hc [Hpre Hpost]]]]].
    rewrite Hc in H.
    destruct (after_all_pre k0 old i pre _ svs st st' (not_ours_of_not_is_ours _ _ Hpre) HM H) as [st1 [HM1 H1]].
    cbn [after_update_all] in H1.
    destruct (after_update_one sch st1 k0 (CUnique f nl) _) as [st2|e] eqn:E2; cbn [bind] in H1; [|discriminate].
    assert (CUInv st2) as HU.
    { eapply unique_hook_restores; [exact HM1 | exact Hs | exact Hi | | exact Hcr | exact E2].
      specialize (Hsv pre (CUnique f nl) post Hc (ex_intro _ nl eq_refl)).
      destruct (skipn (length pre) svs); exact Hsv. }
    eapply UInv_view; [|exact HU]. eapply after_all_view; [|exact H1].
    apply not_ours_of_not_is_ours. exact Hpost.
  Qed.

  Lemma after_chain_view i create sys : forall ch svs st st',
    (forall s' ks, In (s', ks) ch -> Forall (not_ours s') ks) ->
    after_chain sch st create sys i ch svs = Ok st' -> same_view st st'.
  Proof.
    induction ch as [|[s' ks] ch IH]; intros svs st st' Hall H; cbn [after_chain] in H.
    - inversion H; subst. apply same_view_refl.
    - destruct (after_update_all sch st _ ks _) as [st1|e] eqn:E1; cbn [bind] in H; [|discriminate].
      eapply same_view_trans.
      + eapply (after_all_view (mkIctx create sys s' i)); [|exact E1]. cbn. apply Hall. left. reflexivity.
      + eapply IH; [|exact H]. intros s2 ks2 Hin. apply Hall. right. exact Hin.
  Qed.

  Lemma not_ours_other_root s' ks : root_of sch s' <> R -> Forall (not_ours s') ks.
  Proof. intros Hne. apply Forall_forall. intros k _ [Hr _]. contradiction. Qed.

  (* a store of the family other than c does not carry the index *)
  Lemma not_ours_other_store s' : s' <> c -> Forall (not_ours s') (cons_of sch s').
  Proof.
    intros Hne. apply Forall_forall. intros k Hin [Hr [nl ->]]. apply Hne. eapply Hown; eauto.
  Qed.

  (* ---- writing entity i of root store R ---- *)
  Lemma cpres_set_ent st i e j :
    cpres (set_ent st R i e) j =
    if str_eqb i j then match al_get c (e_c e) with Some _ => true | None => false end else cpres st j.
  Proof.
    rewrite !cpres_ent, get_ent_set_ent, str_eqb_refl. cbn [andb]. destruct (str_eqb i j); reflexivity.
  Qed.

  Lemma cfbytes_set_ent_other st i e j : i <> j -> cfbytes (set_ent st R i e) j = cfbytes st j.
  Proof.
    intros Hne. rewrite !cfbytes_ent, get_ent_set_ent, str_eqb_refl. cbn [andb].
    assert (str_eqb i j = false) as -> by (apply str_eqb_neq; exact Hne). reflexivity.
  Qed.

  Lemma persist_mid_update st i e :
    CUInv st -> cpres st i = true -> al_get c (e_c e) <> None -> MidInv (cfbytes st i) i (set_ent st R i e).
  Proof.
    intros [HS HC] Hp He. unfold MidInv. rewrite cpres_set_ent, str_eqb_refl.
    split; [destruct (al_get c (e_c e)); [reflexivity | congruence]|].
    change (cix (set_ent st R i e)) with (cix st). split; [|split].
    - intros v j Hg. destruct (HS v j Hg) as [A [B C]]. split; [exact A|]. split.
      + rewrite cpres_set_ent. destruct (str_eqb i j) eqn:E; [|exact B].
        destruct (al_get c (e_c e)); [reflexivity | congruence].
      + split.
        * intros Hne. rewrite cfbytes_set_ent_other by congruence. exact C.
        * intros ->. symmetry. exact C.
    - intros j Hne Hpj Hn. rewrite cpres_set_ent in Hpj.
      assert (str_eqb i j = false) as E by (apply str_eqb_neq; congruence). rewrite E in Hpj.
      rewrite cfbytes_set_ent_other in * by congruence. apply HC; [exact Hpj | tauto | exact Hn].
    - intros Hn. apply HC; [exact Hp | tauto | exact Hn].
  Qed.

  Lemma persist_mid_create st i e :
    CUInv st -> cpres st i = false -> al_get c (e_c e) <> None -> MidInv [] i (set_ent st R i e).
  Proof.
    intros [HS HC] Hp He. unfold MidInv. rewrite cpres_set_ent, str_eqb_refl.
    split; [destruct (al_get c (e_c e)); [reflexivity | congruence]|].
    change (cix (set_ent st R i e)) with (cix st). split; [|split].
    - intros v j Hg. destruct (HS v j Hg) as [A [B C]]. split; [exact A|]. split.
      + rewrite cpres_set_ent. destruct (str_eqb i j) eqn:E; [|exact B].
        destruct (al_get c (e_c e)); [reflexivity | congruence].
      + split.
        * intros Hne. rewrite cfbytes_set_ent_other by congruence. exact C.
        * intros ->. congruence.
    - intros j Hne Hpj Hn. rewrite cpres_set_ent in Hpj.
      assert (str_eqb i j = false) as E by (apply str_eqb_neq; congruence). rewrite E in Hpj.
      rewrite cfbytes_set_ent_other in * by congruence. apply HC; [exact Hpj | tauto | exact Hn].
    - cbn. discriminate.
  Qed.

  (* a change to an entity of another root store is invisible *)
  Lemma set_ent_other_view st r0 i e : r0 <> R -> same_view st (set_ent st r0 i e).
  Proof.
    intros Hne. split; [reflexivity|]. split; intros j.
    - rewrite !cpres_ent, get_ent_set_ent.
      assert (str_eqb r0 R = false) as -> by (apply str_eqb_neq; exact Hne). reflexivity.
    - rewrite !cfbytes_ent, get_ent_set_ent.
      assert (str_eqb r0 R = false) as -> by (apply str_eqb_neq; exact Hne). reflexivity.
  Qed.

  (* a write that keeps the child data of c (through the parent store or a sibling child store) is invisible *)
  Lemma set_ent_family_view st i e0 e1 :
    (get_ent st R i = Some e0 \/ (get_ent st R i = None /\ e0 = ent_empty)) ->
    al_get c (e_c e1) = al_get c (e_c e0) -> same_view st (set_ent st R i e1).
  Proof.
    intros H0 Hec. split; [reflexivity|]. split; intros j.
    - rewrite !cpres_ent, get_ent_set_ent, str_eqb_refl. cbn [andb].
      destruct (str_eqb i j) eqn:E; [|reflexivity]. apply str_eqb_eq in E. subst j. rewrite Hec.
      destruct H0 as [->|[-> ->]]; reflexivity.
    - rewrite !cfbytes_ent, get_ent_set_ent, str_eqb_refl. cbn [andb].
      destruct (str_eqb i j) eqn:E; [|reflexivity]. apply str_eqb_eq in E. subst j. rewrite Hec.
      destruct H0 as [->|[-> ->]]; reflexivity.
  Qed.

  (* PersistEntity through c writes the child data *)
  Lemma persist_c_data cr sys fv sv ch e : al_get c (e_c (persist sch c cr sys fv sv ch e)) <> None.
  Proof.
    unfold persist. rewrite Hcd. pose proof Hchild as Hc. unfold is_child in Hc. rewrite Hcd in Hc.
    destruct (sd_parent cd) as [p|] eqn:Ep; [|discriminate].
    assert (R = p) as HR by (unfold root_of; rewrite Hcd, Ep; reflexivity).
    destruct (find_store sch p) as [pd|] eqn:Epd; [|exfalso; apply HRdecl; rewrite HR; exact Epd].
    cbn [e_c]. rewrite al_get_put_same. discriminate.
  Qed.

  Lemma chain_c : chain sch c = [(R, cons_of sch R); (c, cons_of sch c)].
  Proof. unfold chain. rewrite Hchild. reflexivity. Qed.

  Lemma not_ours_R : Forall (not_ours R) (cons_of sch R).
  Proof. apply not_ours_other_store. apply R_neq_c. Qed.

  Lemma chain_not_ours s0 : root_of sch s0 = R -> s0 <> c ->
    forall s' ks, In (s', ks) (chain sch s0) -> Forall (not_ours s') ks.
  Proof.
    intros Hr Hne s' ks Hin. unfold chain in Hin. destruct (is_child sch s0).
    - destruct Hin as [Hin|[Hin|[]]]; inversion Hin; subst s' ks.
      + rewrite Hr. apply not_ours_R.
      + apply not_ours_other_store. exact Hne.
    - destruct Hin as [Hin|[]]. inversion Hin; subst s' ks. apply not_ours_other_store. exact Hne.
  Qed.

  Lemma get_ent_R_of_present st s0 i : root_of sch s0 = R -> present sch st s0 i = true -> get_ent st R i <> None.
  Proof. intros Hr Hp. apply present_get_ent in Hp. rewrite Hr in Hp. exact Hp. Qed.

  Lemma present_R st i : present sch st R i = match get_ent st R i with Some _ => true | None => false end.
  Proof. unfold present. rewrite Hroots, HRroot. reflexivity. Qed.

  (* ---- create ---- *)
  Lemma op_create_inv oc st evs s0 i sys fv sv st' evs' :
    CUInv st -> op_create sch oc (st, evs) s0 i sys fv sv = Ok (st', evs') -> CUInv st'.
  Proof.
    intros HU H. unfold op_create in H.
    destruct (find_store sch s0) as [d0|]; [|discriminate].
    destruct (negb (nonempty i)); [discriminate|].
    destruct (present sch st s0 i) eqn:Ep0; [discriminate|].
    destruct (present sch st (root_of sch s0) i) eqn:Epr; [discriminate|].
    destruct (negb (key_ok i)); [discriminate|].
    destruct (fire_cu sch oc evs s0 Created i) as [evs1|e]; cbn [bind] in H; [|discriminate].
    destruct (after_chain sch _ true (oc_sys oc) i (chain sch s0) []) as [st2|e] eqn:Eac; cbn [bind] in H; [|discriminate].
    inversion H; subst st' evs'. clear H.
    destruct (str_eq_dec (root_of sch s0) R) as [Hr|Hr].
    - rewrite Hr in *. rewrite present_R in Epr.
      destruct (get_ent st R i) as [ex|] eqn:Eg; [discriminate|].
      destruct (str_eq_dec s0 c) as [->|Hne].
      + assert (cpres st i = false) as Hpi by (rewrite cpres_ent, Eg; reflexivity).
        pose proof (persist_mid_create st i (persist sch c true sys fv sv None ent_empty) HU Hpi (persist_c_data _ _ _ _ _ _)) as HM.
        rewrite chain_c in Eac. cbn [after_chain] in Eac.
        destruct (after_update_all sch _ _ (cons_of sch R) _) as [stA|e] eqn:EA; cbn [bind] in Eac; [|discriminate].
        assert (MidInv [] i stA) as HMA.
        { eapply MidInv_view; [|exact HM]. eapply (after_all_view (mkIctx true (oc_sys oc) R i)); [|exact EA]. cbn. apply not_ours_R. }
        destruct (after_update_all sch stA _ (cons_of sch c) _) as [stB|e] eqn:EB; cbn [bind] in Eac; [|discriminate].
        inversion Eac; subst st2.
        eapply (after_all_restores (mkIctx true (oc_sys oc) c i) [] i []); try reflexivity; [exact HMA | | exact EB].
        intros. rewrite skipn_nil_any. reflexivity.
      + eapply UInv_view; [|exact HU]. eapply same_view_trans.
        * apply (set_ent_family_view st i ent_empty (persist sch s0 true sys fv sv None ent_empty)); [right; split; [exact Eg | reflexivity]|].
          apply persist_child_other. congruence.
        * eapply after_chain_view; [|exact Eac]. apply chain_not_ours; assumption.
    - eapply UInv_view; [|exact HU]. eapply same_view_trans.
      + apply set_ent_other_view. exact Hr.
      + eapply after_chain_view; [|exact Eac]. intros s' ks Hin.
        apply (chain_in sch Hroots) in Hin as [-> Hrs]. apply not_ours_other_root. congruence.
  Qed.

  (* ---- update ---- *)
  Lemma saved_at_hook st i sys svs :
    before_update_all sch st (mkIctx false sys c i) (cons_of sch c) = Ok svs ->
    forall pre k post, cons_of sch c = pre ++ k :: post -> is_ours f k ->
      sv_atom (hd SvNone (skipn (length pre) svs)) = cfbytes st i.
  Proof.
    intros Hb pre k post Hc [nl ->]. rewrite Hc in Hb.
    destruct (before_all_at _ _ _ _ _ _ _ Hb) as [sv [rest [H1 H2]]]. rewrite H2. cbn [hd].
    cbn in H1. inversion H1; subst. reflexivity.
  Qed.

  Lemma update_in_inv oc st evs s0 i fv sv ch st' evs' :
    CUInv st -> update_in sch oc (st, evs) s0 i fv sv ch = Ok (st', evs') -> CUInv st'.
  Proof.
    intros HU H. unfold update_in in H.
    destruct (negb (nonempty i)); [discriminate|].
    destruct (negb (loadable sch st s0 i)); [discriminate|].
    destruct (present sch st s0 i) eqn:Ep0; cbn [negb] in H; [|discriminate].
    destruct (fire_cu sch oc evs s0 Updated i) as [evs1|e]; cbn [bind] in H; [|discriminate].
    destruct (before_chain sch st false (oc_sys oc) i (chain sch s0)) as [svs|e] eqn:Ebc; cbn [bind] in H; [|discriminate].
    destruct (after_chain sch _ false (oc_sys oc) i (chain sch s0) svs) as [st2|e] eqn:Eac; cbn [bind] in H; [|discriminate].
    inversion H; subst st' evs'. clear H.
    destruct (str_eq_dec (root_of sch s0) R) as [Hr|Hr].
    - pose proof (get_ent_R_of_present st s0 i Hr Ep0) as Hge.
      rewrite Hr in *.
      destruct (get_ent st R i) as [e0|] eqn:Eg; [|congruence].
      destruct (str_eq_dec s0 c) as [->|Hne].
      + pose proof (persist_mid_update st i (persist sch c false false fv sv ch e0) HU Ep0 (persist_c_data _ _ _ _ _ _)) as HM.
        rewrite chain_c in Eac, Ebc. cbn [before_chain] in Ebc.
        destruct (before_update_all sch st _ (cons_of sch R)) as [svsA|e] eqn:EbA; cbn [bind] in Ebc; [|discriminate].
        destruct (before_update_all sch st _ (cons_of sch c)) as [svsB|e] eqn:EbB; cbn [bind] in Ebc; [|discriminate].
        inversion Ebc; subst svs. cbn [after_chain] in Eac.
        destruct (after_update_all sch _ _ (cons_of sch R) _) as [stA|e] eqn:EA; cbn [bind] in Eac; [|discriminate].
        assert (MidInv (cfbytes st i) i stA) as HMA.
        { eapply MidInv_view; [|exact HM]. eapply (after_all_view (mkIctx false (oc_sys oc) R i)); [|exact EA]. cbn. apply not_ours_R. }
        destruct (after_update_all sch stA _ (cons_of sch c) _) as [stB|e] eqn:EB; cbn [bind] in Eac; [|discriminate].
        inversion Eac; subst st2.
        eapply (after_all_restores (mkIctx false (oc_sys oc) c i) (cfbytes st i) i svsB); try reflexivity;
          [cbn; discriminate | exact HMA | | exact EB].
        eapply saved_at_hook. exact EbB.
      + eapply UInv_view; [|exact HU]. eapply same_view_trans.
        * apply (set_ent_family_view st i e0 (persist sch s0 false false fv sv ch e0)); [left; exact Eg|].
          apply persist_child_other. congruence.
        * eapply after_chain_view; [|exact Eac]. apply chain_not_ours; assumption.
    - eapply UInv_view; [|exact HU]. eapply same_view_trans.
      + apply set_ent_other_view. exact Hr.
      + eapply after_chain_view; [|exact Eac]. intros s' ks Hin.
        apply (chain_in sch Hroots) in Hin as [-> Hrs]. apply not_ours_other_root. congruence.
  Qed.

  Lemma op_update_inv oc st evs s0 i fv sv ch st' evs' :
    CUInv st -> op_update sch oc (st, evs) s0 i fv sv ch = Ok (st', evs') -> CUInv st'.
  Proof.
    intros HU H. unfold op_update in H. destruct (find_store sch s0); [|discriminate].
    destruct (is_child sch s0); [eapply update_in_inv; eauto|].
    destruct (find _ (children_of sch s0)); eapply update_in_inv; eauto.
  Qed.

  (* ---- link operations only touch string sets ---- *)
  Lemma op_add_links_view s0 i lf ts st st' : op_add_links sch st s0 i lf ts = Ok st' -> same_view st st'.
  Proof.
    intros H. apply fc_eq_view; [eapply DeleteFrame.op_add_links_fc; exact H|].
    unfold op_add_links in H. destruct (find_link sch s0 lf) as [[os of_]|]; [|discriminate].
    destruct (negb (present sch st s0 i)); [discriminate|].
    assert (forall ts acc st', fold_left (fun acc t => do cur <- acc;
               if present sch cur os t then Ok (backref_add sch (backref_add sch cur s0 i lf t) os t of_ i) else Err ENotFound) ts acc = Ok st' ->
             exists st0, acc = Ok st0 /\ uidx st' = uidx st0) as Hfold.
    { clear. induction ts as [|t ts IH]; intros acc st' H; cbn [fold_left] in H.
      - exists st'. split; [exact H | reflexivity].
      - destruct (IH _ _ H) as [st1 [H1 Hv]]. destruct acc as [st0|e]; cbn [bind] in H1; [|discriminate].
        exists st0. split; [reflexivity|]. destruct (present sch st0 os t); [|discriminate]. inversion H1; subst st1.
        rewrite Hv, !backref_add_uidx. reflexivity. }
    destruct (Hfold _ _ _ H) as [st0 [E Hv]]. inversion E; subst. unfold cix. rewrite Hv. reflexivity.
  Qed.

  Lemma op_remove_links_view s0 i lf ts st st' : op_remove_links sch st s0 i lf ts = Ok st' -> same_view st st'.
  Proof.
    intros H. apply fc_eq_view; [eapply DeleteFrame.op_remove_links_fc; exact H|].
    unfold op_remove_links in H. destruct (find_link sch s0 lf) as [[os of_]|]; [|discriminate].
    destruct (negb (present sch st s0 i)); [discriminate|]. inversion H; subst st'. clear H.
    assert (forall ts st0, uidx (fold_left (fun cur t => backref_del sch (backref_del sch cur s0 i lf t) os t of_ i) ts st0) = uidx st0) as Hu.
    { clear. induction ts as [|t ts IH]; intros st0; cbn [fold_left]; [reflexivity|].
      rewrite IH, !backref_del_uidx. reflexivity. }
    unfold cix. rewrite Hu. reflexivity.
  Qed.

  (* ================================================================ delete *)
  Definition UInj (st : state) : Prop :=
    forall i j, cpres st i = true -> cpres st j = true -> cfbytes st i = cfbytes st j ->
                nonempty (cfbytes st i) = true -> i = j.

  Definition DInv (G : id -> Prop) (st : state) : Prop := CUSound st /\ CUComplete G st /\ UInj st.

  Definition dmono (st st' : state) : Prop :=
    (forall v i, al_get v (cix st') = Some i -> al_get v (cix st) = Some i) /\
    (forall i, cpres st' i = true -> cpres st i = true /\ cfbytes st' i = cfbytes st i).

  Definition NoEntry (x : id) (st : state) : Prop := forall v, al_get v (cix st) <> Some x.

  Lemma UInv_DInv G st : CUInv st -> DInv G st.
  Proof.
    intros [HS HC]. split; [exact HS|]. split.
    - intros i Hp _ Hn. apply HC; [exact Hp | tauto | exact Hn].
    - intros i j Hi Hj He Hn. pose proof (HC i Hi (fun x => x) Hn) as A.
      assert (nonempty (cfbytes st j) = true) as Hn' by (rewrite <- He; exact Hn).
      pose proof (HC j Hj (fun x => x) Hn') as B. rewrite He in A. congruence.
  Qed.

  Lemma DInv_UInv st : DInv (fun _ => False) st -> CUInv st.
  Proof. intros [HS [HC _]]. split; assumption. Qed.

  Lemma DInv_weaken (G G' : id -> Prop) st : (forall i, G i -> G' i) -> DInv G st -> DInv G' st.
  Proof.
    intros Hsub [HS [HC HI]]. split; [exact HS|]. split; [|exact HI].
    intros i Hp Hn. apply HC; [exact Hp | intros Hg; apply Hn, Hsub, Hg].
  Qed.

  Lemma dmono_refl st : dmono st st.
  Proof. split; [tauto | intros; split; [assumption | reflexivity]]. Qed.

  Lemma dmono_trans a b d : dmono a b -> dmono b d -> dmono a d.
  Proof.
    intros [A1 A2] [B1 B2]. split.
    - intros v i H. apply A1, B1, H.
    - intros i H. destruct (B2 i H) as [Hb Hfb]. destruct (A2 i Hb) as [Ha Hfa]. split; [exact Ha | congruence].
  Qed.

  Lemma same_view_dmono st st' : same_view st st' -> dmono st st'.
  Proof.
    intros [Hi [Hp Hf]]. split.
    - intros v i H. rewrite Hi in H. exact H.
    - intros i H. rewrite Hp in H. split; [exact H | apply Hf].
  Qed.

  Lemma DInv_view G st st' : same_view st st' -> DInv G st -> DInv G st'.
  Proof.
    intros Hv [HS [HC HI]]. split; [eapply USound_view; eauto|]. split; [eapply UComplete_view; eauto|].
    destruct Hv as [Hi [Hp Hf]]. intros i j. rewrite !Hp, !Hf. apply HI.
  Qed.

  Lemma NoEntry_mono x st st' : dmono st st' -> NoEntry x st -> NoEntry x st'.
  Proof. intros [H1 _] Hn v Hg. apply (Hn v). apply H1. exact Hg. Qed.

  (* an entity without data for c has no index entry *)
  Lemma NoEntry_absent G x st : DInv G st -> cpres st x = false -> NoEntry x st.
  Proof. intros [HS _] Hp v Hg. destruct (HS v x Hg) as [_ [B _]]. congruence. Qed.

  Definition DelSpec (del : st_ev -> name -> id -> res st_ev) : Prop :=
    forall G stev s0 x stev', DInv G (fst stev) -> del stev s0 x = Ok stev' ->
                              DInv G (fst stev') /\ dmono (fst stev) (fst stev').

  Lemma cfbytes_nonempty_pres st x : nonempty (cfbytes st x) = true -> cpres st x = true.
  Proof.
    rewrite cfbytes_ent, cpres_ent. destruct (get_ent st R x) as [e|]; [|cbn; discriminate].
    destruct (al_get c (e_c e)); [reflexivity | cbn; discriminate].
  Qed.

  Lemma unique_delete_hook G st x :
    DInv G st -> G x ->
    let v := cfbytes st x in
    let st' := if nonempty v then set_uidx st R f (al_del v (cix st)) else st in
    DInv G st' /\ dmono st st' /\ NoEntry x st'.
  Proof.
    intros [HS [HC HI]] HG v st'. subst st'. destruct (nonempty v) eqn:En.
    - assert (cpres st x = true) as Hpx by (apply cfbytes_nonempty_pres; exact En).
      split; [|split].
      + split; [|split].
        * intros w j Hg. unfold cix, cpres, cfbytes in *. rewrite uidx_set_uidx in Hg.
          rewrite present_set_uidx, get_field_set_uidx. rewrite al_get_del in Hg.
          destruct (str_eqb v w); [discriminate|]. apply HS. exact Hg.
        * intros j Hp Hn Hne. unfold cix, cpres, cfbytes in *. rewrite uidx_set_uidx.
          rewrite present_set_uidx in Hp. rewrite get_field_set_uidx in *. rewrite al_get_del.
          destruct (str_eqb v (fv_bytes (get_field sch st c j f))) eqn:Ev; [|apply HC; assumption].
          apply str_eqb_eq in Ev. exfalso. apply Hn.
          assert (x = j) as <- by (apply HI; [exact Hpx | exact Hp | exact Ev | exact En]). exact HG.
        * intros i j. unfold cpres, cfbytes. rewrite !present_set_uidx, !get_field_set_uidx. apply HI.
      + split.
        * intros w j Hg. unfold cix in *. rewrite uidx_set_uidx in Hg. rewrite al_get_del in Hg.
          destruct (str_eqb v w); [discriminate | exact Hg].
        * intros j Hp. unfold cpres, cfbytes in *. rewrite present_set_uidx in Hp. rewrite get_field_set_uidx. split; [exact Hp | reflexivity].
      + intros w Hg. unfold cix in Hg. rewrite uidx_set_uidx in Hg. rewrite al_get_del in Hg.
        destruct (str_eqb v w) eqn:Ev; [discriminate|]. apply str_eqb_neq in Ev.
        destruct (HS w x Hg) as [_ [_ Hf]]. apply Ev. exact Hf.
    - split; [split; [exact HS | split; [exact HC | exact HI]]|]. split; [apply dmono_refl|].
      intros w Hg. destruct (HS w x Hg) as [Hnw [_ Hf]]. fold v in Hf. rewrite Hf in En. congruence.
  Qed.

  Variable oc : octx.

  Lemma cascade_loop_spec G del rs f0 i0 : DelSpec del -> forall cands cur cur',
    DInv G (fst cur) -> cascade_loop sch del rs f0 i0 cands cur = Ok cur' ->
    DInv G (fst cur') /\ dmono (fst cur) (fst cur').
  Proof.
    intros Hdel. induction cands as [|c0 cands IH]; intros cur cur' HD H; cbn [cascade_loop] in H.
    - inversion H; subst. split; [exact HD | apply dmono_refl].
    - destruct (casc_matches sch rs f0 i0 (fst cur) c0).
      + destruct (del cur rs c0) as [cur1|e] eqn:Ed; cbn [bind] in H; [|discriminate].
        destruct (Hdel G cur rs c0 cur1 HD Ed) as [HD1 Hm1].
        destruct (IH cur1 cur' HD1 H) as [HD2 Hm2]. split; [exact HD2 | eapply dmono_trans; eauto].
      + apply IH; assumption.
  Qed.

  Lemma view_all G st st' : same_view st st' -> DInv G st -> DInv G st' /\ dmono st st'.
  Proof. intros Hv HD. split; [eapply DInv_view; eauto | apply same_view_dmono; exact Hv]. Qed.

  Lemma bd_one G del st evs k0 k st' evs' x :
    DelSpec del -> DInv G st -> (root_of sch (ic_store k0) = R -> G x) -> ic_id k0 = x -> In k (cons_of sch (ic_store k0)) ->
    before_delete_one sch oc del (st, evs) k0 k = Ok (st', evs') ->
    DInv G st' /\ dmono st st' /\ ((root_of sch (ic_store k0) = R /\ is_ours f k) -> NoEntry x st').
  Proof.
    intros Hdel HD HG Hx Hin H.
    assert (Hsame : st' = st -> ~ (root_of sch (ic_store k0) = R /\ is_ours f k) ->
                    DInv G st' /\ dmono st st' /\ ((root_of sch (ic_store k0) = R /\ is_ours f k) -> NoEntry x st')).
    { intros -> Hn. split; [exact HD|]. split; [apply dmono_refl | intros Ho; contradiction]. }
    assert (Hview : same_view st st' -> ~ (root_of sch (ic_store k0) = R /\ is_ours f k) ->
                    DInv G st' /\ dmono st st' /\ ((root_of sch (ic_store k0) = R /\ is_ours f k) -> NoEntry x st')).
    { intros Hv Hn. destruct (view_all G st st' Hv HD) as [A B]. split; [exact A|]. split; [exact B | intros Ho; contradiction]. }
    destruct k as [f0 nl|f0|f0 t b nl|b|f0 t nl|rs f0 cs|]; cbn [before_delete_one] in H.
    - (* CUnique *)
      destruct (name_pair_dec (root_of sch (ic_store k0)) f0 R f) as [[Hr ->]|Hne].
      + assert (ic_store k0 = c) as Hs by (eapply Hown; eauto).
        rewrite Hs, Hx in H. fold (cfbytes st x) in H. fold (cix st) in H.
        pose proof (unique_delete_hook G st x HD (HG Hr)) as Hh. cbn zeta in Hh.
        destruct (nonempty (cfbytes st x)); inversion H; subst st' evs'; destruct Hh as [A [B C]];
          (split; [exact A|]; split; [exact B | intros _; exact C]).
      + assert (~ (root_of sch (ic_store k0) = R /\ is_ours f (CUnique f0 nl))) as Hn.
        { intros [Hr [nl0 E]]. inversion E; subst. destruct Hne as [Hne|Hne]; contradiction. }
        destruct (nonempty _); inversion H; subst st' evs'; [|apply Hsame; [reflexivity | exact Hn]].
        apply Hview; [|exact Hn]. apply fc_eq_view; [apply ents_eq_fc; reflexivity|].
        unfold cix. cbn. apply upd2_other. exact Hne.
    - (* CSetIdx *)
      destruct (negb _); [discriminate|]. inversion H; subst st' evs'.
      apply Hview; [|intros [_ [nl0 E]]; discriminate].
      apply fc_eq_view; [apply ents_eq_fc; apply fold_sidx_remove_ents | unfold cix; rewrite fold_sidx_remove_uidx; reflexivity].
    - (* CFkIndex *)
      destruct (nonempty _).
      + destruct (present sch st t _); [|discriminate]. inversion H; subst st' evs'.
        apply Hview; [|intros [_ [nl0 E]]; discriminate].
        apply fc_eq_view; [apply backref_del_fc | unfold cix; rewrite backref_del_uidx; reflexivity].
      + inversion H; subst st' evs'. apply Hsame; [reflexivity | intros [_ [nl0 E]]; discriminate].
    - destruct (get_set sch st (ic_store k0) (ic_id k0) b); [|discriminate].
      inversion H; subst st' evs'. apply Hsame; [reflexivity | intros [_ [nl0 E]]; discriminate].
    - inversion H; subst st' evs'. apply Hsame; [reflexivity | intros [_ [nl0 E]]; discriminate].
    - (* CFkCascade *)
      destruct cs.
      + destruct (existsb _ _); [discriminate|]. inversion H; subst st' evs'.
        apply Hsame; [reflexivity | intros [_ [nl0 E]]; discriminate].
      + destruct (cascade_loop_spec G del rs f0 (ic_id k0) Hdel _ (st, evs) (st', evs') HD H) as [A B].
        split; [exact A|]. split; [exact B | intros [_ [nl0 E]]; discriminate].
    - (* CSystem *)
      destruct (get_field sch st (ic_store k0) (ic_id k0) isSystemF) as [| |y|[|]];
        try (inversion H; subst st' evs'; apply Hsame; [reflexivity | intros [_ [nl0 E]]; discriminate]).
      destruct (oc_sys oc); [|discriminate].
      inversion H; subst st' evs'; apply Hsame; [reflexivity | intros [_ [nl0 E]]; discriminate].
  Qed.

  Lemma bd_all (G : id -> Prop) del x k0 : DelSpec del -> (root_of sch (ic_store k0) = R -> G x) -> ic_id k0 = x -> forall ks st evs st' evs',
    incl ks (cons_of sch (ic_store k0)) -> DInv G st ->
    before_delete_all sch oc del (st, evs) k0 ks = Ok (st', evs') ->
    DInv G st' /\ dmono st st' /\
    (((root_of sch (ic_store k0) = R /\ Exists (is_ours f) ks) \/ NoEntry x st) -> NoEntry x st').
  Proof.
    intros Hdel HG Hx. induction ks as [|k ks IH]; intros st evs st' evs' Hincl HD H; cbn [before_delete_all] in H.
    - inversion H; subst. split; [exact HD|]. split; [apply dmono_refl|].
      intros [[_ He]|Hn]; [inversion He | exact Hn].
    - destruct (before_delete_one sch oc del (st, evs) k0 k) as [[st1 evs1]|e] eqn:E1; cbn [bind] in H; [|discriminate].
      assert (In k (cons_of sch (ic_store k0))) as Hin by (apply Hincl; left; reflexivity).
      destruct (bd_one G del st evs k0 k st1 evs1 x Hdel HD HG Hx Hin E1) as [HD1 [Hm1 Hn1]].
      assert (incl ks (cons_of sch (ic_store k0))) as Hincl' by (intros y Hy; apply Hincl; right; exact Hy).
      destruct (IH st1 evs1 st' evs' Hincl' HD1 H) as [HD2 [Hm2 Hn2]].
      split; [exact HD2|]. split; [eapply dmono_trans; eauto|].
      intros [[Hr He]|Hn].
      + inversion He as [? ? Hk|? ? Hk]; subst.
        * apply Hn2. right. apply Hn1. split; assumption.
        * apply Hn2. left. split; assumption.
      + apply Hn2. right. eapply NoEntry_mono; eauto.
  Qed.

  Lemma bd_chain (G : id -> Prop) del x : DelSpec del -> forall ch st evs st' evs',
    (forall s' ks, In (s', ks) ch -> ks = cons_of sch s' /\ (root_of sch s' = R -> G x)) -> DInv G st ->
    before_delete_chain sch oc del x ch (st, evs) = Ok (st', evs') ->
    DInv G st' /\ dmono st st' /\
    (((exists s', In (s', cons_of sch s') ch /\ root_of sch s' = R /\ Exists (is_ours f) (cons_of sch s')) \/ NoEntry x st) -> NoEntry x st').
  Proof.
    intros Hdel. induction ch as [|[s' ks] ch IH]; intros st evs st' evs' Hch HD H; cbn [before_delete_chain] in H.
    - inversion H; subst. split; [exact HD|]. split; [apply dmono_refl|].
      intros [[s' [[] _]]|Hn]. exact Hn.
    - destruct (before_delete_all sch oc del (st, evs) _ ks) as [[st1 evs1]|e] eqn:E1; cbn [bind] in H; [|discriminate].
      destruct (Hch s' ks (or_introl eq_refl)) as [-> HGs].
      destruct (bd_all G del x (mkIctx false (oc_sys oc) s' x) Hdel HGs eq_refl _ st evs st1 evs1 (incl_refl _) HD E1) as [HD1 [Hm1 Hn1]].
      assert (forall s2 ks2, In (s2, ks2) ch -> ks2 = cons_of sch s2 /\ (root_of sch s2 = R -> G x)) as Hch' by (intros; apply Hch; right; assumption).
      destruct (IH st1 evs1 st' evs' Hch' HD1 H) as [HD2 [Hm2 Hn2]].
      split; [exact HD2|]. split; [eapply dmono_trans; eauto|].
      intros [[s2 [Hin [Hr He]]]|Hn].
      + destruct Hin as [Hin|Hin].
        * inversion Hin; subst s2. apply Hn2. right. apply Hn1. left. cbn. split; assumption.
        * apply Hn2. left. exists s2. repeat split; assumption.
      + apply Hn2. right. eapply NoEntry_mono; eauto.
  Qed.

  Lemma cleanup_links_view st s0 x : same_view st (cleanup_links sch st s0 x).
  Proof.
    unfold cleanup_links. destruct (find_store sch s0) as [d|]; [|apply same_view_refl].
    generalize (sd_links d). intros ls. revert st. induction ls as [|[[lf os] of_] ls IH]; intros st; cbn [fold_left].
    - apply same_view_refl.
    - eapply same_view_trans; [|apply IH].
      generalize (get_set sch st s0 x lf). intros ms. revert st. induction ms as [|m ms IHm]; intros st; cbn [fold_left].
      + apply same_view_refl.
      + eapply same_view_trans; [|apply IHm]. apply fc_eq_view; [apply backref_del_fc | unfold cix; rewrite backref_del_uidx; reflexivity].
  Qed.

  Lemma ours_in_cons_c : Exists (is_ours f) (cons_of sch c).
  Proof.
    destruct Honce as [nl [pre [post [Hc _]]]]. rewrite Hc. apply Exists_exists.
    exists (CUnique f nl). split; [apply in_or_app; right; left; reflexivity | exists nl; reflexivity].
  Qed.

  Lemma process_delete_spec (G : id -> Prop) del x s0 st evs st' evs' :
    DelSpec del -> (root_of sch s0 = R -> G x) -> DInv G st ->
    process_delete sch oc del (st, evs) s0 x = Ok (st', evs') ->
    DInv G st' /\ dmono st st' /\ ((s0 = c \/ NoEntry x st) -> NoEntry x st').
  Proof.
    intros Hdel HG HD H. unfold process_delete in H.
    destruct (before_delete_chain sch oc del x (chain sch s0) (st, evs)) as [[st1 evs1]|e] eqn:E1; cbn [bind] in H; [|discriminate].
    inversion H; subst st' evs'. clear H.
    assert (forall s' ks, In (s', ks) (chain sch s0) -> ks = cons_of sch s' /\ (root_of sch s' = R -> G x)) as Hch
      by (intros s' ks Hin; apply (chain_in sch Hroots) in Hin as [A B]; split; [exact A | intros Hr; apply HG; congruence]).
    destruct (bd_chain G del x Hdel _ st evs st1 evs1 Hch HD E1) as [HD1 [Hm1 Hn1]].
    pose proof (cleanup_links_view st1 s0 x) as Hv.
    destruct (view_all G _ _ Hv HD1) as [HD2 Hm2]. cbn [fst].
    split; [exact HD2|]. split; [eapply dmono_trans; eauto|].
    intros Hor. eapply NoEntry_mono; [exact Hm2|]. apply Hn1. destruct Hor as [->|Hn]; [|right; exact Hn].
    left. exists c. split; [|split; [reflexivity | apply ours_in_cons_c]].
    rewrite chain_c. right. left. reflexivity.
  Qed.

  Lemma children_delete_spec (G : id -> Prop) del x r0 : DelSpec del -> (r0 = R -> G x) ->
    forall cs cur flows cur' flows',
    (forall d, In d cs -> root_of sch (sd_name d) = r0) -> DInv G (fst cur) ->
    children_delete sch oc del x cs cur flows = Ok (cur', flows') ->
    DInv G (fst cur') /\ dmono (fst cur) (fst cur') /\
    ((Exists (fun d => sd_name d = c) cs \/ NoEntry x (fst cur)) -> NoEntry x (fst cur')).
  Proof.
    intros Hdel HG. induction cs as [|d cs IH]; intros cur flows cur' flows' Hcs HD H; cbn [children_delete] in H.
    - inversion H; subst. split; [exact HD|]. split; [apply dmono_refl|].
      intros [He|Hn]; [inversion He | exact Hn].
    - assert (forall d0, In d0 cs -> root_of sch (sd_name d0) = r0) as Hcs' by (intros; apply Hcs; right; assumption).
      destruct (loadable sch (fst cur) (sd_name d) x) eqn:El.
      + destruct cur as [st evs].
        destruct (process_delete sch oc del (st, evs) (sd_name d) x) as [[st1 evs1]|e] eqn:E1; cbn [bind] in H; [|discriminate].
        assert (root_of sch (sd_name d) = R -> G x) as HG1 by (intros Hr; apply HG; rewrite <- Hr; symmetry; apply Hcs; left; reflexivity).
        destruct (process_delete_spec G del x _ st evs st1 evs1 Hdel HG1 HD E1) as [HD1 [Hm1 Hn1]].
        destruct (IH (st1, evs1) _ cur' flows' Hcs' HD1 H) as [HD2 [Hm2 Hn2]]. cbn [fst] in *.
        split; [exact HD2|]. split; [eapply dmono_trans; eauto|].
        intros [He|Hn].
        * inversion He as [? ? Hk|? ? Hk]; subst.
          -- apply Hn2. right. apply Hn1. left. exact Hk.
          -- apply Hn2. left. exact Hk.
        * apply Hn2. right. apply Hn1. right. exact Hn.
      + destruct (IH cur _ cur' flows' Hcs' HD H) as [HD2 [Hm2 Hn2]].
        split; [exact HD2|]. split; [exact Hm2|].
        intros [He|Hn].
        * inversion He as [? ? Hk|? ? Hk]; subst.
          -- apply Hn2. right. eapply NoEntry_absent; [exact HD|].
             unfold loadable in El. rewrite Hk in El. apply orb_false_iff in El as [El _]. exact El.
          -- apply Hn2. left. exact Hk.
        * apply Hn2. right. exact Hn.
  Qed.

  Hypothesis Hchildren : forall r0 d, In d (children_of sch r0) -> root_of sch (sd_name d) = r0.
  Hypothesis Hcin : In cd (children_of sch R) /\ sd_name cd = c.

  Lemma del_ent_other_view st r0 i : r0 <> R -> same_view st (del_ent st r0 i).
  Proof.
    intros Hne. split; [reflexivity|]. split; intros j.
    - rewrite !cpres_ent, get_ent_del_ent.
      assert (str_eqb r0 R = false) as -> by (apply str_eqb_neq; exact Hne). reflexivity.
    - rewrite !cfbytes_ent, get_ent_del_ent.
      assert (str_eqb r0 R = false) as -> by (apply str_eqb_neq; exact Hne). reflexivity.
  Qed.

  Lemma cpres_del_ent st i j : cpres (del_ent st R i) j = if str_eqb i j then false else cpres st j.
  Proof.
    rewrite !cpres_ent, get_ent_del_ent, str_eqb_refl. cbn [andb]. destruct (str_eqb i j); reflexivity.
  Qed.

  Lemma cfbytes_del_ent_other st i j : i <> j -> cfbytes (del_ent st R i) j = cfbytes st j.
  Proof.
    intros Hne. rewrite !cfbytes_ent, get_ent_del_ent, str_eqb_refl. cbn [andb].
    assert (str_eqb i j = false) as -> by (apply str_eqb_neq; exact Hne). reflexivity.
  Qed.

  Lemma del_ent_spec (G G' : id -> Prop) st x :
    (forall i, G' i -> G i \/ i = x) -> DInv G' st -> NoEntry x st ->
    DInv G (del_ent st R x) /\ dmono st (del_ent st R x).
  Proof.
    intros Hsub [HS [HC HI]] Hn. change (cix (del_ent st R x)) with (cix st) in *. split; [split; [|split]|split].
    - intros v j Hg. change (cix (del_ent st R x)) with (cix st) in Hg.
      assert (j <> x) as Hj by (intros ->; exact (Hn v Hg)).
      destruct (HS v j Hg) as [A [B C]]. rewrite cpres_del_ent, cfbytes_del_ent_other by congruence.
      assert (str_eqb x j = false) as -> by (apply str_eqb_neq; congruence). tauto.
    - intros j Hp HG Hne. rewrite cpres_del_ent in Hp. destruct (str_eqb x j) eqn:E; [discriminate|].
      apply str_eqb_neq in E. rewrite cfbytes_del_ent_other in * by exact E.
      change (cix (del_ent st R x)) with (cix st). apply HC; [exact Hp | | exact Hne].
      intros Hg'. destruct (Hsub j Hg') as [Hg|Hg]; [exact (HG Hg) | congruence].
    - intros i j Hi Hj. rewrite cpres_del_ent in Hi, Hj.
      destruct (str_eqb x i) eqn:Ei; [discriminate|]. destruct (str_eqb x j) eqn:Ej; [discriminate|].
      apply str_eqb_neq in Ei, Ej. rewrite !cfbytes_del_ent_other by assumption. apply HI; assumption.
    - intros v i H. exact H.
    - intros i Hp. rewrite cpres_del_ent in Hp. destruct (str_eqb x i) eqn:E; [discriminate|].
      apply str_eqb_neq in E. split; [exact Hp | apply cfbytes_del_ent_other; exact E].
  Qed.

  Lemma delete_spec : forall n, DelSpec (delete_by_id sch oc n).
  Proof.
    induction n as [|n IH]; intros G stev s0 x stev' HD H; cbn [delete_by_id] in H; [discriminate|].
    destruct stev as [st evs]. cbn [fst] in *.
    set (r0 := root_of sch s0) in *.
    destruct (present sch st r0 x) eqn:Epx; cbn [negb] in H; [|discriminate].
    destruct (children_delete sch oc (delete_by_id sch oc n) x (children_of sch r0) (st, evs) []) as [[[st1 evs1] flows]|e] eqn:Ech;
      cbn [bind] in H; [|discriminate].
    set (G' := fun i => G i \/ (r0 = R /\ i = x)).
    assert (DInv G' st) as HD' by (eapply DInv_weaken; [|exact HD]; intros i Hg; left; exact Hg).
    assert (r0 = R -> G' x) as HG' by (intros Hr; right; split; [exact Hr | reflexivity]).
    destruct (children_delete_spec G' _ x r0 IH HG' _ (st, evs) [] (st1, evs1) flows (Hchildren r0) HD' Ech) as [HD1 [Hm1 Hn1]].
    cbn [fst] in *.
    destruct (present sch st1 r0 x) eqn:Epx1; cbn [negb] in H.
    - destruct (process_delete sch oc (delete_by_id sch oc n) (st1, evs1) r0 x) as [[st2 evs2]|e] eqn:Epd; cbn [bind] in H; [|discriminate].
      assert (root_of sch r0 = R -> G' x) as HG'' by (intros Hr; apply HG'; subst r0; rewrite Hroots in Hr; exact Hr).
      destruct (process_delete_spec G' _ x r0 st1 evs1 st2 evs2 IH HG'' HD1 Epd) as [HD2 [Hm2 Hn2]].
      cbn [fst snd] in H.
      destruct (fire (oc_vetoes oc) evs2 r0 Deleted x _) as [evs3|e]; cbn [bind] in H; [|discriminate].
      destruct (fire_flows oc x flows evs3) as [evs4|e]; cbn [bind] in H; [|discriminate].
      inversion H; subst stev'. clear H. cbn [fst].
      destruct (str_eq_dec r0 R) as [Hr|Hr].
      + assert (NoEntry x st2) as Hne.
        { apply Hn2. right. apply Hn1. left. rewrite Hr. apply Exists_exists. exists cd. exact Hcin. }
        rewrite Hr.
        destruct (del_ent_spec G G' st2 x) as [A B]; [|exact HD2|exact Hne|].
        * intros i [Hg|[_ ->]]; [left; exact Hg | right; reflexivity].
        * split; [exact A | eapply dmono_trans; [exact Hm1 | eapply dmono_trans; [exact Hm2 | exact B]]].
      + pose proof (del_ent_other_view st2 r0 x Hr) as Hv.
        assert (DInv G st2) as HDg by (eapply DInv_weaken; [|exact HD2]; intros i [Hg|[E _]]; [exact Hg | contradiction]).
        destruct (view_all G _ _ Hv HDg) as [A B].
        split; [exact A | eapply dmono_trans; [exact Hm1 | eapply dmono_trans; [exact Hm2 | exact B]]].
    - inversion H; subst stev'. clear H. cbn [fst]. split; [|exact Hm1].
      destruct HD1 as [HS [HC HI]]. split; [exact HS|]. split; [|exact HI].
      intros j Hp Hg Hne. apply HC; [exact Hp | | exact Hne].
      intros [Hg'|[Hr ->]]; [exact (Hg Hg')|].
      rewrite Hr, present_R in Epx1. rewrite cpres_ent in Hp.
      destruct (get_ent st1 R x); [discriminate | discriminate].
  Qed.

  Lemma run_op_inv fuel st evs o st' evs' :
    CUInv st -> run_op sch fuel oc (st, evs) o = Ok (st', evs') -> CUInv st'.
  Proof.
    intros HU H. destruct o as [s0 i sys fv sv|s0 i fv sv ch|s0 i|s0 i lf ts|s0 i lf ts|]; cbn [run_op] in H.
    - eapply op_create_inv; eauto.
    - eapply op_update_inv; eauto.
    - apply DInv_UInv. destruct (delete_spec fuel (fun _ => False) (st, evs) s0 i (st', evs')) as [A _];
        [apply UInv_DInv; exact HU | exact H | exact A].
    - cbn [fst snd] in H. destruct (op_add_links sch st s0 i lf ts) as [st1|e] eqn:E; cbn [bind] in H; [|discriminate].
      inversion H; subst. eapply UInv_view; [eapply op_add_links_view; eauto | exact HU].
    - cbn [fst snd] in H. destruct (op_remove_links sch st s0 i lf ts) as [st1|e] eqn:E; cbn [bind] in H; [|discriminate].
      inversion H; subst. eapply UInv_view; [eapply op_remove_links_view; eauto | exact HU].
    - discriminate.
  Qed.
End UniqueChild.

Section UniqueChildHistories.
  Variable sch : schema.
  Variable c f : name.
  Variable cd : sdef.
  Hypothesis Hchild : is_child sch c = true.
  Hypothesis Hcd : find_store sch c = Some cd.
  Hypothesis Hdf : declares_field cd f = true.
  Hypothesis HRroot : is_child sch (root_of sch c) = false.
  Hypothesis HRdecl : find_store sch (root_of sch c) <> None.
  Hypothesis Hroots : forall x, root_of sch (root_of sch x) = root_of sch x.
  Hypothesis Hown : forall s' nl, root_of sch s' = root_of sch c -> In (CUnique f nl) (cons_of sch s') -> s' = c.
  Hypothesis Honce : exists nl pre post,
    cons_of sch c = pre ++ CUnique f nl :: post /\ Forall (fun k => ~ is_ours f k) pre /\ Forall (fun k => ~ is_ours f k) post.
  Hypothesis Hchildren : forall r0 d, In d (children_of sch r0) -> root_of sch (sd_name d) = r0.
  Hypothesis Hcin : In cd (children_of sch (root_of sch c)) /\ sd_name cd = c.

  Lemma crun_ops_inv fuel oc : forall ops st evs rs st' evs',
    CUInv sch c f st -> run_ops sch fuel oc (st, evs) ops = (rs, Ok (st', evs')) -> CUInv sch c f st'.
  Proof.
    induction ops as [|o ops IH]; intros st evs rs st' evs' HU H; cbn [run_ops] in H.
    - inversion H; subst. exact HU.
    - destruct (run_op sch fuel oc (st, evs) o) as [[st1 evs1]|e] eqn:E1; [|inversion H].
      destruct (run_ops sch fuel oc (st1, evs1) ops) as [rs1 fin] eqn:E2. inversion H; subst.
      eapply IH; [|exact E2].
      eapply (run_op_inv sch c f cd Hchild Hcd Hdf HRroot HRdecl Hroots Hown Honce oc Hchildren Hcin); eauto.
  Qed.

  Lemma crun_tx_inv fuel st t : CUInv sch c f st ->
    CUInv sch c f (match run_tx sch fuel st t with (_, _, st', _) => st' end).
  Proof.
    intros HU. unfold run_tx.
    destruct (run_ops sch fuel _ (st, []) (tx_ops t)) as [rs fin] eqn:E. destruct fin as [[st1 evs1]|e]; [|exact HU].
    destruct (tx_precommit_fails t); [exact HU|]. eapply crun_ops_inv; eauto.
  Qed.

  Lemma crun_txs_inv fuel : forall ts st, CUInv sch c f st -> CUInv sch c f (run_txs sch fuel st ts).
  Proof.
    unfold run_txs. induction ts as [|t ts IH]; intros st HU; cbn [fold_left]; [exact HU|].
    apply IH. apply crun_tx_inv. exact HU.
  Qed.

  Lemma CUInv_empty : CUInv sch c f st_empty.
  Proof.
    split.
    - intros v i H. cbn in H. discriminate.
    - intros i H. unfold cpres, present in H. cbn in H. discriminate.
  Qed.

  (* the index of the child store's unique constraint mirrors the child data in every reachable state *)
  Lemma child_unique_index_mirrors_lemma fuel ts :
    let st := run_txs sch fuel st_empty ts in
    forall v i, al_get v (uidx st (root_of sch c) f) = Some i <->
                (nonempty v = true /\ present sch st c i = true /\ fv_bytes (get_field sch st c i f) = v).
  Proof.
    intros st v i. destruct (crun_txs_inv fuel ts st_empty CUInv_empty) as [HS HC]. fold st in HS, HC. split.
    - apply HS.
    - intros [Hn [Hp Hf]]. specialize (HC i Hp (fun x => x)). unfold cfbytes in HC. rewrite Hf in HC. apply HC. exact Hn.
  Qed.
End UniqueChildHistories.
