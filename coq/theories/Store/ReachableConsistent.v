(* Capstone of the store family: every database reached through the API is consistent in the sense of the
   integrity checker (Store/IntegrityProofs.v: [Consistent] = for every CheckIntegrity job of the schema the
   predicate [job_cons]).  The per-family invariants are bridged to the per-job predicates:

     job                         predicate   from
     JCons s (CUnique f nl)      UCons       root store : UniqueProofs (mirror)           + NonNullProofs (UNN)
                                             child store: UniqueChildProofs (mirror)      + NonNullProofs (UNN)
     JCons s (CSetIdx f)         SCons       SetIdxProofs (mirror, no empty keys)
     JCons s (CFkIndex f t b nl) FICons      FkProofs (back-references sound + exact, targets exist) + NonNullProofs (FNN)
     JCons s (CFkCons f t nl)    FCCons      FkProofs (targets exist)                     + NonNullProofs (CNN)
     JLink s (lf, os, of_)       LGood       NoTraceProofs (links symmetric; a listed id is an entity)

   under the boolean check [wf_all_b] = wf_notrace_b (the global C06 check) and, for every job of the schema,
   the family's own check (wf_unique_b / wf_cunique_b / wf_setidx_b / wf_fk_b). *)
From Coq Require Import List NArith Bool Lia Arith.
From Storage Require Import Base.Bytes Base.BytesFacts Store.Model Store.AListFacts Store.FrameProofs.
From Storage Require Import Store.UniqueProofs Store.WfSchema Store.SetIdxProofs Store.WfSetIdx.
From Storage Require Import Store.FkProofs Store.FkDelete Store.FkWf.
From Storage Require Import Store.NoTrace Store.NoTraceFacts Store.NoTraceInv Store.NoTraceWrite Store.NoTraceWf Store.NoTraceProofs.
From Storage Require Import Store.NonNullProofs Store.UniqueChildProofs.
From Storage Require Import Store.Integrity Store.IntegrityUnique Store.IntegritySet Store.IntegrityFk Store.IntegrityLinks
  Store.IntegrityProofs.
Import ListNotations.

(* ---------------------------------------------------------------- the check of a child store's unique index *)
(* c is a child store of a declared root store, f is a field c declares itself, store names are unique, parents
   are roots, among the stores of the family only c carries the unique index on f, exactly once *)
Definition wf_cunique_b (sch : schema) (c f : name) : bool :=
  is_child sch c && negb (is_child sch (root_of sch c)) &&
  match find_store sch c with Some d => declares_field d f | None => false end &&
  match find_store sch (root_of sch c) with Some _ => true | None => false end &&
  nodupb (map sd_name sch) && wf_parents sch &&
  forallb (fun d => if str_eqb (root_of sch (sd_name d)) (root_of sch c) && existsb (is_unique_on f) (sd_cons d)
                    then str_eqb (sd_name d) c else true) sch &&
  Nat.eqb (length (filter (is_unique_on f) (cons_of sch c))) 1.

Definition CUniqueWf (sch : schema) (c f : name) : Prop :=
  exists cd,
    is_child sch c = true /\ find_store sch c = Some cd /\ declares_field cd f = true /\
    is_child sch (root_of sch c) = false /\ find_store sch (root_of sch c) <> None /\
    (forall x, root_of sch (root_of sch x) = root_of sch x) /\
    (forall s' nl, root_of sch s' = root_of sch c -> In (CUnique f nl) (cons_of sch s') -> s' = c) /\
    (exists nl pre post, cons_of sch c = pre ++ CUnique f nl :: post /\
         Forall (fun k => ~ is_ours f k) pre /\ Forall (fun k => ~ is_ours f k) post) /\
    (forall r0 d, In d (children_of sch r0) -> root_of sch (sd_name d) = r0) /\
    (In cd (children_of sch (root_of sch c)) /\ sd_name cd = c).

Theorem wf_cunique_b_sound sch c f : wf_cunique_b sch c f = true -> CUniqueWf sch c f.
Proof.
  unfold wf_cunique_b. intros H.
  apply andb_prop in H as [H H8]. apply andb_prop in H as [H H7]. apply andb_prop in H as [H H6].
  apply andb_prop in H as [H H5]. apply andb_prop in H as [H H4]. apply andb_prop in H as [H H3].
  apply andb_prop in H as [H1 H2]. apply negb_true_iff in H2.
  destruct (find_store sch c) as [cd|] eqn:Ecd; [|discriminate].
  destruct (wf_stores_b_sound sch) as [Hroots [_ Hchildren]]; [unfold wf_stores_b; rewrite H5, H6; reflexivity|].
  exists cd. split; [exact H1|]. split; [exact Ecd|]. split; [exact H3|]. split; [exact H2|].
  split; [destruct (find_store sch (root_of sch c)); [discriminate | discriminate]|].
  split; [exact Hroots|]. split; [|split; [|split; [exact Hchildren|]]].
  - intros s' nl Hr Hin. unfold cons_of in Hin. destruct (find_store sch s') as [d|] eqn:Ef; [|contradiction].
    destruct (find_store_in _ _ _ Ef) as [Hd Hn]. rewrite forallb_forall in H7. specialize (H7 d Hd).
    rewrite Hn, Hr, str_eqb_refl in H7. cbn [andb] in H7.
    assert (existsb (is_unique_on f) (sd_cons d) = true) as He.
    { apply existsb_exists. exists (CUnique f nl). split; [exact Hin | cbn; apply str_eqb_refl]. }
    rewrite He in H7. apply str_eqb_eq in H7. exact H7.
  - apply Nat.eqb_eq in H8. destruct (filter_one_split _ _ H8) as [pre [x [post [Hc [Hx [Hpre Hpost]]]]]].
    apply is_unique_on_spec in Hx. destruct Hx as [nl ->]. exists nl, pre, post. split; [exact Hc|].
    split; eapply Forall_impl; try eassumption; intros k Hk Ho; apply is_unique_on_spec in Ho; congruence.
  - destruct (find_store_in _ _ _ Ecd) as [Hin Hn]. split; [|exact Hn].
    unfold children_of. apply filter_In. split; [exact Hin|].
    unfold is_child in H1. unfold root_of. rewrite Ecd in *.
    destruct (sd_parent cd) as [p|]; [apply str_eqb_refl | discriminate].
Qed.

(* ---------------------------------------------------------------- the check of the whole schema *)
Definition wf_job_b (sch : schema) (j : job) : bool :=
  match j with
  | JLink s (_, os, _) => is_rootb sch s && is_rootb sch os   (* link collections between root stores; symmetry etc.: wf_notrace_b
                                                                  (which since the C06 child-level generalisation also accepts child stores) *)
  | JCons s (CUnique f _) => if is_child sch s then wf_cunique_b sch s f else wf_unique_b sch s f
  | JCons s (CSetIdx f) => wf_setidx_b sch s f
  | JCons s (CFkIndex f t b _) => wf_fk_b sch s f t (Some b)
  | JCons s (CFkCons f t _) => wf_fk_b sch s f t None
  | JCons _ _ => true
  end.

Definition wf_all_b (sch : schema) : bool := wf_notrace_b sch && forallb (wf_job_b sch) (jobs sch).

(* what the boolean check establishes, family by family *)
Definition job_hyp (sch : schema) (j : job) : Prop :=
  match j with
  | JLink s (lf, os, of_) => isroot sch s /\ isroot sch os /\ In (of_, s, lf) (NoTrace.links_of sch os)
  | JCons s (CUnique f _) =>
      if is_child sch s then CUniqueWf sch s f
      else (forall x, root_of sch (root_of sch x) = root_of sch x) /\
           (forall s' nl, root_of sch s' = s -> In (CUnique f nl) (cons_of sch s') -> s' = s) /\
           (exists nl pre post, cons_of sch s = pre ++ CUnique f nl :: post /\
                Forall (fun k => ~ is_ours f k) pre /\ Forall (fun k => ~ is_ours f k) post) /\
           (forall r0 d, In d (children_of sch r0) -> root_of sch (sd_name d) = r0)
  | JCons s (CSetIdx f) =>
      is_child sch s = false /\
      (forall x, root_of sch (root_of sch x) = root_of sch x) /\
      (forall s', root_of sch s' = s -> In (CSetIdx f) (cons_of sch s') -> s' = s) /\
      (forall s' f0 t b nl, In (CFkIndex f0 t b nl) (cons_of sch s') -> ~ (root_of sch t = s /\ b = f)) /\
      (forall s' d lf os of_, find_store sch s' = Some d -> In (lf, os, of_) (sd_links d) ->
          ~ (root_of sch s' = s /\ lf = f) /\ ~ (root_of sch os = s /\ of_ = f)) /\
      (exists pre post, cons_of sch s = pre ++ CSetIdx f :: post /\ ~ In (CSetIdx f) pre /\ ~ In (CSetIdx f) post) /\
      (forall r0 d, In d (children_of sch r0) -> root_of sch (sd_name d) = r0)
  | JCons s (CFkIndex f t b _) => FkWf sch s f t (Some b)
  | JCons s (CFkCons f t _) => FkWf sch s f t None
  | JCons _ _ => True
  end.

Lemma links_of_same sch s : NoTrace.links_of sch s = IntegrityProofs.links_of sch s.
Proof. reflexivity. Qed.

Lemma wf_all_b_split sch : wf_all_b sch = true ->
  wf_notrace_b sch = true /\ forall j, In j (jobs sch) -> wf_job_b sch j = true.
Proof.
  unfold wf_all_b. intros H. apply andb_prop in H as [H1 H2]. split; [exact H1|].
  rewrite forallb_forall in H2. exact H2.
Qed.

Lemma job_in_schema sch j : In j (jobs sch) ->
  match j with
  | JLink s l => In l (IntegrityProofs.links_of sch s)
  | JCons s k => In k (cons_of sch s)
  end.
Proof.
  intros H. apply in_jobs in H as [d [_ H]]. destruct j as [s l|s k]; destruct H as [_ H]; exact H.
Qed.

Theorem wf_all_b_sound sch : wf_all_b sch = true ->
  wfprops sch /\ forall j, In j (jobs sch) -> job_hyp sch j.
Proof.
  intros H. destruct (wf_all_b_split sch H) as [Hnt Hjobs].
  pose proof (wf_notrace_b_sound sch Hnt) as W. split; [exact W|].
  intros j Hj. specialize (Hjobs j Hj). pose proof (job_in_schema sch j Hj) as Hin.
  destruct j as [s [[lf os] of_]|s k]; cbn [job_hyp wf_job_b] in *.
  - rewrite <- links_of_same in Hin. apply andb_prop in Hjobs as [A B].
    apply is_rootb_root in A. apply is_rootb_root in B. destruct A as [A1 A2]. destruct B as [B1 B2].
    split; [split; assumption|]. split; [split; assumption|]. apply (wp_link_sym sch W _ _ _ _ Hin).
  - destruct k as [f nl|f|f t b nl|b|f t nl|rs f cs|]; try exact I.
    + destruct (is_child sch s); [apply wf_cunique_b_sound; exact Hjobs | apply (proj2 (wf_unique_b_sound sch s f Hjobs))].
    + apply wf_setidx_b_sound. exact Hjobs.
    + apply wf_fk_b_sound. exact Hjobs.
    + apply wf_fk_b_sound. exact Hjobs.
Qed.

(* ---------------------------------------------------------------- the bridges, on reachable states *)
Section Reachable.
  Variable sch : schema.
  Variable fuel : nat.
  Variable txs : list tx.
  Local Notation st := (run_txs sch fuel st_empty txs).

  (* unique index of a root store *)
  Lemma reach_unique_root s f nl :
    job_hyp sch (JCons s (CUnique f nl)) -> is_child sch s = false -> In (CUnique f nl) (cons_of sch s) ->
    UCons sch s f nl st.
  Proof.
    intros Hh Hc Hin. cbn [job_hyp] in Hh. rewrite Hc in Hh. destruct Hh as [H2 [H3 [H4 H5]]]. pose proof Hc as H1.
    pose proof (unique_index_mirrors_lemma sch s f H1 H2 H3 H4 H5 fuel txs) as M. cbn zeta in M.
    pose proof (not_child_root sch s H1) as Hr.
    split; [|split].
    - intros v i Hg. rewrite Hr in Hg. apply M in Hg. unfold ufb. tauto.
    - intros i Hp Hn. rewrite Hr. apply M. unfold ufb in *. auto.
    - intros -> i Hp. unfold ufb.
      apply (nonnull_reachable sch s f (CUnique f false) (or_introl eq_refl) Hin); [|exact Hp].
      intros Hc'. congruence.
  Qed.

  (* unique index of a child store *)
  Lemma reach_unique_child c f nl :
    job_hyp sch (JCons c (CUnique f nl)) -> is_child sch c = true -> In (CUnique f nl) (cons_of sch c) ->
    UCons sch c f nl st.
  Proof.
    intros Hh Hc Hin. cbn [job_hyp] in Hh. rewrite Hc in Hh.
    destruct Hh as [cd [H1 [H2 [H3 [H4 [H5 [H6 [H7 [H8 [H9 H10]]]]]]]]]].
    pose proof (child_unique_index_mirrors_lemma sch c f cd H1 H2 H3 H4 H5 H6 H7 H8 H9 H10 fuel txs) as M. cbn zeta in M.
    split; [|split].
    - intros v i Hg. apply M in Hg. unfold ufb. tauto.
    - intros i Hp Hn. apply M. unfold ufb in *. auto.
    - intros -> i Hp. unfold ufb.
      apply (nonnull_reachable sch c f (CUnique f false) (or_introl eq_refl) Hin); [|exact Hp].
      intros _. exists cd. split; assumption.
  Qed.

  (* set index *)
  Lemma reach_setidx s f : job_hyp sch (JCons s (CSetIdx f)) -> SCons sch s f st.
  Proof.
    intros Hh. cbn [job_hyp] in Hh. destruct Hh as [H1 [H2 [H3 [H4 [H5 [H6 H7]]]]]].
    pose proof (set_index_mirrors_lemma sch s f H1 H2 H3 H4 H5 H6 H7 fuel txs) as M. cbn zeta in M.
    pose proof (no_empty_index_keys_lemma sch s f H1 H2 H3 H4 H5 H6 H7 fuel txs) as N. cbn zeta in N.
    pose proof (not_child_root sch s H1) as Hr.
    split.
    - intros v l Hb. unfold IntegritySet.sbucket in Hb. rewrite Hr in Hb. split; [apply (N v l Hb)|].
      intros i Hi. unfold sgood. apply (M v i). rewrite Hb. exact Hi.
    - intros i Hp v Hv. unfold sidx_ids. rewrite Hr. apply (M v i). split; assumption.
  Qed.

  (* fk index *)
  Lemma reach_fkindex s f t b nl :
    job_hyp sch (JCons s (CFkIndex f t b nl)) -> In (CFkIndex f t b nl) (cons_of sch s) ->
    FICons sch s f t b nl st.
  Proof.
    intros Hh Hin. cbn [job_hyp] in Hh.
    pose proof (backrefs_sound_lemma sch s f t b fuel txs Hh) as S. cbn zeta in S.
    pose proof (backrefs_exact_lemma sch s f t b fuel txs Hh) as E. cbn zeta in E.
    pose proof (fk_target_exists_lemma sch s f t (Some b) Hh fuel txs) as T. cbn zeta in T.
    split; [|split; [|split]].
    - intros ti Hpt x Hx. unfold brefs in Hx. destruct (S ti x Hx) as [A [B [_ D]]].
      unfold bgood, fkey. rewrite B. auto.
    - intros i Hp Hn _. unfold brefs, fkey in *. apply E; [exact Hn | split; [exact Hp | reflexivity]].
    - intros i Hp Hn. unfold fkey in *. apply T; assumption.
    - intros -> i Hp. unfold fkey.
      apply (nonnull_reachable sch s f (CFkIndex f t b false)); [right; left; exists t, b; reflexivity | exact Hin | | exact Hp].
      intros Hc'. destruct Hh as [Hs _]. congruence.
  Qed.

  (* fk constraint *)
  Lemma reach_fkcons s f t nl :
    job_hyp sch (JCons s (CFkCons f t nl)) -> In (CFkCons f t nl) (cons_of sch s) ->
    FCCons sch s f t nl st.
  Proof.
    intros Hh Hin. cbn [job_hyp] in Hh.
    pose proof (fk_target_exists_lemma sch s f t None Hh fuel txs) as T. cbn zeta in T.
    split.
    - intros i Hp Hn. unfold fkey in *. apply T; assumption.
    - intros -> i Hp. unfold fkey.
      apply (nonnull_reachable sch s f (CFkCons f t false)); [right; right; exists t; reflexivity | exact Hin | | exact Hp].
      intros Hc'. destruct Hh as [Hs _]. congruence.
  Qed.

  (* link collection: every link of a present entity points to a present entity that links back *)
  Lemma reach_link s lf os of_ :
    wf_notrace_b sch = true -> job_hyp sch (JLink s (lf, os, of_)) -> In (lf, os, of_) (IntegrityProofs.links_of sch s) ->
    LGood sch s lf os of_ st.
  Proof.
    intros Hnt Hh Hin. cbn [job_hyp] in Hh. destruct Hh as [[Hcs Hrs] [[Hco Hro] _]].
    rewrite <- links_of_same in Hin.
    intros i Hpi x Hx. unfold lset, get_set in Hx. rewrite Hrs in Hx.
    assert (In x (eset st (root_of sch s) i lf)) as Hx' by (rewrite Hrs; exact Hx).
    apply (proj1 (proj1 (final_links_symmetric sch Hnt fuel txs s lf os of_ i x Hin))) in Hx'. rewrite Hro in Hx'.
    unfold eset in Hx'. unfold oset, get_set, present. rewrite Hro, Hco.
    destruct (get_ent st os x) as [e|]; [|destruct Hx']. split; [reflexivity | exact Hx'].
  Qed.
End Reachable.

(* ---------------------------------------------------------------- the capstone *)
Theorem reachable_consistent_lemma sch fuel (txs : list tx) :
  wf_all_b sch = true -> Consistent sch (run_txs sch fuel st_empty txs).
Proof.
  intros Hwf. destruct (wf_all_b_split sch Hwf) as [Hnt _]. destruct (wf_all_b_sound sch Hwf) as [_ Hh].
  intros j Hj. specialize (Hh j Hj). pose proof (job_in_schema sch j Hj) as Hin.
  destruct j as [s [[lf os] of_]|s k]; cbn [job_cons].
  - apply reach_link; assumption.
  - destruct k as [f nl|f|f t b nl|b|f t nl|rs f cs|]; try exact I.
    + destruct (is_child sch s) eqn:Ec; [apply reach_unique_child | apply reach_unique_root]; assumption.
    + apply reach_setidx; assumption.
    + apply reach_fkindex; assumption.
    + apply reach_fkcons; assumption.
Qed.

Theorem reachable_check_clean_lemma sch fuel (txs : list tx) :
  wf_all_b sch = true -> fst (check_all sch false (run_txs sch fuel st_empty txs)) = [].
Proof. intros Hwf. apply check_sound_lemma. apply reachable_consistent_lemma. exact Hwf. Qed.

(* ... and, being read-only, leaves it as it is *)
Theorem reachable_check_invisible_lemma sch fuel (txs : list tx) :
  wf_all_b sch = true ->
  check_all sch false (run_txs sch fuel st_empty txs) = ([], run_txs sch fuel st_empty txs).
Proof.
  intros Hwf. rewrite (surjective_pairing (check_all sch false (run_txs sch fuel st_empty txs))).
  rewrite (reachable_check_clean_lemma sch fuel txs Hwf), check_readonly_lemma. reflexivity.
Qed.

(* the consistency of reachable states is an invariant family by family: a transaction started in ANY state
   satisfying the five family invariants ends in such a state; stated for the capstone as: the set of
   consistent-and-reachable states is closed under run_tx *)
Corollary reachable_step_consistent_lemma sch fuel (txs : list tx) (t : tx) :
  wf_all_b sch = true ->
  Consistent sch (match run_tx sch fuel (run_txs sch fuel st_empty txs) t with (_, _, st', _) => st' end).
Proof.
  intros Hwf.
  assert (run_txs sch fuel st_empty (txs ++ [t]) =
          match run_tx sch fuel (run_txs sch fuel st_empty txs) t with (_, _, st', _) => st' end) as E.
  { unfold run_txs. rewrite fold_left_app. reflexivity. }
  rewrite <- E. apply reachable_consistent_lemma. exact Hwf.
Qed.
