(* A boolean well-formedness check of a schema around a unique index (s, f), and the proof that it
   implies the hypotheses of the invariant theorems - so that the theorems apply to concrete
   schemas (e.g. the wirings of the harness) by computation. *)
From Coq Require Import List NArith Bool Lia Arith.
From Storage Require Import Base.Bytes Base.BytesFacts Store.Model Store.AListFacts Store.UniqueProofs.
Import ListNotations.

Fixpoint nodupb (l : list str) : bool :=
  match l with
  | [] => true
  | x :: r => negb (ss_mem x r) && nodupb r
  end.

Definition is_unique_on (f : name) (k : cons) : bool :=
  match k with CUnique f' _ => str_eqb f' f | _ => false end.

Definition wf_parents (sch : schema) : bool :=
  forallb (fun d => match sd_parent d with Some p => negb (is_child sch p) | None => true end) sch.

Definition wf_unique_b (sch : schema) (s f : name) : bool :=
  negb (is_child sch s) && nodupb (map sd_name sch) && wf_parents sch &&
  forallb (fun d => if str_eqb (root_of sch (sd_name d)) s && existsb (is_unique_on f) (sd_cons d)
                    then str_eqb (sd_name d) s else true) sch &&
  Nat.eqb (length (filter (is_unique_on f) (cons_of sch s))) 1.

Lemma find_store_in sch x d : find_store sch x = Some d -> In d sch /\ sd_name d = x.
Proof.
  induction sch as [|d0 sch IH]; cbn; [discriminate|].
  destruct (str_eqb (sd_name d0) x) eqn:E.
  - intros H; inversion H; subst. apply str_eqb_eq in E. split; [left; reflexivity | exact E].
  - intros H. destruct (IH H) as [A B]. split; [right; exact A | exact B].
Qed.

Lemma find_store_nodup sch d : nodupb (map sd_name sch) = true -> In d sch -> find_store sch (sd_name d) = Some d.
Proof.
  induction sch as [|d0 sch IH]; cbn; intros Hn Hin; [contradiction|].
  apply andb_prop in Hn as [Hn1 Hn2]. destruct Hin as [->|Hin].
  - rewrite str_eqb_refl. reflexivity.
  - destruct (str_eqb (sd_name d0) (sd_name d)) eqn:E.
    + apply str_eqb_eq in E. exfalso. apply negb_true_iff in Hn1.
      assert (ss_mem (sd_name d0) (map sd_name sch) = true) as Hm.
      { apply ss_mem_in. rewrite E. apply in_map. exact Hin. }
      congruence.
    + apply IH; assumption.
Qed.

Lemma is_unique_on_spec f k : is_unique_on f k = true <-> is_ours f k.
Proof.
  unfold is_ours. destruct k; cbn; split; intros H; try discriminate; try (destruct H as [nl H]; discriminate).
  - apply str_eqb_eq in H. subst. eexists; reflexivity.
  - destruct H as [nl0 H]. inversion H; subst. apply str_eqb_refl.
Qed.

Lemma filter_one_split {A} (p : A -> bool) (l : list A) :
  length (filter p l) = 1%nat ->
  exists pre x post, l = pre ++ x :: post /\ p x = true /\ Forall (fun y => p y = false) pre /\ Forall (fun y => p y = false) post.
Proof.
  induction l as [|a l IH]; cbn; [discriminate|].
  destruct (p a) eqn:E; cbn; intros H.
  - exists [], a, l. split; [reflexivity|]. split; [exact E|]. split; [constructor|].
    apply Forall_forall. intros y Hy. destruct (p y) eqn:Ey; [|reflexivity].
    exfalso. assert (In y (filter p l)) as Hf by (apply filter_In; split; assumption).
    destruct (filter p l); [contradiction | cbn in H; lia].
  - destruct (IH H) as [pre [x [post [-> [Hx [Hpre Hpost]]]]]]. exists (a :: pre), x, post.
    split; [reflexivity|]. split; [exact Hx|]. split; [constructor; assumption | exact Hpost].
Qed.

Theorem wf_unique_b_sound sch s f : wf_unique_b sch s f = true ->
  is_child sch s = false /\
  (forall x, root_of sch (root_of sch x) = root_of sch x) /\
  (forall s' nl, root_of sch s' = s -> In (CUnique f nl) (cons_of sch s') -> s' = s) /\
  (exists nl pre post, cons_of sch s = pre ++ CUnique f nl :: post /\
       Forall (fun k => ~ is_ours f k) pre /\ Forall (fun k => ~ is_ours f k) post) /\
  (forall r0 d, In d (children_of sch r0) -> root_of sch (sd_name d) = r0).
Proof.
  unfold wf_unique_b. intros H.
  apply andb_prop in H as [H H5]. apply andb_prop in H as [H H4]. apply andb_prop in H as [H H3].
  apply andb_prop in H as [H1 H2]. apply negb_true_iff in H1.
  split; [exact H1|]. split; [|split; [|split]].
  - (* roots *)
    assert (Hnc : forall p, is_child sch p = false -> root_of sch p = p).
    { intros p Hp. unfold is_child in Hp. unfold root_of. destruct (find_store sch p) as [dp|]; [|reflexivity].
      destruct (sd_parent dp); [discriminate | reflexivity]. }
    intros x. destruct (find_store sch x) as [d|] eqn:Ef.
    + destruct (sd_parent d) as [p|] eqn:Ep.
      * assert (root_of sch x = p) as Hx by (unfold root_of; rewrite Ef, Ep; reflexivity).
        rewrite Hx. apply Hnc. destruct (find_store_in _ _ _ Ef) as [Hin _].
        unfold wf_parents in H3. rewrite forallb_forall in H3. specialize (H3 d Hin). rewrite Ep in H3.
        apply negb_true_iff in H3. exact H3.
      * assert (root_of sch x = x) as Hx by (unfold root_of; rewrite Ef, Ep; reflexivity).
        rewrite Hx. exact Hx.
    + assert (root_of sch x = x) as Hx by (unfold root_of; rewrite Ef; reflexivity).
      rewrite Hx. exact Hx.
  - (* own *)
    intros s' nl Hr Hin. unfold cons_of in Hin. destruct (find_store sch s') as [d|] eqn:Ef; [|contradiction].
    destruct (find_store_in _ _ _ Ef) as [Hd Hn]. rewrite forallb_forall in H4. specialize (H4 d Hd).
    rewrite Hn, Hr, str_eqb_refl in H4. cbn [andb] in H4.
    assert (existsb (is_unique_on f) (sd_cons d) = true) as He.
    { apply existsb_exists. exists (CUnique f nl). split; [exact Hin | cbn; apply str_eqb_refl]. }
    rewrite He in H4. apply str_eqb_eq in H4. exact H4.
  - (* once *)
    apply Nat.eqb_eq in H5. destruct (filter_one_split _ _ H5) as [pre [x [post [Hc [Hx [Hpre Hpost]]]]]].
    apply is_unique_on_spec in Hx. destruct Hx as [nl ->]. exists nl, pre, post. split; [exact Hc|].
    split; eapply Forall_impl; try eassumption; intros k Hk Ho; apply is_unique_on_spec in Ho; congruence.
  - (* children *)
    intros r0 d Hin. unfold children_of in Hin. apply filter_In in Hin as [Hin Hp].
    destruct (sd_parent d) as [p|] eqn:Ep; [|discriminate]. apply str_eqb_eq in Hp. subst p.
    unfold root_of. rewrite (find_store_nodup _ _ H2 Hin), Ep. reflexivity.
Qed.
