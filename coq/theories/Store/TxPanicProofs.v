(* C07, sixth strengthening - a step that PANICS ends the transaction like a step that returns an error: proofs about
   Store/TxPanic.v.  The panic machine ptx_update and the C07 machine with all hooks (Store/TxQuiet.v ctx_update_q) run
   on the same program - every panicking step replaced by a failing one ([erase]) - agree on everything C07 talks
   about, however the rejections of the store operations surface ([surf]) and whichever actions panic. *)
From Coq Require Import List NArith Bool Arith.
From Storage Require Import Base.Bytes Store.Model Store.XOps Store.Events Store.TxCtx Store.TxCtxProofs
  Store.TxQuiet Store.TxQuietProofs Store.TxPanic.
Import ListNotations.

Definition is_some {A} (o : option A) : bool := match o with Some _ => true | None => false end.

(* how the two interpreters of the function end *)
Definition fin_agree (pf : pfin) (cf : res st_ev) : Prop :=
  match pf, cf with
  | PFOk s, Ok s' => s = s'
  | PFErr _, Err _ => True
  | PFPanic, Err _ => True
  | _, _ => False
  end.

Lemma run_xop_fail sch fuel oc stev : run_xop sch fuel oc stev (XBase OFail) = Err EOther.
Proof. reflexivity. Qed.

(* the function: same registrations, same number of results and the same ones failed, same end *)
Lemma run_pitems_erase sch fuel oc c0 surf : forall l n h stev,
  let '(rs, fin, h1) := run_pitems sch fuel oc c0 surf n l h stev in
  let '(rs', fin', h1') := run_citems sch fuel oc c0 (map erase_item l) h stev in
  h1 = h1' /\ map pr_failed rs = map is_some rs' /\ fin_agree fin fin'.
Proof.
  induction l as [|it r IH]; intros n h stev.
  - cbn. auto.
  - destruct it as [[x|p a]|j|x].
    + cbn [run_pitems map erase_item run_citems].
      destruct (run_xop sch fuel oc stev x) as [stev1|k].
      * specialize (IH (S n) h stev1).
        destruct (run_pitems sch fuel oc c0 surf (S n) r h stev1) as [[rs fin] h1].
        destruct (run_citems sch fuel oc c0 (map erase_item r) h stev1) as [[rs' fin'] h1'].
        destruct IH as (Hh & Hr & Hf). cbn. rewrite Hr. auto.
      * destruct (surf n k); cbn; auto.
    + cbn [run_pitems map erase_item run_citems]. apply IH.
    + cbn. auto.
    + cbn [run_pitems map erase_item run_citems]. rewrite run_xop_fail.
      destruct (run_xop sch fuel oc stev x) as [stev1|k]; [cbn; auto|].
      destruct (surf n k); cbn; auto.
Qed.

Lemma run_pre_p_ok panics : forall l, (run_pre_p panics l = PreOk) <-> run_pre_ok l = true.
Proof.
  induction l as [|[k f] r IH]; cbn; [tauto|].
  destruct f; [|exact IH]. destruct (panics k); split; discriminate.
Qed.

(* THE equivalence.  For every way [surf] in which rejections surface and every set of panicking actions: the caller
   gets nil exactly when the erased program commits; final database, context objects, the handlers bbolt ran, and which
   results are failures coincide. *)
Lemma panic_is_failure_lemma sch fuel st sys vetoes surf pp :
  let o := ptx_update sch fuel st sys vetoes surf pp in
  let q := ctx_update_q sch fuel st sys vetoes (erase pp) in
  (p_caller o = CNil <-> q_committed q = true) /\
  p_state o = q_state q /\ p_fired o = q_fired q /\ p_heap o = q_heap q /\
  map pr_failed (p_results o) = map is_some (q_results q).
Proof.
  unfold ptx_update, ctx_update_q.
  pose proof (run_pitems_erase sch fuel (mkOctx sys vetoes) (opened_ctx (erase pp)) surf (pp_body pp) 0
                (heap_before (erase pp)) (st, [])) as H.
  change (cp_body (erase pp)) with (map erase_item (pp_body pp)).
  destruct (run_pitems sch fuel (mkOctx sys vetoes) (opened_ctx (erase pp)) surf 0 (pp_body pp) (heap_before (erase pp)) (st, []))
    as [[rs fin] h1].
  destruct (run_citems sch fuel (mkOctx sys vetoes) (opened_ctx (erase pp)) (map erase_item (pp_body pp)) (heap_before (erase pp)) (st, []))
    as [[rs' fin'] h1'].
  destruct H as (Hh & Hr & Hf). subst h1'.
  destruct fin as [[st' evs]| |]; destruct fin' as [[st2 evs2]|k2]; cbn in Hf; try contradiction.
  - inversion Hf; subst st2 evs2.
    pose proof (run_pre_p_ok (pp_pre_panics pp) (pre_actions_of (opened_ctx (erase pp)) h1)) as Hp.
    destruct (run_pre_p (pp_pre_panics pp) (pre_actions_of (opened_ctx (erase pp)) h1)) eqn:E1;
      destruct (run_pre_ok (pre_actions_of (opened_ctx (erase pp)) h1)) eqn:E2; cbn.
    all: try (exfalso; destruct Hp as [Hp1 Hp2]; (specialize (Hp1 eq_refl) || specialize (Hp2 eq_refl)); discriminate).
    all: repeat split; auto; discriminate.
  - cbn. repeat split; auto; discriminate.
  - cbn. repeat split; auto; discriminate.
Qed.

Lemma p_qobs_of sch fuel st sys vetoes surf pp :
  let o := ptx_update sch fuel st sys vetoes surf pp in
  let q := ctx_update_q sch fuel st sys vetoes (erase pp) in
  q_committed (p_qobs o) = q_committed q /\ q_state (p_qobs o) = q_state q /\ q_fired (p_qobs o) = q_fired q /\
  q_heap (p_qobs o) = q_heap q.
Proof.
  cbn zeta. destruct (panic_is_failure_lemma sch fuel st sys vetoes surf pp) as (Hc & Hs & Hf & Hh & _). cbn zeta in *.
  unfold p_qobs. cbn [q_committed q_state q_fired q_heap]. repeat split; auto.
  destruct (p_caller (ptx_update sch fuel st sys vetoes surf pp)) eqn:E;
    destruct (q_committed (ctx_update_q sch fuel st sys vetoes (erase pp))) eqn:E2; auto.
  - destruct Hc as [Hc _]. specialize (Hc eq_refl). discriminate.
  - destruct Hc as [_ Hc]. specialize (Hc eq_refl). discriminate.
  - destruct Hc as [_ Hc]. specialize (Hc eq_refl). discriminate.
Qed.

(* the caller did not get nil - an error OR a panic -: the database is as before and nobody was told anything *)
Lemma not_nil_is_silent_lemma sch fuel st sys vetoes surf pp :
  let o := ptx_update sch fuel st sys vetoes surf pp in
  p_caller o <> CNil -> silent st (p_qobs o).
Proof.
  cbn zeta. intros Hn.
  destruct (panic_is_failure_lemma sch fuel st sys vetoes surf pp) as (Hc & Hs & Hf & _). cbn zeta in *.
  assert (Hq : q_committed (ctx_update_q sch fuel st sys vetoes (erase pp)) = false).
  { destruct (q_committed (ctx_update_q sch fuel st sys vetoes (erase pp))); auto.
    exfalso. apply Hn. apply Hc. reflexivity. }
  pose proof (failed_tx_is_silent_lemma sch fuel st sys vetoes (erase pp) Hq) as (S1 & S2 & _).
  apply no_handler_is_silent; cbn [p_qobs q_state q_fired]; congruence.
Qed.

(* the caller got nil: the function and every pre-commit action ran to their end without error and without panic *)
Lemma run_pitems_ok_no_failure sch fuel oc c0 surf : forall l n h stev rs s h1,
  run_pitems sch fuel oc c0 surf n l h stev = (rs, PFOk s, h1) ->
  forallb item_panic_free l = true /\ forallb (fun r => negb (pr_failed r)) rs = true.
Proof.
  induction l as [|it r IH]; intros n h stev rs s h1 H.
  - cbn in H. inversion H; subst. auto.
  - destruct it as [[x|p a]|j|x]; cbn [run_pitems] in H.
    + destruct (run_xop sch fuel oc stev x) as [stev1|k].
      * destruct (run_pitems sch fuel oc c0 surf (S n) r h stev1) as [[rs0 fin0] h0] eqn:E.
        inversion H; subst. destruct (IH _ _ _ _ _ _ E) as (A & B). cbn. rewrite A, B. auto.
      * destruct (surf n k); inversion H.
    + destruct (IH _ _ _ _ _ _ H) as (A & B). cbn. auto.
    + inversion H.
    + destruct (run_xop sch fuel oc stev x) as [stev1|k]; [inversion H|]. destruct (surf n k); inversion H.
Qed.

Lemma nil_means_nothing_failed_lemma sch fuel st sys vetoes surf pp :
  let o := ptx_update sch fuel st sys vetoes surf pp in
  p_caller o = CNil ->
  forallb item_panic_free (pp_body pp) = true /\ forallb (fun r => negb (pr_failed r)) (p_results o) = true /\
  ctx_precommit_fails (erase pp) = false.
Proof.
  cbn zeta. intros Hc.
  assert (Hq : q_committed (ctx_update_q sch fuel st sys vetoes (erase pp)) = true).
  { apply (panic_is_failure_lemma sch fuel st sys vetoes surf pp). exact Hc. }
  assert (Hpc : ctx_precommit_fails (erase pp) = false).
  { destruct (ctx_precommit_fails (erase pp)) eqn:E; auto.
    pose proof (proj2 (tx_fails_iff_lemma sch fuel st sys vetoes (erase pp)) (or_introl E)) as Hf.
    cbn zeta in Hf. rewrite Hq in Hf. discriminate. }
  revert Hc. unfold ptx_update.
  destruct (run_pitems sch fuel (mkOctx sys vetoes) (opened_ctx (erase pp)) surf 0 (pp_body pp) (heap_before (erase pp)) (st, []))
    as [[rs fin] h1] eqn:E.
  destruct fin as [[st' evs]| |]; [|cbn; discriminate|cbn; discriminate].
  destruct (run_pitems_ok_no_failure _ _ _ _ _ _ _ _ _ _ _ _ E) as (A & B).
  destruct (run_pre_p (pp_pre_panics pp) (pre_actions_of (opened_ctx (erase pp)) h1)); cbn; try discriminate.
  intros _. auto.
Qed.

(* a panicking instruction anywhere in the function: the function does not end normally *)
Lemma run_pitems_panic_in sch fuel oc c0 surf it : item_panic_free it = false -> forall l n h stev,
  In it l -> forall s, fst (fst (run_pitems sch fuel oc c0 surf n l h stev)) <> [] /\ snd (fst (run_pitems sch fuel oc c0 surf n l h stev)) <> PFOk s.
Proof.
  intros Hit. induction l as [|it0 r IH]; intros n h stev Hin s; [contradiction|].
  destruct it0 as [[x|p a]|j|x]; cbn [run_pitems].
  - destruct Hin as [He|Hin]; [subst it; discriminate|].
    destruct (run_xop sch fuel oc stev x) as [stev1|k].
    + specialize (IH (S n) h stev1 Hin s).
      destruct (run_pitems sch fuel oc c0 surf (S n) r h stev1) as [[rs0 fin0] h0]. cbn in *. split; [discriminate|tauto].
    + destruct (surf n k); cbn; split; discriminate.
  - destruct Hin as [He|Hin]; [subst it; discriminate|]. apply IH. exact Hin.
  - cbn. split; discriminate.
  - destruct (run_xop sch fuel oc stev x) as [stev1|k]; [cbn; split; discriminate|].
    destruct (surf n k); cbn; split; discriminate.
Qed.

Lemma panicking_step_fails_tx_lemma sch fuel st sys vetoes surf pp it :
  In it (pp_body pp) -> item_panic_free it = false ->
  let o := ptx_update sch fuel st sys vetoes surf pp in
  p_caller o <> CNil /\ silent st (p_qobs o).
Proof.
  intros Hin Hit o.
  assert (Hn : p_caller o <> CNil).
  { intros Hc. destruct (nil_means_nothing_failed_lemma sch fuel st sys vetoes surf pp Hc) as (A & _).
    rewrite forallb_forall in A. specialize (A it Hin). congruence. }
  split; [exact Hn|]. exact (not_nil_is_silent_lemma sch fuel st sys vetoes surf pp Hn).
Qed.

(* a failing pre-commit action - whether it returns an error or panics - registered through a context that belongs to
   the transaction, at any position of the function, or before the transaction *)
Lemma erase_in_body pp path a : In (PI (IReg path a)) (pp_body pp) -> In (IReg path a) (cp_body (erase pp)).
Proof. intros H. cbn. apply (in_map erase_item) in H. exact H. Qed.

Lemma failing_or_panicking_precommit_lemma sch fuel st sys vetoes surf pp path k :
  In (PI (IReg path (APre k true))) (pp_body pp) -> belongs path = true ->
  let o := ptx_update sch fuel st sys vetoes surf pp in
  p_caller o <> CNil /\ silent st (p_qobs o).
Proof.
  intros Hin Hb o.
  assert (Hn : p_caller o <> CNil).
  { intros Hc.
    destruct (failing_precommit_in_body_is_silent_lemma sch fuel st sys vetoes (erase pp) path k (erase_in_body pp path _ Hin) Hb) as (Hq & _).
    pose proof (proj1 (proj1 (panic_is_failure_lemma sch fuel st sys vetoes surf pp)) Hc) as Hq2. cbn zeta in Hq, Hq2. congruence. }
  split; [exact Hn|]. exact (not_nil_is_silent_lemma sch fuel st sys vetoes surf pp Hn).
Qed.

Lemma failing_or_panicking_precommit_before_lemma sch fuel st sys vetoes surf pp w k :
  pp_nil pp = false -> In (w, APre k true) (pp_before pp) ->
  let o := ptx_update sch fuel st sys vetoes surf pp in
  p_caller o <> CNil /\ silent st (p_qobs o).
Proof.
  intros Hnil Hin o.
  assert (Hn : p_caller o <> CNil).
  { intros Hc.
    destruct (failing_precommit_before_is_silent_lemma sch fuel st sys vetoes (erase pp) w k Hnil Hin) as (Hq & _).
    pose proof (proj1 (proj1 (panic_is_failure_lemma sch fuel st sys vetoes surf pp)) Hc) as Hq2. cbn zeta in Hq, Hq2. congruence. }
  split; [exact Hn|]. exact (not_nil_is_silent_lemma sch fuel st sys vetoes surf pp Hn).
Qed.

(* an operation whose rejection surfaces as a panic / an error: any failed result *)
Lemma failed_result_fails_tx_lemma sch fuel st sys vetoes surf pp r :
  let o := ptx_update sch fuel st sys vetoes surf pp in
  In r (p_results o) -> pr_failed r = true -> p_caller o <> CNil /\ silent st (p_qobs o).
Proof.
  intros o Hin Hr.
  assert (Hn : p_caller o <> CNil).
  { intros Hc. destruct (nil_means_nothing_failed_lemma sch fuel st sys vetoes surf pp Hc) as (_ & B & _).
    rewrite forallb_forall in B. specialize (B r Hin). rewrite Hr in B. discriminate. }
  split; [exact Hn|]. exact (not_nil_is_silent_lemma sch fuel st sys vetoes surf pp Hn).
Qed.

(* the caller sees a panic only if something can panic: without panicking instruction, panicking action and panicking
   callback the machine is the C07 machine and the caller gets nil or an error *)
Lemma run_pitems_panic_free sch fuel oc c0 : forall l n h stev,
  forallb item_panic_free l = true ->
  let '(rs, fin, h1) := run_pitems sch fuel oc c0 surf_return n l h stev in
  fin <> PFPanic /\ forallb (fun r => match r with PRPanic => false | _ => true end) rs = true.
Proof.
  induction l as [|it r IH]; intros n h stev Hf; [cbn; split; [discriminate|auto]|].
  destruct it as [[x|p a]|j|x]; cbn in Hf; try discriminate; cbn [run_pitems].
  - destruct (run_xop sch fuel oc stev x) as [stev1|k].
    + specialize (IH (S n) h stev1 Hf). destruct (run_pitems sch fuel oc c0 surf_return (S n) r h stev1) as [[rs fin] h1]. cbn. exact IH.
    + cbn. split; [discriminate|auto].
  - apply IH. exact Hf.
Qed.

Lemma no_panic_without_panicking_code_lemma sch fuel st sys vetoes pp :
  forallb item_panic_free (pp_body pp) = true -> (forall k, pp_pre_panics pp k = false) ->
  p_caller (ptx_update sch fuel st sys vetoes surf_return pp) <> CPanic.
Proof.
  intros Hb Hp. unfold ptx_update.
  pose proof (run_pitems_panic_free sch fuel (mkOctx sys vetoes) (opened_ctx (erase pp)) (pp_body pp) 0 (heap_before (erase pp)) (st, []) Hb) as H.
  destruct (run_pitems sch fuel (mkOctx sys vetoes) (opened_ctx (erase pp)) surf_return 0 (pp_body pp) (heap_before (erase pp)) (st, []))
    as [[rs fin] h1].
  destruct H as (Hf & _).
  destruct fin as [[st' evs]| |]; [|cbn; discriminate|contradiction].
  assert (Hpre : run_pre_p (pp_pre_panics pp) (pre_actions_of (opened_ctx (erase pp)) h1) <> PrePanic).
  { generalize (pre_actions_of (opened_ctx (erase pp)) h1). induction l as [|[k f] r IH]; cbn; [discriminate|].
    destruct f; [rewrite Hp; discriminate|exact IH]. }
  destruct (run_pre_p (pp_pre_panics pp) (pre_actions_of (opened_ctx (erase pp)) h1)); cbn; try discriminate. contradiction.
Qed.
