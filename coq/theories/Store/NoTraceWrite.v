(* C06 - Create / Update / link operations preserve the invariant of Store/NoTraceInv.v.
   Between PersistEntity and the constraint hooks the invariant holds in a weakened form [Mid]: an
   index entry / bucket member / back-reference for the entity being written may still be the one
   that was justified by its data BEFORE the write; every hook repairs its own place. *)
From Coq Require Import List NArith Bool Lia.
From Storage Require Import Base.Bytes Base.BytesFacts Store.Model Store.AListFacts Store.FrameProofs
     Store.NoTrace Store.NoTraceFacts Store.NoTraceInv.
Import ListNotations.

Section Write.
  Variable sch : schema.
  Hypothesis W : wfprops sch.

  Notation fbytes := (NoTraceInv.fbytes sch).
  Notation DInv := (NoTraceInv.DInv sch).
  Notation USound := (NoTraceInv.USound sch).
  Notation SSound := (NoTraceInv.SSound sch).
  Notation BSound := (NoTraceInv.BSound sch).
  Notation FSound := (NoTraceInv.FSound sch).
  Notation CSound := (NoTraceInv.CSound sch).
  Notation LSound := (NoTraceInv.LSound sch).

  (* string fields never hold a bool (only the isSystem flag does) *)
  Definition nobool (l : alist fval) : Prop := forall f b, f <> isSystemF -> al_get f l <> Some (FBool b).
  (* an entity lives in at most one child store (child data is written by Create only) *)
  Definition ec_one (e : entity) : Prop :=
    forall c1 c2, al_get c1 (e_c e) <> None -> al_get c2 (e_c e) <> None -> c1 = c2.
  Definition ent_nobool (e : entity) : Prop :=
    (nobool (e_f e) /\ (forall s1 cd, al_get s1 (e_c e) = Some cd -> nobool cd)) /\ ec_one e.
  Definition FieldsStr (st : state) : Prop := forall r j e, get_ent st r j = Some e -> ent_nobool e.

  Lemma FieldsStr_get_field st s j f b : FieldsStr st -> f <> isSystemF -> get_field sch st s j f <> FBool b.
  Proof.
    intros H Hf. unfold get_field. destruct (get_ent st (root_of sch s) j) as [e|] eqn:E; [|discriminate].
    destruct (H _ _ _ E) as [[A B] _]. unfold ent_field.
    assert (Hef : match al_get f (e_f e) with Some v => v | None => FAbsent end <> FBool b).
    { destruct (al_get f (e_f e)) as [v|] eqn:Ev; [|discriminate]. intros ->. exact (A f b Hf Ev). }
    destruct (find_store sch s) as [d|]; [|exact Hef].
    destruct (is_child sch s && declares_field d f); [|exact Hef].
    destruct (al_get s (e_c e)) as [cd|] eqn:Ec; [|discriminate].
    destruct (al_get f cd) as [v|] eqn:Ev; [|discriminate]. intros ->. exact (B s cd Ec f b Hf Ev).
  Qed.

  Definition Inv (st : state) : Prop := DInv gnone st /\ FieldsStr st.

  (* ---- soundness of one place ---- *)
  Definition USoundAt (st : state) (r f : name) : Prop :=
    forall v x, al_get v (uidx st r f) = Some x ->
      exists s nl, root_of sch s = r /\ In (CUnique f nl) (cons_of sch s) /\
                   nonempty v = true /\ present sch st s x = true /\ fbytes st s x f = v.
  Definition SSoundAt (st : state) (r f : name) : Prop :=
    forall v x, In x (sbucket st r f v) ->
      exists s, root_of sch s = r /\ In (CSetIdx f) (cons_of sch s) /\ present sch st s x = true /\ In v (eset st r x f).
  Definition BSoundAt (st : state) (t b : name) : Prop :=
    forall s f nl ti x, In (CFkIndex f t b nl) (cons_of sch s) -> In x (eset st (root_of sch t) ti b) ->
      nonempty ti = true /\ present sch st s x = true /\ fbytes st s x f = ti.

  Lemma BSound_at st : BSound st <-> forall t b, BSoundAt st t b.
  Proof.
    split.
    - intros H t b s f nl ti x. apply H.
    - intros H s f t b nl ti x. apply (H t b).
  Qed.

  (* ---- the state between PersistEntity of entity i of root R and the hooks; st0 = state before the write ---- *)
  Section Mid.
    Variable st0 : state.
    Variable R : name.
    Variable i : id.

    Definition G1 : gset := gadd gnone R i.

    Definition MidUAt (st : state) (r f : name) : Prop :=
      forall v x, al_get v (uidx st r f) = Some x ->
        exists s nl, root_of sch s = r /\ In (CUnique f nl) (cons_of sch s) /\ nonempty v = true /\
          ((present sch st s x = true /\ fbytes st s x f = v) \/
           (r = R /\ x = i /\ present sch st0 s i = true /\ fbytes st0 s i f = v)).
    Definition MidSAt (st : state) (r f : name) : Prop :=
      forall v x, In x (sbucket st r f v) -> exists s, root_of sch s = r /\ In (CSetIdx f) (cons_of sch s) /\
        ((present sch st s x = true /\ In v (eset st r x f)) \/
         (r = R /\ x = i /\ present sch st0 s i = true /\ In v (eset st0 R i f))).
    Definition MidBAt (st : state) (t b : name) : Prop :=
      forall s f nl ti x, In (CFkIndex f t b nl) (cons_of sch s) -> In x (eset st (root_of sch t) ti b) ->
        nonempty ti = true /\
        ((present sch st s x = true /\ fbytes st s x f = ti) \/
         (root_of sch s = R /\ x = i /\ present sch st0 s i = true /\ fbytes st0 s i f = ti)).

    (* what the fk-index hook of store s (root R) on entity i guarantees once it has run *)
    Definition FAt (st : state) (s f t b : name) : Prop :=
      forall v, get_field sch st s i f = FStr v -> nonempty v = true ->
        In i (eset st (root_of sch t) v b) /\ present sch st t v = true.
    (* ... and before it has run the back-references of i are still the ones of st0 *)
    Definition PreF (st : state) (s f t b : name) : Prop :=
      FAt st s f t b \/ (forall v, In i (eset st0 (root_of sch t) v b) -> In i (eset st (root_of sch t) v b)).

    Definition Mid (st : state) : Prop :=
      (forall r f, MidUAt st r f) /\ (forall r f, MidSAt st r f) /\ (forall t b, MidBAt st t b) /\
      FSound G1 st /\ CSound G1 st /\ LSound gnone st /\
      (forall s f t b nl, In (CFkIndex f t b nl) (cons_of sch s) -> root_of sch s = R -> PreF st s f t b) /\
      (forall s j, present sch st0 s j = true -> present sch st s j = true).

    Lemma USoundAt_Mid st r f : USoundAt st r f -> MidUAt st r f.
    Proof.
      intros H v x Hx. destruct (H v x Hx) as [s [nl [A [B [C [D E]]]]]]. exists s, nl.
      repeat split; try assumption. left. split; assumption.
    Qed.
    Lemma SSoundAt_Mid st r f : SSoundAt st r f -> MidSAt st r f.
    Proof. intros H v x Hx. destruct (H v x Hx) as [s [A0 [A [P B]]]]. exists s. split; [exact A0|]. split; [exact A | left; split; assumption]. Qed.
    Lemma BSoundAt_Mid st t b : BSoundAt st t b -> MidBAt st t b.
    Proof.
      intros H s f nl ti x Hin Hx. destruct (H s f nl ti x Hin Hx) as [A [B C]].
      split; [exact A | left; split; assumption].
    Qed.

    (* what a hook of store s (root R) on entity i guarantees once it has run *)
    Definition DoneK (st : state) (s : name) (k : cons) : Prop :=
      match k with
      | CUnique f _ => USoundAt st (root_of sch s) f
      | CSetIdx f => SSoundAt st (root_of sch s) f
      | CFkIndex f t b _ => BSoundAt st t b /\ FAt st s f t b
      | CFkCons f t _ => forall v, get_field sch st s i f = FStr v -> nonempty v = true -> present sch st t v = true
      | _ => True
      end.
    Definition FAtAll (st : state) (t b : name) : Prop :=
      forall s f nl, In (CFkIndex f t b nl) (cons_of sch s) -> root_of sch s = R -> FAt st s f t b.

    (* ---- transfer along a hook: every place is either untouched or repaired ---- *)
    Section Transfer.
      Variables st st' : state.
      Hypothesis Hfc : ents_fc_eq st st'.
      Hypothesis HU : forall r f, USoundAt st' r f \/ uidx st' r f = uidx st r f.
      Hypothesis HS : forall r f, SSoundAt st' r f \/ (forall v z, In z (sbucket st' r f v) -> In z (sbucket st r f v)).
      Hypothesis HSet : forall s0 j f0 z, In (CSetIdx f0) (cons_of sch s0) ->
        In z (eset st (root_of sch s0) j f0) -> In z (eset st' (root_of sch s0) j f0).
      Hypothesis HB : forall t b, (BSoundAt st' t b /\ FAtAll st' t b) \/
                                  (forall ti z, In z (eset st' (root_of sch t) ti b) <-> In z (eset st (root_of sch t) ti b)).

      Lemma tr_present s j : present sch st' s j = present sch st s j.
      Proof. apply present_fc. apply Hfc. Qed.
      Lemma tr_get_field s j f : get_field sch st' s j f = get_field sch st s j f.
      Proof. apply get_field_fc. apply Hfc. Qed.

      Lemma USoundAt_tr r f : USoundAt st r f -> USoundAt st' r f.
      Proof.
        intros H. destruct (HU r f) as [A|A]; [exact A|]. intros v x Hx. rewrite A in Hx.
        destruct (H v x Hx) as [s [nl [B [C [D [E F]]]]]]. exists s, nl. unfold NoTraceInv.fbytes in *.
        rewrite tr_present, tr_get_field. repeat split; assumption.
      Qed.

      Lemma SSoundAt_tr r f : SSoundAt st r f -> SSoundAt st' r f.
      Proof.
        intros H. destruct (HS r f) as [A|A]; [exact A|]. intros v x Hx. destruct (H v x (A v x Hx)) as [s0 [B0 [B [P C]]]].
        exists s0. rewrite tr_present. split; [exact B0|]. split; [exact B|]. split; [exact P|].
        rewrite <- B0. apply (HSet s0 x f v B). rewrite B0. exact C.
      Qed.

      Lemma BSoundAt_tr t b : BSoundAt st t b -> BSoundAt st' t b.
      Proof.
        intros H. destruct (HB t b) as [[A _]|A]; [exact A|]. intros s f nl ti x Hin Hx. apply A in Hx.
        destruct (H s f nl ti x Hin Hx) as [B [C D]]. unfold NoTraceInv.fbytes in *. rewrite tr_present, tr_get_field.
        repeat split; assumption.
      Qed.

      Lemma DoneK_tr s k : root_of sch s = R -> In k (cons_of sch s) -> DoneK st s k -> DoneK st' s k.
      Proof.
        intros Hr Hin. destruct k as [f nl|f|f t b nl|b|f t nl|rs f cs|]; cbn [DoneK]; try (intros; exact I).
        - apply USoundAt_tr.
        - apply SSoundAt_tr.
        - intros [H1 H2]. split; [apply BSoundAt_tr; exact H1|].
          destruct (HB t b) as [[_ A]|A]; [eapply A; eauto|].
          intros v Hf Hn. rewrite tr_get_field in Hf. destruct (H2 v Hf Hn) as [P Q]. split; [apply A; exact P | rewrite tr_present; exact Q].
        - intros H v Hf Hn. rewrite tr_get_field in Hf. rewrite tr_present. apply (H v Hf Hn).
      Qed.

      Lemma Mid_tr : FSound G1 st' -> CSound G1 st' -> LSound gnone st' -> Mid st -> Mid st'.
      Proof.
        intros HF' HC' HL' [MU [MS [MB [_ [_ [_ [MP ME]]]]]]].
        refine (conj _ (conj _ (conj _ (conj HF' (conj HC' (conj HL' (conj _ _))))))).
        - intros r f. destruct (HU r f) as [A|A]; [apply USoundAt_Mid; exact A|]. intros v x Hx. rewrite A in Hx.
          destruct (MU r f v x Hx) as [s [nl [B [C [D E]]]]]. exists s, nl. repeat split; try assumption.
          unfold NoTraceInv.fbytes in *. rewrite tr_present, tr_get_field. exact E.
        - intros r f. destruct (HS r f) as [A|A]; [apply SSoundAt_Mid; exact A|]. intros v x Hx.
          destruct (MS r f v x (A v x Hx)) as [s0 [B0 [B [[P C]|C]]]]; exists s0; (split; [exact B0|]); (split; [exact B|]).
          * left. rewrite tr_present. split; [exact P|]. rewrite <- B0. apply (HSet s0 x f v B). rewrite B0. exact C.
          * right. exact C.
        - intros t b. destruct (HB t b) as [[A _]|A]; [apply BSoundAt_Mid; exact A|]. intros s f nl ti x Hin Hx. apply A in Hx.
          destruct (MB t b s f nl ti x Hin Hx) as [B C]. split; [exact B|].
          unfold NoTraceInv.fbytes in *. rewrite tr_present, tr_get_field. exact C.
        - intros s f t b nl Hin Hrs. destruct (HB t b) as [[_ A]|A]; [left; eapply A; eauto|].
          destruct (MP s f t b nl Hin Hrs) as [P|P].
          + left. intros v Hf Hn. rewrite tr_get_field in Hf. destruct (P v Hf Hn) as [P1 P2]. split; [apply A; exact P1 | rewrite tr_present; exact P2].
          + right. intros v Hv. apply A. apply P. exact Hv.
        - intros s j Hj. rewrite tr_present. apply (ME s j Hj).
      Qed.
    End Transfer.
  End Mid.

  (* ---- the fk / link parts of the invariant under the primitives ---- *)
  Lemma FCL_ents_eq (G G2 : gset) st st' : ents st' = ents st ->
    FSound G st -> CSound G st -> LSound G2 st -> FSound G st' /\ CSound G st' /\ LSound G2 st'.
  Proof.
    intros He HF HC HL.
    assert (Hp : forall s j, present sch st' s j = present sch st s j) by (intros; apply present_ents_eq; exact He).
    assert (Hg : forall s j f, get_field sch st' s j f = get_field sch st s j f) by (intros; apply get_field_ents_eq; exact He).
    assert (Hes : forall r j f, eset st' r j f = eset st r j f) by (intros; apply eset_ents_eq; exact He).
    refine (conj _ (conj _ _)).
    - intros s f t b nl y v Hin Hgn Hpy Hf Hn. rewrite Hes. rewrite Hp in Hpy. rewrite Hg in Hf. rewrite Hp. eapply HF; eauto.
    - intros s f t nl y v Hin Hgn Hpy Hf Hn. rewrite Hp in Hpy. rewrite Hg in Hf. rewrite Hp. eapply HC; eauto.
    - intros s lf os of_ x t Hin Hgn Ht. rewrite Hes in *. rewrite !Hp. eapply HL; eauto.
  Qed.

  (* b is the back-reference set of a foreign-key index of a store of root R on target t *)
  Lemma FCL_backref_del R i st s f t b nl ti :
    In (CFkIndex f t b nl) (cons_of sch s) -> root_of sch s = R ->
    FSound (G1 R i) st -> CSound (G1 R i) st -> LSound gnone st ->
    let st' := backref_del sch st t ti b i in
    FSound (G1 R i) st' /\ CSound (G1 R i) st' /\ LSound gnone st'.
  Proof.
    intros Hin Hr HF HC HL st'.
    assert (Hp : forall s j, present sch st' s j = present sch st s j) by (intros; apply present_backref_del).
    assert (Hg : forall s j f, get_field sch st' s j f = get_field sch st s j f) by (intros; apply get_field_backref_del).
    assert (Hes : forall r j f z, In z (eset st' r j f) <-> In z (eset st r j f) /\ ~ (r = root_of sch t /\ j = ti /\ f = b /\ z = i)).
    { intros. unfold st'. rewrite eset_backref_del. reflexivity. }
    refine (conj _ (conj _ _)).
    - intros s1 f1 t1 b1 nl1 y v Hin1 Hgn Hpy Hf Hn. rewrite Hp in Hpy. rewrite Hg in Hf.
      destruct (HF s1 f1 t1 b1 nl1 y v Hin1 Hgn Hpy Hf Hn) as [A B]. rewrite Hp. split; [|exact B]. apply Hes. split.
      + exact A.
      + intros [E1 [_ [-> ->]]]. apply Hgn. destruct (wp_buniq sch W _ _ _ _ _ _ _ _ _ Hin1 Hin E1) as [-> _].
        right. split; [exact Hr | reflexivity].
    - intros s1 f1 t1 nl1 y v Hin1 Hgn Hpy Hf Hn. rewrite Hp in Hpy. rewrite Hg in Hf. rewrite Hp.
      apply (HC s1 f1 t1 nl1 y v Hin1 Hgn Hpy Hf Hn).
    - intros s1 lf os of_ x t0 Hin1 Hgn Ht0. apply Hes in Ht0 as [Ht0 _].
      destruct (HL s1 lf os of_ x t0 Hin1 Hgn Ht0) as [A [B C]]. rewrite !Hp. split; [|split; assumption]. apply Hes. split.
      + exact A.
      + intros [E1 [_ [E2 _]]]. apply (wp_link_sym sch W) in Hin1. subst of_. eapply (wp_disj_bl sch W); [exact Hin | exact Hin1 | exact E1 | reflexivity].
  Qed.

  Lemma FCL_backref_add (G : gset) st s f t b nl ti i :
    In (CFkIndex f t b nl) (cons_of sch s) ->
    FSound G st -> CSound G st -> LSound gnone st ->
    let st' := backref_add sch st t ti b i in
    FSound G st' /\ CSound G st' /\ LSound gnone st'.
  Proof.
    intros Hin HF HC HL st'.
    assert (Hp : forall s j, present sch st' s j = present sch st s j) by (intros; apply present_backref_add).
    assert (Hg : forall s j f, get_field sch st' s j f = get_field sch st s j f) by (intros; apply get_field_backref_add).
    assert (Hes : forall r j f z, In z (eset st' r j f) <-> In z (eset st r j f) \/ (r = root_of sch t /\ j = ti /\ f = b /\ z = i /\ get_ent st r j <> None)).
    { intros. unfold st'. rewrite eset_backref_add. reflexivity. }
    refine (conj _ (conj _ _)).
    - intros s1 f1 t1 b1 nl1 y v Hin1 Hgn Hpy Hf Hn. rewrite Hp in Hpy. rewrite Hg in Hf.
      destruct (HF s1 f1 t1 b1 nl1 y v Hin1 Hgn Hpy Hf Hn) as [A B]. rewrite Hp. split; [|exact B]. apply Hes. left. exact A.
    - intros s1 f1 t1 nl1 y v Hin1 Hgn Hpy Hf Hn. rewrite Hp in Hpy. rewrite Hg in Hf. rewrite Hp.
      apply (HC s1 f1 t1 nl1 y v Hin1 Hgn Hpy Hf Hn).
    - intros s1 lf os of_ x t0 Hin1 Hgn Ht0. apply Hes in Ht0 as [Ht0|[E1 [_ [E2 _]]]].
      + destruct (HL s1 lf os of_ x t0 Hin1 Hgn Ht0) as [A [B C]]. rewrite !Hp. split; [|split; assumption]. apply Hes. left. exact A.
      + exfalso. subst lf. eapply (wp_disj_bl sch W); [exact Hin | exact Hin1 | exact E1 | reflexivity].
  Qed.

  (* ---- the hooks after PersistEntity ---- *)
  Definition SvOK (st0 : state) (c : ictx) (k : cons) (sv : saved) : Prop :=
    match k with
    | CUnique f _ => sv_atom sv = fbytes st0 (ic_store c) (ic_id c) f
    | CFkIndex f _ _ _ => sv_atom sv = fbytes st0 (ic_store c) (ic_id c) f
    | CFkCons f _ _ => sv_atom sv = fbytes st0 (ic_store c) (ic_id c) f
    | CSetIdx f => sv_set sv = get_set sch st0 (ic_store c) (ic_id c) f
    | _ => True
    end.

  Lemma fv_bytes_str st s j f v : FieldsStr st -> f <> isSystemF ->
    fv_bytes (get_field sch st s j f) = v -> nonempty v = true -> get_field sch st s j f = FStr v.
  Proof.
    intros HFS Hf Hv Hn. destruct (get_field sch st s j f) as [| |w|b] eqn:E; cbn in Hv; subst v; try discriminate.
    - reflexivity.
    - exfalso. exact (FieldsStr_get_field st s j f b HFS Hf E).
  Qed.

  Section Hook.
    Variable st0 : state.
    Variable R : name.
    Variable i : id.
    Variable st : state.
    Variable c : ictx.
    Hypothesis Hi : ic_id c = i.
    Hypothesis Hr : root_of sch (ic_store c) = R.
    Hypothesis HInv0 : Inv st0.
    Hypothesis HMid : Mid st0 R i st.
    Hypothesis Hpres : present sch st (ic_store c) i = true.

    Let s := ic_store c.

    Definition Post (k : cons) (st' : state) : Prop :=
      ents_fc_eq st st' /\ Mid st0 R i st' /\ DoneK i st' s k /\
      (forall s2 k2, root_of sch s2 = R -> In k2 (cons_of sch s2) -> DoneK i st s2 k2 -> DoneK i st' s2 k2).

    Lemma Post_same k : DoneK i st s k -> Post k st.
    Proof. intros H. split; [apply ents_fc_eq_refl|]. split; [exact HMid|]. split; [exact H | auto]. Qed.

    (* a hook that rewrites the unique index (R, f) and repairs it *)
    Lemma Post_uidx f nl m' : In (CUnique f nl) (cons_of sch s) ->
      USoundAt (set_uidx st R f m') R f -> Post (CUnique f nl) (set_uidx st R f m').
    Proof.
      intros Hin Hs. set (st' := set_uidx st R f m').
      assert (Hfc : ents_fc_eq st st') by (apply ents_eq_fc; reflexivity).
      assert (HU : forall r f0, USoundAt st' r f0 \/ uidx st' r f0 = uidx st r f0).
      { intros r f0. destruct (name_pair_dec R f r f0) as [[<- <-]|Hne]; [left; exact Hs | right; apply upd2_other; exact Hne]. }
      assert (HS : forall r f0, SSoundAt st' r f0 \/ (forall v z, In z (sbucket st' r f0 v) -> In z (sbucket st r f0 v))) by (intros; right; auto).
      assert (HSet : forall s0 j f0 z, In (CSetIdx f0) (cons_of sch s0) -> In z (eset st (root_of sch s0) j f0) -> In z (eset st' (root_of sch s0) j f0)) by auto.
      assert (HB : forall t b, (BSoundAt st' t b /\ FAtAll R i st' t b) \/ (forall ti z, In z (eset st' (root_of sch t) ti b) <-> In z (eset st (root_of sch t) ti b))) by (intros; right; reflexivity).
      destruct HMid as [_ [_ [_ [HF [HC [HL _]]]]]].
      destruct (FCL_ents_eq (G1 R i) gnone st st' eq_refl HF HC HL) as [HF' [HC' HL']].
      split; [exact Hfc|]. split; [exact (Mid_tr st0 R i st st' Hfc HU HS HSet HB HF' HC' HL' HMid)|].
      split; [cbn [DoneK]; unfold s; rewrite Hr; exact Hs|].
      intros s2 k2 Hr2 Hin2. apply (DoneK_tr R i st st' Hfc HU HS HSet HB s2 k2 Hr2 Hin2).
    Qed.

    Lemma au_unique f nl sv st' : In (CUnique f nl) (cons_of sch s) -> SvOK st0 c (CUnique f nl) sv ->
      after_update_one sch st c (CUnique f nl) sv = Ok st' -> Post (CUnique f nl) st'.
    Proof.
      intros Hin Hsv H. cbn [after_update_one SvOK] in *. rewrite Hi in *. rewrite Hr in H. fold s in H, Hsv.
      set (new := fv_bytes (get_field sch st s i f)) in *. set (old := sv_atom sv) in *.
      destruct HMid as [MU _].
      (* soundness of (R, f) for a new content m' of the index *)
      assert (Hsound : forall st1 m', ents st1 = ents st -> uidx st1 R f = m' ->
         (forall w x, al_get w m' = Some x -> (w = new /\ x = i /\ nonempty new = true) \/
                        (al_get w (uidx st R f) = Some x /\ (w = old -> nonempty old = true -> new = old))) ->
         USoundAt st1 R f).
      { intros st1 m' He Hm Hent w x Hx. rewrite Hm in Hx.
        assert (Hp : forall s1 j, present sch st1 s1 j = present sch st s1 j) by (intros; apply present_ents_eq; exact He).
        assert (Hg : forall s1 j f1, get_field sch st1 s1 j f1 = get_field sch st s1 j f1) by (intros; apply get_field_ents_eq; exact He).
        unfold NoTraceInv.fbytes. destruct (Hent w x Hx) as [[-> [-> Hn]]|[Hx0 Hold]].
        - exists s, nl. rewrite Hp, Hg. repeat split; assumption.
        - destruct (MU R f w x Hx0) as [s1 [nl1 [A [B [C [[D E]|[_ [-> [D E]]]]]]]]]; exists s1, nl1; rewrite Hp, Hg.
          + repeat split; assumption.
          + assert (s1 = s) as -> by (eapply (wp_uown sch W); [rewrite A; symmetry; exact Hr | exact B | exact Hin]).
            rewrite <- Hsv in E.
            assert (new = old) as Hno by (apply Hold; [symmetry; exact E | rewrite E; exact C]).
            repeat split; try assumption. fold new. congruence. }
      destruct (negb (ic_create c) && str_eqb old new) eqn:Eshort.
      - inversion H; subst st'. apply andb_prop in Eshort as [_ Eq]. apply str_eqb_eq in Eq.
        apply Post_same. cbn [DoneK]. unfold s. rewrite Hr. apply (Hsound st (uidx st R f) eq_refl eq_refl).
        intros w x Hx. right. split; [exact Hx | intros; congruence].
      - set (m := uidx st R f) in *. set (m1 := if nonempty old then al_del old m else m) in *.
        assert (Hm1 : forall w x, al_get w m1 = Some x -> al_get w m = Some x /\ (w = old -> nonempty old = true -> new = old)).
        { intros w x Hx. unfold m1 in Hx. destruct (nonempty old) eqn:Eo.
          - rewrite al_get_del in Hx. destruct (str_eqb old w) eqn:Ew; [discriminate|]. apply str_eqb_neq in Ew.
            split; [exact Hx | intros; congruence].
          - split; [exact Hx | intros; congruence]. }
        destruct (nonempty new) eqn:Enew.
        + destruct (al_get new m1) eqn:Eg; [discriminate|]. destruct (key_ok new); [|discriminate].
          inversion H; subst st'. apply (Post_uidx f nl _ Hin).
          apply (Hsound (set_uidx st R f (al_put new i m1)) (al_put new i m1) eq_refl (uidx_set_uidx _ _ _ _)).
          intros w x Hx. rewrite al_get_put in Hx. destruct (str_eqb new w) eqn:Ew.
          * apply str_eqb_eq in Ew. inversion Hx; subst. left. repeat split.
          * right. apply Hm1. exact Hx.
        + destruct nl; [|discriminate]. inversion H; subst st'. apply (Post_uidx f true _ Hin).
          apply (Hsound (set_uidx st R f m1) m1 eq_refl (uidx_set_uidx _ _ _ _)). intros w x Hx. right. apply Hm1. exact Hx.
    Qed.

    Hypothesis Hupd : ic_create c = false -> present sch st0 (ic_store c) i = true.

    (* a hook that rewrites the set index (R, f) and repairs it *)
    Lemma Post_sidx f st' : In (CSetIdx f) (cons_of sch s) ->
      ents st' = ents st -> uidx st' = uidx st ->
      (forall r f0 v z, R <> r \/ f <> f0 -> In z (sbucket st' r f0 v) -> In z (sbucket st r f0 v)) ->
      SSoundAt st' R f -> Post (CSetIdx f) st'.
    Proof.
      intros Hin He Hu Hoth Hs.
      assert (Hfc : ents_fc_eq st st') by (apply ents_eq_fc; exact He).
      assert (HU : forall r f0, USoundAt st' r f0 \/ uidx st' r f0 = uidx st r f0) by (intros; right; rewrite Hu; reflexivity).
      assert (HS : forall r f0, SSoundAt st' r f0 \/ (forall v z, In z (sbucket st' r f0 v) -> In z (sbucket st r f0 v))).
      { intros r f0. destruct (name_pair_dec R f r f0) as [[<- <-]|Hne]; [left; exact Hs | right; intros v z; apply Hoth; exact Hne]. }
      assert (HSet : forall s0 j f0 z, In (CSetIdx f0) (cons_of sch s0) -> In z (eset st (root_of sch s0) j f0) -> In z (eset st' (root_of sch s0) j f0))
        by (intros s0 j f0 z _ Hz; rewrite (eset_ents_eq _ _ _ _ _ He); exact Hz).
      assert (HB : forall t b, (BSoundAt st' t b /\ FAtAll R i st' t b) \/ (forall ti z, In z (eset st' (root_of sch t) ti b) <-> In z (eset st (root_of sch t) ti b)))
        by (intros; right; intros; rewrite (eset_ents_eq _ _ _ _ _ He); reflexivity).
      pose proof HMid as [_ [_ [_ [HF [HC [HL _]]]]]].
      destruct (FCL_ents_eq (G1 R i) gnone st st' He HF HC HL) as [HF' [HC' HL']].
      split; [exact Hfc|]. split; [exact (Mid_tr st0 R i st st' Hfc HU HS HSet HB HF' HC' HL' HMid)|].
      split; [cbn [DoneK]; unfold s; rewrite Hr; exact Hs|].
      intros s2 k2 Hr2 Hin2. apply (DoneK_tr R i st st' Hfc HU HS HSet HB s2 k2 Hr2 Hin2).
    Qed.

    Lemma au_setidx f sv st' : In (CSetIdx f) (cons_of sch s) -> SvOK st0 c (CSetIdx f) sv ->
      after_update_one sch st c (CSetIdx f) sv = Ok st' -> Post (CSetIdx f) st'.
    Proof.
      intros Hin Hsv H.
      cbn [after_update_one SvOK] in *. rewrite Hi in *. rewrite Hr in H. fold s in H, Hsv.
      set (new := get_set sch st s i f) in *. set (old := sv_set sv) in *.
      assert (Hnew : forall st1, ents st1 = ents st -> forall v, In v new <-> In v (eset st1 R i f)).
      { intros st1 He v. unfold new, get_set. rewrite (eset_ents_eq _ _ _ _ _ He). unfold eset. unfold s. rewrite Hr. reflexivity. }
      assert (Hold : forall v, In v old <-> In v (eset st0 R i f)).
      { intros v. rewrite Hsv. unfold get_set, eset. unfold s. rewrite Hr. reflexivity. }
      pose proof HMid as [_ [MS _]].
      assert (Hsound : forall st1, ents st1 = ents st ->
         (forall v x, In x (sbucket st1 R f v) -> (x = i /\ In v new) \/ (In x (sbucket st R f v) /\ (x = i -> In v old -> In v new))) ->
         SSoundAt st1 R f).
      { intros st1 He Hent v x Hx.
        assert (Hp1 : forall s1 j, present sch st1 s1 j = present sch st s1 j) by (intros; apply present_ents_eq; exact He).
        destruct (Hent v x Hx) as [[-> Hv]|[Hx0 Himp]].
        - exists s. rewrite Hp1. split; [exact Hr|]. split; [exact Hin|]. split; [exact Hpres|]. apply (Hnew st1 He). exact Hv.
        - destruct (MS R f v x Hx0) as [s1 [A1 [B1 [[P Hv]|[_ [-> [P Hv]]]]]]].
          + exists s1. rewrite Hp1. split; [exact A1|]. split; [exact B1|]. split; [exact P|]. rewrite (eset_ents_eq _ _ _ _ _ He). exact Hv.
          + assert (s1 = s) as -> by (eapply (wp_sown sch W); [rewrite A1; symmetry; exact Hr | exact B1 | exact Hin]).
            exists s. rewrite Hp1. split; [exact Hr|]. split; [exact Hin|]. split; [exact Hpres|].
            apply (Hnew st1 He). apply Himp; [reflexivity | apply Hold; exact Hv]. }
      destruct (strs_eqb old new) eqn:Eq.
      - inversion H; subst st'. apply strs_eqb_eq in Eq. apply Post_same. cbn [DoneK]. unfold s. rewrite Hr.
        apply (Hsound st eq_refl). intros v x Hx. right. split; [exact Hx | intros _ Hv; rewrite <- Eq; exact Hv].
      - destruct (negb _); [discriminate|]. inversion H; subst st'. clear H.
        set (stA := fold_left (fun acc v => sidx_remove acc R f v i) old st).
        set (stB := fold_left (fun acc v => sidx_add acc R f v i) new stA).
        assert (HeB : ents stB = ents st) by (unfold stB, stA; rewrite fold_sidx_add_ents, fold_sidx_remove_ents; reflexivity).
        apply (Post_sidx f stB Hin HeB).
        + unfold stB, stA. rewrite fold_sidx_add_uidx, fold_sidx_remove_uidx. reflexivity.
        + intros r f0 v z Hne Hz. unfold stB in Hz. apply sbucket_fold_add in Hz as [Hz|[A [B _]]].
          * unfold stA in Hz. apply sbucket_fold_remove in Hz as [Hz _]. exact Hz.
          * exfalso. destruct Hne as [Hne|Hne]; congruence.
        + apply (Hsound stB HeB). intros v x Hx. unfold stB in Hx. apply sbucket_fold_add in Hx as [Hx|[_ [_ [Hv ->]]]].
          * unfold stA in Hx. apply sbucket_fold_remove in Hx as [Hx Hn]. right. split; [exact Hx|].
            intros -> Hv. exfalso. apply Hn. repeat split. exact Hv.
          * left. split; [reflexivity | exact Hv].
    Qed.

    (* a hook that rewrites the back-reference sets (root of t, b) and repairs them *)
    Lemma Post_bset f t b nl st' : In (CFkIndex f t b nl) (cons_of sch s) ->
      ents_fc_eq st st' -> uidx st' = uidx st -> sidx st' = sidx st ->
      (forall r j f0 z, root_of sch t <> r \/ b <> f0 -> (In z (eset st' r j f0) <-> In z (eset st r j f0))) ->
      FSound (G1 R i) st' -> CSound (G1 R i) st' -> LSound gnone st' ->
      BSoundAt st' t b -> FAt i st' s f t b -> Post (CFkIndex f t b nl) st'.
    Proof.
      intros Hin Hfc Hu Hsx Hoth HF' HC' HL' Hb Hfa.
      assert (HU : forall r f0, USoundAt st' r f0 \/ uidx st' r f0 = uidx st r f0) by (intros; right; rewrite Hu; reflexivity).
      assert (HS : forall r f0, SSoundAt st' r f0 \/ (forall v z, In z (sbucket st' r f0 v) -> In z (sbucket st r f0 v)))
        by (intros; right; intros v z Hz; unfold sbucket in *; rewrite Hsx in Hz; exact Hz).
      assert (HSet : forall s0 j f0 z, In (CSetIdx f0) (cons_of sch s0) -> In z (eset st (root_of sch s0) j f0) -> In z (eset st' (root_of sch s0) j f0)).
      { intros s0 j f0 z Hc Hz. apply Hoth; [|exact Hz]. destruct (str_eq_dec (root_of sch t) (root_of sch s0)) as [E|Hne]; [|left; exact Hne].
        right. intros <-. eapply (wp_disj_sb sch W); [exact Hc | exact Hin | exact E | reflexivity]. }
      assert (HB : forall t0 b0, (BSoundAt st' t0 b0 /\ FAtAll R i st' t0 b0) \/
                                 (forall ti z, In z (eset st' (root_of sch t0) ti b0) <-> In z (eset st (root_of sch t0) ti b0))).
      { intros t0 b0. destruct (name_pair_dec (root_of sch t) b (root_of sch t0) b0) as [[E1 <-]|Hne]; [left|right; intros; apply Hoth; exact Hne].
        split.
        - intros s1 f1 nl1 ti x Hin1 Hx. destruct (wp_buniq sch W _ _ _ _ _ _ _ _ _ Hin1 Hin (eq_sym E1)) as [-> [-> ->]].
          exact (Hb _ _ _ ti x Hin1 Hx).
        - intros s2 f2 nl2 Hin2 Hr2. destruct (wp_buniq sch W _ _ _ _ _ _ _ _ _ Hin2 Hin (eq_sym E1)) as [-> [-> ->]]. exact Hfa. }
      split; [exact Hfc|]. split; [exact (Mid_tr st0 R i st st' Hfc HU HS HSet HB HF' HC' HL' HMid)|].
      split; [cbn [DoneK]; split; assumption|].
      intros s2 k2 Hr2 Hin2. apply (DoneK_tr R i st st' Hfc HU HS HSet HB s2 k2 Hr2 Hin2).
    Qed.

    Lemma au_fkindex f t b nl sv st' : In (CFkIndex f t b nl) (cons_of sch s) -> SvOK st0 c (CFkIndex f t b nl) sv ->
      after_update_one sch st c (CFkIndex f t b nl) sv = Ok st' -> Post (CFkIndex f t b nl) st'.
    Proof.
      intros Hin Hsv H.
      cbn [after_update_one SvOK] in *. rewrite Hi in *. fold s in H, Hsv.
      set (T := root_of sch t) in *.
      set (new := fv_bytes (get_field sch st s i f)) in *. set (old := sv_atom sv) in *.
      pose proof HMid as [_ [_ [MB [HF [HC [HL [MP MPres]]]]]]].
      assert (Hsound : forall st1, ents_fc_eq st st1 ->
         (forall ti x, In x (eset st1 T ti b) -> (x = i /\ ti = new /\ nonempty new = true) \/
                        (In x (eset st T ti b) /\ (x = i -> ti = old -> nonempty old = true -> new = old))) ->
         BSoundAt st1 t b).
      { intros st1 Hfc Hent s1 f1 nl1 ti x Hin1 Hx.
        destruct (wp_buniq sch W _ _ _ _ _ _ _ _ _ Hin1 Hin eq_refl) as [-> [-> _]].
        assert (Hp : forall j, present sch st1 s j = present sch st s j) by (intros; apply present_fc; apply Hfc).
        assert (Hg : forall j, get_field sch st1 s j f = get_field sch st s j f) by (intros; apply get_field_fc; apply Hfc).
        unfold NoTraceInv.fbytes. rewrite Hp, Hg.
        destruct (Hent ti x Hx) as [[-> [-> Hn]]|[Hx0 Himp]].
        - repeat split; [exact Hn | exact Hpres].
        - destruct (MB t b s f nl ti x Hin Hx0) as [A [[B C]|[_ [-> [B C]]]]].
          + repeat split; assumption.
          + rewrite <- Hsv in C. assert (new = old) as Hno by (apply Himp; [reflexivity | symmetry; exact C | rewrite C; exact A]).
            repeat split; [exact A | exact Hpres | fold new; congruence]. }
      destruct (negb (ic_create c) && str_eqb old new) eqn:Eshort.
      - inversion H; subst st'. apply andb_prop in Eshort as [Ecr Eq]. apply str_eqb_eq in Eq. apply negb_true_iff in Ecr.
        apply Post_same. cbn [DoneK]. split.
        + apply (Hsound st (ents_fc_eq_refl st)). intros ti x Hx. right. split; [exact Hx | intros; congruence].
        + destruct (MP s f t b nl Hin Hr) as [P|P]; [exact P|]. intros v Hf Hn.
          assert (fv_bytes (get_field sch st0 s i f) = v) as Hv0.
          { unfold NoTraceInv.fbytes in Hsv. rewrite <- Hsv. fold old. rewrite Eq. unfold new. rewrite Hf. reflexivity. }
          destruct HInv0 as [[_ [_ [_ [HF0 _]]]] HFS0].
          pose proof (fv_bytes_str st0 s i f v HFS0 (wp_fk_nosys sch W _ _ _ _ _ Hin) Hv0 Hn) as Hf0.
          destruct (HF0 s f t b nl i v Hin (fun x => x) (Hupd Ecr) Hf0 Hn) as [Q1 Q2].
          split; [apply P; exact Q1 | apply MPres; exact Q2].
      - destruct (nonempty old) eqn:Eo.
        + destruct (present sch st t old) eqn:Epo; cbn [bind] in H; [|discriminate].
          set (st1 := backref_del sch st t old b i) in *.
          destruct (FCL_backref_del R i st s f t b nl old Hin Hr HF HC HL) as [HF1 [HC1 HL1]]. fold st1 in HF1, HC1, HL1.
          assert (Hfc1 : ents_fc_eq st st1) by apply backref_del_fc.
          assert (He1 : forall r j f0 z, In z (eset st1 r j f0) <-> In z (eset st r j f0) /\ ~ (r = T /\ j = old /\ f0 = b /\ z = i)).
          { intros. unfold st1. rewrite eset_backref_del. reflexivity. }
          destruct (nonempty new) eqn:Enew.
          * destruct (present sch st1 t new) eqn:Epn; [|discriminate]. inversion H; subst st'. clear H.
            set (st2 := backref_add sch st1 t new b i).
            destruct (FCL_backref_add (G1 R i) st1 s f t b nl new i Hin HF1 HC1 HL1) as [HF2 [HC2 HL2]]. fold st2 in HF2, HC2, HL2.
            assert (He2 : forall r j f0 z, In z (eset st2 r j f0) <-> In z (eset st1 r j f0) \/ (r = T /\ j = new /\ f0 = b /\ z = i /\ get_ent st1 r j <> None)).
            { intros. unfold st2. rewrite eset_backref_add. reflexivity. }
            apply (Post_bset f t b nl st2 Hin); try assumption.
            -- eapply ents_fc_eq_trans; [exact Hfc1 | apply backref_add_fc].
            -- unfold st2, st1. rewrite backref_add_uidx, backref_del_uidx. reflexivity.
            -- unfold st2, st1. rewrite backref_add_sidx, backref_del_sidx. reflexivity.
            -- intros r j f0 z Hne. rewrite He2, He1. fold T in Hne. split.
               ++ intros [[A _]|[A [_ [B _]]]]; [exact A | exfalso; destruct Hne; congruence].
               ++ intros A. left. split; [exact A|]. intros [A1 [_ [B1 _]]]. destruct Hne; congruence.
            -- apply Hsound; [eapply ents_fc_eq_trans; [exact Hfc1 | apply backref_add_fc]|].
               intros ti x Hx. apply He2 in Hx as [Hx|[_ [-> [_ [-> _]]]]].
               ++ apply He1 in Hx as [Hx Hn]. right. split; [exact Hx|]. intros -> -> _. exfalso. apply Hn. repeat split.
               ++ left. repeat split.
            -- intros v Hf Hn. unfold st2, st1 in Hf. rewrite get_field_backref_add, get_field_backref_del in Hf.
               assert (new = v) as <- by (unfold new; rewrite Hf; reflexivity).
               split; [|unfold st2; rewrite present_backref_add; exact Epn].
               apply He2. right. repeat split. apply present_get_ent. exact Epn.
          * destruct nl; [|discriminate]. inversion H; subst st'. clear H.
            apply (Post_bset f t b true st1 Hin); try assumption.
            -- unfold st1. rewrite backref_del_uidx. reflexivity.
            -- unfold st1. rewrite backref_del_sidx. reflexivity.
            -- intros r j f0 z Hne. rewrite He1. fold T in Hne. split; [intros [A _]; exact A|]. intros A. split; [exact A|].
               intros [A1 [_ [B1 _]]]. destruct Hne; congruence.
            -- apply Hsound; [exact Hfc1|]. intros ti x Hx. apply He1 in Hx as [Hx Hn]. right. split; [exact Hx|].
               intros -> -> _. exfalso. apply Hn. repeat split.
            -- intros v Hf Hn. unfold st1 in Hf. rewrite get_field_backref_del in Hf.
               assert (new = v) as Hnv by (unfold new; rewrite Hf; reflexivity). congruence.
        + cbn [bind] in H. destruct (nonempty new) eqn:Enew.
          * destruct (present sch st t new) eqn:Epn; [|discriminate]. inversion H; subst st'. clear H.
            set (st2 := backref_add sch st t new b i).
            destruct (FCL_backref_add (G1 R i) st s f t b nl new i Hin HF HC HL) as [HF2 [HC2 HL2]]. fold st2 in HF2, HC2, HL2.
            assert (He2 : forall r j f0 z, In z (eset st2 r j f0) <-> In z (eset st r j f0) \/ (r = T /\ j = new /\ f0 = b /\ z = i /\ get_ent st r j <> None)).
            { intros. unfold st2. rewrite eset_backref_add. reflexivity. }
            apply (Post_bset f t b nl st2 Hin); try assumption.
            -- apply backref_add_fc.
            -- unfold st2. rewrite backref_add_uidx. reflexivity.
            -- unfold st2. rewrite backref_add_sidx. reflexivity.
            -- intros r j f0 z Hne. rewrite He2. fold T in Hne. split; [|intros A; left; exact A].
               intros [A|[A [_ [B _]]]]; [exact A | exfalso; destruct Hne; congruence].
            -- apply Hsound; [apply backref_add_fc|].
               intros ti x Hx. apply He2 in Hx as [Hx|[_ [-> [_ [-> _]]]]].
               ++ right. split; [exact Hx|]. intros _ _ Ho. congruence.
               ++ left. repeat split.
            -- intros v Hf Hn. unfold st2 in Hf. rewrite get_field_backref_add in Hf.
               assert (new = v) as <- by (unfold new; rewrite Hf; reflexivity).
               split; [|unfold st2; rewrite present_backref_add; exact Epn].
               apply He2. right. repeat split. apply present_get_ent. exact Epn.
          * destruct nl; [|discriminate]. inversion H; subst st'. clear H.
            apply Post_same. cbn [DoneK]. split.
            -- apply (Hsound st (ents_fc_eq_refl st)). intros ti x Hx. right. split; [exact Hx|]. intros _ _ Ho. congruence.
            -- intros v Hf Hn. assert (new = v) as Hnv by (unfold new; rewrite Hf; reflexivity). congruence.
    Qed.

    Lemma au_fkcons f t nl sv st' : In (CFkCons f t nl) (cons_of sch s) -> SvOK st0 c (CFkCons f t nl) sv ->
      after_update_one sch st c (CFkCons f t nl) sv = Ok st' -> Post (CFkCons f t nl) st'.
    Proof.
      intros Hin Hsv H.
      cbn [after_update_one SvOK] in *. rewrite Hi in *. fold s in H, Hsv.
      set (new := fv_bytes (get_field sch st s i f)) in *. set (old := sv_atom sv) in *.
      pose proof HMid as [_ [_ [_ [_ [_ [_ [_ ME]]]]]]].
      destruct (negb (ic_create c) && str_eqb old new) eqn:Eshort.
      - inversion H; subst st'. apply andb_prop in Eshort as [Ecr Eq]. apply str_eqb_eq in Eq. apply negb_true_iff in Ecr.
        apply Post_same. cbn [DoneK]. intros v Hf Hn. apply ME.
        assert (fv_bytes (get_field sch st0 s i f) = v) as Hv0.
        { unfold NoTraceInv.fbytes in Hsv. rewrite <- Hsv. fold old. rewrite Eq. unfold new. rewrite Hf. reflexivity. }
        destruct HInv0 as [[_ [_ [_ [_ [HC0 _]]]]] HFS0].
        pose proof (fv_bytes_str st0 s i f v HFS0 (wp_fc_nosys sch W _ _ _ _ Hin) Hv0 Hn) as Hf0.
        apply (HC0 s f t nl i v Hin (fun x => x) (Hupd Ecr) Hf0 Hn).
      - destruct (nonempty new) eqn:Enew.
        + destruct (present sch st t new) eqn:Epn; [|discriminate]. inversion H; subst st'.
          apply Post_same. cbn [DoneK]. intros v Hf Hn.
          assert (new = v) as <- by (unfold new; rewrite Hf; reflexivity). exact Epn.
        + destruct nl; [|discriminate]. inversion H; subst st'.
          apply Post_same. cbn [DoneK]. intros v Hf Hn.
          assert (new = v) as Hnv by (unfold new; rewrite Hf; reflexivity). congruence.
    Qed.

    Lemma au_one k sv st' : In k (cons_of sch s) -> SvOK st0 c k sv ->
      after_update_one sch st c k sv = Ok st' -> Post k st'.
    Proof.
      intros Hin Hsv H. destruct k as [f nl|f|f t b nl|b|f t nl|rs f cs|].
      - eapply au_unique; eauto.
      - eapply au_setidx; eauto.
      - eapply au_fkindex; eauto.
      - cbn in H. inversion H; subst. apply Post_same. exact I.
      - eapply au_fkcons; eauto.
      - cbn in H. inversion H; subst. apply Post_same. exact I.
      - assert (st' = st) as ->.
        { cbn in H. destruct (ic_create c); [|inversion H; reflexivity].
          destruct (get_field sch st (ic_store c) (ic_id c) isSystemF) as [| |y|[|]]; try (inversion H; reflexivity).
          destruct (ic_sys c); [inversion H; reflexivity | discriminate]. }
        apply Post_same. exact I.
    Qed.
  End Hook.

  (* ---- the whole constraint list / chain ---- *)
  Fixpoint svs_ok (st0 : state) (c : ictx) (ks : list cons) (svs : list saved) : Prop :=
    match ks with
    | [] => True
    | k :: r => SvOK st0 c k (match svs with x :: _ => x | [] => SvNone end) /\
                svs_ok st0 c r (match svs with _ :: t => t | [] => [] end)
    end.

  Lemma before_all_ok st0 c : forall ks svs, before_update_all sch st0 c ks = Ok svs -> svs_ok st0 c ks svs.
  Proof.
    induction ks as [|k ks IH]; intros svs H; cbn [before_update_all svs_ok] in *; [exact I|].
    destruct (before_update_one sch st0 c k) as [sv|e] eqn:E1; cbn [bind] in H; [|discriminate].
    destruct (before_update_all sch st0 c ks) as [rest|e] eqn:E2; cbn [bind] in H; [|discriminate].
    inversion H; subst svs. split; [|apply IH; reflexivity].
    destruct k; cbn in E1 |- *; try exact I; inversion E1; subst; reflexivity.
  Qed.

  Lemma create_svs_ok st0 c : get_ent st0 (root_of sch (ic_store c)) (ic_id c) = None ->
    forall ks, svs_ok st0 c ks [].
  Proof.
    intros Habs. induction ks as [|k ks IH]; cbn [svs_ok]; [exact I|]. split; [|exact IH].
    destruct k; cbn; try exact I; unfold NoTraceInv.fbytes, get_field, get_set; rewrite Habs; reflexivity.
  Qed.

  Section Lists.
    Variable st0 : state.
    Variable R : name.
    Variable i : id.
    Hypothesis HInv0 : Inv st0.

    Lemma au_all c : ic_id c = i -> root_of sch (ic_store c) = R ->
      (ic_create c = false -> present sch st0 (ic_store c) i = true) ->
      forall ks svs st st', incl ks (cons_of sch (ic_store c)) -> svs_ok st0 c ks svs ->
      Mid st0 R i st -> present sch st (ic_store c) i = true ->
      after_update_all sch st c ks svs = Ok st' ->
      ents_fc_eq st st' /\ Mid st0 R i st' /\ (forall k, In k ks -> DoneK i st' (ic_store c) k) /\
      (forall s2 k2, root_of sch s2 = R -> In k2 (cons_of sch s2) -> DoneK i st s2 k2 -> DoneK i st' s2 k2).
    Proof.
      intros Hi Hr Hupd. induction ks as [|k ks IH]; intros svs st st' Hincl Hsv HM Hp H; cbn [after_update_all svs_ok] in *.
      - inversion H; subst. split; [apply ents_fc_eq_refl|]. split; [exact HM|]. split; [intros k [] | auto].
      - destruct Hsv as [Hsv1 Hsv2].
        destruct (after_update_one sch st c k _) as [st1|e] eqn:E1; cbn [bind] in H; [|discriminate].
        assert (In k (cons_of sch (ic_store c))) as Hin by (apply Hincl; left; reflexivity).
        destruct (au_one st0 R i st c Hi Hr HInv0 HM Hp Hupd k _ st1 Hin Hsv1 E1) as [Hfc1 [HM1 [HD1 Hst1]]].
        assert (present sch st1 (ic_store c) i = true) as Hp1 by (rewrite (present_fc sch st st1); [exact Hp | apply Hfc1]).
        assert (incl ks (cons_of sch (ic_store c))) as Hincl' by (intros y Hy; apply Hincl; right; exact Hy).
        destruct (IH _ st1 st' Hincl' Hsv2 HM1 Hp1 H) as [Hfc2 [HM2 [HD2 Hst2]]].
        split; [eapply ents_fc_eq_trans; eauto|]. split; [exact HM2|]. split.
        + intros k0 [<-|Hk0]; [|apply HD2; exact Hk0]. apply Hst2; [exact Hr | exact Hin | exact HD1].
        + intros s2 k2 A B C. apply Hst2; [exact A | exact B|]. apply Hst1; assumption.
    Qed.

    Fixpoint chain_svs_ok (create sys : bool) (ch : list (name * list cons)) (svss : list (list saved)) : Prop :=
      match ch with
      | [] => True
      | (s', ks) :: r => svs_ok st0 (mkIctx create sys s' i) ks (match svss with x :: _ => x | [] => [] end) /\
                         chain_svs_ok create sys r (match svss with _ :: t => t | [] => [] end)
      end.

    Lemma au_chain create sys : forall ch svss st st',
      (forall s' ks, In (s', ks) ch -> ks = cons_of sch s' /\ root_of sch s' = R /\ present sch st s' i = true /\
                                       (create = false -> present sch st0 s' i = true)) ->
      chain_svs_ok create sys ch svss -> Mid st0 R i st ->
      after_chain sch st create sys i ch svss = Ok st' ->
      ents_fc_eq st st' /\ Mid st0 R i st' /\
      (forall s' ks, In (s', ks) ch -> forall k, In k (cons_of sch s') -> DoneK i st' s' k).
    Proof.
      induction ch as [|[s' ks] ch IH]; intros svss st st' Hch Hsv HM H; cbn [after_chain chain_svs_ok] in *.
      - inversion H; subst. split; [apply ents_fc_eq_refl|]. split; [exact HM | intros s' ks []].
      - destruct Hsv as [Hsv1 Hsv2].
        destruct (after_update_all sch st _ ks _) as [st1|e] eqn:E1; cbn [bind] in H; [|discriminate].
        destruct (Hch s' ks (or_introl eq_refl)) as [-> [Hr [Hp Hup]]].
        destruct (au_all (mkIctx create sys s' i) eq_refl Hr Hup _ _ st st1 (incl_refl _) Hsv1 HM Hp E1) as [Hfc1 [HM1 [HD1 Hst1]]].
        assert (forall s2 ks2, In (s2, ks2) ch -> ks2 = cons_of sch s2 /\ root_of sch s2 = R /\ present sch st1 s2 i = true /\
                                                  (create = false -> present sch st0 s2 i = true)) as Hch'.
        { intros s2 ks2 Hin2. destruct (Hch s2 ks2 (or_intror Hin2)) as [A [B [C D]]]. repeat split; try assumption.
          rewrite (present_fc sch st st1); [exact C | apply Hfc1]. }
        destruct (IH _ st1 st' Hch' Hsv2 HM1 H) as [Hfc2 [HM2 HD2]].
        split; [eapply ents_fc_eq_trans; eauto|]. split; [exact HM2|].
        intros s2 ks2 [Heq|Hin2] k Hk.
        + inversion Heq; subst s2 ks2. cbn [ic_store] in *.
          (* stability along the rest of the chain *)
          clear - W HInv0 HD1 Hk Hr H HM1 Hch' Hsv2.
          revert st1 st' svss HD1 H HM1 Hch' Hsv2. induction ch as [|[s3 ks3] ch IHc]; intros st1 st' svss HD1 H HM1 Hch' Hsv2; cbn [after_chain chain_svs_ok] in *.
          * inversion H; subst. apply HD1. exact Hk.
          * destruct Hsv2 as [Hsva Hsvb].
            destruct (after_update_all sch st1 _ ks3 _) as [st2|e] eqn:E2; cbn [bind] in H; [|discriminate].
            destruct (Hch' s3 ks3 (or_introl eq_refl)) as [-> [Hr3 [Hp3 Hup3]]].
            destruct (au_all (mkIctx create sys s3 i) eq_refl Hr3 Hup3 _ _ st1 st2 (incl_refl _) Hsva HM1 Hp3 E2) as [Hfc2 [HM2 [_ Hst2]]].
            eapply (IHc st2 st' _); [| exact H | exact HM2 | | exact Hsvb].
            -- intros k0 Hk0. apply Hst2; [exact Hr | exact Hk0 | apply HD1; exact Hk0].
            -- intros s4 ks4 Hin4. destruct (Hch' s4 ks4 (or_intror Hin4)) as [A [B [C D]]]. repeat split; try assumption.
               rewrite (present_fc sch st1 st2); [exact C | apply Hfc2].
        + eapply HD2; eauto.
    Qed.
  End Lists.
End Write.
