(* C16, fifth strengthening: BaseStore.DeleteWhere from an ordinary context over a population that mixes system and
   ordinary entities.

   DeleteWhere (Store/XOps.v [XDeleteWhere]: QueryIds of the filter through the store, then DeleteById for every id in the
   order of the result, returning the FIRST error) is a derived operation: it expands to [map (ODelete s0) ids].  What the
   system-entity constraint demands of it follows from the delete frame of Store/SystemProofs.v: every DeleteById of an
   ordinary context that SUCCEEDS relates the states by [SK] (no flagged entity of the family disappears, survivors keep
   their fields), so a flagged entity among the collected ids - at ANY position of the id order, whatever is deleted before
   it - is still flagged when its own DeleteById is reached, and that one is refused.  The error ends the loop and is what
   DeleteWhere returns; Db.Update rolls back: the content (entities AND index entries) is what it was.

   [Store/Model.v] and [Store/XOps.v] are untouched. *)
From Coq Require Import List NArith Bool.
From Storage Require Import Base.Bytes Store.Model Store.DeleteFrame Store.SystemProofs Store.XOps Store.XOpsProofs.
Import ListNotations.

Section SystemDeleteWhere.
  Variable sch : schema.
  Variable s : name.
  Hypothesis Hwf : wf_system_b sch s = true.

  (* the loop of DeleteWhere: a list of ids that contains a flagged entity of the family cannot be deleted completely *)
  Lemma deletes_hit_system_entity fuel oc s0 i :
    oc_sys oc = false -> root_of sch s0 = s ->
    forall l stev, In i l -> get_field sch (fst stev) s i isSystemF = FBool true ->
    exists k, snd (run_ops sch fuel oc stev (map (ODelete s0) l)) = Err k.
  Proof.
    intros Hord Hr. destruct (wf_system_b_sound sch s Hwf) as [H1 [H2 [H3 H4]]].
    induction l as [|j l IH]; intros stev Hin Hf; [contradiction|].
    cbn [map run_ops run_op].
    destruct (delete_by_id sch oc fuel stev s0 j) as [stev1|k] eqn:E.
    - destruct (delete_sys sch s H1 H2 oc Hord fuel stev s0 j stev1 E) as [[_ Hkeep] Hnot].
      destruct Hin as [->|Hin].
      + exfalso. apply (Hnot Hr). exact Hf.
      + destruct (IH stev1 Hin (Hkeep i Hf)) as [k Hk].
        destruct (run_ops sch fuel oc stev1 (map (ODelete s0) l)) as [rs fin]. cbn [snd] in *. exists k. exact Hk.
    - exists k. reflexivity.
  Qed.

  (* operation level: every state, every fuel, any filter, through the root store or any child store *)
  Lemma delete_where_refused_lemma fuel oc stev s0 flt i :
    oc_sys oc = false -> root_of sch s0 = s ->
    In i (dw_ids sch (fst stev) s0 flt) -> get_field sch (fst stev) s i isSystemF = FBool true ->
    exists k, run_xop sch fuel oc stev (XDeleteWhere s0 flt) = Err k.
  Proof.
    intros Hord Hr Hin Hf. unfold run_xop. cbn [xexpand]. unfold dw_expand.
    apply (deletes_hit_system_entity fuel oc s0 i Hord Hr _ stev Hin Hf).
  Qed.

  (* transaction level: the body fails and Db.Update leaves the content as it was *)
  Lemma delete_where_requires_system_ctx_lemma fuel st t pre s0 flt post stev' i :
    xtx_sys t = false ->
    xtx_ops t = pre ++ XDeleteWhere s0 flt :: post ->
    snd (run_xops sch fuel (mkOctx (xtx_sys t) (xtx_vetoes t)) (st, []) pre) = Ok stev' ->
    root_of sch s0 = s ->
    In i (dw_ids sch (fst stev') s0 flt) -> get_field sch (fst stev') s i isSystemF = FBool true ->
    (exists k, run_xop sch fuel (mkOctx (xtx_sys t) (xtx_vetoes t)) stev' (XDeleteWhere s0 flt) = Err k) /\
    (exists rs, run_xtx sch fuel st t = (rs, false, st, [])).
  Proof.
    intros Hy Hops Hpre Hr Hin Hf.
    destruct (delete_where_refused_lemma fuel (mkOctx (xtx_sys t) (xtx_vetoes t)) stev' s0 flt i Hy Hr Hin Hf) as [k Hk].
    split; [exists k; exact Hk|].
    pose proof (run_xops_failure_propagates _ _ _ pre _ post _ _ _ Hpre Hk) as Hfail.
    unfold run_xtx. rewrite Hops.
    destruct (run_xops sch fuel _ (st, []) (pre ++ XDeleteWhere s0 flt :: post)) as [rs fin]. cbn [snd] in Hfail. subst fin.
    exists rs. reflexivity.
  Qed.

  (* the converse reading used by the oracle: a DeleteWhere of an ordinary context that returned nil matched no flagged
     entity of the family *)
  Lemma delete_where_ok_no_system_entity_lemma fuel oc stev s0 flt stev' :
    oc_sys oc = false -> root_of sch s0 = s ->
    run_xop sch fuel oc stev (XDeleteWhere s0 flt) = Ok stev' ->
    forall i, In i (dw_ids sch (fst stev) s0 flt) -> get_field sch (fst stev) s i isSystemF <> FBool true.
  Proof.
    intros Hord Hr Hok i Hin Hf.
    destruct (delete_where_refused_lemma fuel oc stev s0 flt i Hord Hr Hin Hf) as [k Hk]. congruence.
  Qed.
End SystemDeleteWhere.

(* ================================================================ the constraint on a CHILD store (Store/SystemChild.v) *)
From Storage Require Import Store.SystemChild.

(* a DeleteWhere of an ordinary context - through any store of the family - whose collected ids contain a flagged entity the
   constrained child store c can load fails, wherever that id sits in the result *)
Lemma child_deletes_hit_system_entity sch c fuel oc s0 i :
  wf_system_child_b sch c = true -> oc_sys oc = false -> root_of sch s0 = root_of sch c ->
  forall l stev, In i l ->
    get_field sch (fst stev) c i isSystemF = FBool true -> loadable sch (fst stev) c i = true ->
    exists k, snd (run_ops sch fuel oc stev (map (ODelete s0) l)) = Err k.
Proof.
  intros Hwf Hy Hr. unfold wf_system_child_b in Hwf.
  destruct (find_store sch c) as [cd|] eqn:Hfind; [|discriminate].
  destruct (sd_parent cd) as [r|] eqn:Hparent; [|discriminate].
  destruct (find_store sch r) as [pd|] eqn:Hrfind; [|discriminate].
  destruct (sd_parent pd) eqn:Hrroot; [discriminate|].
  apply andb_prop in Hwf as [Hwf H3]. apply andb_prop in Hwf as [H1 H2]. apply negb_true_iff in H3.
  assert (Hsys : In CSystem (sd_cons cd)).
  { apply existsb_exists in H2 as [k [Hin Hk]]. destruct k; try discriminate. exact Hin. }
  assert (Hrc : root_of sch c = r) by (apply (root_c sch c r cd Hfind Hparent)).
  rewrite Hrc in Hr.
  induction l as [|j l IH]; intros stev Hin Hf Hl; [contradiction|].
  cbn [map run_ops run_op].
  destruct (delete_by_id sch oc fuel stev s0 j) as [stev1|k] eqn:E.
  - destruct (delete_sysc sch c r cd pd Hfind Hparent Hrfind Hrroot Hsys H3 oc Hy fuel stev s0 j stev1 E) as [[_ Hkeep] Hnot].
    assert (Hd : dprot sch c (fst stev) i) by (split; assumption).
    destruct Hin as [->|Hin].
    + exfalso. apply (Hnot Hr). exact Hd.
    + destruct (Hkeep i Hd) as [Hf1 Hl1].
      destruct (IH stev1 Hin Hf1 Hl1) as [k Hk].
      destruct (run_ops sch fuel oc stev1 (map (ODelete s0) l)) as [rs fin]. cbn [snd] in *. exists k. exact Hk.
  - exists k. reflexivity.
Qed.

Lemma child_delete_where_refused_lemma sch c fuel oc stev s0 flt i :
  wf_system_child_b sch c = true -> oc_sys oc = false -> root_of sch s0 = root_of sch c ->
  In i (dw_ids sch (fst stev) s0 flt) ->
  get_field sch (fst stev) c i isSystemF = FBool true -> loadable sch (fst stev) c i = true ->
  exists k, run_xop sch fuel oc stev (XDeleteWhere s0 flt) = Err k.
Proof.
  intros Hwf Hy Hr Hin Hf Hl. unfold run_xop. cbn [xexpand]. unfold dw_expand.
  apply (child_deletes_hit_system_entity sch c fuel oc s0 i Hwf Hy Hr _ stev Hin Hf Hl).
Qed.
