(* C06 - a committed delete leaves no trace of the entity's id: the invariant holds in every reachable
   state, DeleteById removes the entity, and an id that is not an entity is mentioned nowhere. *)
From Coq Require Import List NArith Bool Lia.
From Storage Require Import Base.Bytes Base.BytesFacts Store.Model Store.AListFacts Store.FrameProofs
     Store.NoTrace Store.NoTraceFacts Store.NoTraceInv Store.NoTraceDelete Store.NoTraceWrite Store.NoTraceOps
     Store.NoTraceLinks Store.NoTraceWf.
Import ListNotations.

Section Histories.
  Variable sch : schema.
  Hypothesis W : wfprops sch.

  Notation Inv := (NoTraceWrite.Inv sch).

  Lemma FieldsStr_shrink st st' : ents_shrink st st' -> FieldsStr st -> FieldsStr st'.
  Proof.
    intros Hs H r j e' He'. specialize (Hs r j). rewrite He' in Hs. destruct Hs as [e [He [A B]]].
    destruct (H r j e He) as [[C D] E1]. split; [split; [rewrite A; exact C | rewrite B; exact D] | unfold ec_one; rewrite B; exact E1].
  Qed.

  Lemma delete_inv oc fuel st evs s x st' evs' :
    Inv st -> delete_by_id sch oc fuel (st, evs) s x = Ok (st', evs') ->
    Inv st' /\ get_ent st' (root_of sch s) x = None.
  Proof.
    intros [HD HFS] H. destruct (delete_spec sch W oc fuel gnone (st, evs) s x (st', evs') HD H) as [A [B C]].
    cbn [fst] in *. split; [split; [exact A|] | exact C]. destruct B as [_ [_ [_ Hs]]]. eapply FieldsStr_shrink; eauto.
  Qed.

  Lemma run_op_inv fuel oc st evs o st' evs' :
    Inv st -> run_op sch fuel oc (st, evs) o = Ok (st', evs') -> Inv st'.
  Proof.
    intros HI H. destruct o as [s0 i sys fv sv|s0 i fv sv ch|s0 i|s0 i lf ts|s0 i lf ts|]; cbn [run_op] in H.
    - eapply op_create_inv; eauto.
    - eapply op_update_inv; eauto.
    - eapply delete_inv; eauto.
    - cbn [fst snd] in H. destruct (op_add_links sch st s0 i lf ts) as [st1|e] eqn:E; cbn [bind] in H; [|discriminate].
      inversion H; subst. eapply op_add_links_inv; eauto.
    - cbn [fst snd] in H. destruct (op_remove_links sch st s0 i lf ts) as [st1|e] eqn:E; cbn [bind] in H; [|discriminate].
      inversion H; subst. eapply op_remove_links_inv; eauto.
    - discriminate.
  Qed.

  Lemma run_ops_inv fuel oc : forall ops st evs rs st' evs',
    Inv st -> run_ops sch fuel oc (st, evs) ops = (rs, Ok (st', evs')) -> Inv st'.
  Proof.
    induction ops as [|o ops IH]; intros st evs rs st' evs' HI H; cbn [run_ops] in H.
    - inversion H; subst. exact HI.
    - destruct (run_op sch fuel oc (st, evs) o) as [[st1 evs1]|e] eqn:E1; [|inversion H].
      destruct (run_ops sch fuel oc (st1, evs1) ops) as [rs1 fin] eqn:E2. inversion H; subst.
      eapply IH; [|exact E2]. eapply run_op_inv; eauto.
  Qed.

  Lemma run_tx_inv fuel st t : Inv st -> Inv (match run_tx sch fuel st t with (_, _, st', _) => st' end).
  Proof.
    intros HI. unfold run_tx.
    destruct (run_ops sch fuel _ (st, []) (tx_ops t)) as [rs fin] eqn:E. destruct fin as [[st1 evs1]|e]; [|exact HI].
    destruct (tx_precommit_fails t); [exact HI|]. eapply run_ops_inv; eauto.
  Qed.

  Lemma run_txs_inv fuel : forall ts st, Inv st -> Inv (run_txs sch fuel st ts).
  Proof.
    unfold run_txs. induction ts as [|t ts IH]; intros st HI; cbn [fold_left]; [exact HI|].
    apply IH. apply run_tx_inv. exact HI.
  Qed.

  Lemma Inv_empty : Inv st_empty.
  Proof.
    split.
    - refine (conj _ (conj _ (conj _ (conj _ (conj _ _))))).
      + intros r f v x H. cbn in H. discriminate.
      + intros r f v x H. cbn in H. contradiction.
      + intros s f t b nl ti x _ H. cbn in H. contradiction.
      + intros s f t b nl y v _ _ H. unfold present in H. cbn in H. discriminate.
      + intros s f t nl y v _ _ H. unfold present in H. cbn in H. discriminate.
      + intros s lf os of_ x t _ _ H. cbn in H. contradiction.
    - intros r j e H. cbn in H. discriminate.
  Qed.

  (* an id that is not an entity of R is mentioned nowhere *)
  Lemma absent_not_mentioned st R x : Inv st -> root_of sch R = R -> get_ent st R x = None -> ~ mentions sch st R x.
  Proof.
    intros [[HU [HS [HB [HF [HC HL]]]]] _] HR Habs Hm.
    destruct Hm as [Hm|[[f [v Hm]]|[[f [v Hm]]|[[s [f [t [b [nl [ti [Hr [Hin Hm]]]]]]]]|[[s [lf [os [of_ [i [Hin [Hr Hm]]]]]]]|
                    [s [f [t [y [Hr [Hk [Hne [Hp Hf]]]]]]]]]]]]].
    - exact (Hm Habs).
    - destruct (HU R f v x Hm) as [s [nl [A [_ [_ [D _]]]]]]. apply present_get_ent in D. rewrite A in D. exact (D Habs).
    - destruct (HS R f v x Hm) as [_ [_ [_ [_ B]]]]. exact (eset_in_ent _ _ _ _ _ B Habs).
    - destruct (HB s f t b nl ti x Hin Hm) as [_ [B _]]. apply present_get_ent in B. rewrite Hr in B. exact (B Habs).
    - destruct (HL s lf os of_ i x Hin (fun q => q) Hm) as [Hx _]. rewrite Hr in Hx. exact (eset_in_ent _ _ _ _ _ Hx Habs).
    - destruct Hk as [[b [nl Hin]]|[nl Hin]].
      + destruct (HF s f t b nl y x Hin (fun q => q) Hp Hf Hne) as [Hx _]. rewrite Hr in Hx. exact (eset_in_ent _ _ _ _ _ Hx Habs).
      + pose proof (HC s f t nl y x Hin (fun q => q) Hp Hf Hne) as Hx. apply present_get_ent in Hx. rewrite Hr in Hx. exact (Hx Habs).
  Qed.

  Lemma delete_leaves_no_trace_lemma fuel txs oc fuel' evs s x st' evs' :
    delete_by_id sch oc fuel' (run_txs sch fuel st_empty txs, evs) s x = Ok (st', evs') ->
    ~ mentions sch st' (root_of sch s) x.
  Proof.
    intros H. destruct (delete_inv oc fuel' _ evs s x st' evs' (run_txs_inv fuel txs st_empty Inv_empty) H) as [A B].
    apply absent_not_mentioned; [exact A | apply (wp_roots sch W) | exact B].
  Qed.

  (* link collections are symmetric in every state satisfying the invariant *)
  Lemma links_symmetric_lemma st s lf os of_ x t : Inv st -> In (lf, os, of_) (links_of sch s) ->
    (In t (eset st (root_of sch s) x lf) <-> In x (eset st (root_of sch os) t of_)) /\
    (In t (eset st (root_of sch s) x lf) -> present sch st s x = true /\ present sch st os t = true).
  Proof.
    intros [[_ [_ [_ [_ [_ HL]]]]] _] Hin. split; [split|]; intros H.
    - exact (proj1 (HL s lf os of_ x t Hin (fun q => q) H)).
    - exact (proj1 (HL os of_ s lf t x (wp_link_sym sch W _ _ _ _ Hin) (fun q => q) H)).
    - exact (proj2 (HL s lf os of_ x t Hin (fun q => q) H)).
  Qed.

  (* re-creating an id that is not mentioned: the existence checks pass, and afterwards the invariant holds
     again, i.e. everything that mentions the id is justified by the record just written; its fields and
     child data are those of a create on an empty entity bucket *)
  Lemma recreate_lemma st s x : ~ mentions sch st (root_of sch s) x ->
    present sch st s x = false /\ present sch st (root_of sch s) x = false.
  Proof.
    intros Hm. assert (get_ent st (root_of sch s) x = None) as Habs.
    { destruct (get_ent st (root_of sch s) x) eqn:E; [|reflexivity]. exfalso. apply Hm. left. congruence. }
    unfold present. rewrite (wp_roots sch W), Habs. split; reflexivity.
  Qed.

  Lemma create_fresh_entity oc st evs s x sys fv sv st' evs' :
    op_create sch oc (st, evs) s x sys fv sv = Ok (st', evs') ->
    exists e', get_ent st' (root_of sch s) x = Some e' /\
               e_f e' = e_f (persist sch s true sys fv sv None ent_empty) /\
               e_c e' = e_c (persist sch s true sys fv sv None ent_empty).
  Proof.
    intros H. unfold op_create in H.
    destruct (find_store sch s) as [d0|]; [|discriminate].
    destruct (negb (nonempty x)); [discriminate|].
    destruct (present sch st s x); [discriminate|].
    destruct (present sch st (root_of sch s) x); [discriminate|].
    destruct (negb (key_ok x)); [discriminate|].
    destruct (fire_cu sch oc evs s Created x) as [evs1|e]; cbn [bind] in H; [|discriminate].
    destruct (after_chain sch _ true (oc_sys oc) x (chain sch s) []) as [st2|e] eqn:Eac; cbn [bind] in H; [|discriminate].
    inversion H; subst st' evs'. clear H.
    set (e1 := persist sch s true sys fv sv None ent_empty) in *.
    assert (Hfc : forall ch svss stA stB, after_chain sch stA true (oc_sys oc) x ch svss = Ok stB -> ents_fc_eq stA stB).
    { clear. induction ch as [|[s' ks] ch IH]; intros svss stA stB H; cbn [after_chain] in H.
      - inversion H; subst. apply ents_fc_eq_refl.
      - destruct (after_update_all sch stA _ ks _) as [st1|e] eqn:E1; cbn [bind] in H; [|discriminate].
        eapply ents_fc_eq_trans; [|eapply IH; exact H].
        clear H IH. revert stA st1 E1. generalize (match svss with x0 :: _ => x0 | [] => [] end).
        induction ks as [|k ks IHk]; intros svs stA st1 E1; cbn [after_update_all] in E1.
        + inversion E1; subst. apply ents_fc_eq_refl.
        + destruct (after_update_one sch stA _ k _) as [st3|e] eqn:E3; cbn [bind] in E1; [|discriminate].
          eapply ents_fc_eq_trans; [apply (after_update_one_frame _ _ _ _ _ _ E3) | eapply IHk; exact E1]. }
    pose proof (Hfc _ _ _ _ Eac (root_of sch s) x) as Hx. rewrite get_ent_set_ent, !str_eqb_refl in Hx. cbn [andb] in Hx.
    unfold ent_fc_eq in Hx. destruct (get_ent st2 (root_of sch s) x) as [e'|]; [|contradiction].
    exists e'. destruct Hx as [A B]. repeat split; assumption.
  Qed.
End Histories.

(* ---- the statements of Properties/C06.v, for every schema passing the boolean check ---- *)
Section Final.
  Variable sch : schema.
  Hypothesis Hwf : wf_notrace_b sch = true.

  Let W := wf_notrace_b_sound sch Hwf.

  Lemma reachable_inv fuel txs : NoTraceWrite.Inv sch (run_txs sch fuel st_empty txs).
  Proof. apply (run_txs_inv sch W). apply Inv_empty. Qed.

  Lemma final_delete_no_trace fuel txs oc fuel' evs s x st' evs' :
    delete_by_id sch oc fuel' (run_txs sch fuel st_empty txs, evs) s x = Ok (st', evs') ->
    ~ mentions sch st' (root_of sch s) x.
  Proof. apply (delete_leaves_no_trace_lemma sch W). Qed.

  Lemma final_delete_step oc fuel st evs s x st' evs' :
    NoTraceWrite.Inv sch st -> delete_by_id sch oc fuel (st, evs) s x = Ok (st', evs') ->
    NoTraceWrite.Inv sch st' /\ ~ mentions sch st' (root_of sch s) x.
  Proof.
    intros HI H. destruct (delete_inv sch W oc fuel st evs s x st' evs' HI H) as [A B]. split; [exact A|].
    apply (absent_not_mentioned sch); [exact A | apply (wp_roots sch W) | exact B].
  Qed.

  Lemma run_ops_last_delete fuel oc s x : forall pre stev rs st' evs',
    NoTraceWrite.Inv sch (fst stev) ->
    run_ops sch fuel oc stev (pre ++ [ODelete s x]) = (rs, Ok (st', evs')) ->
    ~ mentions sch st' (root_of sch s) x.
  Proof.
    induction pre as [|o pre IH]; intros [st evs] rs st' evs' HI H; cbn [app run_ops] in H.
    - cbn [run_op] in H. destruct (delete_by_id sch oc fuel (st, evs) s x) as [[st1 evs1]|e] eqn:E; [|inversion H].
      inversion H; subst. apply (final_delete_step oc fuel st evs s x st' evs' HI E).
    - destruct (run_op sch fuel oc (st, evs) o) as [[st1 evs1]|e] eqn:E1; [|inversion H].
      destruct (run_ops sch fuel oc (st1, evs1) (pre ++ [ODelete s x])) as [rs1 fin] eqn:E2. inversion H; subst.
      eapply (IH (st1, evs1)); [|exact E2]. cbn [fst] in *. eapply (run_op_inv sch W); eauto.
  Qed.

  Lemma final_committed_delete fuel txs t pre s x rs st' evs :
    tx_ops t = pre ++ [ODelete s x] ->
    run_tx sch fuel (run_txs sch fuel st_empty txs) t = (rs, true, st', evs) ->
    ~ mentions sch st' (root_of sch s) x.
  Proof.
    intros Hops H. unfold run_tx in H. rewrite Hops in H.
    destruct (run_ops sch fuel _ (run_txs sch fuel st_empty txs, []) (pre ++ [ODelete s x])) as [rs1 fin] eqn:E.
    destruct fin as [[st1 evs1]|e]; [|inversion H]. destruct (tx_precommit_fails t); [inversion H|]. inversion H; subst.
    eapply run_ops_last_delete; [|exact E]. apply reachable_inv.
  Qed.

  Lemma final_absent fuel txs R x : root_of sch R = R ->
    get_ent (run_txs sch fuel st_empty txs) R x = None -> ~ mentions sch (run_txs sch fuel st_empty txs) R x.
  Proof. intros HR. apply (absent_not_mentioned sch); [apply reachable_inv | exact HR]. Qed.

  Lemma final_links_symmetric fuel txs s lf os of_ x t : In (lf, os, of_) (links_of sch s) ->
    (In t (eset (run_txs sch fuel st_empty txs) (root_of sch s) x lf) <-> In x (eset (run_txs sch fuel st_empty txs) (root_of sch os) t of_)) /\
    (In t (eset (run_txs sch fuel st_empty txs) (root_of sch s) x lf) ->
       present sch (run_txs sch fuel st_empty txs) s x = true /\ present sch (run_txs sch fuel st_empty txs) os t = true).
  Proof. apply (links_symmetric_lemma sch W). apply reachable_inv. Qed.

  Lemma final_recreate st s x : NoTraceWrite.Inv sch st -> ~ mentions sch st (root_of sch s) x ->
    present sch st s x = false /\ present sch st (root_of sch s) x = false /\
    forall oc evs sys fv sv st' evs', op_create sch oc (st, evs) s x sys fv sv = Ok (st', evs') ->
      NoTraceWrite.Inv sch st' /\
      exists e', get_ent st' (root_of sch s) x = Some e' /\
                 e_f e' = e_f (persist sch s true sys fv sv None ent_empty) /\
                 e_c e' = e_c (persist sch s true sys fv sv None ent_empty).
  Proof.
    intros HI Hm. destruct (recreate_lemma sch W st s x Hm) as [A B]. split; [exact A|]. split; [exact B|].
    intros oc evs sys fv sv st' evs' H. split; [eapply (op_create_inv sch W); eauto | eapply create_fresh_entity; eauto].
  Qed.

  Lemma final_delete_then_recreate fuel txs oc fuel' evs s x st' evs' :
    delete_by_id sch oc fuel' (run_txs sch fuel st_empty txs, evs) s x = Ok (st', evs') ->
    present sch st' s x = false /\ present sch st' (root_of sch s) x = false /\
    forall oc2 evs2 sys fv sv st2 evs2', op_create sch oc2 (st', evs2) s x sys fv sv = Ok (st2, evs2') ->
      NoTraceWrite.Inv sch st2 /\
      exists e', get_ent st2 (root_of sch s) x = Some e' /\
                 e_f e' = e_f (persist sch s true sys fv sv None ent_empty) /\
                 e_c e' = e_c (persist sch s true sys fv sv None ent_empty).
  Proof.
    intros H. destruct (final_delete_step oc fuel' _ evs s x st' evs' (reachable_inv fuel txs) H) as [A B].
    apply final_recreate; assumption.
  Qed.
End Final.
