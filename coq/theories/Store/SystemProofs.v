(* C16: the system-entity constraint of the store machine.
   Fixed: a schema and a ROOT store [s] whose constraint list contains [CSystem]
   (boolean check [wf_system_b] at the end of the file, with its soundness proof). *)
From Coq Require Import List NArith Bool Lia.
From Storage Require Import Base.Bytes Base.BytesFacts Store.Model Store.AListFacts Store.FrameProofs
  Store.TxProofs Store.DeleteFrame.
Import ListNotations.

(* ---------------------------------------------------------------- persisting never touches an undeclared field *)
Lemma persist_fields_other decl fv ch g : forall cur,
  existsb (fun p : name * bool => str_eqb (fst p) g) decl = false ->
  al_get g (persist_fields decl fv ch cur) = al_get g cur.
Proof.
  unfold persist_fields. induction decl as [|[f ptr] decl IH]; intros cur Hn; cbn [fold_left]; [reflexivity|].
  cbn [existsb fst] in Hn. apply orb_false_iff in Hn as [Hf Hn]. rewrite (IH _ Hn).
  apply str_eqb_neq in Hf.
  destruct (checked ch f); [|reflexivity].
  destruct (lookup_fv fv f) as [[v|]|]; try destruct ptr; apply al_get_put_other; exact Hf.
Qed.

Definition is_sys (k : cons) : bool := match k with CSystem => true | _ => false end.

Lemma cons_eq_sys k : {k = CSystem} + {k <> CSystem}.
Proof. destruct k; try (right; discriminate). left; reflexivity. Qed.

Section System.
  Variable sch : schema.
  Variable s : name.

  Definition flag (st : state) (i : id) : fval := get_field sch st s i isSystemF.
  Definition flagged (st : state) (i : id) : Prop := flag st i = FBool true.

  Hypothesis Hroot : is_child sch s = false.
  Hypothesis Hsys : In CSystem (cons_of sch s).
  (* no store declares a field called isSystem of its own *)
  Hypothesis Hnofield : forall x d, find_store sch x = Some d -> declares_field d isSystemF = false.
  (* store names are unique: the children listed for a root really have that root *)
  Hypothesis Hchildren : forall r0 d, In d (children_of sch r0) -> root_of sch (sd_name d) = r0.

  Lemma root_s : root_of sch s = s.
  Proof.
    unfold is_child in Hroot. unfold root_of. destruct (find_store sch s) as [d|]; [|reflexivity].
    destruct (sd_parent d); [discriminate | reflexivity].
  Qed.

  Lemma flag_unfold st i :
    flag st i = match get_ent st s i with Some e => ent_field e isSystemF | None => FAbsent end.
  Proof.
    unfold flag, get_field. rewrite root_s. destruct (get_ent st s i) as [e|]; [|reflexivity].
    rewrite Hroot. cbn [andb]. destruct (find_store sch s); reflexivity.
  Qed.

  Lemma flagged_get_ent st i : flagged st i -> get_ent st s i <> None.
  Proof. unfold flagged. rewrite flag_unfold. destruct (get_ent st s i); [congruence | discriminate]. Qed.

  Lemma present_s st i : present sch st s i = match get_ent st s i with Some _ => true | None => false end.
  Proof. unfold present. rewrite root_s, Hroot. reflexivity. Qed.

  Lemma flagged_present st i : flagged st i -> present sch st s i = true.
  Proof. intros H. apply flagged_get_ent in H. rewrite present_s. destruct (get_ent st s i); congruence. Qed.

  Lemma find_store_s : exists d, find_store sch s = Some d.
  Proof.
    unfold cons_of in Hsys. destruct (find_store sch s) as [d|]; [exists d; reflexivity | contradiction].
  Qed.

  Lemma not_child_root x : is_child sch x = false -> root_of sch x = x.
  Proof.
    unfold is_child, root_of. destruct (find_store sch x) as [d|]; [|reflexivity].
    destruct (sd_parent d); [discriminate | reflexivity].
  Qed.

  (* the indexing-context chain always starts with the root store's own constraint list *)
  Lemma chain_head s0 : exists tl, chain sch s0 = (root_of sch s0, cons_of sch (root_of sch s0)) :: tl.
  Proof.
    unfold chain. destruct (is_child sch s0) eqn:E.
    - eexists; reflexivity.
    - rewrite (not_child_root _ E). eexists; reflexivity.
  Qed.

  Lemma chain_s : chain sch s = [(s, cons_of sch s)].
  Proof. unfold chain. rewrite Hroot. reflexivity. Qed.

  (* frames in terms of the flag *)
  Lemma flag_fc st st' i : ents_fc_eq st st' -> flag st' i = flag st i.
  Proof. intros H. unfold flag. apply get_field_fc. apply H. Qed.

  Lemma flag_shrink st st' i : ents_shrink st st' -> get_ent st' s i <> None -> flag st' i = flag st i.
  Proof. intros H Hp. unfold flag. apply get_field_shrink; [exact H | rewrite root_s; exact Hp]. Qed.

  Lemma flag_set_ent_other st r i e j : (r <> s \/ i <> j) -> flag (set_ent st r i e) j = flag st j.
  Proof.
    intros Hne. rewrite !flag_unfold, get_ent_set_ent.
    destruct (str_eqb r s) eqn:E1; destruct (str_eqb i j) eqn:E2; cbn [andb]; try reflexivity.
    apply str_eqb_eq in E1, E2. destruct Hne; contradiction.
  Qed.

  Lemma flag_set_ent_same st i e : flag (set_ent st s i e) i = ent_field e isSystemF.
  Proof. rewrite flag_unfold, get_ent_set_ent, !str_eqb_refl. reflexivity. Qed.

  (* ================================================================ what persist does to the flag *)
  Lemma declares_false_existsb d : declares_field d isSystemF = false ->
    existsb (fun p : name * bool => str_eqb (fst p) isSystemF) (sd_fields d) = false.
  Proof. intros H. exact H. Qed.

  (* the entity persisted by a create / update through a store of the family of s *)
  (* (the store s only has to exist: this and the lemmas marked _gen / the flag-immutability lemmas below do not use the
     constraint, they hold for the family of any root store - Store/SystemChild.v uses them for the families whose constraint
     sits on a child store) *)
  Lemma persist_flag_gen s0 create sys fv sv ch e :
    root_of sch s0 = s -> find_store sch s0 <> None -> find_store sch s <> None ->
    ent_field (persist sch s0 create sys fv sv ch e) isSystemF =
    if create && sys then FBool true else ent_field e isSystemF.
  Proof.
    intros Hr Hf Hs. unfold persist. destruct (find_store sch s0) as [d|] eqn:Ed; [|congruence].
    pose proof (Hnofield _ _ Ed) as Hd.
    unfold root_of in Hr. rewrite Ed in Hr.
    destruct (sd_parent d) as [p|].
    - subst p. destruct (find_store sch s) as [pd|] eqn:Epd; [|congruence].
      pose proof (Hnofield _ _ Epd) as Hpd. unfold ent_field. cbn [e_f].
      destruct (create && sys).
      + rewrite al_get_put_same. reflexivity.
      + rewrite (persist_fields_other _ fv ch isSystemF _ Hpd). reflexivity.
    - unfold ent_field. cbn [e_f]. destruct (create && sys).
      + rewrite al_get_put_same. reflexivity.
      + rewrite (persist_fields_other _ fv ch isSystemF _ Hd). reflexivity.
  Qed.

  Lemma persist_flag s0 create sys fv sv ch e :
    root_of sch s0 = s -> find_store sch s0 <> None ->
    ent_field (persist sch s0 create sys fv sv ch e) isSystemF =
    if create && sys then FBool true else ent_field e isSystemF.
  Proof.
    intros Hr Hf. apply persist_flag_gen; [exact Hr | exact Hf|]. destruct find_store_s as [pd ->]. discriminate.
  Qed.

  (* ================================================================ the hooks refuse *)
  Lemma before_update_one_ok st c k : k <> CSystem -> exists sv, before_update_one sch st c k = Ok sv.
  Proof. destruct k; intros Hk; try (eexists; reflexivity). congruence. Qed.

  Lemma before_all_refuses st c : forall ks,
    In CSystem ks -> ic_store c = s -> ic_create c = false -> ic_sys c = false -> flagged st (ic_id c) ->
    exists k, before_update_all sch st c ks = Err k.
  Proof.
    intros ks Hin Hs Hc Hy Hf. induction ks as [|k ks IH]; [contradiction|].
    cbn [before_update_all].
    assert (Hsysk : before_update_one sch st c CSystem = Err EOther).
    { cbn [before_update_one]. rewrite Hc. cbn [negb]. unfold flagged, flag in Hf. rewrite Hs.
      change [105; 115; 83; 121; 115; 116; 101; 109] with isSystemF. rewrite Hf, Hy. reflexivity. }
    destruct (cons_eq_sys k) as [->|Hk].
    - rewrite Hsysk. eexists; reflexivity.
    - destruct (before_update_one_ok st c k Hk) as [sv ->]. cbn [bind].
      destruct Hin as [->|Hin]; [congruence|]. destruct (IH Hin) as [e ->]. eexists; reflexivity.
  Qed.
  Lemma after_all_refuses c : forall ks svs st,
    In CSystem ks -> ic_store c = s -> ic_create c = true -> ic_sys c = false -> flagged st (ic_id c) ->
    exists k, after_update_all sch st c ks svs = Err k.
  Proof.
    induction ks as [|k ks IH]; intros svs st Hin Hs Hc Hy Hf; [contradiction|].
    cbn [after_update_all].
    destruct (after_update_one sch st c k _) as [st1|e] eqn:E1; cbn [bind]; [|eexists; reflexivity].
    destruct (cons_eq_sys k) as [->|Hk].
    - exfalso. cbn [after_update_one] in E1. rewrite Hc, Hs in E1. unfold flagged, flag in Hf.
      rewrite Hf, Hy in E1. discriminate.
    - destruct Hin as [->|Hin]; [congruence|]. apply IH; try assumption.
      unfold flagged. rewrite (flag_fc st st1); [exact Hf|]. eapply after_update_one_frame. exact E1.
  Qed.

  (* ---- update ---- *)
  Lemma update_in_refuses oc st evs s0 i fv sv ch :
    root_of sch s0 = s -> oc_sys oc = false -> flagged st i ->
    exists k, update_in sch oc (st, evs) s0 i fv sv ch = Err k.
  Proof.
    intros Hr Hy Hf. unfold update_in.
    destruct (negb (nonempty i)); [eexists; reflexivity|].
    destruct (negb (loadable sch st s0 i)); [eexists; reflexivity|].
    destruct (negb (present sch st s0 i)); [eexists; reflexivity|].
    destruct (fire_cu sch oc evs s0 Updated i) as [evs1|e]; cbn [bind]; [|eexists; reflexivity].
    destruct (chain_head s0) as [tl ->]. rewrite Hr. cbn [before_chain].
    destruct (before_all_refuses st (mkIctx false (oc_sys oc) s i) (cons_of sch s)) as [k ->];
      try reflexivity; try assumption.
    cbn [bind]. eexists; reflexivity.
  Qed.

  Lemma op_update_refuses oc st evs s0 i fv sv ch :
    root_of sch s0 = s -> oc_sys oc = false -> flagged st i ->
    exists k, op_update sch oc (st, evs) s0 i fv sv ch = Err k.
  Proof.
    intros Hr Hy Hf. unfold op_update. destruct (find_store sch s0); [|eexists; reflexivity].
    destruct (is_child sch s0) eqn:Ec; [apply update_in_refuses; assumption|].
    destruct (find _ (children_of sch s0)) as [d|] eqn:Efind.
    - apply update_in_refuses; try assumption.
      apply find_some in Efind as [Hin _]. rewrite (Hchildren _ _ Hin).
      rewrite <- Hr. symmetry. apply not_child_root. exact Ec.
    - apply update_in_refuses; assumption.
  Qed.

  (* ---- create with the system flag ---- *)
  Lemma op_create_refuses oc st evs s0 i fv sv :
    root_of sch s0 = s -> oc_sys oc = false ->
    exists k, op_create sch oc (st, evs) s0 i true fv sv = Err k.
  Proof.
    intros Hr Hy. unfold op_create. destruct (find_store sch s0) as [d0|] eqn:Ed; [|eexists; reflexivity].
    destruct (negb (nonempty i)); [eexists; reflexivity|].
    destruct (present sch st s0 i); [eexists; reflexivity|].
    destruct (present sch st (root_of sch s0) i); [eexists; reflexivity|].
    destruct (negb (key_ok i)); [eexists; reflexivity|].
    destruct (fire_cu sch oc evs s0 Created i) as [evs1|e]; cbn [bind]; [|eexists; reflexivity].
    destruct (chain_head s0) as [tl ->]. rewrite Hr. cbn [after_chain].
    destruct (after_all_refuses (mkIctx true (oc_sys oc) s i) (cons_of sch s) []
                (set_ent st s i (persist sch s0 true true fv sv None ent_empty))) as [k ->];
      try reflexivity; try assumption.
    - unfold flagged. cbn [ic_id]. rewrite flag_set_ent_same, persist_flag; [reflexivity | exact Hr | congruence].
    - cbn [bind]. eexists; reflexivity.
  Qed.

  (* a successful create stores exactly the requested flag *)
  Lemma op_create_flag_gen oc st evs s0 i sys fv sv st' evs' :
    find_store sch s <> None ->
    root_of sch s0 = s -> op_create sch oc (st, evs) s0 i sys fv sv = Ok (st', evs') ->
    flag st' i = if sys then FBool true else FAbsent.
  Proof.
    intros Hex Hr H. unfold op_create in H. destruct (find_store sch s0) as [d0|] eqn:Ed; [|discriminate].
    destruct (negb (nonempty i)); [discriminate|].
    destruct (present sch st s0 i); [discriminate|].
    destruct (present sch st (root_of sch s0) i); [discriminate|].
    destruct (negb (key_ok i)); [discriminate|].
    destruct (fire_cu sch oc evs s0 Created i) as [evs1|e]; cbn [bind] in H; [|discriminate].
    destruct (after_chain sch _ true (oc_sys oc) i (chain sch s0) []) as [st2|e] eqn:Eac; cbn [bind] in H; [|discriminate].
    inversion H; subst st' evs'. rewrite Hr in Eac.
    rewrite (flag_fc _ _ i (after_chain_fc _ _ _ _ _ _ _ _ Eac)).
    rewrite flag_set_ent_same, persist_flag_gen; [|exact Hr | congruence | exact Hex].
    cbn [andb]. destruct sys; reflexivity.
  Qed.

  Lemma op_create_flag oc st evs s0 i sys fv sv st' evs' :
    root_of sch s0 = s -> op_create sch oc (st, evs) s0 i sys fv sv = Ok (st', evs') ->
    flag st' i = if sys then FBool true else FAbsent.
  Proof.
    apply op_create_flag_gen. destruct find_store_s as [pd ->]. discriminate.
  Qed.

  (* ================================================================ delete *)
  Definition keeps (st st' : state) : Prop := forall i, flagged st i -> flagged st' i.
  (* entities only disappear, survivors keep their fields, and no system entity disappears *)
  Definition SK (st st' : state) : Prop := ents_shrink st st' /\ keeps st st'.

  Lemma SK_refl a : SK a a.
  Proof. split; [apply ents_shrink_refl | intros i H; exact H]. Qed.

  Lemma SK_trans a b c : SK a b -> SK b c -> SK a c.
  Proof. intros [A1 A2] [B1 B2]. split; [eapply ents_shrink_trans; eauto | intros i H; apply B2, A2, H]. Qed.

  Lemma SK_fc a b : ents_fc_eq a b -> SK a b.
  Proof.
    intros H. split; [apply ents_fc_eq_shrink; exact H|]. intros i Hf. unfold flagged. rewrite (flag_fc a b i H). exact Hf.
  Qed.

  Lemma flag_del_ent_other st r i j : (r <> s \/ i <> j) -> flag (del_ent st r i) j = flag st j.
  Proof.
    intros Hne. rewrite !flag_unfold, get_ent_del_ent.
    destruct (str_eqb r s) eqn:E1; destruct (str_eqb i j) eqn:E2; cbn [andb]; try reflexivity.
    apply str_eqb_eq in E1, E2. destruct Hne; contradiction.
  Qed.

  Section Ordinary.
    Variable oc : octx.
    Hypothesis Hord : oc_sys oc = false.

    (* a successful DeleteById removes no system entity of the family - in particular not its own target *)
    Definition DelSys (del : st_ev -> name -> id -> res st_ev) : Prop :=
      forall stev s0 x stev', del stev s0 x = Ok stev' ->
        SK (fst stev) (fst stev') /\ (root_of sch s0 = s -> ~ flagged (fst stev) x).

    Lemma DelSys_DelR del : DelSys del -> DelR SK del.
    Proof. intros H stev s0 x stev' E. apply (H _ _ _ _ E). Qed.

    Lemma bd_all_sys del c : DelR SK del -> ic_store c = s -> forall ks st evs st' evs',
      In CSystem ks -> before_delete_all sch oc del (st, evs) c ks = Ok (st', evs') -> ~ flagged st (ic_id c).
    Proof.
      intros Hdel Hs. induction ks as [|k ks IH]; intros st evs st' evs' Hin H; [contradiction|].
      cbn [before_delete_all] in H.
      destruct (before_delete_one sch oc del (st, evs) c k) as [[st1 evs1]|e] eqn:E1; cbn [bind] in H; [|discriminate].
      intros Hf. destruct (cons_eq_sys k) as [->|Hk].
      - cbn [before_delete_one] in E1. rewrite Hs in E1. unfold flagged, flag in Hf. rewrite Hf, Hord in E1. discriminate.
      - destruct Hin as [->|Hin]; [congruence|].
        apply (IH st1 evs1 st' evs' Hin H).
        apply (bd_one_R sch oc SK SK_refl SK_trans SK_fc del st evs c k st1 evs1 Hdel E1). exact Hf.
    Qed.

    Lemma process_delete_sys del st evs s0 x st' evs' : DelR SK del -> root_of sch s0 = s ->
      process_delete sch oc del (st, evs) s0 x = Ok (st', evs') -> ~ flagged st x.
    Proof.
      intros Hdel Hr H. unfold process_delete in H.
      destruct (chain_head s0) as [tl Ech]. rewrite Ech, Hr in H. cbn [before_delete_chain] in H.
      destruct (before_delete_all sch oc del (st, evs) _ (cons_of sch s)) as [[st1 evs1]|e] eqn:E1; cbn [bind] in H; [|discriminate].
      apply (bd_all_sys del (mkIctx false (oc_sys oc) s x) Hdel eq_refl _ _ _ _ _ Hsys E1).
    Qed.

    Lemma delete_sys : forall n, DelSys (delete_by_id sch oc n).
    Proof.
      induction n as [|n IH]; intros stev s0 x stev' H; cbn [delete_by_id] in H; [discriminate|].
      pose proof (DelSys_DelR _ IH) as IHR.
      destruct stev as [st evs]. cbn [fst] in *.
      set (r := root_of sch s0) in *.
      destruct (present sch st r x) eqn:Epx; cbn [negb] in H; [|discriminate].
      destruct (children_delete sch oc (delete_by_id sch oc n) x (children_of sch r) (st, evs) [])
        as [[[st1 evs1] flows]|e] eqn:Ech; cbn [bind] in H; [|discriminate].
      pose proof (children_delete_R sch oc SK SK_refl SK_trans SK_fc _ x IHR _ _ _ _ _ Ech) as H1. cbn [fst] in H1, H.
      destruct (present sch st1 r x) eqn:Epx1; cbn [negb] in H.
      - destruct (process_delete sch oc (delete_by_id sch oc n) (st1, evs1) r x) as [[st2 evs2]|e] eqn:Epd;
          cbn [bind] in H; [|discriminate].
        pose proof (process_delete_R sch oc SK SK_refl SK_trans SK_fc _ _ _ _ _ _ _ IHR Epd) as H2.
        cbn [fst snd] in H.
        destruct (fire (oc_vetoes oc) evs2 r Deleted x _) as [evs3|e]; cbn [bind] in H; [|discriminate].
        destruct (fire_flows oc x flows evs3) as [evs4|e]; cbn [bind] in H; [|discriminate].
        inversion H; subst stev'. cbn [fst].
        assert (Hnot1 : r = s -> ~ flagged st1 x).
        { intros Hrs. apply (process_delete_sys _ _ _ _ _ _ _ IHR (eq_trans (f_equal (root_of sch) Hrs) root_s) Epd). }
        split.
        + eapply SK_trans; [exact H1|]. eapply SK_trans; [exact H2|]. split; [apply del_ent_shrink|].
          intros i Hf. destruct (str_eq_dec r s) as [Hrs|Hrs].
          * destruct (str_eq_dec x i) as [<-|Hxi].
            -- exfalso. apply (Hnot1 Hrs). unfold flagged.
               rewrite <- (flag_shrink st1 st2 x (proj1 H2) (flagged_get_ent _ _ Hf)). exact Hf.
            -- unfold flagged. rewrite flag_del_ent_other; [exact Hf | right; exact Hxi].
          * unfold flagged. rewrite flag_del_ent_other; [exact Hf | left; exact Hrs].
        + intros Hrs Hf. apply (Hnot1 Hrs). apply (proj2 H1). exact Hf.
      - inversion H; subst stev'. cbn [fst]. split; [exact H1|].
        intros Hrs Hf. apply (proj2 H1) in Hf. apply flagged_present in Hf.
        fold r in Hrs. rewrite Hrs in Epx1. congruence.
    Qed.

    Lemma delete_refuses n st evs s0 x :
      root_of sch s0 = s -> flagged st x -> exists k, delete_by_id sch oc n (st, evs) s0 x = Err k.
    Proof.
      intros Hr Hf. destruct (delete_by_id sch oc n (st, evs) s0 x) as [stev'|k] eqn:E; [|eexists; reflexivity].
      exfalso. destruct (delete_sys n _ _ _ _ E) as [_ Hn]. apply (Hn Hr). exact Hf.
    Qed.
  End Ordinary.

  (* ================================================================ the flag is immutable *)
  Lemma persist_flag_update s0 fv sv ch e : root_of sch s0 = s ->
    ent_field (persist sch s0 false false fv sv ch e) isSystemF = ent_field e isSystemF.
  Proof.
    intros Hr. unfold persist. destruct (find_store sch s0) as [d|] eqn:Ed; [|reflexivity].
    pose proof (Hnofield _ _ Ed) as Hd.
    destruct (sd_parent d) as [p|].
    - destruct (find_store sch p) as [pd|] eqn:Epd; [|reflexivity].
      pose proof (Hnofield _ _ Epd) as Hpd. unfold ent_field. cbn [e_f andb].
      rewrite (persist_fields_other _ fv ch isSystemF _ Hpd). reflexivity.
    - unfold ent_field. cbn [e_f andb]. rewrite (persist_fields_other _ fv ch isSystemF _ Hd). reflexivity.
  Qed.

  Lemma update_in_flag oc st evs s0 i fv sv ch st' evs' j :
    update_in sch oc (st, evs) s0 i fv sv ch = Ok (st', evs') -> flag st' j = flag st j.
  Proof.
    intros H. unfold update_in in H.
    destruct (negb (nonempty i)); [discriminate|].
    destruct (negb (loadable sch st s0 i)); [discriminate|].
    destruct (negb (present sch st s0 i)); [discriminate|].
    destruct (fire_cu sch oc evs s0 Updated i) as [evs1|e]; cbn [bind] in H; [|discriminate].
    destruct (before_chain sch st false (oc_sys oc) i (chain sch s0)) as [svs|e]; cbn [bind] in H; [|discriminate].
    destruct (after_chain sch _ false (oc_sys oc) i (chain sch s0) svs) as [st2|e] eqn:Eac; cbn [bind] in H; [|discriminate].
    inversion H; subst st' evs'.
    rewrite (flag_fc _ _ j (after_chain_fc _ _ _ _ _ _ _ _ Eac)).
    destruct (str_eq_dec (root_of sch s0) s) as [Hr|Hr]; [destruct (str_eq_dec i j) as [<-|Hij]|].
    - rewrite Hr, flag_set_ent_same, persist_flag_update by exact Hr.
      rewrite flag_unfold. destruct (get_ent st s i); reflexivity.
    - apply flag_set_ent_other. right. exact Hij.
    - apply flag_set_ent_other. left. exact Hr.
  Qed.

  Lemma op_update_flag oc st evs s0 i fv sv ch st' evs' j :
    op_update sch oc (st, evs) s0 i fv sv ch = Ok (st', evs') -> flag st' j = flag st j.
  Proof.
    intros H. unfold op_update in H. destruct (find_store sch s0); [|discriminate].
    destruct (is_child sch s0); [eapply update_in_flag; eauto|].
    destruct (find _ (children_of sch s0)); eapply update_in_flag; eauto.
  Qed.

  Lemma op_create_flag_other oc st evs s0 i sys fv sv st' evs' j :
    op_create sch oc (st, evs) s0 i sys fv sv = Ok (st', evs') -> present sch st s j = true ->
    flag st' j = flag st j.
  Proof.
    intros H Hp. unfold op_create in H. destruct (find_store sch s0) as [d0|] eqn:Ed; [|discriminate].
    destruct (negb (nonempty i)); [discriminate|].
    destruct (present sch st s0 i); [discriminate|].
    destruct (present sch st (root_of sch s0) i) eqn:Epr; [discriminate|].
    destruct (negb (key_ok i)); [discriminate|].
    destruct (fire_cu sch oc evs s0 Created i) as [evs1|e]; cbn [bind] in H; [|discriminate].
    destruct (after_chain sch _ true (oc_sys oc) i (chain sch s0) []) as [st2|e] eqn:Eac; cbn [bind] in H; [|discriminate].
    inversion H; subst st' evs'.
    rewrite (flag_fc _ _ j (after_chain_fc _ _ _ _ _ _ _ _ Eac)).
    apply flag_set_ent_other.
    destruct (str_eq_dec (root_of sch s0) s) as [Hr|Hr]; [|left; exact Hr].
    right. intros ->. rewrite Hr in Epr. congruence.
  Qed.

  (* every successful operation, in any context, leaves the flag of every entity that exists before and after it *)
  Lemma run_op_flag fuel oc st evs o st' evs' j :
    run_op sch fuel oc (st, evs) o = Ok (st', evs') ->
    present sch st s j = true -> present sch st' s j = true -> flag st' j = flag st j.
  Proof.
    intros H Hp Hp'. destruct o as [s0 i sys fv sv|s0 i fv sv ch|s0 i|s0 i lf ts|s0 i lf ts|]; cbn [run_op] in H.
    - eapply op_create_flag_other; eauto.
    - eapply op_update_flag; eauto.
    - pose proof (delete_shrink sch oc fuel _ _ _ _ H) as Hs. cbn [fst] in Hs.
      apply flag_shrink; [exact Hs|]. rewrite present_s in Hp'. destruct (get_ent st' s j); congruence.
    - cbn [fst snd] in H. destruct (op_add_links sch st s0 i lf ts) as [st1|e] eqn:E; cbn [bind] in H; [|discriminate].
      inversion H; subst. apply flag_fc. eapply op_add_links_fc; eauto.
    - cbn [fst snd] in H. destruct (op_remove_links sch st s0 i lf ts) as [st1|e] eqn:E; cbn [bind] in H; [|discriminate].
      inversion H; subst. apply flag_fc. eapply op_remove_links_fc; eauto.
    - discriminate.
  Qed.

  (* entity j exists before and after every operation of the list (it is never deleted in between) *)
  Fixpoint alive_ops (fuel : nat) (oc : octx) (j : id) (stev : st_ev) (ops : list op) : Prop :=
    present sch (fst stev) s j = true /\
    match ops with
    | [] => True
    | o :: r => match run_op sch fuel oc stev o with
                | Ok stev1 => alive_ops fuel oc j stev1 r
                | Err _ => True
                end
    end.

  Lemma alive_ops_present fuel oc j stev ops : alive_ops fuel oc j stev ops -> present sch (fst stev) s j = true.
  Proof. destruct ops; intros [H _]; exact H. Qed.

  Lemma run_ops_flag fuel oc j : forall ops stev rs stev',
    run_ops sch fuel oc stev ops = (rs, Ok stev') -> alive_ops fuel oc j stev ops ->
    flag (fst stev') j = flag (fst stev) j.
  Proof.
    induction ops as [|o ops IH]; intros stev rs stev' H Ha; cbn [run_ops] in H.
    - inversion H; subst. reflexivity.
    - destruct Ha as [Hp Ha]. destruct (run_op sch fuel oc stev o) as [stev1|e] eqn:E1; [|inversion H].
      destruct (run_ops sch fuel oc stev1 ops) as [rs1 fin] eqn:E2. inversion H; subst.
      rewrite (IH _ _ _ E2 Ha). destruct stev as [st evs], stev1 as [st1 evs1]. cbn [fst] in *.
      eapply run_op_flag; [exact E1 | exact Hp | exact (alive_ops_present _ _ _ _ _ Ha)].
  Qed.

  Fixpoint alive_txs (fuel : nat) (j : id) (st : state) (ts : list tx) : Prop :=
    match ts with
    | [] => True
    | t :: r => alive_ops fuel (mkOctx (tx_sys t) (tx_vetoes t)) j (st, []) (tx_ops t) /\
                alive_txs fuel j (match run_tx sch fuel st t with (_, _, st', _) => st' end) r
    end.

  Lemma run_tx_flag fuel j st t :
    alive_ops fuel (mkOctx (tx_sys t) (tx_vetoes t)) j (st, []) (tx_ops t) ->
    flag (match run_tx sch fuel st t with (_, _, st', _) => st' end) j = flag st j.
  Proof.
    intros Ha. unfold run_tx.
    destruct (run_ops sch fuel _ (st, []) (tx_ops t)) as [rs fin] eqn:E. destruct fin as [[st1 evs1]|e]; [|reflexivity].
    destruct (tx_precommit_fails t); [reflexivity|].
    apply (run_ops_flag fuel _ j _ _ _ _ E Ha).
  Qed.

  Lemma run_txs_flag fuel j : forall ts st, alive_txs fuel j st ts -> flag (run_txs sch fuel st ts) j = flag st j.
  Proof.
    unfold run_txs. induction ts as [|t ts IH]; intros st Ha; cbn [fold_left]; [reflexivity|].
    destruct Ha as [Ha1 Ha2]. rewrite (IH _ Ha2). apply run_tx_flag. exact Ha1.
  Qed.
End System.

(* ================================================================ the boolean check of the schema *)
From Storage Require Import Store.UniqueProofs Store.WfSchema.

Definition wf_system_b (sch : schema) (s : name) : bool :=
  negb (is_child sch s) && nodupb (map sd_name sch) && existsb is_sys (cons_of sch s) &&
  forallb (fun d => negb (declares_field d isSystemF)) sch.

Lemma wf_system_b_sound sch s : wf_system_b sch s = true ->
  is_child sch s = false /\
  In CSystem (cons_of sch s) /\
  (forall x d, find_store sch x = Some d -> declares_field d isSystemF = false) /\
  (forall r0 d, In d (children_of sch r0) -> root_of sch (sd_name d) = r0).
Proof.
  unfold wf_system_b. intros H.
  apply andb_prop in H as [H H4]. apply andb_prop in H as [H H3]. apply andb_prop in H as [H1 H2].
  apply negb_true_iff in H1. split; [exact H1|]. split; [|split].
  - apply existsb_exists in H3 as [k [Hin Hk]]. destruct k; try discriminate. exact Hin.
  - intros x d Hf. destruct (find_store_in _ _ _ Hf) as [Hin _]. rewrite forallb_forall in H4.
    apply negb_true_iff. apply H4. exact Hin.
  - intros r0 d Hin. unfold children_of in Hin. apply filter_In in Hin as [Hin Hp].
    destruct (sd_parent d) as [p|] eqn:Ep; [|discriminate]. apply str_eqb_eq in Hp. subst p.
    unfold root_of. rewrite (find_store_nodup _ _ H2 Hin), Ep. reflexivity.
Qed.

(* an operation aimed at a system entity of the family of s: create with the flag, update or delete of an
   entity whose STORED flag is set - entered through s or through any child store of s *)
Definition sys_target (sch : schema) (s : name) (st : state) (o : op) : Prop :=
  match o with
  | OCreate s0 _ sys _ _ => root_of sch s0 = s /\ sys = true
  | OUpdate s0 i _ _ _ => root_of sch s0 = s /\ get_field sch st s i isSystemF = FBool true
  | ODelete s0 i => root_of sch s0 = s /\ get_field sch st s i isSystemF = FBool true
  | _ => False
  end.

Lemma run_op_refuses_lemma sch s fuel oc stev o :
  wf_system_b sch s = true -> oc_sys oc = false -> sys_target sch s (fst stev) o ->
  exists k, run_op sch fuel oc stev o = Err k.
Proof.
  intros Hwf Hy Ht. destruct (wf_system_b_sound sch s Hwf) as [H1 [H2 [H3 H4]]].
  destruct stev as [st evs]. cbn [fst] in Ht.
  destruct o as [s0 i sys fv sv|s0 i fv sv ch|s0 i|s0 i lf ts|s0 i lf ts|]; cbn [sys_target] in Ht; try contradiction;
    cbn [run_op].
  - destruct Ht as [Hr ->]. apply (op_create_refuses sch s H1 H2 H3); assumption.
  - destruct Ht as [Hr Hf]. apply (op_update_refuses sch s H2 H4); assumption.
  - destruct Ht as [Hr Hf]. apply (delete_refuses sch s H1 H2 oc Hy); assumption.
Qed.

Lemma system_requires_system_ctx_lemma sch s fuel st t pre o post stev' :
  wf_system_b sch s = true -> tx_sys t = false ->
  tx_ops t = pre ++ o :: post ->
  snd (run_ops sch fuel (mkOctx (tx_sys t) (tx_vetoes t)) (st, []) pre) = Ok stev' ->
  sys_target sch s (fst stev') o ->
  (exists k, run_op sch fuel (mkOctx (tx_sys t) (tx_vetoes t)) stev' o = Err k) /\
  (exists rs, run_tx sch fuel st t = (rs, false, st, [])).
Proof.
  intros Hwf Hy Hops Hpre Ht.
  destruct (run_op_refuses_lemma sch s fuel (mkOctx (tx_sys t) (tx_vetoes t)) stev' o Hwf Hy Ht) as [k Hk].
  split; [exists k; exact Hk|].
  pose proof (run_ops_failure_propagates _ _ _ pre o post _ _ _ Hpre Hk) as Hfail.
  unfold run_tx. rewrite Hops.
  destruct (run_ops sch fuel _ (st, []) (pre ++ o :: post)) as [rs fin]. cbn [snd] in Hfail. subst fin.
  exists rs. reflexivity.
Qed.

Lemma create_stores_requested_flag_lemma sch s oc st evs s0 i sys fv sv st' evs' :
  wf_system_b sch s = true -> root_of sch s0 = s ->
  op_create sch oc (st, evs) s0 i sys fv sv = Ok (st', evs') ->
  get_field sch st' s i isSystemF = if sys then FBool true else FAbsent.
Proof.
  intros Hwf Hr H. destruct (wf_system_b_sound sch s Hwf) as [H1 [H2 [H3 H4]]].
  exact (op_create_flag sch s H1 H2 H3 oc st evs s0 i sys fv sv st' evs' Hr H).
Qed.

Lemma op_preserves_flag_lemma sch s fuel oc st evs o st' evs' j :
  wf_system_b sch s = true ->
  run_op sch fuel oc (st, evs) o = Ok (st', evs') ->
  present sch st s j = true -> present sch st' s j = true ->
  get_field sch st' s j isSystemF = get_field sch st s j isSystemF.
Proof.
  intros Hwf. destruct (wf_system_b_sound sch s Hwf) as [H1 [H2 [H3 H4]]].
  exact (run_op_flag sch s H1 H3 fuel oc st evs o st' evs' j).
Qed.

Lemma system_flag_immutable_lemma sch s fuel j txs st :
  wf_system_b sch s = true ->
  alive_txs sch s fuel j st txs ->
  get_field sch (run_txs sch fuel st txs) s j isSystemF = get_field sch st s j isSystemF.
Proof.
  intros Hwf. destruct (wf_system_b_sound sch s Hwf) as [H1 [H2 [H3 H4]]].
  exact (run_txs_flag sch s H1 H3 fuel j txs st).
Qed.

(* from its creation on: as long as the entity is not deleted, its flag is the one it was created with *)
Lemma flag_fixed_at_creation_lemma sch s fuel oc stev s0 j sys fv sv stev1 rest rs stev' :
  wf_system_b sch s = true -> root_of sch s0 = s ->
  run_op sch fuel oc stev (OCreate s0 j sys fv sv) = Ok stev1 ->
  run_ops sch fuel oc stev1 rest = (rs, Ok stev') ->
  alive_ops sch s fuel oc j stev1 rest ->
  get_field sch (fst stev') s j isSystemF = if sys then FBool true else FAbsent.
Proof.
  intros Hwf Hr Hc Hrest Ha. destruct (wf_system_b_sound sch s Hwf) as [H1 [H2 [H3 H4]]].
  pose proof (run_ops_flag sch s H1 H3 fuel oc j rest stev1 rs stev' Hrest Ha) as Hf. unfold flag in Hf. rewrite Hf.
  destruct stev as [st evs], stev1 as [st1 evs1]. cbn [run_op] in Hc. cbn [fst].
  exact (op_create_flag sch s H1 H2 H3 oc st evs s0 j sys fv sv st1 evs1 Hr Hc).
Qed.

(* ================================================================ the flag in the family of ANY root store
   (2a)-(2d) do not depend on where - or whether - the constraint is registered: s is an existing root store and no store
   declares a field named isSystem.  These cover the families whose constraint sits on a child store only. *)
Definition wf_flag_b (sch : schema) (s : name) : bool :=
  negb (is_child sch s) && (match find_store sch s with Some _ => true | None => false end) &&
  forallb (fun d => negb (declares_field d isSystemF)) sch.

Lemma wf_flag_b_sound sch s : wf_flag_b sch s = true ->
  is_child sch s = false /\ find_store sch s <> None /\
  (forall x d, find_store sch x = Some d -> declares_field d isSystemF = false).
Proof.
  unfold wf_flag_b. intros H. apply andb_prop in H as [H H3]. apply andb_prop in H as [H1 H2].
  apply negb_true_iff in H1. split; [exact H1|]. split.
  - destruct (find_store sch s); [discriminate | discriminate].
  - intros x d Hf. destruct (find_store_in _ _ _ Hf) as [Hin _]. rewrite forallb_forall in H3.
    apply negb_true_iff. apply H3. exact Hin.
Qed.

Lemma wf_system_flag sch s : wf_system_b sch s = true -> wf_flag_b sch s = true.
Proof.
  unfold wf_system_b, wf_flag_b. intros H.
  apply andb_prop in H as [H H4]. apply andb_prop in H as [H H3]. apply andb_prop in H as [H1 H2].
  rewrite H1, H4. unfold cons_of in H3. destruct (find_store sch s); [reflexivity | discriminate].
Qed.

Lemma create_flag_any_lemma sch s oc st evs s0 i sys fv sv st' evs' :
  wf_flag_b sch s = true -> root_of sch s0 = s ->
  op_create sch oc (st, evs) s0 i sys fv sv = Ok (st', evs') ->
  get_field sch st' s i isSystemF = if sys then FBool true else FAbsent.
Proof.
  intros Hwf Hr H. destruct (wf_flag_b_sound sch s Hwf) as [H1 [H2 H3]].
  exact (op_create_flag_gen sch s H1 H3 oc st evs s0 i sys fv sv st' evs' H2 Hr H).
Qed.

Lemma op_preserves_flag_any_lemma sch s fuel oc st evs o st' evs' j :
  wf_flag_b sch s = true ->
  run_op sch fuel oc (st, evs) o = Ok (st', evs') ->
  present sch st s j = true -> present sch st' s j = true ->
  get_field sch st' s j isSystemF = get_field sch st s j isSystemF.
Proof.
  intros Hwf. destruct (wf_flag_b_sound sch s Hwf) as [H1 [H2 H3]].
  exact (run_op_flag sch s H1 H3 fuel oc st evs o st' evs' j).
Qed.

Lemma flag_immutable_any_lemma sch s fuel j txs st :
  wf_flag_b sch s = true ->
  alive_txs sch s fuel j st txs ->
  get_field sch (run_txs sch fuel st txs) s j isSystemF = get_field sch st s j isSystemF.
Proof.
  intros Hwf. destruct (wf_flag_b_sound sch s Hwf) as [H1 [H2 H3]].
  exact (run_txs_flag sch s H1 H3 fuel j txs st).
Qed.
