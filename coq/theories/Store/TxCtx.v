(* C07, fourth strengthening - the CONTEXTS that belong to one transaction (boltz/tx_context.go) and the
   pre-commit / commit actions registered through them.  Model only, no proofs (Store/TxCtxProofs.v).

   Until now the C07 machine knew one bit per transaction ("the pre-commit action fails", registered on the context
   object before Db.Update / Db.Batch is called).  Callers register pre-commit actions wherever they happen to hold a
   MutateContext: inside the function, on ctx.GetSystemContext(), on boltz.NewSystemMutateContext(ctx), on what
   ctx.UpdateContext(..) returned, inside a nested db.Update(ctx, ..) / db.Batch(ctx, ..) that joins the running
   transaction.  C07 demands that a failing pre-commit action fails the transaction through whichever of these
   contexts it was registered.

   tx_context.go, transcribed:

       type mutateContext struct { tx; ctx; preCommitActions []func(MutateContext) error; commitActions []func() }
       type systemMutateContext struct { wrapped MutateContext }

       func NewSystemMutateContext(ctx) MutateContext { if ctx.IsSystemContext() { return ctx }; return &systemMutateContext{wrapped: ctx} }
       func (self *mutateContext)       GetSystemContext()   { return NewSystemMutateContext(self) }
       func (self *systemMutateContext) GetSystemContext()   { return self }
       func (self *mutateContext)       UpdateContext(f)     { self.ctx = f(self.ctx); return self }
       func (self *systemMutateContext) UpdateContext(f)     { return self.wrapped.UpdateContext(f) }     // the wrapped context
       func (self *mutateContext)       AddPreCommitAction(f){ self.preCommitActions = append(.., f) }
       func (self *systemMutateContext) AddPreCommitAction(f){ self.wrapped.AddPreCommitAction(f) }
       func (self *mutateContext)       runPreCommitActions(){ for _, a := range self.preCommitActions { if err := a(self); err != nil { return err } }; return nil }
       func (self *systemMutateContext) runPreCommitActions(){ return self.wrapped.runPreCommitActions() }
       (AddCommitAction likewise; setTx: self.tx = tx; tx.OnCommit(self.handleCommit))
       func NewTxMutateContext(context, tx) MutateContext   { ctx := &mutateContext{ctx: context}; ctx.setTx(tx); return ctx }

   db.go DbImpl.Update / DbImpl.Batch: see Store/TxHooks.v; a call with ctx.Tx() != nil is [return fn(ctx)].

   A context VALUE is a reference: to a mutateContext object (index into the heap of such objects) or to a wrapper
   around another reference (wrappers have no state of their own).  *)
From Coq Require Import List NArith Bool Arith.
From Storage Require Import Base.Bytes Store.Model Store.XOps.
Import ListNotations.

Inductive cref :=
| CPlain (q : nat)          (* *mutateContext number q *)
| CSys (w : cref).          (* &systemMutateContext{wrapped: w} *)

(* mutateContext.preCommitActions (label, returns an error when it runs) / commitActions (label) *)
Record mobj := mkMobj { m_pre : list (nat * bool); m_commit : list nat }.
Definition heap := list mobj.
Definition new_mobj : mobj := mkMobj [] [].

Definition get (q : nat) (h : heap) : mobj := nth q h new_mobj.
Fixpoint upd_nth (q : nat) (f : mobj -> mobj) (h : heap) {struct h} : heap :=
  match h, q with
  | [], _ => []
  | m :: r, O => f m :: r
  | m :: r, S q' => m :: upd_nth q' f r
  end.

(* ---------------------------------------------------------------- the methods of tx_context.go *)
Definition is_system (c : cref) : bool := match c with CSys _ => true | CPlain _ => false end.
Definition new_system_ctx (c : cref) : cref := if is_system c then c else CSys c.
Definition get_system_ctx (c : cref) : cref := match c with CPlain _ => new_system_ctx c | CSys _ => c end.
Fixpoint update_ctx (c : cref) : cref := match c with CPlain q => CPlain q | CSys w => update_ctx w end.

Fixpoint add_pre_action (c : cref) (a : nat * bool) (h : heap) : heap :=
  match c with
  | CPlain q => upd_nth q (fun m => mkMobj (m_pre m ++ [a]) (m_commit m)) h
  | CSys w => add_pre_action w a h
  end.
Fixpoint add_commit_action (c : cref) (k : nat) (h : heap) : heap :=
  match c with
  | CPlain q => upd_nth q (fun m => mkMobj (m_pre m) (m_commit m ++ [k])) h
  | CSys w => add_commit_action w k h
  end.
(* the slice c.runPreCommitActions() ranges over *)
Fixpoint pre_actions_of (c : cref) (h : heap) : list (nat * bool) :=
  match c with CPlain q => m_pre (get q h) | CSys w => pre_actions_of w h end.
(* runPreCommitActions() == nil *)
Fixpoint run_pre_ok (l : list (nat * bool)) : bool :=
  match l with
  | [] => true
  | (_, true) :: _ => false
  | (_, false) :: r => run_pre_ok r
  end.

(* the root object of a reference: the mutateContext every method of the reference ends up at *)
Fixpoint root (c : cref) : nat := match c with CPlain q => q | CSys w => root w end.

(* ---------------------------------------------------------------- deriving one context from another *)
Inductive wstep :=
| WGetSys       (* c.GetSystemContext() *)
| WNewSys       (* boltz.NewSystemMutateContext(c) *)
| WUpdCtx.      (* c.UpdateContext(f) *)

Inductive dstep :=
| DWrap (w : wstep)
| DJoin (batch : bool)   (* db.Update(c, func(c2) ..) / db.Batch(c, func(c2) ..) while c.Tx() != nil: c2 *)
| DNewTx.                (* boltz.NewTxMutateContext(c.Context(), c.Tx()) *)

Definition wrap1 (w : wstep) (c : cref) : cref :=
  match w with WGetSys => get_system_ctx c | WNewSys => new_system_ctx c | WUpdCtx => update_ctx c end.
Definition wrap (p : list wstep) (c : cref) : cref := fold_left (fun c w => wrap1 w c) p c.

Definition derive1 (ch : cref * heap) (d : dstep) : cref * heap :=
  match d with
  | DWrap w => (wrap1 w (fst ch), snd ch)
  | DJoin _ => ch                                                  (* return fn(ctx) *)
  | DNewTx => (CPlain (length (snd ch)), snd ch ++ [new_mobj])     (* a new object, bound to the same bbolt transaction *)
  end.
Definition derive (p : list dstep) (c : cref) (h : heap) : cref * heap := fold_left derive1 p (c, h).

(* ---------------------------------------------------------------- programs *)
Inductive act :=
| APre (k : nat) (fails : bool)     (* AddPreCommitAction(func(MutateContext) error { return <error iff fails> }) *)
| ACommit (k : nat).                (* AddCommitAction(..) *)

Definition register (a : act) (c : cref) (h : heap) : heap :=
  match a with APre k f => add_pre_action c (k, f) h | ACommit k => add_commit_action c k h end.

Inductive citem :=
| IOp (x : xop)                            (* a store operation (Store/XOps.v; XBase = plain operation) *)
| IReg (path : list dstep) (a : act).      (* derive a context from the function's context along [path], register [a] on it *)

Section Run.
  Variable sch : schema.
  Variable fuel : nat.
  Variable oc : octx.
  Variable c0 : cref.    (* the context the function was called with *)

  (* the function handed to Db.Update / Db.Batch: the first error is returned at once *)
  Fixpoint run_citems (l : list citem) (h : heap) (stev : st_ev) : list (option ekind) * res st_ev * heap :=
    match l with
    | [] => ([], Ok stev, h)
    | IOp x :: r =>
        match run_xop sch fuel oc stev x with
        | Ok stev1 => let '(rs, fin, h1) := run_citems r h stev1 in (None :: rs, fin, h1)
        | Err k => ([Some k], Err k, h)
        end
    | IReg p a :: r => let ch := derive p c0 h in run_citems r (register a (fst ch) (snd ch)) stev
    end.
End Run.

(* what the caller does around one Db.Update / Db.Batch call:
     cp_nil      Db.Update(nil, fn): DbImpl makes the context itself (NewMutateContext(context.Background()))
     otherwise   base := NewMutateContext(..); the registrations cp_before are made on contexts derived from base
                 (no transaction yet: only the wrapper derivations exist); Db.Update(wrap cp_open base, fn)
     cp_body     the function *)
Record cprog := mkCprog {
  cp_nil : bool;
  cp_open : list wstep;
  cp_before : list (list wstep * act);
  cp_body : list citem
}.

Definition heap_before (p : cprog) : heap :=
  if cp_nil p then [new_mobj]
  else fold_left (fun h pa => register (snd pa) (wrap (fst pa) (CPlain 0)) h) (cp_before p) [new_mobj].
Definition opened_ctx (p : cprog) : cref := if cp_nil p then CPlain 0 else wrap (cp_open p) (CPlain 0).

Record cobs := mkCobs {
  co_results : list (option ekind);
  co_committed : bool;
  co_state : state;
  co_events : list event;
  co_commit_runs : list nat        (* label of every commit-action execution *)
}.

(* DbImpl.Update / DbImpl.Batch with a context that has no transaction yet.  ctx.setTx(tx) binds the root object of
   the opened context (tx.OnCommit(handleCommit)); every NewTxMutateContext object binds itself: on commit bbolt
   runs handleCommit of every object of the heap, in creation order; on rollback none. *)
Definition ctx_update (sch : schema) (fuel : nat) (st : state) (sys : bool) (vetoes : list veto) (p : cprog) : cobs :=
  let c0 := opened_ctx p in
  let '(rs, fin, h1) := run_citems sch fuel (mkOctx sys vetoes) c0 (cp_body p) (heap_before p) (st, []) in
  match fin with
  | Ok (st', evs) =>
      if run_pre_ok (pre_actions_of c0 h1)                  (* ctx.runPreCommitActions() *)
      then mkCobs rs true st' evs (flat_map m_commit h1)
      else mkCobs rs false st [] []
  | Err _ => mkCobs rs false st [] []
  end.

(* ---------------------------------------------------------------- the declarative side *)
(* a derived context BELONGS to the transaction's context when no step of the derivation builds a new
   mutateContext object: wrappers, UpdateContext and joined nested calls all end up at the object Db.Update runs *)
Definition step_belongs (d : dstep) : bool := match d with DNewTx => false | _ => true end.
Definition belongs (p : list dstep) : bool := forallb step_belongs p.

Definition act_fails (a : act) : bool := match a with APre _ f => f | ACommit _ => false end.
Definition item_live_fail (it : citem) : bool :=
  match it with IReg p a => belongs p && act_fails a | IOp _ => false end.

(* some failing pre-commit action is registered through a context that belongs to the transaction *)
Definition ctx_precommit_fails (p : cprog) : bool :=
  (negb (cp_nil p) && existsb (fun pa => act_fails (snd pa)) (cp_before p)) || existsb item_live_fail (cp_body p).

Definition item_xops (it : citem) : list xop := match it with IOp x => [x] | IReg _ _ => [] end.
Definition body_xops (l : list citem) : list xop := flat_map item_xops l.

(* the transaction of the store machine the program amounts to *)
Definition ctx_xtx (sys : bool) (vetoes : list veto) (p : cprog) : xtx :=
  mkXtx sys vetoes (body_xops (cp_body p)) (ctx_precommit_fails p).
