(* C09 proofs, part 5: linkCollectionImpl.CheckIntegrity (check_link of Store/Integrity.v). *)
From Coq Require Import List NArith Bool Lia.
From Storage Require Import Base.Bytes Base.BytesFacts Store.Model Store.AListFacts Store.FrameProofs
  Store.Integrity Store.IntegrityLoops.
Import ListNotations.

Section Links.
  Variable sch : schema.
  (* the collection of store s: local set lf, other store os, other set of_ *)
  Variables s lf os of_ : name.

  Definition lset (st : state) (i : id) : list id := get_set sch st s i lf.
  Definition oset (st : state) (x : id) : list id := get_set sch st os x of_.

  (* every link of every present entity points to a present entity that links back *)
  Definition LGood (st : state) : Prop :=
    forall i, present sch st s i = true -> forall x, In x (lset st i) -> present sch st os x = true /\ In i (oset st x).

  Lemma link_step_fst fx i x st :
    fst (link_step sch fx s lf os of_ i x st) =
    if negb (present sch st os x) then [mkReport KLDangling fx]
    else if ss_mem i (oset st x) then [] else [mkReport KLOneSided fx].
  Proof. unfold link_step, oset. destruct (present sch st os x); cbn; [|reflexivity]. destruct (ss_mem i _); reflexivity. Qed.

  Lemma link_step_snd fx i x st :
    snd (link_step sch fx s lf os of_ i x st) =
    if negb (present sch st os x) then (if fx then backref_del sch st s i lf x else st)
    else if ss_mem i (oset st x) then st
    else if fx then backref_add sch st os x of_ i else st.
  Proof. unfold link_step, oset. destruct (present sch st os x); cbn; [|reflexivity]. destruct (ss_mem i _); reflexivity. Qed.

  Lemma link_step_ro i : ro_body (link_step sch false s lf os of_ i).
  Proof. intros x st. rewrite link_step_snd. destruct (negb _); [reflexivity|]. destruct (ss_mem _ _); reflexivity. Qed.
  Lemma link_id_ro : ro_body (link_id sch false s lf os of_).
  Proof. intros i st. unfold link_id. apply run_list_ro, link_step_ro. Qed.

  Theorem check_link_readonly st : snd (check_link sch false s (lf, os, of_) st) = st.
  Proof. unfold check_link. apply run_list_ro, link_id_ro. Qed.

  Theorem check_link_nil_iff st : fst (check_link sch false s (lf, os, of_) st) = [] <-> LGood st.
  Proof.
    unfold check_link. rewrite (run_list_ro_nil _ link_id_ro). unfold LGood. split.
    - intros H i Hp x Hx. specialize (H i (proj2 (valid_ids_present sch st s i) Hp)). unfold link_id in H.
      rewrite (run_list_ro_nil _ (link_step_ro i)) in H. specialize (H x Hx). rewrite link_step_fst in H.
      destruct (present sch st os x); cbn in H; [|discriminate]. split; [reflexivity|].
      destruct (ss_mem i (oset st x)) eqn:E; [apply ss_mem_in; exact E | discriminate].
    - intros H i Hin. apply valid_ids_present in Hin. unfold link_id. apply (run_list_ro_nil _ (link_step_ro i)).
      intros x Hx. destruct (H i Hin x Hx) as [H1 H2]. apply ss_mem_in in H2. rewrite link_step_fst, H1, H2. reflexivity.
  Qed.

  (* ---- fix ---- *)
  (* the two sets are different cells *)
  Hypothesis Hcells : root_of sch s <> root_of sch os \/ lf <> of_.

  Definition lrel (st st' : state) : Prop :=
    (forall s' i', present sch st' s' i' = present sch st s' i') /\
    (forall i x, In x (lset st' i) -> In x (lset st i)) /\
    (forall x i, In i (oset st x) -> In i (oset st' x)).

  Lemma lrel_refl st : lrel st st.
  Proof. split; [|split]; auto. Qed.
  Lemma lrel_trans a b c : lrel a b -> lrel b c -> lrel a c.
  Proof.
    intros [P1 [S1 G1]] [P2 [S2 G2]]. split; [|split].
    - intros. rewrite P2, P1. reflexivity.
    - intros i x H. apply S1, S2, H.
    - intros x i H. apply G2, G1, H.
  Qed.

  Lemma link_step_lrel fx i x st : lrel st (snd (link_step sch fx s lf os of_ i x st)).
  Proof.
    rewrite link_step_snd. destruct (negb (present sch st os x)).
    - destruct fx; [|apply lrel_refl]. split; [|split].
      + intros. apply backref_del_present.
      + intros i' x' H. unfold lset in *. apply get_set_backref_del in H. tauto.
      + intros x' i' H. unfold oset in *. apply get_set_backref_del. split; [exact H|].
        intros [H1 [_ [H3 _]]]. destruct Hcells; contradiction.
    - destruct (ss_mem i (oset st x)); [apply lrel_refl|]. destruct fx; [|apply lrel_refl]. split; [|split].
      + intros. apply backref_add_present.
      + intros i' x' H. unfold lset in *. apply get_set_backref_add in H as [H|[H1 [_ [H3 _]]]]; [exact H|].
        destruct Hcells as [Hc|Hc]; [symmetry in H1 | symmetry in H3]; contradiction.
      + intros x' i' H. unfold oset in *. apply get_set_backref_add. left. exact H.
  Qed.

  Definition link_ok (i x : id) (st : state) : Prop :=
    In x (lset st i) -> present sch st os x = true /\ In i (oset st x).

  Lemma link_ok_lrel i x st st' : lrel st st' -> link_ok i x st -> link_ok i x st'.
  Proof. intros [P [S G]] H Hin. rewrite P. destruct (H (S i x Hin)) as [H1 H2]. split; [exact H1 | apply G, H2]. Qed.

  Lemma link_step_ok i x st : link_ok i x (snd (link_step sch true s lf os of_ i x st)).
  Proof.
    rewrite link_step_snd. destruct (present sch st os x) eqn:Ep; cbn [negb].
    - destruct (ss_mem i (oset st x)) eqn:Em.
      + intros _. split; [exact Ep | apply ss_mem_in; exact Em].
      + intros _. rewrite backref_add_present. split; [exact Ep|]. unfold oset. apply get_set_backref_add. right.
        split; [reflexivity|]. split; [reflexivity|]. split; [reflexivity|]. split; [reflexivity|].
        apply present_get_ent in Ep. exact Ep.
    - intros Hin. exfalso. unfold lset in Hin. apply get_set_backref_del in Hin. destruct Hin as [_ Hn]. apply Hn. auto.
  Qed.

  Definition links_ok (i : id) (st : state) : Prop := forall x, link_ok i x st.

  Lemma link_id_lrel fx i st : lrel st (snd (link_id sch fx s lf os of_ i st)).
  Proof.
    unfold link_id. apply (run_list_inv (link_step sch fx s lf os of_ i) (fun st' => lrel st st')); [|apply lrel_refl].
    intros x st' H. eapply lrel_trans; [exact H | apply link_step_lrel].
  Qed.

  Lemma link_id_ok i st : links_ok i (snd (link_id sch true s lf os of_ i st)).
  Proof.
    unfold link_id.
    set (I := fun st' => lrel st st').
    destruct (run_list_post (link_step sch true s lf os of_ i) I (link_ok i) (get_set sch st s i lf)) with (st := st) as [Hr HQ].
    - intros x st' _ H. eapply lrel_trans; [exact H | apply link_step_lrel].
    - intros x st' _ _. apply link_step_ok.
    - intros x y st' _ _ _ Hq. eapply link_ok_lrel; [apply link_step_lrel | exact Hq].
    - apply lrel_refl.
    - intros x Hin. apply HQ; [|exact Hin]. apply (proj1 (proj2 Hr)). exact Hin.
  Qed.

  Theorem check_link_fix_good st : LGood (snd (check_link sch true s (lf, os, of_) st)).
  Proof.
    unfold check_link.
    set (I := fun st' => lrel st st').
    destruct (run_list_post (link_id sch true s lf os of_) I links_ok (valid_ids sch st s)) with (st := st) as [Hr HQ].
    - intros i st' _ H. eapply lrel_trans; [exact H | apply link_id_lrel].
    - intros i st' _ _. apply link_id_ok.
    - intros i y st' _ _ _ Hq x. eapply link_ok_lrel; [apply link_id_lrel | apply Hq].
    - apply lrel_refl.
    - intros i Hp x Hx. rewrite (proj1 Hr) in Hp. apply (HQ i (proj2 (valid_ids_present sch st s i) Hp) x Hx).
  Qed.

  (* ---- frame ---- *)
  Definition link_cells : list cell := [CSet (root_of sch s) lf; CSet (root_of sch os) of_].

  Lemma check_link_writes fx st : same_except link_cells st (snd (check_link sch fx s (lf, os, of_) st)).
  Proof.
    unfold check_link. apply run_list_same_except. intros i st2 _. unfold link_id. apply run_list_same_except.
    intros x st3 _. rewrite link_step_snd. destruct (negb _).
    - destruct fx; [|apply same_except_refl]. eapply same_except_mono; [|apply backref_del_same_except].
      intros c [<-|[]]. left. reflexivity.
    - destruct (ss_mem _ _); [apply same_except_refl|]. destruct fx; [|apply same_except_refl].
      eapply same_except_mono; [|apply backref_add_same_except]. intros c [<-|[]]. right. left. reflexivity.
  Qed.

  Lemma LGood_frame W st st' : same_except W st st' -> (forall c, In c link_cells -> cmem c W = false) ->
    LGood st -> LGood st'.
  Proof.
    intros Hs Hr G i Hp x Hx.
    assert (Hl : forall i, lset st' i = lset st i).
    { intros i0. apply (same_except_get_set sch W st st' s i0 lf Hs). apply Hr. left. reflexivity. }
    assert (Ho : forall x, oset st' x = oset st x).
    { intros x0. apply (same_except_get_set sch W st st' os x0 of_ Hs). apply Hr. right. left. reflexivity. }
    rewrite (same_except_present sch W _ _ _ _ Hs) in Hp. rewrite (same_except_present sch W _ _ _ _ Hs). rewrite Hl in Hx. rewrite Ho. apply (G i Hp x Hx).
  Qed.
End Links.

(* the inverse collection, scanned later from the other store, keeps the verdict of this one *)
Section Inverse.
  Variable sch : schema.
  Variables s lf os of_ : name.

  Local Notation fwd := (LGood sch s lf os of_).

  (* one step of the inverse job: entity x of store os, its link i (an entity of store s) *)
  Lemma inverse_step_keeps x i st :
    fwd st -> present sch st os x = true -> (present sch st s i = true -> In i (oset sch os of_ st x)) ->
    fwd (snd (link_step sch true os of_ s lf x i st)).
  Proof.
    intros G Hpx Hmem. rewrite (link_step_snd sch os of_ s lf). destruct (present sch st s i) eqn:Epi; cbn [negb].
    - destruct (ss_mem x (oset sch s lf st i)) eqn:Em; [exact G|].
      (* add x to the links of i *)
      intros i' Hp' x' Hx'. rewrite backref_add_present in *. unfold lset, oset in *.
      apply get_set_backref_add in Hx' as [Hx'|[_ [<- [_ [-> _]]]]].
      + destruct (G i' Hp' x' Hx') as [H1 H2]. split; [exact H1|]. apply get_set_backref_add. left. exact H2.
      + split; [exact Hpx|]. apply get_set_backref_add. left. apply Hmem. reflexivity.
    - (* drop the dangling i from the links of x *)
      intros i' Hp' x' Hx'. rewrite backref_del_present in *. unfold lset, oset in *.
      apply get_set_backref_del in Hx' as [Hx' _]. destruct (G i' Hp' x' Hx') as [H1 H2]. split; [exact H1|].
      apply get_set_backref_del. split; [exact H2|]. intros [_ [_ [_ ->]]]. congruence.
  Qed.

  Definition irel (st st' : state) : Prop :=
    (forall s' i', present sch st' s' i' = present sch st s' i') /\
    (forall x i, present sch st s i = true -> In i (oset sch os of_ st x) -> In i (oset sch os of_ st' x)).

  Lemma inverse_step_irel x i st : irel st (snd (link_step sch true os of_ s lf x i st)).
  Proof.
    rewrite (link_step_snd sch os of_ s lf). destruct (present sch st s i) eqn:Epi; cbn [negb].
    - destruct (ss_mem _ _); [split; auto|]. split.
      + intros. apply backref_add_present.
      + intros x' i' _ H. unfold oset in *. apply get_set_backref_add. left. exact H.
    - split.
      + intros. apply backref_del_present.
      + intros x' i' Hp H. unfold oset in *. apply get_set_backref_del. split; [exact H|]. intros [_ [_ [_ ->]]]. congruence.
  Qed.

  Lemma irel_trans a b c : irel a b -> irel b c -> irel a c.
  Proof.
    intros [P1 G1] [P2 G2]. split.
    - intros. rewrite P2, P1. reflexivity.
    - intros x i Hp H. apply G2; [rewrite P1; exact Hp | apply G1; assumption].
  Qed.

  Lemma inverse_id_keeps x st : fwd st -> present sch st os x = true ->
    fwd (snd (link_id sch true os of_ s lf x st)) /\ irel st (snd (link_id sch true os of_ s lf x st)).
  Proof.
    intros G Hpx. unfold link_id.
    set (L := get_set sch st os x of_).
    set (I := fun st' => fwd st' /\ irel st st').
    apply (run_list_inv_in (link_step sch true os of_ s lf x) I L).
    - intros i st' Hi [G' [P' M']]. split.
      + apply inverse_step_keeps; [exact G' | rewrite P'; exact Hpx|].
        intros Hpi. rewrite P' in Hpi. apply M'; [exact Hpi | exact Hi].
      + eapply irel_trans; [split; [exact P' | exact M'] | apply inverse_step_irel].
    - split; [exact G|]. split; auto.
  Qed.

  Theorem inverse_link_keeps st : fwd st -> fwd (snd (check_link sch true os (of_, s, lf) st)).
  Proof.
    intros G. unfold check_link.
    set (I := fun st' => fwd st' /\ forall s' i', present sch st' s' i' = present sch st s' i').
    assert (H : I (snd (run_list (link_id sch true os of_ s lf) (valid_ids sch st os) st))); [|exact (proj1 H)].
    apply (run_list_inv_in (link_id sch true os of_ s lf) I (valid_ids sch st os)).
    - intros x st' Hx [G' P']. apply valid_ids_present in Hx. rewrite <- P' in Hx.
      destruct (inverse_id_keeps x st' G' Hx) as [H1 [H2 _]]. split; [exact H1|]. intros. rewrite H2, P'. reflexivity.
    - split; [exact G | auto].
  Qed.
End Inverse.
