(* What an entity event KEEPS of the struct the caller passed to Create / Update (C08, sixth strengthening).
   Model only - proofs in Store/EventCallerProofs.v.

   store_crud.go:  Create(ctx, entity) / Update(ctx, entity, checker)  persist the struct the caller passes
   (PersistEntity reads it, once, during the call) and then queue an EntityChangeState whose FinalState is what

       changeFlow.loadFinalState()   =   store.FindById(tx, id)   =   store.NewEntity() filled from the bucket

   returns: a struct the LIBRARY allocated and that nobody but the listeners will ever see.  DeleteById loads the
   InitialState the same way (EntityChangeState.init) before it removes the entity.  The listeners run after the
   commit and are handed those POINTERS.  Store/Events.v gives an event its payload as a value ([attach]: the
   [ent_view] of the database state right after / before the operation), so it silently assumes that what the pointer
   leads to at commit time still is what was loaded at operation time.  In Go that is a statement about memory: the
   caller keeps the struct it passed, goes on using it - a scratch struct re-filled for the next create of a loop,
   fields assigned after the call - and commits later.  This file models just enough of it to state the assumption
   as a theorem about the event code:

   * a heap of entity structs (held by the caller or only by the library), a toy bucket (id -> stored content);
   * the queued event: change kind, the id the flow names (a string: copied), the POINTER listeners will be handed;
   * [LibPinned] = the code of the pinned tree (every payload is loaded into a fresh library struct);
     [LibCreateAlias] = Create without loadFinalState: FinalState stays the caller's pointer (the refuted variant,
     Examples/C08Caller.v);
   * a caller program [eaction]: allocate a struct, assign fields (also the id) of any struct it holds at any time -
     also of structs FindById handed to it -, create / update through any struct it holds (the same one as often as it
     likes), delete by id.  The caller holds no reference to the structs the library loaded for its events.

   Store/EventCallerProofs.v / Properties/C08.v [delivered_state_fixed_at_operation]: after ANY caller program the
   struct behind the k-th queued event holds, at commit time, the content the bucket held for the event's entity
   right after that create / update (right before that delete) - later operations through the same struct and
   later assignments change nothing. *)
From Coq Require Import List Bool Arith.
From Storage Require Import Base.Bytes Store.Model Store.Events.
Import ListNotations.

(* an entity struct on the heap: does the caller hold a reference; its id; its declared fields / lists / flag *)
Record gstruct := mkStruct { g_caller : bool; g_id : id; g_view : view }.

(* structs by address; the newest binding of an address is the struct's current content *)
Record eheap := mkEHeap { eh_next : nat; eh_cells : list (nat * gstruct) }.

Definition eheap_empty : eheap := mkEHeap 0 [].

Definition eget (h : eheap) (a : nat) : option gstruct :=
  option_map snd (find (fun p => Nat.eqb (fst p) a) (eh_cells h)).

Definition eset (h : eheap) (a : nat) (v : gstruct) : eheap := mkEHeap (eh_next h) ((a, v) :: eh_cells h).

Definition ealloc (h : eheap) (v : gstruct) : eheap * nat :=
  (mkEHeap (S (eh_next h)) ((eh_next h, v) :: eh_cells h), eh_next h).

(* the entity bucket: what is stored per id (newest binding first; None = deleted) *)
Definition edb := list (id * option view).

Definition db_get (db : edb) (i : id) : option view :=
  match find (fun p => str_eqb (fst p) i) db with Some (_, v) => v | None => None end.

(* EntityChangeState: ChangeType, EntityId, and FinalState (create, update) / InitialState (delete) - a pointer *)
Record qevent := mkQ { q_change : change; q_id : id; q_ptr : nat }.

Inductive evlib := LibPinned | LibCreateAlias.

(* store.FindById(tx, i): NewEntity() + FillEntity from the bucket; [caller] = the result is handed to the caller *)
Definition load (h : eheap) (caller : bool) (i : id) (v : view) : eheap * nat := ealloc h (mkStruct caller i v).

Inductive eaction :=
| EMake (i : id) (v : view)              (* e := &Entity{Id: i, ...} *)
| EWrite (a : nat) (i : id) (v : view)   (* e.Id = i; e.Name = ..; e.Roles[0] = ..   on a struct the caller holds *)
| ELoad (i : id)                         (* e, _, _ := store.FindById(tx, i): the caller holds the result *)
| ECreate (a : nat)                      (* store.Create(ctx, e) *)
| EUpdate (a : nat)                      (* store.Update(ctx, e, nil) *)
| EDelete (i : id).                      (* store.DeleteById(ctx, i) *)

(* heap, bucket, queued events (in order), and - specification only - the content the bucket held for the event's
   entity right after the operation (create, update) / right before it (delete): a VALUE recorded at operation time *)
Record estate := mkES { es_heap : eheap; es_db : edb; es_queue : list qevent; es_snap : list (id * view) }.

Definition estate_empty : estate := mkES eheap_empty [] [] [].

Definition estep (lib : evlib) (st : estate) (c : eaction) : estate :=
  let h := es_heap st in
  let db := es_db st in
  match c with
  | EMake i v => mkES (fst (ealloc h (mkStruct true i v))) db (es_queue st) (es_snap st)
  | EWrite a i v =>
      match eget h a with
      | Some s => if g_caller s then mkES (eset h a (mkStruct true i v)) db (es_queue st) (es_snap st) else st
      | None => st
      end
  | ELoad i =>
      match db_get db i with
      | Some v => mkES (fst (load h true i v)) db (es_queue st) (es_snap st)
      | None => st
      end
  | ECreate a =>
      match eget h a with
      | Some s =>
          if negb (g_caller s) then st else
          match db_get db (g_id s) with
          | Some _ => st                                   (* an entity .. already exists with id .. *)
          | None =>
              let i := g_id s in
              let db' := (i, Some (g_view s)) :: db in     (* PersistEntity *)
              match lib, db_get db' i with
              | LibPinned, Some v =>
                  let (h', p) := load h false i v in       (* loadFinalState *)
                  mkES h' db' (es_queue st ++ [mkQ Created i p]) (es_snap st ++ [(i, v)])
              | LibCreateAlias, Some v =>
                  mkES h db' (es_queue st ++ [mkQ Created i a]) (es_snap st ++ [(i, v)])   (* FinalState: entity *)
              | _, None => st
              end
          end
      | None => st
      end
  | EUpdate a =>
      match eget h a with
      | Some s =>
          if negb (g_caller s) then st else
          match db_get db (g_id s) with
          | None => st                                     (* not found *)
          | Some _ =>
              let i := g_id s in
              let db' := (i, Some (g_view s)) :: db in
              match db_get db' i with
              | Some v =>
                  let (h', p) := load h false i v in
                  mkES h' db' (es_queue st ++ [mkQ Updated i p]) (es_snap st ++ [(i, v)])
              | None => st
              end
          end
      | None => st
      end
  | EDelete i =>
      match db_get db i with
      | Some v =>
          let (h', p) := load h false i v in               (* EntityChangeState.init, before the removal *)
          mkES h' ((i, None) :: db) (es_queue st ++ [mkQ Deleted i p]) (es_snap st ++ [(i, v)])
      | None => st
      end
  end.

Definition run_ecaller (lib : evlib) (st : estate) (acts : list eaction) : estate := fold_left (estep lib) acts st.

(* what a listener is handed for a queued event WHEN THE COMMIT HANDLERS RUN: the struct behind the pointer, now *)
Definition deliver (h : eheap) (q : qevent) : option (id * view) :=
  option_map (fun s => (g_id s, g_view s)) (eget h (q_ptr q)).

Definition delivered (st : estate) : list (option (id * view)) := map (deliver (es_heap st)) (es_queue st).
