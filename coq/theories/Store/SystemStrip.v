(* C16, "ordinary entities are unaffected by the constraint":
   [strip sch] is the schema with every [CSystem] constraint removed from every constraint list.
   In a state without system entities, every operation that does not itself create a system entity
   behaves - result, state, events - exactly as under the stripped schema, in ANY context. *)
From Coq Require Import List NArith Bool Lia.
From Storage Require Import Base.Bytes Base.BytesFacts Store.Model Store.AListFacts Store.FrameProofs
  Store.DeleteFrame Store.SystemProofs.
Import ListNotations.

Definition nonsys (k : cons) : bool := negb (is_sys k).
Definition strip_cons (ks : list cons) : list cons := filter nonsys ks.
Definition strip_def (d : sdef) : sdef :=
  mkSdef (sd_name d) (sd_parent d) (sd_ext d) (sd_fields d) (sd_sets d) (strip_cons (sd_cons d)) (sd_links d).
Definition strip (sch : schema) : schema := map strip_def sch.

(* no entity of any root store carries the system flag *)
Definition NoSys (st : state) : Prop :=
  forall r i e, get_ent st r i = Some e -> ent_field e isSystemF <> FBool true.

Lemma fold_left_ext {A B} (f g : A -> B -> A) : (forall a b, f a b = g a b) ->
  forall l a, fold_left f l a = fold_left g l a.
Proof. intros H. induction l as [|b l IH]; intros a; cbn; [reflexivity|]. rewrite H. apply IH. Qed.

Lemma existsb_ext' {A} (f g : A -> bool) : (forall x, f x = g x) -> forall l, existsb f l = existsb g l.
Proof. intros H. induction l as [|a l IH]; cbn; [reflexivity|]. rewrite H, IH. reflexivity. Qed.

Lemma find_map_strip (p : sdef -> bool) (q : sdef -> bool) (l : list sdef) :
  (forall d, q (strip_def d) = p d) -> find q (map strip_def l) = option_map strip_def (find p l).
Proof.
  intros H. induction l as [|d l IH]; cbn; [reflexivity|]. rewrite H. destruct (p d); [reflexivity | exact IH].
Qed.

Section Strip.
  Variable sch : schema.
  Let sch' := strip sch.

  Lemma find_store_strip x : find_store sch' x = option_map strip_def (find_store sch x).
  Proof.
    unfold sch', strip. induction sch as [|d l IH]; cbn; [reflexivity|].
    destruct (str_eqb (sd_name d) x); [reflexivity | exact IH].
  Qed.

  Lemma root_of_strip x : root_of sch' x = root_of sch x.
  Proof. unfold root_of. rewrite find_store_strip. destruct (find_store sch x); reflexivity. Qed.

  Lemma is_child_strip x : is_child sch' x = is_child sch x.
  Proof. unfold is_child. rewrite find_store_strip. destruct (find_store sch x); reflexivity. Qed.

  Lemma is_ext_strip x : is_ext sch' x = is_ext sch x.
  Proof. unfold is_ext. rewrite find_store_strip. destruct (find_store sch x); reflexivity. Qed.

  Lemma children_of_strip r : children_of sch' r = map strip_def (children_of sch r).
  Proof.
    unfold sch', strip, children_of. induction sch as [|d l IH]; cbn; [reflexivity|].
    destruct (sd_parent d) as [p|]; [destruct (str_eqb p r)|]; cbn; rewrite IH; reflexivity.
  Qed.

  Lemma cons_of_strip x : cons_of sch' x = strip_cons (cons_of sch x).
  Proof. unfold cons_of. rewrite find_store_strip. destruct (find_store sch x); reflexivity. Qed.

  Lemma present_strip st x i : present sch' st x i = present sch st x i.
  Proof. unfold present. rewrite root_of_strip, is_child_strip. reflexivity. Qed.

  Lemma loadable_strip st x i : loadable sch' st x i = loadable sch st x i.
  Proof. unfold loadable. rewrite !present_strip, is_ext_strip, root_of_strip. reflexivity. Qed.

  Lemma get_field_strip st x i f : get_field sch' st x i f = get_field sch st x i f.
  Proof.
    unfold get_field. rewrite root_of_strip, find_store_strip, is_child_strip.
    destruct (get_ent st (root_of sch x) i); [|reflexivity]. destruct (find_store sch x); reflexivity.
  Qed.

  Lemma get_set_strip st x i f : get_set sch' st x i f = get_set sch st x i f.
  Proof. unfold get_set. rewrite root_of_strip. reflexivity. Qed.

  Lemma backref_add_strip st t ti b i : backref_add sch' st t ti b i = backref_add sch st t ti b i.
  Proof. unfold backref_add. rewrite root_of_strip. reflexivity. Qed.

  Lemma backref_del_strip st t ti b i : backref_del sch' st t ti b i = backref_del sch st t ti b i.
  Proof. unfold backref_del. rewrite root_of_strip. reflexivity. Qed.

  Lemma persist_strip x create sys fv sv ch e : persist sch' x create sys fv sv ch e = persist sch x create sys fv sv ch e.
  Proof.
    unfold persist. rewrite find_store_strip. destruct (find_store sch x) as [d|]; [|reflexivity]. cbn.
    destruct (sd_parent d) as [p|]; [|reflexivity]. rewrite find_store_strip.
    destruct (find_store sch p); reflexivity.
  Qed.

  Lemma before_update_one_strip st c k : before_update_one sch' st c k = before_update_one sch st c k.
  Proof. destruct k; cbn [before_update_one]; rewrite ?get_field_strip, ?get_set_strip; reflexivity. Qed.

  Lemma after_update_one_strip st c k sv : after_update_one sch' st c k sv = after_update_one sch st c k sv.
  Proof.
    destruct k as [f0 nl|f0|f0 t b nl|b|f0 t nl|rs f0 cs|]; cbn [after_update_one];
      rewrite ?get_field_strip, ?get_set_strip, ?root_of_strip, ?present_strip; try reflexivity.
    (* CFkIndex: the intermediate state of the back-reference hand-over *)
    destruct (negb (ic_create c) && _); [reflexivity|].
    destruct (nonempty (sv_atom sv)).
    - destruct (present sch st t (sv_atom sv)); [|reflexivity]. cbn [bind].
      rewrite backref_del_strip, present_strip, backref_add_strip. reflexivity.
    - cbn [bind]. rewrite ?present_strip, backref_add_strip. reflexivity.
  Qed.

  Lemma chain_strip x : chain sch' x = map (fun p => (fst p, strip_cons (snd p))) (chain sch x).
  Proof.
    unfold chain. rewrite is_child_strip, root_of_strip, !cons_of_strip.
    destruct (is_child sch x); reflexivity.
  Qed.

  Lemma fire_cu_strip oc evs x c i : fire_cu sch' oc evs x c i = fire_cu sch oc evs x c i.
  Proof. unfold fire_cu. rewrite is_child_strip, root_of_strip. reflexivity. Qed.

  Lemma cleanup_links_strip st x i : cleanup_links sch' st x i = cleanup_links sch st x i.
  Proof.
    unfold cleanup_links. rewrite find_store_strip. destruct (find_store sch x) as [d|]; [|reflexivity]. cbn.
    apply fold_left_ext. intros a [[lf os] of_]. rewrite get_set_strip.
    apply fold_left_ext. intros a2 oi. apply backref_del_strip.
  Qed.

  Lemma find_link_strip x lf : find_link sch' x lf = find_link sch x lf.
  Proof. unfold find_link. rewrite find_store_strip. destruct (find_store sch x); reflexivity. Qed.

  Lemma op_add_links_strip st x i lf ts : op_add_links sch' st x i lf ts = op_add_links sch st x i lf ts.
  Proof.
    unfold op_add_links. rewrite find_link_strip. destruct (find_link sch x lf) as [[os of_]|]; [|reflexivity].
    rewrite present_strip. destruct (negb (present sch st x i)); [reflexivity|].
    apply fold_left_ext. intros a t. destruct a as [cur|e]; cbn [bind]; [|reflexivity].
    rewrite present_strip, !backref_add_strip. reflexivity.
  Qed.

  Lemma op_remove_links_strip st x i lf ts : op_remove_links sch' st x i lf ts = op_remove_links sch st x i lf ts.
  Proof.
    unfold op_remove_links. rewrite find_link_strip. destruct (find_link sch x lf) as [[os of_]|]; [|reflexivity].
    rewrite present_strip. destruct (negb (present sch st x i)); [reflexivity|]. f_equal.
    apply fold_left_ext. intros a t. rewrite !backref_del_strip. reflexivity.
  Qed.

  Lemma casc_matches_strip rs f i st x : casc_matches sch' rs f i st x = casc_matches sch rs f i st x.
  Proof. unfold casc_matches. rewrite present_strip, get_field_strip. reflexivity. Qed.

  (* ---------------------------------------------------------------- where the constraint could matter *)
  Hypothesis Hnofield : forall x d, find_store sch x = Some d -> declares_field d isSystemF = false.

  Lemma get_field_nosys st x i : NoSys st -> get_field sch st x i isSystemF <> FBool true.
  Proof.
    intros Hn. unfold get_field. destruct (get_ent st (root_of sch x) i) as [e|] eqn:Ee; [|discriminate].
    destruct (find_store sch x) as [d|] eqn:Ed.
    - rewrite (Hnofield _ _ Ed), andb_false_r. eapply Hn; eauto.
    - eapply Hn; eauto.
  Qed.

  Lemma NoSys_shrink st st' : ents_shrink st st' -> NoSys st -> NoSys st'.
  Proof.
    intros Hs Hn r i e' He'. specialize (Hs r i). rewrite He' in Hs. destruct Hs as [e [He [Hf _]]].
    unfold ent_field. rewrite Hf. exact (Hn r i e He).
  Qed.

  Lemma NoSys_fc st st' : ents_fc_eq st st' -> NoSys st -> NoSys st'.
  Proof. intros H. apply NoSys_shrink. apply ents_fc_eq_shrink. exact H. Qed.

  (* the target of an indexing context does not carry the flag *)
  Definition Loc (st : state) (c : ictx) : Prop :=
    get_field sch st (ic_store c) (ic_id c) isSystemF <> FBool true.

  Lemma Loc_fc st st' c : ents_fc_eq st st' -> Loc st c -> Loc st' c.
  Proof. intros H Hl. unfold Loc. rewrite (get_field_fc sch st st'); [exact Hl | apply H]. Qed.

  Lemma sys_before_id st c : Loc st c -> before_update_one sch st c CSystem = Ok SvNone.
  Proof.
    intros Hg. cbn [before_update_one]. destruct (negb (ic_create c)); [|reflexivity].
    unfold Loc, isSystemF in Hg.
    destruct (get_field sch st (ic_store c) (ic_id c) _) as [| |y|[|]]; try reflexivity. congruence.
  Qed.

  Lemma sys_after_id st c sv : Loc st c -> after_update_one sch st c CSystem sv = Ok st.
  Proof.
    intros Hg. cbn [after_update_one]. destruct (ic_create c); [|reflexivity]. unfold Loc in Hg.
    destruct (get_field sch st (ic_store c) (ic_id c) isSystemF) as [| |y|[|]]; try reflexivity. congruence.
  Qed.

  (* the saved-state slots of the constraints that remain *)
  Fixpoint strip_sv (ks : list cons) (svs : list saved) : list saved :=
    match ks, svs with
    | k :: kr, x :: xr => if is_sys k then strip_sv kr xr else x :: strip_sv kr xr
    | _, _ => []
    end.

  Lemma strip_sv_nil ks : strip_sv ks [] = [].
  Proof. destruct ks; reflexivity. Qed.

  Lemma before_all_strip st c : Loc st c -> forall ks,
    before_update_all sch' st c (strip_cons ks) =
    match before_update_all sch st c ks with Ok svs => Ok (strip_sv ks svs) | Err e => Err e end.
  Proof.
    intros Hn. induction ks as [|k ks IH]; [reflexivity|].
    cbn [strip_cons filter before_update_all]. destruct (cons_eq_sys k) as [->|Hk].
    - cbn [nonsys is_sys negb]. fold (strip_cons ks). rewrite IH, (sys_before_id st c Hn). cbn [bind].
      destruct (before_update_all sch st c ks); reflexivity.
    - assert (nonsys k = true) as -> by (destruct k; try reflexivity; congruence).
      fold (strip_cons ks). cbn [before_update_all]. rewrite before_update_one_strip, IH.
      destruct (before_update_one sch st c k) as [sv|e]; cbn [bind]; [|reflexivity].
      destruct (before_update_all sch st c ks) as [svs|e]; cbn [bind]; [|reflexivity].
      cbn [strip_sv]. assert (is_sys k = false) as -> by (destruct k; try reflexivity; congruence). reflexivity.
  Qed.

  Lemma after_all_strip c : forall ks svs st, Loc st c ->
    after_update_all sch' st c (strip_cons ks) (strip_sv ks svs) = after_update_all sch st c ks svs.
  Proof.
    induction ks as [|k ks IH]; intros svs st Hn; [reflexivity|].
    cbn [strip_cons filter after_update_all]. destruct (cons_eq_sys k) as [->|Hk].
    - cbn [nonsys is_sys negb]. fold (strip_cons ks). rewrite (sys_after_id st c _ Hn). cbn [bind].
      destruct svs as [|x xr]; cbn [strip_sv is_sys]; [|apply IH; exact Hn].
      pose proof (IH [] st Hn) as IH0. rewrite strip_sv_nil in IH0. exact IH0.
    - assert (nonsys k = true) as -> by (destruct k; try reflexivity; congruence).
      fold (strip_cons ks). cbn [after_update_all].
      assert (is_sys k = false) as Hk' by (destruct k; try reflexivity; congruence).
      destruct svs as [|x xr]; cbn [strip_sv]; rewrite ?Hk'; rewrite after_update_one_strip.
      + destruct (after_update_one sch st c k SvNone) as [st1|e] eqn:E1; cbn [bind]; [|reflexivity].
        assert (Loc st1 c) as Hn1 by (eapply Loc_fc; [eapply after_update_one_frame; exact E1 | exact Hn]).
        pose proof (IH [] st1 Hn1) as IH0. rewrite strip_sv_nil in IH0. exact IH0.
      + destruct (after_update_one sch st c k x) as [st1|e] eqn:E1; cbn [bind]; [|reflexivity].
        apply IH. eapply Loc_fc; [eapply after_update_one_frame; exact E1 | exact Hn].
  Qed.

  Definition strip_chain (ch : list (name * list cons)) : list (name * list cons) :=
    map (fun p => (fst p, strip_cons (snd p))) ch.

  Fixpoint strip_svss (ch : list (name * list cons)) (svss : list (list saved)) : list (list saved) :=
    match ch, svss with
    | (_, ks) :: cr, x :: xr => strip_sv ks x :: strip_svss cr xr
    | _, _ => []
    end.

  Lemma strip_svss_nil ch : strip_svss ch [] = [].
  Proof. destruct ch as [|[a b] ch]; reflexivity. Qed.

  (* entity i does not carry the flag, seen from every store of the indexing chain *)
  Definition ChainLoc (st : state) (i : id) (ch : list (name * list cons)) : Prop :=
    forall s0 ks, In (s0, ks) ch -> get_field sch st s0 i isSystemF <> FBool true.

  Lemma ChainLoc_fc st st' i ch : ents_fc_eq st st' -> ChainLoc st i ch -> ChainLoc st' i ch.
  Proof.
    intros H Hc s0 ks Hin. rewrite (get_field_fc sch st st'); [exact (Hc s0 ks Hin) | apply H].
  Qed.

  Lemma ChainLoc_tl st i p ch : ChainLoc st i (p :: ch) -> ChainLoc st i ch.
  Proof. intros H s0 ks Hin. apply (H s0 ks). right. exact Hin. Qed.

  Lemma before_chain_strip st create sys i : forall ch, ChainLoc st i ch ->
    before_chain sch' st create sys i (strip_chain ch) =
    match before_chain sch st create sys i ch with Ok svss => Ok (strip_svss ch svss) | Err e => Err e end.
  Proof.
    induction ch as [|[s0 ks] ch IH]; intros Hn; [reflexivity|].
    cbn [strip_chain map fst snd before_chain]. fold (strip_chain ch).
    assert (Loc st (mkIctx create sys s0 i)) as Hl by (exact (Hn s0 ks (or_introl eq_refl))).
    rewrite (before_all_strip st _ Hl ks), (IH (ChainLoc_tl _ _ _ _ Hn)).
    destruct (before_update_all sch st _ ks) as [svs|e]; cbn [bind]; [|reflexivity].
    destruct (before_chain sch st create sys i ch) as [svss|e]; cbn [bind]; reflexivity.
  Qed.

  Lemma after_chain_strip create sys i : forall ch svss st, ChainLoc st i ch ->
    after_chain sch' st create sys i (strip_chain ch) (strip_svss ch svss) = after_chain sch st create sys i ch svss.
  Proof.
    induction ch as [|[s0 ks] ch IH]; intros svss st Hn; [reflexivity|].
    cbn [strip_chain map fst snd after_chain]. fold (strip_chain ch).
    assert (Loc st (mkIctx create sys s0 i)) as Hl by (exact (Hn s0 ks (or_introl eq_refl))).
    pose proof (ChainLoc_tl _ _ _ _ Hn) as Hn'.
    destruct svss as [|x xr]; cbn [strip_svss].
    - pose proof (after_all_strip (mkIctx create sys s0 i) ks [] st Hl) as HA. rewrite strip_sv_nil in HA. rewrite HA.
      destruct (after_update_all sch st _ ks []) as [st1|e] eqn:E1; cbn [bind]; [|reflexivity].
      assert (ChainLoc st1 i ch) as Hn1 by (eapply ChainLoc_fc; [eapply after_all_fc; exact E1 | exact Hn']).
      pose proof (IH [] st1 Hn1) as IH0. rewrite strip_svss_nil in IH0. exact IH0.
    - rewrite (after_all_strip _ ks x st Hl).
      destruct (after_update_all sch st _ ks x) as [st1|e] eqn:E1; cbn [bind]; [|reflexivity].
      apply IH. eapply ChainLoc_fc; [eapply after_all_fc; exact E1 | exact Hn'].
  Qed.

  Lemma NoSys_ChainLoc st i ch : NoSys st -> ChainLoc st i ch.
  Proof. intros Hn s0 ks _. apply get_field_nosys. exact Hn. Qed.

  (* ---------------------------------------------------------------- persisting never sets the flag by itself *)
  Lemma persist_fields_nobool decl fv ch g : forall cur,
    al_get g (persist_fields decl fv ch cur) = Some (FBool true) -> al_get g cur = Some (FBool true).
  Proof.
    unfold persist_fields. induction decl as [|[f ptr] decl IH]; intros cur H; cbn [fold_left] in H; [exact H|].
    apply IH in H. destruct (checked ch f); [|exact H].
    destruct (lookup_fv fv f) as [[v|]|]; try destruct ptr; rewrite al_get_put in H;
      destruct (str_eqb f g); try discriminate; exact H.
  Qed.

  Lemma persist_nosys x create sys fv sv ch e : create && sys = false ->
    ent_field e isSystemF <> FBool true -> ent_field (persist sch x create sys fv sv ch e) isSystemF <> FBool true.
  Proof.
    intros Hcs He. unfold persist. destruct (find_store sch x) as [d|]; [|exact He].
    destruct (sd_parent d) as [p|].
    - destruct (find_store sch p) as [pd|]; [|exact He]. rewrite Hcs. unfold ent_field in *. cbn [e_f].
      intros H. apply He. destruct (al_get isSystemF (persist_fields _ _ _ _)) as [v|] eqn:E; [|discriminate].
      subst v. apply persist_fields_nobool in E. rewrite E. reflexivity.
    - rewrite Hcs. unfold ent_field in *. cbn [e_f].
      intros H. apply He. destruct (al_get isSystemF (persist_fields _ _ _ _)) as [v|] eqn:E; [|discriminate].
      subst v. apply persist_fields_nobool in E. rewrite E. reflexivity.
  Qed.

  Lemma NoSys_set_ent st r i e : NoSys st -> ent_field e isSystemF <> FBool true -> NoSys (set_ent st r i e).
  Proof.
    intros Hn He r0 i0 e0 H. rewrite get_ent_set_ent in H. destruct (str_eqb r r0 && str_eqb i i0).
    - inversion H; subst. exact He.
    - eapply Hn; eauto.
  Qed.

  (* ---------------------------------------------------------------- create / update, given the chain condition *)
  Lemma op_create_strip_core oc st evs x i fv sv :
    ChainLoc (set_ent st (root_of sch x) i (persist sch x true false fv sv None ent_empty)) i (chain sch x) ->
    op_create sch' oc (st, evs) x i false fv sv = op_create sch oc (st, evs) x i false fv sv.
  Proof.
    intros Hn1. unfold op_create. rewrite find_store_strip. destruct (find_store sch x) as [d|]; [|reflexivity]. cbn [option_map].
    destruct (negb (nonempty i)); [reflexivity|].
    rewrite !present_strip, root_of_strip. destruct (present sch st x i); [reflexivity|].
    destruct (present sch st (root_of sch x) i); [reflexivity|].
    destruct (negb (key_ok i)); [reflexivity|].
    rewrite fire_cu_strip, persist_strip, chain_strip.
    destruct (fire_cu sch oc evs x Created i) as [evs1|e]; cbn [bind]; [|reflexivity].
    fold (strip_chain (chain sch x)).
    pose proof (after_chain_strip true (oc_sys oc) i (chain sch x) [] _ Hn1) as HA. rewrite strip_svss_nil in HA.
    rewrite HA. reflexivity.
  Qed.

  Lemma update_in_strip_core oc st evs x i fv sv ch :
    ChainLoc st i (chain sch x) ->
    ChainLoc (set_ent st (root_of sch x) i
                (persist sch x false false fv sv ch (match get_ent st (root_of sch x) i with Some e => e | None => ent_empty end)))
             i (chain sch x) ->
    update_in sch' oc (st, evs) x i fv sv ch = update_in sch oc (st, evs) x i fv sv ch.
  Proof.
    intros Hn Hn1. unfold update_in. destruct (negb (nonempty i)); [reflexivity|].
    rewrite loadable_strip, present_strip, root_of_strip. destruct (negb (loadable sch st x i)); [reflexivity|].
    destruct (negb (present sch st x i)); [reflexivity|].
    rewrite fire_cu_strip, persist_strip, chain_strip.
    destruct (fire_cu sch oc evs x Updated i) as [evs1|e]; cbn [bind]; [|reflexivity].
    fold (strip_chain (chain sch x)). rewrite (before_chain_strip st false (oc_sys oc) i _ Hn).
    destruct (before_chain sch st false (oc_sys oc) i (chain sch x)) as [svss|e]; cbn [bind]; [|reflexivity].
    rewrite (after_chain_strip false (oc_sys oc) i _ svss _ Hn1). reflexivity.
  Qed.

  (* ---- in a state without system entities *)
  Lemma op_create_strip oc st evs x i fv sv : NoSys st ->
    op_create sch' oc (st, evs) x i false fv sv = op_create sch oc (st, evs) x i false fv sv.
  Proof.
    intros Hn. apply op_create_strip_core. apply NoSys_ChainLoc.
    apply NoSys_set_ent; [exact Hn|]. apply persist_nosys; [reflexivity | cbn; discriminate].
  Qed.

  Lemma update_in_strip oc st evs x i fv sv ch : NoSys st ->
    update_in sch' oc (st, evs) x i fv sv ch = update_in sch oc (st, evs) x i fv sv ch.
  Proof.
    intros Hn. apply update_in_strip_core; apply NoSys_ChainLoc; [exact Hn|].
    apply NoSys_set_ent; [exact Hn|]. apply persist_nosys; [reflexivity|].
    destruct (get_ent st (root_of sch x) i) as [e0|] eqn:E0; [eapply Hn; eauto | cbn; discriminate].
  Qed.

  Lemma op_update_strip oc st evs x i fv sv ch : NoSys st ->
    op_update sch' oc (st, evs) x i fv sv ch = op_update sch oc (st, evs) x i fv sv ch.
  Proof.
    intros Hn. unfold op_update. rewrite find_store_strip. destruct (find_store sch x) as [d|]; [|reflexivity]. cbn [option_map].
    rewrite is_child_strip. destruct (is_child sch x); [apply update_in_strip; exact Hn|].
    rewrite children_of_strip. cbn [fst].
    rewrite (find_map_strip (fun d0 => present sch st (sd_name d0) i)); [|intros d0; apply present_strip].
    destruct (find _ (children_of sch x)) as [d0|]; cbn [option_map]; apply update_in_strip; exact Hn.
  Qed.

  (* ---- in ANY state (system entities may exist): the target itself does not carry the flag *)
  Hypothesis Hroots : forall y, root_of sch (root_of sch y) = root_of sch y.
  Hypothesis Hchildren : forall r0 d, In d (children_of sch r0) -> root_of sch (sd_name d) = r0.

  Definition NoFlag (st : state) (r : name) (i : id) : Prop :=
    forall e, get_ent st r i = Some e -> ent_field e isSystemF <> FBool true.

  Lemma NoFlag_ChainLoc st x i : NoFlag st (root_of sch x) i -> ChainLoc st i (chain sch x).
  Proof.
    intros Hn s0 ks Hin.
    assert (root_of sch s0 = root_of sch x) as Hr.
    { unfold chain in Hin. destruct (is_child sch x); cbn in Hin.
      - destruct Hin as [H|[H|[]]]; inversion H; subst; [apply Hroots | reflexivity].
      - destruct Hin as [H|[]]. inversion H; subst. reflexivity. }
    unfold get_field. rewrite Hr. destruct (get_ent st (root_of sch x) i) as [e|] eqn:Ee; [|discriminate].
    destruct (find_store sch s0) as [d|] eqn:Ed.
    - rewrite (Hnofield _ _ Ed), andb_false_r. exact (Hn e Ee).
    - exact (Hn e Ee).
  Qed.

  Lemma NoFlag_set_ent st r i e : ent_field e isSystemF <> FBool true -> NoFlag (set_ent st r i e) r i.
  Proof. intros He e0 H. rewrite get_ent_set_ent, !str_eqb_refl in H. inversion H; subst. exact He. Qed.

  (* a create without the flag is unaffected by the constraint in EVERY state *)
  Lemma op_create_strip_any oc st evs x i fv sv :
    op_create sch' oc (st, evs) x i false fv sv = op_create sch oc (st, evs) x i false fv sv.
  Proof.
    apply op_create_strip_core. apply NoFlag_ChainLoc. apply NoFlag_set_ent.
    apply persist_nosys; [reflexivity | cbn; discriminate].
  Qed.

  Lemma update_in_strip_any oc st evs x i fv sv ch : NoFlag st (root_of sch x) i ->
    update_in sch' oc (st, evs) x i fv sv ch = update_in sch oc (st, evs) x i fv sv ch.
  Proof.
    intros Hn. apply update_in_strip_core; apply NoFlag_ChainLoc; [exact Hn|].
    apply NoFlag_set_ent. apply persist_nosys; [reflexivity|].
    destruct (get_ent st (root_of sch x) i) as [e0|] eqn:E0; [exact (Hn e0 E0) | cbn; discriminate].
  Qed.

  (* an update of an entity whose stored flag is not set is unaffected by the constraint in EVERY state *)
  Lemma op_update_strip_any oc st evs x i fv sv ch : NoFlag st (root_of sch x) i ->
    op_update sch' oc (st, evs) x i fv sv ch = op_update sch oc (st, evs) x i fv sv ch.
  Proof.
    intros Hn. unfold op_update. rewrite find_store_strip. destruct (find_store sch x) as [d|]; [|reflexivity]. cbn [option_map].
    rewrite is_child_strip. destruct (is_child sch x) eqn:Ec; [apply update_in_strip_any; exact Hn|].
    rewrite children_of_strip. cbn [fst].
    rewrite (find_map_strip (fun d0 => present sch st (sd_name d0) i)); [|intros d0; apply present_strip].
    destruct (find _ (children_of sch x)) as [d0|] eqn:Ef; cbn [option_map]; apply update_in_strip_any; [|exact Hn].
    apply find_some in Ef as [Hin _]. rewrite (Hchildren _ _ Hin).
    assert (root_of sch x = x) as <-; [|exact Hn].
    unfold is_child in Ec. unfold root_of. destruct (find_store sch x) as [dx|]; [|reflexivity].
    destruct (sd_parent dx); [discriminate | reflexivity].
  Qed.

  (* ---------------------------------------------------------------- delete *)
  Section DeleteStrip.
    Variable oc : octx.
    Variables del del' : st_ev -> name -> id -> res st_ev.
    Hypothesis Hsim : forall stev s0 x, NoSys (fst stev) -> del' stev s0 x = del stev s0 x.
    Hypothesis Hshr : DelR ents_shrink del.

    Lemma cascade_loop_strip rs f i : forall cands cur, NoSys (fst cur) ->
      cascade_loop sch' del' rs f i cands cur = cascade_loop sch del rs f i cands cur.
    Proof.
      induction cands as [|c0 cands IH]; intros cur Hn; [reflexivity|]. cbn [cascade_loop].
      rewrite casc_matches_strip. destruct (casc_matches sch rs f i (fst cur) c0); [|apply IH; exact Hn].
      rewrite (Hsim _ _ _ Hn). destruct (del cur rs c0) as [cur1|e] eqn:Ed; cbn [bind]; [|reflexivity].
      apply IH. eapply NoSys_shrink; [eapply Hshr; exact Ed | exact Hn].
    Qed.

    Lemma before_delete_one_strip st evs c k : NoSys st ->
      before_delete_one sch' oc del' (st, evs) c k = before_delete_one sch oc del (st, evs) c k.
    Proof.
      intros Hn. destruct k as [f0 nl|f0|f0 t b nl|b|f0 t nl|rs f0 cs|]; cbn [before_delete_one];
        rewrite ?get_field_strip, ?get_set_strip, ?root_of_strip, ?present_strip, ?backref_del_strip; try reflexivity.
      destruct cs.
      - rewrite (existsb_ext' _ (casc_matches sch rs f0 (ic_id c) st)); [reflexivity|].
        intros y. apply casc_matches_strip.
      - apply cascade_loop_strip. exact Hn.
    Qed.

    Lemma sys_delete_id st evs c : NoSys st -> before_delete_one sch oc del (st, evs) c CSystem = Ok (st, evs).
    Proof.
      intros Hn. cbn [before_delete_one].
      pose proof (get_field_nosys st (ic_store c) (ic_id c) Hn) as Hg.
      destruct (get_field sch st (ic_store c) (ic_id c) isSystemF) as [| |y|[|]]; try reflexivity. congruence.
    Qed.

    Lemma before_delete_all_strip c : forall ks st evs, NoSys st ->
      before_delete_all sch' oc del' (st, evs) c (strip_cons ks) = before_delete_all sch oc del (st, evs) c ks.
    Proof.
      induction ks as [|k ks IH]; intros st evs Hn; [reflexivity|].
      cbn [strip_cons filter before_delete_all]. destruct (cons_eq_sys k) as [->|Hk].
      - cbn [nonsys is_sys negb]. fold (strip_cons ks). rewrite (sys_delete_id st evs c Hn). cbn [bind]. apply IH. exact Hn.
      - assert (nonsys k = true) as -> by (destruct k; try reflexivity; congruence).
        fold (strip_cons ks). cbn [before_delete_all]. rewrite (before_delete_one_strip st evs c k Hn).
        destruct (before_delete_one sch oc del (st, evs) c k) as [[st1 evs1]|e] eqn:E1; cbn [bind]; [|reflexivity].
        apply IH. eapply NoSys_shrink; [|exact Hn].
        exact (bd_one_R sch oc ents_shrink ents_shrink_refl ents_shrink_trans ents_fc_eq_shrink del st evs c k st1 evs1 Hshr E1).
    Qed.

    Lemma before_delete_chain_strip x : forall ch st evs, NoSys st ->
      before_delete_chain sch' oc del' x (strip_chain ch) (st, evs) = before_delete_chain sch oc del x ch (st, evs).
    Proof.
      induction ch as [|[s0 ks] ch IH]; intros st evs Hn; [reflexivity|].
      cbn [strip_chain map fst snd before_delete_chain]. fold (strip_chain ch).
      rewrite (before_delete_all_strip _ ks st evs Hn).
      destruct (before_delete_all sch oc del (st, evs) _ ks) as [[st1 evs1]|e] eqn:E1; cbn [bind]; [|reflexivity].
      apply IH. eapply NoSys_shrink; [|exact Hn].
      exact (bd_all_R sch oc ents_shrink ents_shrink_refl ents_shrink_trans ents_fc_eq_shrink del _ Hshr ks st evs st1 evs1 E1).
    Qed.

    Lemma process_delete_strip st evs s0 x : NoSys st ->
      process_delete sch' oc del' (st, evs) s0 x = process_delete sch oc del (st, evs) s0 x.
    Proof.
      intros Hn. unfold process_delete. rewrite chain_strip. fold (strip_chain (chain sch s0)).
      rewrite (before_delete_chain_strip x _ st evs Hn).
      destruct (before_delete_chain sch oc del x (chain sch s0) (st, evs)) as [stev1|e]; cbn [bind]; [|reflexivity].
      rewrite cleanup_links_strip. reflexivity.
    Qed.

    Lemma children_delete_strip x : forall cs cur flows, NoSys (fst cur) ->
      children_delete sch' oc del' x (map strip_def cs) cur flows = children_delete sch oc del x cs cur flows.
    Proof.
      induction cs as [|d cs IH]; intros cur flows Hn; [reflexivity|].
      cbn [map children_delete]. change (sd_name (strip_def d)) with (sd_name d). rewrite loadable_strip.
      destruct (loadable sch (fst cur) (sd_name d) x); [|apply IH; exact Hn].
      destruct cur as [st evs]. cbn [fst] in Hn. rewrite (process_delete_strip st evs (sd_name d) x Hn).
      destruct (process_delete sch oc del (st, evs) (sd_name d) x) as [[st1 evs1]|e] eqn:E1; cbn [bind]; [|reflexivity].
      apply IH. cbn [fst]. eapply NoSys_shrink; [|exact Hn].
      exact (process_delete_R sch oc ents_shrink ents_shrink_refl ents_shrink_trans ents_fc_eq_shrink del st evs _ x st1 evs1 Hshr E1).
    Qed.
  End DeleteStrip.

  Lemma delete_strip oc : forall n stev s0 x, NoSys (fst stev) ->
    delete_by_id sch' oc n stev s0 x = delete_by_id sch oc n stev s0 x.
  Proof.
    induction n as [|n IH]; intros stev s0 x Hn; [reflexivity|].
    cbn [delete_by_id]. rewrite root_of_strip, present_strip.
    destruct (negb (present sch (fst stev) (root_of sch s0) x)); [reflexivity|].
    rewrite children_of_strip.
    rewrite (children_delete_strip oc (delete_by_id sch oc n) (delete_by_id sch' oc n) IH (delete_shrink sch oc n) x _ stev [] Hn).
    destruct (children_delete sch oc (delete_by_id sch oc n) x (children_of sch (root_of sch s0)) stev [])
      as [[stev1 flows]|e] eqn:Ech; cbn [bind]; [|reflexivity].
    assert (NoSys (fst stev1)) as Hn1.
    { eapply NoSys_shrink; [|exact Hn].
      exact (children_delete_R sch oc ents_shrink ents_shrink_refl ents_shrink_trans ents_fc_eq_shrink _ x
               (delete_shrink sch oc n) _ _ _ _ _ Ech). }
    rewrite present_strip. destruct (negb (present sch (fst stev1) (root_of sch s0) x)); [reflexivity|].
    destruct stev1 as [st1 evs1]. cbn [fst] in Hn1.
    rewrite (process_delete_strip oc (delete_by_id sch oc n) (delete_by_id sch' oc n) IH (delete_shrink sch oc n) st1 evs1 _ x Hn1).
    reflexivity.
  Qed.

  (* ---------------------------------------------------------------- operations, transactions, histories *)
  Definition creates_no_sys (o : op) : Prop :=
    match o with OCreate _ _ sys _ _ => sys = false | _ => True end.

  Lemma run_op_strip fuel oc stev o : NoSys (fst stev) -> creates_no_sys o ->
    run_op sch' fuel oc stev o = run_op sch fuel oc stev o.
  Proof.
    intros Hn Hc. destruct stev as [st evs]. cbn [fst] in Hn.
    destruct o as [s0 i sys fv sv|s0 i fv sv ch|s0 i|s0 i lf ts|s0 i lf ts|]; cbn [run_op fst snd].
    - cbn in Hc. subst sys. apply op_create_strip. exact Hn.
    - apply op_update_strip. exact Hn.
    - apply delete_strip. exact Hn.
    - rewrite op_add_links_strip. reflexivity.
    - rewrite op_remove_links_strip. reflexivity.
    - reflexivity.
  Qed.

  (* such operations do not create system entities either *)
  Lemma run_op_nosys fuel oc stev o stev' : NoSys (fst stev) -> creates_no_sys o ->
    run_op sch fuel oc stev o = Ok stev' -> NoSys (fst stev').
  Proof.
    intros Hn Hc H. destruct stev as [st evs]. cbn [fst] in Hn.
    destruct o as [s0 i sys fv sv|s0 i fv sv ch|s0 i|s0 i lf ts|s0 i lf ts|]; cbn [run_op fst snd] in H.
    - cbn in Hc. subst sys. unfold op_create in H. destruct (find_store sch s0); [|discriminate].
      destruct (negb (nonempty i)); [discriminate|]. destruct (present sch st s0 i); [discriminate|].
      destruct (present sch st (root_of sch s0) i); [discriminate|]. destruct (negb (key_ok i)); [discriminate|].
      destruct (fire_cu sch oc evs s0 Created i) as [evs1|e]; cbn [bind] in H; [|discriminate].
      destruct (after_chain sch _ true (oc_sys oc) i (chain sch s0) []) as [st2|e] eqn:Eac; cbn [bind] in H; [|discriminate].
      inversion H; subst. cbn [fst]. eapply NoSys_fc; [eapply after_chain_fc; exact Eac|].
      apply NoSys_set_ent; [exact Hn|]. apply persist_nosys; [reflexivity | cbn; discriminate].
    - assert (forall x, update_in sch oc (st, evs) x i fv sv ch = Ok stev' -> NoSys (fst stev')) as Hu.
      { intros x Hx. unfold update_in in Hx. destruct (negb (nonempty i)); [discriminate|].
        destruct (negb (loadable sch st x i)); [discriminate|]. destruct (negb (present sch st x i)); [discriminate|].
        destruct (fire_cu sch oc evs x Updated i) as [evs1|e]; cbn [bind] in Hx; [|discriminate].
        destruct (before_chain sch st false (oc_sys oc) i (chain sch x)) as [svss|e]; cbn [bind] in Hx; [|discriminate].
        destruct (after_chain sch _ false (oc_sys oc) i (chain sch x) svss) as [st2|e] eqn:Eac; cbn [bind] in Hx; [|discriminate].
        inversion Hx; subst. cbn [fst]. eapply NoSys_fc; [eapply after_chain_fc; exact Eac|].
        apply NoSys_set_ent; [exact Hn|]. apply persist_nosys; [reflexivity|].
        destruct (get_ent st (root_of sch x) i) as [e0|] eqn:E0; [eapply Hn; eauto | cbn; discriminate]. }
      unfold op_update in H. destruct (find_store sch s0); [|discriminate].
      destruct (is_child sch s0); [eapply Hu; eauto|]. destruct (find _ (children_of sch s0)); eapply Hu; eauto.
    - eapply NoSys_shrink; [|exact Hn]. exact (delete_shrink sch oc fuel _ _ _ _ H).
    - destruct (op_add_links sch st s0 i lf ts) as [st1|e] eqn:E; cbn [bind] in H; [|discriminate].
      inversion H; subst. cbn [fst]. eapply NoSys_fc; [eapply op_add_links_fc; exact E | exact Hn].
    - destruct (op_remove_links sch st s0 i lf ts) as [st1|e] eqn:E; cbn [bind] in H; [|discriminate].
      inversion H; subst. cbn [fst]. eapply NoSys_fc; [eapply op_remove_links_fc; exact E | exact Hn].
    - discriminate.
  Qed.

  Lemma run_ops_strip fuel oc : forall ops stev, NoSys (fst stev) -> Forall creates_no_sys ops ->
    run_ops sch' fuel oc stev ops = run_ops sch fuel oc stev ops /\
    (forall stev', snd (run_ops sch fuel oc stev ops) = Ok stev' -> NoSys (fst stev')).
  Proof.
    induction ops as [|o ops IH]; intros stev Hn Hall.
    - split; [reflexivity|]. cbn. intros stev' H. inversion H; subst. exact Hn.
    - inversion Hall as [|? ? Ho Hops]; subst. cbn [run_ops]. rewrite (run_op_strip fuel oc stev o Hn Ho).
      destruct (run_op sch fuel oc stev o) as [stev1|e] eqn:E1.
      + pose proof (run_op_nosys fuel oc stev o stev1 Hn Ho E1) as Hn1.
        destruct (IH stev1 Hn1 Hops) as [IH1 IH2]. rewrite IH1. split; [reflexivity|].
        intros stev' H. apply IH2. destruct (run_ops sch fuel oc stev1 ops) as [rs fin]. exact H.
      + split; [reflexivity|]. cbn. intros stev' H. discriminate.
  Qed.

  Definition tx_no_sys (t : tx) : Prop := Forall creates_no_sys (tx_ops t).

  Lemma run_tx_strip fuel st t : NoSys st -> tx_no_sys t ->
    run_tx sch' fuel st t = run_tx sch fuel st t /\
    NoSys (match run_tx sch fuel st t with (_, _, st', _) => st' end).
  Proof.
    intros Hn Ht. unfold run_tx.
    destruct (run_ops_strip fuel (mkOctx (tx_sys t) (tx_vetoes t)) (tx_ops t) (st, []) Hn Ht) as [H1 H2]. rewrite H1.
    destruct (run_ops sch fuel _ (st, []) (tx_ops t)) as [rs fin]. split; [reflexivity|].
    destruct fin as [[st1 evs1]|e]; [|exact Hn]. destruct (tx_precommit_fails t); [exact Hn|].
    apply (H2 (st1, evs1)). reflexivity.
  Qed.

  Lemma run_txs_strip fuel : forall ts st, NoSys st -> Forall tx_no_sys ts ->
    run_txs sch' fuel st ts = run_txs sch fuel st ts.
  Proof.
    unfold run_txs. induction ts as [|t ts IH]; intros st Hn Hall; cbn [fold_left]; [reflexivity|].
    inversion Hall as [|? ? Ht Hts]; subst. destruct (run_tx_strip fuel st t Hn Ht) as [H1 H2]. rewrite H1.
    apply IH; assumption.
  Qed.

  Lemma NoSys_empty : NoSys st_empty.
  Proof. intros r i e H. discriminate. Qed.
End Strip.

(* ================================================================ closed statements *)
From Storage Require Import Store.UniqueProofs Store.WfSchema.

Definition wf_nofield_b (sch : schema) : bool := forallb (fun d => negb (declares_field d isSystemF)) sch.

Lemma wf_nofield_b_sound sch : wf_nofield_b sch = true ->
  forall x d, find_store sch x = Some d -> declares_field d isSystemF = false.
Proof.
  intros H x d Hf. destruct (find_store_in _ _ _ Hf) as [Hin _]. unfold wf_nofield_b in H.
  rewrite forallb_forall in H. apply negb_true_iff. apply H. exact Hin.
Qed.

(* the stripped schema really carries no system-entity constraint *)
Lemma strip_has_no_sys_lemma sch x : ~ In CSystem (cons_of (strip sch) x).
Proof.
  rewrite cons_of_strip. unfold strip_cons. intros H. apply filter_In in H as [_ H]. discriminate.
Qed.

Lemma ordinary_unaffected_lemma sch fuel oc stev o :
  wf_nofield_b sch = true -> NoSys (fst stev) -> creates_no_sys o ->
  run_op (strip sch) fuel oc stev o = run_op sch fuel oc stev o.
Proof. intros Hwf. exact (run_op_strip sch (wf_nofield_b_sound sch Hwf) fuel oc stev o). Qed.

Lemma ordinary_tx_unaffected_lemma sch fuel st t :
  wf_nofield_b sch = true -> NoSys st -> tx_no_sys t ->
  run_tx (strip sch) fuel st t = run_tx sch fuel st t.
Proof. intros Hwf Hn Ht. exact (proj1 (run_tx_strip sch (wf_nofield_b_sound sch Hwf) fuel st t Hn Ht)). Qed.

Lemma ordinary_histories_unaffected_lemma sch fuel txs :
  wf_nofield_b sch = true -> Forall tx_no_sys txs ->
  run_txs (strip sch) fuel st_empty txs = run_txs sch fuel st_empty txs.
Proof.
  intros Hwf Hall. exact (run_txs_strip sch (wf_nofield_b_sound sch Hwf) fuel txs st_empty NoSys_empty Hall).
Qed.

(* ---- mixed states: system entities may exist elsewhere *)
Definition wf_strip_b (sch : schema) : bool :=
  wf_nofield_b sch && wf_parents sch && nodupb (map sd_name sch).

Lemma wf_parents_roots sch : wf_parents sch = true -> forall x, root_of sch (root_of sch x) = root_of sch x.
Proof.
  intros H3.
  assert (Hnc : forall p, is_child sch p = false -> root_of sch p = p).
  { intros p Hp. unfold is_child in Hp. unfold root_of. destruct (find_store sch p) as [dp|]; [|reflexivity].
    destruct (sd_parent dp); [discriminate | reflexivity]. }
  intros x. destruct (find_store sch x) as [d|] eqn:Ef.
  - destruct (sd_parent d) as [p|] eqn:Ep.
    + assert (root_of sch x = p) as Hx by (unfold root_of; rewrite Ef, Ep; reflexivity).
      rewrite Hx. apply Hnc. destruct (find_store_in _ _ _ Ef) as [Hin _].
      unfold wf_parents in H3. rewrite forallb_forall in H3. specialize (H3 d Hin). rewrite Ep in H3.
      apply negb_true_iff in H3. exact H3.
    + assert (root_of sch x = x) as Hx by (unfold root_of; rewrite Ef, Ep; reflexivity).
      rewrite Hx. exact Hx.
  - assert (root_of sch x = x) as Hx by (unfold root_of; rewrite Ef; reflexivity).
    rewrite Hx. exact Hx.
Qed.

Lemma nodup_children_root sch : nodupb (map sd_name sch) = true ->
  forall r0 d, In d (children_of sch r0) -> root_of sch (sd_name d) = r0.
Proof.
  intros H2 r0 d Hin. unfold children_of in Hin. apply filter_In in Hin as [Hin Hp].
  destruct (sd_parent d) as [p|] eqn:Ep; [|discriminate]. apply str_eqb_eq in Hp. subst p.
  unfold root_of. rewrite (find_store_nodup _ _ H2 Hin), Ep. reflexivity.
Qed.

Lemma wf_strip_b_sound sch : wf_strip_b sch = true ->
  (forall x d, find_store sch x = Some d -> declares_field d isSystemF = false) /\
  (forall y, root_of sch (root_of sch y) = root_of sch y) /\
  (forall r0 d, In d (children_of sch r0) -> root_of sch (sd_name d) = r0).
Proof.
  unfold wf_strip_b. intros H. apply andb_prop in H as [H H3]. apply andb_prop in H as [H1 H2].
  split; [exact (wf_nofield_b_sound sch H1)|]. split; [exact (wf_parents_roots sch H2) | exact (nodup_children_root sch H3)].
Qed.

Lemma ordinary_create_unaffected_any_lemma sch oc st evs x i fv sv :
  wf_strip_b sch = true ->
  op_create (strip sch) oc (st, evs) x i false fv sv = op_create sch oc (st, evs) x i false fv sv.
Proof.
  intros Hwf. destruct (wf_strip_b_sound sch Hwf) as [H1 [H2 H3]].
  exact (op_create_strip_any sch H1 H2 oc st evs x i fv sv).
Qed.

Lemma ordinary_update_unaffected_any_lemma sch oc st evs x i fv sv ch :
  wf_strip_b sch = true -> NoFlag st (root_of sch x) i ->
  op_update (strip sch) oc (st, evs) x i fv sv ch = op_update sch oc (st, evs) x i fv sv ch.
Proof.
  intros Hwf. destruct (wf_strip_b_sound sch Hwf) as [H1 [H2 H3]].
  exact (op_update_strip_any sch H1 H2 H3 oc st evs x i fv sv ch).
Qed.
