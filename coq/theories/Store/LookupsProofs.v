(* C15 (sixth strengthening): the lookup variants of Store/Lookups.v agree with one another and with [present] /
   [loadable] of Store/Model.v per store kind; a delete through ANY store of a family with SEVERAL child stores leaves
   no part of the entity in any of them - no lookup finds it, no index kept for the family (the child stores' own
   unique / set indexes included) points at it (from C06's delete_leaves_no_trace). *)
From Coq Require Import List NArith Bool.
From Storage Require Import Base.Bytes Base.BytesFacts Store.Model Store.AListFacts Store.WfSchema Store.ChildProofs Store.Lookups.
From Storage Require Import Store.NoTrace Store.NoTraceInv Store.NoTraceWrite Store.NoTraceWf Store.NoTraceProofs.
Import ListNotations.

(* ---- the two bucket functions are [present] and [loadable], for every schema and store *)
Lemma entity_bucket_present sch st s i : is_some (entity_bucket sch st s i) = present sch st s i.
Proof.
  unfold entity_bucket, present. destruct (get_ent st (root_of sch s) i) as [e|]; [|reflexivity].
  destruct (is_child sch s); [|reflexivity]. destruct (al_get s (e_c e)); reflexivity.
Qed.

Lemma entity_bucket_for_load_loadable sch st s i :
  is_some (entity_bucket_for_load sch st s i) = loadable sch st s i.
Proof.
  unfold entity_bucket_for_load, loadable. rewrite <- !entity_bucket_present.
  destruct (entity_bucket sch st s i) as [b|]; [reflexivity|]. cbn.
  destruct (is_ext sch s); [|reflexivity]. destruct (entity_bucket sch st (root_of sch s) i); reflexivity.
Qed.

Lemma lk_find_loadable sch st s i : lk_find_by_id sch st s i = loadable sch st s i.
Proof.
  rewrite <- entity_bucket_for_load_loadable. unfold lk_find_by_id. destruct (entity_bucket_for_load sch st s i); reflexivity.
Qed.
Lemma lk_load_loadable sch st s i : lk_load_by_id sch st s i = loadable sch st s i.
Proof. exact (lk_find_loadable sch st s i). Qed.
Lemma lk_load_entity_loadable sch st s i : lk_load_entity sch st s i = loadable sch st s i.
Proof. exact (lk_find_loadable sch st s i). Qed.
Lemma lk_present_present sch st s i : lk_is_entity_present sch st s i = present sch st s i.
Proof. exact (entity_bucket_present sch st s i). Qed.
Lemma lk_bucket_present sch st s i : lk_bucket sch st s i = present sch st s i.
Proof. exact (entity_bucket_present sch st s i). Qed.

Lemma existsb_mem (l : list id) i : existsb (fun j => str_eqb j i) l = true <-> In i l.
Proof.
  rewrite existsb_exists. split.
  - intros [j [Hj E]]. apply str_eqb_eq in E. subst. exact Hj.
  - intros H. exists i. split; [exact H | apply str_eqb_refl].
Qed.

Lemma bool_iff_eq (a b : bool) : (a = true <-> b = true) -> a = b.
Proof. destruct a, b; intros [H1 H2]; try reflexivity; [symmetry; apply H1; reflexivity | apply H2; reflexivity]. Qed.

Lemma present_root_in_ids sch r pd st i :
  find_store sch r = Some pd -> sd_parent pd = None -> (present sch st r i = true <-> In i (ids_of st r)).
Proof.
  intros H1 H3.
  assert (root_of sch r = r) as Hrr by (unfold root_of; rewrite H1, H3; reflexivity).
  assert (is_child sch r = false) as Hcr by (unfold is_child; rewrite H1, H3; reflexivity).
  unfold present, ids_of. rewrite Hrr, Hcr. rewrite <- al_get_keys. unfold get_ent.
  destruct (al_get i (ents st r)); split; intros X; try reflexivity; congruence.
Qed.

(* ---- agreement of all variants, per store kind *)
Lemma lookups_agree_closed sch r c st i :
  wf_child_b sch r c = true ->
  (* through the parent store every variant answers "i is an entity of r" *)
  (lk_find_by_id sch st r i = present sch st r i /\ lk_load_by_id sch st r i = present sch st r i /\
   lk_load_entity sch st r i = present sch st r i /\ lk_is_entity_present sch st r i = present sch st r i /\
   lk_bucket sch st r i = present sch st r i /\ lk_valid_id sch st r i = present sch st r i /\
   lk_queried sch st r i = present sch st r i) /\
  (* through a child store of either kind: the bucket-level variants answer "i has child data in c" *)
  (lk_is_entity_present sch st c i = present sch st c i /\ lk_bucket sch st c i = present sch st c i /\
   lk_valid_id sch st c i = present sch st c i) /\
  (* ... and the three loading variants give one and the same answer, [loadable] *)
  (lk_find_by_id sch st c i = loadable sch st c i /\ lk_load_by_id sch st c i = loadable sch st c i /\
   lk_load_entity sch st c i = loadable sch st c i) /\
  (* plain child store: that answer is "has child data", and so is the query's *)
  (is_ext sch c = false -> loadable sch st c i = present sch st c i /\ lk_queried sch st c i = present sch st c i) /\
  (* extended child store: that answer is "is an entity of the parent", and so is the query's *)
  (is_ext sch c = true -> loadable sch st c i = present sch st r i /\ lk_queried sch st c i = present sch st r i) /\
  (present sch st c i = true -> present sch st r i = true).
Proof.
  intros Hwf. pose proof (child_query_only_children_closed sch r c st Hwf) as [Q1 [Q2 [Q3 [Q4 [Q5 [Q6 Q7]]]]]].
  destruct (wf_child_b_sound _ _ _ Hwf) as [pd [cd [H1 [H2 [H3 [H4 H5]]]]]].
  assert (root_of sch r = r) as Hrr by (unfold root_of; rewrite H1, H3; reflexivity).
  assert (root_of sch c = r) as Hrc by (unfold root_of; rewrite H2, H4; reflexivity).
  assert (is_child sch r = false) as Hcr by (unfold is_child; rewrite H1, H3; reflexivity).
  assert (is_ext sch r = false \/ is_ext sch r = true) as Her by (destruct (is_ext sch r); auto).
  assert (loadable sch st r i = present sch st r i) as Hlr.
  { unfold loadable. rewrite Hrr. destruct (present sch st r i), (is_ext sch r); reflexivity. }
  assert (forall s, lk_valid_id sch st s i = true <-> In i (valid_ids sch st s)) as Hv by (intros s; apply existsb_mem).
  assert (forall s, lk_queried sch st s i = true <-> In i (query_ids sch st s)) as Hq by (intros s; apply existsb_mem).
  pose proof (present_root_in_ids sch r pd st i H1 H3) as Hin.
  split.
  { rewrite lk_find_loadable, lk_load_loadable, lk_load_entity_loadable, lk_present_present, lk_bucket_present, Hlr.
    repeat split; try reflexivity.
    - apply bool_iff_eq. rewrite Hv. unfold valid_ids. rewrite Hcr, Hrr. rewrite filter_In. rewrite Hin. tauto.
    - apply bool_iff_eq. rewrite Hq, Q3. symmetry. exact Hin. }
  split.
  { rewrite lk_present_present, lk_bucket_present. repeat split; try reflexivity.
    apply bool_iff_eq. rewrite Hv. apply Q4. }
  split.
  { rewrite lk_find_loadable, lk_load_loadable, lk_load_entity_loadable. repeat split; reflexivity. }
  split.
  { intros E. split.
    - unfold loadable. rewrite E. cbn. destruct (present sch st c i); reflexivity.
    - apply bool_iff_eq. rewrite Hq. apply (Q1 E). }
  split.
  { intros E. split.
    - unfold loadable. rewrite E, Hrc. cbn. destruct (present sch st c i) eqn:P; [|reflexivity].
      symmetry. apply Q7. exact P.
    - apply bool_iff_eq. rewrite Hq, (Q2 E), Q3. symmetry. exact Hin. }
  exact (Q7 i).
Qed.

(* ---- the string-list helpers of the parent store show the stored set; through a child store they show nothing of
   a set the child store does not keep itself *)
Lemma related_agree_closed sch r c st i f :
  wf_child_b sch r c = true ->
  lk_related sch st r i f = get_set sch st r i f /\
  (child_owns_set sch c f = false -> lk_related sch st c i f = []) /\
  (forall x, lk_is_related sch st r i f x = true <-> In x (get_set sch st r i f)).
Proof.
  intros Hwf. destruct (wf_child_b_sound _ _ _ Hwf) as [pd [cd [H1 [H2 [H3 [H4 H5]]]]]].
  assert (root_of sch r = r) as Hrr by (unfold root_of; rewrite H1, H3; reflexivity).
  assert (is_child sch r = false) as Hcr by (unfold is_child; rewrite H1, H3; reflexivity).
  assert (lk_related sch st r i f = get_set sch st r i f) as A.
  { unfold lk_related, entity_bucket, get_set. rewrite Hrr, Hcr. destruct (get_ent st r i); reflexivity. }
  split; [exact A|]. split.
  - intros E. assert (is_child sch c = true) as Hcc by (unfold is_child; rewrite H2, H4; reflexivity).
    unfold lk_related, entity_bucket. rewrite Hcc. destruct (get_ent st (root_of sch c) i) as [e|]; [|reflexivity].
    destruct (al_get c (e_c e)); [rewrite E|]; reflexivity.
  - intros x. unfold lk_is_related. rewrite A. apply existsb_mem.
Qed.

(* ---- several child stores: a delete through ANY store of the family removes every part *)
Lemma delete_removes_every_part_closed sch fuel (txs : list tx) oc fuel' evs r c s0 x st' evs' :
  wf_notrace_b sch = true -> wf_child_b sch r c = true -> root_of sch s0 = r ->
  delete_by_id sch oc fuel' (run_txs sch fuel st_empty txs, evs) s0 x = Ok (st', evs') ->
  (* no lookup variant finds the id, through the parent or through the child store c - whichever child store of r c is,
     whichever store of the family the delete entered through *)
  (present sch st' r x = false /\ present sch st' c x = false /\ loadable sch st' c x = false /\
   lk_find_by_id sch st' r x = false /\ lk_find_by_id sch st' c x = false /\
   lk_load_entity sch st' c x = false /\ lk_is_entity_present sch st' c x = false /\
   lk_valid_id sch st' c x = false /\ lk_queried sch st' c x = false) /\
  (* no unique index kept under the family (the parent's AND every child store's own) holds an entry pointing at the id *)
  (forall f v, al_get v (uidx st' r f) <> Some x) /\
  (* no set-index bucket of the family lists it *)
  (forall f v, ~ In x (sbucket st' r f v)) /\
  (* no back-reference set of a foreign-key index declared on ANY store of the family (a child store's included) *)
  (forall s f t b nl ti, root_of sch s = r -> In (CFkIndex f t b nl) (cons_of sch s) -> ~ In x (eset st' (root_of sch t) ti b)).
Proof.
  intros Hnt Hwf Hroot Hdel.
  pose proof (final_delete_no_trace sch Hnt fuel txs oc fuel' evs s0 x st' evs' Hdel) as Hm. rewrite Hroot in Hm.
  destruct (wf_child_b_sound _ _ _ Hwf) as [pd [cd [H1 [H2 [H3 [H4 H5]]]]]].
  assert (root_of sch r = r) as Hrr by (unfold root_of; rewrite H1, H3; reflexivity).
  assert (root_of sch c = r) as Hrc by (unfold root_of; rewrite H2, H4; reflexivity).
  assert (get_ent st' r x = None) as Hg.
  { destruct (get_ent st' r x) eqn:G; [|reflexivity]. exfalso. apply Hm. left. congruence. }
  assert (present sch st' r x = false) as Pr by (unfold present; rewrite Hrr, Hg; reflexivity).
  assert (present sch st' c x = false) as Pc by (unfold present; rewrite Hrc, Hg; reflexivity).
  assert (loadable sch st' c x = false) as Lc by (unfold loadable; rewrite Pc, Hrc, Pr; destruct (is_ext sch c); reflexivity).
  assert (loadable sch st' r x = false) as Lr by (unfold loadable; rewrite Hrr, Pr; destruct (is_ext sch r); reflexivity).
  pose proof (lookups_agree_closed sch r c st' x Hwf) as [_ [[_ [_ V]] [_ [QP [QE _]]]]].
  split.
  { repeat split; try assumption.
    - rewrite lk_find_loadable. exact Lr.
    - rewrite lk_find_loadable. exact Lc.
    - rewrite lk_load_entity_loadable. exact Lc.
    - rewrite lk_present_present. exact Pc.
    - rewrite V. exact Pc.
    - destruct (is_ext sch c) eqn:E.
      + destruct (QE eq_refl) as [_ Q]. rewrite Q. exact Pr.
      + destruct (QP eq_refl) as [_ Q]. rewrite Q. exact Pc. }
  split; [intros f v Hu; apply Hm; right; left; exists f, v; exact Hu|].
  split; [intros f v Hs; apply Hm; right; right; left; exists f, v; exact Hs|].
  intros s f t b nl ti Hs Hc Hin. apply Hm. right; right; right; left. exists s, f, t, b, nl, ti. repeat split; assumption.
Qed.
