(* C06 - the boolean well-formedness check wf_notrace_b implies the schema properties the proofs use,
   so the theorems apply to concrete schemas (the wirings of the harness) by computation. *)
From Coq Require Import List NArith Bool Lia.
From Storage Require Import Base.Bytes Base.BytesFacts Store.Model Store.AListFacts Store.NoTrace Store.NoTraceFacts Store.NoTraceInv.
Import ListNotations.

Lemma nt_nodupb_NoDup l : nt_nodupb l = true -> NoDup l.
Proof.
  induction l as [|x l IH]; cbn; intros H; [constructor|].
  apply andb_prop in H as [H1 H2]. apply negb_true_iff in H1. constructor; [|apply IH; exact H2].
  intros Hin. apply ss_mem_in in Hin. congruence.
Qed.

Lemma NoDup_app_remove_l {A} (l l' : list A) : NoDup (l ++ l') -> NoDup l'.
Proof. induction l as [|x l IH]; cbn; intros H; [exact H|]. inversion H; subst. apply IH. assumption. Qed.

Lemma NoDup_app_remove_r {A} (l l' : list A) : NoDup (l ++ l') -> NoDup l.
Proof.
  induction l as [|x l IH]; cbn; intros H; [constructor|]. inversion H as [|? ? Hx Hn]; subst. constructor; [|apply IH; exact Hn].
  intros Hin. apply Hx. apply in_or_app. left. exact Hin.
Qed.

Lemma NoDup_app_disj {A} (a b : list A) x : NoDup (a ++ b) -> In x a -> In x b -> False.
Proof.
  induction a as [|y a IH]; cbn; intros Hn Ha Hb; [contradiction|].
  inversion Hn as [|? ? Hy Hn']; subst. destruct Ha as [->|Ha].
  - apply Hy. apply in_or_app. right. exact Hb.
  - exact (IH Hn' Ha Hb).
Qed.

Lemma NoDup_flat_map_inj {A B} (g : A -> list B) l a b x :
  NoDup (flat_map g l) -> In a l -> In b l -> In x (g a) -> In x (g b) -> a = b.
Proof.
  induction l as [|c l IH]; cbn; intros Hn Ha Hb Hxa Hxb; [contradiction|].
  pose proof (NoDup_app_remove_l _ _ Hn) as Hn'.
  destruct Ha as [->|Ha], Hb as [->|Hb]; [reflexivity | | | exact (IH Hn' Ha Hb Hxa Hxb)].
  - exfalso. eapply (NoDup_app_disj _ _ x Hn); [exact Hxa | apply in_flat_map; exists b; split; assumption].
  - exfalso. eapply (NoDup_app_disj _ _ x Hn); [exact Hxb | apply in_flat_map; exists a; split; assumption].
Qed.

Lemma NoDup_map_inj {A B} (g : A -> B) l a b : NoDup (map g l) -> In a l -> In b l -> g a = g b -> a = b.
Proof.
  induction l as [|c l IH]; cbn; intros Hn Ha Hb Hg; [contradiction|].
  inversion Hn as [|? ? Hc Hn']; subst.
  destruct Ha as [->|Ha], Hb as [->|Hb]; [reflexivity | | | exact (IH Hn' Ha Hb Hg)].
  - exfalso. apply Hc. rewrite Hg. apply in_map. exact Hb.
  - exfalso. apply Hc. rewrite <- Hg. apply in_map. exact Ha.
Qed.

Lemma find_store_in sch x d : find_store sch x = Some d -> In d sch /\ sd_name d = x.
Proof.
  induction sch as [|d0 sch IH]; cbn; [discriminate|].
  destruct (str_eqb (sd_name d0) x) eqn:E.
  - intros H; inversion H; subst. apply str_eqb_eq in E. split; [left; reflexivity | exact E].
  - intros H. destruct (IH H) as [A B]. split; [right; exact A | exact B].
Qed.

Lemma find_store_nodup sch d : NoDup (map sd_name sch) -> In d sch -> find_store sch (sd_name d) = Some d.
Proof.
  induction sch as [|d0 sch IH]; cbn; intros Hn Hin; [contradiction|].
  inversion Hn as [|? ? Hd Hn']; subst. destruct Hin as [->|Hin].
  - rewrite str_eqb_refl. reflexivity.
  - destruct (str_eqb (sd_name d0) (sd_name d)) eqn:E; [|apply IH; assumption].
    apply str_eqb_eq in E. exfalso. apply Hd. rewrite E. apply in_map. exact Hin.
Qed.

Section Sound.
  Variable sch : schema.
  Hypothesis Hwf : wf_notrace_b sch = true.

  Lemma wf_parts : NoDup (map sd_name sch) /\ nt_wf_parents sch = true /\
                   (forall d, In d sch -> wf_child sch d = true) /\ (forall d, In d sch -> wf_root sch d = true).
  Proof.
    unfold wf_notrace_b in Hwf. apply andb_prop in Hwf as [H H4]. apply andb_prop in H as [H H3]. apply andb_prop in H as [H1 H2].
    split; [apply nt_nodupb_NoDup; exact H1|]. split; [exact H2|]. rewrite forallb_forall in H3, H4. split; assumption.
  Qed.

  Let Hnames := proj1 wf_parts.
  Let Hparents := proj1 (proj2 wf_parts).
  Let Hchild := proj1 (proj2 (proj2 wf_parts)).
  Let Hroot := proj2 (proj2 (proj2 wf_parts)).

  Lemma cons_of_in s k : In k (cons_of sch s) -> exists d, find_store sch s = Some d /\ In d sch /\ sd_name d = s /\ In k (sd_cons d).
  Proof.
    unfold cons_of. destruct (find_store sch s) as [d|] eqn:E; [|contradiction]. intros H.
    destruct (find_store_in _ _ _ E) as [A B]. exists d. repeat split; assumption.
  Qed.

  Lemma links_of_in s l : In l (links_of sch s) -> exists d, find_store sch s = Some d /\ In d sch /\ sd_name d = s /\ In l (sd_links d).
  Proof.
    unfold links_of. destruct (find_store sch s) as [d|] eqn:E; [|contradiction]. intros H.
    destruct (find_store_in _ _ _ E) as [A B]. exists d. repeat split; assumption.
  Qed.

  Lemma is_rootb_decl t : is_rootb sch t = true -> exists d, find_store sch t = Some d /\ In d sch /\ sd_name d = t /\ sd_parent d = None.
  Proof.
    unfold is_rootb. destruct (find_store sch t) as [d|] eqn:E; [|discriminate]. destruct (sd_parent d) eqn:Ep; [discriminate|]. intros _.
    destruct (find_store_in _ _ _ E) as [A B]. exists d. repeat split; assumption.
  Qed.

  Lemma child_facts d p : In d sch -> sd_parent d = Some p ->
    is_rootb sch p = true /\
    (forall k, In k (sd_cons d) -> match k with CUnique f _ => declares_field d f = true | CSystem => True | _ => False end) /\
    sd_links d = [].
  Proof.
    intros Hin Hp. pose proof (Hchild d Hin) as H. unfold wf_child in H. rewrite Hp in H.
    apply andb_prop in H as [H H3]. apply andb_prop in H as [H1 H2]. split; [exact H1|]. split.
    - intros k Hk. rewrite forallb_forall in H2. specialize (H2 k Hk). destruct k; try discriminate; auto.
    - destruct (sd_links d); [reflexivity | discriminate].
  Qed.

  Lemma root_facts d : In d sch -> sd_parent d = None ->
    NoDup (flat_map (fun c => unique_fields (sd_cons c)) (family sch (sd_name d))) /\
    NoDup (setidx_fields (sd_cons d)) /\
    NoDup (sd_sets d ++ backrefs_on sch (sd_name d) ++ link_locals d) /\
    (forall k, In k (sd_cons d) -> wf_cons sch d k = true) /\
    (forall lf os of_, In (lf, os, of_) (sd_links d) -> is_rootb sch os = true /\ In (of_, sd_name d, lf) (links_of sch os)).
  Proof.
    intros Hin Hp. pose proof (Hroot d Hin) as H. unfold wf_root in H. rewrite Hp in H.
    apply andb_prop in H as [H H5]. apply andb_prop in H as [H H4]. apply andb_prop in H as [H H3]. apply andb_prop in H as [H1 H2].
    split; [apply nt_nodupb_NoDup; exact H1|]. split; [apply nt_nodupb_NoDup; exact H2|]. split; [apply nt_nodupb_NoDup; exact H3|].
    split; [rewrite forallb_forall in H4; exact H4|].
    intros lf os of_ Hl. rewrite forallb_forall in H5. specialize (H5 _ Hl). cbn in H5. apply andb_prop in H5 as [A B].
    split; [exact A|]. apply existsb_exists in B as [[[a b] c] [Hin' Heq]]. unfold name3_eqb in Heq.
    apply andb_prop in Heq as [Heq E3]. apply andb_prop in Heq as [E1 E2]. apply str_eqb_eq in E1, E2, E3. subst. exact Hin'.
  Qed.

  Lemma root_of_decl s d : find_store sch s = Some d -> root_of sch s = match sd_parent d with Some p => p | None => s end.
  Proof. intros H. unfold root_of. rewrite H. reflexivity. Qed.

  Lemma not_child_root p : is_child sch p = false -> root_of sch p = p.
  Proof.
    unfold is_child, root_of. destruct (find_store sch p) as [dp|]; [|reflexivity]. destruct (sd_parent dp); [discriminate | reflexivity].
  Qed.

  Lemma parent_not_child d p : In d sch -> sd_parent d = Some p -> is_child sch p = false.
  Proof.
    intros Hin Hp. unfold nt_wf_parents in Hparents. rewrite forallb_forall in Hparents. specialize (Hparents d Hin).
    rewrite Hp in Hparents. apply negb_true_iff in Hparents. exact Hparents.
  Qed.

  Lemma s_roots x : root_of sch (root_of sch x) = root_of sch x /\ is_child sch (root_of sch x) = false.
  Proof.
    destruct (find_store sch x) as [d|] eqn:Ef.
    - destruct (find_store_in _ _ _ Ef) as [Hin _]. rewrite (root_of_decl _ _ Ef). destruct (sd_parent d) as [p|] eqn:Ep.
      + pose proof (parent_not_child d p Hin Ep) as Hc. split; [apply not_child_root; exact Hc | exact Hc].
      + assert (is_child sch x = false) as Hc by (unfold is_child; rewrite Ef, Ep; reflexivity).
        split; [apply not_child_root; exact Hc | exact Hc].
    - assert (root_of sch x = x) as -> by (unfold root_of; rewrite Ef; reflexivity).
      assert (is_child sch x = false) as Hc by (unfold is_child; rewrite Ef; reflexivity).
      split; [apply not_child_root; exact Hc | exact Hc].
  Qed.

  (* a store that carries a constraint other than unique/system, or a link, is a declared root store *)
  Lemma root_decl_of_cons s k : In k (cons_of sch s) ->
    match k with CUnique _ _ => False | CSystem => False | _ => True end ->
    exists d, find_store sch s = Some d /\ In d sch /\ sd_name d = s /\ sd_parent d = None /\ In k (sd_cons d).
  Proof.
    intros Hin Hk. destruct (cons_of_in s k Hin) as [d [A [B [C D]]]]. exists d. repeat split; try assumption.
    destruct (sd_parent d) as [p|] eqn:Ep; [|reflexivity]. exfalso.
    destruct (child_facts d p B Ep) as [_ [H _]]. specialize (H k D). destruct k; auto.
  Qed.

  Lemma isroot_decl s d : find_store sch s = Some d -> sd_parent d = None -> isroot sch s.
  Proof. intros A B. unfold isroot, is_child, root_of. rewrite A, B. split; reflexivity. Qed.

  Lemma in_backrefs_on d f t b nl : In d sch -> In (CFkIndex f t b nl) (sd_cons d) -> In b (backrefs_on sch t).
  Proof.
    intros Hd Hk. unfold backrefs_on. apply in_flat_map. exists d. split; [exact Hd|].
    apply in_flat_map. exists (CFkIndex f t b nl). split; [exact Hk|]. rewrite str_eqb_refl. left. reflexivity.
  Qed.

  Lemma in_link_locals d lf os of_ : In (lf, os, of_) (sd_links d) -> In lf (link_locals d).
  Proof. intros H. unfold link_locals. apply in_map_iff. exists (lf, os, of_). split; [reflexivity | exact H]. Qed.

  Lemma in_setidx_sets d f : In d sch -> sd_parent d = None -> In (CSetIdx f) (sd_cons d) -> In f (sd_sets d).
  Proof.
    intros Hd Hp Hk. destruct (root_facts d Hd Hp) as [_ [_ [_ [H _]]]]. specialize (H _ Hk). cbn in H. apply ss_mem_in. exact H.
  Qed.

  Lemma family_in r d : In d sch -> (sd_name d = r \/ sd_parent d = Some r) -> In d (family sch r).
  Proof.
    intros Hd H. unfold family. apply filter_In. split; [exact Hd|]. destruct H as [<- | ->]; [rewrite str_eqb_refl; reflexivity|].
    rewrite str_eqb_refl. apply orb_true_r.
  Qed.

  Theorem wf_notrace_b_sound : wfprops sch.
  Proof.
    constructor.
    - (* roots *) intros x. apply s_roots.
    - intros x. apply s_roots.
    - (* children *)
      intros r0 d Hin. unfold children_of in Hin. apply filter_In in Hin as [Hin Hp].
      destruct (sd_parent d) as [p|] eqn:Ep; [|discriminate]. apply str_eqb_eq in Hp. subst p.
      rewrite (root_of_decl _ _ (find_store_nodup _ _ Hnames Hin)), Ep. reflexivity.
    - (* cons_root *)
      intros s k Hin. destruct k; try exact I;
        (destruct (root_decl_of_cons s _ Hin I) as [d [A [_ [_ [B _]]]]]; exact (isroot_decl s d A B)).
    - (* uchild *)
      intros s d f nl Hc Hf Hin. unfold cons_of in Hin. rewrite Hf in Hin. destruct (find_store_in _ _ _ Hf) as [Hd _].
      unfold is_child in Hc. rewrite Hf in Hc. destruct (sd_parent d) as [p|] eqn:Ep; [|discriminate].
      destruct (child_facts d p Hd Ep) as [_ [H _]]. exact (H _ Hin).
    - (* uown *)
      intros s s' f nl nl' Hr Hin Hin'.
      destruct (cons_of_in s _ Hin) as [d [A [B [C D]]]]. destruct (cons_of_in s' _ Hin') as [d' [A' [B' [C' D']]]].
      set (r := root_of sch s) in *.
      (* the declared root store of the family *)
      assert (exists dr, In dr sch /\ sd_name dr = r /\ sd_parent dr = None) as [dr [Hdr [Hnr Hpr]]].
      { unfold r. rewrite (root_of_decl _ _ A). destruct (sd_parent d) as [p|] eqn:Ep.
        - destruct (child_facts d p B Ep) as [Hrp _]. destruct (is_rootb_decl p Hrp) as [dp [_ [X [Y Z]]]]. exists dp. repeat split; assumption.
        - exists d. repeat split; assumption. }
      assert (In d (family sch r)) as Hfd.
      { apply family_in; [exact B|]. unfold r. rewrite (root_of_decl _ _ A). destruct (sd_parent d); [right; reflexivity | left; exact C]. }
      assert (In d' (family sch r)) as Hfd'.
      { apply family_in; [exact B'|]. rewrite Hr. rewrite (root_of_decl _ _ A'). destruct (sd_parent d'); [right; reflexivity | left; exact C']. }
      destruct (root_facts dr Hdr Hpr) as [Hnd _]. rewrite Hnr in Hnd.
      assert (d = d') as <-.
      { eapply (NoDup_flat_map_inj _ _ d d' f Hnd Hfd Hfd').
        - unfold unique_fields. apply in_flat_map. exists (CUnique f nl). split; [exact D | left; reflexivity].
        - unfold unique_fields. apply in_flat_map. exists (CUnique f nl'). split; [exact D' | left; reflexivity]. }
      congruence.
    - (* fk_t *)
      intros s f t b nl Hin. destruct (root_decl_of_cons s _ Hin I) as [d [_ [Hd [_ [Hp Hk]]]]].
      destruct (root_facts d Hd Hp) as [_ [_ [_ [H _]]]]. specialize (H _ Hk). cbn in H.
      apply andb_prop in H as [H _]. apply andb_prop in H as [H _]. destruct (is_rootb_decl t H) as [dt [A [_ [_ B]]]]. exact (isroot_decl t dt A B).
    - (* fc_t *)
      intros s f t nl Hin. destruct (root_decl_of_cons s _ Hin I) as [d [_ [Hd [_ [Hp Hk]]]]].
      destruct (root_facts d Hd Hp) as [_ [_ [_ [H _]]]]. specialize (H _ Hk). cbn in H.
      apply andb_prop in H as [H _]. apply andb_prop in H as [H _]. destruct (is_rootb_decl t H) as [dt [A [_ [_ B]]]]. exact (isroot_decl t dt A B).
    - (* fk_guard *)
      intros s f t b nl Hin. destruct (root_decl_of_cons s _ Hin I) as [d [_ [Hd [Hn [Hp Hk]]]]].
      destruct (root_facts d Hd Hp) as [_ [_ [_ [H _]]]]. specialize (H _ Hk). cbn in H.
      apply andb_prop in H as [_ H]. apply existsb_exists in H as [k' [Hk' Hm]].
      destruct k'; try discriminate.
      + apply str_eqb_eq in Hm. subst. left. exact Hk'.
      + apply andb_prop in Hm as [E1 E2]. apply str_eqb_eq in E1, E2. subst. right. eexists. exact Hk'.
    - (* fc_guard *)
      intros s f t nl Hin. destruct (root_decl_of_cons s _ Hin I) as [d [_ [Hd [Hn [Hp Hk]]]]].
      destruct (root_facts d Hd Hp) as [_ [_ [_ [H _]]]]. specialize (H _ Hk). cbn in H.
      apply andb_prop in H as [_ H]. apply existsb_exists in H as [k' [Hk' Hm]].
      destruct k'; try discriminate.
      apply andb_prop in Hm as [E1 E2]. apply str_eqb_eq in E1, E2. subst. eexists. exact Hk'.
    - (* buniq *)
      intros s s' f f' t b nl nl' Hin Hin'.
      destruct (root_decl_of_cons s _ Hin I) as [d [_ [Hd [Hn [Hp Hk]]]]].
      destruct (root_decl_of_cons s' _ Hin' I) as [d' [_ [Hd' [Hn' [Hp' Hk']]]]].
      destruct (root_facts d Hd Hp) as [_ [_ [_ [H _]]]]. specialize (H _ Hk). cbn in H.
      apply andb_prop in H as [H _]. apply andb_prop in H as [H _]. destruct (is_rootb_decl t H) as [dt [_ [Hdt [Hnt Hpt]]]].
      destruct (root_facts dt Hdt Hpt) as [_ [_ [Hnd _]]]. rewrite Hnt in Hnd.
      pose proof (NoDup_app_remove_r _ _ (NoDup_app_remove_l _ _ Hnd)) as Hb. unfold backrefs_on in Hb.
      set (g := fun k => match k with CFkIndex _ t' b0 _ => if str_eqb t' t then [b0] else [] | _ => [] end) in *.
      assert (Hg : forall f0 nl0, In b (g (CFkIndex f0 t b nl0))) by (intros; cbn; rewrite str_eqb_refl; left; reflexivity).
      assert (d = d') as <-.
      { eapply (NoDup_flat_map_inj _ _ d d' b Hb Hd Hd'); apply in_flat_map.
        - exists (CFkIndex f t b nl). split; [exact Hk | apply Hg].
        - exists (CFkIndex f' t b nl'). split; [exact Hk' | apply Hg]. }
      split; [congruence|].
      (* within one store: the inner flat_map is duplicate free as well *)
      assert (NoDup (flat_map g (sd_cons d))) as Hinner.
      { clear - Hb Hd. induction sch as [|d0 l IH]; [contradiction|]. cbn in Hb. destruct Hd as [->|Hd].
        - exact (NoDup_app_remove_r _ _ Hb).
        - apply IH; [exact Hd | exact (NoDup_app_remove_l _ _ Hb)]. }
      pose proof (NoDup_flat_map_inj _ _ _ _ b Hinner Hk Hk' (Hg f nl) (Hg f' nl')) as E. inversion E. reflexivity.
    - (* link_root *)
      intros s lf os of_ Hin. destruct (links_of_in s _ Hin) as [d [A [B [C D]]]].
      destruct (sd_parent d) as [p|] eqn:Ep.
      + destruct (child_facts d p B Ep) as [_ [_ H]]. rewrite H in D. contradiction.
      + split; [exact (isroot_decl s d A Ep)|]. destruct (root_facts d B Ep) as [_ [_ [_ [_ H]]]]. destruct (H _ _ _ D) as [H1 _].
        destruct (is_rootb_decl os H1) as [dt [X [_ [_ Y]]]]. exact (isroot_decl os dt X Y).
    - (* link_sym *)
      intros s lf os of_ Hin. destruct (links_of_in s _ Hin) as [d [A [B [C D]]]].
      destruct (sd_parent d) as [p|] eqn:Ep.
      + destruct (child_facts d p B Ep) as [_ [_ H]]. rewrite H in D. contradiction.
      + destruct (root_facts d B Ep) as [_ [_ [_ [_ H]]]]. destruct (H _ _ _ D) as [_ H2]. rewrite C in H2. exact H2.
    - (* link_uniq *)
      intros s lf os of_ os' of' Hin Hin'. destruct (links_of_in s _ Hin) as [d [A [B [C D]]]].
      unfold links_of in Hin'. rewrite A in Hin'.
      destruct (sd_parent d) as [p|] eqn:Ep.
      + destruct (child_facts d p B Ep) as [_ [_ H]]. rewrite H in D. contradiction.
      + destruct (root_facts d B Ep) as [_ [_ [Hnd _]]].
        pose proof (NoDup_app_remove_l _ _ (NoDup_app_remove_l _ _ Hnd)) as Hl. unfold link_locals in Hl.
        pose proof (NoDup_map_inj _ _ _ _ Hl D Hin' eq_refl) as E. inversion E. split; reflexivity.
    - (* disj_sb *)
      intros r f0 s f b nl Hc Hk. destruct (root_decl_of_cons r _ Hc I) as [dr [_ [Hdr [Hnr [Hpr Hcr]]]]].
      destruct (root_decl_of_cons s _ Hk I) as [d [_ [Hd [_ [_ Hkd]]]]].
      destruct (root_facts dr Hdr Hpr) as [_ [_ [Hnd _]]]. rewrite Hnr in Hnd. intros ->.
      apply (NoDup_app_disj _ _ b Hnd); [apply (in_setidx_sets dr b Hdr Hpr Hcr) | apply in_or_app; left; eapply in_backrefs_on; eauto].
    - (* disj_sl *)
      intros r f0 lf os of_ Hc Hl. destruct (root_decl_of_cons r _ Hc I) as [dr [Ar [Hdr [Hnr [Hpr Hcr]]]]].
      unfold links_of in Hl. rewrite Ar in Hl.
      destruct (root_facts dr Hdr Hpr) as [_ [_ [Hnd _]]]. intros ->.
      apply (NoDup_app_disj _ _ lf Hnd); [apply (in_setidx_sets dr lf Hdr Hpr Hcr) | apply in_or_app; right; eapply in_link_locals; eauto].
    - (* disj_bl *)
      intros r s f b nl lf os of_ Hk Hl. destruct (links_of_in r _ Hl) as [dr [Ar [Hdr [Hnr Hlr]]]].
      destruct (root_decl_of_cons s _ Hk I) as [d [_ [Hd [_ [_ Hkd]]]]].
      destruct (sd_parent dr) as [p|] eqn:Ep.
      + destruct (child_facts dr p Hdr Ep) as [_ [_ H]]. rewrite H in Hlr. contradiction.
      + destruct (root_facts dr Hdr Ep) as [_ [_ [Hnd _]]]. rewrite Hnr in Hnd. intros ->.
        apply (NoDup_app_disj _ _ lf (NoDup_app_remove_l _ _ Hnd)); [eapply in_backrefs_on; eauto | eapply in_link_locals; eauto].
    - (* sets_b *)
      intros r d s f b nl Hf Hk Hin. destruct (find_store_in _ _ _ Hf) as [Hd Hn].
      destruct (root_decl_of_cons s _ Hk I) as [ds [_ [Hds [_ [Hps Hkd]]]]].
      destruct (root_facts ds Hds Hps) as [_ [_ [_ [H _]]]]. specialize (H _ Hkd). cbn in H.
      apply andb_prop in H as [H _]. apply andb_prop in H as [H _]. unfold is_rootb in H. rewrite Hf in H.
      destruct (sd_parent d) eqn:Ep; [discriminate|].
      destruct (root_facts d Hd Ep) as [_ [_ [Hnd _]]]. rewrite Hn in Hnd.
      apply (NoDup_app_disj _ _ b Hnd Hin). apply in_or_app. left. eapply in_backrefs_on; eauto.
    - (* sets_l *)
      intros r d lf os of_ Hf Hl Hin. destruct (find_store_in _ _ _ Hf) as [Hd Hn].
      destruct (sd_parent d) as [p|] eqn:Ep.
      + destruct (child_facts d p Hd Ep) as [_ [_ H]]. rewrite H in Hl. contradiction.
      + destruct (root_facts d Hd Ep) as [_ [_ [Hnd _]]].
        apply (NoDup_app_disj _ _ lf Hnd Hin). apply in_or_app. right. eapply in_link_locals; eauto.
    - (* fk_nosys *)
      intros s f t b nl Hin. destruct (root_decl_of_cons s _ Hin I) as [d [_ [Hd [_ [Hp Hk]]]]].
      destruct (root_facts d Hd Hp) as [_ [_ [_ [H _]]]]. specialize (H _ Hk). cbn in H.
      apply andb_prop in H as [H _]. apply andb_prop in H as [_ H]. apply negb_true_iff in H. apply str_eqb_neq in H. exact H.
    - (* fc_nosys *)
      intros s f t nl Hin. destruct (root_decl_of_cons s _ Hin I) as [d [_ [Hd [_ [Hp Hk]]]]].
      destruct (root_facts d Hd Hp) as [_ [_ [_ [H _]]]]. specialize (H _ Hk). cbn in H.
      apply andb_prop in H as [H _]. apply andb_prop in H as [_ H]. apply negb_true_iff in H. apply str_eqb_neq in H. exact H.
    - (* child_parent *)
      intros s d p Hf Hp. destruct (find_store_in _ _ _ Hf) as [Hd _]. destruct (child_facts d p Hd Hp) as [H _].
      destruct (is_rootb_decl p H) as [dp [A _]]. congruence.
  Qed.
End Sound.
